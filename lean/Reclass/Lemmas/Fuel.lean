/-
  Reclass.Lemmas.Fuel — facts about the fuel-indexed evaluator (`Model/Eval`, the 13-way
  mutual block) used by property C08:

  * unfolding equations (`interp_str`, `interpL_cons`, `tokResolve_ref`, …), all by `rfl`;
  * `monoAt` / `X_fuel_mono` / `X_fuel_mono_le`: the amount of fuel never changes an answer;
  * `growAt` / `depth_mono`: the resolution state only grows (depth, seen; `cur` unchanged);
  * `interp_wholeRef`, `interpEs_ok_all`, `interpL_ok_all`, `interpL_of_all`: reference chains
    and sibling isolation;
  * `namespace Termination`: string-freeness and the size measure `sz`, outputs of `interpolate`
    are string-free and never a layer list (`outAt`), re-interpolating string-free values never
    grows them (`inAt`), the parser's fuel is sufficient (`parse_noFuel`), and every evaluator
    call settles on a non-fuel outcome (`allConv`, `interp_terminates`).
-/
import Reclass.Model.Eval
namespace Reclass

/-! ## Unfolding equations (all by `rfl`) -/

theorem interp_succ (n : Nat) (root : Mapping) (v : Value) (st : RState) :
    interp (n+1) root v st =
    match v with
    | .str s =>
      match Token.parse s with
      | .error e => .error e
      | .ok none => .ok (.lit s, st)
      | .ok (some t) => tokRender n root t st
    | .map es ck ok =>
      match interpEs n root es ck ok st {} with
      | .error e => .error e
      | .ok m => .ok (m.toValue, st)
    | .seq l =>
      match interpL n root l 0 st with
      | .error e => .error e
      | .ok l' => .ok (.seq l', st)
    | .vl l =>
      match interpVl n root l .null st with
      | .error e => .error e
      | .ok r => interp n root r st
    | v => .ok (v, st) := by cases v <;> rfl

theorem interp_str (n : Nat) (root : Mapping) (s : Str) (st : RState) :
    interp (n+1) root (.str s) st =
      match Token.parse s with
      | .error e => .error e
      | .ok none => .ok (.lit s, st)
      | .ok (some t) => tokRender n root t st := rfl

theorem interp_map (n : Nat) (root : Mapping) (es ck ok) (st : RState) :
    interp (n+1) root (.map es ck ok) st =
      match interpEs n root es ck ok st {} with
      | .error e => .error e
      | .ok m => .ok (m.toValue, st) := rfl

theorem interp_seq (n : Nat) (root : Mapping) (l) (st : RState) :
    interp (n+1) root (.seq l) st =
      match interpL n root l 0 st with
      | .error e => .error e
      | .ok l' => .ok (.seq l', st) := rfl

theorem interp_vl (n : Nat) (root : Mapping) (l) (st : RState) :
    interp (n+1) root (.vl l) st =
      match interpVl n root l .null st with
      | .error e => .error e
      | .ok r => interp n root r st := rfl

theorem interpL_nil (n : Nat) (root : Mapping) (idx : Nat) (st : RState) :
    interpL (n+1) root [] idx st = .ok [] := rfl

theorem interpL_cons (n : Nat) (root : Mapping) (v : Value) (vs : List Value) (idx : Nat) (st : RState) :
    interpL (n+1) root (v :: vs) idx st =
      match interp n root v (st.pushListIndex idx) with
      | .error e => .error e
      | .ok (x, _) =>
        match interpL n root vs (idx + 1) st with
        | .error e => .error e
        | .ok xs => .ok (x :: xs) := rfl

theorem interpEs_nil (n : Nat) (root : Mapping) (ck ok : List Key) (st : RState) (acc : Mapping) :
    interpEs (n+1) root [] ck ok st acc = .ok acc := rfl

theorem interpEs_cons (n : Nat) (root : Mapping) (k : Key) (v : Value) (rest : List (Key × Value))
    (ck ok : List Key) (st : RState) (acc : Mapping) :
    interpEs (n+1) root ((k, v) :: rest) ck ok st acc =
      match interp n root v (st.pushMappingKey k) with
      | .error e => .error e
      | .ok (v', st') =>
        match flat v' st' with
        | .error e => .error e
        | .ok v'' =>
          match acc.insertImpl k v'' (decide (k ∈ ck)) (decide (k ∈ ok)) with
          | .error e => .error e
          | .ok acc' => interpEs n root rest ck ok st acc' := rfl

theorem interpVl_nil (n : Nat) (root : Mapping) (r : Value) (st : RState) :
    interpVl (n+1) root [] r st = .ok r := rfl

theorem interpVl_cons (n : Nat) (root : Mapping) (v : Value) (vs : List Value) (r : Value) (st : RState) :
    interpVl (n+1) root (v :: vs) r st =
      match interp n root v st with
      | .error e => .error e
      | .ok (x, st') =>
        match mergeV r x st' with
        | .error e => .error e
        | .ok r' => interpVl n root vs r' st := rfl

theorem tokRender_succ (n : Nat) (root : Mapping) (t : Token) (st : RState) :
    tokRender (n+1) root t st =
      match tokResolve n root t st with
      | .error e => .error e
      | .ok (v, st') =>
        match t with
        | .ref _ => interp n root v st'
        | _ =>
          match rawString v with
          | .error e => .error e
          | .ok s => .ok (.lit s, st') := rfl

theorem tokResolve_lit (n : Nat) (root : Mapping) (s : Str) (st : RState) :
    tokResolve (n+1) root (.lit s) st = .ok (.lit s, st) := rfl

theorem tokResolve_combined (n : Nat) (root : Mapping) (ts : List Token) (st : RState) :
    tokResolve (n+1) root (.combined ts) st =
      match slice n root ts st with
      | .error e => .error e
      | .ok s => .ok (.lit s, st) := rfl

theorem tokResolve_ref (n : Nat) (root : Mapping) (parts : List Token) (st : RState) :
    tokResolve (n+1) root (.ref parts) st =
      if st.depth + 1 > maxDepth then .error (.depth ({ st with depth := st.depth + 1 } : RState).curKey)
      else
        match slice n root parts { st with depth := st.depth + 1 } with
        | .error e => .error e
        | .ok path =>
          if path ∈ st.seen then .error .loop
          else
            match splitColon path with
            | [] => .error (.panic .splitEmpty)
            | k0 :: segs =>
              match root.get (.str k0) with
              | none => .error (.missingKey path k0
                  ({ st with depth := st.depth + 1, seen := path :: st.seen } : RState).curKey)
              | some v0 =>
                match descend n root v0 segs { st with depth := st.depth + 1, seen := path :: st.seen } path with
                | .error e => .error e
                | .ok (v, st3) => finalLoop n root v st3 := rfl

theorem descend_nil (n : Nat) (root : Mapping) (v : Value) (st : RState) (path : Str) :
    descend (n+1) root v [] st path = .ok (v, st) := rfl

theorem descend_cons (n : Nat) (root : Mapping) (v : Value) (key : Str) (rest : List Str)
    (st : RState) (path : Str) :
    descend (n+1) root v (key :: rest) st path =
      match interpStrOrVl n root v st with
      | .error e => .error e
      | .ok (newv, st') =>
        match newv with
        | .map es _ _ =>
          match lookup (.str key) es with
          | none => .error (.missingKey path key st'.curKey)
          | some v' => descend n root v' rest st' path
        | .str _ => .error (.panic .resolveNewvStrVl)
        | .vl _ => .error (.panic .resolveNewvStrVl)
        | _ => .error (.lookupInto path key st'.curKey) := rfl

theorem finalLoop_succ (n : Nat) (root : Mapping) (v : Value) (st : RState) :
    finalLoop (n+1) root v st =
      if v.isStr || v.isVl then
        match interp n root v st with
        | .error e => .error e
        | .ok (v', st') => finalLoop n root v' st'
      else .ok (v, st) := rfl

theorem interpStrOrVl_succ (n : Nat) (root : Mapping) (v : Value) (st : RState) :
    interpStrOrVl (n+1) root v st =
      match v with
      | .str s => interp n root (.str s) st
      | .vl l =>
        match layersStr n root l st with
        | .error e => .error e
        | .ok i =>
          match flatVl i .null st with
          | .error e => .error e
          | .ok r => .ok (r, st)
      | v => .ok (v, st) := by cases v <;> rfl

theorem layersStr_nil (n : Nat) (root : Mapping) (st : RState) :
    layersStr (n+1) root [] st = .ok [] := rfl

theorem layersStr_cons (n : Nat) (root : Mapping) (v : Value) (vs : List Value) (st : RState) :
    layersStr (n+1) root (v :: vs) st =
      match (if v.isStr then (match interp n root v st with
                              | .error e => .error e
                              | .ok (x, _) => .ok x) else .ok v : R Value) with
      | .error e => .error e
      | .ok x =>
        match layersStr n root vs st with
        | .error e => .error e
        | .ok xs => .ok (x :: xs) := rfl

theorem slice_nil (n : Nat) (root : Mapping) (st : RState) :
    slice (n+1) root [] st = .ok [] := rfl

theorem slice_cons (n : Nat) (root : Mapping) (t : Token) (ts : List Token) (st : RState) :
    slice (n+1) root (t :: ts) st =
      match tokResolve n root t st with
      | .error e => .error e
      | .ok (v, st') =>
        match strLoop n root v st' with
        | .error e => .error e
        | .ok (v', st'') =>
          match sliceFinish n root v' st'' with
          | .error e => .error e
          | .ok s =>
            match slice n root ts st with
            | .error e => .error e
            | .ok s' => .ok (s ++ s') := rfl

theorem strLoop_succ (n : Nat) (root : Mapping) (v : Value) (st : RState) :
    strLoop (n+1) root v st =
      if v.isStr then
        match interp n root v st with
        | .error e => .error e
        | .ok (v', st') => strLoop n root v' st'
      else .ok (v, st) := rfl

theorem sliceFinish_succ (n : Nat) (root : Mapping) (v : Value) (st : RState) :
    sliceFinish (n+1) root v st =
      if v.isMap || v.isSeq then
        match interp n root v st with
        | .error e => .error e
        | .ok (v', st') =>
          match flat v' st' with
          | .error e => .error e
          | .ok v'' => rawString v''
      else rawString v := rfl

/-! ## Fuel monotonicity -/

/-- "One more unit of fuel does not change a non-fuel answer", for all 13 functions at fuel `n`. -/
structure MonoAt (n : Nat) : Prop where
  interp : ∀ root v st, interp n root v st ≠ .error .fuel → interp (n+1) root v st = interp n root v st
  interpL : ∀ root l idx st, interpL n root l idx st ≠ .error .fuel →
    interpL (n+1) root l idx st = interpL n root l idx st
  interpEs : ∀ root es ck ok st acc, interpEs n root es ck ok st acc ≠ .error .fuel →
    interpEs (n+1) root es ck ok st acc = interpEs n root es ck ok st acc
  interpVl : ∀ root l r st, interpVl n root l r st ≠ .error .fuel →
    interpVl (n+1) root l r st = interpVl n root l r st
  tokRender : ∀ root t st, tokRender n root t st ≠ .error .fuel →
    tokRender (n+1) root t st = tokRender n root t st
  tokResolve : ∀ root t st, tokResolve n root t st ≠ .error .fuel →
    tokResolve (n+1) root t st = tokResolve n root t st
  descend : ∀ root v ks st p, descend n root v ks st p ≠ .error .fuel →
    descend (n+1) root v ks st p = descend n root v ks st p
  finalLoop : ∀ root v st, finalLoop n root v st ≠ .error .fuel →
    finalLoop (n+1) root v st = finalLoop n root v st
  interpStrOrVl : ∀ root v st, interpStrOrVl n root v st ≠ .error .fuel →
    interpStrOrVl (n+1) root v st = interpStrOrVl n root v st
  layersStr : ∀ root l st, layersStr n root l st ≠ .error .fuel →
    layersStr (n+1) root l st = layersStr n root l st
  slice : ∀ root ts st, slice n root ts st ≠ .error .fuel →
    slice (n+1) root ts st = slice n root ts st
  strLoop : ∀ root v st, strLoop n root v st ≠ .error .fuel →
    strLoop (n+1) root v st = strLoop n root v st
  sliceFinish : ∀ root v st, sliceFinish n root v st ≠ .error .fuel →
    sliceFinish (n+1) root v st = sliceFinish n root v st

theorem monoAt_zero : MonoAt 0 := by
  constructor <;> intros <;> simp_all [interp, interpL, interpEs, interpVl, tokRender, tokResolve,
    descend, finalLoop, interpStrOrVl, layersStr, slice, strLoop, sliceFinish]

/-- One step: case on the result of the sub-call `c` at fuel `n`; if it is the fuel error the
hypothesis `h` is contradictory, otherwise rewrite the `n+1` call with the induction hypothesis. -/
local macro "fstep " h:ident " using " ih:term " on " c:term " with " x:ident : tactic =>
  `(tactic| (
    rcases hc : $c with e | $x:ident
    · by_cases hf : e = Err.fuel
      · subst hf; simp [hc] at $h:ident
      · have hne : $c ≠ .error .fuel := by rw [hc]; simp [hf]
        simp only [$ih:term hne, hc]
    have hne : $c ≠ .error .fuel := by rw [hc]; simp
    simp only [$ih:term hne, hc] at $h:ident ⊢))

/-- As `fstep`, for sub-calls returning a pair. -/
local macro "fstep2 " h:ident " using " ih:term " on " c:term " with " x:ident y:ident : tactic =>
  `(tactic| (
    rcases hc : $c with e | ⟨$x:ident, $y:ident⟩
    · by_cases hf : e = Err.fuel
      · subst hf; simp [hc] at $h:ident
      · have hne : $c ≠ .error .fuel := by rw [hc]; simp [hf]
        simp only [$ih:term hne, hc]
    have hne : $c ≠ .error .fuel := by rw [hc]; simp
    simp only [$ih:term hne, hc] at $h:ident ⊢))

theorem mono_interp_succ {n : Nat} (ih : MonoAt n) (root : Mapping) (v : Value) (st : RState)
    (h : interp (n+1) root v st ≠ .error .fuel) : interp (n+2) root v st = interp (n+1) root v st := by
  cases v with
  | str s =>
    rw [interp_str n] at h; rw [interp_str (n+1), interp_str n]
    cases hp : Token.parse s with
    | error e => simp
    | ok o =>
      cases o with
      | none => simp
      | some t =>
        simp only [hp] at h ⊢
        exact ih.tokRender _ _ _ h
  | map es ck ok =>
    rw [interp_map n] at h; rw [interp_map (n+1), interp_map n]
    fstep h using ih.interpEs _ _ _ _ _ _ on (interpEs n root es ck ok st {}) with m
  | seq l =>
    rw [interp_seq n] at h; rw [interp_seq (n+1), interp_seq n]
    fstep h using ih.interpL _ _ _ _ on (interpL n root l 0 st) with l'
  | vl l =>
    rw [interp_vl n] at h; rw [interp_vl (n+1), interp_vl n]
    fstep h using ih.interpVl _ _ _ _ on (interpVl n root l .null st) with r
    exact ih.interp _ _ _ h
  | null => rfl
  | bool b => rfl
  | num b => rfl
  | lit b => rfl

theorem mono_interpL_succ {n : Nat} (ih : MonoAt n) (root : Mapping) (l : List Value) (idx : Nat)
    (st : RState) (h : interpL (n+1) root l idx st ≠ .error .fuel) :
    interpL (n+2) root l idx st = interpL (n+1) root l idx st := by
  cases l with
  | nil => rfl
  | cons v vs =>
    rw [interpL_cons n] at h; rw [interpL_cons (n+1), interpL_cons n]
    fstep2 h using ih.interp _ _ _ on (interp n root v (st.pushListIndex idx)) with x st'
    fstep h using ih.interpL _ _ _ _ on (interpL n root vs (idx + 1) st) with xs

theorem mono_interpEs_succ {n : Nat} (ih : MonoAt n) (root : Mapping) (es : List (Key × Value))
    (ck ok : List Key) (st : RState) (acc : Mapping)
    (h : interpEs (n+1) root es ck ok st acc ≠ .error .fuel) :
    interpEs (n+2) root es ck ok st acc = interpEs (n+1) root es ck ok st acc := by
  cases es with
  | nil => rfl
  | cons kv rest =>
    obtain ⟨k, v⟩ := kv
    rw [interpEs_cons n] at h; rw [interpEs_cons (n+1), interpEs_cons n]
    fstep2 h using ih.interp _ _ _ on (interp n root v (st.pushMappingKey k)) with v' st'
    cases hfl : flat v' st' with
    | error e => simp
    | ok v'' =>
      simp only [hfl] at h ⊢
      cases hins : acc.insertImpl k v'' (decide (k ∈ ck)) (decide (k ∈ ok)) with
      | error e => simp
      | ok acc' =>
        simp only [hins] at h ⊢
        exact ih.interpEs _ _ _ _ _ _ h

theorem mono_interpVl_succ {n : Nat} (ih : MonoAt n) (root : Mapping) (l : List Value) (r : Value)
    (st : RState) (h : interpVl (n+1) root l r st ≠ .error .fuel) :
    interpVl (n+2) root l r st = interpVl (n+1) root l r st := by
  cases l with
  | nil => rfl
  | cons v vs =>
    rw [interpVl_cons n] at h; rw [interpVl_cons (n+1), interpVl_cons n]
    fstep2 h using ih.interp _ _ _ on (interp n root v st) with x st'
    cases hm : mergeV r x st' with
    | error e => simp
    | ok r' =>
      simp only [hm] at h ⊢
      exact ih.interpVl _ _ _ _ h

theorem mono_tokRender_succ {n : Nat} (ih : MonoAt n) (root : Mapping) (t : Token) (st : RState)
    (h : tokRender (n+1) root t st ≠ .error .fuel) :
    tokRender (n+2) root t st = tokRender (n+1) root t st := by
  rw [tokRender_succ n] at h; rw [tokRender_succ (n+1), tokRender_succ n]
  fstep2 h using ih.tokResolve _ _ _ on (tokResolve n root t st) with v st'
  cases t with
  | ref parts => simp only at h ⊢; exact ih.interp _ _ _ h
  | lit s => rfl
  | combined ts => rfl

theorem mono_tokResolve_succ {n : Nat} (ih : MonoAt n) (root : Mapping) (t : Token) (st : RState)
    (h : tokResolve (n+1) root t st ≠ .error .fuel) :
    tokResolve (n+2) root t st = tokResolve (n+1) root t st := by
  cases t with
  | lit s => rfl
  | combined ts =>
    rw [tokResolve_combined n] at h; rw [tokResolve_combined (n+1), tokResolve_combined n]
    fstep h using ih.slice _ _ _ on (slice n root ts st) with s
  | ref parts =>
    rw [tokResolve_ref n] at h; rw [tokResolve_ref (n+1), tokResolve_ref n]
    by_cases hd : st.depth + 1 > maxDepth
    · simp only [hd, if_true]
    · simp only [hd, if_false] at h ⊢
      fstep h using ih.slice _ _ _ on (slice n root parts { st with depth := st.depth + 1 }) with path
      by_cases hs : path ∈ st.seen
      · simp only [hs, if_true]
      · simp only [hs, if_false] at h ⊢
        cases hsp : splitColon path with
        | nil => simp
        | cons k0 segs =>
          simp only [hsp] at h ⊢
          cases hg : root.get (.str k0) with
          | none => simp
          | some v0 =>
            simp only [hg] at h ⊢
            fstep2 h using ih.descend _ _ _ _ _ on
              (descend n root v0 segs { st with depth := st.depth + 1, seen := path :: st.seen } path) with v st3
            exact ih.finalLoop _ _ _ h

theorem mono_descend_succ {n : Nat} (ih : MonoAt n) (root : Mapping) (v : Value) (ks : List Str)
    (st : RState) (p : Str) (h : descend (n+1) root v ks st p ≠ .error .fuel) :
    descend (n+2) root v ks st p = descend (n+1) root v ks st p := by
  cases ks with
  | nil => rfl
  | cons key rest =>
    rw [descend_cons n] at h; rw [descend_cons (n+1), descend_cons n]
    fstep2 h using ih.interpStrOrVl _ _ _ on (interpStrOrVl n root v st) with newv st'
    cases newv with
    | map es ck ok =>
      simp only at h ⊢
      cases hl : lookup (.str key) es with
      | none => simp
      | some v' =>
        simp only [hl] at h ⊢
        exact ih.descend _ _ _ _ _ h
    | _ => rfl

theorem mono_finalLoop_succ {n : Nat} (ih : MonoAt n) (root : Mapping) (v : Value) (st : RState)
    (h : finalLoop (n+1) root v st ≠ .error .fuel) :
    finalLoop (n+2) root v st = finalLoop (n+1) root v st := by
  rw [finalLoop_succ n] at h; rw [finalLoop_succ (n+1), finalLoop_succ n]
  by_cases hc : (v.isStr || v.isVl) = true
  · simp only [hc, if_true] at h ⊢
    fstep2 h using ih.interp _ _ _ on (interp n root v st) with v' st'
    exact ih.finalLoop _ _ _ h
  · have hc' : (v.isStr || v.isVl) = false := by simpa using hc
    simp only [hc', Bool.false_eq_true, if_false] at h ⊢

theorem mono_interpStrOrVl_succ {n : Nat} (ih : MonoAt n) (root : Mapping) (v : Value) (st : RState)
    (h : interpStrOrVl (n+1) root v st ≠ .error .fuel) :
    interpStrOrVl (n+2) root v st = interpStrOrVl (n+1) root v st := by
  rw [interpStrOrVl_succ n] at h; rw [interpStrOrVl_succ (n+1), interpStrOrVl_succ n]
  cases v with
  | str s => simp only at h ⊢; exact ih.interp _ _ _ h
  | vl l =>
    simp only at h ⊢
    fstep h using ih.layersStr _ _ _ on (layersStr n root l st) with i
  | _ => rfl

theorem mono_layersStr_succ {n : Nat} (ih : MonoAt n) (root : Mapping) (l : List Value) (st : RState)
    (h : layersStr (n+1) root l st ≠ .error .fuel) :
    layersStr (n+2) root l st = layersStr (n+1) root l st := by
  cases l with
  | nil => rfl
  | cons v vs =>
    rw [layersStr_cons n] at h; rw [layersStr_cons (n+1), layersStr_cons n]
    by_cases hs : v.isStr = true
    · simp only [hs, if_true] at h ⊢
      fstep2 h using ih.interp _ _ _ on (interp n root v st) with x st'
      fstep h using ih.layersStr _ _ _ on (layersStr n root vs st) with xs
    · have hs' : v.isStr = false := by simpa using hs
      simp only [hs', Bool.false_eq_true, if_false] at h ⊢
      fstep h using ih.layersStr _ _ _ on (layersStr n root vs st) with xs

theorem mono_slice_succ {n : Nat} (ih : MonoAt n) (root : Mapping) (ts : List Token) (st : RState)
    (h : slice (n+1) root ts st ≠ .error .fuel) :
    slice (n+2) root ts st = slice (n+1) root ts st := by
  cases ts with
  | nil => rfl
  | cons t ts =>
    rw [slice_cons n] at h; rw [slice_cons (n+1), slice_cons n]
    fstep2 h using ih.tokResolve _ _ _ on (tokResolve n root t st) with v st'
    fstep2 h using ih.strLoop _ _ _ on (strLoop n root v st') with v' st''
    fstep h using ih.sliceFinish _ _ _ on (sliceFinish n root v' st'') with s
    fstep h using ih.slice _ _ _ on (slice n root ts st) with s'

theorem mono_strLoop_succ {n : Nat} (ih : MonoAt n) (root : Mapping) (v : Value) (st : RState)
    (h : strLoop (n+1) root v st ≠ .error .fuel) :
    strLoop (n+2) root v st = strLoop (n+1) root v st := by
  rw [strLoop_succ n] at h; rw [strLoop_succ (n+1), strLoop_succ n]
  by_cases hc : v.isStr = true
  · simp only [hc, if_true] at h ⊢
    fstep2 h using ih.interp _ _ _ on (interp n root v st) with v' st'
    exact ih.strLoop _ _ _ h
  · have hc' : v.isStr = false := by simpa using hc
    simp only [hc', Bool.false_eq_true, if_false] at h ⊢

theorem mono_sliceFinish_succ {n : Nat} (ih : MonoAt n) (root : Mapping) (v : Value) (st : RState)
    (h : sliceFinish (n+1) root v st ≠ .error .fuel) :
    sliceFinish (n+2) root v st = sliceFinish (n+1) root v st := by
  rw [sliceFinish_succ n] at h; rw [sliceFinish_succ (n+1), sliceFinish_succ n]
  by_cases hc : (v.isMap || v.isSeq) = true
  · simp only [hc, if_true] at h ⊢
    fstep2 h using ih.interp _ _ _ on (interp n root v st) with v' st'
  · have hc' : (v.isMap || v.isSeq) = false := by simpa using hc
    simp only [hc', Bool.false_eq_true, if_false] at h ⊢

/-- **Fuel monotonicity**, all 13 functions at once. -/
theorem monoAt : ∀ n, MonoAt n := by
  intro n
  induction n with
  | zero => exact monoAt_zero
  | succ n ih =>
    exact ⟨mono_interp_succ ih, mono_interpL_succ ih, mono_interpEs_succ ih, mono_interpVl_succ ih,
      mono_tokRender_succ ih, mono_tokResolve_succ ih, mono_descend_succ ih, mono_finalLoop_succ ih,
      mono_interpStrOrVl_succ ih, mono_layersStr_succ ih, mono_slice_succ ih, mono_strLoop_succ ih,
      mono_sliceFinish_succ ih⟩


/-- From the one-step form to any larger amount of fuel. -/
theorem mono_le_of_step {α : Type} (f : Nat → R α)
    (step : ∀ n, f n ≠ .error .fuel → f (n+1) = f n) :
    ∀ {n m : Nat}, n ≤ m → f n ≠ .error .fuel → f m = f n := by
  intro n m hle hne
  induction hle with
  | refl => rfl
  | step _ ih => rw [step _ (by rw [ih]; exact hne), ih]

/-! ### `fuel_mono` / `fuel_mono_le` for each of the 13 functions

`X_fuel_mono`: if `X n args = r` and `r` is not the fuel error then `X (n+1) args = r`.
`X_fuel_mono_le`: the same for any `m ≥ n`. -/

theorem interp_fuel_mono {n : Nat} (root : Mapping) (v : Value) (st : RState) {r : R (Value × RState)}
    (h : interp n root v st = r) (hr : r ≠ .error .fuel) : interp (n+1) root v st = r := by
  subst h; exact (monoAt n).interp _ _ _ hr

theorem interp_fuel_mono_le {n m : Nat} (hle : n ≤ m) (root : Mapping) (v : Value) (st : RState) {r : R (Value × RState)}
    (h : interp n root v st = r) (hr : r ≠ .error .fuel) : interp m root v st = r := by
  subst h
  exact mono_le_of_step (fun k => interp k root v st) (fun k => (monoAt k).interp _ _ _ ) hle hr

theorem interpL_fuel_mono {n : Nat} (root : Mapping) (l : List Value) (idx : Nat) (st : RState) {r : R (List Value)}
    (h : interpL n root l idx st = r) (hr : r ≠ .error .fuel) : interpL (n+1) root l idx st = r := by
  subst h; exact (monoAt n).interpL _ _ _ _ hr

theorem interpL_fuel_mono_le {n m : Nat} (hle : n ≤ m) (root : Mapping) (l : List Value) (idx : Nat) (st : RState) {r : R (List Value)}
    (h : interpL n root l idx st = r) (hr : r ≠ .error .fuel) : interpL m root l idx st = r := by
  subst h
  exact mono_le_of_step (fun k => interpL k root l idx st) (fun k => (monoAt k).interpL _ _ _ _ ) hle hr

theorem interpEs_fuel_mono {n : Nat} (root : Mapping) (es : List (Key × Value)) (ck ok : List Key) (st : RState) (acc : Mapping) {r : R Mapping}
    (h : interpEs n root es ck ok st acc = r) (hr : r ≠ .error .fuel) : interpEs (n+1) root es ck ok st acc = r := by
  subst h; exact (monoAt n).interpEs _ _ _ _ _ _ hr

theorem interpEs_fuel_mono_le {n m : Nat} (hle : n ≤ m) (root : Mapping) (es : List (Key × Value)) (ck ok : List Key) (st : RState) (acc : Mapping) {r : R Mapping}
    (h : interpEs n root es ck ok st acc = r) (hr : r ≠ .error .fuel) : interpEs m root es ck ok st acc = r := by
  subst h
  exact mono_le_of_step (fun k => interpEs k root es ck ok st acc) (fun k => (monoAt k).interpEs _ _ _ _ _ _ ) hle hr

theorem interpVl_fuel_mono {n : Nat} (root : Mapping) (l : List Value) (r : Value) (st : RState) {res : R Value}
    (h : interpVl n root l r st = res) (hr : res ≠ .error .fuel) : interpVl (n+1) root l r st = res := by
  subst h; exact (monoAt n).interpVl _ _ _ _ hr

theorem interpVl_fuel_mono_le {n m : Nat} (hle : n ≤ m) (root : Mapping) (l : List Value) (r : Value) (st : RState) {res : R Value}
    (h : interpVl n root l r st = res) (hr : res ≠ .error .fuel) : interpVl m root l r st = res := by
  subst h
  exact mono_le_of_step (fun k => interpVl k root l r st) (fun k => (monoAt k).interpVl _ _ _ _ ) hle hr

theorem tokRender_fuel_mono {n : Nat} (root : Mapping) (t : Token) (st : RState) {r : R (Value × RState)}
    (h : tokRender n root t st = r) (hr : r ≠ .error .fuel) : tokRender (n+1) root t st = r := by
  subst h; exact (monoAt n).tokRender _ _ _ hr

theorem tokRender_fuel_mono_le {n m : Nat} (hle : n ≤ m) (root : Mapping) (t : Token) (st : RState) {r : R (Value × RState)}
    (h : tokRender n root t st = r) (hr : r ≠ .error .fuel) : tokRender m root t st = r := by
  subst h
  exact mono_le_of_step (fun k => tokRender k root t st) (fun k => (monoAt k).tokRender _ _ _ ) hle hr

theorem tokResolve_fuel_mono {n : Nat} (root : Mapping) (t : Token) (st : RState) {r : R (Value × RState)}
    (h : tokResolve n root t st = r) (hr : r ≠ .error .fuel) : tokResolve (n+1) root t st = r := by
  subst h; exact (monoAt n).tokResolve _ _ _ hr

theorem tokResolve_fuel_mono_le {n m : Nat} (hle : n ≤ m) (root : Mapping) (t : Token) (st : RState) {r : R (Value × RState)}
    (h : tokResolve n root t st = r) (hr : r ≠ .error .fuel) : tokResolve m root t st = r := by
  subst h
  exact mono_le_of_step (fun k => tokResolve k root t st) (fun k => (monoAt k).tokResolve _ _ _ ) hle hr

theorem descend_fuel_mono {n : Nat} (root : Mapping) (v : Value) (ks : List Str) (st : RState) (p : Str) {r : R (Value × RState)}
    (h : descend n root v ks st p = r) (hr : r ≠ .error .fuel) : descend (n+1) root v ks st p = r := by
  subst h; exact (monoAt n).descend _ _ _ _ _ hr

theorem descend_fuel_mono_le {n m : Nat} (hle : n ≤ m) (root : Mapping) (v : Value) (ks : List Str) (st : RState) (p : Str) {r : R (Value × RState)}
    (h : descend n root v ks st p = r) (hr : r ≠ .error .fuel) : descend m root v ks st p = r := by
  subst h
  exact mono_le_of_step (fun k => descend k root v ks st p) (fun k => (monoAt k).descend _ _ _ _ _ ) hle hr

theorem finalLoop_fuel_mono {n : Nat} (root : Mapping) (v : Value) (st : RState) {r : R (Value × RState)}
    (h : finalLoop n root v st = r) (hr : r ≠ .error .fuel) : finalLoop (n+1) root v st = r := by
  subst h; exact (monoAt n).finalLoop _ _ _ hr

theorem finalLoop_fuel_mono_le {n m : Nat} (hle : n ≤ m) (root : Mapping) (v : Value) (st : RState) {r : R (Value × RState)}
    (h : finalLoop n root v st = r) (hr : r ≠ .error .fuel) : finalLoop m root v st = r := by
  subst h
  exact mono_le_of_step (fun k => finalLoop k root v st) (fun k => (monoAt k).finalLoop _ _ _ ) hle hr

theorem interpStrOrVl_fuel_mono {n : Nat} (root : Mapping) (v : Value) (st : RState) {r : R (Value × RState)}
    (h : interpStrOrVl n root v st = r) (hr : r ≠ .error .fuel) : interpStrOrVl (n+1) root v st = r := by
  subst h; exact (monoAt n).interpStrOrVl _ _ _ hr

theorem interpStrOrVl_fuel_mono_le {n m : Nat} (hle : n ≤ m) (root : Mapping) (v : Value) (st : RState) {r : R (Value × RState)}
    (h : interpStrOrVl n root v st = r) (hr : r ≠ .error .fuel) : interpStrOrVl m root v st = r := by
  subst h
  exact mono_le_of_step (fun k => interpStrOrVl k root v st) (fun k => (monoAt k).interpStrOrVl _ _ _ ) hle hr

theorem layersStr_fuel_mono {n : Nat} (root : Mapping) (l : List Value) (st : RState) {r : R (List Value)}
    (h : layersStr n root l st = r) (hr : r ≠ .error .fuel) : layersStr (n+1) root l st = r := by
  subst h; exact (monoAt n).layersStr _ _ _ hr

theorem layersStr_fuel_mono_le {n m : Nat} (hle : n ≤ m) (root : Mapping) (l : List Value) (st : RState) {r : R (List Value)}
    (h : layersStr n root l st = r) (hr : r ≠ .error .fuel) : layersStr m root l st = r := by
  subst h
  exact mono_le_of_step (fun k => layersStr k root l st) (fun k => (monoAt k).layersStr _ _ _ ) hle hr

theorem slice_fuel_mono {n : Nat} (root : Mapping) (ts : List Token) (st : RState) {r : R Str}
    (h : slice n root ts st = r) (hr : r ≠ .error .fuel) : slice (n+1) root ts st = r := by
  subst h; exact (monoAt n).slice _ _ _ hr

theorem slice_fuel_mono_le {n m : Nat} (hle : n ≤ m) (root : Mapping) (ts : List Token) (st : RState) {r : R Str}
    (h : slice n root ts st = r) (hr : r ≠ .error .fuel) : slice m root ts st = r := by
  subst h
  exact mono_le_of_step (fun k => slice k root ts st) (fun k => (monoAt k).slice _ _ _ ) hle hr

theorem strLoop_fuel_mono {n : Nat} (root : Mapping) (v : Value) (st : RState) {r : R (Value × RState)}
    (h : strLoop n root v st = r) (hr : r ≠ .error .fuel) : strLoop (n+1) root v st = r := by
  subst h; exact (monoAt n).strLoop _ _ _ hr

theorem strLoop_fuel_mono_le {n m : Nat} (hle : n ≤ m) (root : Mapping) (v : Value) (st : RState) {r : R (Value × RState)}
    (h : strLoop n root v st = r) (hr : r ≠ .error .fuel) : strLoop m root v st = r := by
  subst h
  exact mono_le_of_step (fun k => strLoop k root v st) (fun k => (monoAt k).strLoop _ _ _ ) hle hr

theorem sliceFinish_fuel_mono {n : Nat} (root : Mapping) (v : Value) (st : RState) {r : R Str}
    (h : sliceFinish n root v st = r) (hr : r ≠ .error .fuel) : sliceFinish (n+1) root v st = r := by
  subst h; exact (monoAt n).sliceFinish _ _ _ hr

theorem sliceFinish_fuel_mono_le {n m : Nat} (hle : n ≤ m) (root : Mapping) (v : Value) (st : RState) {r : R Str}
    (h : sliceFinish n root v st = r) (hr : r ≠ .error .fuel) : sliceFinish m root v st = r := by
  subst h
  exact mono_le_of_step (fun k => sliceFinish k root v st) (fun k => (monoAt k).sliceFinish _ _ _ ) hle hr

/-- `renderedF`: more fuel never changes a non-fuel answer. -/
theorem renderedF_fuel_mono_le {n m : Nat} (hle : n ≤ m) (v : Value) (root : Mapping) {r : R Value}
    (h : renderedF n v root = r) (hr : r ≠ .error .fuel) : renderedF m v root = r := by
  subst h
  unfold renderedF at hr ⊢
  cases hc : interp n root v {} with
  | error e =>
    rw [hc] at hr
    have : e ≠ .fuel := by intro he; subst he; simp at hr
    rw [interp_fuel_mono_le hle root v {} hc (by simp [this])]
  | ok p => rw [interp_fuel_mono_le hle root v {} hc (by simp)]

/-- `renderParamsF`: more fuel never changes a non-fuel answer. -/
theorem renderParamsF_fuel_mono_le {n m : Nat} (hle : n ≤ m) (mp : Mapping) {r : R Mapping}
    (h : renderParamsF n mp = r) (hr : r ≠ .error .fuel) : renderParamsF m mp = r := by
  subst h
  unfold renderParamsF at hr ⊢
  cases hc : renderedF n mp.toValue mp with
  | error e =>
    rw [hc] at hr
    have : e ≠ .fuel := by intro he; subst he; simp at hr
    rw [renderedF_fuel_mono_le hle _ _ hc (by simp [this])]
  | ok p => rw [renderedF_fuel_mono_le hle _ _ hc (by simp)]

/-- Two runs with different fuel that both finish (no fuel error) agree. -/
theorem interp_fuel_indep {n m : Nat} (root : Mapping) (v : Value) (st : RState)
    (hn : interp n root v st ≠ .error .fuel) (hm : interp m root v st ≠ .error .fuel) :
    interp n root v st = interp m root v st := by
  rcases Nat.le_total n m with h | h
  · exact (interp_fuel_mono_le h root v st rfl hn).symm
  · exact interp_fuel_mono_le h root v st rfl hm


/-! ## The resolution state only grows -/

/-- `a ≼ b`: `b` is at least as deep as `a`, has seen at least the paths `a` has seen, and
talks about the same parameter. -/
def RState.Le (a b : RState) : Prop := a.depth ≤ b.depth ∧ a.seen ⊆ b.seen ∧ b.cur = a.cur

theorem RState.Le.refl (a : RState) : a.Le a := ⟨Nat.le_refl _, fun _ h => h, rfl⟩

theorem RState.Le.trans {a b c : RState} (h1 : a.Le b) (h2 : b.Le c) : a.Le c :=
  ⟨Nat.le_trans h1.1 h2.1, fun _ h => h2.2.1 (h1.2.1 h), h2.2.2.trans h1.2.2⟩

/-- Entering a reference: one level deeper, one more path seen. -/
theorem RState.Le.enter (st : RState) (path : Str) :
    st.Le { st with depth := st.depth + 1, seen := path :: st.seen } :=
  ⟨Nat.le_succ _, fun _ h => List.mem_cons_of_mem _ h, rfl⟩

/-- "The returned state extends the incoming one", for the 7 state-returning functions at fuel `n`. -/
structure GrowAt (n : Nat) : Prop where
  interp : ∀ root v st x st', interp n root v st = .ok (x, st') → st.Le st'
  tokRender : ∀ root t st x st', tokRender n root t st = .ok (x, st') → st.Le st'
  tokResolve : ∀ root t st x st', tokResolve n root t st = .ok (x, st') → st.Le st'
  descend : ∀ root v ks st p x st', descend n root v ks st p = .ok (x, st') → st.Le st'
  finalLoop : ∀ root v st x st', finalLoop n root v st = .ok (x, st') → st.Le st'
  interpStrOrVl : ∀ root v st x st', interpStrOrVl n root v st = .ok (x, st') → st.Le st'
  strLoop : ∀ root v st x st', strLoop n root v st = .ok (x, st') → st.Le st'

theorem growAt_zero : GrowAt 0 := by
  constructor <;> intros <;> simp_all [interp, tokRender, tokResolve, descend, finalLoop,
    interpStrOrVl, strLoop]

theorem grow_interp_succ {n : Nat} (ih : GrowAt n) (root : Mapping) (v : Value) (st : RState)
    (x : Value) (st' : RState) (h : interp (n+1) root v st = .ok (x, st')) : st.Le st' := by
  cases v with
  | str s =>
    rw [interp_str] at h
    cases hp : Token.parse s with
    | error e => simp [hp] at h
    | ok o =>
      cases o with
      | none => simp only [hp, Except.ok.injEq, Prod.mk.injEq] at h; rw [← h.2]; exact .refl _
      | some t => simp only [hp] at h; exact ih.tokRender _ _ _ _ _ h
  | map es ck ok =>
    rw [interp_map] at h
    cases hc : interpEs n root es ck ok st {} with
    | error e => simp [hc] at h
    | ok m => simp only [hc, Except.ok.injEq, Prod.mk.injEq] at h; rw [← h.2]; exact .refl _
  | seq l =>
    rw [interp_seq] at h
    cases hc : interpL n root l 0 st with
    | error e => simp [hc] at h
    | ok m => simp only [hc, Except.ok.injEq, Prod.mk.injEq] at h; rw [← h.2]; exact .refl _
  | vl l =>
    rw [interp_vl] at h
    cases hc : interpVl n root l .null st with
    | error e => simp [hc] at h
    | ok r => simp only [hc] at h; exact ih.interp _ _ _ _ _ h
  | null => simp only [interp, Except.ok.injEq, Prod.mk.injEq] at h; rw [← h.2]; exact .refl _
  | bool b => simp only [interp, Except.ok.injEq, Prod.mk.injEq] at h; rw [← h.2]; exact .refl _
  | num b => simp only [interp, Except.ok.injEq, Prod.mk.injEq] at h; rw [← h.2]; exact .refl _
  | lit b => simp only [interp, Except.ok.injEq, Prod.mk.injEq] at h; rw [← h.2]; exact .refl _

theorem grow_tokRender_succ {n : Nat} (ih : GrowAt n) (root : Mapping) (t : Token) (st : RState)
    (x : Value) (st' : RState) (h : tokRender (n+1) root t st = .ok (x, st')) : st.Le st' := by
  rw [tokRender_succ] at h
  rcases hc : tokResolve n root t st with e | ⟨v, st1⟩
  · simp [hc] at h
  · simp only [hc] at h
    have h1 := ih.tokResolve _ _ _ _ _ hc
    cases t with
    | ref parts => simp only at h; exact h1.trans (ih.interp _ _ _ _ _ h)
    | lit s =>
      simp only at h
      cases hr : rawString v with
      | error e => simp [hr] at h
      | ok s' => simp only [hr, Except.ok.injEq, Prod.mk.injEq] at h; rw [← h.2]; exact h1
    | combined ts =>
      simp only at h
      cases hr : rawString v with
      | error e => simp [hr] at h
      | ok s' => simp only [hr, Except.ok.injEq, Prod.mk.injEq] at h; rw [← h.2]; exact h1

theorem grow_tokResolve_succ {n : Nat} (ih : GrowAt n) (root : Mapping) (t : Token) (st : RState)
    (x : Value) (st' : RState) (h : tokResolve (n+1) root t st = .ok (x, st')) : st.Le st' := by
  cases t with
  | lit s =>
    simp only [tokResolve_lit, Except.ok.injEq, Prod.mk.injEq] at h; rw [← h.2]; exact .refl _
  | combined ts =>
    rw [tokResolve_combined] at h
    cases hc : slice n root ts st with
    | error e => simp [hc] at h
    | ok s => simp only [hc, Except.ok.injEq, Prod.mk.injEq] at h; rw [← h.2]; exact .refl _
  | ref parts =>
    rw [tokResolve_ref] at h
    by_cases hd : st.depth + 1 > maxDepth
    · simp [hd] at h
    · simp only [hd, if_false] at h
      cases hc : slice n root parts { st with depth := st.depth + 1 } with
      | error e => simp [hc] at h
      | ok path =>
        simp only [hc] at h
        by_cases hs : path ∈ st.seen
        · simp [hs] at h
        · simp only [hs, if_false] at h
          cases hsp : splitColon path with
          | nil => simp [hsp] at h
          | cons k0 segs =>
            simp only [hsp] at h
            cases hg : root.get (.str k0) with
            | none => simp [hg] at h
            | some v0 =>
              simp only [hg] at h
              rcases hdn : descend n root v0 segs
                { st with depth := st.depth + 1, seen := path :: st.seen } path with e | ⟨v, st3⟩
              · simp [hdn] at h
              · simp only [hdn] at h
                exact (RState.Le.enter st path).trans
                  ((ih.descend _ _ _ _ _ _ _ hdn).trans (ih.finalLoop _ _ _ _ _ h))

theorem grow_descend_succ {n : Nat} (ih : GrowAt n) (root : Mapping) (v : Value) (ks : List Str)
    (st : RState) (p : Str) (x : Value) (st' : RState)
    (h : descend (n+1) root v ks st p = .ok (x, st')) : st.Le st' := by
  cases ks with
  | nil => simp only [descend_nil, Except.ok.injEq, Prod.mk.injEq] at h; rw [← h.2]; exact .refl _
  | cons key rest =>
    rw [descend_cons] at h
    rcases hc : interpStrOrVl n root v st with e | ⟨newv, st1⟩
    · simp [hc] at h
    · simp only [hc] at h
      have h1 := ih.interpStrOrVl _ _ _ _ _ hc
      cases newv with
      | map es ck ok =>
        simp only at h
        cases hl : lookup (.str key) es with
        | none => simp [hl] at h
        | some v' => simp only [hl] at h; exact h1.trans (ih.descend _ _ _ _ _ _ _ h)
      | _ => simp at h

theorem grow_finalLoop_succ {n : Nat} (ih : GrowAt n) (root : Mapping) (v : Value) (st : RState)
    (x : Value) (st' : RState) (h : finalLoop (n+1) root v st = .ok (x, st')) : st.Le st' := by
  rw [finalLoop_succ] at h
  by_cases hc : (v.isStr || v.isVl) = true
  · simp only [hc, if_true] at h
    rcases hi : interp n root v st with e | ⟨v1, st1⟩
    · simp [hi] at h
    · simp only [hi] at h
      exact (ih.interp _ _ _ _ _ hi).trans (ih.finalLoop _ _ _ _ _ h)
  · have hc' : (v.isStr || v.isVl) = false := by simpa using hc
    simp only [hc', Bool.false_eq_true, if_false, Except.ok.injEq, Prod.mk.injEq] at h
    rw [← h.2]; exact .refl _

theorem grow_interpStrOrVl_succ {n : Nat} (ih : GrowAt n) (root : Mapping) (v : Value) (st : RState)
    (x : Value) (st' : RState) (h : interpStrOrVl (n+1) root v st = .ok (x, st')) : st.Le st' := by
  rw [interpStrOrVl_succ] at h
  cases v with
  | str s => simp only at h; exact ih.interp _ _ _ _ _ h
  | vl l =>
    simp only at h
    cases hc : layersStr n root l st with
    | error e => simp [hc] at h
    | ok i =>
      simp only [hc] at h
      cases hf : flatVl i .null st with
      | error e => simp [hf] at h
      | ok r => simp only [hf, Except.ok.injEq, Prod.mk.injEq] at h; rw [← h.2]; exact .refl _
  | _ => simp only [Except.ok.injEq, Prod.mk.injEq] at h; rw [← h.2]; exact .refl _

theorem grow_strLoop_succ {n : Nat} (ih : GrowAt n) (root : Mapping) (v : Value) (st : RState)
    (x : Value) (st' : RState) (h : strLoop (n+1) root v st = .ok (x, st')) : st.Le st' := by
  rw [strLoop_succ] at h
  by_cases hc : v.isStr = true
  · simp only [hc, if_true] at h
    rcases hi : interp n root v st with e | ⟨v1, st1⟩
    · simp [hi] at h
    · simp only [hi] at h
      exact (ih.interp _ _ _ _ _ hi).trans (ih.strLoop _ _ _ _ _ h)
  · have hc' : v.isStr = false := by simpa using hc
    simp only [hc', Bool.false_eq_true, if_false, Except.ok.injEq, Prod.mk.injEq] at h
    rw [← h.2]; exact .refl _

theorem growAt : ∀ n, GrowAt n := by
  intro n
  induction n with
  | zero => exact growAt_zero
  | succ n ih =>
    exact ⟨grow_interp_succ ih, grow_tokRender_succ ih, grow_tokResolve_succ ih, grow_descend_succ ih,
      grow_finalLoop_succ ih, grow_interpStrOrVl_succ ih, grow_strLoop_succ ih⟩

/-- **Depth/seen monotonicity**: whenever `interp` returns a state, that state is at least as
deep as the incoming one and has seen at least the same reference paths (and `cur` is
unchanged).  Likewise for the other six state-returning functions (`growAt`). -/
theorem depth_mono {n : Nat} {root : Mapping} {v : Value} {st : RState} {x : Value} {st' : RState}
    (h : interp n root v st = .ok (x, st')) :
    st.depth ≤ st'.depth ∧ st.seen ⊆ st'.seen ∧ st'.cur = st.cur :=
  (growAt n).interp _ _ _ _ _ h

theorem tokRender_depth_mono {n : Nat} {root : Mapping} {t : Token} {st : RState} {x : Value}
    {st' : RState} (h : tokRender n root t st = .ok (x, st')) :
    st.depth ≤ st'.depth ∧ st.seen ⊆ st'.seen ∧ st'.cur = st.cur :=
  (growAt n).tokRender _ _ _ _ _ h

theorem tokResolve_depth_mono {n : Nat} {root : Mapping} {t : Token} {st : RState} {x : Value}
    {st' : RState} (h : tokResolve n root t st = .ok (x, st')) :
    st.depth ≤ st'.depth ∧ st.seen ⊆ st'.seen ∧ st'.cur = st.cur :=
  (growAt n).tokResolve _ _ _ _ _ h

theorem descend_depth_mono {n : Nat} {root : Mapping} {v : Value} {ks : List Str} {st : RState}
    {p : Str} {x : Value} {st' : RState} (h : descend n root v ks st p = .ok (x, st')) :
    st.depth ≤ st'.depth ∧ st.seen ⊆ st'.seen ∧ st'.cur = st.cur :=
  (growAt n).descend _ _ _ _ _ _ _ h

theorem finalLoop_depth_mono {n : Nat} {root : Mapping} {v : Value} {st : RState} {x : Value}
    {st' : RState} (h : finalLoop n root v st = .ok (x, st')) :
    st.depth ≤ st'.depth ∧ st.seen ⊆ st'.seen ∧ st'.cur = st.cur :=
  (growAt n).finalLoop _ _ _ _ _ h

theorem interpStrOrVl_depth_mono {n : Nat} {root : Mapping} {v : Value} {st : RState} {x : Value}
    {st' : RState} (h : interpStrOrVl n root v st = .ok (x, st')) :
    st.depth ≤ st'.depth ∧ st.seen ⊆ st'.seen ∧ st'.cur = st.cur :=
  (growAt n).interpStrOrVl _ _ _ _ _ h

theorem strLoop_depth_mono {n : Nat} {root : Mapping} {v : Value} {st : RState} {x : Value}
    {st' : RState} (h : strLoop n root v st = .ok (x, st')) :
    st.depth ≤ st'.depth ∧ st.seen ⊆ st'.seen ∧ st'.cur = st.cur :=
  (growAt n).strLoop _ _ _ _ _ h

/-- A reference token that resolves successfully hands on a strictly deeper state which has the
resolved path among its `seen` paths. -/
theorem tokResolve_ref_depth_lt {n : Nat} {root : Mapping} {parts : List Token} {st : RState}
    {x : Value} {st' : RState} (h : tokResolve n root (.ref parts) st = .ok (x, st')) :
    st.depth + 1 ≤ st'.depth ∧ st.depth + 1 ≤ maxDepth := by
  cases n with
  | zero => simp [tokResolve] at h
  | succ n =>
    rw [tokResolve_ref] at h
    by_cases hd : st.depth + 1 > maxDepth
    · simp [hd] at h
    · simp only [hd, if_false] at h
      cases hc : slice n root parts { st with depth := st.depth + 1 } with
      | error e => simp [hc] at h
      | ok path =>
        simp only [hc] at h
        by_cases hs : path ∈ st.seen
        · simp [hs] at h
        · simp only [hs, if_false] at h
          cases hsp : splitColon path with
          | nil => simp [hsp] at h
          | cons k0 segs =>
            simp only [hsp] at h
            cases hg : root.get (.str k0) with
            | none => simp [hg] at h
            | some v0 =>
              simp only [hg] at h
              rcases hdn : descend n root v0 segs
                { st with depth := st.depth + 1, seen := path :: st.seen } path with e | ⟨v, st3⟩
              · simp [hdn] at h
              · simp only [hdn] at h
                have h1 := (descend_depth_mono hdn).1
                have h2 := (finalLoop_depth_mono h).1
                simp only at h1
                exact ⟨Nat.le_trans h1 h2, Nat.le_of_not_gt hd⟩

/-! ## Small facts used by the reference-chain theorems -/

theorem splitColon_of_not_mem {a : Str} (h : ':' ∉ a) : splitColon a = [a] := by
  induction a with
  | nil => rfl
  | cons c cs ih =>
    have hc : c ≠ ':' := fun e => h (by simp [e])
    have hcs : ':' ∉ cs := fun m => h (List.mem_cons_of_mem _ m)
    simp [splitColon, ih hcs, hc]

/-- A path that is a single literal piece renders to itself (fuel ≥ 2). -/
theorem slice_single_lit (k : Nat) (root : Mapping) (a : Str) (st : RState) :
    slice (k+2) root [.lit a] st = .ok a := by
  simp [slice_cons, tokResolve_lit, strLoop_succ, sliceFinish_succ, slice_nil, rawString,
    Value.isStr, Value.isMap, Value.isSeq]

theorem lookup_mem {k : Key} {v : Value} {es : List (Key × Value)} (h : lookup k es = some v) :
    (k, v) ∈ es := by
  induction es with
  | nil => simp [lookup] at h
  | cons kv es ih =>
    obtain ⟨k', v'⟩ := kv
    simp only [lookup] at h
    by_cases hk : k' = k
    · simp only [hk, if_true, Option.some.injEq] at h; simp [hk, h]
    · simp only [hk, if_false] at h; exact List.mem_cons_of_mem _ (ih h)

/-- One whole-value reference `${a}` (no `:` in `a`), unfolded: depth check, loop check, then the
target value is interpolated until it is no longer a string / layer list, then once more. -/
theorem interp_wholeRef (n : Nat) (root : Mapping) (s a : Str) (st : RState) (v0 : Value)
    (hparse : Token.parse s = .ok (some (.ref [.lit a]))) (hcolon : ':' ∉ a)
    (hget : root.get (.str a) = some v0) :
    interp (n+6) root (.str s) st =
      if st.depth + 1 > maxDepth then .error (.depth st.curKey)
      else if a ∈ st.seen then .error .loop
      else
        match finalLoop (n+3) root v0 { st with depth := st.depth + 1, seen := a :: st.seen } with
        | .error e => .error e
        | .ok (v, st3) => interp (n+4) root v st3 := by
  rw [interp_str, hparse]
  simp only
  rw [tokRender_succ, tokResolve_ref, slice_single_lit]
  by_cases hd : st.depth + 1 > maxDepth
  · simp only [hd, if_true]; rfl
  · simp only [hd, if_false]
    by_cases hs : a ∈ st.seen
    · simp only [hs, if_true]
    · simp only [hs, if_false, splitColon_of_not_mem hcolon, hget, descend_nil]

/-- If a mapping interpolates successfully then every entry value does (at the same fuel, by
fuel monotonicity), each starting from the *incoming* state. -/
theorem interpEs_ok_all {n : Nat} {root : Mapping} {ck ok : List Key} {st : RState} :
    ∀ {es : List (Key × Value)} {acc m : Mapping}, interpEs n root es ck ok st acc = .ok m →
    ∀ k v, (k, v) ∈ es → ∃ x st', interp n root v (st.pushMappingKey k) = .ok (x, st') := by
  induction n with
  | zero => intro es acc m h; simp [interpEs] at h
  | succ n ih =>
    intro es acc m h k v hm
    cases es with
    | nil => simp at hm
    | cons kv rest =>
      obtain ⟨k0, v0⟩ := kv
      rw [interpEs_cons] at h
      rcases hi : interp n root v0 (st.pushMappingKey k0) with e | ⟨v', st'⟩
      · simp [hi] at h
      · simp only [hi] at h
        cases hfl : flat v' st' with
        | error e => simp [hfl] at h
        | ok v'' =>
          simp only [hfl] at h
          cases hins : acc.insertImpl k0 v'' (decide (k0 ∈ ck)) (decide (k0 ∈ ok)) with
          | error e => simp [hins] at h
          | ok acc' =>
            simp only [hins] at h
            rcases List.mem_cons.1 hm with heq | hrest
            · simp only [Prod.mk.injEq] at heq
              obtain ⟨rfl, rfl⟩ := heq
              exact ⟨v', st', interp_fuel_mono _ _ _ hi (by simp)⟩
            · obtain ⟨x, st1, hx⟩ := ih h k v hrest
              exact ⟨x, st1, interp_fuel_mono _ _ _ hx (by simp)⟩

/-- If a sequence interpolates successfully then every element does, each from the incoming
state (with its own index pushed). -/
theorem interpL_ok_all {n : Nat} {root : Mapping} {st : RState} :
    ∀ {l : List Value} {idx : Nat} {xs : List Value}, interpL n root l idx st = .ok xs →
    xs.length = l.length ∧ ∀ i (h : i < l.length) (h' : i < xs.length),
      ∃ st', interp n root l[i] (st.pushListIndex (idx + i)) = .ok (xs[i], st') := by
  induction n with
  | zero => intro l idx xs h; simp [interpL] at h
  | succ n ih =>
    intro l idx xs h
    cases l with
    | nil =>
      simp only [interpL_nil, Except.ok.injEq] at h
      subst h; simp
    | cons v vs =>
      rw [interpL_cons] at h
      rcases hi : interp n root v (st.pushListIndex idx) with e | ⟨x, st'⟩
      · simp [hi] at h
      · simp only [hi] at h
        cases hr : interpL n root vs (idx + 1) st with
        | error e => simp [hr] at h
        | ok ys =>
          simp only [hr, Except.ok.injEq] at h
          subst h
          obtain ⟨hlen, hall⟩ := ih hr
          refine ⟨by simp [hlen], ?_⟩
          intro i hi1 hi2
          cases i with
          | zero => exact ⟨st', interp_fuel_mono _ _ _ hi (by simp)⟩
          | succ j =>
            simp only [List.length_cons, Nat.add_lt_add_iff_right] at hi1 hi2
            obtain ⟨st1, h1⟩ := hall j hi1 hi2
            refine ⟨st1, ?_⟩
            have : idx + (j + 1) = idx + 1 + j := by omega
            simp only [List.getElem_cons_succ, this]
            exact interp_fuel_mono _ _ _ h1 (by simp)

/-- Conversely: elements that interpolate one by one (each from the incoming state) make the
whole sequence interpolate to exactly those results — nothing one element does to its copy of
the state is visible to another. -/
theorem interpL_of_all {n : Nat} {root : Mapping} {st : RState} :
    ∀ (l : List Value) (idx : Nat) (xs : List Value), xs.length = l.length →
    (∀ i (h : i < l.length) (h' : i < xs.length),
      ∃ st', interp n root l[i] (st.pushListIndex (idx + i)) = .ok (xs[i], st')) →
    interpL (n + l.length + 1) root l idx st = .ok xs := by
  intro l
  induction l with
  | nil => intro idx xs hlen _; cases xs with
    | nil => rfl
    | cons _ _ => simp at hlen
  | cons v vs ih =>
    intro idx xs hlen hall
    cases xs with
    | nil => simp at hlen
    | cons x xs =>
      simp only [List.length_cons, Nat.add_right_cancel_iff] at hlen
      obtain ⟨st0, h0⟩ := hall 0 (by simp) (by simp)
      have hrest := ih (idx + 1) xs hlen (by
        intro i h h'
        obtain ⟨st1, h1⟩ := hall (i + 1) (by simpa using h) (by simpa using h')
        refine ⟨st1, ?_⟩
        have : idx + 1 + i = idx + (i + 1) := by omega
        rw [this]; simpa using h1)
      have e : n + (v :: vs).length + 1 = (n + vs.length + 1) + 1 := by simp; omega
      rw [e, interpL_cons]
      have h0' := interp_fuel_mono_le (m := n + vs.length + 1) (by omega) _ _ _ h0 (by simp)
      simp only [Nat.add_zero, List.getElem_cons_zero] at h0'
      simp only [h0', hrest]

/-! ## Termination

Every evaluator call settles on a non-fuel outcome.  Measure: lexicographically
(`maxDepth + 1 - st.depth`, token / value size) — every `Ref` resolution hands a strictly deeper
state to everything it calls, everything else recurses on smaller tokens or values at the same
depth — plus a separate size argument (`sz`) for the second pass of the `ValueList` arm, which
re-interpolates a merge of already interpolated, hence string-free, values. -/

namespace Termination

mutual
/-- No unparsed string at any position (layer lists may remain). -/
def StrFree : Value → Prop
  | .str _ => False
  | .vl l => StrFreeL l
  | .map es _ _ => StrFreeEs es
  | .seq l => StrFreeL l
  | _ => True
def StrFreeL : List Value → Prop
  | [] => True
  | v :: vs => StrFree v ∧ StrFreeL vs
def StrFreeEs : List (Key × Value) → Prop
  | [] => True
  | (_, v) :: es => StrFree v ∧ StrFreeEs es
end

mutual
/-- Size measure under which merging and re-inserting never grow a value:
scalars 1, sequence `1 + Σ`, mapping `1 + Σ (4 + sz v)`, layer list `2 + Σ (1 + sz l)`. -/
def sz : Value → Nat
  | .map es _ _ => 1 + szEs es
  | .seq l => 1 + szL l
  | .vl l => 2 + szVl l
  | _ => 1
def szL : List Value → Nat
  | [] => 0
  | v :: vs => sz v + szL vs
def szVl : List Value → Nat
  | [] => 0
  | v :: vs => 1 + sz v + szVl vs
def szEs : List (Key × Value) → Nat
  | [] => 0
  | (_, v) :: es => 4 + sz v + szEs es
end

theorem sz_pos (v : Value) : 1 ≤ sz v := by cases v <;> simp [sz] <;> omega

theorem szVl_eq (l : List Value) : szVl l = l.length + szL l := by
  induction l with
  | nil => simp [szVl, szL]
  | cons v vs ih => simp [szVl, szL, ih]; omega

theorem szL_append (a b : List Value) : szL (a ++ b) = szL a + szL b := by
  induction a with
  | nil => simp [szL]
  | cons v vs ih => simp [szL, ih]; omega

theorem szVl_append (a b : List Value) : szVl (a ++ b) = szVl a + szVl b := by
  induction a with
  | nil => simp [szVl]
  | cons v vs ih => simp [szVl, ih]; omega

theorem szEs_append (a b : List (Key × Value)) : szEs (a ++ b) = szEs a + szEs b := by
  induction a with
  | nil => simp [szEs]
  | cons kv es ih => obtain ⟨k, v⟩ := kv; simp [szEs, ih]; omega

theorem strFreeL_append {a b : List Value} : StrFreeL (a ++ b) ↔ StrFreeL a ∧ StrFreeL b := by
  induction a with
  | nil => simp [StrFreeL]
  | cons v vs ih => simp [StrFreeL, ih, and_assoc]

theorem strFreeEs_append {a b : List (Key × Value)} : StrFreeEs (a ++ b) ↔ StrFreeEs a ∧ StrFreeEs b := by
  induction a with
  | nil => simp [StrFreeEs]
  | cons kv es ih => obtain ⟨k, v⟩ := kv; simp [StrFreeEs, ih, and_assoc]

theorem combine_good {old v : Value} (ho : StrFree old) (hv : StrFree v) :
    StrFree (combine old v) ∧ sz (combine old v) ≤ sz old + sz v + 4 := by
  cases old <;> cases v <;>
    simp_all [combine, StrFree, StrFreeL, sz, szVl, szVl_append, strFreeL_append] <;> omega

theorem lookup_strFree {k : Key} {es : List (Key × Value)} {old : Value}
    (h : lookup k es = some old) (hes : StrFreeEs es) : StrFree old := by
  induction es with
  | nil => simp [lookup] at h
  | cons kv es ih =>
    obtain ⟨k', v'⟩ := kv
    simp only [lookup] at h
    simp only [StrFreeEs] at hes
    by_cases hk : k' = k
    · simp only [hk, if_true, Option.some.injEq] at h; exact h ▸ hes.1
    · simp only [hk, if_false] at h; exact ih h hes.2

theorem replaceVal_good {k : Key} {v old : Value} {es : List (Key × Value)}
    (h : lookup k es = some old) (hes : StrFreeEs es) (hv : StrFree v) :
    StrFreeEs (replaceVal k v es) ∧ szEs (replaceVal k v es) + sz old = szEs es + sz v := by
  induction es with
  | nil => simp [lookup] at h
  | cons kv es ih =>
    obtain ⟨k', v'⟩ := kv
    simp only [lookup] at h
    simp only [StrFreeEs] at hes
    by_cases hk : k' = k
    · simp only [hk, if_true, Option.some.injEq] at h
      subst h
      simp only [replaceVal, hk, if_true, StrFreeEs, szEs]
      exact ⟨⟨hv, hes.2⟩, by omega⟩
    · simp only [hk, if_false] at h
      obtain ⟨h1, h2⟩ := ih h hes.2
      simp only [replaceVal, hk, if_false, StrFreeEs, szEs]
      exact ⟨⟨hes.1, h1⟩, by omega⟩

theorem insertImpl_good {m m' : Mapping} {k : Key} {v : Value} {fc fo : Bool}
    (h : m.insertImpl k v fc fo = .ok m') (hm : StrFreeEs m.es) (hv : StrFree v) :
    StrFreeEs m'.es ∧ szEs m'.es ≤ szEs m.es + 4 + sz v := by
  unfold Mapping.insertImpl at h
  simp only at h
  cases hl : lookup k.stripPrefix.1 m.es with
  | none =>
    simp only [hl, Except.ok.injEq] at h
    subst h
    simp only [strFreeEs_append, szEs_append, StrFreeEs, szEs]
    exact ⟨⟨hm, hv, trivial⟩, by omega⟩
  | some old =>
    simp only [hl] at h
    split at h
    · simp at h
    · simp only [Except.ok.injEq] at h
      subst h
      simp only
      have hold := lookup_strFree hl hm
      split
      · obtain ⟨h1, h2⟩ := replaceVal_good hl hm hv
        exact ⟨h1, by omega⟩
      · obtain ⟨hc1, hc2⟩ := combine_good hold hv
        obtain ⟨h1, h2⟩ := replaceVal_good hl hm hc1
        exact ⟨h1, by omega⟩

theorem mergeEntries_good {ock ook : List Key} : ∀ {es : List (Key × Value)} {m m' : Mapping},
    m.mergeEntries ock ook es = .ok m' → StrFreeEs m.es → StrFreeEs es →
    StrFreeEs m'.es ∧ szEs m'.es ≤ szEs m.es + szEs es := by
  intro es
  induction es with
  | nil =>
    intro m m' h hm _
    simp only [Mapping.mergeEntries, Except.ok.injEq] at h
    subst h; exact ⟨hm, by simp [szEs]⟩
  | cons kv es ih =>
    intro m m' h hm hes
    obtain ⟨k, v⟩ := kv
    simp only [Mapping.mergeEntries] at h
    simp only [StrFreeEs] at hes
    cases h1 : m.insertImpl k v (decide (k ∈ ock)) (decide (k ∈ ook)) with
    | error e => simp [h1] at h
    | ok m1 =>
      simp only [h1] at h
      obtain ⟨a1, a2⟩ := insertImpl_good h1 hm hes.1
      obtain ⟨b1, b2⟩ := ih h a1 hes.2
      exact ⟨b1, by simp only [szEs]; omega⟩

theorem mergeNonVl_good {a b r : Value} {st : RState} (h : mergeNonVl a b st = .ok r)
    (ha : StrFree a) (hb : StrFree b) : StrFree r ∧ sz r ≤ sz a + sz b := by
  have hpa := sz_pos a
  have hpb := sz_pos b
  have scalar : ∀ a : Value, 1 ≤ sz a →
      (if b.isMap || b.isSeq then (.error (.mergeConflict st.curKey b.kind a.kind) : R Value)
        else .ok b) = .ok r → StrFree r ∧ sz r ≤ sz a + sz b := by
    intro a hpa h
    split at h
    · simp at h
    · simp only [Except.ok.injEq] at h; subst h; exact ⟨hb, by omega⟩
  cases a with
  | null => simp only [mergeNonVl, Except.ok.injEq] at h; subst h; exact ⟨hb, by omega⟩
  | map es ck ok =>
    cases b with
    | map es' ck' ok' =>
      simp only [mergeNonVl] at h
      cases hm : Mapping.merge ⟨es, ck, ok⟩ ⟨es', ck', ok'⟩ with
      | error e => simp [hm] at h
      | ok m =>
        simp only [hm, Except.ok.injEq] at h
        subst h
        unfold Mapping.merge at hm
        obtain ⟨h1, h2⟩ := mergeEntries_good hm (by simpa [StrFree] using ha) (by simpa [StrFree] using hb)
        simp only [Mapping.toValue, StrFree, sz] at h2 ⊢
        exact ⟨h1, by omega⟩
    | _ => simp [mergeNonVl] at h
  | seq s =>
    cases b with
    | seq s' =>
      simp only [mergeNonVl, Except.ok.injEq] at h
      subst h
      simp only [StrFree, sz, szL_append, strFreeL_append] at ha hb ⊢
      exact ⟨⟨ha, hb⟩, by omega⟩
    | _ => simp [mergeNonVl] at h
  | str _ => simp [mergeNonVl] at h
  | vl _ => simp [mergeNonVl] at h
  | bool _ => simp only [mergeNonVl] at h; exact scalar _ hpa h
  | num _ => simp only [mergeNonVl] at h; exact scalar _ hpa h
  | lit _ => simp only [mergeNonVl] at h; exact scalar _ hpa h


mutual
theorem flat_good : ∀ (v : Value) (st : RState) (r : Value), flat v st = .ok r → StrFree v →
    StrFree r ∧ sz r ≤ sz v
  | .vl l, st, r, h, hv => by
    simp only [flat] at h
    obtain ⟨h1, h2⟩ := flatVl_good l .null st r h (by simpa [StrFree] using hv) (by simp [StrFree])
    have := szVl_eq l
    simp only [sz] at h2 ⊢
    exact ⟨h1, by omega⟩
  | .map es ck ok, st, r, h, hv => by
    simp only [flat] at h
    cases h1 : flatEs es ck ok st {} with
    | error e => simp [h1] at h
    | ok m =>
      simp only [h1, Except.ok.injEq] at h
      subst h
      obtain ⟨a1, a2⟩ := flatEs_good es ck ok st {} m h1 (by simpa [StrFree] using hv) (by simp [StrFreeEs])
      simp only [Mapping.toValue, StrFree, sz, szEs] at a2 ⊢
      exact ⟨a1, by omega⟩
  | .seq l, st, r, h, hv => by
    simp only [flat] at h
    cases h1 : flatL l st with
    | error e => simp [h1] at h
    | ok l' =>
      simp only [h1, Except.ok.injEq] at h
      subst h
      obtain ⟨a1, a2⟩ := flatL_good l st l' h1 (by simpa [StrFree] using hv)
      simp only [StrFree, sz] at ⊢
      exact ⟨a1, by omega⟩
  | .str _, st, r, h, _ => by simp [flat] at h
  | .null, st, r, h, hv => by simp only [flat, Except.ok.injEq] at h; subst h; exact ⟨hv, Nat.le_refl _⟩
  | .bool _, st, r, h, hv => by simp only [flat, Except.ok.injEq] at h; subst h; exact ⟨hv, Nat.le_refl _⟩
  | .num _, st, r, h, hv => by simp only [flat, Except.ok.injEq] at h; subst h; exact ⟨hv, Nat.le_refl _⟩
  | .lit _, st, r, h, hv => by simp only [flat, Except.ok.injEq] at h; subst h; exact ⟨hv, Nat.le_refl _⟩
theorem flatVl_good : ∀ (l : List Value) (base : Value) (st : RState) (r : Value),
    flatVl l base st = .ok r → StrFreeL l → StrFree base → StrFree r ∧ sz r ≤ sz base + szL l
  | [], base, st, r, h, _, hb => by
    simp only [flatVl, Except.ok.injEq] at h; subst h; exact ⟨hb, by simp [szL]⟩
  | v :: rest, base, st, r, h, hl, hb => by
    simp only [flatVl] at h
    simp only [StrFreeL] at hl
    cases h1 : mergeV base v st with
    | error e => simp [h1] at h
    | ok b =>
      simp only [h1] at h
      obtain ⟨a1, a2⟩ := mergeV_good base v st b h1 hb hl.1
      obtain ⟨b1, b2⟩ := flatVl_good rest b st r h hl.2 a1
      exact ⟨b1, by simp only [szL]; omega⟩
theorem mergeV_good : ∀ (self other : Value) (st : RState) (r : Value),
    mergeV self other st = .ok r → StrFree self → StrFree other → StrFree r ∧ sz r ≤ sz self + sz other
  | self, .null, st, r, h, _, _ => by
    simp only [mergeV, Except.ok.injEq] at h; subst h
    have := sz_pos self
    exact ⟨by simp [StrFree], by simp [sz]⟩
  | self, .vl l, st, r, h, hs, ho => by
    simp only [mergeV] at h
    cases h1 : flatVl l .null st with
    | error e => simp [h1] at h
    | ok o =>
      simp only [h1] at h
      obtain ⟨a1, a2⟩ := flatVl_good l .null st o h1 (by simpa [StrFree] using ho) (by simp [StrFree])
      obtain ⟨b1, b2⟩ := mergeNonVl_good h hs a1
      have := szVl_eq l
      simp only [sz] at a2 b2 ⊢
      exact ⟨b1, by omega⟩
  | self, .map es ck ok, st, r, h, hs, ho => by
    simp only [mergeV] at h; exact mergeNonVl_good h hs ho
  | self, .seq l, st, r, h, hs, ho => by
    simp only [mergeV] at h; exact mergeNonVl_good h hs ho
  | self, .str _, st, r, h, hs, ho => by
    simp only [mergeV] at h; exact mergeNonVl_good h hs ho
  | self, .bool _, st, r, h, hs, ho => by
    simp only [mergeV] at h; exact mergeNonVl_good h hs ho
  | self, .num _, st, r, h, hs, ho => by
    simp only [mergeV] at h; exact mergeNonVl_good h hs ho
  | self, .lit _, st, r, h, hs, ho => by
    simp only [mergeV] at h; exact mergeNonVl_good h hs ho
theorem flatL_good : ∀ (l : List Value) (st : RState) (r : List Value),
    flatL l st = .ok r → StrFreeL l → StrFreeL r ∧ szL r ≤ szL l
  | [], st, r, h, _ => by simp only [flatL, Except.ok.injEq] at h; subst h; simp [StrFreeL, szL]
  | v :: vs, st, r, h, hl => by
    simp only [flatL] at h
    simp only [StrFreeL] at hl
    cases h1 : flat v st with
    | error e => simp [h1] at h
    | ok x =>
      simp only [h1] at h
      cases h2 : flatL vs st with
      | error e => simp [h2] at h
      | ok xs =>
        simp only [h2, Except.ok.injEq] at h
        subst h
        obtain ⟨a1, a2⟩ := flat_good v st x h1 hl.1
        obtain ⟨b1, b2⟩ := flatL_good vs st xs h2 hl.2
        exact ⟨⟨a1, b1⟩, by simp only [szL]; omega⟩
theorem flatEs_good : ∀ (es : List (Key × Value)) (ck ok : List Key) (st : RState) (acc m : Mapping),
    flatEs es ck ok st acc = .ok m → StrFreeEs es → StrFreeEs acc.es →
    StrFreeEs m.es ∧ szEs m.es ≤ szEs acc.es + szEs es
  | [], ck, ok, st, acc, m, h, _, ha => by
    simp only [flatEs, Except.ok.injEq] at h; subst h; exact ⟨ha, by simp [szEs]⟩
  | (k, v) :: rest, ck, ok, st, acc, m, h, hes, ha => by
    simp only [flatEs] at h
    simp only [StrFreeEs] at hes
    cases h1 : flat v st with
    | error e => simp [h1] at h
    | ok v' =>
      simp only [h1] at h
      cases h2 : acc.insertImpl k v' (decide (k ∈ ck)) (decide (k ∈ ok)) with
      | error e => simp [h2] at h
      | ok acc' =>
        simp only [h2] at h
        obtain ⟨a1, a2⟩ := flat_good v st v' h1 hes.1
        obtain ⟨b1, b2⟩ := insertImpl_good h2 ha a1
        obtain ⟨c1, c2⟩ := flatEs_good rest ck ok st acc' m h hes.2 b1
        exact ⟨c1, by simp only [szEs]; omega⟩
end

/-! ### The fuel-free helpers never report the fuel error -/

theorem insertImpl_noFuel (m : Mapping) (k : Key) (v : Value) (fc fo : Bool) :
    m.insertImpl k v fc fo ≠ .error .fuel := by
  unfold Mapping.insertImpl
  simp only
  split
  · simp
  · split <;> simp

theorem mergeEntries_noFuel (ock ook : List Key) : ∀ (es : List (Key × Value)) (m : Mapping),
    m.mergeEntries ock ook es ≠ .error .fuel := by
  intro es
  induction es with
  | nil => intro m; simp [Mapping.mergeEntries]
  | cons kv es ih =>
    intro m
    obtain ⟨k, v⟩ := kv
    simp only [Mapping.mergeEntries]
    cases h1 : m.insertImpl k v (decide (k ∈ ock)) (decide (k ∈ ook)) with
    | error e =>
      intro h
      simp only [Except.error.injEq] at h
      exact insertImpl_noFuel _ _ _ _ _ (h ▸ h1)
    | ok m1 => exact ih m1

theorem mergeNonVl_noFuel (a b : Value) (st : RState) : mergeNonVl a b st ≠ .error .fuel := by
  cases a with
  | null => simp [mergeNonVl]
  | map es ck ok =>
    cases b with
    | map es' ck' ok' =>
      simp only [mergeNonVl]
      cases h : Mapping.merge ⟨es, ck, ok⟩ ⟨es', ck', ok'⟩ with
      | error e =>
        intro hc
        simp only [Except.error.injEq] at hc
        exact mergeEntries_noFuel _ _ _ _ (hc ▸ h)
      | ok m => simp
    | _ => simp [mergeNonVl]
  | seq s => cases b <;> simp [mergeNonVl]
  | str _ => simp [mergeNonVl]
  | vl _ => simp [mergeNonVl]
  | bool _ => simp only [mergeNonVl]; split <;> simp
  | num _ => simp only [mergeNonVl]; split <;> simp
  | lit _ => simp only [mergeNonVl]; split <;> simp

mutual
theorem flat_noFuel : ∀ (v : Value) (st : RState), flat v st ≠ .error .fuel
  | .vl l, st => by simp only [flat]; exact flatVl_noFuel l .null st
  | .map es ck ok, st => by
    simp only [flat]
    cases h : flatEs es ck ok st {} with
    | error e =>
      intro hc; simp only [Except.error.injEq] at hc
      exact flatEs_noFuel es ck ok st {} (hc ▸ h)
    | ok m => simp
  | .seq l, st => by
    simp only [flat]
    cases h : flatL l st with
    | error e =>
      intro hc; simp only [Except.error.injEq] at hc
      exact flatL_noFuel l st (hc ▸ h)
    | ok m => simp
  | .str _, st => by simp [flat]
  | .null, st => by simp [flat]
  | .bool _, st => by simp [flat]
  | .num _, st => by simp [flat]
  | .lit _, st => by simp [flat]
theorem flatVl_noFuel : ∀ (l : List Value) (base : Value) (st : RState), flatVl l base st ≠ .error .fuel
  | [], base, st => by simp [flatVl]
  | v :: rest, base, st => by
    simp only [flatVl]
    cases h : mergeV base v st with
    | error e =>
      intro hc; simp only [Except.error.injEq] at hc
      exact mergeV_noFuel base v st (hc ▸ h)
    | ok b => exact flatVl_noFuel rest b st
theorem mergeV_noFuel : ∀ (self other : Value) (st : RState), mergeV self other st ≠ .error .fuel
  | self, .null, st => by simp [mergeV]
  | self, .vl l, st => by
    simp only [mergeV]
    cases h : flatVl l .null st with
    | error e =>
      intro hc; simp only [Except.error.injEq] at hc
      exact flatVl_noFuel l .null st (hc ▸ h)
    | ok o => exact mergeNonVl_noFuel _ _ _
  | self, .map es ck ok, st => by simp only [mergeV]; exact mergeNonVl_noFuel _ _ _
  | self, .seq l, st => by simp only [mergeV]; exact mergeNonVl_noFuel _ _ _
  | self, .str _, st => by simp only [mergeV]; exact mergeNonVl_noFuel _ _ _
  | self, .bool _, st => by simp only [mergeV]; exact mergeNonVl_noFuel _ _ _
  | self, .num _, st => by simp only [mergeV]; exact mergeNonVl_noFuel _ _ _
  | self, .lit _, st => by simp only [mergeV]; exact mergeNonVl_noFuel _ _ _
theorem flatL_noFuel : ∀ (l : List Value) (st : RState), flatL l st ≠ .error .fuel
  | [], st => by simp [flatL]
  | v :: vs, st => by
    simp only [flatL]
    cases h1 : flat v st with
    | error e =>
      intro hc; simp only [Except.error.injEq] at hc
      exact flat_noFuel v st (hc ▸ h1)
    | ok x =>
      dsimp only
      cases h2 : flatL vs st with
      | error e =>
        intro hc; simp only [Except.error.injEq] at hc
        exact flatL_noFuel vs st (hc ▸ h2)
      | ok xs => simp
theorem flatEs_noFuel : ∀ (es : List (Key × Value)) (ck ok : List Key) (st : RState) (acc : Mapping),
    flatEs es ck ok st acc ≠ .error .fuel
  | [], ck, ok, st, acc => by simp [flatEs]
  | (k, v) :: rest, ck, ok, st, acc => by
    simp only [flatEs]
    cases h1 : flat v st with
    | error e =>
      intro hc; simp only [Except.error.injEq] at hc
      exact flat_noFuel v st (hc ▸ h1)
    | ok v' =>
      dsimp only
      cases h2 : acc.insertImpl k v' (decide (k ∈ ck)) (decide (k ∈ ok)) with
      | error e =>
        intro hc; simp only [Except.error.injEq] at hc
        exact insertImpl_noFuel _ _ _ _ _ (hc ▸ h2)
      | ok acc' => exact flatEs_noFuel rest ck ok st acc'
end

mutual
theorem jsonOf_noFuel : ∀ (v : Value), jsonOf v ≠ .error .fuel
  | .null => by simp [jsonOf]
  | .bool true => by simp [jsonOf]
  | .bool false => by simp [jsonOf]
  | .num _ => by simp [jsonOf]
  | .str _ => by simp [jsonOf]
  | .lit _ => by simp [jsonOf]
  | .seq l => by
    simp only [jsonOf]
    cases h : jsonOfL l with
    | error e =>
      intro hc; simp only [Except.error.injEq] at hc
      exact jsonOfL_noFuel l (hc ▸ h)
    | ok xs => simp
  | .map es _ _ => by
    simp only [jsonOf]
    cases h : jsonOfEs es [] with
    | error e =>
      intro hc; simp only [Except.error.injEq] at hc
      exact jsonOfEs_noFuel es [] (hc ▸ h)
    | ok xs => simp
  | .vl _ => by simp [jsonOf]
theorem jsonOfL_noFuel : ∀ (l : List Value), jsonOfL l ≠ .error .fuel
  | [] => by simp [jsonOfL]
  | v :: vs => by
    simp only [jsonOfL]
    cases h1 : jsonOf v with
    | error e =>
      intro hc; simp only [Except.error.injEq] at hc
      exact jsonOf_noFuel v (hc ▸ h1)
    | ok x =>
      dsimp only
      cases h2 : jsonOfL vs with
      | error e =>
        intro hc; simp only [Except.error.injEq] at hc
        exact jsonOfL_noFuel vs (hc ▸ h2)
      | ok xs => simp
theorem jsonOfEs_noFuel : ∀ (es : List (Key × Value)) (acc : List (Str × Str)),
    jsonOfEs es acc ≠ .error .fuel
  | [], acc => by simp [jsonOfEs]
  | (k, v) :: rest, acc => by
    simp only [jsonOfEs]
    cases h1 : jsonOf v with
    | error e =>
      intro hc; simp only [Except.error.injEq] at hc
      exact jsonOf_noFuel v (hc ▸ h1)
    | ok x => exact jsonOfEs_noFuel rest _
end

theorem rawString_noFuel (v : Value) : rawString v ≠ .error .fuel := by
  cases v with
  | bool b => cases b <;> simp [rawString]
  | map es ck ok => simp only [rawString]; exact jsonOf_noFuel _
  | seq l => simp only [rawString]; exact jsonOf_noFuel _
  | _ => simp [rawString]

/-- What `interpolate` returns never contains an unparsed string and is not a layer list. -/
structure OutAt (n : Nat) : Prop where
  interp : ∀ root v st x st', interp n root v st = .ok (x, st') → StrFree x ∧ x.isVl = false
  interpL : ∀ root l idx st xs, interpL n root l idx st = .ok xs → StrFreeL xs
  interpEs : ∀ root es ck ok st acc m, interpEs n root es ck ok st acc = .ok m →
    StrFreeEs acc.es → StrFreeEs m.es
  interpVl : ∀ root l r st r', interpVl n root l r st = .ok r' → StrFree r → StrFree r'
  tokRender : ∀ root t st x st', tokRender n root t st = .ok (x, st') → StrFree x ∧ x.isVl = false

theorem outAt_zero : OutAt 0 := by
  constructor <;> intros <;> simp_all [interp, interpL, interpEs, interpVl, tokRender]

theorem outAt_succ {n : Nat} (ih : OutAt n) : OutAt (n+1) := by
  constructor
  · intro root v st x st' h
    cases v with
    | str s =>
      rw [interp_str] at h
      cases hp : Token.parse s with
      | error e => simp [hp] at h
      | ok o =>
        cases o with
        | none =>
          simp only [hp, Except.ok.injEq, Prod.mk.injEq] at h
          rw [← h.1]; simp [StrFree, Value.isVl]
        | some t => simp only [hp] at h; exact ih.tokRender _ _ _ _ _ h
    | map es ck ok =>
      rw [interp_map] at h
      cases hc : interpEs n root es ck ok st {} with
      | error e => simp [hc] at h
      | ok m =>
        simp only [hc, Except.ok.injEq, Prod.mk.injEq] at h
        rw [← h.1]
        exact ⟨by simpa [Mapping.toValue, StrFree] using ih.interpEs _ _ _ _ _ _ _ hc (by simp [StrFreeEs]),
          rfl⟩
    | seq l =>
      rw [interp_seq] at h
      cases hc : interpL n root l 0 st with
      | error e => simp [hc] at h
      | ok m =>
        simp only [hc, Except.ok.injEq, Prod.mk.injEq] at h
        rw [← h.1]
        exact ⟨by simpa [StrFree] using ih.interpL _ _ _ _ _ hc, rfl⟩
    | vl l =>
      rw [interp_vl] at h
      cases hc : interpVl n root l .null st with
      | error e => simp [hc] at h
      | ok r => simp only [hc] at h; exact ih.interp _ _ _ _ _ h
    | null => simp only [interp, Except.ok.injEq, Prod.mk.injEq] at h; rw [← h.1]; simp [StrFree, Value.isVl]
    | bool b => simp only [interp, Except.ok.injEq, Prod.mk.injEq] at h; rw [← h.1]; simp [StrFree, Value.isVl]
    | num b => simp only [interp, Except.ok.injEq, Prod.mk.injEq] at h; rw [← h.1]; simp [StrFree, Value.isVl]
    | lit b => simp only [interp, Except.ok.injEq, Prod.mk.injEq] at h; rw [← h.1]; simp [StrFree, Value.isVl]
  · intro root l idx st xs h
    cases l with
    | nil => simp only [interpL_nil, Except.ok.injEq] at h; subst h; simp [StrFreeL]
    | cons v vs =>
      rw [interpL_cons] at h
      rcases hi : interp n root v (st.pushListIndex idx) with e | ⟨x, st'⟩
      · simp [hi] at h
      · simp only [hi] at h
        cases hr : interpL n root vs (idx + 1) st with
        | error e => simp [hr] at h
        | ok ys =>
          simp only [hr, Except.ok.injEq] at h
          subst h
          exact ⟨(ih.interp _ _ _ _ _ hi).1, ih.interpL _ _ _ _ _ hr⟩
  · intro root es ck ok st acc m h hacc
    cases es with
    | nil => simp only [interpEs_nil, Except.ok.injEq] at h; subst h; exact hacc
    | cons kv rest =>
      obtain ⟨k, v⟩ := kv
      rw [interpEs_cons] at h
      rcases hi : interp n root v (st.pushMappingKey k) with e | ⟨v', st'⟩
      · simp [hi] at h
      · simp only [hi] at h
        cases hfl : flat v' st' with
        | error e => simp [hfl] at h
        | ok v'' =>
          simp only [hfl] at h
          cases hins : acc.insertImpl k v'' (decide (k ∈ ck)) (decide (k ∈ ok)) with
          | error e => simp [hins] at h
          | ok acc' =>
            simp only [hins] at h
            have h1 := (ih.interp _ _ _ _ _ hi).1
            have h2 := (flat_good _ _ _ hfl h1).1
            exact ih.interpEs _ _ _ _ _ _ _ h (insertImpl_good hins hacc h2).1
  · intro root l r st r' h hr
    cases l with
    | nil => simp only [interpVl_nil, Except.ok.injEq] at h; subst h; exact hr
    | cons v vs =>
      rw [interpVl_cons] at h
      rcases hi : interp n root v st with e | ⟨x, st'⟩
      · simp [hi] at h
      · simp only [hi] at h
        cases hm : mergeV r x st' with
        | error e => simp [hm] at h
        | ok r1 =>
          simp only [hm] at h
          exact ih.interpVl _ _ _ _ _ h (mergeV_good _ _ _ _ hm hr (ih.interp _ _ _ _ _ hi).1).1
  · intro root t st x st' h
    rw [tokRender_succ] at h
    rcases hc : tokResolve n root t st with e | ⟨v, st1⟩
    · simp [hc] at h
    · simp only [hc] at h
      cases t with
      | ref parts => simp only at h; exact ih.interp _ _ _ _ _ h
      | lit s =>
        simp only at h
        cases hr : rawString v with
        | error e => simp [hr] at h
        | ok s' =>
          simp only [hr, Except.ok.injEq, Prod.mk.injEq] at h; rw [← h.1]; simp [StrFree, Value.isVl]
      | combined ts =>
        simp only at h
        cases hr : rawString v with
        | error e => simp [hr] at h
        | ok s' =>
          simp only [hr, Except.ok.injEq, Prod.mk.injEq] at h; rw [← h.1]; simp [StrFree, Value.isVl]

theorem outAt : ∀ n, OutAt n := by
  intro n
  induction n with
  | zero => exact outAt_zero
  | succ n ih => exact outAt_succ ih

theorem strFree_isStr {x : Value} (h : StrFree x) : x.isStr = false := by
  cases x <;> simp_all [StrFree, Value.isStr]

/-- On string-free input `interpolate` never grows the value (and leaves the state alone). -/
structure InAt (n : Nat) : Prop where
  interp : ∀ root v st x st', interp n root v st = .ok (x, st') → StrFree v → sz x ≤ sz v
  interpL : ∀ root l idx st xs, interpL n root l idx st = .ok xs → StrFreeL l → szL xs ≤ szL l
  interpEs : ∀ root es ck ok st acc m, interpEs n root es ck ok st acc = .ok m →
    StrFreeEs es → StrFreeEs acc.es → szEs m.es ≤ szEs acc.es + szEs es
  interpVl : ∀ root l r st r', interpVl n root l r st = .ok r' → StrFreeL l → StrFree r →
    sz r' ≤ sz r + szL l

theorem inAt_zero : InAt 0 := by
  constructor <;> intros <;> simp_all [interp, interpL, interpEs, interpVl]

theorem inAt_succ {n : Nat} (ih : InAt n) : InAt (n+1) := by
  have out := outAt n
  constructor
  · intro root v st x st' h hv
    cases v with
    | str s => simp [StrFree] at hv
    | map es ck ok =>
      rw [interp_map] at h
      cases hc : interpEs n root es ck ok st {} with
      | error e => simp [hc] at h
      | ok m =>
        simp only [hc, Except.ok.injEq, Prod.mk.injEq] at h
        rw [← h.1]
        have := ih.interpEs _ _ _ _ _ _ _ hc (by simpa [StrFree] using hv) (by simp [StrFreeEs])
        simp only [Mapping.toValue, sz, szEs] at this ⊢
        omega
    | seq l =>
      rw [interp_seq] at h
      cases hc : interpL n root l 0 st with
      | error e => simp [hc] at h
      | ok m =>
        simp only [hc, Except.ok.injEq, Prod.mk.injEq] at h
        rw [← h.1]
        have := ih.interpL _ _ _ _ _ hc (by simpa [StrFree] using hv)
        simp only [sz]; omega
    | vl l =>
      rw [interp_vl] at h
      cases hc : interpVl n root l .null st with
      | error e => simp [hc] at h
      | ok r =>
        simp only [hc] at h
        have hl : StrFreeL l := by simpa [StrFree] using hv
        have h1 := ih.interpVl _ _ _ _ _ hc hl (by simp [StrFree])
        have h2 := out.interpVl _ _ _ _ _ hc (by simp [StrFree])
        have h3 := ih.interp _ _ _ _ _ h h2
        have := szVl_eq l
        simp only [sz] at h1 ⊢
        omega
    | null => simp only [interp, Except.ok.injEq, Prod.mk.injEq] at h; rw [← h.1]; exact Nat.le_refl _
    | bool b => simp only [interp, Except.ok.injEq, Prod.mk.injEq] at h; rw [← h.1]; exact Nat.le_refl _
    | num b => simp only [interp, Except.ok.injEq, Prod.mk.injEq] at h; rw [← h.1]; exact Nat.le_refl _
    | lit b => simp only [interp, Except.ok.injEq, Prod.mk.injEq] at h; rw [← h.1]; exact Nat.le_refl _
  · intro root l idx st xs h hl
    cases l with
    | nil => simp only [interpL_nil, Except.ok.injEq] at h; subst h; simp [szL]
    | cons v vs =>
      rw [interpL_cons] at h
      simp only [StrFreeL] at hl
      rcases hi : interp n root v (st.pushListIndex idx) with e | ⟨x, st'⟩
      · simp [hi] at h
      · simp only [hi] at h
        cases hr : interpL n root vs (idx + 1) st with
        | error e => simp [hr] at h
        | ok ys =>
          simp only [hr, Except.ok.injEq] at h
          subst h
          have h1 := ih.interp _ _ _ _ _ hi hl.1
          have h2 := ih.interpL _ _ _ _ _ hr hl.2
          simp only [szL]; omega
  · intro root es ck ok st acc m h hes hacc
    cases es with
    | nil => simp only [interpEs_nil, Except.ok.injEq] at h; subst h; simp [szEs]
    | cons kv rest =>
      obtain ⟨k, v⟩ := kv
      rw [interpEs_cons] at h
      simp only [StrFreeEs] at hes
      rcases hi : interp n root v (st.pushMappingKey k) with e | ⟨v', st'⟩
      · simp [hi] at h
      · simp only [hi] at h
        cases hfl : flat v' st' with
        | error e => simp [hfl] at h
        | ok v'' =>
          simp only [hfl] at h
          cases hins : acc.insertImpl k v'' (decide (k ∈ ck)) (decide (k ∈ ok)) with
          | error e => simp [hins] at h
          | ok acc' =>
            simp only [hins] at h
            have h0 := ih.interp _ _ _ _ _ hi hes.1
            have h1 := (out.interp _ _ _ _ _ hi).1
            obtain ⟨f1, f2⟩ := flat_good _ _ _ hfl h1
            obtain ⟨i1, i2⟩ := insertImpl_good hins hacc f1
            have := ih.interpEs _ _ _ _ _ _ _ h hes.2 i1
            simp only [szEs]; omega
  · intro root l r st r' h hl hr
    cases l with
    | nil => simp only [interpVl_nil, Except.ok.injEq] at h; subst h; simp [szL]
    | cons v vs =>
      rw [interpVl_cons] at h
      simp only [StrFreeL] at hl
      rcases hi : interp n root v st with e | ⟨x, st'⟩
      · simp [hi] at h
      · simp only [hi] at h
        cases hm : mergeV r x st' with
        | error e => simp [hm] at h
        | ok r1 =>
          simp only [hm] at h
          have h0 := ih.interp _ _ _ _ _ hi hl.1
          have h1 := (out.interp _ _ _ _ _ hi).1
          obtain ⟨m1, m2⟩ := mergeV_good _ _ _ _ hm hr h1
          have := ih.interpVl _ _ _ _ _ h hl.2 m1
          simp only [szL]; omega

theorem inAt : ∀ n, InAt n := by
  intro n
  induction n with
  | zero => exact inAt_zero
  | succ n ih => exact inAt_succ ih

/-- The fuel-indexed computation `f` settles on a non-fuel outcome. -/
def Conv {α : Type} (f : Nat → R α) : Prop :=
  ∃ N r, r ≠ .error .fuel ∧ ∀ n, N ≤ n → f n = r

theorem conv_intro {α : Type} {f : Nat → R α} (N : Nat) (r : R α)
    (h : ∀ m, N ≤ m → f (m+1) = r) (hne : r ≠ .error .fuel) : Conv f :=
  ⟨N+1, r, hne, fun n hn => by
    obtain ⟨m, rfl⟩ : ∃ m, n = m + 1 := ⟨n - 1, by omega⟩
    exact h m (by omega)⟩

theorem conv_of_ne {α : Type} {f : Nat → R α}
    (mono : ∀ n, f n ≠ .error .fuel → f (n+1) = f n) {n : Nat} (h : f n ≠ .error .fuel) : Conv f :=
  ⟨n, f n, h, fun _ hm => mono_le_of_step f mono hm h⟩

theorem Conv.exists_ne {α : Type} {f : Nat → R α} (h : Conv f) : ∃ n, f n ≠ .error .fuel := by
  obtain ⟨N, r, hne, c⟩ := h
  exact ⟨N, by rw [c N (Nat.le_refl _)]; exact hne⟩

theorem err_ne {α β : Type} {e : Err} (h : (.error e : R α) ≠ .error .fuel) :
    (.error e : R β) ≠ .error .fuel := by
  intro h'; apply h; cases h'; rfl

theorem err_ne_of {α β : Type} {x : R α} {e : Err} (hx : x ≠ .error .fuel) (h : x = .error e) :
    (.error e : R β) ≠ .error .fuel := by
  intro h'; apply hx; cases h'; exact h

/-! ### List-level composition (generic) -/

theorem pushListIndex_depth (st : RState) (idx : Nat) : (st.pushListIndex idx).depth = st.depth := by
  unfold RState.pushListIndex; split <;> rfl

theorem convL {root : Mapping} {st : RState} : ∀ (l : List Value),
    (∀ v, v ∈ l → ∀ st', st'.depth = st.depth → Conv (fun n => interp n root v st')) →
    ∀ idx, Conv (fun n => interpL n root l idx st) := by
  intro l
  induction l with
  | nil => intro _ idx; exact conv_intro 0 (.ok []) (fun m _ => rfl) (by simp)
  | cons v vs ih =>
    intro hv idx
    obtain ⟨N1, r1, hne1, c1⟩ := hv v (by simp) (st.pushListIndex idx) (pushListIndex_depth _ _)
    dsimp only at c1
    rcases r1 with e | ⟨x, s⟩
    · refine conv_intro N1 (.error e) (fun m hm => ?_) (err_ne hne1)
      rw [interpL_cons, c1 m hm]
    · obtain ⟨N2, r2, hne2, c2⟩ := ih (fun w hw => hv w (List.mem_cons_of_mem _ hw)) (idx + 1)
      dsimp only at c2
      rcases r2 with e | xs
      · refine conv_intro (N1+N2) (.error e) (fun m hm => ?_) hne2
        rw [interpL_cons, c1 m (by omega), c2 m (by omega)]
      · refine conv_intro (N1+N2) (.ok (x :: xs)) (fun m hm => ?_) (by simp)
        rw [interpL_cons, c1 m (by omega), c2 m (by omega)]

theorem convEs {root : Mapping} {ck ok : List Key} {st : RState} : ∀ (es : List (Key × Value)),
    (∀ k v, (k, v) ∈ es → ∀ st', st'.depth = st.depth → Conv (fun n => interp n root v st')) →
    ∀ acc, Conv (fun n => interpEs n root es ck ok st acc) := by
  intro es
  induction es with
  | nil => intro _ acc; exact conv_intro 0 (.ok acc) (fun m _ => rfl) (by simp)
  | cons kv rest ih =>
    intro hv acc
    obtain ⟨k, v⟩ := kv
    obtain ⟨N1, r1, hne1, c1⟩ := hv k v (by simp) (st.pushMappingKey k) rfl
    dsimp only at c1
    rcases r1 with e | ⟨v', st'⟩
    · refine conv_intro N1 (.error e) (fun m hm => ?_) (err_ne hne1)
      rw [interpEs_cons, c1 m hm]
    · cases hfl : flat v' st' with
      | error e =>
        refine conv_intro N1 (.error e) (fun m hm => ?_) (err_ne_of (flat_noFuel _ _) hfl)
        rw [interpEs_cons, c1 m hm]; simp only [hfl]
      | ok v'' =>
        cases hins : acc.insertImpl k v'' (decide (k ∈ ck)) (decide (k ∈ ok)) with
        | error e =>
          refine conv_intro N1 (.error e) (fun m hm => ?_) (err_ne_of (insertImpl_noFuel _ _ _ _ _) hins)
          rw [interpEs_cons, c1 m hm]; simp only [hfl, hins]
        | ok acc' =>
          obtain ⟨N2, r2, hne2, c2⟩ := ih (fun k' w hw => hv k' w (List.mem_cons_of_mem _ hw)) acc'
          dsimp only at c2
          refine conv_intro (N1+N2) r2 (fun m hm => ?_) hne2
          rw [interpEs_cons, c1 m (by omega)]; simp only [hfl, hins]
          exact c2 m (by omega)

theorem convVl {root : Mapping} {st : RState} : ∀ (l : List Value),
    (∀ v, v ∈ l → Conv (fun n => interp n root v st)) →
    ∀ r, Conv (fun n => interpVl n root l r st) := by
  intro l
  induction l with
  | nil => intro _ r; exact conv_intro 0 (.ok r) (fun m _ => rfl) (by simp)
  | cons v vs ih =>
    intro hv r
    obtain ⟨N1, r1, hne1, c1⟩ := hv v (by simp)
    dsimp only at c1
    rcases r1 with e | ⟨x, st'⟩
    · refine conv_intro N1 (.error e) (fun m hm => ?_) (err_ne hne1)
      rw [interpVl_cons, c1 m hm]
    · cases hm : mergeV r x st' with
      | error e =>
        refine conv_intro N1 (.error e) (fun m hm' => ?_) (err_ne_of (mergeV_noFuel _ _ _) hm)
        rw [interpVl_cons, c1 m hm']; simp only [hm]
      | ok r' =>
        obtain ⟨N2, r2, hne2, c2⟩ := ih (fun w hw => hv w (List.mem_cons_of_mem _ hw)) r'
        dsimp only at c2
        refine conv_intro (N1+N2) r2 (fun m hm' => ?_) hne2
        rw [interpVl_cons, c1 m (by omega)]; simp only [hm]
        exact c2 m (by omega)

theorem convLayers {root : Mapping} {st : RState} : ∀ (l : List Value),
    (∀ v, v ∈ l → Conv (fun n => interp n root v st)) →
    Conv (fun n => layersStr n root l st) := by
  intro l
  induction l with
  | nil => intro _; exact conv_intro 0 (.ok []) (fun m _ => rfl) (by simp)
  | cons v vs ih =>
    intro hv
    obtain ⟨N2, r2, hne2, c2⟩ := ih (fun w hw => hv w (List.mem_cons_of_mem _ hw))
    dsimp only at c2
    by_cases hs : v.isStr = true
    · obtain ⟨N1, r1, hne1, c1⟩ := hv v (by simp)
      dsimp only at c1
      rcases r1 with e | ⟨x, st'⟩
      · refine conv_intro N1 (.error e) (fun m hm => ?_) (err_ne hne1)
        rw [layersStr_cons, c1 m hm]; simp only [hs, if_true]
      · rcases r2 with e | xs
        · refine conv_intro (N1+N2) (.error e) (fun m hm => ?_) hne2
          rw [layersStr_cons, c1 m (by omega), c2 m (by omega)]; simp only [hs, if_true]
        · refine conv_intro (N1+N2) (.ok (x :: xs)) (fun m hm => ?_) (by simp)
          rw [layersStr_cons, c1 m (by omega), c2 m (by omega)]; simp only [hs, if_true]
    · have hs' : v.isStr = false := by simpa using hs
      rcases r2 with e | xs
      · refine conv_intro N2 (.error e) (fun m hm => ?_) hne2
        rw [layersStr_cons, c2 m (by omega)]; simp only [hs', Bool.false_eq_true, if_false]
      · refine conv_intro N2 (.ok (v :: xs)) (fun m hm => ?_) (by simp)
        rw [layersStr_cons, c2 m (by omega)]; simp only [hs', Bool.false_eq_true, if_false]

/-! ### Size facts about members -/

theorem mem_szL {v : Value} {l : List Value} (h : v ∈ l) : sz v ≤ szL l := by
  induction l with
  | nil => simp at h
  | cons w ws ih =>
    simp only [szL]
    rcases List.mem_cons.1 h with rfl | h'
    · omega
    · have := ih h'; omega

theorem mem_strFreeL {v : Value} {l : List Value} (h : v ∈ l) (hl : StrFreeL l) : StrFree v := by
  induction l with
  | nil => simp at h
  | cons w ws ih =>
    simp only [StrFreeL] at hl
    rcases List.mem_cons.1 h with rfl | h'
    · exact hl.1
    · exact ih h' hl.2

theorem mem_szEs {k : Key} {v : Value} {es : List (Key × Value)} (h : (k, v) ∈ es) :
    sz v + 4 ≤ szEs es := by
  induction es with
  | nil => simp at h
  | cons w ws ih =>
    obtain ⟨k', v'⟩ := w
    simp only [szEs]
    rcases List.mem_cons.1 h with heq | h'
    · simp only [Prod.mk.injEq] at heq; obtain ⟨_, rfl⟩ := heq; omega
    · have := ih h'; omega

theorem mem_strFreeEs {k : Key} {v : Value} {es : List (Key × Value)} (h : (k, v) ∈ es)
    (hl : StrFreeEs es) : StrFree v := by
  induction es with
  | nil => simp at h
  | cons w ws ih =>
    obtain ⟨k', v'⟩ := w
    simp only [StrFreeEs] at hl
    rcases List.mem_cons.1 h with heq | h'
    · simp only [Prod.mk.injEq] at heq; obtain ⟨_, rfl⟩ := heq; exact hl.1
    · exact ih h' hl.2

/-! ### String-free values: the second pass of the `ValueList` arm terminates -/

theorem conv_strFree (root : Mapping) : ∀ (b : Nat) (v : Value), sz v ≤ b → StrFree v →
    ∀ st, Conv (fun n => interp n root v st) := by
  intro b
  induction b with
  | zero => intro v hb; have := sz_pos v; omega
  | succ b ih =>
    intro v hb hv st
    cases v with
    | str s => simp [StrFree] at hv
    | null => exact conv_intro 0 (.ok (.null, st)) (fun m _ => rfl) (by simp)
    | bool x => exact conv_intro 0 (.ok (.bool x, st)) (fun m _ => rfl) (by simp)
    | num x => exact conv_intro 0 (.ok (.num x, st)) (fun m _ => rfl) (by simp)
    | lit x => exact conv_intro 0 (.ok (.lit x, st)) (fun m _ => rfl) (by simp)
    | map es ck ok =>
      simp only [sz] at hb
      simp only [StrFree] at hv
      obtain ⟨N1, r1, hne1, c1⟩ := convEs (root := root) (ck := ck) (ok := ok) (st := st) es
        (fun k w hw st' _ => ih w (by have := mem_szEs hw; omega) (mem_strFreeEs hw hv) st') {}
      dsimp only at c1
      rcases r1 with e | m
      · refine conv_intro N1 (.error e) (fun m hm => ?_) (err_ne hne1)
        rw [interp_map, c1 m hm]
      · refine conv_intro N1 (.ok (m.toValue, st)) (fun m hm => ?_) (by simp)
        rw [interp_map, c1 m hm]
    | seq l =>
      simp only [sz] at hb
      simp only [StrFree] at hv
      obtain ⟨N1, r1, hne1, c1⟩ := convL (root := root) (st := st) l
        (fun w hw st' _ => ih w (by have := mem_szL hw; omega) (mem_strFreeL hw hv) st') 0
      dsimp only at c1
      rcases r1 with e | l'
      · refine conv_intro N1 (.error e) (fun m hm => ?_) (err_ne hne1)
        rw [interp_seq, c1 m hm]
      · refine conv_intro N1 (.ok (.seq l', st)) (fun m hm => ?_) (by simp)
        rw [interp_seq, c1 m hm]
    | vl l =>
      simp only [sz] at hb
      simp only [StrFree] at hv
      have hlen := szVl_eq l
      obtain ⟨N1, r1, hne1, c1⟩ := convVl (root := root) (st := st) l
        (fun w hw => ih w (by have := mem_szL hw; omega) (mem_strFreeL hw hv) st) .null
      dsimp only at c1
      rcases r1 with e | r
      · refine conv_intro N1 (.error e) (fun m hm => ?_) (err_ne hne1)
        rw [interp_vl, c1 m hm]
      · have hc := c1 N1 (Nat.le_refl _)
        have h1 := (outAt N1).interpVl _ _ _ _ _ hc (by simp [StrFree])
        have h2 := (inAt N1).interpVl _ _ _ _ _ hc hv (by simp [StrFree])
        simp only [sz] at h2
        obtain ⟨N2, r2, hne2, c2⟩ := ih r (by omega) h1 st
        dsimp only at c2
        refine conv_intro (N1+N2) r2 (fun m hm => ?_) hne2
        rw [interp_vl, c1 m (by omega)]
        exact c2 m (by omega)

/-! ### The parser's fuel is sufficient -/

theorem scan_snd_le (step : Str → Option (Str × Nat)) : ∀ (i : Str) (k : Nat),
    (scan step k i).2.length ≤ i.length := by
  intro i
  induction i with
  | nil => intro k; simp [scan]
  | cons c cs ih =>
    intro k
    cases k with
    | succ k => simp only [scan, List.length_cons]; have := ih k; omega
    | zero =>
      simp only [scan]
      split
      · simp
      · rename_i out n _
        simp only [List.length_cons]; have := ih (n - 1); omega

theorem scan_progress (step : Str → Option (Str × Nat)) (i : Str)
    (h : (scan step 0 i).1 ≠ []) : (scan step 0 i).2.length < i.length := by
  cases i with
  | nil => simp [scan] at h
  | cons c cs =>
    simp only [scan] at h ⊢
    split
    · rename_i hs; simp [hs] at h
    · rename_i out n _
      simp only [List.length_cons]; have := scan_snd_le step cs (n - 1); omega

theorem stringP_progress {i s rest : Str} (h : stringP i = some (s, rest)) :
    rest.length < i.length := by
  unfold stringP at h
  split at h
  · rename_i r hd
    simp only [Option.some.injEq] at h; subst h
    unfold doubleEscape at hd
    split at hd
    · split at hd
      · simp only [Option.some.injEq, Prod.mk.injEq] at hd; obtain ⟨_, rfl⟩ := hd; simp; omega
      · simp at hd
    · simp at hd
  · split at h
    · rename_i r hd
      simp only [Option.some.injEq] at h; subst h
      unfold refEscapeOpen at hd
      split at hd
      · simp only [Option.some.injEq, Prod.mk.injEq] at hd; obtain ⟨_, rfl⟩ := hd; simp; omega
      · simp at hd
    · split at h
      · rename_i r hd
        simp only [Option.some.injEq] at h; subst h
        unfold invEscapeOpen at hd
        split at hd
        · simp only [Option.some.injEq, Prod.mk.injEq] at hd; obtain ⟨_, rfl⟩ := hd; simp; omega
        · simp at hd
      · simp only at h
        split at h
        · simp at h
        · rename_i hne
          simp only [Option.some.injEq] at h
          have := scan_progress contentStep i (by
            intro he; apply hne; unfold content; rw [he]; rfl)
          unfold content at h
          rw [h] at this; exact this

/-- What the induction on the parser fuel carries. -/
structure RefAt (n : Nat) : Prop where
  refNoFuel : ∀ i, i.length + 1 ≤ n → reference n i ≠ .error .fuel
  refShrinks : ∀ i t rest, reference n i = .ok (t, rest) → rest.length < i.length
  itemsNoFuel : ∀ i, i.length + 2 ≤ n → refItems n i ≠ .error .fuel
  itemsShrinks : ∀ i ts rest, refItems n i = .ok (ts, rest) → rest.length ≤ i.length

theorem refAt_zero : RefAt 0 := by
  constructor
  · intro i h; omega
  · intro i t rest h; simp [reference] at h
  · intro i h; omega
  · intro i ts rest h; simp [refItems] at h

theorem refAt_succ {n : Nat} (ih : RefAt n) : RefAt (n+1) := by
  constructor
  · intro i hlen
    unfold reference
    split
    · omega
    · rename_i m rest heq
      have hm : m = n := by omega
      subst hm
      have hB := ih.itemsNoFuel rest (by simp only [List.length_cons] at hlen; omega)
      split
      · rename_i e he; intro hc; simp only [Except.error.injEq] at hc; exact hB (hc ▸ he)
      · simp
      · simp
      · simp
    · simp
  · intro i t rest h
    unfold reference at h
    split at h
    · simp at h
    · rename_i m rest0 heq
      have hm : m = n := by omega
      subst hm
      split at h
      · simp at h
      · simp at h
      · rename_i ts rest' he
        simp only [Except.ok.injEq, Prod.mk.injEq] at h
        obtain ⟨_, rfl⟩ := h
        have := ih.itemsShrinks _ _ _ he
        simp only [List.length_cons] at this ⊢; omega
      · simp at h
    · simp at h
  · intro i hlen
    unfold refItems
    have hA := ih.refNoFuel i (by omega)
    split
    · rename_i he; exact absurd he hA
    · rename_i t rest he
      have hs := ih.refShrinks _ _ _ he
      have hB := ih.itemsNoFuel rest (by omega)
      split
      · rename_i e he2; intro hc; simp only [Except.error.injEq] at hc; exact hB (hc ▸ he2)
      · simp
    · simp only
      split
      · rename_i hne
        have hs := scan_progress refStringStep i (by
          intro he; unfold refString at hne; rw [he] at hne; simp at hne)
        have hB := ih.itemsNoFuel (refString i).2 (by unfold refString; omega)
        split
        · rename_i e he2; intro hc; simp only [Except.error.injEq] at hc; exact hB (hc ▸ he2)
        · simp
      · simp
  · intro i ts rest h
    unfold refItems at h
    split at h
    · simp at h
    · rename_i t rest1 he
      have hs := ih.refShrinks _ _ _ he
      split at h
      · simp at h
      · rename_i ts' rest' he2
        simp only [Except.ok.injEq, Prod.mk.injEq] at h
        obtain ⟨_, rfl⟩ := h
        have := ih.itemsShrinks _ _ _ he2; omega
    · simp only at h
      split at h
      · split at h
        · simp at h
        · rename_i ts' rest' he2
          simp only [Except.ok.injEq, Prod.mk.injEq] at h
          obtain ⟨_, rfl⟩ := h
          have h1 := ih.itemsShrinks _ _ _ he2
          have h2 := scan_snd_le refStringStep i 0
          unfold refString at h1; omega
      · simp only [Except.ok.injEq, Prod.mk.injEq] at h
        obtain ⟨_, rfl⟩ := h; exact Nat.le_refl _

theorem refAt : ∀ n, RefAt n := by
  intro n; induction n with
  | zero => exact refAt_zero
  | succ n ih => exact refAt_succ ih

theorem items_noFuel : ∀ (n : Nat) (i : Str), i.length + 2 ≤ n → items n i ≠ .error .fuel := by
  intro n
  induction n with
  | zero => intro i h; omega
  | succ n ih =>
    intro i hlen
    unfold items
    have hA := (refAt n).refNoFuel i (by omega)
    split
    · rename_i he; exact absurd he hA
    · rename_i t rest he
      have hs := (refAt n).refShrinks _ _ _ he
      have hB := ih rest (by omega)
      split
      · rename_i e he2; intro hc; simp only [Except.error.injEq] at hc; exact hB (hc ▸ he2)
      · simp
    · split
      · rename_i s rest hsP
        have hs := stringP_progress hsP
        have hB := ih rest (by omega)
        split
        · rename_i e he2; intro hc; simp only [Except.error.injEq] at hc; exact hB (hc ▸ he2)
        · simp
      · simp

theorem parse_noFuel (s : Str) : Token.parse s ≠ .error .fuel := by
  unfold Token.parse
  split
  · simp
  · have h := items_noFuel (parseFuel s) s (by unfold parseFuel; omega)
    have h2 : parseRefF (parseFuel s) s ≠ .error .fuel := by
      unfold parseRefF
      split
      · rename_i e he; intro hc; simp only [Except.error.injEq] at hc; exact h (hc ▸ he)
      · simp
      · split <;> simp
      · simp
    split
    · simp
    · simp
    · rename_i he; exact absurd he h2

/-- The parser's own fuel (`parseFuel`) is always sufficient. -/
def ParserTotal : Prop := ∀ s : Str, Token.parse s ≠ .error .fuel

theorem parserTotal : ParserTotal := parse_noFuel

/-- All 13 evaluator functions settle, for every argument, when started in state `st`. -/
structure AllConv (root : Mapping) (st : RState) : Prop where
  interp : ∀ v, Conv (fun n => interp n root v st)
  interpL : ∀ l idx, Conv (fun n => interpL n root l idx st)
  interpEs : ∀ es ck ok acc, Conv (fun n => interpEs n root es ck ok st acc)
  interpVl : ∀ l r, Conv (fun n => interpVl n root l r st)
  tokRender : ∀ t, Conv (fun n => tokRender n root t st)
  tokResolve : ∀ t, Conv (fun n => tokResolve n root t st)
  descend : ∀ v ks p, Conv (fun n => descend n root v ks st p)
  finalLoop : ∀ v, Conv (fun n => finalLoop n root v st)
  interpStrOrVl : ∀ v, Conv (fun n => interpStrOrVl n root v st)
  layersStr : ∀ l, Conv (fun n => layersStr n root l st)
  slice : ∀ ts, Conv (fun n => slice n root ts st)
  strLoop : ∀ v, Conv (fun n => strLoop n root v st)
  sliceFinish : ∀ v, Conv (fun n => sliceFinish n root v st)

/-- `st` is within `d` levels of the point where no reference can be resolved any more. -/
def Lvl (d : Nat) (st : RState) : Prop := maxDepth + 1 - st.depth ≤ d

theorem deeper {d : Nat} {st st' : RState} (hl : Lvl d st) (h1 : st.depth + 1 ≤ maxDepth)
    (h2 : st.depth + 1 ≤ st'.depth) : maxDepth + 1 - st'.depth < d := by
  unfold Lvl at hl; omega

theorem Lvl.mono {d : Nat} {st st' : RState} (hl : Lvl d st) (h : st.depth ≤ st'.depth) : Lvl d st' := by
  unfold Lvl at hl ⊢; omega

/-- A reference token: everything it calls runs strictly deeper. -/
theorem conv_tokResolve_ref {root : Mapping} {d : Nat}
    (IH : ∀ st', maxDepth + 1 - st'.depth < d → AllConv root st')
    (parts : List Token) (st : RState) (hl : Lvl d st) :
    Conv (fun n => tokResolve n root (.ref parts) st) := by
  by_cases hd : st.depth + 1 > maxDepth
  · refine conv_intro 0 (.error (.depth ({ st with depth := st.depth + 1 } : RState).curKey))
      (fun m _ => ?_) (by simp)
    rw [tokResolve_ref]; simp only [hd, if_true]
  · have hd1 : st.depth + 1 ≤ maxDepth := by omega
    have A1 := IH { st with depth := st.depth + 1 } (deeper hl hd1 (Nat.le_refl _))
    obtain ⟨N1, r1, hne1, c1⟩ := A1.slice parts
    dsimp only at c1
    rcases r1 with e | path
    · refine conv_intro N1 (.error e) (fun m hm => ?_) (err_ne hne1)
      rw [tokResolve_ref, c1 m hm]; simp only [hd, if_false]
    · by_cases hs : path ∈ st.seen
      · refine conv_intro N1 (.error .loop) (fun m hm => ?_) (by simp)
        rw [tokResolve_ref, c1 m hm]; simp only [hd, if_false, hs, if_true]
      · cases hsp : splitColon path with
        | nil =>
          refine conv_intro N1 (.error (.panic .splitEmpty)) (fun m hm => ?_) (by simp)
          rw [tokResolve_ref, c1 m hm]; simp only [hd, if_false, hs, hsp]
        | cons k0 segs =>
          cases hg : root.get (.str k0) with
          | none =>
            refine conv_intro N1 (.error (.missingKey path k0
              ({ st with depth := st.depth + 1, seen := path :: st.seen } : RState).curKey))
              (fun m hm => ?_) (by simp)
            rw [tokResolve_ref, c1 m hm]; simp only [hd, if_false, hs, hsp, hg]
          | some v0 =>
            have A2 := IH { st with depth := st.depth + 1, seen := path :: st.seen }
              (deeper hl hd1 (Nat.le_refl _))
            obtain ⟨N2, r2, hne2, c2⟩ := A2.descend v0 segs path
            dsimp only at c2
            rcases r2 with e | ⟨v, st3⟩
            · refine conv_intro (N1+N2) (.error e) (fun m hm => ?_) (err_ne hne2)
              rw [tokResolve_ref, c1 m (by omega)]
              simp only [hd, if_false, hs, hsp, hg, c2 m (by omega)]
            · have hdm := (descend_depth_mono (c2 N2 (Nat.le_refl _))).1
              have A3 := IH st3 (deeper hl hd1 hdm)
              obtain ⟨N3, r3, hne3, c3⟩ := A3.finalLoop v
              dsimp only at c3
              refine conv_intro (N1+N2+N3) r3 (fun m hm => ?_) hne3
              rw [tokResolve_ref, c1 m (by omega)]
              simp only [hd, if_false, hs, hsp, hg, c2 m (by omega)]
              exact c3 m (by omega)

theorem strLoop_nonstr {v : Value} (hv : v.isStr = false) (root : Mapping) (st : RState) :
    ∀ m, 1 ≤ m → strLoop m root v st = .ok (v, st) := by
  intro m hm
  obtain ⟨k, rfl⟩ : ∃ k, m = k + 1 := ⟨m - 1, by omega⟩
  rw [strLoop_succ]; simp [hv]

theorem finalLoop_done {v : Value} (h1 : v.isStr = false) (h2 : v.isVl = false) (root : Mapping)
    (st : RState) : ∀ m, 1 ≤ m → finalLoop m root v st = .ok (v, st) := by
  intro m hm
  obtain ⟨k, rfl⟩ : ∃ k, m = k + 1 := ⟨m - 1, by omega⟩
  rw [finalLoop_succ]; simp [h1, h2]

theorem sliceFinish_lit (s : Str) (root : Mapping) (st : RState) :
    ∀ m, 1 ≤ m → sliceFinish m root (.lit s) st = .ok s := by
  intro m hm
  obtain ⟨k, rfl⟩ : ∃ k, m = k + 1 := ⟨m - 1, by omega⟩
  rw [sliceFinish_succ]; simp [Value.isMap, Value.isSeq, rawString]

/-- The rest of one `interpolate_token_slice` iteration after the piece has been resolved to
a literal: no further evaluator call is made. -/
theorem conv_slice_tail_lit {root : Mapping} {st : RState} (t : Token) (ts : List Token)
    (ht : Conv (fun n => tokResolve n root t st))
    (hlit : ∀ n v st', tokResolve n root t st = .ok (v, st') → (∃ s, v = .lit s) ∧ st' = st)
    (hrest : Conv (fun n => slice n root ts st)) :
    Conv (fun n => slice n root (t :: ts) st) := by
  obtain ⟨N1, r1, hne1, c1⟩ := ht
  dsimp only at c1
  rcases r1 with e | ⟨v, st'⟩
  · refine conv_intro N1 (.error e) (fun m hm => ?_) (err_ne hne1)
    rw [slice_cons, c1 m hm]
  · obtain ⟨⟨s, rfl⟩, rfl⟩ := hlit N1 v st' (c1 N1 (Nat.le_refl _))
    obtain ⟨N2, r2, hne2, c2⟩ := hrest
    dsimp only at c2
    rcases r2 with e | s'
    · refine conv_intro (N1+N2+1) (.error e) (fun m hm => ?_) hne2
      rw [slice_cons, c1 m (by omega)]
      simp only [strLoop_nonstr (v := .lit s) rfl root st' m (by omega),
        sliceFinish_lit s root st' m (by omega), c2 m (by omega)]
    · refine conv_intro (N1+N2+1) (.ok (s ++ s')) (fun m hm => ?_) (by simp)
      rw [slice_cons, c1 m (by omega)]
      simp only [strLoop_nonstr (v := .lit s) rfl root st' m (by omega),
        sliceFinish_lit s root st' m (by omega), c2 m (by omega)]

/-- One `interpolate_token_slice` iteration whose piece is a reference: the loops after the
resolution run in the (strictly deeper) state the resolution returned. -/
theorem conv_slice_cons_ref {root : Mapping} {d : Nat}
    (IH : ∀ st', maxDepth + 1 - st'.depth < d → AllConv root st')
    (parts : List Token) (ts : List Token) (st : RState) (hl : Lvl d st)
    (hrest : Conv (fun n => slice n root ts st)) :
    Conv (fun n => slice n root (.ref parts :: ts) st) := by
  obtain ⟨N1, r1, hne1, c1⟩ := conv_tokResolve_ref IH parts st hl
  dsimp only at c1
  rcases r1 with e | ⟨v, st'⟩
  · refine conv_intro N1 (.error e) (fun m hm => ?_) (err_ne hne1)
    rw [slice_cons, c1 m hm]
  · obtain ⟨hd1, hd2⟩ := tokResolve_ref_depth_lt (c1 N1 (Nat.le_refl _))
    have A1 := IH st' (deeper hl hd2 hd1)
    obtain ⟨N2, r2, hne2, c2⟩ := A1.strLoop v
    dsimp only at c2
    rcases r2 with e | ⟨v', st''⟩
    · refine conv_intro (N1+N2) (.error e) (fun m hm => ?_) (err_ne hne2)
      rw [slice_cons, c1 m (by omega)]; simp only [c2 m (by omega)]
    · have hd3 := (strLoop_depth_mono (c2 N2 (Nat.le_refl _))).1
      have A2 := IH st'' (deeper hl hd2 (Nat.le_trans hd1 hd3))
      obtain ⟨N3, r3, hne3, c3⟩ := A2.sliceFinish v'
      dsimp only at c3
      rcases r3 with e | s
      · refine conv_intro (N1+N2+N3) (.error e) (fun m hm => ?_) (err_ne hne3)
        rw [slice_cons, c1 m (by omega)]; simp only [c2 m (by omega), c3 m (by omega)]
      · obtain ⟨N4, r4, hne4, c4⟩ := hrest
        dsimp only at c4
        rcases r4 with e | s'
        · refine conv_intro (N1+N2+N3+N4) (.error e) (fun m hm => ?_) hne4
          rw [slice_cons, c1 m (by omega)]
          simp only [c2 m (by omega), c3 m (by omega), c4 m (by omega)]
        · refine conv_intro (N1+N2+N3+N4) (.ok (s ++ s')) (fun m hm => ?_) (by simp)
          rw [slice_cons, c1 m (by omega)]
          simp only [c2 m (by omega), c3 m (by omega), c4 m (by omega)]

theorem tokResolve_lit_shape {n : Nat} {root : Mapping} {s : Str} {st : RState} {v : Value}
    {st' : RState} (h : tokResolve n root (.lit s) st = .ok (v, st')) :
    (∃ s, v = .lit s) ∧ st' = st := by
  cases n with
  | zero => simp [tokResolve] at h
  | succ n =>
    simp only [tokResolve_lit, Except.ok.injEq, Prod.mk.injEq] at h
    exact ⟨⟨s, h.1.symm⟩, h.2.symm⟩

theorem tokResolve_combined_shape {n : Nat} {root : Mapping} {ts : List Token} {st : RState}
    {v : Value} {st' : RState} (h : tokResolve n root (.combined ts) st = .ok (v, st')) :
    (∃ s, v = .lit s) ∧ st' = st := by
  cases n with
  | zero => simp [tokResolve] at h
  | succ n =>
    rw [tokResolve_combined] at h
    cases hc : slice n root ts st with
    | error e => simp [hc] at h
    | ok s =>
      simp only [hc, Except.ok.injEq, Prod.mk.injEq] at h
      exact ⟨⟨s, h.1.symm⟩, h.2.symm⟩

theorem conv_slice {root : Mapping} {d : Nat}
    (IH : ∀ st', maxDepth + 1 - st'.depth < d → AllConv root st')
    (st : RState) (hl : Lvl d st) : ∀ (ts : List Token),
    (∀ t, t ∈ ts → Conv (fun n => tokResolve n root t st)) →
    Conv (fun n => slice n root ts st) := by
  intro ts
  induction ts with
  | nil => intro _; exact conv_intro 0 (.ok []) (fun m _ => rfl) (by simp)
  | cons t ts ih =>
    intro ht
    have hrest := ih (fun t' h' => ht t' (List.mem_cons_of_mem _ h'))
    cases t with
    | ref parts => exact conv_slice_cons_ref IH parts ts st hl hrest
    | lit s =>
      exact conv_slice_tail_lit _ ts (ht _ (by simp)) (fun n v st' h => tokResolve_lit_shape h) hrest
    | combined ts' =>
      exact conv_slice_tail_lit _ ts (ht _ (by simp)) (fun n v st' h => tokResolve_combined_shape h) hrest

theorem conv_tokResolve {root : Mapping} {d : Nat}
    (IH : ∀ st', maxDepth + 1 - st'.depth < d → AllConv root st') :
    ∀ (k : Nat) (t : Token), sizeOf t ≤ k → ∀ st, Lvl d st →
      Conv (fun n => tokResolve n root t st) := by
  intro k
  induction k with
  | zero => intro t ht; cases t <;> simp at ht <;> omega
  | succ k ih =>
    intro t ht st hl
    cases t with
    | lit s => exact conv_intro 0 (.ok (.lit s, st)) (fun m _ => rfl) (by simp)
    | ref parts => exact conv_tokResolve_ref IH parts st hl
    | combined ts =>
      simp only [Token.combined.sizeOf_spec] at ht
      obtain ⟨N1, r1, hne1, c1⟩ := conv_slice IH st hl ts
        (fun t' h' => ih t' (by have := List.sizeOf_lt_of_mem h'; omega) st hl)
      dsimp only at c1
      rcases r1 with e | s
      · refine conv_intro N1 (.error e) (fun m hm => ?_) (err_ne hne1)
        rw [tokResolve_combined, c1 m hm]
      · refine conv_intro N1 (.ok (.lit s, st)) (fun m hm => ?_) (by simp)
        rw [tokResolve_combined, c1 m hm]

theorem conv_tokRender {root : Mapping} {d : Nat}
    (IH : ∀ st', maxDepth + 1 - st'.depth < d → AllConv root st')
    (t : Token) (st : RState) (hl : Lvl d st) : Conv (fun n => tokRender n root t st) := by
  obtain ⟨N1, r1, hne1, c1⟩ := conv_tokResolve IH _ t (Nat.le_refl _) st hl
  dsimp only at c1
  rcases r1 with e | ⟨v, st'⟩
  · refine conv_intro N1 (.error e) (fun m hm => ?_) (err_ne hne1)
    rw [tokRender_succ, c1 m hm]
  · cases t with
    | ref parts =>
      obtain ⟨hd1, hd2⟩ := tokResolve_ref_depth_lt (c1 N1 (Nat.le_refl _))
      obtain ⟨N2, r2, hne2, c2⟩ := (IH st' (deeper hl hd2 hd1)).interp v
      dsimp only at c2
      refine conv_intro (N1+N2) r2 (fun m hm => ?_) hne2
      rw [tokRender_succ, c1 m (by omega)]
      exact c2 m (by omega)
    | lit s =>
      cases hr : rawString v with
      | error e =>
        refine conv_intro N1 (.error e) (fun m hm => ?_) (err_ne_of (rawString_noFuel _) hr)
        rw [tokRender_succ, c1 m hm]; simp only [hr]
      | ok s' =>
        refine conv_intro N1 (.ok (.lit s', st')) (fun m hm => ?_) (by simp)
        rw [tokRender_succ, c1 m hm]; simp only [hr]
    | combined ts =>
      cases hr : rawString v with
      | error e =>
        refine conv_intro N1 (.error e) (fun m hm => ?_) (err_ne_of (rawString_noFuel _) hr)
        rw [tokRender_succ, c1 m hm]; simp only [hr]
      | ok s' =>
        refine conv_intro N1 (.ok (.lit s', st')) (fun m hm => ?_) (by simp)
        rw [tokRender_succ, c1 m hm]; simp only [hr]

/-- Values at level `d`, by induction on the size bound. -/
theorem conv_interp {root : Mapping} {d : Nat} (hp : ParserTotal)
    (IH : ∀ st', maxDepth + 1 - st'.depth < d → AllConv root st') :
    ∀ (b : Nat) (v : Value), sz v ≤ b → ∀ st, Lvl d st → Conv (fun n => interp n root v st) := by
  intro b
  induction b with
  | zero => intro v hb; have := sz_pos v; omega
  | succ b ih =>
    intro v hb st hl
    cases v with
    | null => exact conv_intro 0 (.ok (.null, st)) (fun m _ => rfl) (by simp)
    | bool x => exact conv_intro 0 (.ok (.bool x, st)) (fun m _ => rfl) (by simp)
    | num x => exact conv_intro 0 (.ok (.num x, st)) (fun m _ => rfl) (by simp)
    | lit x => exact conv_intro 0 (.ok (.lit x, st)) (fun m _ => rfl) (by simp)
    | str s =>
      cases hps : Token.parse s with
      | error e =>
        refine conv_intro 0 (.error e) (fun m _ => ?_) (err_ne_of (hp s) hps)
        rw [interp_str, hps]
      | ok o =>
        cases o with
        | none =>
          refine conv_intro 0 (.ok (.lit s, st)) (fun m _ => ?_) (by simp)
          rw [interp_str, hps]
        | some t =>
          obtain ⟨N1, r1, hne1, c1⟩ := conv_tokRender IH t st hl
          dsimp only at c1
          refine conv_intro N1 r1 (fun m hm => ?_) hne1
          rw [interp_str, hps]; exact c1 m hm
    | map es ck ok =>
      simp only [sz] at hb
      obtain ⟨N1, r1, hne1, c1⟩ := convEs (root := root) (ck := ck) (ok := ok) (st := st) es
        (fun k w hw st' hst' => ih w (by have := mem_szEs hw; omega) st'
          (hl.mono (Nat.le_of_eq hst'.symm))) {}
      dsimp only at c1
      rcases r1 with e | m
      · refine conv_intro N1 (.error e) (fun m hm => ?_) (err_ne hne1)
        rw [interp_map, c1 m hm]
      · refine conv_intro N1 (.ok (m.toValue, st)) (fun m hm => ?_) (by simp)
        rw [interp_map, c1 m hm]
    | seq l =>
      simp only [sz] at hb
      obtain ⟨N1, r1, hne1, c1⟩ := convL (root := root) (st := st) l
        (fun w hw st' hst' => ih w (by have := mem_szL hw; omega) st'
          (hl.mono (Nat.le_of_eq hst'.symm))) 0
      dsimp only at c1
      rcases r1 with e | l'
      · refine conv_intro N1 (.error e) (fun m hm => ?_) (err_ne hne1)
        rw [interp_seq, c1 m hm]
      · refine conv_intro N1 (.ok (.seq l', st)) (fun m hm => ?_) (by simp)
        rw [interp_seq, c1 m hm]
    | vl l =>
      simp only [sz] at hb
      have hlen := szVl_eq l
      obtain ⟨N1, r1, hne1, c1⟩ := convVl (root := root) (st := st) l
        (fun w hw => ih w (by have := mem_szL hw; omega) st hl) .null
      dsimp only at c1
      rcases r1 with e | r
      · refine conv_intro N1 (.error e) (fun m hm => ?_) (err_ne hne1)
        rw [interp_vl, c1 m hm]
      · have h1 := (outAt N1).interpVl _ _ _ _ _ (c1 N1 (Nat.le_refl _)) (by simp [StrFree])
        obtain ⟨N2, r2, hne2, c2⟩ := conv_strFree root (sz r) r (Nat.le_refl _) h1 st
        dsimp only at c2
        refine conv_intro (N1+N2) r2 (fun m hm => ?_) hne2
        rw [interp_vl, c1 m (by omega)]
        exact c2 m (by omega)

section Level
variable {root : Mapping} {d : Nat}

theorem conv_strLoop (hv : ∀ v st, Lvl d st → Conv (fun n => interp n root v st))
    (v : Value) (st : RState) (hl : Lvl d st) : Conv (fun n => strLoop n root v st) := by
  by_cases hs : v.isStr = true
  · obtain ⟨N1, r1, hne1, c1⟩ := hv v st hl
    dsimp only at c1
    rcases r1 with e | ⟨v', st'⟩
    · refine conv_intro N1 (.error e) (fun m hm => ?_) (err_ne hne1)
      rw [strLoop_succ, c1 m hm]; simp only [hs, if_true]
    · have h1 := strFree_isStr ((outAt N1).interp _ _ _ _ _ (c1 N1 (Nat.le_refl _))).1
      refine conv_intro (N1+1) (.ok (v', st')) (fun m hm => ?_) (by simp)
      rw [strLoop_succ, c1 m (by omega)]; simp only [hs, if_true]
      exact strLoop_nonstr h1 root st' m (by omega)
  · have hs' : v.isStr = false := by simpa using hs
    exact conv_intro 0 (.ok (v, st)) (fun m _ => strLoop_nonstr hs' root st (m+1) (by omega)) (by simp)

theorem conv_finalLoop (hv : ∀ v st, Lvl d st → Conv (fun n => interp n root v st))
    (v : Value) (st : RState) (hl : Lvl d st) : Conv (fun n => finalLoop n root v st) := by
  by_cases hs : (v.isStr || v.isVl) = true
  · obtain ⟨N1, r1, hne1, c1⟩ := hv v st hl
    dsimp only at c1
    rcases r1 with e | ⟨v', st'⟩
    · refine conv_intro N1 (.error e) (fun m hm => ?_) (err_ne hne1)
      rw [finalLoop_succ, c1 m hm]; simp only [hs, if_true]
    · have h0 := (outAt N1).interp _ _ _ _ _ (c1 N1 (Nat.le_refl _))
      refine conv_intro (N1+1) (.ok (v', st')) (fun m hm => ?_) (by simp)
      rw [finalLoop_succ, c1 m (by omega)]; simp only [hs, if_true]
      exact finalLoop_done (strFree_isStr h0.1) h0.2 root st' m (by omega)
  · have hs' : (v.isStr || v.isVl) = false := by simpa using hs
    simp only [Bool.or_eq_false_iff] at hs'
    exact conv_intro 0 (.ok (v, st))
      (fun m _ => finalLoop_done hs'.1 hs'.2 root st (m+1) (by omega)) (by simp)

theorem conv_sliceFinish (hv : ∀ v st, Lvl d st → Conv (fun n => interp n root v st))
    (v : Value) (st : RState) (hl : Lvl d st) : Conv (fun n => sliceFinish n root v st) := by
  by_cases hs : (v.isMap || v.isSeq) = true
  · obtain ⟨N1, r1, hne1, c1⟩ := hv v st hl
    dsimp only at c1
    rcases r1 with e | ⟨v', st'⟩
    · refine conv_intro N1 (.error e) (fun m hm => ?_) (err_ne hne1)
      rw [sliceFinish_succ, c1 m hm]; simp only [hs, if_true]
    · cases hfl : flat v' st' with
      | error e =>
        refine conv_intro N1 (.error e) (fun m hm => ?_) (err_ne_of (flat_noFuel _ _) hfl)
        rw [sliceFinish_succ, c1 m hm]; simp only [hs, if_true, hfl]
      | ok v'' =>
        refine conv_intro N1 (rawString v'') (fun m hm => ?_) (rawString_noFuel _)
        rw [sliceFinish_succ, c1 m hm]; simp only [hs, if_true, hfl]
  · have hs' : (v.isMap || v.isSeq) = false := by simpa using hs
    refine conv_intro 0 (rawString v) (fun m _ => ?_) (rawString_noFuel _)
    rw [sliceFinish_succ]; simp only [hs', Bool.false_eq_true, if_false]

theorem conv_interpStrOrVl (hv : ∀ v st, Lvl d st → Conv (fun n => interp n root v st))
    (v : Value) (st : RState) (hl : Lvl d st) : Conv (fun n => interpStrOrVl n root v st) := by
  cases v with
  | str s =>
    obtain ⟨N1, r1, hne1, c1⟩ := hv (.str s) st hl
    dsimp only at c1
    refine conv_intro N1 r1 (fun m hm => ?_) hne1
    rw [interpStrOrVl_succ]; exact c1 m hm
  | vl l =>
    obtain ⟨N1, r1, hne1, c1⟩ := convLayers (root := root) (st := st) l (fun w _ => hv w st hl)
    dsimp only at c1
    rcases r1 with e | i
    · refine conv_intro N1 (.error e) (fun m hm => ?_) (err_ne hne1)
      rw [interpStrOrVl_succ]; simp only [c1 m hm]
    · cases hfl : flatVl i .null st with
      | error e =>
        refine conv_intro N1 (.error e) (fun m hm => ?_) (err_ne_of (flatVl_noFuel _ _ _) hfl)
        rw [interpStrOrVl_succ]; simp only [c1 m hm, hfl]
      | ok r =>
        refine conv_intro N1 (.ok (r, st)) (fun m hm => ?_) (by simp)
        rw [interpStrOrVl_succ]; simp only [c1 m hm, hfl]
  | null => exact conv_intro 0 (.ok (.null, st)) (fun m _ => rfl) (by simp)
  | bool x => exact conv_intro 0 (.ok (.bool x, st)) (fun m _ => rfl) (by simp)
  | num x => exact conv_intro 0 (.ok (.num x, st)) (fun m _ => rfl) (by simp)
  | lit x => exact conv_intro 0 (.ok (.lit x, st)) (fun m _ => rfl) (by simp)
  | map es ck ok => exact conv_intro 0 (.ok (.map es ck ok, st)) (fun m _ => rfl) (by simp)
  | seq l => exact conv_intro 0 (.ok (.seq l, st)) (fun m _ => rfl) (by simp)

theorem conv_descend (hv : ∀ v st, Lvl d st → Conv (fun n => interp n root v st)) (p : Str) :
    ∀ (ks : List Str) (v : Value) (st : RState), Lvl d st →
      Conv (fun n => descend n root v ks st p) := by
  intro ks
  induction ks with
  | nil => intro v st _; exact conv_intro 0 (.ok (v, st)) (fun m _ => rfl) (by simp)
  | cons key rest ih =>
    intro v st hl
    obtain ⟨N1, r1, hne1, c1⟩ := conv_interpStrOrVl hv v st hl
    dsimp only at c1
    rcases r1 with e | ⟨newv, st'⟩
    · refine conv_intro N1 (.error e) (fun m hm => ?_) (err_ne hne1)
      rw [descend_cons, c1 m hm]
    · have hl' : Lvl d st' := hl.mono (interpStrOrVl_depth_mono (c1 N1 (Nat.le_refl _))).1
      cases newv with
      | map es ck ok =>
        cases hlk : lookup (.str key) es with
        | none =>
          refine conv_intro N1 (.error (.missingKey p key st'.curKey)) (fun m hm => ?_) (by simp)
          rw [descend_cons, c1 m hm]; simp only [hlk]
        | some v' =>
          obtain ⟨N2, r2, hne2, c2⟩ := ih v' st' hl'
          dsimp only at c2
          refine conv_intro (N1+N2) r2 (fun m hm => ?_) hne2
          rw [descend_cons, c1 m (by omega)]; simp only [hlk]
          exact c2 m (by omega)
      | str s =>
        refine conv_intro N1 (.error (.panic .resolveNewvStrVl)) (fun m hm => ?_) (by simp)
        rw [descend_cons, c1 m hm]
      | vl l =>
        refine conv_intro N1 (.error (.panic .resolveNewvStrVl)) (fun m hm => ?_) (by simp)
        rw [descend_cons, c1 m hm]
      | null =>
        refine conv_intro N1 (.error (.lookupInto p key st'.curKey)) (fun m hm => ?_) (by simp)
        rw [descend_cons, c1 m hm]
      | bool x =>
        refine conv_intro N1 (.error (.lookupInto p key st'.curKey)) (fun m hm => ?_) (by simp)
        rw [descend_cons, c1 m hm]
      | num x =>
        refine conv_intro N1 (.error (.lookupInto p key st'.curKey)) (fun m hm => ?_) (by simp)
        rw [descend_cons, c1 m hm]
      | lit x =>
        refine conv_intro N1 (.error (.lookupInto p key st'.curKey)) (fun m hm => ?_) (by simp)
        rw [descend_cons, c1 m hm]
      | seq x =>
        refine conv_intro N1 (.error (.lookupInto p key st'.curKey)) (fun m hm => ?_) (by simp)
        rw [descend_cons, c1 m hm]

/-- One level of the outer induction. -/
theorem allConv_level (hp : ParserTotal)
    (IH : ∀ st', maxDepth + 1 - st'.depth < d → AllConv root st')
    (st : RState) (hl : Lvl d st) : AllConv root st := by
  have hv : ∀ v st, Lvl d st → Conv (fun n => interp n root v st) :=
    fun v st hl => conv_interp hp IH _ v (Nat.le_refl _) st hl
  have hsame : ∀ {st' : RState}, st'.depth = st.depth → Lvl d st' :=
    fun h => hl.mono (Nat.le_of_eq h.symm)
  exact {
    interp := fun v => hv v st hl
    interpL := fun l idx => convL l (fun w _ st' h => hv w st' (hsame h)) idx
    interpEs := fun es ck ok acc => convEs es (fun _ w _ st' h => hv w st' (hsame h)) acc
    interpVl := fun l r => convVl l (fun w _ => hv w st hl) r
    tokRender := fun t => conv_tokRender IH t st hl
    tokResolve := fun t => conv_tokResolve IH _ t (Nat.le_refl _) st hl
    descend := fun v ks p => conv_descend hv p ks v st hl
    finalLoop := fun v => conv_finalLoop hv v st hl
    interpStrOrVl := fun v => conv_interpStrOrVl hv v st hl
    layersStr := fun l => convLayers l (fun w _ => hv w st hl)
    slice := fun ts => conv_slice IH st hl ts
      (fun t _ => conv_tokResolve IH _ t (Nat.le_refl _) st hl)
    strLoop := fun v => conv_strLoop hv v st hl
    sliceFinish := fun v => conv_sliceFinish hv v st hl }

end Level

/-- Every evaluator function settles on a non-fuel outcome, from every state. -/
theorem allConv (hp : ParserTotal) (root : Mapping) : ∀ (d : Nat) (st : RState), Lvl d st → AllConv root st := by
  intro d
  induction d using Nat.strongRecOn with
  | _ d ih =>
    intro st hl
    exact allConv_level hp (fun st' h' => ih _ h' st' (Nat.le_refl _)) st hl

/-- **Termination**: for every root, value and state some amount of fuel suffices. -/
theorem interp_terminates (root : Mapping) (v : Value) (st : RState) :
    ∃ n, interp n root v st ≠ .error .fuel :=
  ((allConv parserTotal root _ st (Nat.le_refl _)).interp v).exists_ne

end Termination

end Reclass
