/-
  Reclass.Lemmas.E2EL — composition lemmas for the END-TO-END statements about
  `renderNode` / `renderNodeSrc` (`Reclass::render_node`): C07b (rendered parameters of a node
  are plain data), C11b (rendering a node never panics), C19b (rendered parameters of a node
  always convert to Python objects).

  1. `SrcOK` / `InvOK`: every class / node file decodes from YAML whose keys carry at most one
     leading `=`/`~` marker.
  2. `WFN` (well-formed and free of nested layer lists, `Lemmas/ClosedL`) is established by
     `NodeM.ofSrc`, kept by `mergeInto`, holds for the `_reclass_` mapping.
  3. `walkGood`: one induction on the walk's fuel gives, for `renderImpl` and `walkClasses`
     together: a successful run keeps `WFN` of the accumulator, a failing run fails with an error
     that is not a panic.
  4. `renderNodeSrc` / `renderNode`: the merged parameters handed to the final rendering are
     `WFN`; no error of any stage is a panic.
  5. Fuel: `renderNode` depends on its fuel argument only through the class walk.
-/
import Reclass.Lemmas.TextL
import Reclass.Lemmas.WalkL
import Reclass.Lemmas.NamingL
namespace Reclass

/-! ## 1. Inventories decoded from YAML with at most one marker per key -/

/-- The `parameters` of a class / node file, as a YAML mapping, carry at most one leading
`=`/`~` marker on every string key (at every depth). -/
def SrcOK (src : ClassSrc) : Prop := SingleMarker (.map src.params)

/-- Every readable class file and every readable node file of the inventory is `SrcOK`. -/
def InvOK (r : Inv) : Prop :=
  (∀ x ∈ r.classes, ∀ src, x.2.2 = .ok src → SrcOK src) ∧
  (∀ x ∈ r.nodes, ∀ src, x.2.2 = .ok src → SrcOK src)

/-- The parameters of a node are well-formed and free of nested layer lists. -/
abbrev NodeM.OK (n : NodeM) : Prop := WFN n.params.toValue

theorem wfn_empty : WFN (({} : Mapping)).toValue := by
  simp [WFN, Mapping.toValue, WF, WFEs, NoNest, NoNestEs]

theorem nodeOK_empty : ({} : NodeM).OK := wfn_empty

/-! ## 2. `WFN` through decoding and merging -/

/-- Item 1: a decoded class / node file has well-formed, nesting-free parameters. -/
theorem ofSrc_wfn {loc : Option (List Str)} {src : ClassSrc} {n : NodeM} (hs : SrcOK src)
    (h : NodeM.ofSrc loc src = .ok n) : WFN n.params.toValue := by
  unfold NodeM.ofSrc at h
  simp only at h
  cases h1 : Mapping.ofYamlEntries src.params with
  | error e => simp [h1] at h
  | ok p =>
    simp only [h1, Except.ok.injEq] at h
    subst h
    unfold Mapping.ofYamlEntries at h1
    refine ⟨ofYamlEs_wf _ {} p (by simpa [SrcOK, SingleMarker] using hs) wfn_empty.1 h1, ?_⟩
    simp only [Mapping.toValue, NoNest]
    exact ofYamlEs_noNest _ {} p (by simp [NoNestEs]) h1

/-- `Mapping::merge` of mappings without nested layer lists has none (`combine` splices). -/
theorem merge_noNest {a b c : Mapping} (ha : NoNest a.toValue) (hb : NoNest b.toValue)
    (h : Mapping.merge a b = .ok c) : NoNest c.toValue := by
  simp only [Mapping.toValue, NoNest] at ha hb ⊢
  exact noNestPred.mergeEntries_pres ha hb h

theorem merge_wfn {a b c : Mapping} (ha : WFN a.toValue) (hb : WFN b.toValue)
    (h : Mapping.merge a b = .ok c) : WFN c.toValue :=
  ⟨merge_wf ha.1 hb.1 h, merge_noNest ha.2 hb.2 h⟩

/-- Item 2: `Node::merge_into` keeps `WFN`. -/
theorem mergeInto_wfn {self other root' : NodeM} (hs : self.OK) (ho : other.OK)
    (h : mergeInto self other = .ok root') : root'.OK :=
  merge_wfn ho hs (mergeInto_ok h).1

theorem readClass_wfn {r : Inv} (hr : InvOK r) {loc : Option (List Str)} {c : Str} {cn : NodeM}
    (h : readClass r loc c = .ok (some cn)) : cn.OK := by
  obtain ⟨info, src, hf, ho⟩ := readClass_some h
  exact ofSrc_wfn (hr.1 _ (findEntity_some_mem hf) src rfl) ho

/-- Merging a list of `WFN` nodes in order keeps `WFN`. -/
theorem mergeSeq_wfn : ∀ (ns : List NodeM) {root root' : NodeM}, root.OK → (∀ n ∈ ns, n.OK) →
    mergeSeq root ns = .ok root' → root'.OK
  | [], root, root', hr, _, h => by simp only [mergeSeq, Except.ok.injEq] at h; exact h ▸ hr
  | c :: cs, root, root', hr, hns, h => by
    simp only [mergeSeq] at h
    cases h1 : mergeInto c root with
    | error e => simp [h1] at h
    | ok r1 =>
      simp only [h1] at h
      exact mergeSeq_wfn cs (mergeInto_wfn (hns c (List.mem_cons_self ..)) hr h1)
        (fun n hn => hns n (List.mem_cons_of_mem _ hn)) h

/-! ## 3. No stage fails with a panic -/

theorem notPanic_of_ne {e : Err} (h : ∀ s, e ≠ .panic s) : NotPanic e := h

theorem keyOfYaml_np {y : Yaml} {e : Err} (h : Key.ofYaml y = .error e) : NotPanic e := by
  cases y <;> simp [Key.ofYaml] at h <;> subst h <;> intro s <;> simp

mutual
theorem ofYaml_np : ∀ (y : Yaml) (e : Err), Value.ofYaml y = .error e → NotPanic e
  | .null, e, h => by simp [Value.ofYaml] at h
  | .bool _, e, h => by simp [Value.ofYaml] at h
  | .num _, e, h => by simp [Value.ofYaml] at h
  | .str _, e, h => by simp [Value.ofYaml] at h
  | .tagged _ _, e, h => by
    simp only [Value.ofYaml, Except.error.injEq] at h; subst h; intro s; simp
  | .seq l, e, h => by
    simp only [Value.ofYaml] at h
    cases h1 : ofYamlL l with
    | error e' => simp only [h1, Except.error.injEq] at h; subst h; exact ofYamlL_np l _ h1
    | ok x => simp [h1] at h
  | .map es, e, h => by
    simp only [Value.ofYaml] at h
    cases h1 : ofYamlEs es {} with
    | error e' => simp only [h1, Except.error.injEq] at h; subst h; exact ofYamlEs_np es {} _ h1
    | ok x => simp [h1] at h
theorem ofYamlL_np : ∀ (l : List Yaml) (e : Err), ofYamlL l = .error e → NotPanic e
  | [], e, h => by simp [ofYamlL] at h
  | y :: ys, e, h => by
    simp only [ofYamlL] at h
    cases h1 : Value.ofYaml y with
    | error e' => simp only [h1, Except.error.injEq] at h; subst h; exact ofYaml_np y _ h1
    | ok v =>
      simp only [h1] at h
      cases h2 : ofYamlL ys with
      | error e' => simp only [h2, Except.error.injEq] at h; subst h; exact ofYamlL_np ys _ h2
      | ok vs => simp [h2] at h
theorem ofYamlEs_np : ∀ (es : List (Yaml × Yaml)) (m : Mapping) (e : Err),
    ofYamlEs es m = .error e → NotPanic e
  | [], m, e, h => by simp [ofYamlEs] at h
  | (k, v) :: rest, m, e, h => by
    simp only [ofYamlEs] at h
    cases hk : Key.ofYaml k with
    | error e' => simp only [hk, Except.error.injEq] at h; subst h; exact keyOfYaml_np hk
    | ok k' =>
      simp only [hk] at h
      cases h1 : Value.ofYaml v with
      | error e' => simp only [h1, Except.error.injEq] at h; subst h; exact ofYaml_np v _ h1
      | ok v' =>
        simp only [h1] at h
        cases hi : m.insert k' v' with
        | error e' =>
          simp only [hi, Except.error.injEq] at h; subst h
          exact insertImpl_np (m := m) (k := k') (v := v') (fc := false) (fo := false) hi
        | ok m' => simp only [hi] at h; exact ofYamlEs_np rest m' e h
end

/-- The fallible decoder of a class / node file never panics. -/
theorem ofSrc_np {loc : Option (List Str)} {src : ClassSrc} {e : Err}
    (h : NodeM.ofSrc loc src = .error e) : NotPanic e := by
  unfold NodeM.ofSrc at h
  simp only at h
  cases h1 : Mapping.ofYamlEntries src.params with
  | error e' =>
    simp only [h1, Except.error.injEq] at h; subst h
    exact ofYamlEs_np _ _ _ h1
  | ok p => simp [h1] at h

theorem readClass_np {r : Inv} {loc : Option (List Str)} {c : Str} {e : Err}
    (h : readClass r loc c = .error e) : NotPanic e := by
  unfold readClass at h
  simp only [] at h
  split at h
  · split at h
    · simp at h
    · simp only [Except.error.injEq] at h; subst h; intro s; simp
  · simp only [Except.error.injEq] at h; subst h; intro s; simp
  · rename_i info src _
    cases h2 : NodeM.ofSrc (some info.loc) src with
    | error e' => simp only [h2, Except.error.injEq] at h; subst h; exact ofSrc_np h2
    | ok n => simp [h2] at h

theorem mergeInto_np {self other : NodeM} {e : Err} (h : mergeInto self other = .error e) :
    NotPanic e := by
  unfold mergeInto at h
  cases h1 : other.params.merge self.params with
  | error e' =>
    simp only [h1, Except.error.injEq] at h; subst h
    exact mergeEntries_np (m := other.params) h1
  | ok p => simp [h1] at h

/-- Class-name resolution (`Token::render` on the accumulated parameters, then `raw_string`)
does not panic when the accumulated parameters are `WFN`. -/
theorem resolveClassName_np {fuel : Nat} {params : Mapping} {cls : Str} {e : Err}
    (hp : WFN params.toValue) (h : resolveClassName fuel params cls = .error e) : NotPanic e := by
  unfold resolveClassName at h
  split at h
  · cases h1 : Token.parse cls with
    | error e' => simp only [h1, Except.error.injEq] at h; subst h; exact parse_np h1
    | ok o =>
      cases o with
      | none => simp [h1] at h
      | some t =>
        simp only [h1] at h
        cases h2 : tokRender fuel params t {} with
        | error e' =>
          simp only [h2, Except.error.injEq] at h; subst h
          exact (noPanicInv fuel).tokRender _ _ _ _ hp h2
        | ok x =>
          obtain ⟨v, st⟩ := x
          simp only [h2] at h
          obtain ⟨t', ht'⟩ := rawString_closed v ((interpInv fuel).tokRender _ _ _ _ _ hp.1 h2).1
          simp [ht'] at h
  · simp at h

/-! ## 4. The class walk: `WFN` is kept, no error is a panic -/

/-- A walk outcome is good: an accumulator with `WFN` parameters, or an error other than a panic. -/
def GoodRes : R (List Str × NodeM) → Prop
  | .error e => NotPanic e
  | .ok (_, root') => root'.OK

theorem goodRes_fuel : GoodRes (.error .fuel) := by intro s; simp

/-- Item 3 (and the walk's part of item 6): for an `InvOK` inventory, `render_impl` and its
class loop, started with `WFN` parameters, end with `WFN` parameters or with a non-panic error. -/
theorem walkGood {r : Inv} (hr : InvOK r) : ∀ n : Nat,
    (∀ self seen root, self.OK → root.OK → GoodRes (renderImpl n r self seen root)) ∧
    (∀ loc l seen root, root.OK → GoodRes (walkClasses n r loc l seen root)) := by
  intro n
  induction n with
  | zero =>
    refine ⟨fun _ _ _ _ _ => ?_, fun _ _ _ _ _ => ?_⟩
    · rw [renderImpl_zero]; exact goodRes_fuel
    · rw [walkClasses_zero]; exact goodRes_fuel
  | succ n ih =>
    obtain ⟨ihR, ihW⟩ := ih
    refine ⟨?_, ?_⟩
    · intro self seen root hs hroot
      rw [renderImpl_succ]
      have hw := ihW self.loc self.classes.items seen root hroot
      cases h1 : walkClasses n r self.loc self.classes.items seen root with
      | error e => rw [h1] at hw; exact hw
      | ok x =>
        obtain ⟨s1, root1⟩ := x
        rw [h1] at hw
        simp only []
        cases h2 : mergeInto self root1 with
        | error e => exact mergeInto_np h2
        | ok root2 => exact mergeInto_wfn hs hw h2
    · intro loc l seen root hroot
      cases l with
      | nil => rw [walkClasses_nil]; exact hroot
      | cons cls rest =>
        rw [walkClasses_cons]
        cases h1 : resolveClassName defaultFuel root.params cls with
        | error e => exact resolveClassName_np hroot h1
        | ok c =>
          simp only []
          by_cases hs : c ∈ seen
          · simp only [hs, if_true]; exact ihW _ _ _ _ hroot
          · simp only [hs, if_false]
            cases h2 : readClass r loc c with
            | error e => exact readClass_np h2
            | ok o =>
              cases o with
              | none => exact ihW _ _ _ _ hroot
              | some cn =>
                simp only []
                have hR := ihR cn (seen ++ [c]) root (readClass_wfn hr h2) hroot
                cases h3 : renderImpl n r cn (seen ++ [c]) root with
                | error e => rw [h3] at hR; exact hR
                | ok x =>
                  obtain ⟨s1, root1⟩ := x
                  rw [h3] at hR
                  exact ihW _ _ _ _ hR

theorem renderImpl_wfn {r : Inv} (hr : InvOK r) {n : Nat} {self : NodeM} {seen : List Str}
    {root : NodeM} {seen' : List Str} {root' : NodeM} (hs : self.OK) (hroot : root.OK)
    (h : renderImpl n r self seen root = .ok (seen', root')) : root'.OK := by
  have := (walkGood hr n).1 self seen root hs hroot
  rw [h] at this; exact this

theorem walkClasses_wfn {r : Inv} (hr : InvOK r) {n : Nat} {loc : Option (List Str)}
    {l seen : List Str} {root : NodeM} {seen' : List Str} {root' : NodeM} (hroot : root.OK)
    (h : walkClasses n r loc l seen root = .ok (seen', root')) : root'.OK := by
  have := (walkGood hr n).2 loc l seen root hroot
  rw [h] at this; exact this

theorem renderImpl_np {r : Inv} (hr : InvOK r) {n : Nat} {self : NodeM} {seen : List Str}
    {root : NodeM} {e : Err} (hs : self.OK) (hroot : root.OK)
    (h : renderImpl n r self seen root = .error e) : NotPanic e := by
  have := (walkGood hr n).1 self seen root hs hroot
  rw [h] at this; exact this

theorem walkClasses_np {r : Inv} (hr : InvOK r) {n : Nat} {loc : Option (List Str)}
    {l seen : List Str} {root : NodeM} {e : Err} (hroot : root.OK)
    (h : walkClasses n r loc l seen root = .error e) : NotPanic e := by
  have := (walkGood hr n).2 loc l seen root hroot
  rw [h] at this; exact this

/-- The fuel-free version: along a `Walk` derivation every traced class and the final accumulator
are `WFN`. -/
theorem Walk.wfn {r : Inv} (hr : InvOK r) {loc : Option (List Str)} {l seen : List Str}
    {root : NodeM} {seen' : List Str} {root' : NodeM} {tr : List TraceEntry}
    (h : Walk r loc l seen root seen' root' tr) (hroot : root.OK) :
    root'.OK ∧ ∀ t ∈ tr, t.2.OK := by
  induction h with
  | nil => exact ⟨hroot, fun t ht => by simp at ht⟩
  | seen _ _ _ ih => exact ih hroot
  | ignored _ _ _ _ ih => exact ih hroot
  | load _ _ h2 _ hm _ ih1 ih2 =>
    have hcn := readClass_wfn hr h2
    obtain ⟨h1, t1⟩ := ih1 hroot
    obtain ⟨h3, t2⟩ := ih2 (mergeInto_wfn hcn h1 hm)
    refine ⟨h3, fun t ht => ?_⟩
    rcases List.mem_append.1 ht with h | h
    · exact t1 t h
    · rcases List.mem_cons.1 h with h | h
      · subst h; exact hcn
      · exact t2 t h

/-! ## 5. The `_reclass_` parameter -/

theorem wfL_map_str (l : List Str) : WFL (l.map Value.str) := by
  induction l with
  | nil => simp [WFL]
  | cons x xs ih => simp only [List.map_cons, WFL, WF]; exact ⟨trivial, ih⟩

theorem noNestL_map_str (l : List Str) : NoNestL (l.map Value.str) := by
  induction l with
  | nil => simp [NoNestL]
  | cons x xs ih => simp only [List.map_cons, NoNestL, NoNest]; exact ⟨trivial, ih⟩

/-- Item 4: the mapping built by `NodeInfoMeta::as_reclass` is `WFN` (two clean keys; values are
strings, one sequence of strings, one mapping of those). -/
theorem asReclass_wfn {m : MetaM} {cfg : NodeCfg} {rc : Mapping} (h : m.asReclass cfg = .ok rc) :
    WFN rc.toValue := by
  have hne : m.parts ≠ [] := by
    intro hp
    unfold MetaM.asReclass at h
    rw [hp] at h
    simp at h
  rw [asReclass_eq cfg hne, Except.ok.injEq] at h
  subst h
  constructor
  · simp only [Mapping.toValue, nameData, WF, WFEs, keys, List.map_cons, List.map_nil]
    refine ⟨⟨by decide, trivial, by decide, ⟨⟨by decide, trivial, by decide, wfL_map_str _,
      by decide, trivial, by decide, trivial, trivial⟩, by decide⟩, trivial⟩, by decide⟩
  · simp only [Mapping.toValue, nameData, NoNest, NoNestEs]
    exact ⟨trivial, ⟨trivial, noNestL_map_str _, trivial, trivial, trivial⟩, trivial⟩

theorem asReclass_np {m : MetaM} {cfg : NodeCfg} {e : Err} (h : m.asReclass cfg = .error e) :
    NotPanic e := by
  by_cases hne : m.parts = []
  · unfold MetaM.asReclass at h
    rw [hne] at h
    simp only [Except.error.injEq] at h; subst h; intro s; simp
  · rw [asReclass_eq cfg hne] at h; simp at h

theorem cleanKey_reclassKey : CleanKey (Key.str Extracted.reclassKey.toList).stripPrefix.1 := by
  decide

/-- The parameters of the base node (`{_reclass_: …}`) are `WFN`. -/
theorem baseParams_wfn {rc bp : Mapping} (hrc : WFN rc.toValue)
    (h : ({} : Mapping).insert (.str Extracted.reclassKey.toList) rc.toValue = .ok bp) :
    WFN bp.toValue := by
  refine ⟨insertImpl_wf wfn_empty.1 cleanKey_reclassKey hrc.1 h, ?_⟩
  simp only [Mapping.toValue, NoNest]
  have h0 : noNestPred.PEs ({} : Mapping).es := noNestPred.nilEs
  have h1 : noNestPred.P rc.toValue := hrc.2
  exact noNestPred.insertImpl_pres h0 h1 h

/-! ## 6. `renderNodeSrc` / `renderNode` -/

/-- `render_parameters` on `WFN` parameters fails only with non-panic errors (this is
`C11.model_total`, restated for `NotPanic`). -/
theorem renderParamsF_np {n : Nat} {m : Mapping} {e : Err} (hm : WFN m.toValue)
    (h : renderParamsF n m = .error e) : NotPanic e := by
  unfold renderParamsF renderedF at h
  cases h1 : interp n m m.toValue {} with
  | error e' =>
    simp only [h1, Except.error.injEq] at h; subst h
    exact (noPanicInv n).interp _ _ _ _ hm hm h1
  | ok p =>
    obtain ⟨v1, st1⟩ := p
    simp only [h1] at h
    obtain ⟨v2, h2, _⟩ := flat_after_interp_ok (st2 := st1) hm.1 hm.1 h1
    simp only [h2] at h
    cases v2 <;> simp at h <;> subst h <;> intro s <;> simp

/-- The stages of a successful `renderNodeSrc`, with `WFN` of the merged parameters that are
handed to the final `render_parameters`. -/
theorem renderNodeSrc_fin_wfn {fuel : Nat} {r : Inv} {nmeta : MetaM} {src : ClassSrc}
    {info : NodeInfoM} (hr : InvOK r) (hs : SrcOK src)
    (h : renderNodeSrc fuel r nmeta src = .ok info) :
    ∃ fin : NodeM, fin.OK ∧ renderParamsF defaultFuel fin.params = .ok info.params ∧
      info.apps = fin.apps.items ∧ info.classes = fin.classes.items := by
  obtain ⟨self, rc, bp, seen, root, fin, e1, e2, e3, e4, e5, e6, e7, e8, _⟩ := renderNodeSrc_ok h
  have hself : self.OK := ofSrc_wfn hs e1
  have hbase : NodeM.OK { classes := self.classes, params := bp } :=
    baseParams_wfn (asReclass_wfn e2) e3
  have hroot : root.OK := renderImpl_wfn hr hbase nodeOK_empty e4
  exact ⟨fin, mergeInto_wfn hself hroot e5, e6, e7, e8⟩

/-- No error of `renderNodeSrc` is a panic. -/
theorem renderNodeSrc_np {fuel : Nat} {r : Inv} {nmeta : MetaM} {src : ClassSrc} {e : Err}
    (hr : InvOK r) (hs : SrcOK src) (h : renderNodeSrc fuel r nmeta src = .error e) :
    NotPanic e := by
  unfold renderNodeSrc at h
  cases h1 : NodeM.ofSrc none src with
  | error e' => simp only [h1, Except.error.injEq] at h; subst h; exact ofSrc_np h1
  | ok self =>
    simp only [h1] at h
    have hself : self.OK := ofSrc_wfn hs h1
    cases h2 : nmeta.asReclass r.cfg with
    | error e' => simp only [h2, Except.error.injEq] at h; subst h; exact asReclass_np h2
    | ok rc =>
      simp only [h2] at h
      cases h3 : ({} : Mapping).insert (.str Extracted.reclassKey.toList) rc.toValue with
      | error e' =>
        simp only [h3, Except.error.injEq] at h; subst h
        exact insertImpl_np (m := {}) (fc := false) (fo := false) h3
      | ok bp =>
        simp only [h3] at h
        have hbase : NodeM.OK { classes := self.classes, params := bp } :=
          baseParams_wfn (asReclass_wfn h2) h3
        cases h4 : renderImpl fuel r { classes := self.classes, params := bp } [] {} with
        | error e' =>
          simp only [h4, Except.error.injEq] at h; subst h
          exact renderImpl_np hr hbase nodeOK_empty h4
        | ok x =>
          obtain ⟨seen, root⟩ := x
          simp only [h4] at h
          have hroot : root.OK := renderImpl_wfn hr hbase nodeOK_empty h4
          cases h5 : mergeInto self root with
          | error e' => simp only [h5, Except.error.injEq] at h; subst h; exact mergeInto_np h5
          | ok fin =>
            simp only [h5] at h
            have hfin : fin.OK := mergeInto_wfn hself hroot h5
            cases h6 : renderParamsF defaultFuel fin.params with
            | error e' =>
              simp only [h6, Except.error.injEq] at h; subst h
              exact renderParamsF_np hfin h6
            | ok p => simp [h6] at h

/-- What `renderNode` does: look the node up, build the metadata (independent of the fuel), call
`renderNodeSrc`. -/
theorem renderNode_cases (r : Inv) (name : Str) :
    (findEntity name r.nodes = none ∧ ∀ fuel, renderNode fuel r name = .error (.unknownNode name)) ∨
    (∃ info w, findEntity name r.nodes = some (info, .bad w) ∧
      ∀ fuel, renderNode fuel r name = .error (.io w)) ∨
    (∃ info src nm, findEntity name r.nodes = some (info, .ok src) ∧
      ∀ fuel, renderNode fuel r name = renderNodeSrc fuel r nm src) := by
  cases h : findEntity name r.nodes with
  | none => exact Or.inl ⟨rfl, fun fuel => by unfold renderNode; rw [h]⟩
  | some x =>
    obtain ⟨info, fr⟩ := x
    cases fr with
    | bad w => exact Or.inr (Or.inl ⟨info, w, rfl, fun fuel => by unfold renderNode; rw [h]⟩)
    | ok src =>
      exact Or.inr (Or.inr ⟨info, src, _, rfl, fun fuel => by unfold renderNode; rw [h]⟩)

theorem nodeSrcOK {r : Inv} (hr : InvOK r) {name : Str} {info : EntityInfo} {src : ClassSrc}
    (h : findEntity name r.nodes = some (info, .ok src)) : SrcOK src :=
  hr.2 _ (findEntity_some_mem h) src rfl

/-- The merged parameters of a successfully rendered node are `WFN` before the final rendering. -/
theorem renderNode_fin_wfn {fuel : Nat} {r : Inv} {name : Str} {info : NodeInfoM} (hr : InvOK r)
    (h : renderNode fuel r name = .ok info) :
    ∃ fin : NodeM, fin.OK ∧ renderParamsF defaultFuel fin.params = .ok info.params ∧
      info.apps = fin.apps.items ∧ info.classes = fin.classes.items := by
  rcases renderNode_cases r name with ⟨_, h1⟩ | ⟨_, _, _, h1⟩ | ⟨i, src, nm, hf, h1⟩
  · rw [h1] at h; simp at h
  · rw [h1] at h; simp at h
  · rw [h1] at h; exact renderNodeSrc_fin_wfn hr (nodeSrcOK hr hf) h

/-- No error of `renderNode` is a panic. -/
theorem renderNode_np {fuel : Nat} {r : Inv} {name : Str} {e : Err} (hr : InvOK r)
    (h : renderNode fuel r name = .error e) : NotPanic e := by
  rcases renderNode_cases r name with ⟨_, h1⟩ | ⟨_, _, _, h1⟩ | ⟨i, src, nm, hf, h1⟩
  · rw [h1, Except.error.injEq] at h; subst h; intro s; simp
  · rw [h1, Except.error.injEq] at h; subst h; intro s; simp
  · rw [h1] at h; exact renderNodeSrc_np hr (nodeSrcOK hr hf) h

/-! ## 7. Fuel: `renderNode` depends on its fuel only through the class walk -/

/-- The stages of `renderNodeSrc` before the walk (independent of the fuel): the decoded node and
the parameters of the base node. -/
def nodePrefix (r : Inv) (nmeta : MetaM) (src : ClassSrc) : R (NodeM × Mapping) :=
  match NodeM.ofSrc none src with
  | .error e => .error e
  | .ok self =>
    match nmeta.asReclass r.cfg with
    | .error e => .error e
    | .ok rc =>
      match ({} : Mapping).insert (.str Extracted.reclassKey.toList) rc.toValue with
      | .error e => .error e
      | .ok bp => .ok (self, bp)

/-- The stages of `renderNodeSrc` after the walk: merge the node itself, render the parameters
(with the evaluator's constant budget `defaultFuel`). -/
def finishNode (nmeta : MetaM) (self : NodeM) : R (List Str × NodeM) → R NodeInfoM
  | .error e => .error e
  | .ok (_, root) =>
    match mergeInto self root with
    | .error e => .error e
    | .ok fin =>
      match renderParamsF defaultFuel fin.params with
      | .error e => .error e
      | .ok p => .ok { nmeta := nmeta, apps := fin.apps.items, classes := fin.classes.items, params := p }

theorem renderNodeSrc_eq (fuel : Nat) (r : Inv) (nmeta : MetaM) (src : ClassSrc) :
    renderNodeSrc fuel r nmeta src =
      match nodePrefix r nmeta src with
      | .error e => .error e
      | .ok (self, bp) =>
        finishNode nmeta self (renderImpl fuel r { classes := self.classes, params := bp } [] {}) := by
  unfold renderNodeSrc nodePrefix
  cases NodeM.ofSrc none src with
  | error e => rfl
  | ok self =>
    simp only []
    cases nmeta.asReclass r.cfg with
    | error e => rfl
    | ok rc =>
      simp only []
      cases ({} : Mapping).insert (.str Extracted.reclassKey.toList) rc.toValue with
      | error e => rfl
      | ok bp =>
        simp only []
        cases renderImpl fuel r { classes := self.classes, params := bp } [] {} with
        | error e => rfl
        | ok x => obtain ⟨seen, root⟩ := x; rfl

theorem nodePrefix_ok {r : Inv} {nmeta : MetaM} {src : ClassSrc} {self : NodeM} {bp : Mapping}
    (h : nodePrefix r nmeta src = .ok (self, bp)) :
    ∃ rc, NodeM.ofSrc none src = .ok self ∧ nmeta.asReclass r.cfg = .ok rc ∧
      ({} : Mapping).insert (.str Extracted.reclassKey.toList) rc.toValue = .ok bp := by
  unfold nodePrefix at h
  cases h1 : NodeM.ofSrc none src with
  | error e => simp [h1] at h
  | ok self' =>
    simp only [h1] at h
    cases h2 : nmeta.asReclass r.cfg with
    | error e => simp [h2] at h
    | ok rc =>
      simp only [h2] at h
      cases h3 : ({} : Mapping).insert (.str Extracted.reclassKey.toList) rc.toValue with
      | error e => simp [h3] at h
      | ok bp' =>
        simp only [h3, Except.ok.injEq, Prod.mk.injEq] at h
        obtain ⟨rfl, rfl⟩ := h
        exact ⟨rc, rfl, rfl, h3⟩

theorem asReclass_nofuel (m : MetaM) (cfg : NodeCfg) : m.asReclass cfg ≠ .error .fuel := by
  intro h
  by_cases hne : m.parts = []
  · unfold MetaM.asReclass at h; rw [hne] at h; simp at h
  · rw [asReclass_eq cfg hne] at h; simp at h

/-- The stages before the walk never report `fuel`. -/
theorem nodePrefix_nofuel (r : Inv) (nmeta : MetaM) (src : ClassSrc) :
    nodePrefix r nmeta src ≠ .error .fuel := by
  intro h
  unfold nodePrefix at h
  cases h1 : NodeM.ofSrc none src with
  | error e => simp only [h1, Except.error.injEq] at h; exact ofSrc_nofuel none src (h ▸ h1)
  | ok self =>
    simp only [h1] at h
    cases h2 : nmeta.asReclass r.cfg with
    | error e => simp only [h2, Except.error.injEq] at h; exact asReclass_nofuel _ _ (h ▸ h2)
    | ok rc =>
      simp only [h2] at h
      cases h3 : ({} : Mapping).insert (.str Extracted.reclassKey.toList) rc.toValue with
      | error e =>
        simp only [h3, Except.error.injEq] at h; subst h
        exact insertImpl_nofuel _ _ _ _ _ h3
      | ok bp => simp [h3] at h

/-- The decoded node and the base node have `WFN` parameters. -/
theorem nodePrefix_wfn {r : Inv} {nmeta : MetaM} {src : ClassSrc} {self : NodeM} {bp : Mapping}
    (hs : SrcOK src) (h : nodePrefix r nmeta src = .ok (self, bp)) :
    self.OK ∧ NodeM.OK { classes := self.classes, params := bp } := by
  obtain ⟨rc, e1, e2, e3⟩ := nodePrefix_ok h
  exact ⟨ofSrc_wfn hs e1, baseParams_wfn (asReclass_wfn e2) e3⟩

theorem finishNode_fuel_error (nmeta : MetaM) (self : NodeM) :
    finishNode nmeta self (.error .fuel) = .error .fuel := rfl

/-- `finishNode` reports `fuel` only if the walk did, or if the final `render_parameters` ran out
of the evaluator's constant budget. -/
theorem finishNode_fuel {nmeta : MetaM} {self : NodeM} {x : R (List Str × NodeM)}
    (h : finishNode nmeta self x = .error .fuel) :
    x = .error .fuel ∨ ∃ seen root fin, x = .ok (seen, root) ∧ mergeInto self root = .ok fin ∧
      renderParamsF defaultFuel fin.params = .error .fuel := by
  cases x with
  | error e => simp only [finishNode, Except.error.injEq] at h; subst h; exact Or.inl rfl
  | ok y =>
    obtain ⟨seen, root⟩ := y
    simp only [finishNode] at h
    cases h1 : mergeInto self root with
    | error e =>
      simp only [h1, Except.error.injEq] at h; subst h
      exact absurd h1 (mergeInto_nofuel self root)
    | ok fin =>
      simp only [h1] at h
      cases h2 : renderParamsF defaultFuel fin.params with
      | error e =>
        simp only [h2, Except.error.injEq] at h; subst h
        exact Or.inr ⟨seen, root, fin, rfl, h1, h2⟩
      | ok p => simp [h2] at h

/-- **More fuel, same answer** for `renderNodeSrc`: every outcome other than `Err.fuel` is the
outcome at every larger fuel. -/
theorem renderNodeSrc_mono_le {n m : Nat} (hle : n ≤ m) {r : Inv} {nmeta : MetaM} {src : ClassSrc}
    {res : R NodeInfoM} (h : renderNodeSrc n r nmeta src = res) (hne : res ≠ .error .fuel) :
    renderNodeSrc m r nmeta src = res := by
  rw [renderNodeSrc_eq] at h ⊢
  cases hp : nodePrefix r nmeta src with
  | error e => simp only [hp] at h ⊢; exact h
  | ok x =>
    obtain ⟨self, bp⟩ := x
    simp only [hp] at h ⊢
    have hw : renderImpl n r { classes := self.classes, params := bp } [] {} ≠ .error .fuel := by
      intro hc; rw [hc, finishNode_fuel_error] at h; exact hne h.symm
    rw [renderImpl_mono_le hle rfl hw]; exact h

theorem renderNode_mono_le {n m : Nat} (hle : n ≤ m) {r : Inv} {name : Str}
    {res : R NodeInfoM} (h : renderNode n r name = res) (hne : res ≠ .error .fuel) :
    renderNode m r name = res := by
  rcases renderNode_cases r name with ⟨_, h1⟩ | ⟨_, _, _, h1⟩ | ⟨i, src, nm, hf, h1⟩
  · rw [h1] at h ⊢; exact h
  · rw [h1] at h ⊢; exact h
  · rw [h1] at h ⊢; exact renderNodeSrc_mono_le hle h hne

theorem ofSrc_loc {loc : Option (List Str)} {src : ClassSrc} {n : NodeM}
    (h : NodeM.ofSrc loc src = .ok n) : n.loc = loc := by
  unfold NodeM.ofSrc at h
  simp only at h
  cases h1 : Mapping.ofYamlEntries src.params with
  | error e => simp [h1] at h
  | ok p => simp only [h1, Except.ok.injEq] at h; subst h; rfl

/-- **The outcome settles** once the walk has enough fuel (general form, cf.
`C01.walk_terminates`): with `N = (|U| + 1)·(B + 2)` every fuel `≥ N` gives the outcome at `N`,
and that outcome is `Err.fuel` only if the final `render_parameters` exhausted the evaluator's
constant budget `defaultFuel`. -/
theorem renderNodeSrc_settles_good {r : Inv} {U : List Str} {B : Nat} (hg : GoodInv r U B)
    {nmeta : MetaM} {src : ClassSrc}
    (hs : ∀ self, NodeM.ofSrc none src = .ok self → GoodNode r U B self) :
    (∀ m, (U.length + 1) * (B + 2) ≤ m →
      renderNodeSrc m r nmeta src = renderNodeSrc ((U.length + 1) * (B + 2)) r nmeta src) ∧
    (renderNodeSrc ((U.length + 1) * (B + 2)) r nmeta src = .error .fuel →
      ∃ self bp seen root fin, nodePrefix r nmeta src = .ok (self, bp) ∧
        renderImpl ((U.length + 1) * (B + 2)) r { classes := self.classes, params := bp } [] {} =
          .ok (seen, root) ∧
        mergeInto self root = .ok fin ∧ renderParamsF defaultFuel fin.params = .error .fuel) := by
  cases hp : nodePrefix r nmeta src with
  | error e =>
    refine ⟨fun m _ => by simp only [renderNodeSrc_eq, hp], fun h => ?_⟩
    simp only [renderNodeSrc_eq, hp, Except.error.injEq] at h
    subst h
    exact absurd hp (nodePrefix_nofuel r nmeta src)
  | ok x =>
    obtain ⟨self, bp⟩ := x
    obtain ⟨rc, hself, _, _⟩ := nodePrefix_ok hp
    have hgn := hs self hself
    have hbase : GoodNode r U B { classes := self.classes, params := bp } := by
      refine ⟨hgn.1, ?_⟩
      have : self.loc = none := ofSrc_loc hself
      simpa [this] using hgn.2
    have hnf := renderImpl_nofuel hg hbase [] {} (Nat.le_refl ((U.length + 1) * (B + 2)))
    refine ⟨fun m hm => ?_, fun h => ?_⟩
    · simp only [renderNodeSrc_eq, hp]
      rw [renderImpl_mono_le hm rfl hnf]
    · simp only [renderNodeSrc_eq, hp] at h
      rcases finishNode_fuel h with h' | ⟨seen, root, fin, h1, h2, h3⟩
      · exact absurd h' hnf
      · exact ⟨self, bp, seen, root, fin, rfl, h1, h2, h3⟩

/-- `renderNodeSrc` reports `Err.fuel` only if the walk ran out of its fuel, or the final
`render_parameters` ran out of the evaluator's constant budget on the merged parameters, which
are `WFN`. -/
theorem renderNodeSrc_fuel_cases {fuel : Nat} {r : Inv} {nmeta : MetaM} {src : ClassSrc}
    (hr : InvOK r) (hs : SrcOK src) (h : renderNodeSrc fuel r nmeta src = .error .fuel) :
    (∃ self bp, nodePrefix r nmeta src = .ok (self, bp) ∧
      renderImpl fuel r { classes := self.classes, params := bp } [] {} = .error .fuel) ∨
    (∃ fin : NodeM, fin.OK ∧ renderParamsF defaultFuel fin.params = .error .fuel) := by
  rw [renderNodeSrc_eq] at h
  cases hp : nodePrefix r nmeta src with
  | error e =>
    simp only [hp, Except.error.injEq] at h
    subst h
    exact absurd hp (nodePrefix_nofuel r nmeta src)
  | ok x =>
    obtain ⟨self, bp⟩ := x
    simp only [hp] at h
    rcases finishNode_fuel h with h' | ⟨seen, root, fin, h1, h2, h3⟩
    · exact Or.inl ⟨self, bp, rfl, h'⟩
    · obtain ⟨hself, hbase⟩ := nodePrefix_wfn hs hp
      exact Or.inr ⟨fin, mergeInto_wfn hself (renderImpl_wfn hr hbase nodeOK_empty h1) h2, h3⟩

/-! ### Plain inventories: a syntactic condition -/

/-- All include entries of the file are plain names (no reference marker, no leading dot). -/
def PlainSrc (src : ClassSrc) : Prop := ∀ cls ∈ src.classes, PlainName cls

/-- All include entries of all readable class and node files are plain names. -/
def PlainFiles (r : Inv) : Prop :=
  (∀ x ∈ r.classes, ∀ src, x.2.2 = .ok src → PlainSrc src) ∧
  (∀ x ∈ r.nodes, ∀ src, x.2.2 = .ok src → PlainSrc src)

theorem mem_foldl_appendIfNew (f : Str → Str) : ∀ (xs : List Str) (acc : UList) (y : Str),
    y ∈ (xs.foldl (fun a c => a.appendIfNew (f c)) acc).items → y ∈ acc.items ∨ ∃ c ∈ xs, y = f c
  | [], acc, y, h => Or.inl h
  | x :: xs, acc, y, h => by
    simp only [List.foldl_cons] at h
    rcases mem_foldl_appendIfNew f xs _ y h with h | ⟨c, hc, rfl⟩
    · rcases UList.mem_appendIfNew.1 h with h | h
      · exact Or.inl h
      · exact Or.inr ⟨x, List.mem_cons_self .., h⟩
    · exact Or.inr ⟨c, List.mem_cons_of_mem _ hc, rfl⟩

theorem ofSrc_plain {loc : Option (List Str)} {src : ClassSrc} {n : NodeM} (hs : PlainSrc src)
    (h : NodeM.ofSrc loc src = .ok n) : ∀ cls ∈ n.classes.items, PlainName cls := by
  unfold NodeM.ofSrc at h
  simp only at h
  cases h1 : Mapping.ofYamlEntries src.params with
  | error e => simp [h1] at h
  | ok p =>
    simp only [h1, Except.ok.injEq] at h
    subst h
    intro cls hcls
    simp only at hcls
    rcases mem_foldl_appendIfNew (absClassName loc) _ _ cls hcls with h | ⟨c, hc, rfl⟩
    · simp at h
    · have hc' : c ∈ src.classes := by
        unfold UList.ofList at hc
        rcases mem_foldl_appendIfNew id src.classes {} c (by simpa using hc) with h | ⟨d, hd, rfl⟩
        · simp at h
        · exact hd
      have hp := hs c hc'
      rw [absClassName_of_not_dot loc hp.2]; exact hp

theorem plainFiles_plainInv {r : Inv} (hp : PlainFiles r) : PlainInv r := by
  intro loc c cn h
  obtain ⟨info, src, hf, ho⟩ := readClass_some h
  exact ofSrc_plain (hp.1 _ (findEntity_some_mem hf) src rfl) ho

/-- For inventories with plain include entries the outcome of `renderNodeSrc` settles; it is
`Err.fuel` only if the final `render_parameters` exhausted the evaluator's constant budget on the
merged (`WFN`) parameters. -/
theorem renderNodeSrc_settles_plain {r : Inv} (hr : InvOK r) (hp : PlainFiles r) {nmeta : MetaM}
    {src : ClassSrc} (hso : SrcOK src) (hs : PlainSrc src) :
    ∃ N, (∀ m, N ≤ m → renderNodeSrc m r nmeta src = renderNodeSrc N r nmeta src) ∧
      (renderNodeSrc N r nmeta src = .error .fuel →
        ∃ fin : NodeM, fin.OK ∧ renderParamsF defaultFuel fin.params = .error .fuel) := by
  have hg : GoodInv r (r.classes.map (·.1)) (max (maxIncludes r) src.classes.length) :=
    plain_goodInv (plainFiles_plainInv hp) (Nat.le_max_left _ _)
  have hs' : ∀ self, NodeM.ofSrc none src = .ok self →
      GoodNode r (r.classes.map (·.1)) (max (maxIncludes r) src.classes.length) self := by
    intro self hself
    refine ⟨Nat.le_trans (ofSrc_classes_length hself) (Nat.le_max_right _ _), ?_⟩
    exact plain_goodList r self.loc (ofSrc_plain hs hself)
  obtain ⟨h1, h2⟩ := renderNodeSrc_settles_good (nmeta := nmeta) hg hs'
  refine ⟨_, h1, fun h => ?_⟩
  obtain ⟨self, bp, seen, root, fin, e1, e2, e3, e4⟩ := h2 h
  obtain ⟨hself, hbase⟩ := nodePrefix_wfn hso e1
  exact ⟨fin, mergeInto_wfn hself (renderImpl_wfn hr hbase nodeOK_empty e2) e3, e4⟩

/-! ## 8. Executable checkers for the hypotheses, and a small inventory for non-vacuity -/

def keyOKB : Yaml → Bool
  | .str s => decide (CleanKey (Key.stripPrefix (.str s)).1)
  | _ => true

mutual
def singleMarkerB : Yaml → Bool
  | .seq l => singleMarkerLB l
  | .map es => singleMarkerEsB es
  | .tagged _ v => singleMarkerB v
  | _ => true
def singleMarkerLB : List Yaml → Bool
  | [] => true
  | y :: ys => singleMarkerB y && singleMarkerLB ys
def singleMarkerEsB : List (Yaml × Yaml) → Bool
  | [] => true
  | (k, v) :: es => keyOKB k && singleMarkerB v && singleMarkerEsB es
end

theorem keyOKB_sound {y : Yaml} (h : keyOKB y = true) : y.keyOK := by
  cases y <;> simp_all [keyOKB, Yaml.keyOK]

mutual
theorem singleMarkerB_sound : ∀ (y : Yaml), singleMarkerB y = true → SingleMarker y
  | .null, _ => by simp [SingleMarker]
  | .bool _, _ => by simp [SingleMarker]
  | .num _, _ => by simp [SingleMarker]
  | .str _, _ => by simp [SingleMarker]
  | .seq l, h => by
    simp only [singleMarkerB] at h; simp only [SingleMarker]; exact singleMarkerLB_sound l h
  | .map es, h => by
    simp only [singleMarkerB] at h; simp only [SingleMarker]; exact singleMarkerEsB_sound es h
  | .tagged _ v, h => by
    simp only [singleMarkerB] at h; simp only [SingleMarker]; exact singleMarkerB_sound v h
theorem singleMarkerLB_sound : ∀ (l : List Yaml), singleMarkerLB l = true → SingleMarkerL l
  | [], _ => by simp [SingleMarkerL]
  | y :: ys, h => by
    simp only [singleMarkerLB, Bool.and_eq_true] at h
    exact ⟨singleMarkerB_sound y h.1, singleMarkerLB_sound ys h.2⟩
theorem singleMarkerEsB_sound : ∀ (es : List (Yaml × Yaml)), singleMarkerEsB es = true →
    SingleMarkerEs es
  | [], _ => by simp [SingleMarkerEs]
  | (k, v) :: es, h => by
    simp only [singleMarkerEsB, Bool.and_eq_true] at h
    exact ⟨keyOKB_sound h.1.1, singleMarkerB_sound v h.1.2, singleMarkerEsB_sound es h.2⟩
end

/-- Executable check of a property of all readable files of an entity list. -/
def allFiles (p : ClassSrc → Bool) (l : List (Str × EntityInfo × FileRes)) : Bool :=
  l.all fun x => match x.2.2 with | .ok src => p src | .bad _ => true

theorem allFiles_sound {p : ClassSrc → Bool} {l : List (Str × EntityInfo × FileRes)}
    (h : allFiles p l = true) : ∀ x ∈ l, ∀ src, x.2.2 = .ok src → p src = true := by
  intro x hx src hsrc
  have := List.all_eq_true.1 h x hx
  simpa [hsrc] using this

def invOKB (r : Inv) : Bool :=
  allFiles (fun s => singleMarkerEsB s.params) r.classes &&
  allFiles (fun s => singleMarkerEsB s.params) r.nodes

/-- `InvOK` can be checked by evaluation. -/
theorem invOKB_sound {r : Inv} (h : invOKB r = true) : InvOK r := by
  simp only [invOKB, Bool.and_eq_true] at h
  refine ⟨fun x hx src hs => ?_, fun x hx src hs => ?_⟩
  · have := allFiles_sound h.1 x hx src hs
    simp only [SrcOK, SingleMarker]; exact singleMarkerEsB_sound _ this
  · have := allFiles_sound h.2 x hx src hs
    simp only [SrcOK, SingleMarker]; exact singleMarkerEsB_sound _ this

def plainNameB (cls : Str) : Bool :=
  !(strContains cls Extracted.classRefMarker.toList) && !(cls.head? == some '.')

theorem plainNameB_sound {cls : Str} (h : plainNameB cls = true) : PlainName cls := by
  simp only [plainNameB, Bool.and_eq_true, Bool.not_eq_true', beq_eq_false_iff_ne] at h
  exact ⟨h.1, h.2⟩

def plainFilesB (r : Inv) : Bool :=
  allFiles (fun s => s.classes.all plainNameB) r.classes &&
  allFiles (fun s => s.classes.all plainNameB) r.nodes

/-- `PlainFiles` can be checked by evaluation. -/
theorem plainFilesB_sound {r : Inv} (h : plainFilesB r = true) : PlainFiles r := by
  simp only [plainFilesB, Bool.and_eq_true] at h
  refine ⟨fun x hx src hs cls hc => ?_, fun x hx src hs cls hc => ?_⟩
  · exact plainNameB_sound (List.all_eq_true.1 (allFiles_sound h.1 x hx src hs) cls hc)
  · exact plainNameB_sound (List.all_eq_true.1 (allFiles_sound h.2 x hx src hs) cls hc)

/-- A two-class inventory with one node, used by the non-vacuity examples of C07b/C11b/C19b:
`app` includes `base`; there is an overriding key `~b`, a constant key `=k`, layered mappings
under `a`, a reference inside a sequence and a reference into `_reclass_`.  Node `bad` refers to
a parameter that does not exist; node `gone` includes a class that does not exist. -/
def exInvE2E : Inv :=
  let s (x : String) : Yaml := .str x.toList
  let info (p : String) : EntityInfo := { path := [p.toList], loc := [] }
  { classes :=
      [ ("base".toList, info "base.yml",
          .ok { params := [(s "a", .map [(s "x", s "1")]), (s "b", s "${a:x}")] }),
        ("app".toList, info "app.yml",
          .ok { classes := ["base".toList], apps := ["web".toList],
                params := [(s "a", .map [(s "y", .num (.int 2))]), (s "~b", s "over"),
                           (s "l", .seq [s "${a:x}", .bool true, .null])] }) ],
    nodes :=
      [ ("n1".toList, info "n1.yml",
          .ok { classes := ["app".toList], apps := ["db".toList],
                params := [(s "a", .map [(s "z", s "${_reclass_:name:short}")]), (s "=k", s "v")] }),
        ("bad".toList, info "bad.yml",
          .ok { classes := ["app".toList], params := [(s "q", s "${nope}")] }),
        ("gone".toList, info "gone.yml", .ok { classes := ["missing".toList] }),
        ("unreadable".toList, info "unreadable.yml", .bad "EACCES".toList) ] }

theorem exInvE2E_ok : InvOK exInvE2E := invOKB_sound (by decide)

theorem exInvE2E_plain : PlainFiles exInvE2E := plainFilesB_sound (by decide)

/-- JSON text of the rendered parameters of a node (`Value` has no decidable equality, so
concrete renders are compared through their JSON text). -/
def nodeJson (x : R NodeInfoM) : Option Str :=
  match x with
  | .ok info => (match jsonOf info.params.toValue with | .ok t => some t | .error _ => none)
  | .error _ => none

end Reclass
