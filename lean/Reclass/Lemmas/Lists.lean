/-
  Helper lemmas for the list models (C17, and the class list of C01).
-/
import Reclass.Model.Lists
namespace Reclass

theorem removeFirst_eq_erase (x : Str) (l : List Str) : removeFirst x l = l.erase x := by
  induction l with
  | nil => rfl
  | cons y ys ih =>
    simp only [removeFirst, List.erase_cons]
    by_cases h : y = x
    · simp [h]
    · simp [h, ih]

theorem mem_removeFirst_of_nodup {x y : Str} {l : List Str} (hn : l.Nodup) :
    y ∈ removeFirst x l ↔ y ∈ l ∧ y ≠ x := by
  rw [removeFirst_eq_erase]
  exact hn.mem_erase_iff.trans (by constructor <;> (intro ⟨a, b⟩; exact ⟨b, a⟩))

theorem nodup_removeFirst {x : Str} {l : List Str} (hn : l.Nodup) : (removeFirst x l).Nodup := by
  rw [removeFirst_eq_erase]; exact hn.erase x

theorem removeFirst_sublist (x : Str) (l : List Str) : (removeFirst x l).Sublist l := by
  rw [removeFirst_eq_erase]; exact List.erase_sublist

theorem removeFirst_eq_filter {x : Str} {l : List Str} (hn : l.Nodup) :
    removeFirst x l = l.filter (fun y => y != x) := by
  rw [removeFirst_eq_erase]; exact hn.erase_eq_filter x

theorem nodup_append_singleton {x : Str} {l : List Str} (hn : l.Nodup) (hx : x ∉ l) :
    (l ++ [x]).Nodup := by
  rw [List.nodup_append]
  refine ⟨hn, by simp, ?_⟩
  intro a ha b hb
  simp at hb
  subst hb
  intro h; subst h; exact hx ha

end Reclass
