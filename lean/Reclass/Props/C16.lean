/-
  C16 — Missing classes (`Node::read_class`, `Config::is_class_ignored`, the `continue` /
  `return Err` arms of `Node::render_impl`; model: `readClass`, `NodeCfg.isClassIgnored`,
  `walkClasses`, `renderImpl`, `renderNodeSrc` in `Model/Node`).

  "Including a class that does not exist fails the node with an error naming the class,
  unless ignoring missing classes is enabled and one of the configured patterns matches the
  class name; in that case the node renders exactly as if that include were absent, except
  that the name still appears in its class list.  Existing classes are never skipped by
  these settings."

  Property theorems only; helper lemmas are in `Lemmas/WalkL`, the big-step relation `Walk`
  in `Spec/Walk`.
-/
import Reclass.Lemmas.WalkL
namespace Reclass
namespace C16

/-! ### 8. When a class name is ignored -/

/-- A class name is ignored iff ignoring is switched on **and** one of the compiled patterns
matches it. -/
theorem ignored_iff (r : Inv) (c : Str) :
    r.cfg.isClassIgnored c = true ↔
      r.cfg.ignoreClassNotfound = true ∧ ∃ p ∈ r.cfg.compiled, p.matches c = true := by
  simp [NodeCfg.isClassIgnored, List.any_eq_true]

/-- With ignoring switched off nothing is ignored, whatever the patterns. -/
theorem not_ignored_of_off (r : Inv) (c : Str) (h : r.cfg.ignoreClassNotfound = false) :
    r.cfg.isClassIgnored c = false := by
  simp [NodeCfg.isClassIgnored, h]

/-! ### 9. Existing classes are never skipped -/

/-- If the class exists, `readClass` does not look at the configuration at all: any other
configuration gives the same result — and that result is never "skip". -/
theorem existing_never_skipped {r : Inv} {loc : Option (List Str)} {cls : Str} {e : EntityInfo × FileRes}
    (h : findEntity (absClassName loc cls) r.classes = some e) :
    (∀ cfg', readClass { r with cfg := cfg' } loc cls = readClass r loc cls) ∧
    readClass r loc cls ≠ .ok none := by
  obtain ⟨info, fr⟩ := e
  refine ⟨?_, ?_⟩
  · intro cfg'
    unfold readClass
    simp only [h]
    cases fr <;> rfl
  · unfold readClass
    simp only [h]
    cases fr with
    | bad w => simp
    | ok src =>
      simp only []
      cases NodeM.ofSrc (some info.loc) src with
      | error e => simp
      | ok n => simp

/-- Consequently an existing, readable class is always walked (unless already seen): the
step of the loop for an entry resolving to it descends into it, under every configuration. -/
theorem existing_is_loaded {r : Inv} {loc : Option (List Str)} {c : Str} {info : EntityInfo} {src : ClassSrc}
    {cn : NodeM} (h : findEntity (absClassName loc c) r.classes = some (info, .ok src))
    (ho : NodeM.ofSrc (some info.loc) src = .ok cn) :
    readClass r loc c = .ok (some cn) := by
  unfold readClass
  simp only [h, ho]

/-! ### 10. A missing class that is not ignored fails the node, naming the class -/

/-- `readClass` on a missing, not ignored class: the error names the (absolute) class. -/
theorem missing_fails {r : Inv} {loc : Option (List Str)} {cls : Str}
    (hf : findEntity (absClassName loc cls) r.classes = none)
    (hi : r.cfg.isClassIgnored (absClassName loc cls) = false) :
    readClass r loc cls = .error (.classNotFound (absClassName loc cls)) := by
  rw [readClass_missing hf]; simp [hi]

/-- The loop step for an entry that resolves to a new, missing, not ignored class fails with
that error (whatever follows in the list). -/
theorem missing_fails_step {n : Nat} {r : Inv} {loc : Option (List Str)} {cls c : Str} {rest seen : List Str}
    {root : NodeM} (h1 : resolveClassName defaultFuel root.params cls = .ok c) (hs : c ∉ seen)
    (hf : findEntity (absClassName loc c) r.classes = none)
    (hi : r.cfg.isClassIgnored (absClassName loc c) = false) :
    walkClasses (n+1) r loc (cls :: rest) seen root = .error (.classNotFound (absClassName loc c)) :=
  walkClasses_error_of_read h1 hs (missing_fails hf hi)

/-- The same after any successfully walked prefix of the include list: with enough fuel the
walk of `pre ++ cls :: rest` fails with the error naming the class. -/
theorem missing_fails_after_prefix {r : Inv} {loc : Option (List Str)} {pre seen : List Str} {root : NodeM}
    {seen1 : List Str} {root1 : NodeM} {tr : List TraceEntry}
    (hw : Walk r loc pre seen root seen1 root1 tr) {cls c : Str} (rest : List Str)
    (h1 : resolveClassName defaultFuel root1.params cls = .ok c) (hs : c ∉ seen1)
    (hf : findEntity (absClassName loc c) r.classes = none)
    (hi : r.cfg.isClassIgnored (absClassName loc c) = false) :
    ∃ n, ∀ m, n ≤ m →
      walkClasses m r loc (pre ++ cls :: rest) seen root = .error (.classNotFound (absClassName loc c)) :=
  hw.prefix_error (n := 1) (missing_fails_step h1 hs hf hi) (by simp)

/-- An error of a class's include walk is the error of the class (`renderImpl`), and an error
of an included class is the error of the including walk: errors travel up unchanged through
every level of nesting. -/
theorem error_propagates {n : Nat} {r : Inv} {e : Err} :
    (∀ {self seen root}, walkClasses n r self.loc self.classes.items seen root = .error e →
      renderImpl (n+1) r self seen root = .error e) ∧
    (∀ {loc cls c rest seen root cn}, resolveClassName defaultFuel root.params cls = .ok c → c ∉ seen →
      readClass r loc c = .ok (some cn) → renderImpl n r cn (seen ++ [c]) root = .error e →
      walkClasses (n+1) r loc (cls :: rest) seen root = .error e) :=
  ⟨fun h => renderImpl_error_of_walk h, fun h1 hs h2 h3 => walkClasses_error_of_render h1 hs h2 h3⟩

/-- An error of the walk of the node's includes is the error of rendering the node. -/
theorem node_fails {fuel : Nat} {r : Inv} {nmeta : MetaM} {src : ClassSrc}
    {self : NodeM} {rc bp : Mapping} {e : Err}
    (h1 : NodeM.ofSrc none src = .ok self) (h2 : nmeta.asReclass r.cfg = .ok rc)
    (h3 : ({} : Mapping).insert (.str Extracted.reclassKey.toList) rc.toValue = .ok bp)
    (h4 : renderImpl fuel r { classes := self.classes, params := bp } [] {} = .error e) :
    renderNodeSrc fuel r nmeta src = .error e :=
  renderNodeSrc_error_of_walk h1 h2 h3 h4

/-- **End to end, for an include of the node itself.**  If the node's include list is
`pre ++ cls :: rest`, the entries `pre` are walked successfully, and `cls` then resolves to a
new class that is missing and not ignored, rendering the node fails — for every sufficiently
large amount of fuel — with the error naming that class. -/
theorem node_missing_include_fails {r : Inv} {nmeta : MetaM} {src : ClassSrc} {self : NodeM} {rc bp : Mapping}
    (e1 : NodeM.ofSrc none src = .ok self) (e2 : nmeta.asReclass r.cfg = .ok rc)
    (e3 : ({} : Mapping).insert (.str Extracted.reclassKey.toList) rc.toValue = .ok bp)
    {pre rest : List Str} {cls c : Str} (hc : self.classes.items = pre ++ cls :: rest)
    {seen1 : List Str} {root1 : NodeM} {tr : List TraceEntry}
    (hw : Walk r none pre [] {} seen1 root1 tr)
    (h1 : resolveClassName defaultFuel root1.params cls = .ok c) (hs : c ∉ seen1)
    (hf : findEntity (absClassName none c) r.classes = none)
    (hi : r.cfg.isClassIgnored (absClassName none c) = false) :
    ∃ n, ∀ fuel, n ≤ fuel →
      renderNodeSrc fuel r nmeta src = .error (.classNotFound (absClassName none c)) := by
  obtain ⟨n, hn⟩ := missing_fails_after_prefix hw rest h1 hs hf hi
  refine ⟨n+1, fun fuel hf' => ?_⟩
  obtain ⟨k, rfl⟩ : ∃ k, fuel = k + 1 := ⟨fuel - 1, by omega⟩
  apply node_fails e1 e2 e3
  apply renderImpl_error_of_walk
  simp only [hc]
  exact hn k (by omega)

/-! ### 11. A missing class that is ignored: as if the include were absent -/

/-- `readClass` on a missing, ignored class: "skip". -/
theorem ignored_read {r : Inv} {loc : Option (List Str)} {cls : Str}
    (hf : findEntity (absClassName loc cls) r.classes = none)
    (hi : r.cfg.isClassIgnored (absClassName loc cls) = true) :
    readClass r loc cls = .ok none := by
  rw [readClass_missing hf]; simp [hi]

/-- The loop step for an entry resolving to a missing, ignored class leaves `seen` and the
accumulator untouched and continues with the rest: the walk of `cls :: rest` *is* the walk of
`rest` (one unit of fuel is spent on the entry). -/
theorem ignored_as_absent {n : Nat} {r : Inv} {loc : Option (List Str)} {cls c : Str} {rest seen : List Str}
    {root : NodeM} (h1 : resolveClassName defaultFuel root.params cls = .ok c)
    (hf : findEntity (absClassName loc c) r.classes = none)
    (hi : r.cfg.isClassIgnored (absClassName loc c) = true) :
    walkClasses (n+1) r loc (cls :: rest) seen root = walkClasses n r loc rest seen root ∧
    walkClassesT (n+1) r loc (cls :: rest) seen root = walkClassesT n r loc rest seen root :=
  ⟨walkClasses_skip h1 (Or.inr (ignored_read hf hi)), walkClassesT_skip h1 (Or.inr (ignored_read hf hi))⟩

/-- With equal fuel on both sides: if the walk of `rest` has an answer, the walk of
`cls :: rest` has the same answer. -/
theorem ignored_as_absent_same_fuel {n : Nat} {r : Inv} {loc : Option (List Str)} {cls c : Str}
    {rest seen : List Str} {root : NodeM} (h1 : resolveClassName defaultFuel root.params cls = .ok c)
    (hf : findEntity (absClassName loc c) r.classes = none)
    (hi : r.cfg.isClassIgnored (absClassName loc c) = true)
    (hne : walkClasses n r loc rest seen root ≠ .error .fuel) :
    walkClasses (n+1) r loc (cls :: rest) seen root = walkClasses (n+1) r loc rest seen root := by
  rw [(ignored_as_absent h1 hf hi).1]
  exact (walkClasses_mono_le (Nat.le_succ n) rfl hne).symm

/-- Anywhere in the list: a reference-free entry naming a missing, ignored class can be
removed from (inserted into) an include list at any position without changing the result of
the walk — same `seen`, same accumulator, same trace, same error. -/
theorem ignored_as_absent_anywhere {r : Inv} {loc : Option (List Str)} {cls : Str}
    (hm : strContains cls Extracted.classRefMarker.toList = false)
    (hf : findEntity (absClassName loc cls) r.classes = none)
    (hi : r.cfg.isClassIgnored (absClassName loc cls) = true)
    (pre rest : List Str) {n : Nat} {seen : List Str} {root : NodeM} :
    (∀ {res}, walkClasses n r loc (pre ++ rest) seen root = res → res ≠ .error .fuel →
      walkClasses (n+1) r loc (pre ++ cls :: rest) seen root = res) ∧
    (∀ {res}, walkClassesT n r loc (pre ++ rest) seen root = res → res ≠ .error .fuel →
      walkClassesT (n+1) r loc (pre ++ cls :: rest) seen root = res) := by
  have h1 : ∀ params, resolveClassName defaultFuel params cls = .ok cls :=
    fun params => resolveClassName_of_no_marker _ params hm
  have h2 := ignored_read hf hi
  exact ⟨fun h hne => walkClasses_insert_skipped h1 h2 pre rest h hne,
         fun h hne => walkClassesT_insert_skipped h1 h2 rest pre n seen root _ h hne⟩

/-- Merging a class into the accumulator merges its whole include list into the class list —
ignored entries included. -/
theorem mergeInto_classes {self root root' : NodeM} (h : mergeInto self root = .ok root') :
    root'.classes = root.classes.merge self.classes :=
  (mergeInto_ok h).2.2.1

/-- Every entry of the merged class's include list is in the class list afterwards. -/
theorem mergeInto_classes_mem {self root root' : NodeM} (h : mergeInto self root = .ok root')
    {cls : Str} (hc : cls ∈ self.classes.items) : cls ∈ root'.classes.items := by
  rw [mergeInto_classes h]; exact UList.mem_merge.2 (Or.inr hc)

/-- **A class with an ignored include.**  Let `self` and `self'` be the same class except that
`self` has the additional include entry `cls` (reference-free, missing, ignored) somewhere in
its list.  Then walking `self` gives the same error, or the same `seen` and an accumulator
with the same parameters and applications, whose class list contains exactly one more name
at most: `cls`. -/
theorem ignored_as_absent_class {r : Inv} {self self' : NodeM} {cls : Str} {pre rest : List Str}
    (hloc : self.loc = self'.loc) (hp : self.params = self'.params) (ha : self.apps = self'.apps)
    (hc : self.classes.items = pre ++ cls :: rest) (hc' : self'.classes.items = pre ++ rest)
    (hm : strContains cls Extracted.classRefMarker.toList = false)
    (hf : findEntity (absClassName self.loc cls) r.classes = none)
    (hi : r.cfg.isClassIgnored (absClassName self.loc cls) = true)
    {n : Nat} {seen : List Str} {root : NodeM} :
    (∀ e, renderImpl n r self' seen root = .error e → e ≠ .fuel →
       renderImpl (n+1) r self seen root = .error e) ∧
    (∀ seen' root', renderImpl n r self' seen root = .ok (seen', root') →
       ∃ root'', renderImpl (n+1) r self seen root = .ok (seen', root'') ∧
         root''.params = root'.params ∧ root''.apps = root'.apps ∧ root''.loc = root'.loc ∧
         ∀ x, x ∈ root''.classes.items ↔ x = cls ∨ x ∈ root'.classes.items) :=
  renderImpl_insert_skipped hloc hp ha hc hc'
    (fun params => resolveClassName_of_no_marker _ params hm) (ignored_read hf hi)

/-- **End to end, for an include of the node itself.**  Let two node files parse to the same
node except that the first has the additional include entry `cls` (reference-free, missing,
ignored).  If the second renders, so does the first, with the same parameters, the same
applications and the same metadata; its class list is that of the second plus the name `cls`. -/
theorem ignored_as_absent_node {r : Inv} {nmeta : MetaM} {src src' : ClassSrc} {self self' : NodeM}
    {cls : Str} {pre rest : List Str}
    (hs : NodeM.ofSrc none src = .ok self) (hs' : NodeM.ofSrc none src' = .ok self')
    (hp : self.params = self'.params) (ha : self.apps = self'.apps)
    (hc : self.classes.items = pre ++ cls :: rest) (hc' : self'.classes.items = pre ++ rest)
    (hm : strContains cls Extracted.classRefMarker.toList = false)
    (hf : findEntity (absClassName none cls) r.classes = none)
    (hi : r.cfg.isClassIgnored (absClassName none cls) = true)
    {fuel : Nat} {info' : NodeInfoM} (h : renderNodeSrc fuel r nmeta src' = .ok info') :
    ∃ info, renderNodeSrc (fuel+1) r nmeta src = .ok info ∧ info.params = info'.params ∧
      info.apps = info'.apps ∧ info.nmeta = info'.nmeta ∧
      ∀ x, x ∈ info.classes ↔ x = cls ∨ x ∈ info'.classes :=
  renderNodeSrc_insert_skipped hs hs' hp ha hc hc'
    (fun params => resolveClassName_of_no_marker _ params hm) (ignored_read hf hi) h

/-! ### Non-vacuity -/

def exInfo (p : String) : EntityInfo := { path := [p.toList], loc := [] }
def exClass (incs : List String) (k v : String) : FileRes :=
  .ok { classes := incs.map String.toList, params := [(.str k.toList, .str v.toList)] }

/-- Two classes; missing classes are ignored if their name starts with `opt.`. -/
def exInv : Inv :=
  { classes :=
      [ ("a".toList, exInfo "a.yml", exClass ["opt.gone", "b"] "ka" "a"),
        ("b".toList, exInfo "b.yml", exClass [] "kb" "b") ],
    cfg := { ignoreClassNotfound := true, compiled := [.pfx "opt.".toList] } }

/-- (final `seen`, class list, parameter keys) on success; the missing class on a
class-not-found error. -/
def summary (x : R (List Str × NodeM)) : Option (List Str × List Str × List Key) ⊕ Option Str :=
  match x with
  | .ok (s, root) => .inl (some (s, root.classes.items, root.params.es.map Prod.fst))
  | .error (.classNotFound c) => .inr (some c)
  | .error _ => .inr none

example : exInv.cfg.isClassIgnored "opt.gone".toList = true := by decide
example : exInv.cfg.isClassIgnored "other.gone".toList = false := by decide

/-- `a` includes the ignored `opt.gone`: `a` and `b` are loaded, `opt.gone` is neither seen
nor merged, but it is in the class list. -/
example : summary (renderImpl 20 exInv { classes := ⟨["a".toList]⟩ } [] {}) =
    .inl (some (["a", "b"].map String.toList, ["opt.gone", "b", "a"].map String.toList,
      ["kb", "ka"].map (fun s => Key.str s.toList))) := by decide

/-- A missing class that no pattern matches fails the walk, naming the class … -/
example : summary (walkClasses 20 exInv none ["a".toList, "other.gone".toList, "b".toList] [] {}) =
    .inr (some "other.gone".toList) := by decide

/-- … and so does `opt.gone` once ignoring is switched off. -/
example : summary (walkClasses 20 { exInv with cfg := { ignoreClassNotfound := false, compiled := [.pfx "opt.".toList] } }
    none ["a".toList] [] {}) = .inr (some "opt.gone".toList) := by decide

/-- The catch-all pattern does not make an existing class disappear. -/
example : summary (walkClasses 20 { exInv with cfg := { ignoreClassNotfound := true, compiled := [.any] } }
    none ["b".toList] [] {}) =
    .inl (some (["b"].map String.toList, [], [Key.str "kb".toList])) := by decide

end C16
end Reclass
