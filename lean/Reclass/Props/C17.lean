/-
  C17 — Application lists accumulate in merge order with ~ negation.

  Property theorems only; helper lemmas live in `Lemmas/Lists`.  All statements are about
  the model functions `RList.handleNegation / appendIfNew / merge / ofList`
  (`src/list/removable.rs`), for every list and every entry.
-/
import Reclass.Lemmas.Lists
namespace Reclass
namespace C17

/-- The accumulated list is duplicate-free, pending negations are duplicate-free, and nothing
is both present and pending. -/
def Inv (l : RList) : Prop :=
  l.items.Nodup ∧ l.negs.Nodup ∧ ∀ x, x ∈ l.items → x ∉ l.negs

theorem inv_empty : Inv {} := by simp [Inv]

theorem handleNegation_inv (l : RList) (n : Str) (h : Inv l) : Inv (l.handleNegation n) := by
  obtain ⟨hi, hn, hd⟩ := h
  unfold RList.handleNegation
  by_cases h1 : n ∈ l.items
  · simp only [h1, if_true]
    refine ⟨nodup_removeFirst hi, hn, ?_⟩
    intro x hx
    exact hd x ((mem_removeFirst_of_nodup hi).1 hx).1
  · by_cases h2 : n ∈ l.negs
    · simp only [h1, h2, if_true, if_false]; exact ⟨hi, hn, hd⟩
    · simp only [h1, h2, if_false]
      refine ⟨hi, nodup_append_singleton hn h2, ?_⟩
      intro x hx hmem
      rcases List.mem_append.1 hmem with hm | hm
      · exact hd x hx hm
      · simp at hm; subst hm; exact h1 hx

theorem appendIfNew_inv (l : RList) (x : Str) (h : Inv l) : Inv (l.appendIfNew x) := by
  unfold RList.appendIfNew
  split
  · exact handleNegation_inv l _ h
  · obtain ⟨hi, hn, hd⟩ := h
    by_cases h1 : x ∈ l.negs
    · simp only [h1, if_true]
      refine ⟨hi, nodup_removeFirst hn, ?_⟩
      intro y hy hmem
      exact hd y hy ((mem_removeFirst_of_nodup hn).1 hmem).1
    · by_cases h2 : x ∈ l.items
      · simp only [h1, h2, if_true, if_false]; exact ⟨hi, hn, hd⟩
      · simp only [h1, h2, if_false]
        refine ⟨nodup_append_singleton hi h2, hn, ?_⟩
        intro y hy
        rcases List.mem_append.1 hy with hm | hm
        · exact hd y hm
        · simp at hm; subst hm; exact h1

theorem foldl_handleNegation_inv (ns : List Str) (l : RList) (h : Inv l) :
    Inv (ns.foldl RList.handleNegation l) := by
  induction ns generalizing l with
  | nil => exact h
  | cons n ns ih => exact ih _ (handleNegation_inv l n h)

theorem foldl_appendIfNew_inv (xs : List Str) (l : RList) (h : Inv l) :
    Inv (xs.foldl RList.appendIfNew l) := by
  induction xs generalizing l with
  | nil => exact h
  | cons x xs ih => exact ih _ (appendIfNew_inv l x h)

/-- Every list built from raw entries satisfies the invariant. -/
theorem ofList_inv (xs : List Str) : Inv (RList.ofList xs) :=
  foldl_appendIfNew_inv xs {} inv_empty

/-- Merging any list (well-formed or not) into a well-formed list keeps the invariant. -/
theorem merge_inv (l other : RList) (h : Inv l) : Inv (l.merge other) :=
  foldl_appendIfNew_inv _ _ (foldl_handleNegation_inv _ _ h)

/-- **Invariant for every history**: after merging any sequence of per-file application
lists (any length, any entries) the accumulated list is duplicate-free, the pending
negations are duplicate-free, and the two are disjoint. -/
theorem accumulate_inv (files : List (List Str)) :
    Inv (files.foldl (fun acc f => acc.merge (RList.ofList f)) {}) := by
  suffices ∀ (acc : RList), Inv acc → Inv (files.foldl (fun acc f => acc.merge (RList.ofList f)) acc) from
    this {} inv_empty
  induction files with
  | nil => intro acc h; exact h
  | cons f fs ih => intro acc h; exact ih _ (merge_inv acc _ h)

/-! ### The four-way decision, stated outright -/

/-- `~n` with `n` present erases it (and only it); pending negations are untouched. -/
theorem neg_present (l : RList) (n : Str) (h : Inv l) (hp : n ∈ l.items) :
    (l.appendIfNew ('~' :: n)).items = l.items.filter (fun y => y != n) ∧
    (l.appendIfNew ('~' :: n)).negs = l.negs := by
  simp only [RList.appendIfNew, RList.handleNegation, hp, if_true]
  exact ⟨removeFirst_eq_filter h.1, trivial⟩

/-- `~n` with `n` absent is remembered exactly once. -/
theorem neg_absent (l : RList) (n : Str) (hp : n ∉ l.items) :
    (l.appendIfNew ('~' :: n)).items = l.items ∧
    (l.appendIfNew ('~' :: n)).negs = if n ∈ l.negs then l.negs else l.negs ++ [n] := by
  simp only [RList.appendIfNew, RList.handleNegation, hp, if_false]
  by_cases h2 : n ∈ l.negs <;> simp [h2]

/-- A plain entry that is pending cancels the pending negation and adds nothing. -/
theorem add_pending (l : RList) (x : Str) (h : Inv l) (hx : x.head? ≠ some '~') (hp : x ∈ l.negs) :
    (l.appendIfNew x).items = l.items ∧
    (l.appendIfNew x).negs = l.negs.filter (fun y => y != x) := by
  unfold RList.appendIfNew
  split
  · rename_i n; simp at hx
  · simp only [hp, if_true]
    exact ⟨trivial, removeFirst_eq_filter h.2.1⟩

/-- A plain entry that is not pending is pushed at the end iff it is new. -/
theorem add_plain (l : RList) (x : Str) (hx : x.head? ≠ some '~') (hp : x ∉ l.negs) :
    (l.appendIfNew x).negs = l.negs ∧
    (l.appendIfNew x).items = if x ∈ l.items then l.items else l.items ++ [x] := by
  unfold RList.appendIfNew
  split
  · rename_i n; simp at hx
  · simp only [hp, if_false]
    by_cases h2 : x ∈ l.items <;> simp [h2]

/-- Survivors keep their relative order: what remains of the old items is a sublist of
the old items, for any entry. -/
theorem survivors_keep_order (l : RList) (x : Str) :
    ((l.appendIfNew x).items.filter (fun y => decide (y ∈ l.items))).Sublist l.items := by
  unfold RList.appendIfNew
  split
  · unfold RList.handleNegation
    split
    · exact (List.filter_sublist).trans (removeFirst_sublist _ _)
    · split <;> exact List.filter_sublist
  · split
    · exact List.filter_sublist
    · split
      · exact List.filter_sublist
      · rename_i h2
        simp only [List.filter_append]
        have : List.filter (fun y => decide (y ∈ l.items)) [x] = [] := by simp [h2]
        rw [this, List.append_nil]
        exact List.filter_sublist

/-- A newly added item goes last. -/
theorem new_item_last (l : RList) (x : Str) (hnew : x ∉ l.items)
    (hin : x ∈ (l.appendIfNew x).items) : (l.appendIfNew x).items = l.items ++ [x] := by
  unfold RList.appendIfNew at hin ⊢
  split at hin
  · rename_i n
    unfold RList.handleNegation at hin
    split at hin
    · exact absurd ((removeFirst_sublist _ _).subset hin) hnew
    · split at hin <;> exact absurd hin hnew
  · split at hin
    · exact absurd hin hnew
    · rename_i h1
      simp only [hnew, if_false] at hin ⊢
      simp [h1]

/-- `merge other` = `other`'s pending negations (as negations), then `other`'s items (as
entries), in order. -/
theorem merge_eq (l other : RList) :
    l.merge other = other.items.foldl RList.appendIfNew (other.negs.foldl RList.handleNegation l) := rfl

/-! ### Non-vacuity -/

example : Inv (RList.ofList ["a".toList, "~b".toList, "b".toList, "c".toList]) ∧
    (RList.ofList ["a".toList, "~b".toList, "b".toList, "c".toList]).items = ["a".toList, "c".toList] := by
  constructor
  · exact ofList_inv _
  · decide

example : (({} : RList).merge (RList.ofList ["a".toList, "~b".toList])).merge (RList.ofList ["b".toList, "c".toList, "~a".toList])
    = { items := ["c".toList], negs := [] } := by decide

end C17
end Reclass
