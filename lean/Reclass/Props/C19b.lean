/-
  C19b — C19 END TO END: the parameters that `Reclass::render_node` (model: `renderNode`) returns
  always convert to native Python objects (`Value::as_py_obj` / `Mapping::as_py_dict`, model:
  `toPy`), and faithfully so.

  C19 (`Props/C19`) is about `toPy` on the output of `render_parameters` for *one* well-formed
  mapping.  Composed here with C07b (`renderNode_closed`: the rendered parameters of a node are
  `Closed ∧ WF` through the whole include walk):

    for every inventory whose files decode from YAML with at most one leading `=`/`~` marker per
    key (`InvOK`), the `unreachable!()` of `as_py_obj` (model: `.panic .pyVl`) is dead for the
    parameters of every rendered node; they arrive as a dict; and if all their mapping keys are
    strings (or, more generally, pairwise different in Python) they arrive as exactly the
    specified object `pyOf`.

  The last example shows that the marker hypothesis is needed *end to end*: with a triple-marked
  key in a class file `render_node` succeeds and `as_py_obj` reaches its `unreachable!()`.
-/
import Reclass.Props.C19
import Reclass.Props.C07b
namespace Reclass
namespace C19

/-! ### Totality -/

/-- **C19 end to end (no panic).** The parameters of every node rendered from an `InvOK`
inventory are accepted by `as_py_obj`: the `unreachable!()` on `ValueList` is dead code for
rendered nodes, through the whole include walk and for every fuel. -/
theorem renderNode_toPy_total {fuel : Nat} {r : Inv} {name : Str} {info : NodeInfoM} (hr : InvOK r)
    (h : renderNode fuel r name = .ok info) : ∃ p, toPy info.params.toValue = .ok p :=
  toPy_total_on_closed _ (C07.renderNode_closed hr h).1

/-- The same, negatively: the conversion of a rendered node's parameters never fails, in
particular not with the panic of `as_py_obj`. -/
theorem renderNode_toPy_no_panic {fuel : Nat} {r : Inv} {name : Str} {info : NodeInfoM}
    (hr : InvOK r) (h : renderNode fuel r name = .ok info) (e : Err) :
    toPy info.params.toValue ≠ .error e := by
  obtain ⟨p, hp⟩ := renderNode_toPy_total hr h
  rw [hp]; simp

/-- What arrives is a dict. -/
theorem renderNode_toPy_dict {fuel : Nat} {r : Inv} {name : Str} {info : NodeInfoM} (hr : InvOK r)
    (h : renderNode fuel r name = .ok info) : ∃ d, toPy info.params.toValue = .ok (.dict d) := by
  obtain ⟨p, hp⟩ := renderNode_toPy_total hr h
  obtain ⟨d, hd, _⟩ := (toPy_containers [] info.params.es info.params.ck info.params.ok p).2 hp
  exact ⟨d, hd ▸ hp⟩

/-- `renderNodeSrc` form. -/
theorem renderNodeSrc_toPy_total {fuel : Nat} {r : Inv} {nmeta : MetaM} {src : ClassSrc}
    {info : NodeInfoM} (hr : InvOK r) (hs : SrcOK src)
    (h : renderNodeSrc fuel r nmeta src = .ok info) : ∃ p, toPy info.params.toValue = .ok p :=
  toPy_total_on_closed _ (C07.renderNodeSrc_closed hr hs h).1

/-! ### Faithfulness -/

/-- **C19 end to end (faithful), general form.** If no mapping in the rendered parameters has two
keys that Python identifies (`True == 1`, `False == 0`; `DistinctKeys`), they arrive as exactly
the specified native object `pyOf`: every mapping a dict with all its entries in order, every
sequence a list in order, every scalar the native scalar, at every depth. -/
theorem renderNode_toPy_faithful_of_distinct {fuel : Nat} {r : Inv} {name : Str} {info : NodeInfoM}
    (hr : InvOK r) (h : renderNode fuel r name = .ok info) (hd : DistinctKeys info.params.toValue) :
    toPy info.params.toValue = .ok (pyOf info.params.toValue) :=
  toPy_eq_pyOf _ (C07.renderNode_closed hr h).1 hd

/-- **C19 end to end (faithful), the ordinary case.** If all keys of the rendered parameters are
strings (`StrKeyed`), the rendered parameters arrive as exactly `pyOf` of them — uniqueness of the
keys is not a hypothesis, it is `WF` from C07b. -/
theorem renderNode_toPy_faithful {fuel : Nat} {r : Inv} {name : Str} {info : NodeInfoM}
    (hr : InvOK r) (h : renderNode fuel r name = .ok info) (hs : StrKeyed info.params.toValue) :
    toPy info.params.toValue = .ok (pyOf info.params.toValue) := by
  obtain ⟨hc, hw⟩ := C07.renderNode_closed hr h
  exact toPy_eq_pyOf _ hc (distinctKeys_of_strKeyed _ hw hs)

/-- No entry is lost and the order is kept at the top level: the dict has exactly the keys of the
rendered parameters (converted), in order. -/
theorem renderNode_toPy_keys {fuel : Nat} {r : Inv} {name : Str} {info : NodeInfoM}
    (hr : InvOK r) (h : renderNode fuel r name = .ok info) (hs : StrKeyed info.params.toValue) :
    ∃ d, toPy info.params.toValue = .ok (.dict d) ∧
      d.map Prod.fst = info.params.es.map (fun e => e.1.toPy) := by
  refine ⟨pyOfEs info.params.es, ?_, pyOfEs_keys _⟩
  have := renderNode_toPy_faithful hr h hs
  simpa [Mapping.toValue, pyOf] using this

/-! ### The whole inventory -/

/-- Every node stored in a rendered inventory (results = `renderNode` over the node names of an
`InvOK` inventory, any order) converts to a Python dict. -/
theorem render_inventory_toPy_total {r : Inv} (hr : InvOK r) {fuel : Nat} {names : List Str}
    {inv : InventoryM}
    (h : Inventory.render (names.map fun n => (n, renderNode fuel r n)) = .ok inv) :
    ∀ name info, (name, info) ∈ inv.nodes → ∃ d, toPy info.params.toValue = .ok (.dict d) := by
  intro name info hmem
  have hres := ((C13.nodes_exact h).2 name info).1 hmem
  obtain ⟨n, _, hn⟩ := List.mem_map.1 hres
  simp only [Prod.mk.injEq] at hn
  obtain ⟨rfl, hn⟩ := hn
  exact renderNode_toPy_dict hr hn

/-! ### Non-vacuity -/

mutual
/-- Executable check of `StrKeyed`. -/
def strKeyedB : Value → Bool
  | .map es _ _ => strKeyedEsB es
  | .seq l => strKeyedLB l
  | .vl l => strKeyedLB l
  | _ => true
def strKeyedLB : List Value → Bool
  | [] => true
  | v :: vs => strKeyedB v && strKeyedLB vs
def strKeyedEsB : List (Key × Value) → Bool
  | [] => true
  | (k, v) :: es => (match k with | .str _ => true | _ => false) && strKeyedB v && strKeyedEsB es
end

mutual
theorem strKeyedB_sound : ∀ (v : Value), strKeyedB v = true → StrKeyed v
  | .map es _ _, h => by simp only [strKeyedB] at h; simp only [StrKeyed]; exact strKeyedEsB_sound es h
  | .seq l, h => by simp only [strKeyedB] at h; simp only [StrKeyed]; exact strKeyedLB_sound l h
  | .vl l, h => by simp only [strKeyedB] at h; simp only [StrKeyed]; exact strKeyedLB_sound l h
  | .null, _ => by simp [StrKeyed]
  | .bool _, _ => by simp [StrKeyed]
  | .num _, _ => by simp [StrKeyed]
  | .str _, _ => by simp [StrKeyed]
  | .lit _, _ => by simp [StrKeyed]
theorem strKeyedLB_sound : ∀ (l : List Value), strKeyedLB l = true → StrKeyedL l
  | [], _ => by simp [StrKeyedL]
  | v :: vs, h => by
    simp only [strKeyedLB, Bool.and_eq_true] at h
    exact ⟨strKeyedB_sound v h.1, strKeyedLB_sound vs h.2⟩
theorem strKeyedEsB_sound : ∀ (es : List (Key × Value)), strKeyedEsB es = true → StrKeyedEs es
  | [], _ => by simp [StrKeyedEs]
  | (k, v) :: es, h => by
    simp only [strKeyedEsB, Bool.and_eq_true] at h
    refine ⟨?_, strKeyedB_sound v h.1.2, strKeyedEsB_sound es h.2⟩
    cases k <;> simp_all
end

mutual
/-- Python `repr`-like text of an object (only to check concrete conversions by evaluation). -/
def pyText : PyObj → Str
  | .none => "None".toList
  | .bool true => "True".toList
  | .bool false => "False".toList
  | .int i => (Int.repr i).toList
  | .float t => t
  | .str s => ['\''] ++ s ++ ['\'']
  | .list l => ['['] ++ pyTextL l ++ [']']
  | .dict es => ['{'] ++ pyTextEs es ++ ['}']
def pyTextL : List PyObj → Str
  | [] => []
  | x :: xs => pyText x ++ [','] ++ pyTextL xs
def pyTextEs : List (PyObj × PyObj) → Str
  | [] => []
  | (k, v) :: es => pyText k ++ [':'] ++ pyText v ++ [','] ++ pyTextEs es
end

/-- Text of the Python object a rendered node's parameters convert to. -/
def nodePyText (x : R NodeInfoM) : Option Str :=
  match x with
  | .ok info => (match toPy info.params.toValue with | .ok p => some (pyText p) | .error _ => none)
  | .error _ => none

/-- Node `n1` of the example inventory arrives in Python as the expected dict: entries in merge
order (`base`, `app`, `_reclass_`, the node), layered `a` merged, references resolved, markers
gone, the integer an `int`, `true`/`null` as `True`/`None`. -/
example : nodePyText (renderNode 30 exInvE2E "n1".toList) = some
    ("{'a':{'x':'1','y':2,'z':'n1',},'b':'over',".toList ++
     "'l':['1',True,None,],".toList ++
     "'_reclass_':{'environment':'base',".toList ++
     "'name':{'full':'n1','parts':['n1',],".toList ++
     "'path':'n1','short':'n1',},},'k':'v',}".toList) := by decide +kernel

/-- All keys of the rendered `n1` are strings, so `renderNode_toPy_faithful` applies to it. -/
example : ∃ info, renderNode 30 exInvE2E "n1".toList = .ok info ∧
    toPy info.params.toValue = .ok (pyOf info.params.toValue) := by
  have hk : (match renderNode 30 exInvE2E "n1".toList with
      | .ok info => strKeyedB info.params.toValue
      | .error _ => false) = true := by decide +kernel
  cases h : renderNode 30 exInvE2E "n1".toList with
  | ok info =>
    rw [h] at hk
    exact ⟨info, rfl, renderNode_toPy_faithful exInvE2E_ok h (strKeyedB_sound _ hk)⟩
  | error e => rw [h] at hk; simp at hk

/-- **The marker hypothesis is needed end to end.** For the inventory `C07.exInvTriple` (a class
file with the keys `a` and `===a`) `render_node` succeeds, and converting the rendered parameters
reaches the `unreachable!()` of `as_py_obj`. -/
example : TextL.errOf (renderNode 30 C07.exInvTriple "n".toList) = none ∧
    TextL.errOf (match renderNode 30 C07.exInvTriple "n".toList with
      | .ok info => toPy info.params.toValue
      | .error e => .error e) = some (.panic .pyVl) := by decide +kernel

/-- Python identifies `True` and `1`: with non-string keys the faithful statement needs
`DistinctKeys` (cf. `C19.py_key_collision`); totality does not. -/
example : nodePyText (renderNode 30
    { nodes := [("n".toList, { path := ["n.yml".toList], loc := [] },
        .ok { params := [(.num (.int 1), .str "one".toList), (.bool true, .str "yes".toList)] })] }
    "n".toList) = some
    ("{'_reclass_':{'environment':'base',".toList ++
     "'name':{'full':'n','parts':['n',],".toList ++
     "'path':'n','short':'n',},},1:'yes',}".toList) := by decide +kernel

end C19
end Reclass
