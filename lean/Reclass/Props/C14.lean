/-
  C14 — Every file with extension .yml or .yaml under the classes (nodes) directory defines
  exactly one class (node), named by its relative path with separators turned into dots and
  the extension dropped, X/init.yml naming X; nodes are named by file basename unless
  node-name composition is on, in which case nested paths compose except below directories
  starting with _.  Other files are ignored, and two files yielding the same name are
  rejected with an error naming both.

  Property theorems only; helper lemmas live in `Lemmas/NamingL`.  The statements are about
  `deriveEntity` and `walkEntries` (`walk_entity_dir`, `src/lib.rs`) and the file-name
  functions `fileExtension` / `fileStem` / `stemNoExt` (`Path::extension`, `file_stem`,
  `with_extension("")`).  The directory walk itself is outside the model: an entry is its
  list of path segments below the root (`e.rel = dirs ++ [fname]`) and whether it is a file.
-/
import Reclass.Lemmas.NamingL
namespace Reclass
namespace C14

/-- The two accepted extensions. -/
def YamlExt (ext : Str) : Prop := ext = "yml".toList ∨ ext = "yaml".toList

theorem yamlExt_nodot {ext : Str} (h : YamlExt ext) : ∀ c ∈ ext, c ≠ '.' := by
  rcases h with rfl | rfl <;> decide

theorem yamlExt_isYamlExt {ext : Str} (h : YamlExt ext) : isYamlExt ext = true :=
  (isYamlExt_iff ext).2 h

/-! ### File names -/

/-- `stem.ext` with a non-empty stem and a dot-free `ext` (other than the name `..`) has
extension `ext` and stem `stem`; the stem itself may contain dots (`a.b.yml` has stem `a.b`). -/
theorem name_split (stem ext : Str) (hstem : stem ≠ []) (hext : ∀ c ∈ ext, c ≠ '.')
    (hdd : stem ++ '.' :: ext ≠ ['.', '.']) :
    fileExtension (stem ++ '.' :: ext) = some ext ∧ fileStem (stem ++ '.' :: ext) = stem :=
  ⟨fileExtension_append hstem hext hdd, fileStem_append hstem hext hdd⟩

/-- Conversely a file name has extension `ext` only if it is `stem.ext` with a non-empty
stem and dot-free `ext`: no extension for `foo`, `.yml` (hidden file), `..`. -/
theorem name_split_conv (name ext : Str) (h : fileExtension name = some ext) :
    name = fileStem name ++ '.' :: ext ∧ fileStem name ≠ [] ∧ (∀ c ∈ ext, c ≠ '.') :=
  let ⟨h1, h2, h3, _⟩ := fileExtension_some h
  ⟨h1, h2, h3⟩

/-! ### Which entries define an entity -/

/-- **Other files are ignored**: an entry whose last segment does not have extension `yml`
or `yaml`, or which is not a file, defines nothing. -/
theorem non_yaml_ignored (isNode compose : Bool) (e : DirEntry) (dirs : List Str) (fname : Str)
    (hrel : e.rel = dirs ++ [fname])
    (h : (∀ ext, fileExtension fname = some ext → ¬ YamlExt ext) ∨ e.isFile = false) :
    deriveEntity isNode compose e = none := by
  cases hx : fileExtension fname with
  | none => exact deriveEntity_noext hrel hx
  | some ext =>
    apply deriveEntity_notyaml hrel hx
    rcases h with h | h
    · left
      cases hy : isYamlExt ext with
      | false => rfl
      | true => exact absurd ((isYamlExt_iff ext).1 hy) (h ext hx)
    · exact Or.inr h

/-- The root itself (empty relative path) defines nothing. -/
theorem empty_path_ignored (isNode compose : Bool) (e : DirEntry) (h : e.rel = []) :
    deriveEntity isNode compose e = none :=
  deriveEntity_nil h

/-- **Only YAML files define entities**: whatever is derived comes from a file whose name
is `stem.yml` or `stem.yaml` with a non-empty stem, and the derived information records
the path of that file. -/
theorem entity_only_from_yaml (isNode compose : Bool) (e : DirEntry) (name : Str) (info : EntityInfo)
    (h : deriveEntity isNode compose e = some (name, info)) :
    e.isFile = true ∧ info.path = e.rel ∧
    ∃ dirs stem ext, e.rel = dirs ++ [stem ++ '.' :: ext] ∧ stem ≠ [] ∧ YamlExt ext := by
  obtain ⟨hf, dirs, fname, ext, hrel, hext, hy⟩ := deriveEntity_some_yaml h
  obtain ⟨h1, h2, _, _⟩ := fileExtension_some hext
  refine ⟨hf, deriveEntity_path h, dirs, fileStem fname, ext, ?_, h2, (isYamlExt_iff ext).1 hy⟩
  rw [← h1]; exact hrel

/-- **Every YAML file defines exactly one entity** (general form).  For a file
`dirs/stem.ext` with `ext` one of `yml`/`yaml`, a non-empty stem other than `.`, and no `/`
inside the naming segments: the naming segments are `dirs ++ [stem]`, or `dirs` when the
stem is `init` (`entitySegs`); a node without composition, or below a first segment that
starts with `_`, is named by the last segment alone and located in the root; everything
else is named by the segments joined with dots and located in its directory (the parent
directory for `init` files). -/
theorem derive_general (isNode compose : Bool) (e : DirEntry) (dirs : List Str) (stem ext : Str)
    (hrel : e.rel = dirs ++ [stem ++ '.' :: ext]) (hf : e.isFile = true) (hext : YamlExt ext)
    (hne : stem ≠ []) (hdot : stem ≠ ['.'])
    (hslash : ∀ s ∈ entitySegs dirs stem, ∀ c ∈ s, c ≠ '/') :
    deriveEntity isNode compose e = some (
      if isNode && ((entitySegs dirs stem).head?.bind List.head? = some '_' || !compose) then
        ((entitySegs dirs stem).getLast?.getD [], { path := e.rel, loc := [] })
      else
        (joinWith ['.'] (entitySegs dirs stem), { path := e.rel, loc := entityLoc dirs stem })) := by
  have hnd := yamlExt_nodot hext
  have hst : stemNoExt (stem ++ '.' :: ext) = stem := stemNoExt_append hne hdot hnd
  have hx : fileExtension (stem ++ '.' :: ext) = some ext :=
    fileExtension_append hne hnd (ne_dotdot_of_stem hne hdot)
  have := deriveEntity_yaml (isNode := isNode) (compose := compose) hrel hx (yamlExt_isYamlExt hext) hf
    (by rw [hst]; exact hslash)
  rw [hst] at this
  exact this

/-- **Classes** are named by the relative path with the extension dropped and separators
turned into dots; relative includes of the class resolve against its directory. -/
theorem derive_class_plain (compose : Bool) (e : DirEntry) (dirs : List Str) (stem ext : Str)
    (hrel : e.rel = dirs ++ [stem ++ '.' :: ext]) (hf : e.isFile = true) (hext : YamlExt ext)
    (hne : stem ≠ []) (hdot : stem ≠ ['.']) (hinit : stem ≠ "init".toList)
    (hslash : ∀ s ∈ dirs ++ [stem], ∀ c ∈ s, c ≠ '/') :
    deriveEntity false compose e =
      some (joinWith ['.'] (dirs ++ [stem]), { path := e.rel, loc := dirs }) := by
  have hi : stem ≠ Extracted.initName.toList := hinit
  have := derive_general false compose e dirs stem ext hrel hf hext hne hdot
    (by simpa [entitySegs, hi] using hslash)
  simpa [entitySegs, entityLoc, hi] using this

/-- **`X/init.yml` names `X`**: the file name is dropped, and the includes of that class
resolve against the parent of `X`. -/
theorem derive_class_init (compose : Bool) (e : DirEntry) (dirs : List Str) (ext : Str)
    (hrel : e.rel = dirs ++ ["init".toList ++ '.' :: ext]) (hf : e.isFile = true) (hext : YamlExt ext)
    (hslash : ∀ s ∈ dirs, ∀ c ∈ s, c ≠ '/') :
    deriveEntity false compose e =
      some (joinWith ['.'] dirs, { path := e.rel, loc := dropLast dirs }) := by
  have hi : "init".toList = Extracted.initName.toList := rfl
  have := derive_general false compose e dirs "init".toList ext hrel hf hext (by decide) (by decide)
    (by simpa [entitySegs, hi] using hslash)
  simpa [entitySegs, entityLoc, hi] using this

/-- **Nodes without composition** are named by the file's basename at any depth, and
resolve their includes against the root. -/
theorem derive_node_basename (e : DirEntry) (dirs : List Str) (stem ext : Str)
    (hrel : e.rel = dirs ++ [stem ++ '.' :: ext]) (hf : e.isFile = true) (hext : YamlExt ext)
    (hne : stem ≠ []) (hdot : stem ≠ ['.']) (hinit : stem ≠ "init".toList)
    (hslash : ∀ s ∈ dirs ++ [stem], ∀ c ∈ s, c ≠ '/') :
    deriveEntity true false e = some (stem, { path := e.rel, loc := [] }) := by
  have hi : stem ≠ Extracted.initName.toList := hinit
  have := derive_general true false e dirs stem ext hrel hf hext hne hdot
    (by simpa [entitySegs, hi] using hslash)
  simpa [entitySegs, entityLoc, hi] using this

/-- **Nodes with composition**: when the first path segment does not start with `_`, nested
paths compose — the name is the dotted relative path, exactly as for classes. -/
theorem derive_node_composed (e : DirEntry) (dirs : List Str) (stem ext : Str)
    (hrel : e.rel = dirs ++ [stem ++ '.' :: ext]) (hf : e.isFile = true) (hext : YamlExt ext)
    (hne : stem ≠ []) (hdot : stem ≠ ['.']) (hinit : stem ≠ "init".toList)
    (hslash : ∀ s ∈ dirs ++ [stem], ∀ c ∈ s, c ≠ '/')
    (hfirst : (dirs ++ [stem]).head?.bind List.head? ≠ some '_') :
    deriveEntity true true e =
      some (joinWith ['.'] (dirs ++ [stem]), { path := e.rel, loc := dirs }) := by
  have hi : stem ≠ Extracted.initName.toList := hinit
  have := derive_general true true e dirs stem ext hrel hf hext hne hdot
    (by simpa [entitySegs, hi] using hslash)
  simp only [entitySegs, entityLoc, hi, if_false] at this
  rw [this, decide_eq_false hfirst]
  rfl

/-- **Nodes with composition below a `_`-directory**: when the first path segment starts
with `_`, the node is named by the file's basename alone. -/
theorem derive_node_underscore (e : DirEntry) (dirs : List Str) (stem ext : Str)
    (hrel : e.rel = dirs ++ [stem ++ '.' :: ext]) (hf : e.isFile = true) (hext : YamlExt ext)
    (hne : stem ≠ []) (hdot : stem ≠ ['.']) (hinit : stem ≠ "init".toList)
    (hslash : ∀ s ∈ dirs ++ [stem], ∀ c ∈ s, c ≠ '/')
    (hfirst : (dirs ++ [stem]).head?.bind List.head? = some '_') :
    deriveEntity true true e = some (stem, { path := e.rel, loc := [] }) := by
  have hi : stem ≠ Extracted.initName.toList := hinit
  have := derive_general true true e dirs stem ext hrel hf hext hne hdot
    (by simpa [entitySegs, hi] using hslash)
  simp only [entitySegs, entityLoc, hi, if_false] at this
  rw [this, decide_eq_true hfirst]
  simp

/-! ### The walk: collisions -/

/-- The names derived from a list of entries, in order. -/
def derivedNames (isNode compose : Bool) (entries : List DirEntry) : List Str :=
  (entries.filterMap (deriveEntity isNode compose)).map Prod.fst

/-- **No collision, no error**: if the derived names are pairwise distinct the walk
succeeds, and its result is the list of derived (name, info) pairs in walk order. -/
theorem walk_ok (isNode compose : Bool) (root : Str) (entries : List DirEntry)
    (h : (derivedNames isNode compose entries).Nodup) :
    walkEntries isNode compose root entries [] = .ok (entries.filterMap (deriveEntity isNode compose)) := by
  have := walkEntries_ok_of_nodup isNode compose root entries [] (by simpa [derivedNames] using h)
  simpa using this

/-- **What a successful walk returns**: exactly the derived pairs, each coming from a listed
entry, with pairwise distinct names. -/
theorem walk_lookup (isNode compose : Bool) (root : Str) (entries : List DirEntry)
    (l : List (Str × EntityInfo)) (h : walkEntries isNode compose root entries [] = .ok l) :
    l = entries.filterMap (deriveEntity isNode compose) ∧
    (l.map Prod.fst).Nodup ∧
    (∀ name info, (name, info) ∈ l → ∃ e ∈ entries, deriveEntity isNode compose e = some (name, info)) ∧
    (∀ e ∈ entries, ∀ name info, deriveEntity isNode compose e = some (name, info) → (name, info) ∈ l) := by
  obtain ⟨h1, h2⟩ := walkEntries_ok_inv isNode compose root entries [] l h
  have h1' : l = entries.filterMap (deriveEntity isNode compose) := by simpa using h1
  refine ⟨h1', h2 (by simp), ?_, ?_⟩
  · intro name info hm
    rw [h1'] at hm
    obtain ⟨e, he, hd⟩ := List.mem_filterMap.1 hm
    exact ⟨e, he, hd⟩
  · intro e he name info hd
    rw [h1']
    exact List.mem_filterMap.2 ⟨e, he, hd⟩

/-- **Two files yielding the same name are rejected with an error naming both.**  Every
failure of the walk is a collision: there are two listed entries at different positions,
`e1` before `e2`, deriving the same name `n`; `e2` is the first entry whose name was already
taken (all names up to it are distinct); and the error is `collision n a b` where `a`, `b`
are the full paths of the two files in string order. -/
theorem walk_collision (isNode compose : Bool) (root : Str) (entries : List DirEntry) (err : Err)
    (h : walkEntries isNode compose root entries [] = .error err) :
    ∃ p1 e1 p2 e2 p3 n i1 i2,
      entries = p1 ++ e1 :: (p2 ++ e2 :: p3) ∧
      deriveEntity isNode compose e1 = some (n, i1) ∧
      deriveEntity isNode compose e2 = some (n, i2) ∧
      (derivedNames isNode compose (p1 ++ e1 :: p2)).Nodup ∧
      err = if strLt (pathText root e1.rel) (pathText root e2.rel)
            then .collision n (pathText root e1.rel) (pathText root e2.rel)
            else .collision n (pathText root e2.rel) (pathText root e1.rel) := by
  obtain ⟨pre, e2, post, n, i2, prev, hsplit, hd2, hfind, hnd, herr⟩ :=
    walkEntries_error_inv isNode compose root entries [] err h
  simp only [List.nil_append] at hfind
  obtain ⟨hpn, hpm⟩ := find?_name_some hfind
  obtain ⟨e1, he1, hd1⟩ := List.mem_filterMap.1 hpm
  obtain ⟨p1, p2, hpre⟩ := List.append_of_mem he1
  obtain ⟨pn, i1⟩ := prev
  simp only at hpn; subst hpn
  refine ⟨p1, e1, p2, e2, post, pn, i1, i2, ?_, hd1, hd2, ?_, ?_⟩
  · rw [hsplit, hpre]; simp
  · have := hnd (by simp)
    simpa [derivedNames, hpre] using this
  · rw [herr]
    simp only [deriveEntity_path hd1, deriveEntity_path hd2]

/-- **Exactly when**: the walk fails if and only if two listed entries derive the same name. -/
theorem walk_fails_iff (isNode compose : Bool) (root : Str) (entries : List DirEntry) :
    (∃ err, walkEntries isNode compose root entries [] = .error err) ↔
      ¬ (derivedNames isNode compose entries).Nodup := by
  constructor
  · rintro ⟨err, h⟩ hn
    rw [walk_ok isNode compose root entries hn] at h
    cases h
  · intro hn
    cases h : walkEntries isNode compose root entries [] with
    | error err => exact ⟨err, rfl⟩
    | ok l =>
      obtain ⟨h1, h2, _⟩ := walk_lookup isNode compose root entries l h
      rw [h1] at h2
      exact absurd h2 hn

/-- **Colliding names always produce the collision error** (the converse of `walk_ok`,
combined with `walk_collision`). -/
theorem walk_dup_error (isNode compose : Bool) (root : Str) (entries : List DirEntry)
    (hn : ¬ (derivedNames isNode compose entries).Nodup) :
    ∃ n a b, walkEntries isNode compose root entries [] = .error (.collision n a b) := by
  obtain ⟨err, h⟩ := (walk_fails_iff isNode compose root entries).2 hn
  obtain ⟨p1, e1, p2, e2, p3, n, i1, i2, _, _, _, _, herr⟩ :=
    walk_collision isNode compose root entries err h
  rw [h, herr]
  split
  · exact ⟨_, _, _, rfl⟩
  · exact ⟨_, _, _, rfl⟩

/-- **Walk order does not matter**: for two orders of the same entries, the walk succeeds
for both or fails for both, and on success the two results hold the same pairs. -/
theorem walk_perm_success (isNode compose : Bool) (root : Str) (entries entries' : List DirEntry)
    (hp : entries.Perm entries') :
    ((∃ err, walkEntries isNode compose root entries [] = .error err) ↔
      (∃ err, walkEntries isNode compose root entries' [] = .error err)) ∧
    (∀ l l', walkEntries isNode compose root entries [] = .ok l →
      walkEntries isNode compose root entries' [] = .ok l' → l.Perm l') := by
  have hfm := hp.filterMap (deriveEntity isNode compose)
  constructor
  · rw [walk_fails_iff, walk_fails_iff]
    have := (hfm.map Prod.fst).nodup_iff
    simp only [derivedNames, this]
  · intro l l' h h'
    rw [(walk_lookup isNode compose root entries l h).1, (walk_lookup isNode compose root entries' l' h').1]
    exact hfm

/-! ### Non-vacuity -/

-- classes: d1/c.yml is `d1.c` located in `d1`; d1/init.yml is `d1` located in the root;
-- d1/d2/init.yaml is `d1.d2` located in `d1`
example : deriveEntity false false { rel := ["d1".toList, "c.yml".toList], isFile := true } =
    some ("d1.c".toList, { path := ["d1".toList, "c.yml".toList], loc := ["d1".toList] }) := by decide
example : deriveEntity false false { rel := ["d1".toList, "init.yml".toList], isFile := true } =
    some ("d1".toList, { path := ["d1".toList, "init.yml".toList], loc := [] }) := by decide
example : deriveEntity false false { rel := ["d1".toList, "d2".toList, "init.yaml".toList], isFile := true } =
    some ("d1.d2".toList, { path := ["d1".toList, "d2".toList, "init.yaml".toList], loc := ["d1".toList] }) := by
  decide
-- a stem may contain dots
example : deriveEntity false false { rel := ["a.b.yml".toList], isFile := true } =
    some ("a.b".toList, { path := ["a.b.yml".toList], loc := [] }) := by decide
-- ignored: other extension, hidden file `.yml`, directory named like a YAML file
example : deriveEntity false false { rel := ["d1".toList, "c.txt".toList], isFile := true } = none := by decide
example : deriveEntity false false { rel := [".yml".toList], isFile := true } = none := by decide
example : deriveEntity false false { rel := ["d.yml".toList], isFile := false } = none := by decide
-- nodes: basename without composition, dotted path with composition, basename below `_x`
example : deriveEntity true false { rel := ["d1".toList, "n.yml".toList], isFile := true } =
    some ("n".toList, { path := ["d1".toList, "n.yml".toList], loc := [] }) := by decide
example : deriveEntity true true { rel := ["d1".toList, "n.yml".toList], isFile := true } =
    some ("d1.n".toList, { path := ["d1".toList, "n.yml".toList], loc := ["d1".toList] }) := by decide
example : deriveEntity true true { rel := ["_d1".toList, "n.yml".toList], isFile := true } =
    some ("n".toList, { path := ["_d1".toList, "n.yml".toList], loc := [] }) := by decide

-- why `stem ≠ ['.']` is assumed: `Path::with_extension("")` turns the file `..yml` into `..`
example : deriveEntity false false { rel := ["..yml".toList], isFile := true } =
    some ("..".toList, { path := ["..yml".toList], loc := [] }) := by decide

-- the hypotheses of `derive_class_plain` are satisfiable
example : deriveEntity false false { rel := ["d1".toList] ++ ["c".toList ++ '.' :: "yml".toList], isFile := true } =
    some (joinWith ['.'] (["d1".toList] ++ ["c".toList]),
      { path := ["d1".toList] ++ ["c".toList ++ '.' :: "yml".toList], loc := ["d1".toList] }) :=
  derive_class_plain false _ ["d1".toList] "c".toList "yml".toList rfl rfl (Or.inl rfl)
    (by decide) (by decide) (by decide) (by decide)

-- a collision: c.yml and c.yaml both name class `c`; the error names both files in string order
example : walkEntries false false "/inv/classes".toList
    [{ rel := ["c.yml".toList], isFile := true }, { rel := ["b.yml".toList], isFile := true },
     { rel := ["c.yaml".toList], isFile := true }] [] =
    .error (.collision "c".toList "/inv/classes/c.yaml".toList "/inv/classes/c.yml".toList) := by rfl
-- and a successful walk
example : walkEntries false false "/inv/classes".toList
    [{ rel := ["c.yml".toList], isFile := true }, { rel := ["README".toList], isFile := true },
     { rel := ["d".toList, "init.yml".toList], isFile := true }] [] =
    .ok [("c".toList, { path := ["c.yml".toList], loc := [] }),
         ("d".toList, { path := ["d".toList, "init.yml".toList], loc := [] })] := by rfl

end C14
end Reclass
