/-
  C13c — Node names are data, not list syntax.

  Class and application LISTS of a node are `RemovableList`s / `UniqueList`s in which an entry
  `~x` means "remove `x`" (`RList.appendIfNew`, C17).  The inventory INDEXES
  (`Inventory::render`, `src/inventory.rs`: `entry(k).and_modify(|v| v.push(name))
  .or_insert(vec![name])`, model: `indexPush`) are plain vectors of node names: a node whose
  name happens to start with `~` (or `=`) is pushed literally, like any other node, and never
  removes the node with the stripped name from an entry.

  (An implementation that builds the index entries with the removable-list `append_if_new`
  would, for the node `~web1`, delete `web1` from every entry they share.)

  Property theorems only; helper lemmas are in `Lemmas/InventoryL`, the index theorems being
  instantiated are in `Props/C13`.  All statements are about `Inventory.render` applied to a
  result list of any length in any iteration order, and about `indexPush` / `sortAll` directly.
  All statements are true of the model as asked; nothing had to be weakened.
-/
import Reclass.Props.C13
namespace Reclass
namespace C13

/-! ### 1. One push: literal, and nothing is removed -/

/-- A name is never equal to itself with a marker character put in front. -/
theorem ne_marker_cons (m : Char) (x : Str) : x ≠ m :: x := by
  intro h
  have := congrArg List.length h
  simp at this

/-- **`indexPush` appends the name literally**, whatever its first character: the entry of the
pushed key is the old entry followed by the name itself; other entries are unchanged. -/
theorem indexPush_literal (k k' name : Str) (ix : List (Str × List Str)) :
    ixLookup k (indexPush k name ix) = ixLookup k ix ++ [name] ∧
    (k ≠ k' → ixLookup k' (indexPush k name ix) = ixLookup k' ix) :=
  ⟨ixLookup_indexPush_self k name ix, fun h => ixLookup_indexPush_ne name ix h⟩

/-- **A push never removes anybody**: every name listed under any key before the push — in
particular `x` when the pushed name is `~x` — is still listed afterwards. -/
theorem indexPush_keeps_members (k k' name n : Str) (ix : List (Str × List Str))
    (h : n ∈ ixLookup k' ix) : n ∈ ixLookup k' (indexPush k name ix) := by
  rw [ixLookup_indexPush]; exact List.mem_append_left _ h

/-- Exact membership after a push. -/
theorem mem_indexPush_iff (k k' name n : Str) (ix : List (Str × List Str)) :
    n ∈ ixLookup k' (indexPush k name ix) ↔ n ∈ ixLookup k' ix ∨ (k = k' ∧ n = name) := by
  rw [ixLookup_indexPush]
  by_cases hk : k = k' <;> simp [hk]

/-- Pushing `~x` (or `=x`, or `x` with any character in front) leaves the membership of `x`
itself exactly as it was: not removed, not added. -/
theorem indexPush_marker_name_keeps_plain (m : Char) (k k' x : Str) (ix : List (Str × List Str)) :
    x ∈ ixLookup k' (indexPush k (m :: x) ix) ↔ x ∈ ixLookup k' ix := by
  rw [mem_indexPush_iff]
  constructor
  · rintro (h | ⟨_, h⟩)
    · exact h
    · exact absurd h (ne_marker_cons m x)
  · exact Or.inl

/-- The re-sort after each node keeps every entry's members. -/
theorem sortAll_keeps_members (k n : Str) (ix : List (Str × List Str)) :
    n ∈ ixLookup k (sortAll ix) ↔ n ∈ ixLookup k ix := by
  rw [ixLookup_sortAll, mem_sortStrs]

/-! ### 2. The rendered inventory: a `~`-named node is indexed like any other -/

/-- **Every node is listed under each of its classes and applications under its own, literal
name** (instance of `class_index_inverse` / `app_index_inverse`), and is stored under that
name in the node map. -/
theorem index_contains_node {results : List (Str × R NodeInfoM)} {inv : InventoryM}
    (h : Inventory.render results = .ok inv) {n : Str} {info : NodeInfoM}
    (hn : (n, .ok info) ∈ results) :
    (∀ c ∈ info.classes, n ∈ ixLookup c inv.classes) ∧
    (∀ a ∈ info.apps, n ∈ ixLookup a inv.apps) ∧
    (n, info) ∈ inv.nodes :=
  ⟨fun c hc => (class_index_inverse h c n).2 ⟨info, hn, hc⟩,
   fun a ha => (app_index_inverse h a n).2 ⟨info, hn, ha⟩,
   ((nodes_exact h).2 n info).2 hn⟩

/-- **A node whose name starts with `~` or `=` appears in the index entry of each of its
classes and applications**, under the full name including the marker character.  (`m` is the
first character of the name — `'~'`, `'='`, or anything else: the statement does not depend on
it, which is the point.) -/
theorem index_contains_tilde_names {results : List (Str × R NodeInfoM)} {inv : InventoryM}
    (h : Inventory.render results = .ok inv) (m : Char) {x : Str} {info : NodeInfoM}
    (hn : (m :: x, .ok info) ∈ results) :
    (∀ c ∈ info.classes, (m :: x) ∈ ixLookup c inv.classes) ∧
    (∀ a ∈ info.apps, (m :: x) ∈ ixLookup a inv.apps) ∧
    (m :: x, info) ∈ inv.nodes :=
  index_contains_node h hn

/-- The two named instances. -/
theorem index_contains_tilde_and_const_names {results : List (Str × R NodeInfoM)}
    {inv : InventoryM} (h : Inventory.render results = .ok inv) {x : Str} {info : NodeInfoM} :
    ((('~' :: x), .ok info) ∈ results →
      (∀ c ∈ info.classes, ('~' :: x) ∈ ixLookup c inv.classes) ∧
      (∀ a ∈ info.apps, ('~' :: x) ∈ ixLookup a inv.apps)) ∧
    ((('=' :: x), .ok info) ∈ results →
      (∀ c ∈ info.classes, ('=' :: x) ∈ ixLookup c inv.classes) ∧
      (∀ a ∈ info.apps, ('=' :: x) ∈ ixLookup a inv.apps)) :=
  ⟨fun hn => ⟨(index_contains_tilde_names h '~' hn).1, (index_contains_tilde_names h '~' hn).2.1⟩,
   fun hn => ⟨(index_contains_tilde_names h '=' hn).1, (index_contains_tilde_names h '=' hn).2.1⟩⟩

/-- The marker is not stripped either: the stripped name `x` is listed under a class only on
account of a node that is really called `x`. -/
theorem stripped_name_not_listed {results : List (Str × R NodeInfoM)} {inv : InventoryM}
    (h : Inventory.render results = .ok inv) {x : Str}
    (hx : ∀ info, (x, .ok info) ∉ results) (k : Str) :
    x ∉ ixLookup k inv.classes ∧ x ∉ ixLookup k inv.apps :=
  ⟨fun hm => by obtain ⟨i, hi, _⟩ := (class_index_inverse h k x).1 hm; exact hx i hi,
   fun hm => by obtain ⟨i, hi, _⟩ := (app_index_inverse h k x).1 hm; exact hx i hi⟩

/-! ### 3. Adding a node never removes another node from any entry -/

/-- Adding a successfully rendered node to a result list that renders gives a result list that
renders. -/
theorem adding_node_renders {pre post : List (Str × R NodeInfoM)} {inv : InventoryM}
    (h : Inventory.render (pre ++ post) = .ok inv) (nm : Str) (info : NodeInfoM) :
    ∃ inv', Inventory.render (pre ++ (nm, .ok info) :: post) = .ok inv' := by
  apply succeeds_of_all_nodes_succeed
  intro p hp e he
  have hall : ¬ ∃ p ∈ pre ++ post, ∃ e, p.2 = .error e := by
    intro hex
    obtain ⟨e', he'⟩ := (fails_iff_some_node_fails _).2 hex
    rw [h] at he'; cases he'
  rcases List.mem_append.1 hp with hp | hp
  · exact hall ⟨p, List.mem_append_left _ hp, e, he⟩
  · rcases List.mem_cons.1 hp with rfl | hp
    · cases he
    · exact hall ⟨p, List.mem_append_right _ hp, e, he⟩

private theorem mem_insert_ok {pre post : List (Str × R NodeInfoM)} {nm n : Str}
    {info i : NodeInfoM} :
    (n, Except.ok i) ∈ pre ++ (nm, .ok info) :: post ↔
      (n, Except.ok i) ∈ pre ++ post ∨ (n = nm ∧ i = info) := by
  simp only [List.mem_append, List.mem_cons, Prod.mk.injEq, Except.ok.injEq]
  constructor
  · rintro (h | h | h)
    · exact Or.inl (Or.inl h)
    · exact Or.inr h
    · exact Or.inl (Or.inr h)
  · rintro ((h | h) | h)
    · exact Or.inl h
    · exact Or.inr (Or.inr h)
    · exact Or.inr (Or.inl h)

/-- **Exact effect of an added node on every index entry.**  `inv` is the inventory without,
`inv'` the inventory with the node `nm` (inserted at any position of the iteration order).
A name `n` is listed under `k` in `inv'` iff it was listed in `inv`, or it is the new node and
the new node has `k`. -/
theorem adding_node_index_exact {pre post : List (Str × R NodeInfoM)} {nm : Str}
    {info : NodeInfoM} {inv inv' : InventoryM}
    (h : Inventory.render (pre ++ post) = .ok inv)
    (h' : Inventory.render (pre ++ (nm, .ok info) :: post) = .ok inv') (k n : Str) :
    (n ∈ ixLookup k inv'.classes ↔ n ∈ ixLookup k inv.classes ∨ (n = nm ∧ k ∈ info.classes)) ∧
    (n ∈ ixLookup k inv'.apps ↔ n ∈ ixLookup k inv.apps ∨ (n = nm ∧ k ∈ info.apps)) := by
  rw [class_index_inverse h', class_index_inverse h, app_index_inverse h', app_index_inverse h]
  constructor
  · constructor
    · rintro ⟨i, hi, hk⟩
      rcases mem_insert_ok.1 hi with hi | ⟨rfl, rfl⟩
      · exact Or.inl ⟨i, hi, hk⟩
      · exact Or.inr ⟨rfl, hk⟩
    · rintro (⟨i, hi, hk⟩ | ⟨rfl, hk⟩)
      · exact ⟨i, mem_insert_ok.2 (Or.inl hi), hk⟩
      · exact ⟨info, mem_insert_ok.2 (Or.inr ⟨rfl, rfl⟩), hk⟩
  · constructor
    · rintro ⟨i, hi, hk⟩
      rcases mem_insert_ok.1 hi with hi | ⟨rfl, rfl⟩
      · exact Or.inl ⟨i, hi, hk⟩
      · exact Or.inr ⟨rfl, hk⟩
    · rintro (⟨i, hi, hk⟩ | ⟨rfl, hk⟩)
      · exact ⟨i, mem_insert_ok.2 (Or.inl hi), hk⟩
      · exact ⟨info, mem_insert_ok.2 (Or.inr ⟨rfl, rfl⟩), hk⟩

/-- **Adding a node never removes a node from any entry** (any name, any position). -/
theorem adding_node_keeps_members {pre post : List (Str × R NodeInfoM)} {nm : Str}
    {info : NodeInfoM} {inv inv' : InventoryM}
    (h : Inventory.render (pre ++ post) = .ok inv)
    (h' : Inventory.render (pre ++ (nm, .ok info) :: post) = .ok inv') (k n : Str) :
    (n ∈ ixLookup k inv.classes → n ∈ ixLookup k inv'.classes) ∧
    (n ∈ ixLookup k inv.apps → n ∈ ixLookup k inv'.apps) :=
  ⟨fun hm => ((adding_node_index_exact h h' k n).1).2 (Or.inl hm),
   fun hm => ((adding_node_index_exact h h' k n).2).2 (Or.inl hm)⟩

/-- **Adding the node `~x` (or `=x`) does not touch `x`**: under every class and every
application, `x` is listed afterwards iff it was listed before. -/
theorem adding_tilde_node_keeps_plain {pre post : List (Str × R NodeInfoM)} (m : Char) {x : Str}
    {info : NodeInfoM} {inv inv' : InventoryM}
    (h : Inventory.render (pre ++ post) = .ok inv)
    (h' : Inventory.render (pre ++ (m :: x, .ok info) :: post) = .ok inv') (k : Str) :
    (x ∈ ixLookup k inv'.classes ↔ x ∈ ixLookup k inv.classes) ∧
    (x ∈ ixLookup k inv'.apps ↔ x ∈ ixLookup k inv.apps) := by
  obtain ⟨hc, ha⟩ := adding_node_index_exact h h' k x
  constructor
  · rw [hc]
    exact ⟨fun hh => hh.elim id (fun hh => absurd hh.1 (ne_marker_cons m x)), Or.inl⟩
  · rw [ha]
    exact ⟨fun hh => hh.elim id (fun hh => absurd hh.1 (ne_marker_cons m x)), Or.inl⟩

private theorem occ_insert (g : NodeInfoM → List Str) (k : Str) (A B : List (Str × NodeInfoM))
    (p : Str × NodeInfoM) :
    occ g k (A ++ p :: B) = occ g k A ++ (List.replicate ((g p.2).count k) p.1 ++ occ g k B) := by
  simp [occ, List.flatMap_append, List.flatMap_cons]

private theorem occ_append (g : NodeInfoM → List Str) (k : Str) (A B : List (Str × NodeInfoM)) :
    occ g k (A ++ B) = occ g k A ++ occ g k B := by
  simp [occ, List.flatMap_append]

private theorem ixFold_insert_perm (g : NodeInfoM → List Str) (k : Str)
    (A B : List (Str × NodeInfoM)) (p : Str × NodeInfoM) :
    (ixLookup k (ixFold g (A ++ p :: B) [])).Perm
      (ixLookup k (ixFold g (A ++ B) []) ++ List.replicate ((g p.2).count k) p.1) := by
  rw [ixLookup_ixFold_eq, ixLookup_ixFold_eq, occ_insert, occ_append]
  have p1 := sortStrs_perm (occ g k A ++ (List.replicate ((g p.2).count k) p.1 ++ occ g k B))
  have p2 : (occ g k A ++ (List.replicate ((g p.2).count k) p.1 ++ occ g k B)).Perm
      ((occ g k A ++ occ g k B) ++ List.replicate ((g p.2).count k) p.1) := by
    rw [List.append_assoc]
    exact List.Perm.append_left _ List.perm_append_comm
  have p3 := ((sortStrs_perm (occ g k A ++ occ g k B)).symm).append_right
    (List.replicate ((g p.2).count k) p.1)
  exact p1.trans (p2.trans p3)

/-- With multiplicities: each entry of the bigger inventory is, up to order, the entry of the
smaller one plus one copy of the new node's name per occurrence of the key in its list — no
other name gains or loses an occurrence.  (Both entries are sorted, `lists_sorted_nodup`.) -/
theorem adding_node_entry_perm {pre post : List (Str × R NodeInfoM)} {nm : Str}
    {info : NodeInfoM} {inv inv' : InventoryM}
    (h : Inventory.render (pre ++ post) = .ok inv)
    (h' : Inventory.render (pre ++ (nm, .ok info) :: post) = .ok inv') (k : Str) :
    (ixLookup k inv'.classes).Perm
      (ixLookup k inv.classes ++ List.replicate (info.classes.count k) nm) ∧
    (ixLookup k inv'.apps).Perm
      (ixLookup k inv.apps ++ List.replicate (info.apps.count k) nm) := by
  obtain ⟨infos, _, hi, _, hc, ha⟩ := render_ok_inv h
  obtain ⟨infos', _, hi', _, hc', ha'⟩ := render_ok_inv h'
  have e : infos = pre.filterMap getOk ++ post.filterMap getOk := by
    rw [hi, List.filterMap_append]
  have e' : infos' = pre.filterMap getOk ++ (nm, info) :: post.filterMap getOk := by
    rw [hi', List.filterMap_append, List.filterMap_cons]; rfl
  rw [hc, ha, hc', ha', e, e']
  exact ⟨ixFold_insert_perm (·.classes) k _ _ (nm, info),
         ixFold_insert_perm (·.apps) k _ _ (nm, info)⟩

/-! ### Non-vacuity: `web1` and `~web1` sharing an application -/

section Examples

private def S (s : String) : Str := s.toList

private def web : NodeInfoM :=
  { nmeta := {}, apps := [S "nginx"], classes := [S "base"], params := {} }
private def tildeWeb : NodeInfoM :=
  { nmeta := {}, apps := [S "nginx", S "backup"], classes := [S "base"], params := {} }

private def appsOf' (r : R InventoryM) : List (Str × List Str) :=
  match r with | .ok inv => inv.apps | .error _ => []
private def classesOf' (r : R InventoryM) : List (Str × List Str) :=
  match r with | .ok inv => inv.classes | .error _ => []
private def namesOf' (r : R InventoryM) : List Str :=
  match r with | .ok inv => inv.nodes.map Prod.fst | .error _ => []

/-- Both nodes are listed under the shared application `nginx` (sorted: `w` < `~`); `~web1`
alone under `backup`; `web1` has not been removed from anything. -/
example : appsOf' (Inventory.render [(S "web1", .ok web), (S "~web1", .ok tildeWeb)]) =
    [(S "nginx", [S "web1", S "~web1"]), (S "backup", [S "~web1"])] := by
  simp only [Inventory.render, Inventory.collect, sortAll, sortStrs_eq_insSort, appsOf']
  decide +kernel

/-- The other iteration order gives the same entries (keys in first-seen order). -/
example : appsOf' (Inventory.render [(S "~web1", .ok tildeWeb), (S "web1", .ok web)]) =
    [(S "nginx", [S "web1", S "~web1"]), (S "backup", [S "~web1"])] := by
  simp only [Inventory.render, Inventory.collect, sortAll, sortStrs_eq_insSort, appsOf']
  decide +kernel

example : classesOf' (Inventory.render [(S "web1", .ok web), (S "~web1", .ok tildeWeb)]) =
    [(S "base", [S "web1", S "~web1"])] := by
  simp only [Inventory.render, Inventory.collect, sortAll, sortStrs_eq_insSort, classesOf']
  decide +kernel

example : namesOf' (Inventory.render [(S "web1", .ok web), (S "~web1", .ok tildeWeb)]) =
    [S "web1", S "~web1"] := by
  decide +kernel

/-- A `=`-named node as well (`=` sorts before letters). -/
example : appsOf' (Inventory.render
    [(S "web1", .ok web), (S "=web1", .ok web), (S "~web1", .ok web)]) =
    [(S "nginx", [S "=web1", S "web1", S "~web1"])] := by
  simp only [Inventory.render, Inventory.collect, sortAll, sortStrs_eq_insSort, appsOf']
  decide +kernel

/-- Without the `~web1` node: the entry it is added to. -/
example : appsOf' (Inventory.render [(S "web1", .ok web)]) = [(S "nginx", [S "web1"])] := by
  decide +kernel

/-- The single push, literally. -/
example : indexPush (S "nginx") (S "~web1") [(S "nginx", [S "web1"])] =
    [(S "nginx", [S "web1", S "~web1"])] := by decide +kernel

/-- Contrast — this is what the removable LIST does with the same two strings (C17): `~web1`
removes `web1`.  The index must not behave like this. -/
example : (RList.ofList [S "web1", S "~web1"]).items = [] := by decide +kernel

/-- The theorems applied to the concrete inventory. -/
example (inv inv' : InventoryM)
    (h : Inventory.render ([(S "web1", .ok web)] ++ []) = .ok inv)
    (h' : Inventory.render ([(S "web1", .ok web)] ++ (S "~web1", .ok tildeWeb) :: []) = .ok inv') :
    S "~web1" ∈ ixLookup (S "nginx") inv'.apps ∧ S "web1" ∈ ixLookup (S "nginx") inv'.apps := by
  have hweb : S "web1" ∈ ixLookup (S "nginx") inv.apps :=
    (index_contains_node h (n := S "web1") (info := web) (by simp)).2.1 _ (by decide +kernel)
  refine ⟨?_, ((adding_tilde_node_keeps_plain '~' (x := S "web1") h h' (S "nginx")).2).2 hweb⟩
  exact (index_contains_tilde_names h' '~' (x := S "web1") (info := tildeWeb)
    (by simp [S])).2.1 _ (by decide +kernel)

end Examples

end C13
end Reclass
