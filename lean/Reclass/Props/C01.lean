/-
  C01 — Class loading order (`Node::render_impl`, `Node::render`; model: `renderImpl`,
  `walkClasses`, `renderNodeSrc` in `Model/Node`).

  "For every inventory, a node's rendered parameters, class list and application list are
  exactly what results from walking its include list depth-first (a class's own includes
  before the class itself), merging each class the first time it is reached and never again,
  and merging the node's own definitions last.  An include entry that contains references is
  resolved against the parameters merged from the classes that precede it and loads exactly
  the one class it resolves to."

  Property theorems only.  The specification vocabulary is in `Spec/Walk`:
  * `walkClassesT` / `renderImplT` — the model's walk instrumented with the merge trace
    (erasing the trace gives the model functions back: `instrumented_is_model`);
  * `Walk` — the same walk as a fuel-free big-step relation (`walk_sound`, `walk_complete`);
  * `Dfs` / `dfs` — depth-first post-order traversal of an explicit graph; `graphOf`;
  * `mergeSeq` — merging a list of classes in order.
  Helper lemmas are in `Lemmas/WalkL`.
-/
import Reclass.Lemmas.WalkL
namespace Reclass
namespace C01

/-! ### The instrumented walk is the model's walk -/

/-- Forgetting the trace of the instrumented walk gives exactly the model functions, for every
amount of fuel and every input: theorems about `renderImplT` / `walkClassesT` are theorems
about `renderImpl` / `walkClasses`. -/
theorem instrumented_is_model (n : Nat) (r : Inv) :
    (∀ self seen root, eraseTrace (renderImplT n r self seen root) = renderImpl n r self seen root) ∧
    (∀ loc l seen root, eraseTrace (walkClassesT n r loc l seen root) = walkClasses n r loc l seen root) :=
  ⟨fun self seen root => renderImplT_erase n r self seen root,
   fun loc l seen root => walkClassesT_erase n r loc l seen root⟩

/-- Every successful run of the (instrumented) model walk is a derivation of the big-step
specification `Walk`. -/
theorem walk_sound {n : Nat} {r : Inv} {loc : Option (List Str)} {l seen : List Str} {root : NodeM}
    {seen' : List Str} {root' : NodeM} {tr : List TraceEntry}
    (h : walkClassesT n r loc l seen root = .ok (seen', root', tr)) :
    Walk r loc l seen root seen' root' tr :=
  walkClassesT_sound h

/-- Conversely every derivation of `Walk` is realised by the model with enough fuel, and then
with every larger amount. -/
theorem walk_complete {r : Inv} {loc : Option (List Str)} {l seen : List Str} {root : NodeM}
    {seen' : List Str} {root' : NodeM} {tr : List TraceEntry}
    (h : Walk r loc l seen root seen' root' tr) :
    ∃ n, ∀ m, n ≤ m → walkClassesT m r loc l seen root = .ok (seen', root', tr) ∧
      walkClasses m r loc l seen root = .ok (seen', root') := by
  obtain ⟨n, hn⟩ := h.complete
  refine ⟨n, fun m hm => ?_⟩
  have := walkClassesT_mono_le hm hn (by simp)
  exact ⟨this, walkClasses_ok_iff.2 ⟨tr, this⟩⟩

/-- The walk is a function: inputs determine `seen'`, `root'` and the trace. -/
theorem walk_deterministic {r : Inv} {loc : Option (List Str)} {l seen : List Str} {root : NodeM}
    {s1 s2 : List Str} {r1 r2 : NodeM} {t1 t2 : List TraceEntry}
    (h1 : Walk r loc l seen root s1 r1 t1) (h2 : Walk r loc l seen root s2 r2 t2) :
    s1 = s2 ∧ r1 = r2 ∧ t1 = t2 :=
  h1.det h2

/-! ### 1. `seen` only grows -/

/-- `renderImpl` only ever appends to the list of classes seen. -/
theorem seen_monotone {n : Nat} {r : Inv} {self : NodeM} {seen : List Str} {root : NodeM}
    {seen' : List Str} {root' : NodeM} (h : renderImpl n r self seen root = .ok (seen', root')) :
    ∃ ext, seen' = seen ++ ext := by
  obtain ⟨tr, ht⟩ := renderImpl_ok_iff.1 h
  obtain ⟨root1, hw, _⟩ := renderImplT_sound ht
  obtain ⟨ext, he, _⟩ := hw.seen_ext
  exact ⟨ext, he⟩

/-- `walkClasses` only ever appends to the list of classes seen. -/
theorem seen_monotone_walk {n : Nat} {r : Inv} {loc : Option (List Str)} {l seen : List Str} {root : NodeM}
    {seen' : List Str} {root' : NodeM} (h : walkClasses n r loc l seen root = .ok (seen', root')) :
    ∃ ext, seen' = seen ++ ext := by
  obtain ⟨tr, ht⟩ := walkClasses_ok_iff.1 h
  obtain ⟨ext, he, _⟩ := (walkClassesT_sound ht).seen_ext
  exact ⟨ext, he⟩

/-! ### 2. Each class is merged the first time it is reached and never again -/

/-- Starting from any duplicate-free `seen`: the names merged by a walk are pairwise distinct,
none of them had been seen before, `seen` stays duplicate-free, and what was appended to `seen`
is a permutation of the merged names (`seen` is the order of *entering*, the trace the order
of *merging*). -/
theorem each_class_once_from {n : Nat} {r : Inv} {loc : Option (List Str)} {l seen : List Str} {root : NodeM}
    {seen' : List Str} {root' : NodeM} {tr : List TraceEntry}
    (h : walkClassesT n r loc l seen root = .ok (seen', root', tr)) (hn : seen.Nodup) :
    (tr.map Prod.fst).Nodup ∧ (∀ x ∈ tr.map Prod.fst, x ∉ seen) ∧ seen'.Nodup ∧
    ∃ ext, seen' = seen ++ ext ∧ ext.Perm (tr.map Prod.fst) := by
  have hw := walkClassesT_sound h
  exact ⟨(hw.trace_nodup hn).1, (hw.trace_nodup hn).2, hw.seen_nodup hn, hw.seen_ext⟩

/-- Started with nothing seen (as `renderNodeSrc` does): the trace has no duplicates, a name
is traced iff it ends up in `seen`, and every name in the final `seen` was merged exactly once. -/
theorem each_class_once {n : Nat} {r : Inv} {loc : Option (List Str)} {l : List Str} {root : NodeM}
    {seen' : List Str} {root' : NodeM} {tr : List TraceEntry}
    (h : walkClassesT n r loc l [] root = .ok (seen', root', tr)) :
    (tr.map Prod.fst).Nodup ∧ (∀ x, x ∈ tr.map Prod.fst ↔ x ∈ seen') ∧
    (∀ x ∈ seen', (tr.map Prod.fst).count x = 1) ∧ seen'.Perm (tr.map Prod.fst) := by
  obtain ⟨hnd, _, _, ext, he, hp⟩ := each_class_once_from h List.nodup_nil
  simp only [List.nil_append] at he
  subst he
  refine ⟨hnd, fun x => hp.mem_iff.symm, ?_, hp⟩
  intro x hx
  have h1 := List.nodup_iff_count.1 hnd x
  have h2 := List.count_pos_iff.2 (hp.mem_iff.1 hx)
  omega

/-! ### 3. Depth-first, a class's own includes before the class itself -/

/-- Walking a class = walking its include list, then merging the class. -/
theorem class_after_its_includes {n : Nat} {r : Inv} {cn : NodeM} {seen : List Str} {root : NodeM}
    {seen' : List Str} {root' : NodeM} {tr : List TraceEntry}
    (h : renderImplT (n+1) r cn seen root = .ok (seen', root', tr)) :
    ∃ root1, walkClassesT n r cn.loc cn.classes.items seen root = .ok (seen', root1, tr) ∧
      mergeInto cn root1 = .ok root' := by
  rw [renderImplT_succ] at h
  cases h1 : walkClassesT n r cn.loc cn.classes.items seen root with
  | error e => simp [h1] at h
  | ok x =>
    obtain ⟨s, root1, tr1⟩ := x
    simp only [h1] at h
    cases h2 : mergeInto cn root1 with
    | error e => simp [h2] at h
    | ok root2 =>
      simp only [h2, Except.ok.injEq, Prod.mk.injEq] at h
      obtain ⟨rfl, rfl, rfl⟩ := h
      exact ⟨root1, rfl, h2⟩

/-- When an entry loads class `c`, the trace of the walk is: whatever `c`'s own includes
merged (`tr1`), then `c`, then whatever the later siblings merged (`tr2`) — and the siblings
are walked with the `seen` list and accumulator that `c`'s walk left behind. -/
theorem includes_before_class {n : Nat} {r : Inv} {loc : Option (List Str)} {cls c : Str}
    {rest seen : List Str} {root : NodeM} {cn : NodeM}
    {seen' : List Str} {root' : NodeM} {tr : List TraceEntry}
    (h : walkClassesT (n+1) r loc (cls :: rest) seen root = .ok (seen', root', tr))
    (h1 : resolveClassName defaultFuel root.params cls = .ok c) (hs : c ∉ seen)
    (h2 : readClass r loc c = .ok (some cn)) :
    ∃ seen1 root1 tr1 tr2,
      renderImplT n r cn (seen ++ [c]) root = .ok (seen1, root1, tr1) ∧
      walkClassesT n r loc rest seen1 root1 = .ok (seen', root', tr2) ∧
      tr = tr1 ++ (c, cn) :: tr2 := by
  rw [walkClassesT_cons] at h
  simp only [h1, hs, if_false, h2] at h
  cases h3 : renderImplT n r cn (seen ++ [c]) root with
  | error e => simp [h3] at h
  | ok x =>
    obtain ⟨s1, root1, tr1⟩ := x
    simp only [h3] at h
    cases h4 : walkClassesT n r loc rest s1 root1 with
    | error e => simp [h4] at h
    | ok y =>
      obtain ⟨s2, root2, tr2⟩ := y
      simp only [h4, Except.ok.injEq, Prod.mk.injEq] at h
      obtain ⟨rfl, rfl, rfl⟩ := h
      exact ⟨s1, root1, tr1, tr2, rfl, h4, rfl⟩

/-- The same as an order statement on names: everything merged on behalf of `c`'s includes
comes before `c`, and `c` before everything merged on behalf of later siblings. -/
theorem includes_before_class_order {tr1 tr2 : List TraceEntry} {c : Str} {cn : NodeM}
    {x z : Str} (hx : x ∈ tr1.map Prod.fst) (hz : z ∈ tr2.map Prod.fst) :
    [x, c, z].Sublist ((tr1 ++ (c, cn) :: tr2).map Prod.fst) := by
  simp only [List.map_append, List.map_cons]
  have h1 : [x].Sublist (tr1.map Prod.fst) := List.singleton_sublist.2 hx
  have h2 : [z].Sublist (tr2.map Prod.fst) := List.singleton_sublist.2 hz
  exact h1.append (h2.cons_cons c)

/-! ### 4. The node's own definitions are merged last -/

/-- `renderNodeSrc` unfolded: the class walk runs over a base node that carries the node's
include list and the `_reclass_` parameter; the node's own parameters, applications and
classes are merged into the result of that walk afterwards, i.e. after every class; the
merged parameters are then rendered. -/
theorem node_merged_last {fuel : Nat} {r : Inv} {nmeta : MetaM} {src : ClassSrc} {info : NodeInfoM}
    (h : renderNodeSrc fuel r nmeta src = .ok info) :
    ∃ self rc bp seen root p,
      NodeM.ofSrc none src = .ok self ∧ nmeta.asReclass r.cfg = .ok rc ∧
      ({} : Mapping).insert (.str Extracted.reclassKey.toList) rc.toValue = .ok bp ∧
      renderImpl fuel r { classes := self.classes, params := bp } [] {} = .ok (seen, root) ∧
      root.params.merge self.params = .ok p ∧
      renderParamsF defaultFuel p = .ok info.params ∧
      info.apps = (root.apps.merge self.apps).items ∧
      info.classes = (root.classes.merge self.classes).items ∧
      info.nmeta = nmeta := by
  obtain ⟨self, rc, bp, seen, root, fin, e1, e2, e3, e4, e5, e6, e7, e8, e9⟩ := renderNodeSrc_ok h
  obtain ⟨m1, m2, m3, _⟩ := mergeInto_ok e5
  exact ⟨self, rc, bp, seen, root, fin.params, e1, e2, e3, e4, m1, e6, by rw [e7, m2], by rw [e8, m3], e9⟩

/-! ### 5. An entry is resolved once, against the parameters accumulated so far -/

/-- One step of the loop: the entry `cls` is resolved against `root.params` — the parameters
merged from the classes that precede it — to a single name `c`; then either `c` has been
seen (skip), or `readClass` is asked for exactly `c`: error, missing-and-ignored (skip), or the
one class `cn`, which is walked with `c` marked as seen before the remaining entries. -/
theorem entry_resolves_once (n : Nat) (r : Inv) (loc : Option (List Str)) (cls : Str) (rest seen : List Str)
    (root : NodeM) :
    walkClasses (n+1) r loc (cls :: rest) seen root =
      match resolveClassName defaultFuel root.params cls with
      | .error e => .error e
      | .ok c =>
        if c ∈ seen then walkClasses n r loc rest seen root
        else
          match readClass r loc c with
          | .error e => .error e
          | .ok none => walkClasses n r loc rest seen root
          | .ok (some cn) =>
            match renderImpl n r cn (seen ++ [c]) root with
            | .error e => .error e
            | .ok (seen', root') => walkClasses n r loc rest seen' root' :=
  walkClasses_cons n r loc cls rest seen root

/-- An entry without the reference marker `${` resolves to itself, whatever the parameters. -/
theorem entry_without_reference (fuel : Nat) (params : Mapping) {cls : Str}
    (h : strContains cls Extracted.classRefMarker.toList = false) :
    resolveClassName fuel params cls = .ok cls :=
  resolveClassName_of_no_marker fuel params h

/-- The parameters an entry is resolved against are exactly the merge, in trace order, of
the classes merged before it: after walking a prefix `pre` with trace `tr`, the next entry is
resolved against `mergeParamsSeq root.params (tr.map params)`. -/
theorem entry_resolved_against_preceding {r : Inv} {loc : Option (List Str)} {pre seen : List Str} {root : NodeM}
    {seen1 : List Str} {root1 : NodeM} {tr : List TraceEntry}
    (h : Walk r loc pre seen root seen1 root1 tr) :
    mergeParamsSeq root.params (tr.map (·.2.params)) = .ok root1.params := by
  have := mergeSeq_params h.mergeSeq_eq
  simpa [List.map_map, Function.comp_def] using this

/-! ### 6. The walk terminates on every include graph -/

/-- More fuel never changes an answer other than "out of fuel". -/
theorem walk_fuel_monotone {n m : Nat} (hle : n ≤ m) {r : Inv} :
    (∀ {self seen root res}, renderImpl n r self seen root = res → res ≠ .error .fuel →
      renderImpl m r self seen root = res) ∧
    (∀ {loc l seen root res}, walkClasses n r loc l seen root = res → res ≠ .error .fuel →
      walkClasses m r loc l seen root = res) :=
  ⟨fun h hne => renderImpl_mono_le hle h hne, fun h hne => walkClasses_mono_le hle h hne⟩

/-- **Termination, general form.**  Let `U` be any finite list of names containing every
name that an include entry can resolve to and load, let no class have more than `B` include
entries, and let resolving an entry never exhaust the evaluator's own fuel (`GoodInv`,
`GoodNode`).  Then `(|U| + 1) · (B + 2)` units of fuel suffice for the walk of any node,
from any `seen` and `root`, on any include graph — cyclic ones included: every descent adds
to `seen` a name of `U` that was not there. -/
theorem walk_terminates {r : Inv} {U : List Str} {B : Nat} (hr : GoodInv r U B)
    {self : NodeM} (hs : GoodNode r U B self) (seen : List Str) (root : NodeM) {n : Nat}
    (hn : (U.length + 1) * (B + 2) ≤ n) :
    renderImpl n r self seen root ≠ .error .fuel :=
  renderImpl_nofuel hr hs seen root hn

/-- **Termination, explicit bound for plain inventories.**  If all include entries are plain
names (no reference marker, no leading dot), then with `N` the number of classes of the
inventory and `B` the length of the longest include list (of any class file, or of the node),
`(N + 1) · (B + 2)` units of fuel suffice. -/
theorem walk_terminates_plain {r : Inv} (hr : PlainInv r) {self : NodeM}
    (hs : ∀ cls ∈ self.classes.items, PlainName cls) (seen : List Str) (root : NodeM) {n : Nat}
    (hn : (r.classes.length + 1) * (max (maxIncludes r) self.classes.items.length + 2) ≤ n) :
    renderImpl n r self seen root ≠ .error .fuel := by
  have hg : GoodInv r (r.classes.map (·.1)) (max (maxIncludes r) self.classes.items.length) :=
    plain_goodInv hr (Nat.le_max_left _ _)
  have hs' : GoodNode r (r.classes.map (·.1)) (max (maxIncludes r) self.classes.items.length) self :=
    ⟨Nat.le_max_right _ _, plain_goodList r self.loc hs⟩
  exact renderImpl_nofuel hg hs' seen root (by simpa using hn)

/-- Existential form: for a plain inventory the walk of any node has an answer. -/
theorem walk_terminates_exists {r : Inv} (hr : PlainInv r) {self : NodeM}
    (hs : ∀ cls ∈ self.classes.items, PlainName cls) (seen : List Str) (root : NodeM) :
    ∃ n, ∀ m, n ≤ m → renderImpl m r self seen root = renderImpl n r self seen root ∧
      renderImpl n r self seen root ≠ .error .fuel := by
  refine ⟨(r.classes.length + 1) * (max (maxIncludes r) self.classes.items.length + 2), fun m hm => ?_⟩
  have h := walk_terminates_plain hr hs seen root (Nat.le_refl _)
  exact ⟨renderImpl_mono_le hm rfl h, h⟩

/-! ### 7. Refinement to the abstract depth-first traversal; the result as a fold -/

/-- **The trace is the depth-first post-order.**  For an inventory all of whose include
entries are plain names, the names merged by the walk, in merge order, are exactly the
post-order emitted by the abstract traversal `Dfs` of the include graph `graphOf r` (with
ignored missing classes absent from the graph), and the final `seen` is its visited list. -/
theorem trace_eq_dfs {r : Inv} (hr : PlainInv r) {n : Nat} {loc : Option (List Str)} {l seen : List Str}
    {root : NodeM} {seen' : List Str} {root' : NodeM} {tr : List TraceEntry}
    (h : walkClassesT n r loc l seen root = .ok (seen', root', tr)) (hl : ∀ cls ∈ l, PlainName cls) :
    Dfs (graphOf r) l seen seen' (tr.map Prod.fst) :=
  (walkClassesT_sound h).dfs hr hl

/-- `Dfs` determines its result, so `trace_eq_dfs` pins the trace down: any post-order the
abstract traversal can produce *is* the trace. -/
theorem trace_eq_dfs_unique {r : Inv} (hr : PlainInv r) {n : Nat} {loc : Option (List Str)} {l seen : List Str}
    {root : NodeM} {seen' : List Str} {root' : NodeM} {tr : List TraceEntry}
    (h : walkClassesT n r loc l seen root = .ok (seen', root', tr)) (hl : ∀ cls ∈ l, PlainName cls)
    {vis po : List Str} (hd : Dfs (graphOf r) l seen vis po) :
    seen' = vis ∧ tr.map Prod.fst = po :=
  (trace_eq_dfs hr h hl).det hd

/-- The executable `dfs` computes `Dfs`. -/
theorem dfs_computes {g : Str → Option (List Str)} {n : Nat} {l vis v po : List Str}
    (h : dfs n g l vis = some (v, po)) : Dfs g l vis v po :=
  dfs_sound n l vis v po h

/-- **The accumulated node is the fold of the trace** (with or without references in include
entries): `root'` is obtained from `root` by merging the traced classes, in trace order. -/
theorem root_eq_fold {n : Nat} {r : Inv} {loc : Option (List Str)} {l seen : List Str} {root : NodeM}
    {seen' : List Str} {root' : NodeM} {tr : List TraceEntry}
    (h : walkClassesT n r loc l seen root = .ok (seen', root', tr)) :
    mergeSeq root (tr.map Prod.snd) = .ok root' :=
  (walkClassesT_sound h).mergeSeq_eq

/-- Parameters, class list and application list after the walk are the left folds of
`Mapping.merge`, `UList.merge`, `RList.merge` over the traced classes in trace order. -/
theorem params_classes_apps_eq_fold {n : Nat} {r : Inv} {loc : Option (List Str)} {l seen : List Str}
    {root : NodeM} {seen' : List Str} {root' : NodeM} {tr : List TraceEntry}
    (h : walkClassesT n r loc l seen root = .ok (seen', root', tr)) :
    mergeParamsSeq root.params (tr.map (·.2.params)) = .ok root'.params ∧
    root'.classes = tr.foldl (fun acc t => acc.merge t.2.classes) root.classes ∧
    root'.apps = tr.foldl (fun acc t => acc.merge t.2.apps) root.apps := by
  have hm := root_eq_fold h
  refine ⟨?_, ?_, ?_⟩
  · simpa [List.map_map, Function.comp_def] using mergeSeq_params hm
  · simpa [List.foldl_map] using mergeSeq_classes hm
  · simpa [List.foldl_map] using mergeSeq_apps hm

/-- Every traced class is the class its name denotes: it was obtained by `readClass` for that
name (from the location of some including class). -/
theorem trace_entries_loaded {r : Inv} {loc : Option (List Str)} {l seen : List Str} {root : NodeM}
    {seen' : List Str} {root' : NodeM} {tr : List TraceEntry}
    (h : Walk r loc l seen root seen' root' tr) :
    ∀ t ∈ tr, ∃ loc', readClass r loc' t.1 = .ok (some t.2) := by
  induction h with
  | nil => intro t ht; simp at ht
  | seen _ _ _ ih => exact ih
  | ignored _ _ _ _ ih => exact ih
  | load _ _ h2 _ _ _ ih1 ih2 =>
    intro t ht
    rcases List.mem_append.1 ht with h | h
    · exact ih1 t h
    · rcases List.mem_cons.1 h with h | h
      · subst h; exact ⟨_, h2⟩
      · exact ih2 t h

/-- For plain include entries a name denotes one class file, independently of the including
class: every traced class is what `readClass` returns for its name at the root location.  So
for plain inventories "each name once" (`each_class_once`) is "each class once". -/
theorem plain_trace_entries {r : Inv} (hr : PlainInv r) {loc : Option (List Str)} {l seen : List Str}
    {root : NodeM} {seen' : List Str} {root' : NodeM} {tr : List TraceEntry}
    (h : Walk r loc l seen root seen' root' tr) (hl : ∀ cls ∈ l, PlainName cls) :
    ∀ t ∈ tr, readClass r none t.1 = .ok (some t.2) := by
  induction h with
  | nil => intro t ht; simp at ht
  | seen _ _ _ ih => exact ih fun x hx => hl x (List.mem_cons_of_mem _ hx)
  | ignored _ _ _ _ ih => exact ih fun x hx => hl x (List.mem_cons_of_mem _ hx)
  | @load loc cls rest seen root c cn seen1 root1 tr1 root2 seen' root' tr2 h1 _ h2 _ _ _ ih1 ih2 =>
    have hp := hl cls (List.mem_cons_self ..)
    rw [resolveClassName_of_no_marker _ _ hp.1] at h1
    cases h1
    have hcn := hr loc cls cn h2
    rw [readClass_of_not_dot r loc hp.2] at h2
    intro t ht
    rcases List.mem_append.1 ht with h | h
    · exact ih1 hcn t h
    · rcases List.mem_cons.1 h with h | h
      · subst h; exact h2
      · exact ih2 (fun x hx => hl x (List.mem_cons_of_mem _ hx)) t h

/-! ### The property, end to end -/

/-- **C01 (soundness).**  Whenever a node renders, there is a trace `tr` of classes such that
* `tr` is the merge order of the depth-first walk of the node's include list started with
  nothing seen and an empty accumulator (`Walk`; by `each_class_once` no class occurs twice,
  by `includes_before_class` includes precede their includer, by `trace_eq_dfs` it is the
  DFS post-order);
* the final node is the in-order merge of: the traced classes, the base node (the node's
  class list and the `_reclass_` parameter), and **last** the node's own definitions;
* the reported parameters are the rendering of the merged parameters, the reported class
  and application lists are the merged lists. -/
theorem render_sound {fuel : Nat} {r : Inv} {nmeta : MetaM} {src : ClassSrc} {info : NodeInfoM}
    (h : renderNodeSrc fuel r nmeta src = .ok info) :
    ∃ self rc bp seen root0 tr fin,
      NodeM.ofSrc none src = .ok self ∧ nmeta.asReclass r.cfg = .ok rc ∧
      ({} : Mapping).insert (.str Extracted.reclassKey.toList) rc.toValue = .ok bp ∧
      Walk r none self.classes.items [] {} seen root0 tr ∧
      mergeSeq {} (tr.map Prod.snd ++ [{ classes := self.classes, params := bp }, self]) = .ok fin ∧
      renderParamsF defaultFuel fin.params = .ok info.params ∧
      info.apps = fin.apps.items ∧ info.classes = fin.classes.items ∧ info.nmeta = nmeta := by
  obtain ⟨self, rc, bp, seen, root, fin, e1, e2, e3, e4, e5, e6, e7, e8, e9⟩ := renderNodeSrc_ok h
  obtain ⟨tr, ht⟩ := renderImpl_ok_iff.1 e4
  obtain ⟨root0, hw, hm⟩ := renderImplT_sound ht
  refine ⟨self, rc, bp, seen, root0, tr, fin, e1, e2, e3, hw, ?_, e6, e7, e8, e9⟩
  rw [mergeSeq_append, hw.mergeSeq_eq]
  simp only [mergeSeq, hm, e5]

/-- **C01 (completeness).**  Conversely, if the walk of the node's include list has a result
and the final merges and the rendering succeed, the node renders — with every sufficiently
large amount of fuel — to exactly that. -/
theorem render_complete {r : Inv} {nmeta : MetaM} {src : ClassSrc}
    {self : NodeM} {rc bp : Mapping} {seen : List Str} {root0 : NodeM} {tr : List TraceEntry} {fin : NodeM}
    {p : Mapping}
    (e1 : NodeM.ofSrc none src = .ok self) (e2 : nmeta.asReclass r.cfg = .ok rc)
    (e3 : ({} : Mapping).insert (.str Extracted.reclassKey.toList) rc.toValue = .ok bp)
    (hw : Walk r none self.classes.items [] {} seen root0 tr)
    (hm : mergeSeq root0 [{ classes := self.classes, params := bp }, self] = .ok fin)
    (e6 : renderParamsF defaultFuel fin.params = .ok p) :
    ∃ n, ∀ fuel, n ≤ fuel → renderNodeSrc fuel r nmeta src =
      .ok { nmeta := nmeta, apps := fin.apps.items, classes := fin.classes.items, params := p } := by
  obtain ⟨n, hn⟩ := hw.complete
  simp only [mergeSeq] at hm
  cases hb : mergeInto { classes := self.classes, params := bp } root0 with
  | error e => simp [hb] at hm
  | ok root =>
    simp only [hb] at hm
    cases h5 : mergeInto self root with
    | error e => simp [h5] at hm
    | ok fin' =>
      simp only [h5, Except.ok.injEq] at hm
      subst hm
      refine ⟨n+1, fun fuel hf => ?_⟩
      have hT : renderImplT (n+1) r { classes := self.classes, params := bp } [] {} = .ok (seen, root, tr) := by
        rw [renderImplT_succ]; simp only [hn, hb]
      have hR := renderImpl_ok_iff.2 ⟨tr, renderImplT_mono_le hf hT (by simp)⟩
      exact renderNodeSrc_of_parts e1 e2 e3 hR h5 e6

/-! ### Non-vacuity: a diamond `a → c ← b` and a mutual include `x ⇄ y` -/

def exInfo (p : String) : EntityInfo := { path := [p.toList], loc := [] }
def exClass (incs : List String) (k v : String) : FileRes :=
  .ok { classes := incs.map String.toList, params := [(.str k.toList, .str v.toList)] }

def exInv : Inv :=
  { classes :=
      [ ("a".toList, exInfo "a.yml", exClass ["c"] "ka" "a"),
        ("b".toList, exInfo "b.yml", exClass ["c", "x"] "kb" "b"),
        ("c".toList, exInfo "c.yml", exClass [] "kc" "c"),
        ("x".toList, exInfo "x.yml", exClass ["y"] "kx" "x"),
        ("y".toList, exInfo "y.yml", exClass ["x", "a"] "ky" "y") ] }

/-- (final `seen`, traced names, keys of the accumulated parameters) of a run. -/
def summary (x : R (List Str × NodeM × List TraceEntry)) : Option (List Str × List Str × List Key) :=
  match x with
  | .ok (s, root, tr) => some (s, tr.map Prod.fst, root.params.es.map Prod.fst)
  | .error _ => none

/-- The walk of `[a, b]`: entered in the order `a c b x y`, merged in the order `c a y x b`
(`c` once although included twice; `x ⇄ y` terminates; `a` is not merged again from `y`),
and the parameters were merged in that same order. -/
example : summary (walkClassesT 20 exInv none ["a".toList, "b".toList] [] {}) =
    some (["a", "c", "b", "x", "y"].map String.toList, ["c", "a", "y", "x", "b"].map String.toList,
          ["kc", "ka", "ky", "kx", "kb"].map (fun s => Key.str s.toList)) := by decide

/-- The abstract traversal of the include graph gives the same visited list and post-order. -/
example : dfs 20 (graphOf exInv) ["a".toList, "b".toList] [] =
    some (["a", "c", "b", "x", "y"].map String.toList, ["c", "a", "y", "x", "b"].map String.toList) := by decide

/-- The fuel bound of `walk_terminates_plain` for this inventory is `(5+1)·(2+2) = 24`. -/
example : (exInv.classes.length + 1) * (max (maxIncludes exInv) 2 + 2) = 24 := by decide

/-- Too little fuel is reported as such (so `≠ .error .fuel` is not vacuous). -/
example : summary (walkClassesT 10 exInv none ["a".toList, "b".toList] [] {}) = none := by decide

/-- End to end through `renderNodeSrc`: node `n` includes `[a, b]`, has one application and
one parameter.  Parameters are merged in the order `c a y x b`, then `_reclass_`, then the
node's own `kn` last. -/
def exMeta : MetaM :=
  { node := "n".toList, name := "n".toList, uri := [], environment := "base".toList, parts := ["n".toList] }

def nodeSummary (x : R NodeInfoM) : Option (List Str × List Str × List Key) :=
  match x with
  | .ok i => some (i.classes, i.apps, i.params.es.map Prod.fst)
  | .error _ => none

example : nodeSummary (renderNodeSrc 30 exInv exMeta
    { classes := ["a".toList, "b".toList], apps := ["app".toList],
      params := [(.str "kn".toList, .str "n".toList)] }) =
    some (["c", "x", "a", "y", "b"].map String.toList, ["app".toList],
      ["kc", "ka", "ky", "kx", "kb", "_reclass_", "kn"].map (fun s => Key.str s.toList)) := by
  decide +kernel

/-! ### A corner case: "once" is per resolved *name*, not per class file

`seen` holds the names include entries resolve to; `readClass` makes a name absolute only
afterwards.  A reference can therefore resolve to a second spelling of a class that was
already merged (here `.a`, which at the root location denotes the class `a`), and the class
file is then loaded and merged a second time.  (The Rust code does the same: it checks
`seen.contains(&cls)` before `abs_class_name`.)  `each_class_once` is stated for names;
`plain_trace_entries` shows that for plain entries names and class files coincide. -/

def exInv2 : Inv :=
  { classes := [ ("a".toList, exInfo "a.yml", exClass [] "x" ".a") ] }

/-- Node list `[a, ${x}]` where `a` sets `x: .a`: the second entry resolves — against the
parameters merged from `a` — to `.a`, which is new to `seen`, and loads class `a` again. -/
example : summary (walkClassesT 20 exInv2 none ["a".toList, "${x}".toList] [] {}) =
    some (["a", ".a"].map String.toList, ["a", ".a"].map String.toList, [Key.str "x".toList]) := by decide

example : absClassName none ".a".toList = "a".toList := by decide

end C01
end Reclass
