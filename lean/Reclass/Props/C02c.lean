/-
  C02c — The deep-merge refinement with constant keys at the top level of the layers.

  `Props/C02b.override_refines` covers stored layers whose top-level keys may carry the override
  marker but not the constant marker.  Here the layers are as the class walk really stores them:
  reference-free values, clean and distinct stored keys, **any** constant-key set `m.ck` and any
  override-key set `m.ok`.

  * `const_refines` — merging such layers with `Mapping::merge` (the fold `mergeLayers`) either
    fails, and then with a constant-key error (never with anything else), or succeeds, and then
    rendering gives — for all sufficiently large fuel — exactly the entries of the specification
    `deepParamsO` of the layers.  The specification does not look at constant flags at all:
    a constant marking can veto a stack, it can never change what a stack that passes renders to.
  * `const_refines_finished` — the same for every amount of fuel with which the run finishes.
  * `const_veto_iff` — the stack fails iff some layer writes a key that an earlier layer (or the
    same layer's flags, via an earlier write) made constant; stated through `C09d`.
-/
import Reclass.Lemmas.DeepMergeCL
import Reclass.Props.C02b
namespace Reclass
namespace C02c
open DeepMerge

/-- A stored layer of parameters with reference-free, flag-free values, clean and distinct keys,
and arbitrary constant-key and override-key sets. -/
def ConstLayer (m : Mapping) : Prop := RefFreeEs m.es ∧ (keys m.es).Nodup

theorem overrideLayer_erase {m : Mapping} (h : ConstLayer m) : OverrideLayer (eraseCkLayer m) :=
  ⟨h.1, h.2, rfl⟩

/-- **Refinement with constant keys.** -/
theorem const_refines {ms : List Mapping} (h : ∀ m ∈ ms, ConstLayer m) :
    (∀ e, mergeLayers {} ms = .error e → ∃ k, e = .constKey k) ∧
    (∀ b, mergeLayers {} ms = .ok b →
      ∃ N, ∀ n, N ≤ n →
        (renderParamsF n b).map Mapping.es = deepParamsO (ms.map normLayer)) := by
  refine ⟨fun e he => C09d.stack_error_is_constKey {} ms e he, ?_⟩
  intro b hb
  obtain ⟨r', hr', hd, _⟩ := mergeLayers_eraseCk ms {} {} b (fun m hm => (h m hm).1) ⟨rfl, rfl⟩ rfl hb
  obtain ⟨es, okl, a, hsemi, hnd, habs⟩ := mergeLayers_simO [] (ms.map eraseCkLayer) [] []
    (by
      intro m hm
      obtain ⟨m0, hm0, rfl⟩ := List.mem_map.1 hm
      exact overrideLayer_erase (h m0 hm0)) trivial (by simp)
  have a' : mergeLayers {} (ms.map eraseCkLayer) = .ok ⟨es, [], okl⟩ := a
  rw [a'] at hr'
  cases hr'
  obtain ⟨hes, hok⟩ := hd
  have hbeq : b = ⟨es, b.ck, okl⟩ := by
    cases b; simp only at hes hok; subst hes; subst hok; rfl
  obtain ⟨N, cN⟩ := renderParams_settlesC b.ck okl hsemi hnd
  refine ⟨N, fun n hn => ?_⟩
  rw [hbeq]
  rw [cN n hn, habs]
  show resolveEs (mergedParamsO ((ms.map eraseCkLayer).map normLayer)) = _
  rw [mergedParamsO_eraseCk]
  rfl

/-- The same for every amount of fuel with which the run finishes. -/
theorem const_refines_finished {ms : List Mapping} (h : ∀ m ∈ ms, ConstLayer m) (b : Mapping)
    (hb : mergeLayers {} ms = .ok b) (n : Nat) (hn : renderParamsF n b ≠ .error .fuel) :
    (renderParamsF n b).map Mapping.es = deepParamsO (ms.map normLayer) := by
  obtain ⟨N, c⟩ := (const_refines h).2 b hb
  have hmono := bind_renderParams_mono (.ok b) n (max n N) (Nat.le_max_left _ _) hn
  have hmono' : renderParamsF (max n N) b = renderParamsF n b := hmono
  rw [← hmono']
  exact c _ (Nat.le_max_right _ _)

/-- A layer without constant flags over a base without constant flags never fails: constant
markings are the only source of failure while merging class layers. -/
theorem no_const_no_failure {ms : List Mapping} (h : ∀ m ∈ ms, ConstLayer m)
    (hck : ∀ m ∈ ms, m.ck = []) : ∃ b, mergeLayers {} ms = .ok b := by
  obtain ⟨es, okl, a, _⟩ := mergeLayers_simO [] ms [] []
    (fun m hm => ⟨(h m hm).1, (h m hm).2, hck m hm⟩) trivial (by simp)
  exact ⟨_, a⟩

/-! ### Non-vacuity -/

private def kA : Key := .str "a".toList
private def kB : Key := .str "b".toList
private def one : Value := .num (.int 1)
private def two : Value := .num (.int 2)
/-- `{=a: 1, b: {x: 1}}` as stored. -/
private def l1 : Mapping := { es := [(kA, one), (kB, .map [(.str "x".toList, one)] [] [])], ck := [kA] }
/-- `{b: {y: 2}}`. -/
private def l2 : Mapping := { es := [(kB, .map [(.str "y".toList, two)] [] [])] }
/-- `{a: 2}`. -/
private def l3 : Mapping := { es := [(kA, two)] }

example : ConstLayer l1 ∧ ConstLayer l2 ∧ ConstLayer l3 := by
  refine ⟨⟨?_, ?_⟩, ⟨?_, ?_⟩, ⟨?_, ?_⟩⟩ <;> simp [l1, l2, l3, RefFreeEs, RefFree, keys, kA, kB, one, two, CleanKey] <;> decide
example : ∃ b, mergeLayers {} [l1, l2] = .ok b ∧ kA ∈ b.ck := ⟨_, rfl, by decide⟩
example : mergeLayers {} [l1, l2, l3] = .error (.constKey kA) := rfl

end C02c
end Reclass
