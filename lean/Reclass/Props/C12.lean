/-
  C12 (aggregation part) — Rendering the whole inventory with any number of worker threads
  yields identical node data; each node's entry in the full inventory equals what rendering
  that node alone returns.

  The parallel map of `Inventory::render` (`src/inventory.rs`) produces the `(name, result)`
  pairs in an order that depends on the hash map and the thread pool.  The model takes that
  order as its input list, so "any number of threads / any completion order" is "any
  permutation of the result list".  (That each per-node result itself does not depend on the
  thread it ran on is the determinism of the pure function `renderNode`, a different part of
  C12.)  Property theorems only; helpers live in `Lemmas/InventoryL`, and C13 is reused.

  Remark on strength: the index statements below need *no* side condition (not even distinct
  node names): each stored list is the sorted arrangement of a multiset that does not depend on
  the order, and the order `strLe` is antisymmetric.
-/
import Reclass.Props.C13
namespace Reclass
namespace C12

/-- Failure does not depend on the order: one order fails iff the other does.  (Which failing node
the error names *does* depend on the order, see `C13.error_names_first_failing_node`.) -/
theorem fails_perm_invariant {results results' : List (Str × R NodeInfoM)}
    (hp : results.Perm results') :
    (∃ e, Inventory.render results = .error e) ↔ (∃ e, Inventory.render results' = .error e) := by
  rw [C13.fails_iff_some_node_fails, C13.fails_iff_some_node_fails]
  constructor
  · rintro ⟨p, hm, he⟩; exact ⟨p, hp.mem_iff.1 hm, he⟩
  · rintro ⟨p, hm, he⟩; exact ⟨p, hp.mem_iff.2 hm, he⟩

/-- The stored node entries of two orders are permutations of each other. -/
theorem nodes_perm {results results' : List (Str × R NodeInfoM)} {inv inv' : InventoryM}
    (hp : results.Perm results')
    (h : Inventory.render results = .ok inv) (h' : Inventory.render results' = .ok inv') :
    inv.nodes.Perm inv'.nodes := by
  obtain ⟨infos, _, hf, hn, _, _⟩ := render_ok_inv h
  obtain ⟨infos', _, hf', hn', _, _⟩ := render_ok_inv h'
  rw [hn, hn', hf, hf']
  exact hp.filterMap _

/-- Every list stored in the class index is literally the same list for both orders. -/
theorem class_lists_eq {results results' : List (Str × R NodeInfoM)} {inv inv' : InventoryM}
    (hp : results.Perm results')
    (h : Inventory.render results = .ok inv) (h' : Inventory.render results' = .ok inv') (c : Str) :
    ixLookup c inv.classes = ixLookup c inv'.classes := by
  have hn := nodes_perm hp h h'
  obtain ⟨infos, _, _, hn1, hc, _⟩ := render_ok_inv h
  obtain ⟨infos', _, _, hn1', hc', _⟩ := render_ok_inv h'
  rw [hn1, hn1'] at hn
  rw [hc, hc', ixLookup_ixFold_eq, ixLookup_ixFold_eq]
  exact sortStrs_eq_of_perm (occ_perm hn)

/-- Every list stored in the application index is literally the same list for both orders. -/
theorem app_lists_eq {results results' : List (Str × R NodeInfoM)} {inv inv' : InventoryM}
    (hp : results.Perm results')
    (h : Inventory.render results = .ok inv) (h' : Inventory.render results' = .ok inv') (a : Str) :
    ixLookup a inv.apps = ixLookup a inv'.apps := by
  have hn := nodes_perm hp h h'
  obtain ⟨infos, _, _, hn1, _, ha⟩ := render_ok_inv h
  obtain ⟨infos', _, _, hn1', _, ha'⟩ := render_ok_inv h'
  rw [hn1, hn1'] at hn
  rw [ha, ha', ixLookup_ixFold_eq, ixLookup_ixFold_eq]
  exact sortStrs_eq_of_perm (occ_perm hn)

/-- Both orders produce the same set of index keys. -/
theorem index_keys_eq {results results' : List (Str × R NodeInfoM)} {inv inv' : InventoryM}
    (hp : results.Perm results')
    (h : Inventory.render results = .ok inv) (h' : Inventory.render results' = .ok inv') (k : Str) :
    (k ∈ inv.classes.map Prod.fst ↔ k ∈ inv'.classes.map Prod.fst) ∧
    (k ∈ inv.apps.map Prod.fst ↔ k ∈ inv'.apps.map Prod.fst) := by
  rw [C13.class_keys_exact h, C13.class_keys_exact h', C13.app_keys_exact h, C13.app_keys_exact h']
  simp only [hp.mem_iff, and_self]

/-- **Any iteration / completion order yields identical inventory data.**  If `results'` is a
permutation of `results`, then rendering fails for one iff it fails for the other, and when both
succeed: the node entries are the same (as a set, indeed as a multiset), both indices have the
same keys, and under every key they store *the same list*.  Since the Rust containers are hash
maps (nodes, classes, applications), this is equality of the inventories as data. -/
theorem inventory_perm_invariant {results results' : List (Str × R NodeInfoM)}
    (hp : results.Perm results') :
    ((∃ e, Inventory.render results = .error e) ↔ (∃ e, Inventory.render results' = .error e)) ∧
    ∀ inv inv', Inventory.render results = .ok inv → Inventory.render results' = .ok inv' →
      inv.nodes.Perm inv'.nodes ∧
      (∀ name info, (name, info) ∈ inv.nodes ↔ (name, info) ∈ inv'.nodes) ∧
      (∀ k, (k ∈ inv.classes.map Prod.fst ↔ k ∈ inv'.classes.map Prod.fst) ∧
            (k ∈ inv.apps.map Prod.fst ↔ k ∈ inv'.apps.map Prod.fst)) ∧
      (∀ k, ixLookup k inv.classes = ixLookup k inv'.classes) ∧
      (∀ k, ixLookup k inv.apps = ixLookup k inv'.apps) := by
  refine ⟨fails_perm_invariant hp, ?_⟩
  intro inv inv' h h'
  have hn := nodes_perm hp h h'
  exact ⟨hn, fun _ _ => hn.mem_iff, index_keys_eq hp h h', class_lists_eq hp h h',
    app_lists_eq hp h h'⟩

/-- Success does not depend on the order either: if one order renders, so does every other. -/
theorem succeeds_perm_invariant {results results' : List (Str × R NodeInfoM)}
    (hp : results.Perm results') {inv : InventoryM} (h : Inventory.render results = .ok inv) :
    ∃ inv', Inventory.render results' = .ok inv' := by
  cases h' : Inventory.render results' with
  | ok inv' => exact ⟨inv', rfl⟩
  | error e =>
    obtain ⟨e0, he0⟩ := (fails_perm_invariant hp).2 ⟨e, h'⟩
    rw [h] at he0; cases he0

/-- **Each node's entry in the full inventory equals what rendering that node alone returns**:
the stored `info` under `name` is exactly the `info` of the single-node result `(name, .ok info)`,
and conversely every single-node result is stored. -/
theorem inventory_entry_eq_single {results : List (Str × R NodeInfoM)} {inv : InventoryM}
    (h : Inventory.render results = .ok inv) (name : Str) (info : NodeInfoM) :
    (name, info) ∈ inv.nodes ↔ (name, .ok info) ∈ results :=
  (C13.nodes_exact h).2 name info

/-- With distinct node names the stored entry of a node is *the* single-node result: whatever is
stored under `name` equals whatever rendering `name` alone returned. -/
theorem inventory_entry_unique {results : List (Str × R NodeInfoM)} {inv : InventoryM}
    (hd : (results.map Prod.fst).Nodup) (h : Inventory.render results = .ok inv)
    {name : Str} {info info' : NodeInfoM}
    (h1 : (name, info) ∈ inv.nodes) (h2 : (name, .ok info') ∈ results) : info = info' :=
  eq_of_mem_of_nodup_keys (C13.node_names_nodup hd h) h1 ((inventory_entry_eq_single h _ _).2 h2)

/-! ### Non-vacuity -/

section Examples

private def n1 : NodeInfoM :=
  { nmeta := {}, apps := ["a1".toList], classes := ["c1".toList, "c2".toList], params := {} }
private def n2 : NodeInfoM :=
  { nmeta := {}, apps := ["a1".toList, "a2".toList], classes := ["c2".toList], params := {} }
private def n3 : NodeInfoM :=
  { nmeta := {}, apps := [], classes := ["c3".toList, "c1".toList], params := {} }

private def orderA : List (Str × R NodeInfoM) :=
  [("n2".toList, .ok n2), ("n3".toList, .ok n3), ("n1".toList, .ok n1)]
private def orderB : List (Str × R NodeInfoM) :=
  [("n1".toList, .ok n1), ("n2".toList, .ok n2), ("n3".toList, .ok n3)]

private def classesOf (r : R InventoryM) : List (Str × List Str) :=
  match r with | .ok inv => inv.classes | .error _ => []

private theorem orderA_perm_orderB : orderA.Perm orderB := by
  unfold orderA orderB
  exact ((List.Perm.swap _ _ _).trans (List.Perm.cons _ (List.Perm.swap _ _ _))).symm

/-- Two genuinely different orders: the raw index lists differ in key order ... -/
example : classesOf (Inventory.render orderA) =
      [("c2".toList, ["n1".toList, "n2".toList]), ("c3".toList, ["n3".toList]),
       ("c1".toList, ["n1".toList, "n3".toList])] ∧
    classesOf (Inventory.render orderB) =
      [("c1".toList, ["n1".toList, "n3".toList]), ("c2".toList, ["n1".toList, "n2".toList]),
       ("c3".toList, ["n3".toList])] := by
  constructor
  · simp only [Inventory.render, orderA, Inventory.collect, sortAll, sortStrs_eq_insSort, classesOf]
    decide
  · simp only [Inventory.render, orderB, Inventory.collect, sortAll, sortStrs_eq_insSort, classesOf]
    decide

/-- ... but, by the theorem, every key holds the same list in both. -/
example (inv inv' : InventoryM) (h : Inventory.render orderA = .ok inv)
    (h' : Inventory.render orderB = .ok inv') (k : Str) :
    ixLookup k inv.classes = ixLookup k inv'.classes ∧ ixLookup k inv.apps = ixLookup k inv'.apps :=
  ⟨class_lists_eq orderA_perm_orderB h h' k, app_lists_eq orderA_perm_orderB h h' k⟩

/-- Both orders do render (the premises above are satisfiable). -/
example : (∃ inv, Inventory.render orderA = .ok inv) ∧ (∃ inv, Inventory.render orderB = .ok inv) :=
  ⟨⟨_, rfl⟩, ⟨_, rfl⟩⟩

/-- The stored entry of `n3` is its single-node result. -/
example (inv : InventoryM) (h : Inventory.render orderA = .ok inv) : ("n3".toList, n3) ∈ inv.nodes :=
  (inventory_entry_eq_single h _ _).2 (by simp [orderA])

end Examples

end C12
end Reclass
