/-
  C11 (model part) — Rendering returns a value or an error; it never panics.

  Every place where the Rust evaluator would panic is a distinct outcome `.error (.panic site)`
  of the model.  The sites that occur in the evaluator (`Model/Eval`, the 13 mutually recursive
  functions plus `flat`/`mergeV`/`rawString`/`jsonOf`) are

    * `mergeTargetStr`, `mergeTargetVl` — `Value::merge` onto an unparsed string / layer list,
    * `jsonVl`                          — `todo!()` in `From<Value> for serde_json::Value`,
    * `resolveNewvStrVl`                — `unreachable!` in `Token::resolve`,
    * `splitEmpty`                      — `refpath_iter.next().unwrap()`.

  Theorems: none of them is reachable when the parameters are well-formed (`WF`: stored keys are
  marker-free and unique) and contain no layer list directly inside a layer list (`NoNest`);
  both hold for everything decoded from a YAML document whose keys carry at most one `=`/`~`
  marker (`C07.ofYaml_wf`, `C07.ofYaml_noNest`).  The two panics of the *decoder*
  (`yamlTagged`, `yamlConstDup`) were reachable before the repair of D5/D6; the fallible decoder
  now returns ordinary errors (examples below).

  Helper lemmas and the 13-function induction (`NoPanicInv`) are in `Lemmas/TextL`.
-/
import Reclass.Lemmas.TextL
namespace Reclass
namespace C11

/-! ### `split(':')` -/

/-- `str::split(':')` yields at least one segment, so `refpath_iter.next().unwrap()` in
`Token::resolve` cannot panic (`.panic .splitEmpty` is unreachable). -/
theorem splitColon_ne_nil (s : Str) : splitColon s ≠ [] := Reclass.splitColon_ne_nil s

/-! ### `Value::merge` targets -/

/-- `Value::merge` onto a target that is neither an unparsed string nor a layer list, with an
overlay that is not an unparsed string (and whose nested layer lists hold none), does not
panic. -/
theorem merge_target_ok {self other : Value} {st : RState} {e : Err}
    (hs : (∀ s, self ≠ .str s) ∧ (∀ l, self ≠ .vl l)) (ho : LayerOK other)
    (h : mergeV self other st = .error e) : ∀ site, e ≠ .panic site :=
  mergeV_np self other st e ho ((notStrVl_iff self).2 hs) h

/-- … and its result is again a legal target. -/
theorem merge_result_target_ok {self other r : Value} {st : RState} (ho : LayerOK other)
    (h : mergeV self other st = .ok r) : (∀ s, r ≠ .str s) ∧ (∀ l, r ≠ .vl l) :=
  (notStrVl_iff r).1 (mergeV_notStrVl self other st r ho h)

/-- The accumulator of the layer loop stays a legal merge target: if it starts as one (e.g.
`Null`) the loop's result is neither `String` nor `ValueList`. -/
theorem interpVl_acc_target_ok : ∀ (n : Nat) (root : Mapping) (vs : List Value) (r0 r : Value)
    (st : RState), NotStrVl r0 → interpVl n root vs r0 st = .ok r →
    (∀ s, r ≠ .str s) ∧ (∀ l, r ≠ .vl l) := by
  intro n
  induction n with
  | zero => intros; simp_all [interpVl]
  | succ n ih =>
    intro root vs r0 r st h0 h
    cases vs with
    | nil => simp only [interpVl, Except.ok.injEq] at h; exact h ▸ (notStrVl_iff r0).1 h0
    | cons v vs =>
      simp only [interpVl] at h
      cases h1 : interp n root v st with
      | error e => simp [h1] at h
      | ok p =>
        obtain ⟨x, st1⟩ := p
        simp only [h1] at h
        have hx : LayerOK x := layerOK_of_notStrVl ((interp_tokRender_notStrVl n).1 _ _ _ _ _ h1)
        cases h2 : mergeV r0 x st1 with
        | error e => simp [h2] at h
        | ok r1 =>
          simp only [h2] at h
          exact ih _ _ _ _ _ (mergeV_notStrVl r0 x st1 r1 hx h2) h

/-- The `unreachable!`s of `Value::merge` are real for other targets. -/
example : mergeV (.str "a".toList) (.bool true) {} = .error (.panic .mergeTargetStr) := by rfl
example : mergeV (.vl []) (.bool true) {} = .error (.panic .mergeTargetVl) := by rfl

/-- **The layer loop never merges onto a `String`/`ValueList`.** Starting from `Null` (as
`Value::interpolate` does), folding the interpolated layers of a well-formed layer list never
fails with a panic: every accumulator is `Null`, a value returned by `interpolate` or the
result of a merge. -/
theorem interpVl_no_merge_panic {n : Nat} {root : Mapping} {vs : List Value} {st : RState}
    (hr : WF root.toValue) (hn : NoNest root.toValue) (hv : WFL vs) (hvn : NoNestL vs) :
    interpVl n root vs .null st ≠ .error (.panic .mergeTargetStr) ∧
    interpVl n root vs .null st ≠ .error (.panic .mergeTargetVl) ∧
    ∀ site, interpVl n root vs .null st ≠ .error (.panic site) := by
  have : ∀ site, interpVl n root vs .null st ≠ .error (.panic site) :=
    fun site h => (noPanicInv n).interpVl _ _ _ _ _ ⟨hr, hn⟩ hv hvn notStrVl_null h site rfl
  exact ⟨this _, this _, this⟩

/-! ### The evaluator -/

/-- **`Value::interpolate` never panics** on well-formed input without nested layer lists. -/
theorem interp_no_panic {n : Nat} {root : Mapping} {v : Value} {st : RState}
    (hr : WF root.toValue) (hn : NoNest root.toValue) (hv : WF v) (hvn : NoNest v) (site : PanicSite) :
    interp n root v st ≠ .error (.panic site) :=
  fun h => (noPanicInv n).interp _ _ _ _ ⟨hr, hn⟩ ⟨hv, hvn⟩ h site rfl

/-- `Token::render` never panics (any token). -/
theorem tokRender_no_panic {n : Nat} {root : Mapping} {t : Token} {st : RState}
    (hr : WF root.toValue) (hn : NoNest root.toValue) (site : PanicSite) :
    tokRender n root t st ≠ .error (.panic site) :=
  fun h => (noPanicInv n).tokRender _ _ _ _ ⟨hr, hn⟩ h site rfl

/-- `Token::resolve` never panics (any token). -/
theorem tokResolve_no_panic {n : Nat} {root : Mapping} {t : Token} {st : RState}
    (hr : WF root.toValue) (hn : NoNest root.toValue) (site : PanicSite) :
    tokResolve n root t st ≠ .error (.panic site) :=
  fun h => (noPanicInv n).tokResolve _ _ _ _ ⟨hr, hn⟩ h site rfl

/-- `interpolate_token_slice` never panics. -/
theorem slice_no_panic {n : Nat} {root : Mapping} {ts : List Token} {st : RState}
    (hr : WF root.toValue) (hn : NoNest root.toValue) (site : PanicSite) :
    slice n root ts st ≠ .error (.panic site) :=
  fun h => (noPanicInv n).slice _ _ _ _ ⟨hr, hn⟩ h site rfl

/-- `Value::rendered` (interpolate, then flatten) never panics. -/
theorem rendered_no_panic {n : Nat} {root : Mapping} {v : Value}
    (hr : WF root.toValue) (hn : NoNest root.toValue) (hv : WF v) (hvn : NoNest v) (site : PanicSite) :
    renderedF n v root ≠ .error (.panic site) := by
  intro h
  unfold renderedF at h
  cases h1 : interp n root v {} with
  | error e =>
    simp only [h1, Except.error.injEq] at h
    exact (noPanicInv n).interp _ _ _ _ ⟨hr, hn⟩ ⟨hv, hvn⟩ h1 site h
  | ok p =>
    obtain ⟨v1, st1⟩ := p
    simp only [h1] at h
    obtain ⟨v2, h2, _⟩ := flat_after_interp_ok (st2 := st1) hr hv h1
    simp [h2] at h

/-- **Model totality.** Rendering well-formed parameters without nested layer lists returns
parameters or an error that is not a panic — for every panic site and every amount of fuel. -/
theorem model_total {n : Nat} {m : Mapping} (hm : WF m.toValue) (hn : NoNest m.toValue)
    (site : PanicSite) : renderParamsF n m ≠ .error (.panic site) := by
  intro h
  unfold renderParamsF at h
  cases h1 : renderedF n m.toValue m with
  | error e =>
    simp only [h1, Except.error.injEq] at h
    exact rendered_no_panic hm hn hm hn site (h ▸ h1)
  | ok r =>
    simp only [h1] at h
    split at h <;> simp_all

/-- The outcome of rendering is a value or a non-panic error. -/
theorem model_total' {n : Nat} {m : Mapping} (hm : WF m.toValue) (hn : NoNest m.toValue) :
    (∃ out, renderParamsF n m = .ok out) ∨ (∃ e, renderParamsF n m = .error e ∧ ∀ s, e ≠ .panic s) := by
  cases h : renderParamsF n m with
  | ok out => exact Or.inl ⟨out, rfl⟩
  | error e =>
    refine Or.inr ⟨e, rfl, ?_⟩
    intro s hs
    subst hs
    exact model_total hm hn s h

/-- **From YAML.** Parameters decoded from a YAML mapping whose string keys carry at most one
leading `=`/`~` marker render without any evaluator panic. -/
theorem yaml_render_total {n : Nat} {es : List (Yaml × Yaml)} {es' : List (Key × Value)}
    {ck ok : List Key} (hy : SingleMarker (.map es))
    (hd : Value.ofYaml (.map es) = .ok (.map es' ck ok)) (site : PanicSite) :
    renderParamsF n ⟨es', ck, ok⟩ ≠ .error (.panic site) :=
  model_total (m := ⟨es', ck, ok⟩) (Reclass.ofYaml_wf _ _ hy hd) (Reclass.ofYaml_noNest _ _ hd) site

/-- The same for any decoded value rendered against decoded parameters. -/
theorem yaml_rendered_total {n : Nat} {yr yv : Yaml} {root : Mapping} {v : Value}
    (hyr : SingleMarker yr) (hyv : SingleMarker yv)
    (hdr : Value.ofYaml yr = .ok root.toValue) (hdv : Value.ofYaml yv = .ok v) (site : PanicSite) :
    renderedF n v root ≠ .error (.panic site) :=
  rendered_no_panic (Reclass.ofYaml_wf _ _ hyr hdr) (Reclass.ofYaml_noNest _ _ hdr)
    (Reclass.ofYaml_wf _ _ hyv hdv) (Reclass.ofYaml_noNest _ _ hdv) site

/-! ### The hypotheses are needed; the decoder panics are reachable -/

/-- Without `NoNest` the evaluator can panic: a hand-built layer list nested directly in a layer
list reaches the `unreachable!` of `Token::resolve` (not constructible from YAML). -/
example : TextL.errOf (renderParamsF 30
    ⟨[(.str "a".toList, .vl [.vl [.str "x".toList]]), (.str "b".toList, .str "${a:k}".toList)], [], []⟩) =
    some (.panic .resolveNewvStrVl) := by decide +kernel

/-- A tagged YAML value is an ordinary error of the fallible decoder (it was a `todo!()` panic
before the repair of D5). -/
example : Value.ofYaml (.tagged "!x".toList (.str "v".toList)) = .error .yamlTaggedValue := by rfl

example : Value.ofYaml (.map [(.str "k".toList, .tagged "!x".toList .null)]) =
    .error .yamlTaggedValue := by rfl

/-- `{=k: 1, k: 2}` in one mapping is an ordinary constant-key error of the fallible decoder (it
was an `unwrap()` panic before the repair of D6). -/
example : Value.ofYaml (.map [(.str "=k".toList, .num (.int 1)), (.str "k".toList, .num (.int 2))]) =
    .error (.constKey (.str "k".toList)) := by rfl

/-! ### Non-vacuity -/

/-- A well-formed, nesting-free mapping with layers and references: renders to an error that is
not a panic (missing key) … -/
example : TextL.errOf (renderParamsF 40
    ⟨[(.str "a".toList, .vl [.num (.int 1), .str "${nope}".toList])], [], []⟩) =
    some (.missingKey "nope".toList "nope".toList "a".toList) := by decide +kernel

/-- … and one that renders to a value. -/
example : (match renderParamsF 40
    ⟨[(.str "a".toList, .vl [.num (.int 1), .str "${b}".toList]), (.str "b".toList, .num (.int 2))], [], []⟩ with
    | .ok out => (match jsonOf out.toValue with | .ok s => some s | .error _ => none)
    | .error _ => none) = some "{\"a\":2,\"b\":2}".toList := by decide +kernel

example : WF (Mapping.toValue ⟨[(.str "a".toList, .vl [.num (.int 1), .str "${b}".toList]),
    (.str "b".toList, .num (.int 2))], [], []⟩) ∧
    NoNest (Mapping.toValue ⟨[(.str "a".toList, .vl [.num (.int 1), .str "${b}".toList]),
    (.str "b".toList, .num (.int 2))], [], []⟩) := by
  simp only [Mapping.toValue, WF, WFL, WFEs, keys, NoNest, NoNestEs, NoNestL]
  refine ⟨⟨⟨by decide, ⟨trivial, trivial, trivial⟩, by decide, trivial, trivial⟩, by decide⟩, ?_⟩
  refine ⟨⟨⟨trivial, trivial, trivial⟩, ?_⟩, trivial, trivial⟩
  intro x hx
  simp at hx
  rcases hx with rfl | rfl <;> rfl

/-- A loop is an error, not a panic or divergence. -/
example : TextL.errOf (renderParamsF 60
    ⟨[(.str "a".toList, .str "${b}".toList), (.str "b".toList, .str "${a}".toList)], [], []⟩) =
    some .loop := by decide +kernel

end C11
end Reclass
