/-
  C20 (second part) — the constructor and the options route build the same configuration.

  Theorems about `Model/Config` (`src/config.rs`):

  * `ctor_eq_options`: for an inventory path made of ordinary components and ordinary directory
    names `n`, `c`, `Config::new(inv, n, c, ig)` and `Config::new(inv, None, None, None)` followed
    by loading the options `nodes_uri: n`, `classes_uri: c`, `ignore_class_notfound: ig` from a
    file or dict in the inventory directory give *the same* configuration (all fields).
  * the path lemmas behind it: `lexicalNormal_clean` (normalisation leaves a clean path alone),
    `pathComponents_clean`, `inv_push`, `withFileName_cfg` (the config file name is irrelevant,
    `with_file_name(v)` is `inv.push(v)`), `new_ok` (when the constructor succeeds and with what).
  * `option_text` / `quoted_option_agrees` (repaired defect D15): the options route uses
    the YAML *text* of the option value, not the string value; when the two differ (a string that
    YAML must quote, such as `'123'`), the two routes name different directories.

  "Clean" (`CleanComp`) means: non-empty, no `/`, not `.` and not `..`.  The inventory path is
  `pre ++ joinWith "/" comps` with `pre` empty (relative path) or `/` (absolute path) and at least
  one clean component; this is what makes `to_lexical_normal` the identity, which the constructor
  applies and `set_option` does not.
-/
import Reclass.Props.C20
namespace Reclass
namespace C20

/-! ## Path lemmas -/

/-- The fold step of `lexicalNormal`, named. -/
def lnStep (acc : List Str) (c : Str) : List Str :=
  if c = ['.'] then acc else if c = ['.', '.'] then dropLast acc else acc ++ [c]

theorem lexicalNormal_abs (p : Str) (h : p.head? = some '/') :
    lexicalNormal p = '/' :: joinWith ['/'] ((pathComponents p).foldl lnStep []) := by
  unfold lexicalNormal
  simp [h]
  rfl

theorem lexicalNormal_rel (p : Str) (h : p.head? ≠ some '/') (h2 : (pathComponents p).head? ≠ some ['.']) :
    lexicalNormal p = joinWith ['/'] ((pathComponents p).foldl lnStep []) := by
  unfold lexicalNormal
  simp [h, h2]
  rfl

/-- An ordinary path component: non-empty, no separator, neither `.` nor `..`. -/
def CleanComp (s : Str) : Prop := s ≠ [] ∧ (∀ ch ∈ s, ch ≠ '/') ∧ s ≠ ['.'] ∧ s ≠ ['.', '.']

theorem foldl_lnStep_clean (cs acc : List Str) (h : ∀ s ∈ cs, CleanComp s) : cs.foldl lnStep acc = acc ++ cs := by
  induction cs generalizing acc with
  | nil => simp
  | cons x xs ih =>
    have hx := h x (by simp)
    simp only [List.foldl_cons]
    rw [ih _ (fun s hs => h s (List.mem_cons_of_mem _ hs))]
    simp [lnStep, hx.2.2.1, hx.2.2.2]

theorem joinWith_append_single (sep : Str) (xs : List Str) (y : Str) (h : xs ≠ []) :
    joinWith sep (xs ++ [y]) = joinWith sep xs ++ sep ++ y := by
  induction xs with
  | nil => exact absurd rfl h
  | cons x xs ih =>
    cases xs with
    | nil => rfl
    | cons z zs =>
      rw [List.cons_append, List.cons_append, joinWith_cons_cons, ← List.cons_append, ih (by simp), joinWith_cons_cons]
      simp [List.append_assoc]

theorem joinWith_clean (comps : List Str) (hne : comps ≠ []) (h : ∀ s ∈ comps, CleanComp s) :
    joinWith ['/'] comps ≠ [] ∧ (joinWith ['/'] comps).getLast? ≠ some '/' ∧
    (joinWith ['/'] comps).head? ≠ some '/' := by
  induction comps with
  | nil => exact absurd rfl hne
  | cons x xs ih =>
    have hx := h x (by simp)
    have hhead : ∀ (r : Str), (x ++ r).head? ≠ some '/' := by
      intro r
      cases x with
      | nil => exact absurd rfl hx.1
      | cons a as => simpa using hx.2.1 a (by simp)
    cases xs with
    | nil =>
      refine ⟨hx.1, ?_, by have := hhead []; rw [List.append_nil] at this; exact this⟩
      intro hl
      exact hx.2.1 _ (List.mem_of_getLast? hl) rfl
    | cons z zs =>
      obtain ⟨i1, i2, _⟩ := ih (by simp) (fun s hs => h s (List.mem_cons_of_mem _ hs))
      rw [joinWith_cons_cons]
      refine ⟨by simp [hx.1], ?_, by rw [List.append_assoc]; exact hhead _⟩
      rw [List.getLast?_append]
      cases hl : (joinWith ['/'] (z :: zs)).getLast? with
      | none => simp at hl; exact absurd hl i1
      | some a => rw [hl] at i2; simpa using i2

theorem pathPush_clean (inv x : Str) (h1 : inv ≠ []) (h2 : inv.getLast? ≠ some '/') (hx : CleanComp x) :
    pathPush inv x = inv ++ '/' :: x := by
  have hh : x.head? ≠ some '/' := by
    cases x with
    | nil => simp
    | cons a as => simpa using hx.2.1 a (by simp)
  unfold pathPush
  simp [hh, h1, h2]

theorem pathComponents_clean (pre : Str) (hpre : pre = [] ∨ pre = ['/']) (cs : List Str) (hne : cs ≠ [])
    (h : ∀ s ∈ cs, CleanComp s) : pathComponents (pre ++ joinWith ['/'] cs) = cs := by
  have hs : splitOn '/' (joinWith ['/'] cs) = cs := splitOn_joinWith hne (fun s hs => (h s hs).2.1)
  have hf : cs.filter (fun s => !s.isEmpty) = cs := by
    rw [List.filter_eq_self]
    intro s hs
    have := (h s hs).1
    cases s with
    | nil => exact absurd rfl this
    | cons _ _ => rfl
  unfold pathComponents
  rcases hpre with rfl | rfl
  · rw [List.nil_append, hs, hf]
  · rw [List.singleton_append, splitOn_cons_sep, hs]
    simp only [List.filter_cons, List.isEmpty_nil, Bool.not_true, Bool.false_eq_true, if_false]
    exact hf

/-- Lexical normalisation leaves a path of clean components unchanged. -/
theorem lexicalNormal_clean (pre : Str) (hpre : pre = [] ∨ pre = ['/']) (cs : List Str) (hne : cs ≠ [])
    (h : ∀ s ∈ cs, CleanComp s) : lexicalNormal (pre ++ joinWith ['/'] cs) = pre ++ joinWith ['/'] cs := by
  have hc := pathComponents_clean pre hpre cs hne h
  obtain ⟨j1, _, j3⟩ := joinWith_clean cs hne h
  rcases hpre with rfl | rfl
  · rw [List.nil_append] at hc ⊢
    rw [lexicalNormal_rel _ j3, hc, foldl_lnStep_clean _ _ h, List.nil_append]
    rw [hc]
    cases cs with
    | nil => exact absurd rfl hne
    | cons x xs => have := (h x (by simp)).2.2.1; simpa using this
  · rw [lexicalNormal_abs _ (by simp), hc, foldl_lnStep_clean _ _ h]; rfl

theorem inv_push (pre : Str) (comps : List Str) (hne : comps ≠ [])
    (h : ∀ s ∈ comps, CleanComp s) (x : Str) (hx : CleanComp x) :
    pathPush (pre ++ joinWith ['/'] comps) x = pre ++ joinWith ['/'] comps ++ '/' :: x ∧
    pre ++ joinWith ['/'] comps ++ '/' :: x = pre ++ joinWith ['/'] (comps ++ [x]) := by
  obtain ⟨j1, j2, _⟩ := joinWith_clean comps hne h
  constructor
  · apply pathPush_clean _ _ (by simp [j1]) _ hx
    rw [List.getLast?_append]
    cases hl : (joinWith ['/'] comps).getLast? with
    | none => simp at hl; exact absurd hl j1
    | some a => rw [hl] at j2; simpa using j2
  · rw [joinWith_append_single _ _ _ hne]; simp [List.append_assoc]

theorem isPrefixComps_snoc_ne (comps : List Str) (a b : Str) (h : a ≠ b) :
    isPrefixComps (comps ++ [a]) (comps ++ [b]) = false := by
  unfold isPrefixComps
  have : (comps ++ [b]).take (comps ++ [a]).length = comps ++ [b] := by
    apply List.take_of_length_le; simp
  rw [this]
  simp [Ne.symm h]

/-- When the constructor succeeds and what it stores: clean, different directory names under a
clean inventory path are accepted and stored as `<inv>/<name>`. -/
theorem new_ok (pre : Str) (hpre : pre = [] ∨ pre = ['/']) (comps : List Str) (hne : comps ≠ [])
    (h : ∀ s ∈ comps, CleanComp s) (nodes classes : Option Str) (ig : Option Bool)
    (hn : CleanComp (nodes.getD "nodes".toList)) (hc : CleanComp (classes.getD "classes".toList))
    (hnc : nodes.getD "nodes".toList ≠ classes.getD "classes".toList) :
    ConfigM.new (pre ++ joinWith ['/'] comps) nodes classes ig =
      .ok { inventoryPath := pre ++ joinWith ['/'] comps,
            nodesPath := pre ++ joinWith ['/'] comps ++ '/' :: nodes.getD "nodes".toList,
            classesPath := pre ++ joinWith ['/'] comps ++ '/' :: classes.getD "classes".toList,
            ignoreClassNotfound := ig.getD false } := by
  obtain ⟨n1, n2⟩ := inv_push pre comps hne h _ hn
  obtain ⟨c1, c2⟩ := inv_push pre comps hne h _ hc
  have hcn : ∀ s ∈ comps ++ [nodes.getD "nodes".toList], CleanComp s := by
    intro s hs; rcases List.mem_append.1 hs with hs | hs
    · exact h s hs
    · simp at hs; subst hs; exact hn
  have hcc : ∀ s ∈ comps ++ [classes.getD "classes".toList], CleanComp s := by
    intro s hs; rcases List.mem_append.1 hs with hs | hs
    · exact h s hs
    · simp at hs; subst hs; exact hc
  unfold ConfigM.new
  simp only [n1, c1]
  rw [n2, c2, pathComponents_clean pre hpre _ (by simp) hcn, pathComponents_clean pre hpre _ (by simp) hcc,
    lexicalNormal_clean pre hpre _ (by simp) hcn, lexicalNormal_clean pre hpre _ (by simp) hcc,
    isPrefixComps_snoc_ne _ _ _ hnc, isPrefixComps_snoc_ne _ _ _ (Ne.symm hnc)]
  simp

/-- Joining the pieces of a split gives the text back. -/
theorem joinWith_splitOn (sep : Char) (s : Str) : joinWith [sep] (splitOn sep s) = s := by
  induction s with
  | nil => rfl
  | cons c cs ih =>
    rw [splitOn]
    cases h : splitOn sep cs with
    | nil => exact absurd h (splitOn_ne_nil sep cs)
    | cons seg segs =>
      rw [h] at ih
      by_cases hc : c = sep
      · simp only [hc, if_true]
        rw [joinWith_cons_cons, ih]; subst hc; rfl
      · simp only [hc, if_false]
        cases segs with
        | nil => simp [joinWith] at ih ⊢; exact ih
        | cons y ys =>
          rw [joinWith_cons_cons] at ih ⊢
          simp [← ih]

theorem pathParent_cfg (inv name : Str) (hn : '/' ∉ name) : pathParent (inv ++ '/' :: name) = inv := by
  unfold pathParent
  simp only [pathParent_file inv name hn]
  simp [dropLast, joinWith_splitOn]

/-- `cfg_path.with_file_name(v)` for a config file in the inventory directory is
`inventory_path.push(v)`, whatever the file is called. -/
theorem withFileName_cfg (inv name v : Str) (hn : '/' ∉ name) :
    withFileName (inv ++ '/' :: name) v = pathPush inv v := by
  unfold withFileName; rw [pathParent_cfg inv name hn]

theorem setOption_nodes (k : ConfigM) (p : Str) (v : Yaml) (vs : Str) :
    k.setOption p "nodes_uri".toList v vs = .ok { k with nodesPath := withFileName p (optText v vs) } := by
  unfold ConfigM.setOption; rw [if_pos rfl]

theorem setOption_classes (k : ConfigM) (p : Str) (v : Yaml) (vs : Str) :
    k.setOption p "classes_uri".toList v vs = .ok { k with classesPath := withFileName p (optText v vs) } := by
  unfold ConfigM.setOption; rw [if_neg (by decide), if_pos rfl]

theorem setOption_ignore (k : ConfigM) (p : Str) (b : Bool) (vs : Str) :
    k.setOption p "ignore_class_notfound".toList (.bool b) vs = .ok { k with ignoreClassNotfound := b } := by
  unfold ConfigM.setOption; rw [if_neg (by decide), if_neg (by decide), if_pos rfl]

theorem compile_default (k : ConfigM) (h : k.reported = [".*".toList]) :
    k.compile = .ok { k with compiled := [.any] } := by
  unfold ConfigM.compile
  rw [h]
  have : compilePats [".*".toList] = .ok [.any] := by rfl
  rw [this]

/-! ## Constructor = options -/

/-- **Constructor route = options route.** For a clean inventory path and clean, different
directory names `n` and `c`: `Config::new(inv, Some(n), Some(c), Some(ig))` succeeds, and
`Config::new(inv, None, None, None)` followed by loading
`{nodes_uri: n, classes_uri: c, ignore_class_notfound: ig}` from a file (or dict) located in
the inventory directory succeeds *with the same configuration* — every field, in particular
`nodesPath = <inv>/n`, `classesPath = <inv>/c`, the flag, the reported pattern list and the
compiled pattern set.  (`vs`, the YAML text of the boolean, is not looked at.) -/
theorem ctor_eq_options (pre : Str) (comps : List Str) (n c cfgname vs : Str) (ig : Bool)
    (hpre : pre = [] ∨ pre = ['/']) (hne : comps ≠ []) (hcomps : ∀ s ∈ comps, CleanComp s)
    (hn : CleanComp n) (hc : CleanComp c) (hnc : n ≠ c) (hcfg : '/' ∉ cfgname) :
    ∃ k : ConfigM,
      ConfigM.new (pre ++ joinWith ['/'] comps) (some n) (some c) (some ig) = .ok k ∧
      ((ConfigM.new (pre ++ joinWith ['/'] comps) none none none).bind fun k0 =>
        k0.load (pre ++ joinWith ['/'] comps ++ '/' :: cfgname)
          [⟨"nodes_uri".toList, .str n, n⟩, ⟨"classes_uri".toList, .str c, c⟩,
           ⟨"ignore_class_notfound".toList, .bool ig, vs⟩]) = .ok k ∧
      k.nodesPath = pre ++ joinWith ['/'] comps ++ '/' :: n ∧
      k.classesPath = pre ++ joinWith ['/'] comps ++ '/' :: c := by
  have hdn : CleanComp "nodes".toList := by
    refine ⟨by decide, by decide, by decide, by decide⟩
  have hdc : CleanComp "classes".toList := by
    refine ⟨by decide, by decide, by decide, by decide⟩
  refine ⟨_, new_ok pre hpre comps hne hcomps (some n) (some c) (some ig) hn hc hnc, ?_, rfl, rfl⟩
  rw [new_ok pre hpre comps hne hcomps none none none hdn hdc (by decide)]
  simp only [Except.bind, ConfigM.load, ConfigM.setOptions, setOption_nodes, setOption_classes, setOption_ignore, optText,
    withFileName_cfg _ _ _ hcfg, (inv_push pre comps hne hcomps n hn).1, (inv_push pre comps hne hcomps c hc).1]
  rw [compile_default _ rfl]
  rfl

/-- The statement of `ctor_eq_options` field by field, for any two results of the two routes. -/
theorem ctor_eq_options_fields (pre : Str) (comps : List Str) (n c cfgname vs : Str) (ig : Bool)
    (hpre : pre = [] ∨ pre = ['/']) (hne : comps ≠ []) (hcomps : ∀ s ∈ comps, CleanComp s)
    (hn : CleanComp n) (hc : CleanComp c) (hnc : n ≠ c) (hcfg : '/' ∉ cfgname) (k k' : ConfigM)
    (h1 : ConfigM.new (pre ++ joinWith ['/'] comps) (some n) (some c) (some ig) = .ok k)
    (h2 : ((ConfigM.new (pre ++ joinWith ['/'] comps) none none none).bind fun k0 =>
        k0.load (pre ++ joinWith ['/'] comps ++ '/' :: cfgname)
          [⟨"nodes_uri".toList, .str n, n⟩, ⟨"classes_uri".toList, .str c, c⟩,
           ⟨"ignore_class_notfound".toList, .bool ig, vs⟩]) = .ok k') :
    k.nodesPath = k'.nodesPath ∧ k.classesPath = k'.classesPath ∧
    k.ignoreClassNotfound = k'.ignoreClassNotfound ∧ k.reported = k'.reported ∧
    k.compiled = k'.compiled ∧ k = k' := by
  obtain ⟨k0, e1, e2, _⟩ := ctor_eq_options pre comps n c cfgname vs ig hpre hne hcomps hn hc hnc hcfg
  rw [e1] at h1; rw [e2] at h2
  injection h1 with h1; injection h2 with h2
  subst h1; subst h2
  exact ⟨rfl, rfl, rfl, rfl, rfl, rfl⟩

/-- The constructor rejects equal directory names (one of the overlap cases), while the
options route performs no overlap check at all: it accepts `nodes_uri = classes_uri`. So the
hypothesis `n ≠ c` of `ctor_eq_options` is needed. -/
theorem overlap_checked_only_by_ctor :
    (∃ e, ConfigM.new "/i".toList (some "x".toList) (some "x".toList) none = .error e) ∧
    (∃ k, ((ConfigM.new "/i".toList none none none).bind fun k0 =>
        k0.load "/i/cfg.yml".toList
          [⟨"nodes_uri".toList, .str "x".toList, "x".toList⟩,
           ⟨"classes_uri".toList, .str "x".toList, "x".toList⟩]) = .ok k ∧
        k.nodesPath = k.classesPath) :=
  ⟨⟨_, rfl⟩, ⟨_, rfl, rfl⟩⟩

/-! ## Path options: strings as written, other scalars through their YAML text -/

/-- `set_option("nodes_uri" | "classes_uri", v)` stores `with_file_name(t)` where `t` is the string itself when `v`
is a YAML string and the serialised YAML text of `v` otherwise. -/
theorem option_text (k : ConfigM) (p : Str) (v : Yaml) (vstr : Str) :
    k.setOption p "nodes_uri".toList v vstr = .ok { k with nodesPath := withFileName p (optText v vstr) } ∧
    k.setOption p "classes_uri".toList v vstr = .ok { k with classesPath := withFileName p (optText v vstr) } :=
  ⟨setOption_nodes k p v vstr, setOption_classes k p v vstr⟩

/-- A string-valued path option does not depend on how YAML would spell the string: whatever
`serde_yaml::to_string` makes of it (`'123'`, `"true"`, `'a: b'`), the stored path is built from the string. -/
theorem string_option_ignores_yaml_text (k : ConfigM) (p s vstr vstr' : Str) :
    k.setOption p "nodes_uri".toList (.str s) vstr = k.setOption p "nodes_uri".toList (.str s) vstr' ∧
    k.setOption p "classes_uri".toList (.str s) vstr = k.setOption p "classes_uri".toList (.str s) vstr' := by
  simp only [setOption_nodes, setOption_classes, optText, and_self]

/-- **Repaired defect D15 (quoted option).** The string `123` must be written `'123'` in YAML.  Given as `nodes_uri`
through a config file or dict it is stored as `/i/123`, exactly as the constructor stores it (the pinned code stored
`/i/'123'`). -/
theorem quoted_option_agrees :
    (((ConfigM.new "/i".toList none none none).bind fun k0 =>
        k0.load "/i/reclass-config.yml".toList
          [⟨"nodes_uri".toList, .str "123".toList, "'123'".toList⟩]).toOption.map (·.nodesPath)
      = some "/i/123".toList) ∧
    ((ConfigM.new "/i".toList (some "123".toList) none none).toOption.map (·.nodesPath)
      = some "/i/123".toList) :=
  ⟨rfl, rfl⟩

/-- The same in general: for clean names the options route stores the path the constructor stores, whatever the
YAML text of the string is. -/
theorem string_option_eq_ctor_path (pre : Str) (comps : List Str) (s vstr cfgname : Str) (k : ConfigM)
    (hcfg : '/' ∉ cfgname) :
    ∃ k', k.setOption (pre ++ joinWith ['/'] comps ++ '/' :: cfgname) "nodes_uri".toList (.str s) vstr = .ok k' ∧
      k'.nodesPath = pathPush (pre ++ joinWith ['/'] comps) s := by
  refine ⟨_, setOption_nodes _ _ _ _, ?_⟩
  simp only [optText, withFileName_cfg _ _ _ hcfg]

/-- A non-string scalar (`nodes_uri: 123`) is still accepted through its YAML text. -/
theorem scalar_option_uses_yaml_text (k : ConfigM) (p : Str) (n : Num) (vstr : Str) :
    k.setOption p "nodes_uri".toList (.num n) vstr = .ok { k with nodesPath := withFileName p vstr } :=
  setOption_nodes k p (.num n) vstr

/-! ### Non-vacuity -/

example : CleanComp "nodes".toList ∧ CleanComp "my-classes_2".toList ∧ ¬ CleanComp "..".toList ∧
    ¬ CleanComp "a/b".toList := by
  refine ⟨⟨by decide, by decide, by decide, by decide⟩, ⟨by decide, by decide, by decide, by decide⟩, ?_, ?_⟩
  · intro h; exact h.2.2.2 rfl
  · intro h; exact h.2.1 '/' (by decide) rfl

/-- An instance of `ctor_eq_options`: `/srv/inv` with `n = "nodes2"`, `c = "cls"`. -/
example : ∃ k : ConfigM,
    ConfigM.new "/srv/inv".toList (some "nodes2".toList) (some "cls".toList) (some true) = .ok k ∧
    ((ConfigM.new "/srv/inv".toList none none none).bind fun k0 =>
      k0.load "/srv/inv/reclass-config.yml".toList
        [⟨"nodes_uri".toList, .str "nodes2".toList, "nodes2".toList⟩,
         ⟨"classes_uri".toList, .str "cls".toList, "cls".toList⟩,
         ⟨"ignore_class_notfound".toList, .bool true, "true".toList⟩]) = .ok k ∧
    k.nodesPath = "/srv/inv/nodes2".toList ∧ k.classesPath = "/srv/inv/cls".toList := by
  have h := ctor_eq_options ['/'] ["srv".toList, "inv".toList] "nodes2".toList "cls".toList
    "reclass-config.yml".toList "true".toList true (Or.inr rfl) (by simp)
    (by intro s hs; simp at hs; rcases hs with rfl | rfl <;> exact ⟨by decide, by decide, by decide, by decide⟩)
    ⟨by decide, by decide, by decide, by decide⟩ ⟨by decide, by decide, by decide, by decide⟩
    (by decide) (by decide)
  exact h

/-- Normalisation is *not* the identity on unclean paths, which is why the constructor and the
options route (which does not normalise) can differ there: `nodes_uri: ./n`. -/
example : lexicalNormal "/i/./n".toList = "/i/n".toList ∧
    withFileName "/i/cfg.yml".toList "./n".toList = "/i/./n".toList := by
  constructor <;> rfl

end C20
end Reclass
