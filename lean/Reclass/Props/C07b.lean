/-
  C07b — C07 END TO END: the parameters that `Reclass::render_node` (model: `renderNode`,
  `renderNodeSrc`) returns for a node are plain data at every position.

  C07 (`Props/C07`) is a statement about `render_parameters` on *one* well-formed mapping.  This
  file composes it with the decoder (`NodeM.ofSrc`), the include walk (`renderImpl` /
  `walkClasses`), the merges (`mergeInto`) and the `_reclass_` metadata (`MetaM.asReclass`):

    for every inventory whose class and node files decode from YAML with at most one leading
    `=`/`~` marker per key (`InvOK`), whatever `renderNode` returns successfully has parameters
    that are `Closed` (no unparsed string, no layer list, at any depth) and `WF` (every key of
    every mapping marker-free and unique),

  for every amount of walk fuel, every include graph (cyclic ones included), with or without
  references in include entries.  The invariant carried through the walk is `WF ∧ NoNest` of the
  accumulated parameters (`Reclass.WFN`).  Helper lemmas: `Lemmas/E2EL`.
-/
import Reclass.Lemmas.E2EL
import Reclass.Props.C07
import Reclass.Props.C13
namespace Reclass
namespace C07

/-! ### 1.–4. The invariant `WF ∧ NoNest` through decoding, merging, walking -/

/-- **Decoding.** The parameters of a class or node file whose keys carry at most one marker are
well-formed and free of nested layer lists. -/
theorem ofSrc_wf {loc : Option (List Str)} {src : ClassSrc} {n : NodeM} (hs : SrcOK src)
    (h : NodeM.ofSrc loc src = .ok n) : WF n.params.toValue ∧ NoNest n.params.toValue :=
  ofSrc_wfn hs h

/-- `Mapping::merge` of mappings without nested layer lists has none: values collected under one
key become *one* layer list of non-layer-list values (`combine` splices).  (`NoNest` counterpart
of `merge_wf`.) -/
theorem merge_noNest {a b c : Mapping} (ha : NoNest a.toValue) (hb : NoNest b.toValue)
    (h : Mapping.merge a b = .ok c) : NoNest c.toValue :=
  Reclass.merge_noNest ha hb h

/-- **Merging.** `Node::merge_into` keeps `WF ∧ NoNest` of the parameters. -/
theorem mergeInto_wf {self other root' : NodeM}
    (hs : WF self.params.toValue ∧ NoNest self.params.toValue)
    (ho : WF other.params.toValue ∧ NoNest other.params.toValue)
    (h : mergeInto self other = .ok root') :
    WF root'.params.toValue ∧ NoNest root'.params.toValue :=
  mergeInto_wfn hs ho h

/-- **The include walk.** For an `InvOK` inventory, `render_impl` started on an accumulator with
`WF ∧ NoNest` parameters (and a node with such parameters) ends with one — for every fuel, every
`seen` list, every include graph. -/
theorem walk_wf {r : Inv} (hr : InvOK r) {n : Nat} {self : NodeM} {seen : List Str} {root : NodeM}
    {seen' : List Str} {root' : NodeM}
    (hs : WF self.params.toValue ∧ NoNest self.params.toValue)
    (hroot : WF root.params.toValue ∧ NoNest root.params.toValue)
    (h : renderImpl n r self seen root = .ok (seen', root')) :
    WF root'.params.toValue ∧ NoNest root'.params.toValue :=
  renderImpl_wfn hr hs hroot h

/-- The same for the class loop alone. -/
theorem walkClasses_wf {r : Inv} (hr : InvOK r) {n : Nat} {loc : Option (List Str)}
    {l seen : List Str} {root : NodeM} {seen' : List Str} {root' : NodeM}
    (hroot : WF root.params.toValue ∧ NoNest root.params.toValue)
    (h : walkClasses n r loc l seen root = .ok (seen', root')) :
    WF root'.params.toValue ∧ NoNest root'.params.toValue :=
  walkClasses_wfn hr hroot h

/-- Fuel-free form on the big-step relation of `Spec/Walk`: the accumulator after the walk and
every class merged on the way have `WF ∧ NoNest` parameters. -/
theorem walk_wf_trace {r : Inv} (hr : InvOK r) {loc : Option (List Str)} {l seen : List Str}
    {root : NodeM} {seen' : List Str} {root' : NodeM} {tr : List TraceEntry}
    (h : Walk r loc l seen root seen' root' tr)
    (hroot : WF root.params.toValue ∧ NoNest root.params.toValue) :
    (WF root'.params.toValue ∧ NoNest root'.params.toValue) ∧
    ∀ t ∈ tr, WF t.2.params.toValue ∧ NoNest t.2.params.toValue :=
  Walk.wfn hr h hroot

/-- **`_reclass_`.** The mapping built by `NodeInfoMeta::as_reclass` is well-formed and free of
nested layer lists (strings, one sequence of strings, one mapping of those). -/
theorem asReclass_wf {m : MetaM} {cfg : NodeCfg} {rc : Mapping} (h : m.asReclass cfg = .ok rc) :
    WF rc.toValue ∧ NoNest rc.toValue :=
  asReclass_wfn h

/-- What is handed to the final `render_parameters` — the merge of all walked classes, the
`_reclass_` base and the node itself — is `WF ∧ NoNest`. -/
theorem renderNode_merged_wf {fuel : Nat} {r : Inv} {name : Str} {info : NodeInfoM} (hr : InvOK r)
    (h : renderNode fuel r name = .ok info) :
    ∃ fin : NodeM, (WF fin.params.toValue ∧ NoNest fin.params.toValue) ∧
      renderParamsF defaultFuel fin.params = .ok info.params ∧
      info.apps = fin.apps.items ∧ info.classes = fin.classes.items :=
  renderNode_fin_wfn hr h

/-! ### 5. The rendered parameters of a node are plain data -/

/-- `renderNodeSrc` form (explicit node file and metadata). -/
theorem renderNodeSrc_closed {fuel : Nat} {r : Inv} {nmeta : MetaM} {src : ClassSrc}
    {info : NodeInfoM} (hr : InvOK r) (hs : SrcOK src)
    (h : renderNodeSrc fuel r nmeta src = .ok info) :
    Closed info.params.toValue ∧ WF info.params.toValue := by
  obtain ⟨fin, hfin, hp, _⟩ := renderNodeSrc_fin_wfn hr hs h
  exact render_closed hfin.1 hp

/-- **C07 end to end.** For every inventory whose files decode from YAML with at most one leading
marker per key, the parameters of every successfully rendered node contain no unresolved string
and no layer list at any position (only null, bool, number, literal string, sequence, mapping),
and every key of every mapping in them is free of `=`/`~` markers and unique — through the whole
include walk, for every fuel. -/
theorem renderNode_closed {fuel : Nat} {r : Inv} {name : Str} {info : NodeInfoM} (hr : InvOK r)
    (h : renderNode fuel r name = .ok info) :
    Closed info.params.toValue ∧ WF info.params.toValue := by
  obtain ⟨fin, hfin, hp, _⟩ := renderNode_fin_wfn hr h
  exact render_closed hfin.1 hp

/-- Rendering the rendered parameters of a node again changes nothing (`C07.render_idempotent`
applied end to end). -/
theorem renderNode_idempotent {fuel k : Nat} {r : Inv} {name : Str} {info : NodeInfoM}
    (hr : InvOK r) (h : renderNode fuel r name = .ok info) (hk : size info.params.toValue ≤ k) :
    ∃ out', renderParamsF k info.params = .ok out' ∧
      erase out'.toValue = erase info.params.toValue ∧
      (∀ x, x ∈ out'.ck ↔ x ∈ info.params.ck ∧ x ∈ keys info.params.es) ∧
      (∀ x, x ∈ out'.ok ↔ x ∈ info.params.ok ∧ x ∈ keys info.params.es) := by
  obtain ⟨hc, hw⟩ := renderNode_closed hr h
  exact render_idempotent hc hw hk

/-! ### 8. The whole inventory -/

/-- **Every node stored in a rendered inventory has plain parameters**: if `Inventory::render`
succeeds on per-node results each of which came from `renderNode` on an `InvOK` inventory, every
stored node has `Closed ∧ WF` parameters. -/
theorem inventory_nodes_closed {results : List (Str × R NodeInfoM)} {inv : InventoryM}
    (h : Inventory.render results = .ok inv)
    (hres : ∀ name info, (name, .ok info) ∈ results →
      ∃ fuel r, InvOK r ∧ renderNode fuel r name = .ok info) :
    ∀ name info, (name, info) ∈ inv.nodes →
      Closed info.params.toValue ∧ WF info.params.toValue := by
  intro name info hmem
  obtain ⟨fuel, r, hr, hn⟩ := hres name info (((C13.nodes_exact h).2 name info).1 hmem)
  exact renderNode_closed hr hn

/-- The instance for `Reclass::render_inventory`: the results are `renderNode` of the discovered
node names of one `InvOK` inventory, in any order. -/
theorem render_inventory_closed {r : Inv} (hr : InvOK r) {fuel : Nat} {names : List Str}
    {inv : InventoryM}
    (h : Inventory.render (names.map fun n => (n, renderNode fuel r n)) = .ok inv) :
    ∀ name info, (name, info) ∈ inv.nodes →
      Closed info.params.toValue ∧ WF info.params.toValue := by
  refine inventory_nodes_closed h ?_
  intro name info hmem
  obtain ⟨n, _, hn⟩ := List.mem_map.1 hmem
  simp only [Prod.mk.injEq] at hn
  obtain ⟨rfl, hn⟩ := hn
  exact ⟨fuel, r, hr, hn⟩

/-! ### Non-vacuity -/

/-- The example inventory satisfies the hypothesis (checked by evaluation of `invOKB`). -/
example : InvOK exInvE2E := exInvE2E_ok

/-- Node `n1` of the example inventory renders (layers under `a` merged, `~b` overridden, the
references `${a:x}` and `${_reclass_:name:short}` resolved, the `=`/`~` markers gone) … -/
example : nodeJson (renderNode 30 exInvE2E "n1".toList) = some
    ("{\"_reclass_\":{\"environment\":\"base\",".toList ++
     "\"name\":{\"full\":\"n1\",\"parts\":[\"n1\"],".toList ++
     "\"path\":\"n1\",\"short\":\"n1\"}},".toList ++
     "\"a\":{\"x\":\"1\",\"y\":2,\"z\":\"n1\"},".toList ++ "\"b\":\"over\",".toList ++
     "\"k\":\"v\",\"l\":[\"1\",true,null]}".toList) := by decide +kernel

/-- … so the conclusion of `renderNode_closed` holds for it. -/
example : ∃ info, renderNode 30 exInvE2E "n1".toList = .ok info ∧
    Closed info.params.toValue ∧ WF info.params.toValue := by
  cases h : renderNode 30 exInvE2E "n1".toList with
  | ok info => exact ⟨info, rfl, renderNode_closed exInvE2E_ok h⟩
  | error e =>
    have : nodeJson (renderNode 30 exInvE2E "n1".toList) ≠ none := by decide +kernel
    rw [h] at this; exact absurd rfl this

/-- The hypothesis `InvOK` rejects a doubly marked key … -/
example : ¬ SrcOK { params := [(.str "==a".toList, .null)] } := by
  simp only [SrcOK, SingleMarker, SingleMarkerEs, Yaml.keyOK]
  intro h; exact absurd h.1 (by decide)

/-- … and a marker hypothesis is needed end to end: with a class file
`{a: {x: true}, "===a": {x: false}}` the node renders *successfully*, but its parameters still
hold a layer list (cf. `C07.wf_needed`; decoding and the merge into the accumulator strip one
marker each, the stored key `=a` then collides with `a` during rendering), which `jsonOf`
refuses (`todo!()` in `From<Value> for serde_json::Value`). -/
def exInvTriple : Inv :=
  { classes := [("c".toList, { path := ["c.yml".toList], loc := [] },
      .ok { params := [(.str "a".toList, .map [(.str "x".toList, .bool true)]),
                       (.str "===a".toList, .map [(.str "x".toList, .bool false)])] })],
    nodes := [("n".toList, { path := ["n.yml".toList], loc := [] },
      .ok { classes := ["c".toList] })] }

example : TextL.errOf (renderNode 30 exInvTriple "n".toList) = none ∧
    TextL.errOf (match renderNode 30 exInvTriple "n".toList with
      | .ok info => jsonOf info.params.toValue
      | .error e => .error e) = some (.panic .jsonVl) := by decide +kernel

end C07
end Reclass
