/-
  C17c — the application list refines a per-name saturating counter.

  For every name `n` the state of a `RemovableList` is one of: present (`1`), pending
  negation (`-1`), neither (`0`).  A plain entry `n` adds one, an entry `~n` subtracts one,
  every other entry leaves `n` alone, and the result is clamped to `[-1, 1]`.  The theorems
  below show that `RList.appendIfNew / handleNegation / ofList / merge`
  (`src/list/removable.rs`) implement exactly this specification, for every list that
  satisfies the C17 invariant, every entry and every name — so membership of the final
  application list is decided by `run`, a fold over the entries that mentions no list at all.
-/
import Reclass.Props.C17
namespace Reclass
namespace C17c
open C17

/-- Abstract state of the name `n` in `l`. -/
def st (l : RList) (n : Str) : Int :=
  if n ∈ l.items then 1 else if n ∈ l.negs then -1 else 0

/-- What the entry `e` does to the name `n`. -/
def delta (e n : Str) : Int :=
  match e with
  | '~' :: m => if m = n then -1 else 0
  | _ => if e = n then 1 else 0

def clamp (i : Int) : Int := max (-1) (min 1 i)

/-- The specification: a fold over the entries, no list involved. -/
def run (c : Int) (es : List Str) (n : Str) : Int :=
  es.foldl (fun c e => clamp (c + delta e n)) c

theorem st_range (l : RList) (n : Str) : st l n = 1 ∨ st l n = -1 ∨ st l n = 0 := by
  unfold st
  by_cases a : n ∈ l.items <;> by_cases b : n ∈ l.negs <;> simp [a, b]

theorem st_handleNegation (l : RList) (m n : Str) (h : Inv l) :
    st (l.handleNegation m) n = clamp (st l n + (if m = n then -1 else 0)) := by
  obtain ⟨hi, hn, hd⟩ := h
  unfold RList.handleNegation
  by_cases hm : m ∈ l.items
  · simp only [hm, if_true]
    by_cases e : m = n
    · subst e
      have : m ∉ l.negs := hd m hm
      (simp [st, removeFirst_eq_filter hi, hm, this, clamp] <;> omega)
    · have hne : (n != m) = true := by simp; exact fun h => e h.symm
      simp only [st, removeFirst_eq_filter hi, List.mem_filter, hne, and_true, e, if_false,
        Int.add_zero]
      by_cases a : n ∈ l.items <;> by_cases b : n ∈ l.negs <;> (simp [a, b, clamp] <;> omega)
  · simp only [hm, if_false]
    by_cases hm2 : m ∈ l.negs
    · simp only [hm2, if_true]
      by_cases e : m = n
      · subst e; (simp [st, hm, hm2, clamp] <;> omega)
      · simp only [e, if_false, Int.add_zero]
        by_cases a : n ∈ l.items <;> by_cases b : n ∈ l.negs <;> (simp [st, a, b, clamp] <;> omega)
    · simp only [hm2, if_false]
      by_cases e : m = n
      · subst e; (simp [st, hm, hm2, clamp] <;> omega)
      · have : ¬ n = m := fun h => e h.symm
        simp only [st, List.mem_append, List.mem_singleton, this, or_false, e, if_false,
          Int.add_zero]
        by_cases a : n ∈ l.items <;> by_cases b : n ∈ l.negs <;> (simp [a, b, clamp] <;> omega)

/-- One entry moves the counter of every name by `delta`, clamped. -/
theorem st_appendIfNew (l : RList) (e n : Str) (h : Inv l) :
    st (l.appendIfNew e) n = clamp (st l n + delta e n) := by
  unfold RList.appendIfNew delta
  split
  · rename_i m; exact st_handleNegation l m n h
  · rename_i hx
    obtain ⟨hi, hn, hd⟩ := h
    by_cases hp : e ∈ l.negs
    · simp only [hp, if_true]
      have hni : e ∉ l.items := fun hh => hd e hh hp
      by_cases q : e = n
      · subst q; (simp [st, removeFirst_eq_filter hn, hni, hp, clamp] <;> omega)
      · have hne : (n != e) = true := by simp; exact fun h => q h.symm
        simp only [st, removeFirst_eq_filter hn, List.mem_filter, hne, and_true, q, if_false,
          Int.add_zero]
        by_cases a : n ∈ l.items <;> by_cases b : n ∈ l.negs <;> (simp [a, b, clamp] <;> omega)
    · simp only [hp, if_false]
      by_cases hi2 : e ∈ l.items
      · simp only [hi2, if_true]
        by_cases q : e = n
        · subst q; (simp [st, hi2, clamp] <;> omega)
        · simp only [q, if_false, Int.add_zero]
          by_cases a : n ∈ l.items <;> by_cases b : n ∈ l.negs <;> (simp [st, a, b, clamp] <;> omega)
      · simp only [hi2, if_false]
        by_cases q : e = n
        · subst q; (simp [st, hi2, hp, clamp] <;> omega)
        · have : ¬ n = e := fun h => q h.symm
          simp only [st, List.mem_append, List.mem_singleton, this, or_false, q, if_false,
            Int.add_zero]
          by_cases a : n ∈ l.items <;> by_cases b : n ∈ l.negs <;> (simp [a, b, clamp] <;> omega)

/-- Any sequence of entries: the list's state for `n` is the specification's. -/
theorem st_foldl (es : List Str) (l : RList) (h : Inv l) (n : Str) :
    st (es.foldl RList.appendIfNew l) n = run (st l n) es n := by
  induction es generalizing l with
  | nil => rfl
  | cons e es ih =>
    simp only [List.foldl_cons, run]
    rw [ih _ (appendIfNew_inv l e h), st_appendIfNew l e n h]; rfl

theorem st_empty (n : Str) : st {} n = 0 := by simp [st]

/-- A list built from a file's entries. -/
theorem st_ofList (es : List Str) (n : Str) : st (RList.ofList es) n = run 0 es n := by
  unfold RList.ofList; rw [st_foldl es {} inv_empty n, st_empty]

/-- Membership of the final list is decided by the specification alone. -/
theorem mem_ofList_iff (es : List Str) (n : Str) :
    n ∈ (RList.ofList es).items ↔ run 0 es n = 1 := by
  rw [← st_ofList]
  unfold st
  constructor
  · intro h; simp [h]
  · intro h; by_cases a : n ∈ (RList.ofList es).items
    · exact a
    · simp only [a, if_false] at h; split at h <;> simp at h

/-- Pending negations of the final list are decided by the specification as well. -/
theorem mem_negs_ofList_iff (es : List Str) (n : Str) :
    n ∈ (RList.ofList es).negs ↔ run 0 es n = -1 := by
  rw [← st_ofList]
  have hinv := ofList_inv es
  unfold st
  constructor
  · intro h
    have : n ∉ (RList.ofList es).items := fun hi => hinv.2.2 n hi h
    simp [this, h]
  · intro h
    by_cases a : n ∈ (RList.ofList es).items
    · simp [a] at h
    · simp only [a, if_false] at h
      by_cases b : n ∈ (RList.ofList es).negs
      · exact b
      · simp [b] at h

/-- The specification never leaves `{-1, 0, 1}`. -/
theorem run_range (es : List Str) (n : Str) :
    run 0 es n = 1 ∨ run 0 es n = -1 ∨ run 0 es n = 0 := by
  rw [← st_ofList]; exact st_range _ n

theorem foldl_handleNegation_eq (ns : List Str) (l : RList) :
    ns.foldl RList.handleNegation l = (ns.map ('~' :: ·)).foldl RList.appendIfNew l := by
  induction ns generalizing l with
  | nil => rfl
  | cons m ms ih => simp only [List.foldl_cons, List.map_cons]; rw [ih]; rfl

/-- Merging another list replays its pending negations, then its items. -/
theorem st_merge (l o : RList) (h : Inv l) (n : Str) :
    st (l.merge o) n = run (st l n) (o.negs.map ('~' :: ·) ++ o.items) n := by
  unfold RList.merge
  rw [foldl_handleNegation_eq, ← List.foldl_append]
  exact st_foldl _ l h n

/-- Entries that do not mention `n` leave it alone. -/
theorem run_unmentioned (c : Int) (es : List Str) (n : Str) (hc : c = 1 ∨ c = -1 ∨ c = 0)
    (h : ∀ e ∈ es, delta e n = 0) : run c es n = c := by
  induction es generalizing c with
  | nil => rfl
  | cons e es ih =>
    have h0 : delta e n = 0 := h e (by simp)
    have hcl : clamp (c + delta e n) = c := by
      rw [h0]; rcases hc with r | r | r <;> (simp [r, clamp] <;> omega)
    simp only [run, List.foldl_cons]
    rw [hcl]; exact ih c hc (fun e he => h e (by simp [he]))

theorem clamp_range (i : Int) : clamp i = 1 ∨ clamp i = -1 ∨ clamp i = 0 := by
  unfold clamp; omega

/-- The state of `n` depends only on the entries that mention `n`, in their order: every other
entry can be dropped (or inserted anywhere) without changing it. -/
theorem run_filter (c : Int) (es : List Str) (n : Str) (hc : c = 1 ∨ c = -1 ∨ c = 0) :
    run c es n = run c (es.filter (fun e => delta e n != 0)) n := by
  induction es generalizing c with
  | nil => rfl
  | cons e es ih =>
    by_cases h0 : delta e n = 0
    · have hcl : clamp (c + delta e n) = c := by
        rw [h0]; rcases hc with r | r | r <;> (simp [r, clamp] <;> omega)
      have hf : (e :: es).filter (fun e => delta e n != 0) = es.filter (fun e => delta e n != 0) := by
        simp [h0]
      rw [hf, ← ih c hc]
      simp only [run, List.foldl_cons]; rw [hcl]
    · have hf : (e :: es).filter (fun e => delta e n != 0) =
          e :: es.filter (fun e => delta e n != 0) := by
        simp [h0]
      rw [hf]
      simp only [run, List.foldl_cons]
      exact ih _ (clamp_range _)

example : run 0 ["~b".toList, "b".toList, "b".toList] "b".toList = 1 := by decide
example : run 0 ["b".toList, "~b".toList, "~b".toList, "b".toList] "b".toList = 0 := by decide
example : "a".toList ∈ (RList.ofList ["a".toList, "~b".toList]).items := by decide

end C17c
end Reclass
