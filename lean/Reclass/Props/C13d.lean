/-
  C13d — The two indexes are built independently of each other.

  The application index is a function of the nodes' names and application lists only, the class
  index of their names and class lists only: a string that is both a class name and an
  application name (a class `nginx` that enables the application `nginx`) is indexed twice, once
  in each index, and what one index contains never influences the other.

  * `apps_index_independent_of_class_lists` — replacing every node's class list by anything
    (also by its application list, or by the empty list) leaves the application index unchanged.
  * `class_index_independent_of_app_lists` — the same with the roles swapped.
-/
import Reclass.Props.C13
namespace Reclass
namespace C13d

/-- Replace the class list of every successfully rendered node. -/
def setClasses (g : Str → NodeInfoM → List Str) (p : Str × R NodeInfoM) : Str × R NodeInfoM :=
  match p with
  | (name, .ok info) => (name, .ok { info with classes := g name info })
  | (name, .error e) => (name, .error e)

/-- Replace the application list of every successfully rendered node. -/
def setApps (g : Str → NodeInfoM → List Str) (p : Str × R NodeInfoM) : Str × R NodeInfoM :=
  match p with
  | (name, .ok info) => (name, .ok { info with apps := g name info })
  | (name, .error e) => (name, .error e)

theorem collect_apps_indep (g : Str → NodeInfoM → List Str) :
    ∀ (results : List (Str × R NodeInfoM)) (a b : InventoryM), a.apps = b.apps →
      match Inventory.collect results a, Inventory.collect (results.map (setClasses g)) b with
      | .ok x, .ok y => x.apps = y.apps
      | .error (.nodeFailed n _), .error (.nodeFailed n' _) => n = n'
      | _, _ => False
  | [], a, b, h => by simpa [Inventory.collect] using h
  | (name, .error e) :: rest, a, b, _ => by simp [Inventory.collect, setClasses]
  | (name, .ok info) :: rest, a, b, h => by
    simp only [List.map_cons, setClasses, Inventory.collect]
    exact collect_apps_indep g rest _ _ (by simp [h])

/-- **The application index does not depend on the class lists.** -/
theorem apps_index_independent_of_class_lists (g : Str → NodeInfoM → List Str)
    (results : List (Str × R NodeInfoM)) (inv : InventoryM)
    (h : Inventory.render results = .ok inv) :
    ∃ inv', Inventory.render (results.map (setClasses g)) = .ok inv' ∧ inv'.apps = inv.apps := by
  have key := collect_apps_indep g results {} {} rfl
  unfold Inventory.render at h ⊢
  rw [h] at key
  cases h2 : Inventory.collect (results.map (setClasses g)) {} with
  | error e => simp [h2] at key
  | ok y =>
    simp only [h2] at key
    exact ⟨y, rfl, key.symm⟩

theorem collect_classes_indep (g : Str → NodeInfoM → List Str) :
    ∀ (results : List (Str × R NodeInfoM)) (a b : InventoryM), a.classes = b.classes →
      match Inventory.collect results a, Inventory.collect (results.map (setApps g)) b with
      | .ok x, .ok y => x.classes = y.classes
      | .error (.nodeFailed n _), .error (.nodeFailed n' _) => n = n'
      | _, _ => False
  | [], a, b, h => by simpa [Inventory.collect] using h
  | (name, .error e) :: rest, a, b, _ => by simp [Inventory.collect, setApps]
  | (name, .ok info) :: rest, a, b, h => by
    simp only [List.map_cons, setApps, Inventory.collect]
    exact collect_classes_indep g rest _ _ (by simp [h])

/-- **The class index does not depend on the application lists.** -/
theorem class_index_independent_of_app_lists (g : Str → NodeInfoM → List Str)
    (results : List (Str × R NodeInfoM)) (inv : InventoryM)
    (h : Inventory.render results = .ok inv) :
    ∃ inv', Inventory.render (results.map (setApps g)) = .ok inv' ∧ inv'.classes = inv.classes := by
  have key := collect_classes_indep g results {} {} rfl
  unfold Inventory.render at h ⊢
  rw [h] at key
  cases h2 : Inventory.collect (results.map (setApps g)) {} with
  | error e => simp [h2] at key
  | ok y =>
    simp only [h2] at key
    exact ⟨y, rfl, key.symm⟩

/-! ### Non-vacuity: a class and an application both called `nginx` on two nodes -/

private def nm (s : String) : Str := s.toList
private def mk (n : String) : Str × R NodeInfoM :=
  (nm n, .ok { nmeta := default, apps := [nm "nginx"], classes := [nm "nginx"], params := {} })

example : ∃ inv, Inventory.render [mk "a", mk "b"] = .ok inv ∧
    inv.apps.map (·.1) = [nm "nginx"] ∧ inv.classes.map (·.1) = [nm "nginx"] := ⟨_, rfl, rfl, rfl⟩

end C13d
end Reclass
