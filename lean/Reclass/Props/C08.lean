/-
  C08 — Reference loops are reported, never followed without bound; acyclic references
  (repeated use, diamonds, chains up to the documented depth limit 64) are never rejected
  as loops.

  Property theorems about the model functions `interp` (`Value::interpolate`), `tokResolve`
  (`Token::resolve`), `interpL`/`interpEs`/`interpVl`/`layersStr`/`slice` (the loops that copy
  `ResolveState`), `renderedF`/`renderParamsF`.  Helper lemmas live in `Lemmas/Fuel`.

  Contents
  * `maxDepth_is_64`                                   — the documented limit;
  * `fuel_mono`, `renderParams_fuel_mono`              — fuel never changes an answer;
  * `depth_seen_mono`, `ref_resolution_deepens`        — the state only grows along a chain;
  * `seen_blocks`, `depth_blocks`, `depth_bounded`     — the two stopping mechanisms;
  * `cycle_is_loop` (+ `self_ref_is_loop`, `two_cycle_is_loop`, `cycle_never_renders`)
                                                       — every k-cycle (k ≤ 63) of whole-value
                                                         references is reported as `Err.loop`;
  * `chain_resolves`                                   — acyclic chains needing ≤ 64 resolutions
                                                         resolve (no false loop / depth error);
  * `sibling_isolation_*`, `seq_pointwise`, `repeated_ref_ok`
                                                       — list elements, mapping entries, layers
                                                         and token pieces get copies of the
                                                         incoming state (repeated use, diamonds);
  * `interp_terminates`, `interp_settles`, `renderParams_settles`
                                                       — rendering always comes back with a
                                                         result or an error.
  Whole-value reference strings are characterised by a parse hypothesis
  (`Token.parse s = .ok (some (.ref [.lit a]))`), discharged for concrete names by kernel
  evaluation in the examples.
-/
import Reclass.Lemmas.Fuel
namespace Reclass
namespace C08

/-! ### The documented limit -/

/-- The depth limit of the model is the constant extracted from the Rust source
(`RESOLVE_MAX_DEPTH`), and that constant is 64. -/
theorem maxDepth_is_64 : maxDepth = 64 := rfl

/-! ### Fuel never changes an answer; state only grows -/

/-- **Fuel independence.** The fuel argument of the model only ever produces the distinguished
`Err.fuel` outcome: any other outcome of `Value::interpolate` at fuel `n` is the outcome at
every larger fuel.  (The same holds for the other 12 functions of the mutual block, see
`Reclass.monoAt` and `Reclass.*_fuel_mono_le`.) -/
theorem fuel_mono {n m : Nat} (hle : n ≤ m) (root : Mapping) (v : Value) (st : RState)
    {r : R (Value × RState)} (h : interp n root v st = r) (hr : r ≠ .error .fuel) :
    interp m root v st = r :=
  interp_fuel_mono_le hle root v st h hr

/-- Fuel independence for the top-level entry point `render_parameters`. -/
theorem renderParams_fuel_mono {n m : Nat} (hle : n ≤ m) (mp : Mapping) {r : R Mapping}
    (h : renderParamsF n mp = r) (hr : r ≠ .error .fuel) : renderParamsF m mp = r :=
  renderParamsF_fuel_mono_le hle mp h hr

/-- **The state only grows along a resolution chain**: the state handed back by
`Value::interpolate` is at least as deep, and has seen at least the same paths, as the one
handed in. -/
theorem depth_seen_mono {n : Nat} {root : Mapping} {v : Value} {st : RState} {x : Value}
    {st' : RState} (h : interp n root v st = .ok (x, st')) :
    st.depth ≤ st'.depth ∧ st.seen ⊆ st'.seen :=
  ⟨(depth_mono h).1, (depth_mono h).2.1⟩

/-- Every successful `Ref` resolution hands on a strictly deeper state, and only happens below
the limit. -/
theorem ref_resolution_deepens {n : Nat} {root : Mapping} {parts : List Token} {st : RState}
    {x : Value} {st' : RState} (h : tokResolve n root (.ref parts) st = .ok (x, st')) :
    st.depth < st'.depth ∧ st.depth < maxDepth :=
  tokResolve_ref_depth_lt h

/-! ### The mechanism -/

/-- **A path already on the current chain is a loop.** When the reference's path text renders
to a path that is in `seen`, `Token::resolve` reports a reference loop (provided the depth
limit was not hit first). -/
theorem seen_blocks (n : Nat) (root : Mapping) (parts : List Token) (st : RState) (path : Str)
    (hd : st.depth + 1 ≤ maxDepth)
    (hs : slice n root parts { st with depth := st.depth + 1 } = .ok path)
    (hm : path ∈ st.seen) :
    tokResolve (n+1) root (.ref parts) st = .error .loop := by
  rw [tokResolve_ref]
  have hd' : ¬ (st.depth + 1 > maxDepth) := by omega
  simp only [hd', if_false, hs, hm, if_true]

/-- **The depth limit stops everything.** At depth `maxDepth` (= 64) no further reference is
resolved: `Token::resolve` reports the depth error for the current parameter. -/
theorem depth_blocks (n : Nat) (root : Mapping) (parts : List Token) (st : RState)
    (hd : st.depth ≥ maxDepth) :
    tokResolve (n+1) root (.ref parts) st = .error (.depth st.curKey) := by
  rw [tokResolve_ref]
  have hd' : st.depth + 1 > maxDepth := by omega
  simp only [hd', if_true]
  rfl

/-- A `Ref` is never resolved at depth `maxDepth` or more, whatever the fuel: the outcome is the
depth error or (fuel 0) the fuel error, never a value and never unbounded recursion. -/
theorem depth_bounded (n : Nat) (root : Mapping) (parts : List Token) (st : RState)
    (hd : st.depth ≥ maxDepth) (x : Value) (st' : RState) :
    tokResolve n root (.ref parts) st ≠ .ok (x, st') := by
  cases n with
  | zero => simp [tokResolve]
  | succ n => rw [depth_blocks n root parts st hd]; simp

/-! ### Cycles of whole-value references -/

/-- Core of the cycle theorems: along an infinite chain `p 0 → p 1 → …` of whole-value
references (`root[p i] = "${p (i+1)}"`), if some later link `p (j+1+r)` is already in `seen`
and the limit leaves room for `r+1` more resolutions, rendering the link `j` reports a loop. -/
theorem chain_hits_seen (root : Mapping) (p s : Nat → Str)
    (hget : ∀ i, root.get (.str (p i)) = some (.str (s i)))
    (hparse : ∀ i, Token.parse (s i) = .ok (some (.ref [.lit (p (i+1))])))
    (hcolon : ∀ i, ':' ∉ p i) :
    ∀ (r j : Nat) (st : RState), p (j+1+r) ∈ st.seen → st.depth + r + 1 ≤ maxDepth →
      interp (4*r+6) root (.str (s j)) st = .error .loop := by
  intro r
  induction r with
  | zero =>
    intro j st hm hd
    rw [interp_wholeRef 0 root (s j) (p (j+1)) st _ (hparse j) (hcolon _) (hget _)]
    have hd' : ¬ (st.depth + 1 > maxDepth) := by omega
    simp only [hd', if_false]
    simp only [Nat.add_zero] at hm
    simp only [hm, if_true]
  | succ r ih =>
    intro j st hm hd
    have e : 4 * (r + 1) + 6 = (4 * r + 4) + 6 := by omega
    rw [e, interp_wholeRef (4*r+4) root (s j) (p (j+1)) st _ (hparse j) (hcolon _) (hget _)]
    have hd' : ¬ (st.depth + 1 > maxDepth) := by omega
    simp only [hd', if_false]
    by_cases hs : p (j+1) ∈ st.seen
    · simp only [hs, if_true]
    · simp only [hs, if_false]
      have e2 : 4 * r + 4 + 3 = (4 * r + 6) + 1 := by omega
      rw [e2, finalLoop_succ]
      have hstr : ((Value.str (s (j+1))).isStr || (Value.str (s (j+1))).isVl) = true := rfl
      simp only [hstr, if_true]
      rw [ih (j+1) { st with depth := st.depth + 1, seen := p (j+1) :: st.seen }
        (by
          have e3 : j + 1 + 1 + r = j + 1 + (r + 1) := by omega
          rw [e3]; exact List.mem_cons_of_mem _ hm)
        (by simp only; omega)]

/-- **Every cycle of whole-value references is reported as a loop.**  Names `p 0, p 1, …` with
`root[p i] = "${p (i+1)}"` and period `k ≥ 1` (`p (i+k) = p i`; the names need not be distinct).
Rendering the value of `p 0` from any state that leaves room for `k+1` resolutions below the
limit of 64 — in particular from the initial state for every `k ≤ 63` — gives `Err.loop`, for
every fuel `n ≥ 4k+6`.  Nothing is assumed about the rest of `root` or about `seen`. -/
theorem cycle_is_loop (root : Mapping) (p s : Nat → Str) (k : Nat) (hk : 1 ≤ k)
    (hper : ∀ i, p (i + k) = p i)
    (hget : ∀ i, root.get (.str (p i)) = some (.str (s i)))
    (hparse : ∀ i, Token.parse (s i) = .ok (some (.ref [.lit (p (i+1))])))
    (hcolon : ∀ i, ':' ∉ p i)
    (st : RState) (hd : st.depth + k + 1 ≤ maxDepth) (n : Nat) (hn : 4 * k + 6 ≤ n) :
    interp n root (.str (s 0)) st = .error .loop := by
  refine interp_fuel_mono_le hn root _ st ?_ (by simp)
  obtain ⟨k, rfl⟩ : ∃ k', k = k' + 1 := ⟨k - 1, by omega⟩
  have e : 4 * (k + 1) + 6 = (4 * k + 4) + 6 := by omega
  rw [e, interp_wholeRef (4*k+4) root (s 0) (p 1) st _ (hparse 0) (hcolon _) (hget _)]
  have hd' : ¬ (st.depth + 1 > maxDepth) := by omega
  simp only [hd', if_false]
  by_cases hs : p 1 ∈ st.seen
  · simp only [hs, if_true]
  · simp only [hs, if_false]
    have e2 : 4 * k + 4 + 3 = (4 * k + 6) + 1 := by omega
    rw [e2, finalLoop_succ]
    have hstr : ((Value.str (s 1)).isStr || (Value.str (s 1)).isVl) = true := rfl
    simp only [hstr, if_true]
    rw [chain_hits_seen root p s hget hparse hcolon k 1
      { st with depth := st.depth + 1, seen := p 1 :: st.seen }
      (by
        have e3 : 1 + 1 + k = 1 + (k + 1) := by omega
        rw [e3, hper 1]; exact List.mem_cons_self)
      (by simp only; omega)]

/-- **`a: ${a}` is a loop**: for every key text `a` (without `:`) whose value `s` parses to the
whole-value reference to `a` itself, rendering that value gives `Err.loop` — for every root
containing the entry, every state with room for two resolutions, every fuel `≥ 10`. -/
theorem self_ref_is_loop (root : Mapping) (a s : Str) (st : RState)
    (hparse : Token.parse s = .ok (some (.ref [.lit a]))) (hcolon : ':' ∉ a)
    (hget : root.get (.str a) = some (.str s))
    (hd : st.depth + 2 ≤ maxDepth) (n : Nat) (hn : 10 ≤ n) :
    interp n root (.str s) st = .error .loop :=
  cycle_is_loop root (fun _ => a) (fun _ => s) 1 (Nat.le_refl _) (fun _ => rfl) (fun _ => hget)
    (fun _ => hparse) (fun _ => hcolon) st hd n hn

/-- **`a: ${b}`, `b: ${a}` is a loop** (same generality as `self_ref_is_loop`; `a = b` allowed). -/
theorem two_cycle_is_loop (root : Mapping) (a b sa sb : Str) (st : RState)
    (hpa : Token.parse sa = .ok (some (.ref [.lit b])))
    (hpb : Token.parse sb = .ok (some (.ref [.lit a])))
    (hca : ':' ∉ a) (hcb : ':' ∉ b)
    (hga : root.get (.str a) = some (.str sa)) (hgb : root.get (.str b) = some (.str sb))
    (hd : st.depth + 3 ≤ maxDepth) (n : Nat) (hn : 14 ≤ n) :
    interp n root (.str sa) st = .error .loop := by
  have key := cycle_is_loop root (fun i => if i % 2 = 0 then a else b)
    (fun i => if i % 2 = 0 then sa else sb) 2 (by omega)
    (by intro i; simp)
    (by
      intro i
      rcases Nat.mod_two_eq_zero_or_one i with h | h <;> simp [h, hga, hgb])
    (by
      intro i
      rcases Nat.mod_two_eq_zero_or_one i with h | h
      · have h' : (i + 1) % 2 = 1 := by omega
        simp [h, h', hpa]
      · have h' : (i + 1) % 2 = 0 := by omega
        simp [h, h', hpb])
    (by
      intro i
      rcases Nat.mod_two_eq_zero_or_one i with h | h <;> simp [h, hca, hcb])
    st hd n hn
  simpa using key

/-- **A parameter set containing a reference cycle never renders**: whatever else is in `root`
and whatever the fuel, `render_parameters` does not return a mapping (it returns an error: the
loop error, or an error raised by an entry rendered earlier, or `Err.fuel` for tiny fuel). -/
theorem cycle_never_renders (root : Mapping) (p s : Nat → Str) (k : Nat) (hk : 1 ≤ k)
    (hk64 : k + 1 ≤ maxDepth)
    (hper : ∀ i, p (i + k) = p i)
    (hget : ∀ i, root.get (.str (p i)) = some (.str (s i)))
    (hparse : ∀ i, Token.parse (s i) = .ok (some (.ref [.lit (p (i+1))])))
    (hcolon : ∀ i, ':' ∉ p i) (n : Nat) (m : Mapping) :
    renderParamsF n root ≠ .ok m := by
  intro h
  unfold renderParamsF renderedF at h
  rcases hi : interp n root root.toValue {} with e | ⟨v', st'⟩
  · simp [hi] at h
  · cases n with
    | zero => simp [interp] at hi
    | succ n =>
      rw [Mapping.toValue, interp_map] at hi
      cases hes : interpEs n root root.es root.ck root.ok {} {} with
      | error e => simp [hes] at hi
      | ok m' =>
        obtain ⟨x, st1, hx⟩ := interpEs_ok_all hes _ _ (lookup_mem (hget 0))
        have hloop := cycle_is_loop root p s k hk hper hget hparse hcolon
          (({} : RState).pushMappingKey (.str (p 0))) (by simp [RState.pushMappingKey]; omega)
          (max n (4 * k + 6)) (Nat.le_max_right _ _)
        rw [interp_fuel_mono_le (Nat.le_max_left _ _) root _ _ hx (by simp)] at hloop
        simp at hloop

/-! ### Acyclic chains up to the limit resolve -/

/-- Values that `interpolate` leaves alone and that end the `while` loops of `resolve`. -/
def Scalar (v : Value) : Prop :=
  v.isStr = false ∧ v.isVl = false ∧ v.isMap = false ∧ v.isSeq = false

theorem interp_scalar {v : Value} (hv : Scalar v) (n : Nat) (root : Mapping) (st : RState) :
    interp (n+1) root v st = .ok (v, st) := by
  obtain ⟨h1, h2, h3, h4⟩ := hv
  cases v <;> first | rfl | simp [Value.isStr, Value.isVl, Value.isMap, Value.isSeq] at h1 h2 h3 h4

/-- Induction behind `chain_resolves`. -/
theorem chain_resolves_aux (root : Mapping) (p s : Nat → Str) (v : Value) (hv : Scalar v) :
    ∀ (k j : Nat) (st : RState) (sref : Str),
      Token.parse sref = .ok (some (.ref [.lit (p j)])) →
      (∀ i, i < k → root.get (.str (p (j+i))) = some (.str (s (j+i))) ∧
        Token.parse (s (j+i)) = .ok (some (.ref [.lit (p (j+i+1))]))) →
      root.get (.str (p (j+k))) = some v →
      (∀ i, i ≤ k → ':' ∉ p (j+i)) →
      (∀ i, i ≤ k → p (j+i) ∉ st.seen) →
      (∀ i i', i < i' → i' ≤ k → p (j+i) ≠ p (j+i')) →
      st.depth + k + 1 ≤ maxDepth →
      ∃ st', interp (4*k+6) root (.str sref) st = .ok (v, st') ∧ st'.depth = st.depth + k + 1 := by
  intro k
  induction k with
  | zero =>
    intro j st sref hsref _ hlast hcolon hseen _ hd
    rw [interp_wholeRef 0 root sref (p j) st v hsref (hcolon 0 (Nat.le_refl _)) hlast]
    have hd' : ¬ (st.depth + 1 > maxDepth) := by omega
    have hs : p j ∉ st.seen := hseen 0 (Nat.le_refl _)
    have hfin : ∀ st2, finalLoop (0+3) root v st2 = .ok (v, st2) := by
      intro st2
      rw [finalLoop_succ]; simp [hv.1, hv.2.1]
    simp only [hd', hs, if_false, hfin, interp_scalar hv]
    exact ⟨_, rfl, rfl⟩
  | succ k ih =>
    intro j st sref hsref hlinks hlast hcolon hseen hdist hd
    have h0 := hlinks 0 (Nat.succ_pos _)
    simp only [Nat.add_zero] at h0
    have e : 4 * (k + 1) + 6 = (4 * k + 4) + 6 := by omega
    rw [e, interp_wholeRef (4*k+4) root sref (p j) st _ hsref (hcolon 0 (Nat.zero_le _)) h0.1]
    have hd' : ¬ (st.depth + 1 > maxDepth) := by omega
    have hs : p j ∉ st.seen := hseen 0 (Nat.zero_le _)
    simp only [hd', hs, if_false]
    obtain ⟨st', hst', hdep⟩ := ih (j+1) { st with depth := st.depth + 1, seen := p j :: st.seen }
      (s j) h0.2
      (by
        intro i hi
        have := hlinks (i+1) (by omega)
        have e1 : j + 1 + i = j + (i + 1) := by omega
        rw [e1]; exact this)
      (by
        have e1 : j + 1 + k = j + (k + 1) := by omega
        rw [e1]; exact hlast)
      (by
        intro i hi
        have e1 : j + 1 + i = j + (i + 1) := by omega
        rw [e1]; exact hcolon (i+1) (by omega))
      (by
        intro i hi
        have e1 : j + 1 + i = j + (i + 1) := by omega
        rw [e1]
        intro hm
        rcases List.mem_cons.1 hm with heq | hm'
        · exact hdist 0 (i+1) (by omega) (by omega) (by simpa using heq.symm)
        · exact hseen (i+1) (by omega) hm')
      (by
        intro i i' hii hi'
        have e1 : j + 1 + i = j + (i + 1) := by omega
        have e2 : j + 1 + i' = j + (i' + 1) := by omega
        rw [e1, e2]; exact hdist (i+1) (i'+1) (by omega) (by omega))
      (by simp only; omega)
    have e2 : 4 * k + 4 + 3 = ((4 * k + 5) + 1) + 1 := by omega
    have hfin : finalLoop (4*k+4+3) root (.str (s j))
        { st with depth := st.depth + 1, seen := p j :: st.seen } = .ok (v, st') := by
      rw [e2, finalLoop_succ]
      have hstr : ((Value.str (s j)).isStr || (Value.str (s j)).isVl) = true := rfl
      simp only [hstr, if_true]
      rw [hst']
      simp only
      rw [finalLoop_succ]; simp [hv.1, hv.2.1]
    rw [hfin]
    simp only [interp_scalar hv]
    exact ⟨st', rfl, by rw [hdep]; simp only; omega⟩

/-- **Chains up to the limit are never rejected.**  An acyclic chain of whole-value references
`"${p 0}"`, `root[p 0] = "${p 1}"`, …, `root[p (k-1)] = "${p k}"`, `root[p k] = v` with `v`
a scalar, the `k+1` names pairwise distinct, resolves to `v` from the initial state whenever it
needs at most 64 resolutions (`k + 1 ≤ 64`): it is reported neither as a loop nor as too deep.
The final state records exactly `k+1` levels. -/
theorem chain_resolves (root : Mapping) (p s : Nat → Str) (v : Value) (hv : Scalar v)
    (k : Nat) (sref : Str)
    (hsref : Token.parse sref = .ok (some (.ref [.lit (p 0)])))
    (hlinks : ∀ i, i < k → root.get (.str (p i)) = some (.str (s i)) ∧
      Token.parse (s i) = .ok (some (.ref [.lit (p (i+1))])))
    (hlast : root.get (.str (p k)) = some v)
    (hcolon : ∀ i, i ≤ k → ':' ∉ p i)
    (hdist : ∀ i i', i < i' → i' ≤ k → p i ≠ p i')
    (hk : k + 1 ≤ maxDepth) (n : Nat) (hn : 4 * k + 6 ≤ n) :
    ∃ st', interp n root (.str sref) {} = .ok (v, st') ∧ st'.depth = k + 1 := by
  obtain ⟨st', h, hdep⟩ := chain_resolves_aux root p s v hv k 0 {} sref hsref
    (by intro i hi; simpa using hlinks i hi) (by simpa using hlast)
    (by intro i hi; simpa using hcolon i hi) (by intro i _; simp)
    (by intro i i' h1 h2; simpa using hdist i i' h1 h2) (by simpa using hk)
  exact ⟨st', interp_fuel_mono_le hn root _ _ h (by simp), by simpa using hdep⟩

/-! ### No false loops: siblings never see each other's state -/

/-- **Sequence elements get a copy of the incoming state.** Element `v` is interpolated from
`st` (with its index pushed), its final state is dropped, and the remaining elements are again
interpolated from `st`. -/
theorem sibling_isolation_seq (n : Nat) (root : Mapping) (v : Value) (vs : List Value) (idx : Nat)
    (st : RState) :
    interpL (n+1) root (v :: vs) idx st =
      match interp n root v (st.pushListIndex idx) with
      | .error e => .error e
      | .ok (x, _) =>
        match interpL n root vs (idx + 1) st with
        | .error e => .error e
        | .ok xs => .ok (x :: xs) := rfl

/-- **Mapping entries get a copy of the incoming state.** The state returned by one entry is
used only to word that entry's own flatten errors; the next entry starts from `st` again. -/
theorem sibling_isolation_map (n : Nat) (root : Mapping) (k : Key) (v : Value)
    (rest : List (Key × Value)) (ck ok : List Key) (st : RState) (acc : Mapping) :
    interpEs (n+1) root ((k, v) :: rest) ck ok st acc =
      match interp n root v (st.pushMappingKey k) with
      | .error e => .error e
      | .ok (v', st') =>
        match flat v' st' with
        | .error e => .error e
        | .ok v'' =>
          match acc.insertImpl k v'' (decide (k ∈ ck)) (decide (k ∈ ok)) with
          | .error e => .error e
          | .ok acc' => interpEs n root rest ck ok st acc' := rfl

/-- **Layers of a `ValueList` get a copy of the incoming state** (first loop of the
`ValueList` arm of `interpolate`). -/
theorem sibling_isolation_layers (n : Nat) (root : Mapping) (v : Value) (vs : List Value)
    (r : Value) (st : RState) :
    interpVl (n+1) root (v :: vs) r st =
      match interp n root v st with
      | .error e => .error e
      | .ok (x, st') =>
        match mergeV r x st' with
        | .error e => .error e
        | .ok r' => interpVl n root vs r' st := rfl

/-- **String layers in `interpolate_string_or_valuelist` get a copy of the incoming state.** -/
theorem sibling_isolation_strlayers (n : Nat) (root : Mapping) (v : Value) (vs : List Value)
    (st : RState) :
    layersStr (n+1) root (v :: vs) st =
      match (if v.isStr then (match interp n root v st with
                              | .error e => .error e
                              | .ok (x, _) => .ok x) else .ok v : R Value) with
      | .error e => .error e
      | .ok x =>
        match layersStr n root vs st with
        | .error e => .error e
        | .ok xs => .ok (x :: xs) := rfl

/-- **Pieces of a token list get a copy of the incoming state** (`interpolate_token_slice`):
the state threaded through one piece (`st'`, `st''`) is not handed to the next piece. -/
theorem sibling_isolation_pieces (n : Nat) (root : Mapping) (t : Token) (ts : List Token)
    (st : RState) :
    slice (n+1) root (t :: ts) st =
      match tokResolve n root t st with
      | .error e => .error e
      | .ok (v, st') =>
        match strLoop n root v st' with
        | .error e => .error e
        | .ok (v', st'') =>
          match sliceFinish n root v' st'' with
          | .error e => .error e
          | .ok s =>
            match slice n root ts st with
            | .error e => .error e
            | .ok s' => .ok (s ++ s') := rfl

/-- **A sequence succeeds exactly when its elements do, one by one, each from the incoming
state.**  (→) gives the per-element runs at the same fuel; (←) rebuilds the sequence result
from per-element runs.  So no element can be rejected as a loop because of what a sibling
resolved. -/
theorem seq_pointwise (root : Mapping) (l xs : List Value) (idx : Nat) (st : RState) :
    (∃ n, interpL n root l idx st = .ok xs) ↔
    (xs.length = l.length ∧ ∃ n, ∀ i (h : i < l.length) (h' : i < xs.length),
      ∃ st', interp n root l[i] (st.pushListIndex (idx + i)) = .ok (xs[i], st')) := by
  constructor
  · rintro ⟨n, h⟩
    obtain ⟨hlen, hall⟩ := interpL_ok_all h
    exact ⟨hlen, n, hall⟩
  · rintro ⟨hlen, n, hall⟩
    exact ⟨_, interpL_of_all l idx xs hlen hall⟩

/-- Entries of a mapping that interpolates successfully each interpolate from the incoming
state. -/
theorem map_entries_from_incoming_state {n : Nat} {root : Mapping} {ck ok : List Key} {st : RState}
    {es : List (Key × Value)} {acc m : Mapping} (h : interpEs n root es ck ok st acc = .ok m)
    (k : Key) (v : Value) (hm : (k, v) ∈ es) :
    ∃ x st', interp n root v (st.pushMappingKey k) = .ok (x, st') :=
  interpEs_ok_all h k v hm

/-- **The same reference used twice is fine.** If a value interpolates from the incoming state
(as element 0 and as element 1), then the two-element sequence `[v, v]` interpolates to the two
results: the second use does not see the `seen` entries of the first. -/
theorem repeated_ref_ok (n : Nat) (root : Mapping) (v : Value) (st : RState) (x x' : Value)
    (st1 st1' : RState)
    (h0 : interp n root v (st.pushListIndex 0) = .ok (x, st1))
    (h1 : interp n root v (st.pushListIndex 1) = .ok (x', st1')) :
    interpL (n+2) root [v, v] 0 st = .ok [x, x'] := by
  cases n with
  | zero => simp [interp] at h0
  | succ n =>
    rw [interpL_cons, interp_fuel_mono _ _ _ h0 (by simp)]
    simp only
    rw [interpL_cons, h1]
    simp only [interpL_nil]

/-! ### Rendering always comes back -/

/-- **Termination of `Value::interpolate`.**  For every root, every value and every resolution
state there is an amount of fuel at which the model returns a value or a genuine error, never
`Err.fuel`; by `fuel_mono` that outcome is then the outcome at every larger fuel.

Measure: (`maxDepth + 1 - st.depth`, size of token / value) — every `Ref` resolution hands a
strictly deeper state to everything it calls, and nothing is resolved beyond depth 64; the
second pass of the `ValueList` arm is handled by the size measure `Termination.sz` on
string-free values; the parser's own fuel is sufficient (`Termination.parse_noFuel`). -/
theorem interp_terminates (root : Mapping) (v : Value) (st : RState) :
    ∃ n, interp n root v st ≠ .error .fuel :=
  Termination.interp_terminates root v st

/-- The outcome of `Value::interpolate` is well defined: there is one non-fuel outcome `r` that
the model returns for all sufficiently large fuel.  The same holds for all 13 functions of the
mutual block (`Termination.allConv`). -/
theorem interp_settles (root : Mapping) (v : Value) (st : RState) :
    ∃ N r, r ≠ .error .fuel ∧ ∀ n, N ≤ n → interp n root v st = r :=
  (Termination.allConv Termination.parserTotal root _ st (Nat.le_refl _)).interp v

/-- **Rendering always comes back with a result or an error**: `render_parameters` settles on a
mapping or a genuine error for every parameter mapping. -/
theorem renderParams_settles (m : Mapping) :
    ∃ N r, r ≠ .error .fuel ∧ ∀ n, N ≤ n → renderParamsF n m = r := by
  obtain ⟨N, r, hne, c⟩ := interp_settles m m.toValue {}
  rcases r with e | ⟨v', st⟩
  · refine ⟨N, .error e, Termination.err_ne hne, fun n hn => ?_⟩
    simp only [renderParamsF, renderedF, c n hn]
  · cases hfl : flat v' st with
    | error e =>
      refine ⟨N, .error e, Termination.err_ne_of (Termination.flat_noFuel _ _) hfl, fun n hn => ?_⟩
      simp only [renderParamsF, renderedF, c n hn, hfl]
    | ok v'' =>
      refine ⟨N, (match v'' with
        | .map es ck ok => .ok ⟨es, ck, ok⟩
        | v => .error (.notMapping v.kind)), ?_, fun n hn => ?_⟩
      · cases v'' <;> simp
      · simp only [renderParamsF, renderedF, c n hn, hfl]
        cases v'' <;> rfl

/-! ### Non-vacuity and concrete instances -/

/-- `true` iff the outcome is the reference-loop error. -/
def isLoop {α : Type} : R α → Bool | .error .loop => true | _ => false
/-- `true` iff the outcome is the depth-limit error. -/
def isDepth {α : Type} : R α → Bool | .error (.depth _) => true | _ => false
/-- `true` iff the outcome is a value. -/
def isOk {α : Type} : R α → Bool | .ok _ => true | _ => false

/-- Bool test: `s` parses to the whole-value reference `${a}`. -/
def parsesToRefLit (s a : Str) : Bool :=
  match Token.parse s with
  | .ok (some (.ref [.lit b])) => b == a
  | _ => false

theorem parsesToRefLit_sound {s a : Str} (h : parsesToRefLit s a = true) :
    Token.parse s = .ok (some (.ref [.lit a])) := by
  unfold parsesToRefLit at h
  split at h
  · rename_i b hb; rw [hb]; simp at h; rw [h]
  · simp at h

theorem isLoop_sound {α : Type} {r : R α} (h : isLoop r = true) : r = .error .loop := by
  unfold isLoop at h; split at h <;> simp_all

/-- Bool test: rendering `root` succeeds and the JSON text of the result is `json`. -/
def rendersToJson (fuel : Nat) (root : Mapping) (json : String) : Bool :=
  match renderParamsF fuel root with
  | .ok m => (match jsonOf m.toValue with | .ok s => s == json.toList | _ => false)
  | _ => false

-- parse hypotheses are dischargeable for concrete names (kernel evaluation of the parser)
example : Token.parse "${a}".toList = .ok (some (.ref [.lit "a".toList])) :=
  parsesToRefLit_sound (by decide +kernel)
example : Token.parse "${foo_bar}".toList = .ok (some (.ref [.lit "foo_bar".toList])) :=
  parsesToRefLit_sound (by decide +kernel)

-- the cycle theorems apply to concrete roots, with arbitrary other content
example (st : RState) (hd : st.depth + 2 ≤ maxDepth) (n : Nat) (hn : 10 ≤ n) :
    interp n ⟨[(.str "x".toList, .num (.int 1)), (.str "a".toList, .str "${a}".toList)], [], []⟩
      (.str "${a}".toList) st = .error .loop :=
  self_ref_is_loop _ "a".toList "${a}".toList st (parsesToRefLit_sound (by decide +kernel)) (by decide) (by rfl) hd n hn

example (n : Nat) (hn : 14 ≤ n) :
    interp n ⟨[(.str "a".toList, .str "${b}".toList), (.str "b".toList, .str "${a}".toList)], [], []⟩
      (.str "${b}".toList) {} = .error .loop :=
  two_cycle_is_loop _ "a".toList "b".toList "${b}".toList "${a}".toList {} (parsesToRefLit_sound (by decide +kernel))
    (parsesToRefLit_sound (by decide +kernel)) (by decide) (by decide)
    (by rfl) (by rfl) (by decide) n hn

-- whole-program runs: 1-, 2-, 3-cycles, and a cycle through a nested path / embedded reference
example : renderParamsF 50 ⟨[(.str "a".toList, .str "${a}".toList)], [], []⟩ = .error .loop :=
  isLoop_sound (by decide +kernel)
example : renderParamsF 50 ⟨[(.str "a".toList, .str "${b}".toList),
    (.str "b".toList, .str "${a}".toList)], [], []⟩ = .error .loop := isLoop_sound (by decide +kernel)
example : renderParamsF 50 ⟨[(.str "a".toList, .str "${b}".toList), (.str "b".toList, .str "${c}".toList),
    (.str "c".toList, .str "x-${a}".toList)], [], []⟩ = .error .loop := isLoop_sound (by decide +kernel)
example : renderParamsF 50 ⟨[(.str "a".toList, .map [(.str "b".toList, .str "pre ${c} post".toList)] [] []),
    (.str "c".toList, .str "${a:b}".toList)], [], []⟩ = .error .loop := isLoop_sound (by decide +kernel)

-- the same reference many times, and a diamond (`top → l, r → base`), render fine
example : rendersToJson 50 ⟨[(.str "a".toList, .str "x".toList),
    (.str "b".toList, .seq [.str "${a}".toList, .str "${a}".toList, .str "${a}".toList]),
    (.str "c".toList, .str "${a}${a}-${a}".toList)], [], []⟩
    "{\"a\":\"x\",\"b\":[\"x\",\"x\",\"x\"],\"c\":\"xx-x\"}" = true := by decide +kernel
example : rendersToJson 50 ⟨[(.str "top".toList, .str "${l}+${r}".toList),
    (.str "l".toList, .str "${base}".toList), (.str "r".toList, .str "${base}".toList),
    (.str "base".toList, .str "v".toList)], [], []⟩
    "{\"base\":\"v\",\"l\":\"v\",\"r\":\"v\",\"top\":\"v+v\"}" = true := by decide +kernel

/-- Two-character names `k?` for long chains (cheap to parse in the kernel). -/
def nm (i : Nat) : Str := ['k', Char.ofNat (256 + i)]
/-- Root `{nm 0: ${nm 1}, …, nm (len-1): ${nm len}, nm len: last}`. -/
def chainRoot (len : Nat) (last : Str) : Mapping :=
  ⟨(List.range len).map (fun i => (.str (nm i), .str ("${".toList ++ nm (i+1) ++ "}".toList))) ++
    [(.str (nm len), .str last)], [], []⟩

-- a chain needing exactly 64 resolutions resolves; 65 hit the depth limit (and are not called a loop)
example : isOk (interp 270 (chainRoot 63 "end".toList) (.str ("${".toList ++ nm 0 ++ "}".toList)) {}) = true := by
  decide +kernel
example : isDepth (interp 270 (chainRoot 64 "end".toList) (.str ("${".toList ++ nm 0 ++ "}".toList)) {}) = true := by
  decide +kernel

end C08
end Reclass
