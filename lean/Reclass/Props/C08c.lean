/-
  C08 (continued) — The depth limit counts along ONE chain of references, not across siblings.

  "Reference loops are reported, never followed without bound; acyclic references (repeated use,
  diamonds, chains up to the documented depth limit 64) are never rejected."

  `ResolveState.depth` is incremented by `Token::resolve` for the reference being resolved and is
  handed *down* (to the path pieces, to the value found, …).  It is never handed *sideways*: the
  pieces of a token list (`interpolate_token_slice` = `slice`) and the layers of a multiply-defined
  parameter (`interpVl`) each start from a copy of the state their loop was called with.  So a
  string with 70 references `${k}${k}…`, or a parameter with 70 reference layers, renders — the
  limit 64 bounds the nesting of one chain only.

  Contents
   (a) `slice_of_piecesAt`, `siblings_do_not_accumulate_depth`, `slice_error_is_piece_error`,
       `sibling_depth_error_is_own`: a token list renders iff every piece renders *from the
       caller's state* (converse of `C05.slice_eq_concat_uniform`), and every error of the list —
       in particular a depth error — is the error of one piece evaluated on its own from that state.
   (b) `piece_ref_scalar`, `slice_scalar_refs`, `parse_sibling_refs`, `many_sibling_refs_render`,
       `sibling_refs_70`: for every `n`, `n` references to scalars render to the concatenation of
       their texts (explicit fuel bound `n + 7`), no depth error for `n > 64`.
   (c) `ref_layer_seq`, `layers_loop_seq`, `many_reference_layers_render`, `reference_layers_70`:
       for every `n ≥ 1`, `n` whole-value reference layers `${t_i}` to sequences of scalars render
       to the concatenated sequence (explicit fuel bound), via `C04.layers_render`.
  Nothing had to be weakened; the string-level statement of (b) needs `n ≥ 2` because a string
  consisting of ONE reference is a whole-value reference (it renders to the value itself, kind
  preserved, not to its text) — the token-level statement `slice_scalar_refs` covers every `n`.
-/
import Reclass.Props.C04
import Reclass.Props.C05
import Reclass.Props.C06
import Reclass.Props.C08
namespace Reclass
namespace C08

/-! ### (a) Pieces of a token list all start from the caller's state -/

/-- If every piece has a text when evaluated on its own from the state `st` (all with fuel `k`),
the whole list renders from `st` to the concatenation — however many pieces there are. -/
theorem slice_of_piecesAt {k : Nat} {root : Mapping} {st : RState} {ts : List Token}
    {texts : List Str} (h : C05.PiecesAt k root st ts texts) :
    slice (k + ts.length + 1) root ts st = .ok texts.flatten := by
  induction h with
  | nil => rfl
  | @cons t ts x xs h1 _ ih =>
    show slice ((k + ts.length + 1) + 1) root (t :: ts) st = _
    rw [C05.slice_step, C05.pieceText_fuel_mono_le (by omega) h1]
    simp only [ih, List.flatten_cons]

/-- **Siblings do not accumulate depth.**  A token list `t₁ … tₙ` renders from the state `st` to
`s` (with some fuel) *iff* each `tᵢ`, evaluated on its own from that very state `st` — so each
reference among them starts at depth `st.depth`, the `(i+1)`-th exactly like the first — has a
text, and `s` is the concatenation of these texts.  The states returned by earlier pieces (which
are strictly deeper, `ref_resolution_deepens`) play no role, and neither does `n`. -/
theorem siblings_do_not_accumulate_depth {root : Mapping} {ts : List Token} {st : RState} {s : Str} :
    (∃ n, slice n root ts st = .ok s) ↔
      ∃ k texts, C05.PiecesAt k root st ts texts ∧ s = texts.flatten := by
  constructor
  · rintro ⟨n, h⟩
    obtain ⟨texts, hp, hs⟩ := C05.slice_eq_concat_uniform h
    exact ⟨n, texts, hp, hs⟩
  · rintro ⟨k, texts, hp, hs⟩
    exact ⟨_, hs ▸ slice_of_piecesAt hp⟩

/-- **An error of the list is the error of one piece on its own.**  Whatever error
`interpolate_token_slice` returns (fuel ≥ 1) is returned by one of its pieces evaluated from the
caller's state `st` — not from a state left behind by a sibling. -/
theorem slice_error_is_piece_error {root : Mapping} {st : RState} {e : Err} :
    ∀ {ts : List Token} {n : Nat}, slice (n+1) root ts st = .error e →
      ∃ t ∈ ts, ∃ k, k ≤ n ∧ C05.pieceText k root t st = .error e := by
  intro ts
  induction ts with
  | nil => intro n h; simp [slice] at h
  | cons t ts ih =>
    intro n h
    rw [C05.slice_step] at h
    cases h1 : C05.pieceText n root t st with
    | error e' =>
      simp only [h1, Except.error.injEq] at h
      subst h
      exact ⟨t, by simp, n, Nat.le_refl _, h1⟩
    | ok x =>
      simp only [h1] at h
      cases n with
      | zero => simp [C05.pieceText, tokResolve] at h1
      | succ n =>
        cases h2 : slice (n+1) root ts st with
        | ok s' => simp [h2] at h
        | error e' =>
          simp only [h2, Except.error.injEq] at h
          subst h
          obtain ⟨t', ht', k, hk, hp⟩ := ih h2
          exact ⟨t', List.mem_cons_of_mem _ ht', k, by omega, hp⟩

/-- In particular: if a token list fails with the depth error, then one of its pieces, resolved
on its own from the caller's state, already fails with that depth error.  A list of pieces each
of which is fine on its own is never "too deep". -/
theorem sibling_depth_error_is_own {root : Mapping} {st : RState} {ts : List Token} {n : Nat}
    {c : Str} (h : slice (n+1) root ts st = .error (.depth c)) :
    ∃ t ∈ ts, ∃ k, C05.pieceText k root t st = .error (.depth c) := by
  obtain ⟨t, ht, k, _, hp⟩ := slice_error_is_piece_error h
  exact ⟨t, ht, k, hp⟩

/-! ### (b) Any number of sibling references to scalars -/

/-- The text a scalar parameter value contributes to a string: a string without reference marker
as it is, `null`/booleans as `None`/`True`/`False`, numbers in their YAML form. -/
def scalarText : Value → Option Str
  | .str s => if containsMarker s then none else some s
  | .lit s => some s
  | .null => some "None".toList
  | .bool true => some "True".toList
  | .bool false => some "False".toList
  | .num n => some n.yamlText
  | _ => none

/-- A key usable in the plain reference syntax `${k}`: non-empty, none of `$ \ } :`. -/
def simpleKey (k : Str) : Bool := !k.isEmpty && k.all (fun c => C06.plainChar c && c != ':')

theorem simpleKey_ne {k : Str} (h : simpleKey k = true) : k ≠ [] := by
  intro e; subst e; simp [simpleKey] at h

theorem simpleKey_plain {k : Str} (h : simpleKey k = true) : k.all C06.plainChar = true := by
  simp only [simpleKey, Bool.and_eq_true, List.all_eq_true] at h ⊢
  exact fun c hc => (h.2 c hc).1

theorem simpleKey_colon {k : Str} (h : simpleKey k = true) : ':' ∉ k := by
  simp only [simpleKey, Bool.and_eq_true, List.all_eq_true] at h
  intro hm
  have := (h.2 ':' hm).2
  simp at this

/-- The trailing loop of `Token::resolve` on a scalar: at most one `interpolate`, the state is
not touched, and the result has the text `scalarText` says. -/
theorem finalLoop_scalar {v : Value} {x : Str} (h : scalarText v = some x) (n : Nat)
    (root : Mapping) (st : RState) :
    ∃ v', finalLoop (n+2) root v st = .ok (v', st) ∧ v'.isStr = false ∧ v'.isMap = false ∧
      v'.isSeq = false ∧ rawString v' = .ok x := by
  cases v with
  | str s =>
    simp only [scalarText] at h
    by_cases hm : containsMarker s = true
    · simp [hm] at h
    · simp only [hm, Bool.false_eq_true, if_false, Option.some.injEq] at h
      subst h
      refine ⟨.lit s, ?_, rfl, rfl, rfl, rfl⟩
      rw [finalLoop_succ]
      simp only [Value.isStr, Bool.true_or, if_true]
      rw [C06.no_marker_renders_unchanged n root s st (by simpa using hm)]
      simp only
      rw [finalLoop_succ]
      simp [Value.isStr, Value.isVl]
  | lit s =>
    simp only [scalarText, Option.some.injEq] at h; subst h
    exact ⟨.lit s, by rw [finalLoop_succ]; simp [Value.isStr, Value.isVl], rfl, rfl, rfl, rfl⟩
  | null =>
    simp only [scalarText, Option.some.injEq] at h; subst h
    exact ⟨.null, by rw [finalLoop_succ]; simp [Value.isStr, Value.isVl], rfl, rfl, rfl, rfl⟩
  | bool b =>
    cases b <;> simp only [scalarText, Option.some.injEq] at h <;> subst h
    · exact ⟨.bool false, by rw [finalLoop_succ]; simp [Value.isStr, Value.isVl], rfl, rfl, rfl, rfl⟩
    · exact ⟨.bool true, by rw [finalLoop_succ]; simp [Value.isStr, Value.isVl], rfl, rfl, rfl, rfl⟩
  | num m =>
    simp only [scalarText, Option.some.injEq] at h; subst h
    exact ⟨.num m, by rw [finalLoop_succ]; simp [Value.isStr, Value.isVl], rfl, rfl, rfl, rfl⟩
  | map _ _ _ => simp [scalarText] at h
  | seq _ => simp [scalarText] at h
  | vl _ => simp [scalarText] at h

/-- **One reference piece to a scalar.**  From any state below the depth limit in which `k` is not
being resolved already, the piece `${k}` of a token list has the text of the scalar stored under
`k` (fuel ≥ 3). -/
theorem piece_ref_scalar (n : Nat) {root : Mapping} {k x : Str} {v : Value} {st : RState}
    (hcolon : ':' ∉ k) (hget : root.get (.str k) = some v) (hx : scalarText v = some x)
    (hd : st.depth + 1 ≤ maxDepth) (hseen : k ∉ st.seen) :
    C05.pieceText (n+3) root (.ref [.lit k]) st = .ok x := by
  obtain ⟨v', hfin, h1, h2, h3, h4⟩ := finalLoop_scalar hx n root
    { st with depth := st.depth + 1, seen := k :: st.seen }
  have hd' : ¬ (st.depth + 1 > maxDepth) := by omega
  have hres : tokResolve (n+3) root (.ref [.lit k]) st =
      .ok (v', { st with depth := st.depth + 1, seen := k :: st.seen }) := by
    rw [tokResolve_ref, slice_single_lit]
    simp only [hd', if_false, hseen, splitColon_of_not_mem hcolon, hget, descend_nil, hfin]
  unfold C05.pieceText
  rw [hres]
  simp only
  rw [strLoop_succ]
  simp only [h1, Bool.false_eq_true, if_false]
  rw [sliceFinish_succ]
  simp only [h2, h3, Bool.or_self, Bool.false_eq_true, if_false, h4]

/-- The token list `${k₀} ${k₁} …` (what `k₀, k₁, …` written as adjacent references parse to). -/
def refToks (ks : List Str) : List Token := ks.map fun k => .ref [.lit k]

/-- Every piece `${k}` of the list has its text, each from the same state `st` (fuel 3). -/
theorem piecesAt_scalar_refs {root : Mapping} {st : RState} (txt : Str → Str)
    (hd : st.depth + 1 ≤ maxDepth) : ∀ (ks : List Str),
    (∀ k ∈ ks, ':' ∉ k ∧ k ∉ st.seen ∧
      ∃ v, root.get (.str k) = some v ∧ scalarText v = some (txt k)) →
    C05.PiecesAt 3 root st (refToks ks) (ks.map txt)
  | [], _ => C05.PiecesAt.nil
  | k :: ks, hk => by
    obtain ⟨hc, hs, v, hg, hx⟩ := hk k (by simp)
    show C05.PiecesAt 3 root st (.ref [.lit k] :: refToks ks) (txt k :: ks.map txt)
    exact C05.PiecesAt.cons (piece_ref_scalar 0 hc hg hx hd hs)
      (piecesAt_scalar_refs txt hd ks fun k' hk' => hk k' (List.mem_cons_of_mem _ hk'))

/-- **Any number of sibling references, token level.**  For *every* list of keys `ks` (repetitions
allowed, any length — also longer than the depth limit 64) that hold scalars, the token list
`${k₀}${k₁}…` renders, from any state below the depth limit in which none of the keys is being
resolved, to the concatenation of the scalars' texts, for every fuel `≥ ks.length + 4`. -/
theorem slice_scalar_refs {root : Mapping} {st : RState} (txt : Str → Str) (ks : List Str)
    (hd : st.depth + 1 ≤ maxDepth)
    (hk : ∀ k ∈ ks, ':' ∉ k ∧ k ∉ st.seen ∧
      ∃ v, root.get (.str k) = some v ∧ scalarText v = some (txt k))
    (fuel : Nat) (hf : ks.length + 4 ≤ fuel) :
    slice fuel root (refToks ks) st = .ok (ks.map txt).flatten := by
  have h := slice_of_piecesAt (piecesAt_scalar_refs txt hd ks hk)
  refine slice_fuel_mono_le ?_ root _ st h (by simp)
  simp only [refToks, List.length_map]; omega

/-- The text `${k₀}${k₁}…`. -/
def refsText : List Str → Str
  | [] => []
  | k :: ks => '$' :: '{' :: (k ++ '}' :: refsText ks)

theorem refsText_eq_encodeL (ks : List Str) : refsText ks = C06.encodeL (refToks ks) := by
  induction ks with
  | nil => rfl
  | cons k ks ih =>
    simp only [refsText, refToks, List.map_cons, C06.encodeL, C06.encode, ih, List.append_nil,
      List.cons_append, List.append_assoc, List.nil_append]

theorem refToks_wfInnerL (ks : List Str) (hk : ∀ k ∈ ks, simpleKey k = true) :
    Token.wfInnerL (refToks ks) = true := by
  induction ks with
  | nil => rfl
  | cons k ks ih =>
    have hne : k ≠ [] := simpleKey_ne (hk k (by simp))
    have : k.isEmpty = false := by cases k <;> simp_all
    simp only [refToks, List.map_cons, Token.wfInnerL, Token.wfInner, noAdjLit, headIsLit,
      Token.isLit, List.isEmpty_cons, this, Bool.not_false, Bool.and_true, Bool.true_and,
      Bool.and_false]
    exact ih fun k' hk' => hk k' (List.mem_cons_of_mem _ hk')

theorem refToks_noAdjLit (ks : List Str) : noAdjLit (refToks ks) = true := by
  induction ks with
  | nil => rfl
  | cons k ks ih =>
    simp only [refToks, List.map_cons, noAdjLit, Token.isLit, Bool.false_and, Bool.not_false,
      Bool.true_and]
    exact ih

theorem refToks_plain (ks : List Str) (hk : ∀ k ∈ ks, simpleKey k = true) :
    C06.plainToks (refToks ks) = true := by
  induction ks with
  | nil => rfl
  | cons k ks ih =>
    simp only [refToks, List.map_cons, C06.plainToks, C06.plainTok, Bool.and_true,
      Bool.and_eq_true]
    exact ⟨simpleKey_plain (hk k (by simp)), ih fun k' hk' => hk k' (List.mem_cons_of_mem _ hk')⟩

/-- **`${k₀}${k₁}…` parses to the list of its references** (two or more simple keys). -/
theorem parse_sibling_refs (ks : List Str) (hlen : 2 ≤ ks.length)
    (hk : ∀ k ∈ ks, simpleKey k = true) :
    Token.parse (refsText ks) = .ok (some (.combined (refToks ks))) := by
  have hw : (Token.combined (refToks ks)).wfTop = true := by
    simp only [Token.wfTop, refToks_noAdjLit, refToks_wfInnerL ks hk, Bool.and_true,
      decide_eq_true_eq]
    simpa [refToks] using hlen
  have hp : C06.plainTok (.combined (refToks ks)) = true := by
    simp only [C06.plainTok]; exact refToks_plain ks hk
  have he : C06.encode (.combined (refToks ks)) = refsText ks := by
    simp only [C06.encode, refsText_eq_encodeL]
  have hm : containsMarker (C06.encode (.combined (refToks ks))) = true := by
    rw [he]
    match ks, hlen with
    | k :: _ :: _, _ => simp [refsText, containsMarker]
  have := C06.roundtrip_parse _ hw hp hm
  rwa [he] at this

/-- **Any number of sibling references render.**  For every `n ≥ 2` and every list `ks` of `n`
simple keys (repetitions allowed) that hold scalars in the parameters, the string
`${k₀}${k₁}…${kₙ₋₁}` interpolates — from any state below the depth limit in which none of the
keys is being resolved, for every fuel `≥ n + 7` — to the literal string made of the scalars'
texts in order, and hands the state back unchanged.  In particular there is no depth error for
`n > 64`: the limit counts along one chain, not across siblings. -/
theorem many_sibling_refs_render {root : Mapping} {st : RState} (txt : Str → Str) (ks : List Str)
    (hlen : 2 ≤ ks.length) (hd : st.depth + 1 ≤ maxDepth)
    (hk : ∀ k ∈ ks, simpleKey k = true ∧ k ∉ st.seen ∧
      ∃ v, root.get (.str k) = some v ∧ scalarText v = some (txt k))
    (fuel : Nat) (hf : ks.length + 7 ≤ fuel) :
    interp fuel root (.str (refsText ks)) st = .ok (.lit (ks.map txt).flatten, st) := by
  obtain ⟨f, rfl⟩ : ∃ f, fuel = f + 3 := ⟨fuel - 3, by omega⟩
  rw [C05.mixed_string_renders_concat f root _ _ st
    (parse_sibling_refs ks hlen fun k hkm => (hk k hkm).1)]
  rw [slice_scalar_refs txt ks hd
    (fun k hkm => ⟨simpleKey_colon (hk k hkm).1, (hk k hkm).2.1, (hk k hkm).2.2⟩) f (by omega)]

theorem map_const_replicate {α β : Type} (n : Nat) (a : α) (b : β) :
    (List.replicate n a).map (fun _ => b) = List.replicate n b := by
  induction n with
  | zero => rfl
  | succ n ih => simp only [List.replicate_succ, List.map_cons, ih]

theorem length_flatten_replicate {α : Type} (n : Nat) (a : List α) :
    (List.replicate n a).flatten.length = n * a.length := by
  induction n with
  | zero => simp
  | succ n ih =>
    simp only [List.replicate_succ, List.flatten_cons, List.length_append, ih, Nat.succ_mul]
    omega

/-- **`n` references to the same scalar**, for every `n ≥ 2`: the string `${k}${k}…${k}` renders
to `n` copies of the scalar's text, for every fuel `≥ n + 7`. -/
theorem sibling_refs_replicate {root : Mapping} {st : RState} {k x : Str} {v : Value} (n : Nat)
    (hn : 2 ≤ n) (hk : simpleKey k = true) (hget : root.get (.str k) = some v)
    (hx : scalarText v = some x) (hd : st.depth < maxDepth) (hseen : k ∉ st.seen)
    (fuel : Nat) (hf : n + 7 ≤ fuel) :
    interp fuel root (.str (refsText (List.replicate n k))) st =
      .ok (.lit (List.replicate n x).flatten, st) := by
  have := many_sibling_refs_render (root := root) (st := st) (fun _ => x) (List.replicate n k)
    (by rw [List.length_replicate]; exact hn) (by omega)
    (by
      intro k' hk'
      obtain rfl : k' = k := (List.mem_replicate.1 hk').2
      exact ⟨hk, hseen, v, hget, hx⟩)
    fuel (by rw [List.length_replicate]; exact hf)
  rwa [map_const_replicate] at this

/-- **70 sibling references** (`70 > 64 = maxDepth`): the string `${k}${k}…${k}` with 70
references to the same scalar parameter renders to 70 copies of its text — no depth error, no
loop error — from the initial state of any parameter (depth 0) and from any state below the
limit, for every fuel `≥ 77`. -/
theorem sibling_refs_70 {root : Mapping} {st : RState} {k x : Str} {v : Value}
    (hk : simpleKey k = true) (hget : root.get (.str k) = some v) (hx : scalarText v = some x)
    (hd : st.depth < maxDepth) (hseen : k ∉ st.seen) (fuel : Nat) (hf : 77 ≤ fuel) :
    interp fuel root (.str (refsText (List.replicate 70 k))) st =
      .ok (.lit (List.replicate 70 x).flatten, st) :=
  sibling_refs_replicate 70 (by decide) hk hget hx hd hseen fuel hf

/-! ### (c) Any number of reference layers -/

/-- What `Value::interpolate` makes of a scalar (a string without marker becomes a literal). -/
def plainRender : Value → Option Value
  | .str s => if containsMarker s then none else some (.lit s)
  | .lit s => some (.lit s)
  | .null => some .null
  | .bool b => some (.bool b)
  | .num n => some (.num n)
  | _ => none

/-- `plainRender` element by element (`none` if some element is not a scalar). -/
def plainRenderL : List Value → Option (List Value)
  | [] => some []
  | v :: vs =>
    match plainRender v, plainRenderL vs with
    | some x, some xs => some (x :: xs)
    | _, _ => none

theorem plainRenderL_cons {v : Value} {vs l' : List Value} (h : plainRenderL (v :: vs) = some l') :
    ∃ x xs, plainRender v = some x ∧ plainRenderL vs = some xs ∧ l' = x :: xs := by
  simp only [plainRenderL] at h
  cases h1 : plainRender v with
  | none => simp [h1] at h
  | some x =>
    cases h2 : plainRenderL vs with
    | none => simp [h1, h2] at h
    | some xs =>
      simp only [h1, h2, Option.some.injEq] at h
      exact ⟨x, xs, rfl, rfl, h.symm⟩

theorem interp_plain {v x : Value} (h : plainRender v = some x) (n : Nat) (root : Mapping)
    (st : RState) : interp (n+1) root v st = .ok (x, st) := by
  cases v with
  | str s =>
    simp only [plainRender] at h
    by_cases hm : containsMarker s = true
    · simp [hm] at h
    · simp only [hm, Bool.false_eq_true, if_false, Option.some.injEq] at h
      subst h
      exact C06.no_marker_renders_unchanged n root s st (by simpa using hm)
  | lit s => simp only [plainRender, Option.some.injEq] at h; subst h; rfl
  | null => simp only [plainRender, Option.some.injEq] at h; subst h; rfl
  | bool b => simp only [plainRender, Option.some.injEq] at h; subst h; rfl
  | num m => simp only [plainRender, Option.some.injEq] at h; subst h; rfl
  | map _ _ _ => simp [plainRender] at h
  | seq _ => simp [plainRender] at h
  | vl _ => simp [plainRender] at h

theorem plainRender_idem {v x : Value} (h : plainRender v = some x) : plainRender x = some x := by
  cases v with
  | str s =>
    simp only [plainRender] at h
    by_cases hm : containsMarker s = true
    · simp [hm] at h
    · simp only [hm, Bool.false_eq_true, if_false, Option.some.injEq] at h
      subst h; rfl
  | lit s => simp only [plainRender, Option.some.injEq] at h; subst h; rfl
  | null => simp only [plainRender, Option.some.injEq] at h; subst h; rfl
  | bool b => simp only [plainRender, Option.some.injEq] at h; subst h; rfl
  | num m => simp only [plainRender, Option.some.injEq] at h; subst h; rfl
  | map _ _ _ => simp [plainRender] at h
  | seq _ => simp [plainRender] at h
  | vl _ => simp [plainRender] at h

theorem plainRenderL_idem : ∀ {l l' : List Value}, plainRenderL l = some l' →
    plainRenderL l' = some l'
  | [], l', h => by simp only [plainRenderL, Option.some.injEq] at h; subst h; rfl
  | v :: vs, l', h => by
    obtain ⟨x, xs, h1, h2, rfl⟩ := plainRenderL_cons h
    simp only [plainRenderL, plainRender_idem h1, plainRenderL_idem h2]

theorem plainRenderL_length : ∀ {l l' : List Value}, plainRenderL l = some l' →
    l'.length = l.length
  | [], l', h => by simp only [plainRenderL, Option.some.injEq] at h; subst h; rfl
  | v :: vs, l', h => by
    obtain ⟨x, xs, _, h2, rfl⟩ := plainRenderL_cons h
    simp [plainRenderL_length h2]

theorem plainRenderL_append : ∀ {a b : List Value}, plainRenderL a = some a →
    plainRenderL b = some b → plainRenderL (a ++ b) = some (a ++ b)
  | [], b, _, hb => by simpa using hb
  | v :: vs, b, ha, hb => by
    obtain ⟨x, xs, h1, h2, e⟩ := plainRenderL_cons ha
    obtain ⟨rfl, rfl⟩ : v = x ∧ vs = xs := by simpa using e
    simp only [List.cons_append, plainRenderL, h1, plainRenderL_append h2 hb]

/-- A sequence of scalars interpolates element by element, whatever the state. -/
theorem interpL_plain (root : Mapping) : ∀ (l : List Value) {l' : List Value},
    plainRenderL l = some l' → ∀ (n idx : Nat) (st : RState),
    interpL (n + l.length + 1) root l idx st = .ok l'
  | [], l', h, n, idx, st => by
    simp only [plainRenderL, Option.some.injEq] at h; subst h; rfl
  | v :: vs, l', h, n, idx, st => by
    obtain ⟨x, xs, h1, h2, rfl⟩ := plainRenderL_cons h
    show interpL ((n + vs.length + 1) + 1) root (v :: vs) idx st = _
    rw [interpL_cons, interp_plain h1, interpL_plain root vs h2 n (idx + 1) st]

/-- The text of a single reference `${k}`. -/
def refText (k : Str) : Str := '$' :: '{' :: (k ++ ['}'])

/-- **One reference layer to a sequence of scalars.**  `${k}` where the parameters hold the
sequence `l` under `k` interpolates to the rendered sequence; the state handed back is one level
deeper, but that state is dropped by the layer loop. -/
theorem ref_layer_seq {root : Mapping} {k : Str} {l l' : List Value} {st : RState}
    (hk : simpleKey k = true) (hget : root.get (.str k) = some (.seq l))
    (hl : plainRenderL l = some l') (hd : st.depth + 1 ≤ maxDepth) (hseen : k ∉ st.seen)
    (fuel : Nat) (hf : l.length + 6 ≤ fuel) :
    interp fuel root (.str (refText k)) st =
      .ok (.seq l', { st with depth := st.depth + 1, seen := k :: st.seen }) := by
  obtain ⟨n, rfl⟩ : ∃ n, fuel = (n + l.length) + 6 := ⟨fuel - l.length - 6, by omega⟩
  have hparse : Token.parse (refText k) = .ok (some (.ref [.lit k])) :=
    C06.bare_ref_accepted k (C06.plain_of_all (simpleKey_plain hk)) (simpleKey_ne hk)
  rw [interp_wholeRef (n + l.length) root (refText k) k st (.seq l) hparse (simpleKey_colon hk) hget]
  have hd' : ¬ (st.depth + 1 > maxDepth) := by omega
  simp only [hd', if_false, hseen]
  rw [finalLoop_succ]
  simp only [Value.isStr, Value.isVl, Bool.or_self, Bool.false_eq_true, if_false]
  rw [interp_seq]
  have e : n + l.length + 3 = (n + 2) + l.length + 1 := by omega
  rw [e, interpL_plain root l hl]

/-- The layers `${k₀}`, `${k₁}`, … of a multiply-defined parameter. -/
def refLayers (ks : List Str) : List Value := ks.map fun k => .str (refText k)

/-- The layer loop over reference layers to sequences, from a sequence accumulator: every layer
is interpolated from the caller's state `st` and appended. -/
theorem layers_loop_seq {root : Mapping} {st : RState} (sq out : Str → List Value) (M : Nat)
    (hd : st.depth + 1 ≤ maxDepth) :
    ∀ (ks : List Str) (acc : List Value),
    (∀ k ∈ ks, simpleKey k = true ∧ k ∉ st.seen ∧ root.get (.str k) = some (.seq (sq k)) ∧
      plainRenderL (sq k) = some (out k) ∧ (sq k).length ≤ M) →
    interpVl (M + 6 + ks.length + 1) root (refLayers ks) (.seq acc) st =
      .ok (.seq (acc ++ (ks.map out).flatten))
  | [], acc, _ => by simp [refLayers, interpVl_nil]
  | k :: ks, acc, hk => by
    obtain ⟨h1, h2, h3, h4, h5⟩ := hk k (by simp)
    show interpVl ((M + 6 + ks.length + 1) + 1) root (.str (refText k) :: refLayers ks) _ st = _
    rw [interpVl_cons, ref_layer_seq h1 h3 h4 hd h2 _ (by omega)]
    simp only [mergeV, mergeNonVl]
    rw [layers_loop_seq sq out M hd ks (acc ++ out k)
      (fun k' hk' => hk k' (List.mem_cons_of_mem _ hk'))]
    simp only [List.map_cons, List.flatten_cons, List.append_assoc]

/-- The length of one member of a concatenation is at most the total length. -/
theorem length_le_flatten_map {α : Type} (f : Str → List α) :
    ∀ (ks : List Str) (k : Str), k ∈ ks → (f k).length ≤ (ks.map f).flatten.length
  | [], k, h => by simp at h
  | k0 :: ks, k, h => by
    simp only [List.map_cons, List.flatten_cons, List.length_append]
    rcases List.mem_cons.1 h with rfl | h
    · omega
    · have := length_le_flatten_map f ks k h; omega

theorem plainRenderL_flatten (out : Str → List Value) :
    ∀ (ks : List Str), (∀ k ∈ ks, plainRenderL (out k) = some (out k)) →
    plainRenderL (ks.map out).flatten = some (ks.map out).flatten
  | [], _ => rfl
  | k :: ks, h => by
    simp only [List.map_cons, List.flatten_cons]
    exact plainRenderL_append (h k (by simp))
      (plainRenderL_flatten out ks fun k' hk' => h k' (List.mem_cons_of_mem _ hk'))

/-- **Any number of reference layers render.**  For every `n ≥ 1` and every list `ks` of `n`
simple keys (repetitions allowed) under which the parameters hold sequences of scalars `sq k`
(rendering to `out k`), the multiply-defined parameter whose `n` layers are the whole-value
references `${k₀}`, …, `${kₙ₋₁}` interpolates — from any state below the depth limit in which none
of the keys is being resolved — to the concatenation `out k₀ ++ … ++ out kₙ₋₁`, and hands the state
back unchanged, for every fuel `≥ T + n + 8` where `T` is the length of the result.  No depth
error for `n > 64`: each layer starts from the caller's state (`C04.layers_render`,
`sibling_isolation_layers`). -/
theorem many_reference_layers_render {root : Mapping} {st : RState} (sq out : Str → List Value)
    (ks : List Str) (hne : ks ≠ []) (hd : st.depth + 1 ≤ maxDepth)
    (hk : ∀ k ∈ ks, simpleKey k = true ∧ k ∉ st.seen ∧ root.get (.str k) = some (.seq (sq k)) ∧
      plainRenderL (sq k) = some (out k))
    (fuel : Nat) (hf : (ks.map out).flatten.length + ks.length + 8 ≤ fuel) :
    interp fuel root (.vl (refLayers ks)) st = .ok (.seq (ks.map out).flatten, st) := by
  refine interp_fuel_mono_le hf root _ st ?_ (by simp)
  generalize hT : (ks.map out).flatten.length = T
  have hk' : ∀ k ∈ ks, simpleKey k = true ∧ k ∉ st.seen ∧
      root.get (.str k) = some (.seq (sq k)) ∧ plainRenderL (sq k) = some (out k) ∧
      (sq k).length ≤ T := by
    intro k hkm
    obtain ⟨h1, h2, h3, h4⟩ := hk k hkm
    refine ⟨h1, h2, h3, h4, ?_⟩
    rw [← plainRenderL_length h4, ← hT]
    exact length_le_flatten_map out ks k hkm
  match ks, hne with
  | k :: ks, _ =>
    obtain ⟨h1, h2, h3, h4, h5⟩ := hk' k (by simp)
    have e : T + (k :: ks).length + 8 = ((T + 6 + ks.length + 1) + 1) + 1 := by
      simp only [List.length_cons]; omega
    have hcons : refLayers (k :: ks) = .str (refText k) :: refLayers ks := rfl
    rw [e, C04.layers_render, hcons, interpVl_cons, ref_layer_seq h1 h3 h4 hd h2 _ (by omega)]
    simp only [mergeV, mergeNonVl]
    rw [layers_loop_seq sq out T hd ks (out k) (fun k' hkm => hk' k' (List.mem_cons_of_mem _ hkm))]
    simp only
    rw [interp_seq]
    have hidem : plainRenderL ((k :: ks).map out).flatten = some ((k :: ks).map out).flatten :=
      plainRenderL_flatten out (k :: ks) fun k' hkm => plainRenderL_idem (hk k' hkm).2.2.2
    simp only [List.map_cons, List.flatten_cons] at hidem hT
    have e2 : T + 6 + ks.length + 1 = (6 + ks.length) + (out k ++ (ks.map out).flatten).length + 1 := by
      rw [hT]; omega
    rw [e2, interpL_plain root _ hidem]
    simp only [List.map_cons, List.flatten_cons]

/-- **`n` reference layers to the same sequence**, for every `n ≥ 1`: a parameter defined `n`
times as `${t}`, where `t` is a sequence of scalars, renders to `n` copies of the rendered
sequence, concatenated, for every fuel `≥ n * length + n + 8`. -/
theorem reference_layers_replicate {root : Mapping} {st : RState} {t : Str} {l l' : List Value}
    (n : Nat) (hn : 1 ≤ n)
    (ht : simpleKey t = true) (hget : root.get (.str t) = some (.seq l))
    (hl : plainRenderL l = some l') (hd : st.depth < maxDepth) (hseen : t ∉ st.seen)
    (fuel : Nat) (hf : n * l.length + n + 8 ≤ fuel) :
    interp fuel root (.vl (refLayers (List.replicate n t))) st =
      .ok (.seq (List.replicate n l').flatten, st) := by
  have hlen : l'.length = l.length := plainRenderL_length hl
  have := many_reference_layers_render (root := root) (st := st) (fun _ => l) (fun _ => l')
    (List.replicate n t)
    (by intro h; have := congrArg List.length h; simp at this; omega) (by omega)
    (by
      intro k' hk'
      obtain rfl : k' = t := (List.mem_replicate.1 hk').2
      exact ⟨ht, hseen, hget, hl⟩)
    fuel (by rw [map_const_replicate, length_flatten_replicate, List.length_replicate, hlen]; exact hf)
  rwa [map_const_replicate] at this

/-- **70 reference layers** (`70 > 64 = maxDepth`): a parameter defined 70 times as `${t}`, where
`t` is a sequence of scalars, renders to 70 copies of the rendered sequence, concatenated — no
depth error, no loop error. -/
theorem reference_layers_70 {root : Mapping} {st : RState} {t : Str} {l l' : List Value}
    (ht : simpleKey t = true) (hget : root.get (.str t) = some (.seq l))
    (hl : plainRenderL l = some l') (hd : st.depth < maxDepth) (hseen : t ∉ st.seen)
    (fuel : Nat) (hf : 70 * l.length + 78 ≤ fuel) :
    interp fuel root (.vl (refLayers (List.replicate 70 t))) st =
      .ok (.seq (List.replicate 70 l').flatten, st) :=
  reference_layers_replicate 70 (by decide) ht hget hl hd hseen fuel hf

/-! ### Non-vacuity and concrete instances -/

/-- `{a: 1, s: x, u: "${a}${s}${a}"}` and the layered `p`. -/
def sibRoot : Mapping :=
  ⟨[(.str "a".toList, .num (.int 1)), (.str "s".toList, .str "x".toList),
    (.str "u".toList, .str "${a}${s}${a}".toList)], [], []⟩

-- n = 3, by kernel evaluation (whole parameter sets)
example : rendersToJson 60 sibRoot "{\"a\":1,\"s\":\"x\",\"u\":\"1x1\"}" = true := by decide +kernel

example : rendersToJson 80 ⟨[(.str "t".toList, .seq [.num (.int 1), .str "y".toList]),
    (.str "p".toList, .vl [.str "${t}".toList, .str "${t}".toList, .str "${t}".toList])], [], []⟩
    "{\"p\":[1,\"y\",1,\"y\",1,\"y\"],\"t\":[1,\"y\"]}" = true := by decide +kernel

/-- Three layers referring to three different sequences. -/
example : rendersToJson 80 ⟨[(.str "t".toList, .seq [.num (.int 1)]),
    (.str "v".toList, .seq [.num (.int 2), .num (.int 3)]), (.str "w".toList, .seq []),
    (.str "p".toList, .vl [.str "${t}".toList, .str "${v}".toList, .str "${w}".toList])], [], []⟩
    "{\"p\":[1,2,3],\"t\":[1],\"v\":[2,3],\"w\":[]}" = true := by decide +kernel

-- the texts and token lists are what they should be
example : refsText ["a".toList, "s".toList, "a".toList] = "${a}${s}${a}".toList := by decide
example : refText "t".toList = "${t}".toList := by decide
example : simpleKey "a".toList = true ∧ simpleKey "a:b".toList = false ∧ simpleKey [] = false := by
  decide

/-- `many_sibling_refs_render` with all hypotheses discharged (n = 3): from the state in which the
parameter `u` is rendered, for every fuel ≥ 10. -/
example (fuel : Nat) (hf : 10 ≤ fuel) :
    interp fuel sibRoot (.str "${a}${s}${a}".toList) (({} : RState).pushMappingKey (.str "u".toList)) =
      .ok (.lit "1x1".toList, ({} : RState).pushMappingKey (.str "u".toList)) :=
  many_sibling_refs_render (root := sibRoot)
    (fun k => if k = "a".toList then "1".toList else "x".toList)
    ["a".toList, "s".toList, "a".toList] (by decide) (by decide)
    (by
      intro k hk
      simp only [List.mem_cons, List.not_mem_nil, or_false] at hk
      rcases hk with rfl | rfl | rfl
      · exact ⟨by decide, by simp [RState.pushMappingKey], _, rfl, by decide⟩
      · exact ⟨by decide, by simp [RState.pushMappingKey], _, rfl, by decide⟩
      · exact ⟨by decide, by simp [RState.pushMappingKey], _, rfl, by decide⟩)
    fuel hf

/-- `sibling_refs_70` applies to `sibRoot`: 70 references to `a` render to seventy `1`s. -/
example (fuel : Nat) (hf : 77 ≤ fuel) :
    interp fuel sibRoot (.str (refsText (List.replicate 70 "a".toList))) {} =
      .ok (.lit (List.replicate 70 "1".toList).flatten, {}) :=
  sibling_refs_70 (v := .num (.int 1)) (by decide) (by rfl) (by decide) (by decide) (by simp) fuel hf

/-- `reference_layers_70` applies: 70 layers `${t}` with `t: [1, y]` give 140 elements. -/
example (fuel : Nat) (hf : 218 ≤ fuel) :
    interp fuel ⟨[(.str "t".toList, .seq [.num (.int 1), .str "y".toList])], [], []⟩
      (.vl (refLayers (List.replicate 70 "t".toList))) {} =
      .ok (.seq (List.replicate 70 [.num (.int 1), .lit "y".toList]).flatten, {}) :=
  reference_layers_70 (t := "t".toList) (l := [.num (.int 1), .str "y".toList])
    (l' := [.num (.int 1), .lit "y".toList]) (by decide) (by rfl) (by rfl)
    (by decide) (by simp) fuel (by show 70 * 2 + 78 ≤ fuel; omega)

/-- Contrast: 65 references *nested along one chain* do hit the limit (`C08`'s `chainRoot 64`
example), while siblings at the deepest admissible level are still fine: from a state at depth 63
a list of three references renders. -/
example : slice 10 sibRoot (refToks ["a".toList, "s".toList, "a".toList])
    { depth := 63 } = .ok "1x1".toList :=
  slice_scalar_refs (root := sibRoot) (fun k => if k = "a".toList then "1".toList else "x".toList)
    ["a".toList, "s".toList, "a".toList] (by decide)
    (by
      intro k hk
      simp only [List.mem_cons, List.not_mem_nil, or_false] at hk
      rcases hk with rfl | rfl | rfl
      · exact ⟨by decide, by simp, _, rfl, by decide⟩
      · exact ⟨by decide, by simp, _, rfl, by decide⟩
      · exact ⟨by decide, by simp, _, rfl, by decide⟩)
    10 (by decide)

/-- … and at depth 64 each single piece fails on its own — which is the only way a list fails with
the depth error (`sibling_depth_error_is_own`). -/
example : isDepth (slice 10 sibRoot (refToks ["a".toList, "s".toList, "a".toList]) { depth := 64 }) =
    true := by decide +kernel

end C08
end Reclass
