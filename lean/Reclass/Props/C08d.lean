/-
  C08d — A reference cycle that passes through a container embedded in a string is a loop.

  `Props/C08.cycle_is_loop` covers cycles of whole-value references.  Here the cycle closes
  through a *mixed* string inside a mapping: `a: {b: "x-${a}"}` — the string embeds the mapping
  that contains it.  Resolving `${a}` yields the raw mapping, which is interpolated and
  flattened before its text is taken (`interpolate_token_slice`), **with the resolve state of
  the reference** (seen paths and depth); inside, the same string meets `${a}` again while `a`
  is in the seen set.

  * `seen_ref_piece_loops`, `mixed_string_with_seen_ref_loops`, `container_with_seen_ref_loops` —
    the inner half: with `a` in the seen set the string, and any mapping that starts with it,
    report the loop (never the depth limit, never success).
  * `embedded_container_cycle_is_loop` — the whole cycle, from any state with room for two
    resolutions below the limit of 64 and for every fuel from 20 on: `Err.loop`.
  * `embedded_list_cycle_is_loop` — the same through a list: `items: ["${summary}", …]`,
    `summary: "x${items}"` (three resolutions, fuel from 30 on).
-/
import Reclass.Props.C08
import Reclass.Props.C05c
namespace Reclass
namespace C08d

/-- A reference piece whose path is already on the chain: loop. -/
theorem seen_ref_piece_loops (k : Nat) (root : Mapping) (a : Str) (st : RState)
    (hs : a ∈ st.seen) (hd : st.depth + 1 ≤ maxDepth) :
    tokResolve (k+3) root (.ref [.lit a]) st = .error .loop := by
  rw [tokResolve_ref, slice_single_lit]
  have hd' : ¬ (st.depth + 1 > maxDepth) := by omega
  simp only [hd', if_false, hs, if_true]

/-- The pieces `x`, `${a}` with `a` on the chain: loop. -/
theorem pieces_with_seen_ref_loop (k : Nat) (root : Mapping) (x a : Str) (st : RState)
    (hs : a ∈ st.seen) (hd : st.depth + 1 ≤ maxDepth) :
    slice (k+5) root [.lit x, .ref [.lit a]] st = .error .loop := by
  rw [slice_cons, tokResolve_lit]
  simp only [strLoop_succ, Value.isStr, sliceFinish_succ, Value.isMap, Value.isSeq, rawString,
    Bool.false_or, if_false, Bool.false_eq_true]
  rw [slice_cons, seen_ref_piece_loops k root a st hs hd]

/-- The mixed string `x${a}` with `a` on the chain: loop. -/
theorem mixed_string_with_seen_ref_loops (k : Nat) (root : Mapping) (s x a : Str) (st : RState)
    (hparse : Token.parse s = .ok (some (.combined [.lit x, .ref [.lit a]])))
    (hs : a ∈ st.seen) (hd : st.depth + 1 ≤ maxDepth) :
    interp (k+8) root (.str s) st = .error .loop := by
  rw [interp_str, hparse]
  simp only
  rw [tokRender_succ, tokResolve_combined, pieces_with_seen_ref_loop k root x a st hs hd]

/-- A mapping whose first entry is that string: loop (the other entries are never reached). -/
theorem container_with_seen_ref_loops (k : Nat) (root : Mapping) (s x a : Str) (b : Key)
    (rest : List (Key × Value)) (ck ok : List Key) (st : RState)
    (hparse : Token.parse s = .ok (some (.combined [.lit x, .ref [.lit a]])))
    (hs : a ∈ st.seen) (hd : st.depth + 1 ≤ maxDepth) :
    interp (k+10) root (.map ((b, .str s) :: rest) ck ok) st = .error .loop := by
  rw [interp_map, interpEs_cons,
    mixed_string_with_seen_ref_loops k root s x a (st.pushMappingKey b) hparse hs hd]

/-- **`a: {b: "x${a}", …}` is a loop.**  `s` is the text of the entry `b` of the mapping at `a`
and parses to the literal `x` followed by the reference to `a` (no `:` in `a`).  Rendering `s`
from any state that leaves room for two resolutions gives `Err.loop`, for every fuel ≥ 20,
whatever else the mapping and the root contain. -/
theorem embedded_container_cycle_is_loop (root : Mapping) (s x a : Str) (b : Key)
    (rest : List (Key × Value)) (ck ok : List Key) (st : RState)
    (hparse : Token.parse s = .ok (some (.combined [.lit x, .ref [.lit a]])))
    (hcolon : ':' ∉ a)
    (hget : root.get (.str a) = some (.map ((b, .str s) :: rest) ck ok))
    (hd : st.depth + 2 ≤ maxDepth) (n : Nat) (hn : 20 ≤ n) :
    interp n root (.str s) st = .error .loop := by
  refine interp_fuel_mono_le hn root _ st ?_ (by simp)
  by_cases hs : a ∈ st.seen
  · exact mixed_string_with_seen_ref_loops 12 root s x a st hparse hs (by omega)
  · rw [show (20 : Nat) = 19 + 1 from rfl, interp_str, hparse]
    simp only
    rw [tokRender_succ, tokResolve_combined, slice_cons, tokResolve_lit]
    simp only [strLoop_succ, Value.isStr, sliceFinish_succ, Value.isMap, Value.isSeq, rawString,
      Bool.false_or, if_false, Bool.false_eq_true]
    rw [slice_cons, tokResolve_ref, slice_single_lit]
    have hd' : ¬ (st.depth + 1 > maxDepth) := by omega
    simp only [hd', if_false, hs, splitColon_of_not_mem hcolon, hget, descend_nil, finalLoop_succ,
      Value.isStr, Value.isVl, Bool.or_self, Bool.false_eq_true, strLoop_succ]
    rw [sliceFinish_succ]
    simp only [Value.isMap, Bool.true_or, if_true]
    rw [container_with_seen_ref_loops 4 root s x a b rest ck ok
      { st with depth := st.depth + 1, seen := a :: st.seen } hparse List.mem_cons_self (by simp only; omega)]

/-- `pushListIndex` touches only the current-key text. -/
theorem pushListIndex_seen_depth (st : RState) (i : Nat) :
    (st.pushListIndex i).seen = st.seen ∧ (st.pushListIndex i).depth = st.depth := by
  unfold RState.pushListIndex
  split <;> exact ⟨rfl, rfl⟩

/-- **`items: ["${summary}", …]`, `summary: "x${items}"` is a loop**: the mixed string embeds a list
whose first element is a whole-value reference back to the string.  From any state with room for
three resolutions and for every fuel ≥ 30. -/
theorem embedded_list_cycle_is_loop (root : Mapping) (sMix sRef x items summary : Str)
    (restL : List Value) (st : RState)
    (hpMix : Token.parse sMix = .ok (some (.combined [.lit x, .ref [.lit items]])))
    (hpRef : Token.parse sRef = .ok (some (.ref [.lit summary])))
    (hc1 : ':' ∉ items) (hc2 : ':' ∉ summary)
    (hgI : root.get (.str items) = some (.seq (.str sRef :: restL)))
    (hgS : root.get (.str summary) = some (.str sMix))
    (hd : st.depth + 3 ≤ maxDepth) (n : Nat) (hn : 30 ≤ n) :
    interp n root (.str sMix) st = .error .loop := by
  refine interp_fuel_mono_le hn root _ st ?_ (by simp)
  by_cases hs : items ∈ st.seen
  · exact mixed_string_with_seen_ref_loops 22 root sMix x items st hpMix hs (by omega)
  · rw [show (30 : Nat) = 29 + 1 from rfl, interp_str, hpMix]
    simp only
    rw [tokRender_succ, tokResolve_combined, slice_cons, tokResolve_lit]
    simp only [strLoop_succ, Value.isStr, sliceFinish_succ, Value.isMap, Value.isSeq, rawString,
      Bool.false_or, if_false, Bool.false_eq_true]
    rw [slice_cons, tokResolve_ref, slice_single_lit]
    have hd' : ¬ (st.depth + 1 > maxDepth) := by omega
    simp only [hd', if_false, hs, splitColon_of_not_mem hc1, hgI, descend_nil, finalLoop_succ,
      Value.isStr, Value.isVl, Bool.or_self, Bool.false_eq_true, strLoop_succ]
    rw [sliceFinish_succ]
    simp only [Value.isMap, Value.isSeq, Bool.or_true, if_true]
    -- the list is interpolated with the state of the reference to `items`
    rw [interp_seq, interpL_cons]
    have hinner : interp 22 root (.str sRef)
        (({ st with depth := st.depth + 1, seen := items :: st.seen } : RState).pushListIndex 0) = .error .loop := by
      obtain ⟨hse, hde⟩ := pushListIndex_seen_depth
        ({ st with depth := st.depth + 1, seen := items :: st.seen } : RState) 0
      generalize hst1 : (({ st with depth := st.depth + 1, seen := items :: st.seen } : RState).pushListIndex 0) = st1 at hse hde
      rw [show (22 : Nat) = 16 + 6 from rfl, interp_wholeRef 16 root sRef summary st1 _ hpRef hc2 hgS]
      have hd1 : ¬ (st1.depth + 1 > maxDepth) := by rw [hde]; simp only; omega
      simp only [hd1, if_false]
      by_cases hs2 : summary ∈ st1.seen
      · simp only [hs2, if_true]
      · simp only [hs2, if_false]
        rw [show (16 + 3 : Nat) = 18 + 1 from rfl, finalLoop_succ]
        have hstr : ((Value.str sMix).isStr || (Value.str sMix).isVl) = true := rfl
        simp only [hstr, if_true]
        rw [show (18 : Nat) = 10 + 8 from rfl,
          mixed_string_with_seen_ref_loops 10 root sMix x items
            { st1 with depth := st1.depth + 1, seen := summary :: st1.seen } hpMix
            (by simp only; rw [hse]; exact List.mem_cons_of_mem _ List.mem_cons_self)
            (by simp only; rw [hde]; simp only; omega)]
    rw [hinner]


/-! ### Non-vacuity: `a: {b: "x-${a}"}` -/

private def sx : Str := "x-".toList ++ '$' :: '{' :: ("a".toList ++ '}' :: [])

private theorem sx_parses : Token.parse sx = .ok (some (.combined [.lit "x-".toList, .ref [.lit "a".toList]])) :=
  C05c.padded_ref_parses_combined "x-".toList "a".toList [] (by decide) (by decide) (by decide) (by simp)
    (Or.inl (by decide))

private def exRoot : Mapping := { es := [(.str "a".toList, .map [(.str "b".toList, .str sx)] [] [])] }

example (n : Nat) (hn : 20 ≤ n) : interp n exRoot (.str sx) {} = .error .loop :=
  embedded_container_cycle_is_loop exRoot sx "x-".toList "a".toList (.str "b".toList) [] [] [] {}
    sx_parses (by decide) rfl (by decide) n hn

end C08d
end Reclass
