/-
  C19 — Through the Python API, rendered data arrives as native objects equal to the
  rendered values.

  "Mappings as dicts in the same key order, lists as lists, strings as str, booleans as bool,
  null as None, integers as int without loss and other numbers as float."

  Theorems about `Model/Py` (`Value::as_py_obj` in `src/types/value.rs`, `Mapping::as_py_dict`
  in `src/types/mapping.rs`), for every value (no size bound):

  * scalars are converted constructor by constructor (`toPy_scalars`);
  * the conversion is total on plain data, hence on rendered parameters: the `unreachable!()`
    for a layer list is dead code there (`toPy_total_on_closed`, `render_toPy_total`);
  * lists keep length and order (`toPy_list_order`, `toPyL_iff`, `toPyL_append`);
  * a mapping whose keys stay pairwise different *as Python objects* (`PyDistinct`) becomes a
    dict with the same entries in the same order (`toPy_dict_faithful`, `toPyEs_of_conv`);
    string-keyed mappings always qualify (`str_keys_distinct`);
  * without `PyDistinct` an entry is lost: `1` and `true` are one dict key in Python
    (`py_key_collision`, recorded finding), and `keyEq_iff` says exactly which keys collide.
-/
import Reclass.Model.Py
import Reclass.Spec.Closed
import Reclass.Props.C07
namespace Reclass
namespace C19

/-! ## Vocabulary -/

/-- The converted keys are pairwise different under Python equality (earlier against later,
the direction in which `PyDict::set_item` compares). -/
def PyDistinct (es : List (Key × Value)) : Prop :=
  List.Pairwise (fun a b => (Key.toPy a.1).keyEq (Key.toPy b.1) = false) es

/-- Element-wise conversion of a list: same length, same order, each element converted. -/
inductive ListConv : List Value → List PyObj → Prop where
  | nil : ListConv [] []
  | cons {v p l xs} : toPy v = .ok p → ListConv l xs → ListConv (v :: l) (p :: xs)

/-- Entry-wise conversion of a mapping: same length, same order, key converted by `Key.toPy`,
value by `toPy`. -/
inductive EntriesConv : List (Key × Value) → List (PyObj × PyObj) → Prop where
  | nil : EntriesConv [] []
  | cons {k v p es d} : toPy v = .ok p → EntriesConv es d → EntriesConv ((k, v) :: es) ((k.toPy, p) :: d)

/-! ## Helper lemmas -/

theorem ListConv.length_eq {l xs} (h : ListConv l xs) : xs.length = l.length := by
  induction h with
  | nil => rfl
  | cons _ _ ih => simp [ih]

theorem ListConv.get {l xs} (h : ListConv l xs) :
    ∀ (i : Nat) (h1 : i < l.length) (h2 : i < xs.length), toPy l[i] = .ok xs[i] := by
  induction h with
  | nil => intro i h1; simp at h1
  | cons hv _ ih =>
    intro i h1 h2
    cases i with
    | zero => simpa using hv
    | succ i => simpa using ih i (by simpa using h1) (by simpa using h2)

theorem ListConv.append {a b xs ys} (h1 : ListConv a xs) (h2 : ListConv b ys) : ListConv (a ++ b) (xs ++ ys) := by
  induction h1 with
  | nil => exact h2
  | cons hv _ ih => exact .cons hv ih

theorem EntriesConv.length_eq {es d} (h : EntriesConv es d) : d.length = es.length := by
  induction h with
  | nil => rfl
  | cons _ _ ih => simp [ih]

theorem EntriesConv.keys_eq {es d} (h : EntriesConv es d) : d.map Prod.fst = es.map (fun e => e.1.toPy) := by
  induction h with
  | nil => rfl
  | cons _ _ ih => simp [ih]

theorem EntriesConv.mem {es d} (h : EntriesConv es d) :
    ∀ k v, (k, v) ∈ es → ∃ p, toPy v = .ok p ∧ (k.toPy, p) ∈ d := by
  induction h with
  | nil => intro k v hm; simp at hm
  | cons hv _ ih =>
    intro k v hm
    rcases List.mem_cons.1 hm with hm | hm
    · injection hm with hk hv'; subst hk; subst hv'
      exact ⟨_, hv, by simp⟩
    · obtain ⟨p, hp, hd⟩ := ih k v hm
      exact ⟨p, hp, List.mem_cons_of_mem _ hd⟩

theorem EntriesConv.mem_rev {es d} (h : EntriesConv es d) :
    ∀ q p, (q, p) ∈ d → ∃ k v, (k, v) ∈ es ∧ q = k.toPy ∧ toPy v = .ok p := by
  induction h with
  | nil => intro q p hm; simp at hm
  | cons hv _ ih =>
    intro q p hm
    rcases List.mem_cons.1 hm with hm | hm
    · injection hm with hk hv'; subst hk; subst hv'
      exact ⟨_, _, by simp, rfl, hv⟩
    · obtain ⟨k, v, hkv, hq, hp⟩ := ih q p hm
      exact ⟨k, v, List.mem_cons_of_mem _ hkv, hq, hp⟩

/-- `toPyL` is the element-wise conversion. -/
theorem toPyL_iff : ∀ (l : List Value) (xs : List PyObj), toPyL l = .ok xs ↔ ListConv l xs
  | [], xs => by
    simp only [toPyL, Except.ok.injEq]
    constructor
    · intro h; subst h; exact .nil
    · intro h; cases h; rfl
  | v :: vs, xs => by
    simp only [toPyL]
    constructor
    · intro h
      cases h1 : toPy v with
      | error e => simp [h1] at h
      | ok x =>
        simp only [h1] at h
        cases h2 : toPyL vs with
        | error e => simp [h2] at h
        | ok ys =>
          simp only [h2, Except.ok.injEq] at h
          subst h
          exact .cons h1 ((toPyL_iff vs ys).1 h2)
    · intro h
      cases h with
      | cons hv hl => simp [hv, (toPyL_iff vs _).2 hl]

/-- `set_item` with a key that equals none of the present keys appends the entry. -/
theorem pyDictSet_fresh (k v : PyObj) (acc : List (PyObj × PyObj))
    (h : ∀ a ∈ acc, a.1.keyEq k = false) : pyDictSet k v acc = acc ++ [(k, v)] := by
  induction acc with
  | nil => rfl
  | cons a rest ih =>
    obtain ⟨k', v'⟩ := a
    have h1 : k'.keyEq k = false := h (k', v') (by simp)
    simp only [pyDictSet, h1, Bool.false_eq_true, if_false, List.cons_append]
    rw [ih (fun a ha => h a (List.mem_cons_of_mem _ ha))]

/-- `set_item` with a key equal to a present one keeps the number of entries. -/
theorem pyDictSet_length_le (k v : PyObj) (acc : List (PyObj × PyObj)) :
    (pyDictSet k v acc).length ≤ acc.length + 1 := by
  induction acc with
  | nil => simp [pyDictSet]
  | cons a rest ih =>
    obtain ⟨k', v'⟩ := a
    simp only [pyDictSet]
    split <;> simp <;> omega

/-- General-accumulator form: with pairwise distinct keys that are also distinct from the
keys already in the dict, `as_py_dict` appends the converted entries in order. -/
theorem toPyEs_acc : ∀ (es : List (Key × Value)) (acc d : List (PyObj × PyObj)),
    PyDistinct es → (∀ e ∈ es, ∀ a ∈ acc, a.1.keyEq e.1.toPy = false) →
    toPyEs es acc = .ok d → ∃ d', d = acc ++ d' ∧ EntriesConv es d'
  | [], acc, d, _, _, h => by
    simp only [toPyEs, Except.ok.injEq] at h
    exact ⟨[], by simp [h], .nil⟩
  | (k, v) :: rest, acc, d, hd, ha, h => by
    simp only [toPyEs] at h
    cases h1 : toPy v with
    | error e => simp [h1] at h
    | ok x =>
      simp only [h1] at h
      rw [pyDictSet_fresh _ _ _ (fun a haa => ha (k, v) (by simp) a haa)] at h
      have hd' := List.pairwise_cons.1 hd
      obtain ⟨d', hd1, hd2⟩ := toPyEs_acc rest (acc ++ [(k.toPy, x)]) d hd'.2 (by
        intro e he a haa
        rcases List.mem_append.1 haa with haa | haa
        · exact ha e (List.mem_cons_of_mem _ he) a haa
        · simp only [List.mem_singleton] at haa; subst haa
          exact hd'.1 e he) h
      exact ⟨(k.toPy, x) :: d', by simp [hd1], .cons h1 hd2⟩

/-- Converse of `toPyEs_acc`: if the keys are distinct and every value converts, the result is
exactly the accumulator followed by the converted entries. -/
theorem toPyEs_acc_of_conv : ∀ (es : List (Key × Value)) (acc d' : List (PyObj × PyObj)),
    PyDistinct es → (∀ e ∈ es, ∀ a ∈ acc, a.1.keyEq e.1.toPy = false) →
    EntriesConv es d' → toPyEs es acc = .ok (acc ++ d')
  | [], acc, d', _, _, h => by cases h; simp [toPyEs]
  | (k, v) :: rest, acc, d', hd, ha, h => by
    cases h with
    | cons hv hr =>
      rename_i p d
      simp only [toPyEs, hv]
      rw [pyDictSet_fresh _ _ _ (fun a haa => ha (k, v) (by simp) a haa)]
      have hd' := List.pairwise_cons.1 hd
      rw [toPyEs_acc_of_conv rest (acc ++ [(k.toPy, p)]) d hd'.2 (by
        intro e he a haa
        rcases List.mem_append.1 haa with haa | haa
        · exact ha e (List.mem_cons_of_mem _ he) a haa
        · simp only [List.mem_singleton] at haa; subst haa
          exact hd'.1 e he) hr]
      simp

/-! ## 1. Scalars -/

/-- Scalars arrive as the corresponding native scalar: null as `None`, a boolean as `bool`
(never as an int), an integer as the same `int` whatever its magnitude, any other number as
`float` (carrying the YAML token), a literal or plain string as `str` with the same text. -/
theorem toPy_scalars (b : Bool) (i : Int) (y j s : Str) :
    toPy .null = .ok .none ∧
    toPy (.bool b) = .ok (.bool b) ∧
    toPy (.num (.int i)) = .ok (.int i) ∧
    toPy (.num (.float y j)) = .ok (.float y) ∧
    toPy (.lit s) = .ok (.str s) ∧
    toPy (.str s) = .ok (.str s) := by
  simp [toPy]

/-- Sequences become lists and mappings become dicts — never anything else. -/
theorem toPy_containers (l : List Value) (es : List (Key × Value)) (ck ok : List Key) (p : PyObj) :
    (toPy (.seq l) = .ok p → ∃ xs, p = .list xs ∧ toPyL l = .ok xs) ∧
    (toPy (.map es ck ok) = .ok p → ∃ d, p = .dict d ∧ toPyEs es [] = .ok d) := by
  constructor
  · intro h
    simp only [toPy] at h
    cases h1 : toPyL l with
    | error e => simp [h1] at h
    | ok xs => simp only [h1, Except.ok.injEq] at h; exact ⟨xs, h.symm, rfl⟩
  · intro h
    simp only [toPy] at h
    cases h1 : toPyEs es [] with
    | error e => simp [h1] at h
    | ok d => simp only [h1, Except.ok.injEq] at h; exact ⟨d, h.symm, rfl⟩

/-! ## 2. Totality on plain data -/

mutual
/-- The conversion succeeds on every plain-data value (`Closed`: no unparsed string, no layer
list): its only failure is the `unreachable!()` on a layer list. -/
theorem toPy_total_on_closed : ∀ (v : Value), Closed v → ∃ p, toPy v = .ok p
  | .null, _ => ⟨_, rfl⟩
  | .bool _, _ => ⟨_, rfl⟩
  | .num (.int _), _ => ⟨_, rfl⟩
  | .num (.float _ _), _ => ⟨_, rfl⟩
  | .lit _, _ => ⟨_, rfl⟩
  | .str _, h => by simp [Closed] at h
  | .vl _, h => by simp [Closed] at h
  | .seq l, h => by
    obtain ⟨xs, hx⟩ := toPyL_total_on_closed l (by simpa [Closed] using h)
    exact ⟨.list xs, by simp [toPy, hx]⟩
  | .map es _ _, h => by
    obtain ⟨d, hd⟩ := toPyEs_total_on_closed es [] (by simpa [Closed] using h)
    exact ⟨.dict d, by simp [toPy, hd]⟩
/-- Companion of `toPy_total_on_closed` for lists. -/
theorem toPyL_total_on_closed : ∀ (l : List Value), ClosedL l → ∃ xs, toPyL l = .ok xs
  | [], _ => ⟨_, rfl⟩
  | v :: vs, h => by
    simp only [ClosedL] at h
    obtain ⟨p, hp⟩ := toPy_total_on_closed v h.1
    obtain ⟨xs, hx⟩ := toPyL_total_on_closed vs h.2
    exact ⟨p :: xs, by simp [toPyL, hp, hx]⟩
/-- Companion of `toPy_total_on_closed` for mapping entries, any accumulator. -/
theorem toPyEs_total_on_closed : ∀ (es : List (Key × Value)) (acc : List (PyObj × PyObj)),
    ClosedEs es → ∃ d, toPyEs es acc = .ok d
  | [], acc, _ => ⟨acc, rfl⟩
  | (k, v) :: rest, acc, h => by
    simp only [ClosedEs] at h
    obtain ⟨p, hp⟩ := toPy_total_on_closed v h.1
    obtain ⟨d, hd⟩ := toPyEs_total_on_closed rest (pyDictSet k.toPy p acc) h.2
    exact ⟨d, by simp [toPyEs, hp, hd]⟩
end

mutual
/-- The only error the conversion can produce is the panic on a layer list. -/
theorem toPy_error_only_vl : ∀ (v : Value) (e : Err), toPy v = .error e → e = .panic .pyVl
  | .null, e, h => by simp [toPy] at h
  | .bool _, e, h => by simp [toPy] at h
  | .num (.int _), e, h => by simp [toPy] at h
  | .num (.float _ _), e, h => by simp [toPy] at h
  | .lit _, e, h => by simp [toPy] at h
  | .str _, e, h => by simp [toPy] at h
  | .vl _, e, h => by simp only [toPy, Except.error.injEq] at h; exact h.symm
  | .seq l, e, h => by
    simp only [toPy] at h
    cases h1 : toPyL l with
    | error e' => simp only [h1, Except.error.injEq] at h; subst h; exact toPyL_error_only_vl l e' h1
    | ok xs => simp [h1] at h
  | .map es _ _, e, h => by
    simp only [toPy] at h
    cases h1 : toPyEs es [] with
    | error e' => simp only [h1, Except.error.injEq] at h; subst h; exact toPyEs_error_only_vl es [] e' h1
    | ok xs => simp [h1] at h
theorem toPyL_error_only_vl : ∀ (l : List Value) (e : Err), toPyL l = .error e → e = .panic .pyVl
  | [], e, h => by simp [toPyL] at h
  | v :: vs, e, h => by
    simp only [toPyL] at h
    cases h1 : toPy v with
    | error e' => simp only [h1, Except.error.injEq] at h; subst h; exact toPy_error_only_vl v e' h1
    | ok x =>
      simp only [h1] at h
      cases h2 : toPyL vs with
      | error e' => simp only [h2, Except.error.injEq] at h; subst h; exact toPyL_error_only_vl vs e' h2
      | ok xs => simp [h2] at h
theorem toPyEs_error_only_vl : ∀ (es : List (Key × Value)) (acc : List (PyObj × PyObj)) (e : Err),
    toPyEs es acc = .error e → e = .panic .pyVl
  | [], acc, e, h => by simp [toPyEs] at h
  | (k, v) :: rest, acc, e, h => by
    simp only [toPyEs] at h
    cases h1 : toPy v with
    | error e' => simp only [h1, Except.error.injEq] at h; subst h; exact toPy_error_only_vl v e' h1
    | ok x => simp only [h1] at h; exact toPyEs_error_only_vl rest _ e h
end

/-- Rendered parameters always convert: for well-formed input, whatever `render` returns
successfully is accepted by `as_py_obj`, so the `unreachable!()` there is never reached for
rendered data. -/
theorem render_toPy_total {n : Nat} {m out : Mapping} (hm : WF m.toValue)
    (h : renderParamsF n m = .ok out) : ∃ p, toPy out.toValue = .ok p :=
  toPy_total_on_closed _ (C07.render_closed hm h).1

/-- … and what arrives is a dict. -/
theorem render_toPy_dict {n : Nat} {m out : Mapping} (hm : WF m.toValue)
    (h : renderParamsF n m = .ok out) : ∃ d, toPy out.toValue = .ok (.dict d) := by
  obtain ⟨p, hp⟩ := render_toPy_total hm h
  obtain ⟨d, hd, _⟩ := (toPy_containers [] out.es out.ck out.ok p).2 hp
  exact ⟨d, hd ▸ hp⟩

/-! ## 3. Lists -/

/-- A sequence arrives as a list of the same length whose `i`-th element is the conversion of
the `i`-th element of the sequence. -/
theorem toPy_list_order (l : List Value) (xs : List PyObj) (h : toPy (.seq l) = .ok (.list xs)) :
    xs.length = l.length ∧
    ∀ (i : Nat) (h1 : i < l.length) (h2 : i < xs.length), toPy l[i] = .ok xs[i] := by
  obtain ⟨ys, hy, hl⟩ := (toPy_containers l [] [] [] _).1 h
  injection hy with hy; subst hy
  have hc := (toPyL_iff l xs).1 hl
  exact ⟨hc.length_eq, hc.get⟩

/-- Conversion of a concatenation is the concatenation of the conversions. -/
theorem toPyL_append (a b : List Value) (xs ys : List PyObj)
    (ha : toPyL a = .ok xs) (hb : toPyL b = .ok ys) : toPyL (a ++ b) = .ok (xs ++ ys) :=
  (toPyL_iff _ _).2 (((toPyL_iff _ _).1 ha).append ((toPyL_iff _ _).1 hb))

/-! ## 4. Dicts -/

/-- **Faithful dicts.** If the keys of a mapping stay pairwise different as Python objects,
the dict has exactly one entry per mapping entry, in the same order: the keys are the
converted keys in order, and every entry `(k, v)` of the mapping is present as
`(k.toPy, toPy v)`. Nothing is lost, nothing is added. -/
theorem toPy_dict_faithful (es : List (Key × Value)) (d : List (PyObj × PyObj))
    (hd : PyDistinct es) (h : toPyEs es [] = .ok d) :
    d.map Prod.fst = es.map (fun e => e.1.toPy) ∧
    d.length = es.length ∧
    (∀ k v, (k, v) ∈ es → ∃ p, toPy v = .ok p ∧ (k.toPy, p) ∈ d) ∧
    (∀ q p, (q, p) ∈ d → ∃ k v, (k, v) ∈ es ∧ q = k.toPy ∧ toPy v = .ok p) ∧
    EntriesConv es d := by
  obtain ⟨d', h1, h2⟩ := toPyEs_acc es [] d hd (by intro e _ a ha; simp at ha) h
  simp only [List.nil_append] at h1; subst h1
  exact ⟨h2.keys_eq, h2.length_eq, h2.mem, h2.mem_rev, h2⟩

/-- The same from the other side: with distinct keys, if every value converts, the dict is
the entry-wise conversion. With `f` giving the converted values this is
`toPyEs es [] = .ok (es.map fun (k, v) => (k.toPy, f v))`. -/
theorem toPyEs_of_conv (es : List (Key × Value)) (f : Value → PyObj)
    (hd : PyDistinct es) (hf : ∀ e ∈ es, toPy e.2 = .ok (f e.2)) :
    toPyEs es [] = .ok (es.map fun e => (e.1.toPy, f e.2)) := by
  have hc : EntriesConv es (es.map fun e => (e.1.toPy, f e.2)) := by
    induction es with
    | nil => exact .nil
    | cons e rest ih =>
      obtain ⟨k, v⟩ := e
      exact .cons (hf (k, v) (by simp))
        (ih (List.pairwise_cons.1 hd).2 (fun e he => hf e (List.mem_cons_of_mem _ he)))
  simpa using toPyEs_acc_of_conv es [] _ hd (by intro e _ a ha; simp at ha) hc

/-- In any case (distinct keys or not) a dict never has more entries than the mapping. -/
theorem toPyEs_length_le : ∀ (es : List (Key × Value)) (acc d : List (PyObj × PyObj)),
    toPyEs es acc = .ok d → d.length ≤ acc.length + es.length
  | [], acc, d, h => by simp only [toPyEs, Except.ok.injEq] at h; simp [h]
  | (k, v) :: rest, acc, d, h => by
    simp only [toPyEs] at h
    cases h1 : toPy v with
    | error e => simp [h1] at h
    | ok x =>
      simp only [h1] at h
      have := toPyEs_length_le rest _ d h
      have := pyDictSet_length_le k.toPy x acc
      simp only [List.length_cons]; omega

/-! ## 5. Which keys collide -/

/-- Python equality on converted keys, spelled out: two keys are one dict key iff both are
numeric-like (bool or int) with the same numeric value (`True == 1`, `False == 0`), or both
have the same text (a `String` key and a `Literal` key with the same text are the same `str`),
or both are null, or both are floats with the same token. -/
theorem keyEq_iff (a b : Key) :
    (Key.toPy a).keyEq (Key.toPy b) = true ↔
      (∃ x, (Key.toPy a).keyNum = some x ∧ (Key.toPy b).keyNum = some x) ∨
      (∃ s, Key.toPy a = .str s ∧ Key.toPy b = .str s) ∨
      (Key.toPy a = .none ∧ Key.toPy b = .none) ∨
      (∃ t, Key.toPy a = .float t ∧ Key.toPy b = .float t) := by
  rcases a with s | s | (_ | _) | (i | ⟨y, j⟩) | _ <;>
  rcases b with s' | s' | (_ | _) | (i' | ⟨y', j'⟩) | _ <;>
  simp [Key.toPy, PyObj.keyEq, PyObj.keyNum] <;> exact eq_comm

/-- Keys that are equal in the model are equal in Python (so `PyDistinct` implies `Nodup`). -/
theorem keyEq_refl (a : Key) : (Key.toPy a).keyEq (Key.toPy a) = true := by
  rcases a with s | s | (_ | _) | (i | ⟨y, j⟩) | _ <;> simp [Key.toPy, PyObj.keyEq, PyObj.keyNum]

/-- **Recorded finding (key collision).** The mapping `{1: a, true: b}` has two entries, the
dict has one: Python's `True == 1`, so `set_item` overwrites the value of key `1` and keeps
the key object `1`. The entry `true ↦ b` is lost as such, and the value `a` is lost
altogether. Hence `PyDistinct` cannot be dropped from `toPy_dict_faithful`. -/
theorem py_key_collision (a b : Str) :
    toPyEs [(.num (.int 1), .lit a), (.bool true, .lit b)] [] = .ok [(.int 1, .str b)] ∧
    ¬ PyDistinct [(.num (.int 1), .lit a), (.bool true, .lit b)] ∧
    (keys [(.num (.int 1), .lit a), (.bool true, .lit b)]).Nodup := by
  refine ⟨by simp [toPyEs, toPy, pyDictSet, Key.toPy, PyObj.keyEq, PyObj.keyNum], ?_, by simp [keys]⟩
  simp [PyDistinct, Key.toPy, PyObj.keyEq, PyObj.keyNum]

/-- The same for a `String` key and a `Literal` key with the same text. -/
theorem py_key_collision_lit (s a b : Str) :
    toPyEs [(.str s, .lit a), (.lit s, .lit b)] [] = .ok [(.str s, .str b)] ∧
    (keys [(.str s, .lit a), (.lit s, .lit b)]).Nodup := by
  simp [toPyEs, toPy, pyDictSet, Key.toPy, PyObj.keyEq, PyObj.keyNum, keys]

/-! ## 6. String-keyed mappings are always faithful -/

/-- Distinct `String` keys stay distinct in Python. -/
theorem str_keys_distinct (es : List (Key × Value)) (hn : (keys es).Nodup)
    (hs : ∀ e ∈ es, ∃ s, e.1 = .str s) : PyDistinct es := by
  unfold PyDistinct
  have hp : List.Pairwise (fun a b : Key × Value => a.1 ≠ b.1) es := by
    simpa [keys, List.Nodup, List.pairwise_map] using hn
  refine hp.imp_of_mem ?_
  intro a b ha hb hne
  obtain ⟨s, hsa⟩ := hs a ha
  obtain ⟨t, hsb⟩ := hs b hb
  rw [hsa, hsb] at hne ⊢
  have : s ≠ t := fun h => hne (by rw [h])
  simp [Key.toPy, PyObj.keyEq, PyObj.keyNum, this]

/-- More generally: keys that are all strings, or all integers, … — any set of keys on which
`Key.toPy` followed by Python equality is injective. Stated for the common case "no booleans
and no literal keys": then model-distinct keys are Python-distinct. -/
theorem plain_keys_distinct (es : List (Key × Value)) (hn : (keys es).Nodup)
    (hs : ∀ e ∈ es, (∀ b, e.1 ≠ .bool b) ∧ (∀ s, e.1 ≠ .lit s) ∧ (∀ y j, e.1 ≠ .num (.float y j))) :
    PyDistinct es := by
  unfold PyDistinct
  have hp : List.Pairwise (fun a b : Key × Value => a.1 ≠ b.1) es := by
    simpa [keys, List.Nodup, List.pairwise_map] using hn
  refine hp.imp_of_mem ?_
  intro a b ha hb hne
  obtain ⟨a1, a2, a3⟩ := hs a ha
  obtain ⟨b1, b2, b3⟩ := hs b hb
  obtain ⟨ka, va⟩ := a
  obtain ⟨kb, vb⟩ := b
  simp only at hne a1 a2 a3 b1 b2 b3 ⊢
  rcases ka with s | s | c | (i | ⟨y, j⟩) | _
  · rcases kb with s' | s' | c' | (i' | ⟨y', j'⟩) | _ <;>
      simp_all [Key.toPy, PyObj.keyEq, PyObj.keyNum]
  · exact absurd rfl (a2 s)
  · exact absurd rfl (a1 c)
  · rcases kb with s' | s' | c' | (i' | ⟨y', j'⟩) | _ <;>
      simp_all [Key.toPy, PyObj.keyEq, PyObj.keyNum]
  · exact absurd rfl (a3 y j)
  · rcases kb with s' | s' | c' | (i' | ⟨y', j'⟩) | _ <;>
      simp_all [Key.toPy, PyObj.keyEq, PyObj.keyNum]

/-- A well-formed mapping with string keys only converts faithfully: combined statement of
`str_keys_distinct` and `toPy_dict_faithful` on `WF`. -/
theorem wf_str_map_faithful (es : List (Key × Value)) (ck ok : List Key) (d : List (PyObj × PyObj))
    (hw : WF (.map es ck ok)) (hs : ∀ e ∈ es, ∃ s, e.1 = .str s)
    (h : toPy (.map es ck ok) = .ok (.dict d)) :
    d.map Prod.fst = es.map (fun e => e.1.toPy) ∧ d.length = es.length ∧
    (∀ k v, (k, v) ∈ es → ∃ p, toPy v = .ok p ∧ (k.toPy, p) ∈ d) := by
  simp only [WF] at hw
  obtain ⟨d', hd', hes⟩ := (toPy_containers [] es ck ok _).2 h
  injection hd' with hd'; subst hd'
  have := toPy_dict_faithful es d (str_keys_distinct es hw.2 hs) hes
  exact ⟨this.1, this.2.1, this.2.2.1⟩

/-! ## 7. The whole value at once -/

mutual
/-- The native object a value *should* arrive as: the same tree with every constructor replaced
by its Python counterpart, every mapping entry kept. (No `set_item` here: this is the
specification, `toPy` is the code.) -/
def pyOf : Value → PyObj
  | .null => .none
  | .bool b => .bool b
  | .num (.int i) => .int i
  | .num (.float y _) => .float y
  | .str s => .str s
  | .lit s => .str s
  | .seq l => .list (pyOfL l)
  | .vl l => .list (pyOfL l)
  | .map es _ _ => .dict (pyOfEs es)
def pyOfL : List Value → List PyObj
  | [] => []
  | v :: vs => pyOf v :: pyOfL vs
def pyOfEs : List (Key × Value) → List (PyObj × PyObj)
  | [] => []
  | (k, v) :: es => (k.toPy, pyOf v) :: pyOfEs es
end

mutual
/-- In every mapping anywhere inside the value the keys are pairwise different in Python. -/
def DistinctKeys : Value → Prop
  | .map es _ _ => PyDistinct es ∧ DistinctKeysEs es
  | .seq l => DistinctKeysL l
  | .vl l => DistinctKeysL l
  | _ => True
def DistinctKeysL : List Value → Prop
  | [] => True
  | v :: vs => DistinctKeys v ∧ DistinctKeysL vs
def DistinctKeysEs : List (Key × Value) → Prop
  | [] => True
  | (_, v) :: es => DistinctKeys v ∧ DistinctKeysEs es
end

mutual
/-- Every key of every mapping anywhere inside the value is a `String` key. -/
def StrKeyed : Value → Prop
  | .map es _ _ => StrKeyedEs es
  | .seq l => StrKeyedL l
  | .vl l => StrKeyedL l
  | _ => True
def StrKeyedL : List Value → Prop
  | [] => True
  | v :: vs => StrKeyed v ∧ StrKeyedL vs
def StrKeyedEs : List (Key × Value) → Prop
  | [] => True
  | (k, v) :: es => (∃ s, k = .str s) ∧ StrKeyed v ∧ StrKeyedEs es
end

theorem pyOfL_length (l : List Value) : (pyOfL l).length = l.length := by
  induction l with
  | nil => rfl
  | cons v vs ih => simp [pyOfL, ih]

theorem pyOfEs_keys (es : List (Key × Value)) : (pyOfEs es).map Prod.fst = es.map (fun e => e.1.toPy) := by
  induction es with
  | nil => rfl
  | cons e rest ih => obtain ⟨k, v⟩ := e; simp [pyOfEs, ih]

theorem strKeyedEs_mem (es : List (Key × Value)) (h : StrKeyedEs es) : ∀ e ∈ es, ∃ s, e.1 = .str s := by
  induction es with
  | nil => intro e he; simp at he
  | cons e rest ih =>
    obtain ⟨k, v⟩ := e
    simp only [StrKeyedEs] at h
    intro e he
    rcases List.mem_cons.1 he with he | he
    · subst he; exact h.1
    · exact ih h.2.2 e he

mutual
/-- **Whole-value faithfulness.** Plain data in which no mapping has two keys that Python
identifies arrives as exactly the specified native object `pyOf v`: dicts with all entries in
mapping order, lists in order, scalars as in `toPy_scalars`, at every depth. -/
theorem toPy_eq_pyOf : ∀ (v : Value), Closed v → DistinctKeys v → toPy v = .ok (pyOf v)
  | .null, _, _ => rfl
  | .bool _, _, _ => rfl
  | .num (.int _), _, _ => rfl
  | .num (.float _ _), _, _ => rfl
  | .lit _, _, _ => rfl
  | .str _, h, _ => by simp [Closed] at h
  | .vl _, h, _ => by simp [Closed] at h
  | .seq l, h, hd => by
    simp only [Closed] at h
    simp only [DistinctKeys] at hd
    simp [toPy, pyOf, (toPyL_iff _ _).2 (listConv_pyOfL l h hd)]
  | .map es _ _, h, hd => by
    simp only [Closed] at h
    simp only [DistinctKeys] at hd
    have := toPyEs_acc_of_conv es [] _ hd.1 (by intro e _ a ha; simp at ha) (entriesConv_pyOfEs es h hd.2)
    simp only [List.nil_append] at this
    simp [toPy, pyOf, this]
theorem listConv_pyOfL : ∀ (l : List Value), ClosedL l → DistinctKeysL l → ListConv l (pyOfL l)
  | [], _, _ => .nil
  | v :: vs, h, hd => by
    simp only [ClosedL] at h
    simp only [DistinctKeysL] at hd
    exact .cons (toPy_eq_pyOf v h.1 hd.1) (listConv_pyOfL vs h.2 hd.2)
theorem entriesConv_pyOfEs : ∀ (es : List (Key × Value)), ClosedEs es → DistinctKeysEs es →
    EntriesConv es (pyOfEs es)
  | [], _, _ => .nil
  | (k, v) :: rest, h, hd => by
    simp only [ClosedEs] at h
    simp only [DistinctKeysEs] at hd
    exact .cons (toPy_eq_pyOf v h.1 hd.1) (entriesConv_pyOfEs rest h.2 hd.2)
end

mutual
/-- Well-formed values (keys unique in every mapping) with string keys only have Python-distinct
keys everywhere. -/
theorem distinctKeys_of_strKeyed : ∀ (v : Value), WF v → StrKeyed v → DistinctKeys v
  | .null, _, _ => by simp [DistinctKeys]
  | .bool _, _, _ => by simp [DistinctKeys]
  | .num _, _, _ => by simp [DistinctKeys]
  | .lit _, _, _ => by simp [DistinctKeys]
  | .str _, _, _ => by simp [DistinctKeys]
  | .vl l, h, hs => by
    simp only [WF] at h; simp only [StrKeyed] at hs; simp only [DistinctKeys]
    exact distinctKeysL_of_strKeyed l h hs
  | .seq l, h, hs => by
    simp only [WF] at h; simp only [StrKeyed] at hs; simp only [DistinctKeys]
    exact distinctKeysL_of_strKeyed l h hs
  | .map es _ _, h, hs => by
    simp only [WF] at h; simp only [StrKeyed] at hs; simp only [DistinctKeys]
    exact ⟨str_keys_distinct es h.2 (strKeyedEs_mem es hs), distinctKeysEs_of_strKeyed es h.1 hs⟩
theorem distinctKeysL_of_strKeyed : ∀ (l : List Value), WFL l → StrKeyedL l → DistinctKeysL l
  | [], _, _ => by simp [DistinctKeysL]
  | v :: vs, h, hs => by
    simp only [WFL] at h; simp only [StrKeyedL] at hs; simp only [DistinctKeysL]
    exact ⟨distinctKeys_of_strKeyed v h.1 hs.1, distinctKeysL_of_strKeyed vs h.2 hs.2⟩
theorem distinctKeysEs_of_strKeyed : ∀ (es : List (Key × Value)), WFEs es → StrKeyedEs es → DistinctKeysEs es
  | [], _, _ => by simp [DistinctKeysEs]
  | (k, v) :: rest, h, hs => by
    simp only [WFEs] at h; simp only [StrKeyedEs] at hs; simp only [DistinctKeysEs]
    exact ⟨distinctKeys_of_strKeyed v h.2.1 hs.2.1, distinctKeysEs_of_strKeyed rest h.2.2 hs.2.2⟩
end

/-- **End to end.** Rendered parameters whose mapping keys are all strings (the ordinary case)
arrive through the Python API as exactly `pyOf` of the rendered value: no panic, every mapping
a dict with all its entries in order, every list a list in order, every scalar the native
scalar. (`WF` of the input is the hypothesis of C07; the string-key condition is on the
output, where C07 also gives `WF`.) -/
theorem render_toPy_faithful {n : Nat} {m out : Mapping} (hm : WF m.toValue)
    (h : renderParamsF n m = .ok out) (hs : StrKeyed out.toValue) :
    toPy out.toValue = .ok (pyOf out.toValue) := by
  obtain ⟨hc, hw⟩ := C07.render_closed hm h
  exact toPy_eq_pyOf _ hc (distinctKeys_of_strKeyed _ hw hs)

/-! ### Non-vacuity -/

example : toPy (.map [(.str "a".toList, .seq [.num (.int 100000000000000000000), .bool true, .null]),
                      (.str "b".toList, .map [(.str "c".toList, .lit "x".toList)] [] [])] [] [])
    = .ok (.dict [(.str "a".toList, .list [.int 100000000000000000000, .bool true, .none]),
                  (.str "b".toList, .dict [(.str "c".toList, .str "x".toList)])]) := by
  simp [toPy, toPyL, toPyEs, pyDictSet, Key.toPy, PyObj.keyEq, PyObj.keyNum]

example : toPy (.seq [.vl [.null]]) = .error (.panic .pyVl) := by simp [toPy, toPyL]

example : PyDistinct [(.str "a".toList, .null), (.str "b".toList, .null), (.num (.int 1), .null)] := by
  simp [PyDistinct, Key.toPy, PyObj.keyEq, PyObj.keyNum]

example : Closed (.map [(.str "a".toList, .seq [.lit "x".toList])] [] []) := by simp [Closed, ClosedEs, ClosedL]

example : (Key.toPy (.bool false)).keyEq (Key.toPy (.num (.int 0))) = true := by decide

example : (Key.toPy (.str "1".toList)).keyEq (Key.toPy (.num (.int 1))) = false := by decide

example : DistinctKeys (.map [(.str "a".toList, .map [(.num (.int 1), .null), (.bool false, .null)] [] [])] [] []) := by
  simp [DistinctKeys, DistinctKeysEs, PyDistinct, Key.toPy, PyObj.keyEq, PyObj.keyNum]

example : ¬ DistinctKeys (.seq [.map [(.num (.int 1), .null), (.bool true, .null)] [] []]) := by
  simp [DistinctKeys, DistinctKeysL, DistinctKeysEs, PyDistinct, Key.toPy, PyObj.keyEq, PyObj.keyNum]

example : StrKeyed (.map [(.str "a".toList, .seq [.map [(.str "b".toList, .null)] [] []])] [] []) := by
  simp [StrKeyed, StrKeyedEs, StrKeyedL]

end C19
end Reclass
