/-
  C02 — layered parameters deep-merge.  Umbrella module for the C02 theorem files.
-/
import Reclass.Props.C02a
import Reclass.Props.C02b
