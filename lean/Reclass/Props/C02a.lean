/-
  C02 (part a) — The kind table of `Value::merge`.

  Property theorems only.  All statements are about the model functions `mergeV` /
  `mergeNonVl` (`Value::merge`, `src/types/value.rs`), universally quantified over the
  contents of the values and over the resolve state `st` (which only supplies the
  parameter path `st.curKey` quoted in conflict errors).

  Reading `mergeV a b st`: `a` is the merge *target* (`self`, already flattened — never a
  `String` or a `ValueList` in the Rust code), `b` is the layer merged *over* it.
-/
import Reclass.Lemmas.MappingL
import Reclass.Model.Eval
namespace Reclass
namespace C02

/-- Scalars as far as `merge` is concerned: `Literal`, `Bool`, `Number` (the `_ =>` arm of the
Rust `match self`). -/
def isScalar : Value → Bool
  | .lit _ | .bool _ | .num _ => true
  | _ => false

/-- Conflict errors at the current parameter path. -/
def IsConflictAt (st : RState) (r : R Value) : Prop :=
  ∃ over onto, r = .error (.mergeConflict st.curKey over onto)

/-! ### Unfolding -/

/-- For a layer that is neither null nor a layer list, `mergeV` is `mergeNonVl`. -/
theorem mergeV_eq_mergeNonVl (a b : Value) (st : RState)
    (hn : b.isNull = false) (hv : b.isVl = false) : mergeV a b st = mergeNonVl a b st := by
  cases b <;> first | rfl | simp [Value.isNull, Value.isVl] at hn hv | simp only [mergeV]

/-! ### Rows with null -/

/-- `null` over anything is `null`. -/
theorem merge_null_over (a : Value) (st : RState) : mergeV a .null st = .ok .null := by
  simp [mergeV]

/-- Anything (not null, not a layer list) over `null` is that thing. -/
theorem merge_over_null (b : Value) (st : RState) (hn : b.isNull = false) (hv : b.isVl = false) :
    mergeV .null b st = .ok b := by
  rw [mergeV_eq_mergeNonVl _ _ _ hn hv]; rfl

/-! ### The diagonal -/

/-- Sequence over sequence: concatenation. -/
theorem merge_seq_seq (s s' : List Value) (st : RState) :
    mergeV (.seq s) (.seq s') st = .ok (.seq (s ++ s')) := by
  rw [mergeV_eq_mergeNonVl _ _ _ rfl rfl]; rfl

/-- Mapping over mapping: `Mapping::merge`, errors passed through. -/
theorem merge_map_map (es es' : List (Key × Value)) (ck ok ck' ok' : List Key) (st : RState) :
    mergeV (.map es ck ok) (.map es' ck' ok') st =
      match Mapping.merge ⟨es, ck, ok⟩ ⟨es', ck', ok'⟩ with
      | .error e => .error e
      | .ok m => .ok m.toValue := by
  rw [mergeV_eq_mergeNonVl _ _ _ rfl rfl]; rfl

/-- The same with `Except.map`. -/
theorem merge_map_map' (m m' : Mapping) (st : RState) :
    mergeV m.toValue m'.toValue st = (m.merge m').map Mapping.toValue := by
  obtain ⟨es, ck, ok⟩ := m
  obtain ⟨es', ck', ok'⟩ := m'
  simp only [Mapping.toValue]
  rw [merge_map_map]
  cases Mapping.merge ⟨es, ck, ok⟩ ⟨es', ck', ok'⟩ <;> rfl

/-- Scalar over scalar: the new one wins. -/
theorem merge_scalar_scalar (a b : Value) (st : RState) (ha : isScalar a = true) (hb : isScalar b = true) :
    mergeV a b st = .ok b := by
  cases a <;> simp [isScalar] at ha <;> cases b <;> simp [isScalar] at hb <;>
    simp [mergeV, mergeNonVl, Value.isMap, Value.isSeq]

/-- An unparsed `String` over a scalar also just replaces it. -/
theorem merge_str_over_scalar (a : Value) (s : Str) (st : RState) (ha : isScalar a = true) :
    mergeV a (.str s) st = .ok (.str s) := by
  cases a <;> simp [isScalar] at ha <;> simp [mergeV, mergeNonVl, Value.isMap, Value.isSeq]

/-! ### Conflicts -/

/-- Mapping target, layer is a sequence, literal, bool, number or string: conflict. -/
theorem merge_map_conflict (es : List (Key × Value)) (ck ok : List Key) (b : Value) (st : RState)
    (hn : b.isNull = false) (hv : b.isVl = false) (hm : b.isMap = false) :
    mergeV (.map es ck ok) b st = .error (.mergeConflict st.curKey b.kind "mapping".toList) := by
  rw [mergeV_eq_mergeNonVl _ _ _ hn hv]
  cases b <;> first | rfl | simp [Value.isMap] at hm

/-- Sequence target, layer is a mapping, literal, bool, number or string: conflict. -/
theorem merge_seq_conflict (s : List Value) (b : Value) (st : RState)
    (hn : b.isNull = false) (hv : b.isVl = false) (hs : b.isSeq = false) :
    mergeV (.seq s) b st = .error (.mergeConflict st.curKey b.kind "sequence".toList) := by
  rw [mergeV_eq_mergeNonVl _ _ _ hn hv]
  cases b <;> first | rfl | simp [Value.isSeq] at hs

/-- Scalar target, layer is a mapping or a sequence: conflict. -/
theorem merge_scalar_conflict (a b : Value) (st : RState) (ha : isScalar a = true)
    (hb : b.isMap = true ∨ b.isSeq = true) :
    mergeV a b st = .error (.mergeConflict st.curKey b.kind a.kind) := by
  have hn : b.isNull = false := by cases b <;> simp [Value.isMap, Value.isSeq] at hb <;> rfl
  have hv : b.isVl = false := by cases b <;> simp [Value.isMap, Value.isSeq] at hb <;> rfl
  rw [mergeV_eq_mergeNonVl _ _ _ hn hv]
  have hcond : (b.isMap || b.isSeq) = true := by rcases hb with h | h <;> simp [h]
  cases a <;> simp [isScalar] at ha <;> simp [mergeNonVl, hcond]

/-- The individual cells, spelled out. -/
theorem merge_map_seq (es : List (Key × Value)) (ck ok : List Key) (s : List Value) (st : RState) :
    mergeV (.map es ck ok) (.seq s) st =
      .error (.mergeConflict st.curKey "Value::Sequence".toList "mapping".toList) :=
  merge_map_conflict es ck ok (.seq s) st rfl rfl rfl

theorem merge_seq_map (s : List Value) (es : List (Key × Value)) (ck ok : List Key) (st : RState) :
    mergeV (.seq s) (.map es ck ok) st =
      .error (.mergeConflict st.curKey "Value::Mapping".toList "sequence".toList) :=
  merge_seq_conflict s (.map es ck ok) st rfl rfl rfl

/-! ### Layer lists on the right -/

/-- A layer list is first folded (from `null`) and the result merged as a non-layer value. -/
theorem merge_vl_right (a : Value) (l : List Value) (st : RState) :
    mergeV a (.vl l) st =
      match flatVl l .null st with
      | .error e => .error e
      | .ok o => mergeNonVl a o st := by
  simp only [mergeV]
  cases flatVl l .null st <;> rfl

/-! ### Targets that must not occur -/

/-- A `String` or a `ValueList` as merge *target* is the Rust `unreachable!`: the model reports
the panic site (for any non-null layer that folds successfully). -/
theorem merge_target_str (s : Str) (b : Value) (st : RState) (hn : b.isNull = false) (hv : b.isVl = false) :
    mergeV (.str s) b st = .error (.panic .mergeTargetStr) := by
  rw [mergeV_eq_mergeNonVl _ _ _ hn hv]; rfl

theorem merge_target_vl (l : List Value) (b : Value) (st : RState) (hn : b.isNull = false) (hv : b.isVl = false) :
    mergeV (.vl l) b st = .error (.panic .mergeTargetVl) := by
  rw [mergeV_eq_mergeNonVl _ _ _ hn hv]; rfl

/-! ### Summary -/

/-- **No silent kind change for containers.**  If the target is a mapping or a sequence, the
layer is not null, not a layer list and of a different kind, the merge is a conflict error at
the current path.  If the target is a scalar and the layer is a mapping or a sequence,
likewise.  (The only kind changes that succeed are: `null` over anything, anything over `null`,
and scalar/string over scalar.) -/
theorem conflict_never_silent (a b : Value) (st : RState) :
    ((a.isMap = true ∨ a.isSeq = true) → b.isNull = false → b.isVl = false → a.kind ≠ b.kind →
        IsConflictAt st (mergeV a b st)) ∧
    (isScalar a = true → (b.isMap = true ∨ b.isSeq = true) → IsConflictAt st (mergeV a b st)) := by
  constructor
  · intro ha hn hv hk
    cases a with
    | map es ck ok =>
      refine ⟨_, _, merge_map_conflict es ck ok b st hn hv ?_⟩
      cases b <;> first | rfl | exact absurd rfl hk
    | seq s =>
      refine ⟨_, _, merge_seq_conflict s b st hn hv ?_⟩
      cases b <;> first | rfl | exact absurd rfl hk
    | null => simp [Value.isMap, Value.isSeq] at ha
    | bool _ => simp [Value.isMap, Value.isSeq] at ha
    | num _ => simp [Value.isMap, Value.isSeq] at ha
    | str _ => simp [Value.isMap, Value.isSeq] at ha
    | lit _ => simp [Value.isMap, Value.isSeq] at ha
    | vl _ => simp [Value.isMap, Value.isSeq] at ha
  · intro ha hb
    exact ⟨_, _, merge_scalar_conflict a b st ha hb⟩

/-- The converse for the modelled targets: with a mapping / sequence / scalar target and a layer
that is neither null nor a layer list, a successful merge means the kinds were compatible:
same container kind, or scalar target with a non-container layer. -/
theorem ok_kinds_compatible (a b r : Value) (st : RState)
    (hn : b.isNull = false) (hv : b.isVl = false) (h : mergeV a b st = .ok r) :
    a.isNull = true ∨ (a.isMap = true ∧ b.isMap = true) ∨ (a.isSeq = true ∧ b.isSeq = true) ∨
      (isScalar a = true ∧ b.isMap = false ∧ b.isSeq = false) := by
  cases a with
  | null => exact Or.inl rfl
  | map es ck ok =>
    cases hm : b.isMap with
    | true => exact Or.inr (Or.inl ⟨rfl, rfl⟩)
    | false => rw [merge_map_conflict es ck ok b st hn hv hm] at h; cases h
  | seq s =>
    cases hs : b.isSeq with
    | true => exact Or.inr (Or.inr (Or.inl ⟨rfl, rfl⟩))
    | false => rw [merge_seq_conflict s b st hn hv hs] at h; cases h
  | str s => rw [merge_target_str s b st hn hv] at h; cases h
  | vl l => rw [merge_target_vl l b st hn hv] at h; cases h
  | bool x =>
    refine Or.inr (Or.inr (Or.inr ⟨rfl, ?_⟩))
    cases hm : b.isMap with
    | true => rw [merge_scalar_conflict _ b st rfl (Or.inl hm)] at h; cases h
    | false =>
      cases hs : b.isSeq with
      | true => rw [merge_scalar_conflict _ b st rfl (Or.inr hs)] at h; cases h
      | false => exact ⟨rfl, rfl⟩
  | num x =>
    refine Or.inr (Or.inr (Or.inr ⟨rfl, ?_⟩))
    cases hm : b.isMap with
    | true => rw [merge_scalar_conflict _ b st rfl (Or.inl hm)] at h; cases h
    | false =>
      cases hs : b.isSeq with
      | true => rw [merge_scalar_conflict _ b st rfl (Or.inr hs)] at h; cases h
      | false => exact ⟨rfl, rfl⟩
  | lit x =>
    refine Or.inr (Or.inr (Or.inr ⟨rfl, ?_⟩))
    cases hm : b.isMap with
    | true => rw [merge_scalar_conflict _ b st rfl (Or.inl hm)] at h; cases h
    | false =>
      cases hs : b.isSeq with
      | true => rw [merge_scalar_conflict _ b st rfl (Or.inr hs)] at h; cases h
      | false => exact ⟨rfl, rfl⟩

/-! ### Non-vacuity -/

example (st : RState) : mergeV (.seq [.null]) (.seq [.bool true]) st = .ok (.seq [.null, .bool true]) :=
  merge_seq_seq _ _ _

example : mergeV (.map [] [] []) (.num (.int 1)) {} =
    .error (.mergeConflict [] "Value::Number".toList "mapping".toList) := rfl

example : mergeV (.seq []) (.map [] [] []) { cur := ["a".toList, "b".toList] } =
    .error (.mergeConflict "a.b".toList "Value::Mapping".toList "sequence".toList) := rfl

example : mergeV (.bool true) (.seq []) {} =
    .error (.mergeConflict [] "Value::Sequence".toList "Value::Bool".toList) := rfl

example : mergeV (.bool true) (.num (.int 3)) {} = .ok (.num (.int 3)) := rfl

-- a layer list on the right is folded first: [1, {}] folds to {}, which conflicts with a sequence
example : mergeV (.seq []) (.vl [.num (.int 1), .null, .map [] [] []]) {} =
    .error (.mergeConflict [] "Value::Mapping".toList "sequence".toList) := rfl

-- hypotheses of `conflict_never_silent` are satisfiable
example : (Value.map [] [] []).kind ≠ (Value.seq []).kind := by decide

end C02
end Reclass
