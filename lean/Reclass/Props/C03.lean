/-
  C03 — Whole-value references.

  "A parameter whose whole value is a reference ${a:b:c} renders to the final, fully merged and
  fully rendered value found at that path in the node's parameters, with its kind preserved,
  also when the path is itself assembled from nested references.  The result does not depend on
  the order in which parameters are written or on which class defines the target, and a path
  that does not exist is an error naming the reference and the missing key."

  Property theorems only; the inductions over the 13 mutually recursive evaluator functions and
  the list lemmas are in `Lemmas/RefsL` (namespace `Reclass.Refs`), fuel monotonicity in
  `Lemmas/Fuel`.  All statements hold for every input and every amount of fuel.

  Contents
   1. `state_independence` (+ one corollary per function, across different fuels): the resolve
      state (seen-set, depth, current key) only decides *whether* an error is raised.
   2. `root_lookup_only`: the parameters are read only through `Mapping.get`.
   3. `missing_top_key`, `missing_nested_key`, `lookup_into_scalar`: the errors of a path that
      does not exist name the reference text and the offending key.
   4. `whole_ref_path` / `whole_ref_top` / `whole_ref_interp`: a reference renders to what the
      value at its path renders to (path text possibly assembled from nested references; path
      walked through raw mappings).  `render_entry`: a rendered parameter is the interpolation
      of the raw one.  `whole_ref_final_path` / `whole_ref_final_top`: in the rendered
      parameters the entry `k: ${k0:s1:…}` equals what is found at `k0:s1:…` in the output.
   5. `perm_same_lookup`, `order_independence_interp`, `order_independence`: permuting the
      top-level entries permutes the rendered entries and changes nothing else.

  Not proved: the "reference = target" statements for a path that passes through a value that
  is still a layer list or an unparsed string in the raw parameters (there
  `interpolate_string_or_valuelist` merges the raw layers before the lookup, while rendering
  interpolates each layer before merging; relating the two needs a merge/interpolate
  commutation lemma that is not available).  The value at the *end* of the path may be anything
  (a string with references, a layer list, …); only the values passed on the way are restricted.

  Requested statement that is FALSE of the model as asked:
   * `order_independence` at the *same* fuel (`renderParamsF n root = .ok out →
     ∃ out', renderParamsF n root' = .ok out' ∧ …`): `Mapping::interpolate` in the model hands
     each later entry one unit of fuel less, so an expensive entry moved to the end can run out
     of fuel (`order_same_fuel_counterexample`).  Fuel is a device of the model, not of the Rust
     code; proved instead with `root.es.length + 1` more fuel (hence, by fuel monotonicity, with
     any larger amount): `order_independence`, `order_independence_fuel`.
-/
import Reclass.Lemmas.RefsL
namespace Reclass
namespace C03

open Refs

/-! ### 1. The resolve state never influences a value -/

/-- **State independence**, all 13 evaluator functions at once (same fuel): if a function
succeeds from two resolve states — with the same root and arguments — the *values* it returns
coincide (first components for the seven functions that also return a state).  The seen-set,
the depth counter and the current-key path therefore only decide whether an error (loop, depth
limit, …) is raised and what it says.  See `Refs.StIndep` for the 13 clauses. -/
theorem state_independence : ∀ n, StIndep n := stIndep

/-- `Value::flattened` uses the state only inside error values: a success carries over
verbatim to any other state.  (Likewise `Refs.flatVl_st`, `Refs.flatL_st`, `Refs.flatEs_st`.) -/
theorem flat_state_irrelevant {v r : Value} {st : RState} (st' : RState)
    (h : flat v st = .ok r) : flat v st' = .ok r := flat_st v st st' r h

/-- `Value::merge` uses the state only inside error values. -/
theorem mergeV_state_irrelevant {a b r : Value} {st : RState} (st' : RState)
    (h : mergeV a b st = .ok r) : mergeV a b st' = .ok r := mergeV_st a b st st' r h

/-- Two successful merges of the same operands agree, whatever the states. -/
theorem mergeV_state_independent {a b r r' : Value} {st st' : RState}
    (h : mergeV a b st = .ok r) (h' : mergeV a b st' = .ok r') : r = r' := mergeV_indep h h'

/-- `Value::interpolate`: any two successful runs — any states, any amounts of fuel — return the
same value. -/
theorem state_independence_interp {n m : Nat} {root : Mapping} {v : Value} {st st' : RState}
    {x x' : Value × RState} (h : interp n root v st = .ok x) (h' : interp m root v st' = .ok x') :
    x.1 = x'.1 := interp_indep (x := x.1) (s := x.2) (x' := x'.1) (s' := x'.2) h h'

/-- `Token::render`: the rendered value does not depend on state or fuel. -/
theorem state_independence_tokRender {n m : Nat} {root : Mapping} {t : Token} {st st' : RState}
    {x x' : Value × RState} (h : tokRender n root t st = .ok x)
    (h' : tokRender m root t st' = .ok x') : x.1 = x'.1 :=
  tokRender_indep (x := x.1) (s := x.2) (x' := x'.1) (s' := x'.2) h h'

/-- `Token::resolve`: the resolved value does not depend on state or fuel. -/
theorem state_independence_tokResolve {n m : Nat} {root : Mapping} {t : Token} {st st' : RState}
    {x x' : Value × RState} (h : tokResolve n root t st = .ok x)
    (h' : tokResolve m root t st' = .ok x') : x.1 = x'.1 :=
  tokResolve_indep (x := x.1) (s := x.2) (x' := x'.1) (s' := x'.2) h h'

/-- The lookup loop of `Token::resolve`: neither the state nor the reference text (used only in
error messages) nor the fuel influence the value found. -/
theorem state_independence_descend {n m : Nat} {root : Mapping} {v : Value} {ks : List Str}
    {st st' : RState} {p p' : Str} {x x' : Value × RState}
    (h : descend n root v ks st p = .ok x) (h' : descend m root v ks st' p' = .ok x') :
    x.1 = x'.1 := descend_indep (x := x.1) (s := x.2) (x' := x'.1) (s' := x'.2) h h'

/-- The trailing `while` loop of `Token::resolve`. -/
theorem state_independence_finalLoop {n m : Nat} {root : Mapping} {v : Value} {st st' : RState}
    {x x' : Value × RState} (h : finalLoop n root v st = .ok x)
    (h' : finalLoop m root v st' = .ok x') : x.1 = x'.1 :=
  finalLoop_indep (x := x.1) (s := x.2) (x' := x'.1) (s' := x'.2) h h'

/-- `interpolate_string_or_valuelist`. -/
theorem state_independence_interpStrOrVl {n m : Nat} {root : Mapping} {v : Value}
    {st st' : RState} {x x' : Value × RState} (h : interpStrOrVl n root v st = .ok x)
    (h' : interpStrOrVl m root v st' = .ok x') : x.1 = x'.1 :=
  interpStrOrVl_indep (x := x.1) (s := x.2) (x' := x'.1) (s' := x'.2) h h'

/-- The `while v.is_string()` loop of `interpolate_token_slice`. -/
theorem state_independence_strLoop {n m : Nat} {root : Mapping} {v : Value} {st st' : RState}
    {x x' : Value × RState} (h : strLoop n root v st = .ok x)
    (h' : strLoop m root v st' = .ok x') : x.1 = x'.1 :=
  strLoop_indep (x := x.1) (s := x.2) (x' := x'.1) (s' := x'.2) h h'

/-- The `Sequence` arm of `interpolate` (the start index only feeds the current-key path). -/
theorem state_independence_interpL {n m : Nat} {root : Mapping} {l : List Value} {idx idx' : Nat}
    {st st' : RState} {r r' : List Value} (h : interpL n root l idx st = .ok r)
    (h' : interpL m root l idx' st' = .ok r') : r = r' := interpL_indep h h'

/-- The layer loop of `interpolate_string_or_valuelist`. -/
theorem state_independence_layersStr {n m : Nat} {root : Mapping} {l : List Value}
    {st st' : RState} {r r' : List Value} (h : layersStr n root l st = .ok r)
    (h' : layersStr m root l st' = .ok r') : r = r' := layersStr_indep h h'

/-- `Mapping::interpolate` (same accumulator). -/
theorem state_independence_interpEs {n m : Nat} {root : Mapping} {es : List (Key × Value)}
    {ck ok : List Key} {st st' : RState} {acc r r' : Mapping}
    (h : interpEs n root es ck ok st acc = .ok r) (h' : interpEs m root es ck ok st' acc = .ok r') :
    r = r' := interpEs_indep h h'

/-- The merge loop of the `ValueList` arm of `interpolate`. -/
theorem state_independence_interpVl {n m : Nat} {root : Mapping} {l : List Value} {r0 : Value}
    {st st' : RState} {r r' : Value} (h : interpVl n root l r0 st = .ok r)
    (h' : interpVl m root l r0 st' = .ok r') : r = r' := interpVl_indep h h'

/-- `interpolate_token_slice`: the text a token sequence (e.g. the path of a reference) renders
to does not depend on state or fuel. -/
theorem state_independence_slice {n m : Nat} {root : Mapping} {ts : List Token} {st st' : RState}
    {r r' : Str} (h : slice n root ts st = .ok r) (h' : slice m root ts st' = .ok r') : r = r' :=
  slice_indep h h'

/-- The end of one iteration of `interpolate_token_slice`. -/
theorem state_independence_sliceFinish {n m : Nat} {root : Mapping} {v : Value}
    {st st' : RState} {r r' : Str} (h : sliceFinish n root v st = .ok r)
    (h' : sliceFinish m root v st' = .ok r') : r = r' := sliceFinish_indep h h'

/-! ### 2. The parameters are read only through `get` -/

/-- **The root is only looked up.**  Two root mappings with the same `get` function — whatever
their entry order, flag sets, or duplicates shadowed by earlier entries — are indistinguishable
for all 13 evaluator functions: same values, same states, same errors, at every fuel.  (Only
`Token::resolve` reads the root, via `root.get (.str k0)`.)  See `Refs.RootEq` for the clauses. -/
theorem root_lookup_only {root root' : Mapping} (hget : ∀ k, root.get k = root'.get k) :
    ∀ n, RootEq root root' n := rootEq hget

/-- In particular `Value::rendered` of any value. -/
theorem root_lookup_only_rendered {root root' : Mapping} (hget : ∀ k, root.get k = root'.get k)
    (n : Nat) (v : Value) : renderedF n v root = renderedF n v root' := by
  unfold renderedF; rw [(rootEq hget n).interp]

/-! ### 3. A path that does not exist is an error naming the reference and the missing key -/

/-- **Missing first key.**  Resolving `${…}` whose path text renders to `path = k0:…` when the
parameters have no key `k0` fails with the lookup error that carries the reference text `path`,
the missing key `k0` and the parameter being rendered. -/
theorem missing_top_key {n : Nat} {root : Mapping} {parts : List Token} {st : RState}
    {path k0 : Str} {segs : List Str} (hd : st.depth + 1 ≤ maxDepth)
    (hs : slice n root parts { st with depth := st.depth + 1 } = .ok path)
    (hseen : path ∉ st.seen) (hsplit : splitColon path = k0 :: segs)
    (hget : root.get (.str k0) = none) :
    tokResolve (n+1) root (.ref parts) st = .error (.missingKey path k0 st.curKey) := by
  rw [tokResolve_ref]
  have hd' : ¬ (st.depth + 1 > maxDepth) := by omega
  simp only [hd', if_false, hs, hseen, hsplit, hget]
  rfl

/-- The same seen from `Value::interpolate` of the string holding the reference. -/
theorem missing_top_key_interp {n : Nat} {root : Mapping} {s : Str} {parts : List Token}
    {st : RState} {path k0 : Str} {segs : List Str}
    (hparse : Token.parse s = .ok (some (.ref parts))) (hd : st.depth + 1 ≤ maxDepth)
    (hs : slice n root parts { st with depth := st.depth + 1 } = .ok path)
    (hseen : path ∉ st.seen) (hsplit : splitColon path = k0 :: segs)
    (hget : root.get (.str k0) = none) :
    interp (n+3) root (.str s) st = .error (.missingKey path k0 st.curKey) := by
  rw [interp_str, hparse]
  simp only
  rw [tokRender_succ, missing_top_key hd hs hseen hsplit hget]

/-- **Missing nested key.**  In the lookup loop, if the current value (after
`interpolate_string_or_valuelist`) is a mapping without the next path segment `key`, the result
is the lookup error naming the whole reference text `path` and `key`. -/
theorem missing_nested_key {n : Nat} {root : Mapping} {v : Value} {key : Str} {rest : List Str}
    {st st' : RState} {path : Str} {es : List (Key × Value)} {ck ok : List Key}
    (h : interpStrOrVl n root v st = .ok (.map es ck ok, st'))
    (hl : lookup (.str key) es = none) :
    descend (n+1) root v (key :: rest) st path = .error (.missingKey path key st.curKey) := by
  rw [descend_cons, h]
  simp only [hl]
  have : st'.cur = st.cur := (interpStrOrVl_depth_mono h).2.2
  simp only [RState.curKey, this]

/-- **Lookup into a non-mapping.**  If the current value is a scalar or a sequence the result is
the "looking up key in reference" error, again naming `path` and `key`.  (That the value is
never an unparsed string or a layer list at this point is `C07.descend_no_panic`.) -/
theorem lookup_into_scalar {n : Nat} {root : Mapping} {v nv : Value} {key : Str}
    {rest : List Str} {st st' : RState} {path : Str}
    (h : interpStrOrVl n root v st = .ok (nv, st'))
    (hm : nv.isMap = false) (hs : nv.isStr = false) (hv : nv.isVl = false) :
    descend (n+1) root v (key :: rest) st path = .error (.lookupInto path key st.curKey) := by
  rw [descend_cons, h]
  have : st'.cur = st.cur := (interpStrOrVl_depth_mono h).2.2
  cases nv <;> simp_all [Value.isMap, Value.isStr, Value.isVl, RState.curKey]

/-! ### 4. A whole-value reference renders to what its target renders to -/

/-- **Reference = target, general path.**  Let the path pieces `parts` of a reference render
(from some state, with some fuel — the pieces may themselves be references) to the text
`path = k0:s1:…:sm`, let the parameters hold `v0` under `k0`, and let the walk `s1 … sm` through
raw (unmerged) mappings starting at `v0` end at `vt` (`Refs.rawPath`).  Then whatever
`Token::render` returns for the reference is, up to the order of flag sets (`erase`), exactly
what `Value::interpolate` returns for `vt` itself — from any other state, with any other fuel.
Same kind, same data: a mapping stays a mapping, a number a number. -/
theorem whole_ref_path {n m j : Nat} {root : Mapping} {parts : List Token} {path k0 : Str}
    {segs : List Str} {v0 vt r r0 : Value} {st st' sp st0 st0' : RState}
    (hw : WF root.toValue) (hpath : slice j root parts sp = .ok path)
    (hsplit : splitColon path = k0 :: segs) (hget : root.get (.str k0) = some v0)
    (hraw : rawPath v0 segs = some vt)
    (h : tokRender n root (.ref parts) st = .ok (r, st'))
    (h0 : interp m root vt st0 = .ok (r0, st0')) : erase r = erase r0 := by
  have hv0 : WF v0 := by
    simp only [Mapping.toValue, WF] at hw
    exact lookup_some_wf hw.1 hget
  have hvt : WF vt := rawPath_wf segs v0 vt hv0 hraw
  cases n with
  | zero => simp [tokRender] at h
  | succ n =>
    rw [tokRender_succ] at h
    rcases h1 : tokResolve n root (.ref parts) st with e | ⟨v, s1⟩
    · simp [h1] at h
    simp only [h1] at h
    cases n with
    | zero => simp [tokResolve] at h1
    | succ n =>
      rw [tokResolve_ref] at h1
      by_cases hd : st.depth + 1 > maxDepth
      · simp [hd] at h1
      simp only [hd, if_false] at h1
      cases h2 : slice n root parts { st with depth := st.depth + 1 } with
      | error e => simp [h2] at h1
      | ok path' =>
        have hp : path' = path := slice_indep h2 hpath
        subst hp
        simp only [h2] at h1
        by_cases hs : path' ∈ st.seen
        · simp [hs] at h1
        simp only [hs, if_false, hsplit, hget] at h1
        rcases h3 : descend n root v0 segs
          { st with depth := st.depth + 1, seen := path' :: st.seen } path' with e | ⟨vd, s3⟩
        · simp [h3] at h1
        simp only [h3] at h1
        obtain ⟨hvd, _⟩ := descend_raw segs _ v0 vt _ vd s3 hraw h3
        subst hvd
        exact finalLoop_then_interp hw hvt h1 h h0

/-- **Reference = target, one-segment literal path.**  With well-formed parameters holding `v0`
under `k0` (no `:` in `k0`), whatever `${k0}` renders to equals, up to the order of flag sets,
what `v0` itself interpolates to — from any state, with any fuel. -/
theorem whole_ref_top {n m : Nat} {root : Mapping} {k0 : Str} {v0 r r0 : Value}
    {st st' st0 st0' : RState} (hw : WF root.toValue) (hcolon : ':' ∉ k0)
    (hget : root.get (.str k0) = some v0)
    (h : tokRender n root (.ref [.lit k0]) st = .ok (r, st'))
    (h0 : interp m root v0 st0 = .ok (r0, st0')) : erase r = erase r0 :=
  whole_ref_path (sp := {}) hw (slice_lit 0 root k0 {}) (splitColon_noColon hcolon) hget
    (by simp [rawPath]) h h0

/-- `whole_ref_path` seen from `Value::interpolate` of the string that holds the reference. -/
theorem whole_ref_interp {n m j : Nat} {root : Mapping} {s : Str} {parts : List Token}
    {path k0 : Str} {segs : List Str} {v0 vt r r0 : Value} {st st' sp st0 st0' : RState}
    (hw : WF root.toValue) (hparse : Token.parse s = .ok (some (.ref parts)))
    (hpath : slice j root parts sp = .ok path)
    (hsplit : splitColon path = k0 :: segs) (hget : root.get (.str k0) = some v0)
    (hraw : rawPath v0 segs = some vt)
    (h : interp n root (.str s) st = .ok (r, st'))
    (h0 : interp m root vt st0 = .ok (r0, st0')) : erase r = erase r0 := by
  cases n with
  | zero => simp [interp] at h
  | succ n =>
    rw [interp_str, hparse] at h
    exact whole_ref_path hw hpath hsplit hget hraw h h0

/-- **A rendered parameter is the interpolation of the raw parameter.**  If rendering
well-formed parameters succeeds, every top-level entry `(k, v)` is present in the output and
holds — up to the flag sets of nested mappings — what `Value::interpolate` returns for `v`
(started from the empty state with `k` pushed; by `state_independence_interp` from any state). -/
theorem render_entry {n : Nat} {root out : Mapping} {k : Key} {v : Value}
    (hw : WF root.toValue) (h : renderParamsF n root = .ok out) (hk : (k, v) ∈ root.es) :
    ∃ x s z, interp n root v (({} : RState).pushMappingKey k) = .ok (x, s) ∧
      lookup k out.es = some z ∧ erase z = erase x := by
  unfold renderParamsF renderedF at h
  cases n with
  | zero => simp [interp] at h
  | succ n =>
    have hm := hw
    simp only [Mapping.toValue, interp] at h
    simp only [Mapping.toValue, WF] at hm
    cases h1 : interpEs n root root.es root.ck root.ok {} {} with
    | error e => simp [h1] at h
    | ok m1 =>
      simp only [h1, Mapping.toValue, flat] at h
      have hw1 := (C07.interp_closed (n := n+1) (st := {}) (st' := {}) (r := m1.toValue) hw hw
        (by simp only [Mapping.toValue, interp, h1])).2
      simp only [Mapping.toValue, WF] at hw1
      cases h2 : flatEs m1.es m1.ck m1.ok {} {} with
      | error e => simp [h2] at h
      | ok m2 =>
        simp only [h2, Except.ok.injEq] at h
        subst h
        simp only
        obtain ⟨_, E1⟩ := interpEs_entries root.es n {} m1 hm.1 (by simpa using hm.2) h1
        obtain ⟨_, E2⟩ := flatEs_entries m1.es {} m2 hw1.1 (by simpa using hw1.2) h2
        obtain ⟨x, s, y, hx, hy, hl⟩ := E1 _ _ hk
        have hvw : WF v := by
          have := lookup_of_mem_nodup hm.2 hk
          exact lookup_some_wf hm.1 this
        obtain ⟨hc, hwx⟩ := C07.interp_closed hw hvw hx
        obtain ⟨e1, hcy, hwy⟩ := flat_erase hc hwx hy
        obtain ⟨z, hz, hlz⟩ := E2 _ _ (mem_of_lookup hl)
        obtain ⟨e2, _, _⟩ := flat_erase hcy hwy hz
        exact ⟨x, s, z, interp_fuel_mono _ _ _ hx (by simp), hlz, e2.trans e1⟩

/-- **In the rendered parameters, `k: ${a:b:c}` equals what is found at `a:b:c`.**  If rendering
well-formed parameters succeeds, `k` holds a string that parses to a whole-value reference whose
path pieces render to `path = k0:s1:…:sm`, and the walk from the raw entry `k0` along `s1…sm`
goes through raw mappings (`Refs.rawPath`), then in the *output* the entry `k` and the value
found by walking `k0:s1:…:sm` are the same — same kind, same data at every depth (`erase`
forgets only flag sets of nested mappings). -/
theorem whole_ref_final_path {n j : Nat} {root out : Mapping} {k : Key} {s : Str}
    {parts : List Token} {path k0 : Str} {segs : List Str} {v0 vt : Value} {sp : RState}
    (hw : WF root.toValue) (h : renderParamsF n root = .ok out)
    (hk : (k, .str s) ∈ root.es) (hparse : Token.parse s = .ok (some (.ref parts)))
    (hpath : slice j root parts sp = .ok path) (hsplit : splitColon path = k0 :: segs)
    (hget : root.get (.str k0) = some v0) (hraw : rawPath v0 segs = some vt) :
    ∃ a b, lookup k out.es = some a ∧ rawPath out.toValue (k0 :: segs) = some b ∧
      erase a = erase b := by
  have hm := hw
  simp only [Mapping.toValue, WF] at hm
  have hv0w : WF v0 := lookup_some_wf hm.1 hget
  obtain ⟨xk, sk, zk, hxk, hlk, ek⟩ := render_entry hw h hk
  obtain ⟨x0, s0, z0, hx0, hl0, e0⟩ := render_entry hw h (mem_of_lookup hget)
  obtain ⟨xt', xt, jt, st1, s1, hp, hi, he⟩ := interp_rawPath hw segs n v0 vt x0 _ s0 hv0w hraw hx0
  obtain ⟨b, hb, hbe⟩ := rawPath_of_erase_eq e0 hp
  have hrefeq : erase xk = erase xt := whole_ref_interp hw hparse hpath hsplit hget hraw hxk hi
  refine ⟨zk, b, hlk, ?_, ?_⟩
  · simp only [Mapping.toValue, rawPath, hl0]; exact hb
  · rw [ek, hrefeq, hbe, he]

/-- **In the rendered parameters, `k: ${k0}` equals the entry `k0`.**  If rendering well-formed
parameters succeeds, `k` holds a string that parses to the whole-value reference `${k0}` (no
`:` in `k0`) and `k0` is a top-level key, then both keys are present in the output and carry the
same value — same kind, same data at every depth (`erase` forgets only the order/contents of
flag sets of nested mappings).  (The parse hypothesis is what `C06.bare_ref_accepted` proves
for `s = "${" ++ k0 ++ "}"` with `k0` non-empty and free of `$`, `\`, `}`.) -/
theorem whole_ref_final_top {n : Nat} {root out : Mapping} {k : Key} {s k0 : Str}
    (hw : WF root.toValue) (h : renderParamsF n root = .ok out)
    (hk : (k, .str s) ∈ root.es) (hparse : Token.parse s = .ok (some (.ref [.lit k0])))
    (hcolon : ':' ∉ k0) (hk0 : Key.str k0 ∈ keys root.es) :
    ∃ a b, lookup k out.es = some a ∧ lookup (.str k0) out.es = some b ∧ erase a = erase b := by
  obtain ⟨v0, hv0⟩ : ∃ v0, lookup (.str k0) root.es = some v0 := by
    cases hl : lookup (.str k0) root.es with
    | none => exact absurd hk0 (lookup_none_iff.1 hl)
    | some v0 => exact ⟨v0, rfl⟩
  obtain ⟨a, b, ha, hb, hab⟩ := whole_ref_final_path (sp := {}) hw h hk hparse
    (slice_lit 0 root k0 {}) (splitColon_noColon hcolon) hv0 (vt := v0) rfl
  refine ⟨a, b, ha, ?_, hab⟩
  simp only [Mapping.toValue, rawPath] at hb
  cases hl : lookup (.str k0) out.es with
  | none => simp [hl] at hb
  | some v' => simpa [hl, rawPath] using hb

/-! ### 5. The order of the parameters does not matter -/

/-- With distinct keys, `get` does not see the order of the entries. -/
theorem perm_same_lookup {root root' : Mapping} (hp : root'.es.Perm root.es)
    (hn : (keys root.es).Nodup) (k : Key) : root.get k = root'.get k :=
  lookup_perm hp.symm hn k

/-- **Order independence of every single value.**  If the entries of `root'` are a permutation
of those of `root` (distinct keys; flag sets arbitrary), every value interpolates to the same
result — value, state or error — against either root; likewise for the other 12 evaluator
functions (`root_lookup_only`). -/
theorem order_independence_interp {root root' : Mapping} (hp : root'.es.Perm root.es)
    (hn : (keys root.es).Nodup) (n : Nat) (v : Value) (st : RState) :
    interp n root v st = interp n root' v st :=
  (rootEq (perm_same_lookup hp hn) n).interp v st

/-- … and for `Value::rendered`. -/
theorem order_independence_rendered {root root' : Mapping} (hp : root'.es.Perm root.es)
    (hn : (keys root.es).Nodup) (n : Nat) (v : Value) :
    renderedF n v root = renderedF n v root' :=
  root_lookup_only_rendered (perm_same_lookup hp hn) n v

/-- **Order independence of the rendered parameters.**  If well-formed parameters render
successfully and `root'` has the same entries in another order (same flag sets), then `root'`
renders successfully too (given `root.es.length + 1` more units of fuel, see the header) and the
output is the same up to that reordering: it is a permutation of the original output, every key
maps to exactly the same rendered value, the keys come in the order of `root'`, and the flag
sets have the same members. -/
theorem order_independence {n : Nat} {root root' out : Mapping} (hw : WF root.toValue)
    (hp : root'.es.Perm root.es) (hck : root'.ck = root.ck) (hok : root'.ok = root.ok)
    (h : renderParamsF n root = .ok out) :
    ∃ out', renderParamsF (n + root.es.length + 1) root' = .ok out' ∧
      out'.es.Perm out.es ∧ (∀ k, lookup k out'.es = lookup k out.es) ∧
      keys out'.es = keys root'.es ∧
      (∀ x, x ∈ out'.ck ↔ x ∈ out.ck) ∧ (∀ x, x ∈ out'.ok ↔ x ∈ out.ok) := by
  have hw' : WF root'.toValue := wf_map_perm hp.symm hw
  have hshape := renderParamsF_shape hw h
  have hget := perm_same_lookup hp (by simpa [Mapping.toValue, WF] using hw.2)
  unfold renderParamsF renderedF at h
  cases n with
  | zero => simp [interp] at h
  | succ n =>
    have hm := hw
    have hm' := hw'
    simp only [Mapping.toValue, interp] at h
    simp only [Mapping.toValue, WF] at hm hm'
    cases h1 : interpEs n root root.es root.ck root.ok {} {} with
    | error e => simp [h1] at h
    | ok m1 =>
      simp only [h1, Mapping.toValue, flat] at h
      have hw1 := (C07.interp_closed (n := n+1) (st := {}) (st' := {}) (r := m1.toValue) hw hw
        (by simp only [Mapping.toValue, interp, h1])).2
      simp only [Mapping.toValue, WF] at hw1
      cases h2 : flatEs m1.es m1.ck m1.ok {} {} with
      | error e => simp [h2] at h
      | ok m2 =>
        simp only [h2, Except.ok.injEq] at h
        subst h
        obtain ⟨_, E1⟩ := interpEs_entries root.es n {} m1 hm.1 (by simpa using hm.2) h1
        obtain ⟨_, E2⟩ := flatEs_entries m1.es {} m2 hw1.1 (by simpa using hw1.2) h2
        obtain ⟨k1, _, _⟩ := interpEs_shape root.es n {} m1 hm.1 (by simpa using hm.2) h1
        obtain ⟨k2, _, _⟩ := flatEs_shape m1.es {} m2 hw1.1 (by simpa using hw1.2) h2
        simp only [keys, List.map_nil, List.nil_append] at k1 k2
        -- first stage for root'
        obtain ⟨m1', hm1', _, B1⟩ := interpEs_build (root := root') (ck := root'.ck)
          (ok := root'.ok) (st := {}) (tgt := m1.es) n root'.es {} hm'.1 (by simpa using hm'.2)
          (by
            intro k v hkv
            obtain ⟨x, s, y, hx, hy, hl⟩ := E1 k v (hp.mem_iff.1 hkv)
            exact ⟨x, s, y, by rw [← (rootEq hget n).interp]; exact hx, hy, hl⟩)
        obtain ⟨k1', _, _⟩ := interpEs_shape root'.es _ {} m1' hm'.1 (by simpa using hm'.2) hm1'
        simp only [keys, List.map_nil, List.nil_append] at k1'
        have hw1' := (C07.interp_closed (n := n + root'.es.length + 1 + 1) (st := {}) (st' := {})
          (r := m1'.toValue) hw' hw' (by simp only [Mapping.toValue, interp, hm1'])).2
        simp only [Mapping.toValue, WF] at hw1'
        -- second stage for root'
        obtain ⟨m2', hm2', _, B2⟩ := flatEs_build (ck := m1'.ck) (ok := m1'.ok) (st := {})
          (tgt := m2.es) m1'.es {} hw1'.1 (by simpa using hw1'.2)
          (by
            intro k y hky
            have hl : lookup k m1'.es = some y := lookup_of_mem_nodup hw1'.2 hky
            rw [B1 k (by show k ∈ List.map Prod.fst root'.es; rw [← k1']; exact mem_keys_of_mem hky)] at hl
            exact E2 k y (mem_of_lookup hl))
        obtain ⟨k2', _, _⟩ := flatEs_shape m1'.es {} m2' hw1'.1 (by simpa using hw1'.2) hm2'
        simp only [keys, List.map_nil, List.nil_append] at k2'
        have hlen : root'.es.length = root.es.length := hp.length_eq
        have hrender : renderParamsF (n + 1 + root.es.length + 1) root' = .ok m2' := by
          have e : n + 1 + root.es.length + 1 = (n + root'.es.length + 1) + 1 := by omega
          rw [e]
          unfold renderParamsF renderedF
          simp only [Mapping.toValue, interp, hm1', flat, hm2']
        have hkeys' : keys m2'.es = keys root'.es := by
          simp only [keys]; rw [k2', k1']
        have hkeys : keys m2.es = keys root.es := by
          simp only [keys]; rw [k2, k1]
        have hkperm : (keys m2'.es).Perm (keys m2.es) := by
          rw [hkeys', hkeys]; exact List.Perm.map Prod.fst hp
        have hlook : ∀ k, lookup k m2'.es = lookup k m2.es := by
          intro k
          by_cases hk : k ∈ keys m1'.es
          · exact B2 k hk
          · have hk2' : k ∉ keys m2'.es := by simpa only [keys, k2'] using hk
            have hk2 : k ∉ keys m2.es := fun hmem => hk2' (hkperm.mem_iff.2 hmem)
            rw [lookup_none_iff.2 hk2', lookup_none_iff.2 hk2]
        have hshape' := renderParamsF_shape hw' hrender
        have hnd' : (keys m2'.es).Nodup := by rw [hkeys']; exact hm'.2
        refine ⟨m2', hrender, perm_of_lookup_eq hkperm hnd' hlook, hlook, hkeys', ?_, ?_⟩
        · intro x
          rw [hshape'.2.1 x, hshape.2.1 x, hck]
          exact and_congr_right fun _ => (List.Perm.map Prod.fst hp).mem_iff
        · intro x
          rw [hshape'.2.2 x, hshape.2.2 x, hok]
          exact and_congr_right fun _ => (List.Perm.map Prod.fst hp).mem_iff

/-- `order_independence` for any sufficiently large amount of fuel. -/
theorem order_independence_fuel {n n' : Nat} {root root' out : Mapping} (hw : WF root.toValue)
    (hp : root'.es.Perm root.es) (hck : root'.ck = root.ck) (hok : root'.ok = root.ok)
    (h : renderParamsF n root = .ok out) (hn' : n + root.es.length + 1 ≤ n') :
    ∃ out', renderParamsF n' root' = .ok out' ∧
      out'.es.Perm out.es ∧ (∀ k, lookup k out'.es = lookup k out.es) ∧
      keys out'.es = keys root'.es ∧
      (∀ x, x ∈ out'.ck ↔ x ∈ out.ck) ∧ (∀ x, x ∈ out'.ok ↔ x ∈ out.ok) := by
  obtain ⟨out', h1, rest⟩ := order_independence hw hp hck hok h
  exact ⟨out', renderParamsF_fuel_mono_le hn' _ h1 (by simp), rest⟩

/-! ### Non-vacuity -/

/-- `a` is a whole-value reference to the mapping `b`. -/
def demo : Mapping :=
  ⟨[(.str "a".toList, .str "${b}".toList),
    (.str "b".toList, .map [(.str "x".toList, .num (.int 1))] [] [])], [], []⟩

/-- The same parameters written in the other order. -/
def demoSwapped : Mapping :=
  ⟨[(.str "b".toList, .map [(.str "x".toList, .num (.int 1))] [] []),
    (.str "a".toList, .str "${b}".toList)], [], []⟩

/-- A path assembled from a nested reference: `${${c}:x}` with `c: b`. -/
def demoNested : Mapping :=
  ⟨[(.str "a".toList, .str "${${c}:x}".toList),
    (.str "b".toList, .map [(.str "x".toList, .num (.int 1))] [] []),
    (.str "c".toList, .str "b".toList)], [], []⟩

theorem demo_wf : WF demo.toValue := by
  simp only [demo, Mapping.toValue, WF, WFEs, keys]
  exact ⟨⟨by decide, trivial, by decide, ⟨⟨by decide, trivial, trivial⟩, by decide⟩, trivial⟩, by decide⟩

theorem demoNested_wf : WF demoNested.toValue := by
  simp only [demoNested, Mapping.toValue, WF, WFEs, keys]
  exact ⟨⟨by decide, trivial, by decide, ⟨⟨by decide, trivial, trivial⟩, by decide⟩,
    by decide, trivial, trivial⟩, by decide⟩

/-! Observers with decidable equality, so that concrete runs can be checked by kernel evaluation
(`Value`, `Token` and `Err` have no `DecidableEq`). -/

/-- The three fields of a "key not found" error, if the result is one. -/
def missingKeyOf {α : Type} : R α → Option (Str × Str × Str)
  | .error (.missingKey a b c) => some (a, b, c)
  | _ => none

/-- The three fields of a "lookup into a non-mapping" error, if the result is one. -/
def lookupIntoOf {α : Type} : R α → Option (Str × Str × Str)
  | .error (.lookupInto a b c) => some (a, b, c)
  | _ => none

mutual
/-- A token as text: `L(..)` literal, `R[..]` reference, `C[..]` combined. -/
def tokText : Token → Str
  | .lit s => 'L' :: '(' :: s ++ [')']
  | .ref ps => 'R' :: '[' :: tokTextL ps ++ [']']
  | .combined ps => 'C' :: '[' :: tokTextL ps ++ [']']
def tokTextL : List Token → Str
  | [] => []
  | t :: ts => tokText t ++ tokTextL ts
end

/-- The parse of a string that contains a reference, as text. -/
def parseText (s : Str) : Option Str :=
  match Token.parse s with
  | .ok (some t) => some (tokText t)
  | _ => none

example : Token.parse "${b}".toList = .ok (some (.ref [.lit "b".toList])) := by rfl

/-- `${${c}:x}` parses to `Ref [Ref [Lit c], Lit ":x"]`. -/
example : parseText "${${c}:x}".toList = some "R[R[L(c)]L(:x)]".toList := by decide +kernel
example : tokText (.ref [.ref [.lit "c".toList], .lit ":x".toList]) = "R[R[L(c)]L(:x)]".toList := by
  decide +kernel

/-- The render of `demo`: the reference became the (rendered) mapping, kind preserved. -/
theorem demo_render : renderParamsF 50 demo =
    .ok ⟨[(.str "a".toList, .map [(.str "x".toList, .num (.int 1))] [] []),
          (.str "b".toList, .map [(.str "x".toList, .num (.int 1))] [] [])], [], []⟩ := by rfl

example : C07.renderJson 50 demo = some "{\"a\":{\"x\":1},\"b\":{\"x\":1}}".toList := by
  decide +kernel

/-- All hypotheses of `whole_ref_final_top` hold for `demo`. -/
example : ∃ a b, lookup (.str "a".toList)
      [(.str "a".toList, .map [(.str "x".toList, .num (.int 1))] [] []),
       (.str "b".toList, .map [(.str "x".toList, .num (.int 1))] [] [])] = some a ∧
    lookup (.str "b".toList)
      [(.str "a".toList, .map [(.str "x".toList, .num (.int 1))] [] []),
       (.str "b".toList, .map [(.str "x".toList, .num (.int 1))] [] [])] = some b ∧
    erase a = erase b :=
  whole_ref_final_top (k := .str "a".toList) (s := "${b}".toList) (k0 := "b".toList)
    demo_wf demo_render (by simp [demo]) (by rfl) (by decide) (by decide)

/-- `whole_ref_top` applied: whatever `${b}` renders to in `demo` is the rendered mapping `b`. -/
example {n : Nat} {r : Value} {st st' : RState}
    (h : tokRender n demo (.ref [.lit "b".toList]) st = .ok (r, st')) :
    erase r = .map [(.str "x".toList, .num (.int 1))] [] [] :=
  whole_ref_top (m := 10) (st0 := {}) (st0' := {})
    (r0 := .map [(.str "x".toList, .num (.int 1))] [] []) demo_wf (by decide) (by rfl) h (by rfl)

/-- … and it does render. -/
example : (tokRender 20 demo (.ref [.lit "b".toList]) {}).toOption.map Prod.fst =
    some (.map [(.str "x".toList, .num (.int 1))] [] []) := by rfl

/-- A nested reference in the path: `${${c}:x}` (token `Ref [Ref [Lit c], Lit ":x"]`) renders to
the number `1` found at `b:x` (`whole_ref_path` with all hypotheses discharged). -/
example {n : Nat} {r : Value} {st st' : RState}
    (h : tokRender n demoNested (.ref [.ref [.lit "c".toList], .lit ":x".toList]) st = .ok (r, st')) :
    erase r = .num (.int 1) :=
  whole_ref_path (j := 20) (sp := {}) (path := "b:x".toList) (k0 := "b".toList)
    (segs := ["x".toList]) (vt := .num (.int 1)) (m := 5) (st0 := {}) (st0' := {})
    (r0 := .num (.int 1)) demoNested_wf (by rfl) (by rfl) (by rfl) (by rfl) h (by rfl)

/-- … and it does render (to JSON text `1`), also as part of the whole parameters. -/
example : (tokRender 20 demoNested (.ref [.ref [.lit "c".toList], .lit ":x".toList]) {}).toOption.map
    (fun p => jsonOf p.1) = some (.ok "1".toList) := by rfl

example : C07.renderJson 50 demoNested = some "{\"a\":1,\"b\":{\"x\":1},\"c\":\"b\"}".toList := by
  decide +kernel

/-- `a` refers to the number at `b:x`. -/
def demoPath : Mapping :=
  ⟨[(.str "a".toList, .str "${b:x}".toList),
    (.str "b".toList, .map [(.str "x".toList, .num (.int 1))] [] [])], [], []⟩

theorem demoPath_wf : WF demoPath.toValue := by
  simp only [demoPath, Mapping.toValue, WF, WFEs, keys]
  exact ⟨⟨by decide, trivial, by decide, ⟨⟨by decide, trivial, trivial⟩, by decide⟩, trivial⟩, by decide⟩

theorem demoPath_render : renderParamsF 12 demoPath =
    .ok ⟨[(.str "a".toList, .num (.int 1)),
          (.str "b".toList, .map [(.str "x".toList, .num (.int 1))] [] [])], [], []⟩ := by rfl

/-- All hypotheses of `whole_ref_final_path` hold for `demoPath`. -/
example : ∃ a b, lookup (.str "a".toList)
      [(.str "a".toList, .num (.int 1)),
       (.str "b".toList, .map [(.str "x".toList, .num (.int 1))] [] [])] = some a ∧
    rawPath (Mapping.toValue ⟨[(.str "a".toList, .num (.int 1)),
       (.str "b".toList, .map [(.str "x".toList, .num (.int 1))] [] [])], [], []⟩)
       ["b".toList, "x".toList] = some b ∧
    erase a = erase b :=
  whole_ref_final_path (k := .str "a".toList) (s := "${b:x}".toList) (j := 5) (sp := {})
    (path := "b:x".toList) (vt := .num (.int 1))
    demoPath_wf demoPath_render (by simp [demoPath]) (by rfl) (by rfl) (by rfl) (by rfl) (by rfl)

/-- A path that does not exist: the error names the reference text, the missing key and the
parameter being rendered. -/
example : missingKeyOf (renderParamsF 50 ⟨[(.str "a".toList, .str "${nope}".toList)], [], []⟩) =
    some ("nope".toList, "nope".toList, "a".toList) := by decide +kernel

example : missingKeyOf (renderParamsF 50 ⟨[(.str "a".toList, .str "${b:y}".toList),
      (.str "b".toList, .map [(.str "x".toList, .num (.int 1))] [] [])], [], []⟩) =
    some ("b:y".toList, "y".toList, "a".toList) := by decide +kernel

example : lookupIntoOf (renderParamsF 50 ⟨[(.str "a".toList, .str "${b:x:z}".toList),
      (.str "b".toList, .map [(.str "x".toList, .num (.int 1))] [] [])], [], []⟩) =
    some ("b:x:z".toList, "z".toList, "a".toList) := by decide +kernel

/-- `missing_top_key` with all hypotheses discharged. -/
example : tokResolve 5 ⟨[(.str "a".toList, .str "${nope}".toList)], [], []⟩
      (.ref [.lit "nope".toList]) {} =
    .error (.missingKey "nope".toList "nope".toList []) :=
  missing_top_key (segs := []) (by decide) (by rfl) (by simp) (by rfl) (by rfl)

/-- `missing_nested_key` / `lookup_into_scalar` with all hypotheses discharged. -/
example : descend 3 {} (.map [(.str "x".toList, .null)] [] []) ["y".toList] {} "b:y".toList =
    .error (.missingKey "b:y".toList "y".toList []) :=
  missing_nested_key (st' := {}) (by rfl) (by rfl)

example : descend 3 {} (.num (.int 1)) ["z".toList] {} "b:x:z".toList =
    .error (.lookupInto "b:x:z".toList "z".toList []) :=
  lookup_into_scalar (st' := {}) (by rfl) (by rfl) (by rfl) (by rfl)

/-- Order independence on `demo`: the swapped parameters render to the swapped output. -/
example : demoSwapped.es.Perm demo.es := List.Perm.swap _ _ _

example : renderParamsF 50 demoSwapped =
    .ok ⟨[(.str "b".toList, .map [(.str "x".toList, .num (.int 1))] [] []),
          (.str "a".toList, .map [(.str "x".toList, .num (.int 1))] [] [])], [], []⟩ := by rfl

/-- `order_independence` with all hypotheses discharged. -/
example : ∃ out', renderParamsF 53 demoSwapped = .ok out' ∧
    out'.es.Perm [(.str "a".toList, .map [(.str "x".toList, .num (.int 1))] [] []),
                  (.str "b".toList, .map [(.str "x".toList, .num (.int 1))] [] [])] :=
  (order_independence (root' := demoSwapped) demo_wf (List.Perm.swap _ _ _) rfl rfl demo_render).imp
    fun _ h => ⟨h.1, h.2.1⟩

/-- **Counterexample to order independence at the same fuel** (see the header): with fuel 7
`demo` renders, but with `b` written first the reference `a` is left with too little fuel. -/
theorem order_same_fuel_counterexample :
    renderParamsF 7 demo =
      .ok ⟨[(.str "a".toList, .map [(.str "x".toList, .num (.int 1))] [] []),
            (.str "b".toList, .map [(.str "x".toList, .num (.int 1))] [] [])], [], []⟩ ∧
    renderParamsF 7 demoSwapped = .error .fuel ∧ demoSwapped.es.Perm demo.es :=
  ⟨by rfl, by rfl, List.Perm.swap _ _ _⟩

end C03
end Reclass
