/-
  C06 — Reference markers, escapes and malformed references.

  "A string containing no reference marker renders unchanged, and an escaped marker (a
  backslash before `${` or `$[`, or before `}` inside a reference; a doubled backslash before
  a marker standing for one literal backslash) renders as the literal text and is never
  interpreted as a reference.  Every string whose unescaped `${` are closed by `}` around a
  non-empty path is accepted, and an unclosed or empty reference is reported as an error
  rather than passed through or mis-split."

  Property theorems only; helper lemmas live in `Lemmas/ParserL`.  All statements are about
  the model of `src/refs/parser.rs` / `Token::parse` in `Model/Parser.lean`, for every string
  (`Str = List Char`), with no bound on its length.
-/
import Reclass.Lemmas.ParserL
import Reclass.Model.Eval
namespace Reclass
namespace C06

/-! ### 1. Strings without a marker -/

/-- A string with neither `${` nor `$[` in it is not parsed at all: `Token::parse` answers
`Ok(None)` (and the evaluator then keeps the text as it is, see
`no_marker_renders_unchanged`). -/
theorem no_marker_parse_none (s : Str) (h : containsMarker s = false) :
    Token.parse s = .ok none := by
  simp [Token.parse, h]

/-- `containsMarker` is exactly "`${` or `$[` occurs somewhere". -/
theorem containsMarker_iff (s : Str) :
    containsMarker s = true ↔
      ∃ pre post, s = pre ++ '$' :: '{' :: post ∨ s = pre ++ '$' :: '[' :: post :=
  Reclass.containsMarker_iff s

/-- Interpolating a string value without a marker returns the very same text as a literal,
whatever the parameters and the resolution state, and leaves the state alone. -/
theorem no_marker_renders_unchanged (n : Nat) (root : Mapping) (s : Str) (st : RState)
    (h : containsMarker s = false) :
    interp (n + 1) root (.str s) st = .ok (.lit s, st) := by
  simp [interp, no_marker_parse_none s h]

/-! ### 2. Progress: every successful sub-parser consumes input -/

/-- The generic character loop never produces input: what is left is a suffix. -/
theorem scan_consumes (step : Str → Option (Str × Nat)) (k : Nat) (i : Str) :
    (scan step k i).2 <:+ i ∧ (scan step k i).2.length ≤ i.length :=
  ⟨scan_suffix step i k, scan_length_le step i k⟩

/-- A successful `string` (escape or run of content) consumes at least one character and
yields non-empty text. -/
theorem stringP_consumes {i s rest : Str} (h : stringP i = some (s, rest)) :
    rest <:+ i ∧ rest.length < i.length ∧ s ≠ [] := stringP_suffix h

/-- A successful `reference` leaves a proper suffix of its input. -/
theorem reference_consumes {n : Nat} {i rest : Str} {t : Token}
    (h : reference n i = .ok (t, rest)) : rest <:+ i ∧ rest.length < i.length :=
  ⟨reference_suffix h, reference_length h⟩

/-- The `ref_item` loop leaves a suffix, a proper one as soon as it produced a token. -/
theorem refItems_consumes {n : Nat} {i rest : Str} {ts : List Token}
    (h : refItems n i = .ok (ts, rest)) :
    rest <:+ i ∧ rest.length ≤ i.length ∧ (ts ≠ [] → rest.length < i.length) :=
  ⟨refItems_suffix h, refItems_length_le h, refItems_length_lt h⟩

/-- The top-level `item` loop leaves a suffix, a proper one as soon as it produced a token. -/
theorem items_consumes {n : Nat} {i rest : Str} {ts : List Token}
    (h : items n i = .ok (ts, rest)) :
    rest <:+ i ∧ rest.length ≤ i.length ∧ (ts ≠ [] → rest.length < i.length) :=
  ⟨items_suffix h, items_length_le h, items_length_lt h⟩

/-! ### 3. Fuel: monotone, and `parseFuel` is always enough -/

/-- Fuel monotonicity for all four fuel-indexed parser functions: a result other than "out
of fuel" is unchanged by one more unit of fuel. -/
theorem fuel_mono (n : Nat) (i : Str) :
    (reference n i ≠ .error .fuel → reference (n + 1) i = reference n i) ∧
    (refItems n i ≠ .error .fuel → refItems (n + 1) i = refItems n i) ∧
    (items n i ≠ .error .fuel → items (n + 1) i = items n i) ∧
    (parseRefF n i ≠ .error .fuel → parseRefF (n + 1) i = parseRefF n i) :=
  ⟨reference_mono, refItems_mono, items_mono, fun h => parseRefF_mono_le h (Nat.le_succ n)⟩

/-- … and hence by any amount of additional fuel. -/
theorem parseRefF_mono {n m : Nat} {s : Str} (h : parseRefF n s ≠ .error .fuel) (hle : n ≤ m) :
    parseRefF m s = parseRefF n s := parseRefF_mono_le h hle

/-- `length + 2` units of fuel already suffice (each loop iteration consumes a character,
each nesting level two), so the model's `parseFuel s = 2 * length + 3` is never exhausted. -/
theorem parse_fuel_enough (s : Str) : parseRefF (parseFuel s) s ≠ .error .fuel :=
  parseRefF_fuel_enough (by unfold parseFuel; omega)

/-- `Token.parse` never reports the model-only fuel error. -/
theorem parse_ne_fuel (s : Str) : Token.parse s ≠ .error .fuel := by
  unfold Token.parse
  split
  · simp
  · have := parse_fuel_enough s
    split
    · simp
    · simp
    · rename_i h; exact absurd h this

/-- The result of `Token.parse` is the result of the grammar at *any* sufficient fuel. -/
theorem parse_eq_of_fuel {s : Str} {n : Nat} (hm : containsMarker s = true)
    (h : parseRefF n s ≠ .error .fuel) :
    Token.parse s = match parseRefF n s with
      | .ok t => .ok (some t)
      | .error _ => .error (.parse s) := by
  cases hp : parseRefF n s with
  | ok t => exact parse_ok_of hm hp
  | error e =>
    cases e with
    | fuel => exact absurd hp h
    | fail => exact parse_error_of hm hp

/-! ### 4. Shape of a successful parse -/

/-- `u` occurs somewhere inside `t` (reflexive–transitive sub-token relation). -/
inductive Sub : Token → Token → Prop where
  | refl (t : Token) : Sub t t
  | inRef {t u : Token} {ps : List Token} : u ∈ ps → Sub t u → Sub t (.ref ps)
  | inCombined {t u : Token} {ps : List Token} : u ∈ ps → Sub t u → Sub t (.combined ps)

theorem wfInner_of_mem {ps : List Token} (h : Token.wfInnerL ps = true) {u : Token}
    (hu : u ∈ ps) : u.wfInner = true := by
  induction ps with
  | nil => cases hu
  | cons a r ih =>
    simp only [Token.wfInnerL, Bool.and_eq_true] at h
    rcases List.mem_cons.1 hu with rfl | hm
    · exact h.1
    · exact ih h.2 hm

theorem sub_wfInner {t u : Token} (hs : Sub t u) (hu : u.wfInner = true) : t.wfInner = true := by
  induction hs with
  | refl => exact hu
  | inRef hm _ ih =>
    simp only [Token.wfInner, Bool.and_eq_true] at hu
    exact ih (wfInner_of_mem hu.2 hm)
  | inCombined _ _ _ => simp [Token.wfInner] at hu

/-- Every proper or improper sub-token of a parse result is well-formed (`Token.wfInner`:
non-empty literal, or reference with non-empty coalesced parts), except that the result
itself may be a `combined`. -/
theorem sub_wf {n : Nat} {s : Str} {t u : Token} (h : parseRefF n s = .ok t) (hs : Sub u t) :
    u.wfInner = true ∨ u = t := by
  have hw := parseRefF_wf h
  cases hs with
  | refl => exact Or.inr rfl
  | inRef hm hs' =>
    left
    simp only [Token.wfTop, Token.wfInner, Bool.and_eq_true] at hw
    exact sub_wfInner hs' (wfInner_of_mem hw.2 hm)
  | inCombined hm hs' =>
    left
    simp only [Token.wfTop, Bool.and_eq_true] at hw
    exact sub_wfInner hs' (wfInner_of_mem hw.2 hm)

/-- **No empty reference is ever produced**: every `Token.ref parts` occurring anywhere
inside a parse result has `parts ≠ []`. -/
theorem ref_nonempty {n : Nat} {s : Str} {t : Token} (h : parseRefF n s = .ok t)
    {parts : List Token} (hs : Sub (.ref parts) t) : parts ≠ [] := by
  have hw : (Token.ref parts).wfInner = true := by
    rcases sub_wf h hs with hw | he
    · exact hw
    · have := parseRefF_wf h
      rw [← he] at this
      exact this
  intro h0
  subst h0
  simp [Token.wfInner] at hw

/-- Every literal occurring anywhere inside a parse result is non-empty. -/
theorem lit_nonempty {n : Nat} {s : Str} {t : Token} (h : parseRefF n s = .ok t)
    {a : Str} (hs : Sub (.lit a) t) : a ≠ [] := by
  have hw : (Token.lit a).wfInner = true := by
    rcases sub_wf h hs with hw | he
    · exact hw
    · have := parseRefF_wf h
      rw [← he] at this
      exact this
  intro h0
  subst h0
  simp [Token.wfInner] at hw

/-- The full shape invariant of a parse result (see `Token.wfTop`): `combined` only at the
top with at least two parts, reference parts non-empty, literals non-empty, and never two
adjacent literals. -/
theorem parse_wf {n : Nat} {s : Str} {t : Token} (h : parseRefF n s = .ok t) :
    t.wfTop = true := parseRefF_wf h

/-- `all_consuming`: a successful parse means the item loop ate the whole input and produced
at least one token — nothing is silently left over (`parse_ref`'s `unreachable!("Trailing
data")` is indeed unreachable). -/
theorem parse_consumes_all {n : Nat} {s : Str} {t : Token} (h : parseRefF n s = .ok t) :
    ∃ ts, items n s = .ok (ts, []) ∧ ts ≠ [] := by
  obtain ⟨ts, h1, h2, _⟩ := parseRefF_ok_inv h
  exact ⟨ts, h1, h2⟩

/-- `coalesce_literals` keeps a non-empty list non-empty (so `tokiter.next().unwrap()` on
its result is fine). -/
theorem coalesce_nonempty {ts : List Token} (h : ts ≠ []) : coalesce ts ≠ [] :=
  coalesce_ne_nil h

/-- `coalesce_literals` never leaves two adjacent literals. -/
theorem coalesce_no_adjacent_lits (ts : List Token) : noAdjLit (coalesce ts) = true :=
  noAdjLit_coalesce ts

/-- … and does nothing if there were none to begin with. -/
theorem coalesce_id_of_no_adjacent_lits (ts : List Token) (h : noAdjLit ts = true) :
    coalesce ts = ts := coalesce_of_noAdjLit ts h

/-! ### 6. Malformed references are errors -/

/-- **Unclosed reference**: ordinary text (no `$`, no `\`; in particular any text free of
`$ \ { }`), then `${`, then anything without a `}`: `Token::parse` reports a parse error
for the whole string — the `${…` is neither passed through as text nor split off. -/
theorem unclosed_is_error (pre post : Str) (hpre : ∀ c ∈ pre, c ≠ '$' ∧ c ≠ '\\')
    (hpost : '}' ∉ post) :
    Token.parse (pre ++ '$' :: '{' :: post) = .error (.parse (pre ++ '$' :: '{' :: post)) :=
  parse_stuck_open hpre (fun _ _ _ h => hpost (reference_needs_close h))

/-- **Empty reference**: ordinary text, then `${}`, then *anything*: parse error. -/
theorem empty_ref_is_error (pre post : Str) (hpre : ∀ c ∈ pre, c ≠ '$' ∧ c ≠ '\\') :
    Token.parse (pre ++ '$' :: '{' :: '}' :: post) =
      .error (.parse (pre ++ '$' :: '{' :: '}' :: post)) :=
  parse_stuck_open hpre (fun _ _ _ => reference_empty_fails)

/-- The same in the exact form `pre ++ "${}" ++ post`. -/
theorem empty_ref_is_error' (pre post : Str) (hpre : ∀ c ∈ pre, c ≠ '$' ∧ c ≠ '\\') :
    Token.parse (pre ++ "${}".toList ++ post) = .error (.parse (pre ++ "${}".toList ++ post)) := by
  have := empty_ref_is_error pre post hpre
  simpa using this

/-- In the evaluator a malformed reference surfaces as that parse error, whatever the
parameters. -/
theorem unclosed_interp_error (n : Nat) (root : Mapping) (st : RState) (pre post : Str)
    (hpre : ∀ c ∈ pre, c ≠ '$' ∧ c ≠ '\\') (hpost : '}' ∉ post) :
    interp (n + 1) root (.str (pre ++ '$' :: '{' :: post)) st =
      .error (.parse (pre ++ '$' :: '{' :: post)) := by
  simp [interp, unclosed_is_error pre post hpre hpost]

/-! ### 7. A closed reference around a non-empty path is accepted -/

/-- An optional literal: nothing for the empty text. -/
def litOpt (s : Str) : List Token := if s = [] then [] else [.lit s]

/-- **Simple reference**: `pre${path}post` with `pre`, `post` free of `$` and `\`, and a
non-empty `path` free of `$`, `\`, `}` (so in particular whenever none of the three contains
any of `$ \ { }`) is accepted, as `Ref [Literal path]` alone when `pre = post = ""` and
otherwise as `Combined` of the non-empty literals around that reference (`pack`). -/
theorem simple_ref_accepted (pre path post : Str)
    (hpre : ∀ c ∈ pre, c ≠ '$' ∧ c ≠ '\\')
    (hpath : ∀ c ∈ path, c ≠ '$' ∧ c ≠ '\\' ∧ c ≠ '}') (hne : path ≠ [])
    (hpost : ∀ c ∈ post, c ≠ '$' ∧ c ≠ '\\') :
    Token.parse (pre ++ '$' :: '{' :: (path ++ '}' :: post)) =
      .ok (some (pack (litOpt pre ++ [.ref [.lit path]] ++ litOpt post))) := by
  apply parse_ok_of (n := 9) (containsMarker_open pre _)
  have hX : items 8 ('$' :: '{' :: (path ++ '}' :: post)) =
      .ok (.ref [.lit path] :: litOpt post, []) := by
    rw [items_ref (n := 7) (reference_simple (n := 3) hne hpath), items_tail (n := 4) hpost]
    rfl
  by_cases h1 : pre = []
  · subst h1
    have hX' : items 9 ('$' :: '{' :: (path ++ '}' :: post)) =
        .ok (.ref [.lit path] :: litOpt post, []) := by
      rw [← hX]; exact items_mono (by rw [hX]; simp)
    rw [List.nil_append, parseRefF_of_items hX' (by simp)]
    by_cases h2 : post = []
    · subst h2; rfl
    · simp [litOpt, h2, coalesce]
  · have hI : items 9 (pre ++ '$' :: '{' :: (path ++ '}' :: post)) =
        .ok (.lit pre :: .ref [.lit path] :: litOpt post, []) := by
      rw [items_run (n := 7) h1 hpre (contentStep_open _), hX]; rfl
    rw [parseRefF_of_items hI (by simp)]
    by_cases h2 : post = []
    · subst h2; simp [litOpt, h1, coalesce]
    · simp [litOpt, h1, h2, coalesce]

/-- The bare reference `${path}` parses to `Ref [Literal path]`. -/
theorem bare_ref_accepted (path : Str)
    (hpath : ∀ c ∈ path, c ≠ '$' ∧ c ≠ '\\' ∧ c ≠ '}') (hne : path ≠ []) :
    Token.parse ('$' :: '{' :: (path ++ ['}'])) = .ok (some (.ref [.lit path])) := by
  have := simple_ref_accepted [] path [] (by simp) hpath hne (by simp)
  simpa [litOpt, pack] using this

/-- With text on both sides the result is `Combined [Literal pre, Ref [Literal path],
Literal post]`. -/
theorem embedded_ref_accepted (pre path post : Str)
    (hpre : ∀ c ∈ pre, c ≠ '$' ∧ c ≠ '\\') (hpre' : pre ≠ [])
    (hpath : ∀ c ∈ path, c ≠ '$' ∧ c ≠ '\\' ∧ c ≠ '}') (hne : path ≠ [])
    (hpost : ∀ c ∈ post, c ≠ '$' ∧ c ≠ '\\') (hpost' : post ≠ []) :
    Token.parse (pre ++ '$' :: '{' :: (path ++ '}' :: post)) =
      .ok (some (.combined [.lit pre, .ref [.lit path], .lit post])) := by
  have := simple_ref_accepted pre path post hpre hpath hne hpost
  simpa [litOpt, pack, hpre', hpost'] using this

end C06
end Reclass
