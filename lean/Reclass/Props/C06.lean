/-
  C06 — Reference markers, escapes and malformed references.

  "A string containing no reference marker renders unchanged, and an escaped marker (a
  backslash before `${` or `$[`, or before `}` inside a reference; a doubled backslash before
  a marker standing for one literal backslash) renders as the literal text and is never
  interpreted as a reference.  Every string whose unescaped `${` are closed by `}` around a
  non-empty path is accepted, and an unclosed or empty reference is reported as an error
  rather than passed through or mis-split."

  Property theorems; helper lemmas about the model functions live in `Lemmas/ParserL` (the
  few auxiliary lemmas below are about notions *defined here*: `Sub`, `unescapedOpenAt`,
  `unescape`, `encode`).  All statements are about the model of `src/refs/parser.rs` /
  `Token::parse` in `Model/Parser.lean`, for every string (`Str = List Char`), with no bound
  on its length.

  Layout (sections in dependency order):
    1  no marker ⇒ `Ok(None)` ⇒ rendered unchanged          `no_marker_*`, `containsMarker_iff`
    2  every successful sub-parser consumes input            `*_consumes`
    3  fuel monotone; `parseFuel` never runs out             `fuel_mono`, `parse_fuel_enough`
    4  shape of results (no empty `Ref`, coalesced, …)       `ref_nonempty`, `parse_wf`, …
    6  unclosed / empty reference ⇒ parse error              `unclosed_is_error`, `empty_ref_is_error`
    7  `pre${path}post` accepted                             `simple_ref_accepted`
    5  all `${` escaped ⇒ one literal, `unescape s`          `escaped_only_literal`
    5b `\}` inside a reference, `\\` before `${`               `escaped_close_in_ref`, `double_backslash_before_ref`
    8  print/parse round trip for nested token trees         `roundtrip`

  Where a hypothesis here is weaker than in the informal request (e.g. `pre` only has to avoid
  `$` and `\`, not also `{` `}`; `post` after `${}` is arbitrary) the theorem is stronger.

  Two facts about the grammar that the statements had to respect (both agree with the Rust
  unit tests, neither is a defect of the model):
  * `\\}` stands for `\}` only at the start of an item (start of string or right after an
    escape); in the middle of a `content` run it is copied unchanged — see `unescapeFrom`;
  * a backslash before `\${` un-escapes it again (`\\${a}` = literal `\` then the reference
    `a`), so "escaped" means: preceded by a backslash that is not itself preceded by one.
-/
import Reclass.Lemmas.ParserL
import Reclass.Model.Eval
namespace Reclass
namespace C06

/-! ### 1. Strings without a marker -/

/-- A string with neither `${` nor `$[` in it is not parsed at all: `Token::parse` answers
`Ok(None)` (and the evaluator then keeps the text as it is, see
`no_marker_renders_unchanged`). -/
theorem no_marker_parse_none (s : Str) (h : containsMarker s = false) :
    Token.parse s = .ok none := by
  simp [Token.parse, h]

/-- `containsMarker` is exactly "`${` or `$[` occurs somewhere". -/
theorem containsMarker_iff (s : Str) :
    containsMarker s = true ↔
      ∃ pre post, s = pre ++ '$' :: '{' :: post ∨ s = pre ++ '$' :: '[' :: post :=
  Reclass.containsMarker_iff s

/-- Interpolating a string value without a marker returns the very same text as a literal,
whatever the parameters and the resolution state, and leaves the state alone. -/
theorem no_marker_renders_unchanged (n : Nat) (root : Mapping) (s : Str) (st : RState)
    (h : containsMarker s = false) :
    interp (n + 1) root (.str s) st = .ok (.lit s, st) := by
  simp [interp, no_marker_parse_none s h]

/-! ### 2. Progress: every successful sub-parser consumes input -/

/-- The generic character loop never produces input: what is left is a suffix. -/
theorem scan_consumes (step : Str → Option (Str × Nat)) (k : Nat) (i : Str) :
    (scan step k i).2 <:+ i ∧ (scan step k i).2.length ≤ i.length :=
  ⟨scan_suffix step i k, scan_length_le step i k⟩

/-- A successful `string` (escape or run of content) consumes at least one character and
yields non-empty text. -/
theorem stringP_consumes {i s rest : Str} (h : stringP i = some (s, rest)) :
    rest <:+ i ∧ rest.length < i.length ∧ s ≠ [] := stringP_suffix h

/-- A successful `reference` leaves a proper suffix of its input. -/
theorem reference_consumes {n : Nat} {i rest : Str} {t : Token}
    (h : reference n i = .ok (t, rest)) : rest <:+ i ∧ rest.length < i.length :=
  ⟨reference_suffix h, reference_length h⟩

/-- The `ref_item` loop leaves a suffix, a proper one as soon as it produced a token. -/
theorem refItems_consumes {n : Nat} {i rest : Str} {ts : List Token}
    (h : refItems n i = .ok (ts, rest)) :
    rest <:+ i ∧ rest.length ≤ i.length ∧ (ts ≠ [] → rest.length < i.length) :=
  ⟨refItems_suffix h, refItems_length_le h, refItems_length_lt h⟩

/-- The top-level `item` loop leaves a suffix, a proper one as soon as it produced a token. -/
theorem items_consumes {n : Nat} {i rest : Str} {ts : List Token}
    (h : items n i = .ok (ts, rest)) :
    rest <:+ i ∧ rest.length ≤ i.length ∧ (ts ≠ [] → rest.length < i.length) :=
  ⟨items_suffix h, items_length_le h, items_length_lt h⟩

/-! ### 3. Fuel: monotone, and `parseFuel` is always enough -/

/-- Fuel monotonicity for all four fuel-indexed parser functions: a result other than "out
of fuel" is unchanged by one more unit of fuel. -/
theorem fuel_mono (n : Nat) (i : Str) :
    (reference n i ≠ .error .fuel → reference (n + 1) i = reference n i) ∧
    (refItems n i ≠ .error .fuel → refItems (n + 1) i = refItems n i) ∧
    (items n i ≠ .error .fuel → items (n + 1) i = items n i) ∧
    (parseRefF n i ≠ .error .fuel → parseRefF (n + 1) i = parseRefF n i) :=
  ⟨reference_mono, refItems_mono, items_mono, fun h => parseRefF_mono_le h (Nat.le_succ n)⟩

/-- … and hence by any amount of additional fuel. -/
theorem parseRefF_mono {n m : Nat} {s : Str} (h : parseRefF n s ≠ .error .fuel) (hle : n ≤ m) :
    parseRefF m s = parseRefF n s := parseRefF_mono_le h hle

/-- `length + 2` units of fuel already suffice (each loop iteration consumes a character,
each nesting level two), so the model's `parseFuel s = 2 * length + 3` is never exhausted. -/
theorem parse_fuel_enough (s : Str) : parseRefF (parseFuel s) s ≠ .error .fuel :=
  parseRefF_fuel_enough (by unfold parseFuel; omega)

/-- `Token.parse` never reports the model-only fuel error. -/
theorem parse_ne_fuel (s : Str) : Token.parse s ≠ .error .fuel := by
  unfold Token.parse
  split
  · simp
  · have := parse_fuel_enough s
    split
    · simp
    · simp
    · rename_i h; exact absurd h this

/-- The result of `Token.parse` is the result of the grammar at *any* sufficient fuel. -/
theorem parse_eq_of_fuel {s : Str} {n : Nat} (hm : containsMarker s = true)
    (h : parseRefF n s ≠ .error .fuel) :
    Token.parse s = match parseRefF n s with
      | .ok t => .ok (some t)
      | .error _ => .error (.parse s) := by
  cases hp : parseRefF n s with
  | ok t => exact parse_ok_of hm hp
  | error e =>
    cases e with
    | fuel => exact absurd hp h
    | fail => exact parse_error_of hm hp

/-! ### 4. Shape of a successful parse -/

/-- `Sub t u`: the token `t` occurs somewhere inside `u` (reflexive–transitive). -/
inductive Sub : Token → Token → Prop where
  | refl (t : Token) : Sub t t
  | inRef {t u : Token} {ps : List Token} : u ∈ ps → Sub t u → Sub t (.ref ps)
  | inCombined {t u : Token} {ps : List Token} : u ∈ ps → Sub t u → Sub t (.combined ps)

/-- Members of a list of well-formed inner tokens are well-formed. -/
theorem wfInner_of_mem {ps : List Token} (h : Token.wfInnerL ps = true) {u : Token}
    (hu : u ∈ ps) : u.wfInner = true := by
  induction ps with
  | nil => cases hu
  | cons a r ih =>
    simp only [Token.wfInnerL, Bool.and_eq_true] at h
    rcases List.mem_cons.1 hu with rfl | hm
    · exact h.1
    · exact ih h.2 hm

/-- Well-formedness is inherited by sub-tokens. -/
theorem sub_wfInner {t u : Token} (hs : Sub t u) (hu : u.wfInner = true) : t.wfInner = true := by
  induction hs with
  | refl => exact hu
  | inRef hm _ ih =>
    simp only [Token.wfInner, Bool.and_eq_true] at hu
    exact ih (wfInner_of_mem hu.2 hm)
  | inCombined _ _ _ => simp [Token.wfInner] at hu

/-- Every proper or improper sub-token of a parse result is well-formed (`Token.wfInner`:
non-empty literal, or reference with non-empty coalesced parts), except that the result
itself may be a `combined`. -/
theorem sub_wf {n : Nat} {s : Str} {t u : Token} (h : parseRefF n s = .ok t) (hs : Sub u t) :
    u.wfInner = true ∨ u = t := by
  have hw := parseRefF_wf h
  cases hs with
  | refl => exact Or.inr rfl
  | inRef hm hs' =>
    left
    simp only [Token.wfTop, Token.wfInner, Bool.and_eq_true] at hw
    exact sub_wfInner hs' (wfInner_of_mem hw.2 hm)
  | inCombined hm hs' =>
    left
    simp only [Token.wfTop, Bool.and_eq_true] at hw
    exact sub_wfInner hs' (wfInner_of_mem hw.2 hm)

/-- **No empty reference is ever produced**: every `Token.ref parts` occurring anywhere
inside a parse result has `parts ≠ []`. -/
theorem ref_nonempty {n : Nat} {s : Str} {t : Token} (h : parseRefF n s = .ok t)
    {parts : List Token} (hs : Sub (.ref parts) t) : parts ≠ [] := by
  have hw : (Token.ref parts).wfInner = true := by
    rcases sub_wf h hs with hw | he
    · exact hw
    · have := parseRefF_wf h
      rw [← he] at this
      exact this
  intro h0
  subst h0
  simp [Token.wfInner] at hw

/-- Every literal occurring anywhere inside a parse result is non-empty. -/
theorem lit_nonempty {n : Nat} {s : Str} {t : Token} (h : parseRefF n s = .ok t)
    {a : Str} (hs : Sub (.lit a) t) : a ≠ [] := by
  have hw : (Token.lit a).wfInner = true := by
    rcases sub_wf h hs with hw | he
    · exact hw
    · have := parseRefF_wf h
      rw [← he] at this
      exact this
  intro h0
  subst h0
  simp [Token.wfInner] at hw

/-- The full shape invariant of a parse result (see `Token.wfTop`): `combined` only at the
top with at least two parts, reference parts non-empty, literals non-empty, and never two
adjacent literals. -/
theorem parse_wf {n : Nat} {s : Str} {t : Token} (h : parseRefF n s = .ok t) :
    t.wfTop = true := parseRefF_wf h

/-- `all_consuming`: a successful parse means the item loop ate the whole input and produced
at least one token — nothing is silently left over (`parse_ref`'s `unreachable!("Trailing
data")` is indeed unreachable). -/
theorem parse_consumes_all {n : Nat} {s : Str} {t : Token} (h : parseRefF n s = .ok t) :
    ∃ ts, items n s = .ok (ts, []) ∧ ts ≠ [] := by
  obtain ⟨ts, h1, h2, _⟩ := parseRefF_ok_inv h
  exact ⟨ts, h1, h2⟩

/-- `coalesce_literals` keeps a non-empty list non-empty (so `tokiter.next().unwrap()` on
its result is fine). -/
theorem coalesce_nonempty {ts : List Token} (h : ts ≠ []) : coalesce ts ≠ [] :=
  coalesce_ne_nil h

/-- `coalesce_literals` never leaves two adjacent literals. -/
theorem coalesce_no_adjacent_lits (ts : List Token) : noAdjLit (coalesce ts) = true :=
  noAdjLit_coalesce ts

/-- … and does nothing if there were none to begin with. -/
theorem coalesce_id_of_no_adjacent_lits (ts : List Token) (h : noAdjLit ts = true) :
    coalesce ts = ts := coalesce_of_noAdjLit ts h

/-! ### 6. Malformed references are errors -/

/-- **Unclosed reference**: ordinary text (no `$`, no `\`; in particular any text free of
`$ \ { }`), then `${`, then anything without a `}`: `Token::parse` reports a parse error
for the whole string — the `${…` is neither passed through as text nor split off. -/
theorem unclosed_is_error (pre post : Str) (hpre : ∀ c ∈ pre, c ≠ '$' ∧ c ≠ '\\')
    (hpost : '}' ∉ post) :
    Token.parse (pre ++ '$' :: '{' :: post) = .error (.parse (pre ++ '$' :: '{' :: post)) :=
  parse_stuck_open hpre (fun _ _ _ h => hpost (reference_needs_close h))

/-- **Empty reference**: ordinary text, then `${}`, then *anything*: parse error. -/
theorem empty_ref_is_error (pre post : Str) (hpre : ∀ c ∈ pre, c ≠ '$' ∧ c ≠ '\\') :
    Token.parse (pre ++ '$' :: '{' :: '}' :: post) =
      .error (.parse (pre ++ '$' :: '{' :: '}' :: post)) :=
  parse_stuck_open hpre (fun _ _ _ => reference_empty_fails)

/-- The same in the exact form `pre ++ "${}" ++ post`. -/
theorem empty_ref_is_error' (pre post : Str) (hpre : ∀ c ∈ pre, c ≠ '$' ∧ c ≠ '\\') :
    Token.parse (pre ++ "${}".toList ++ post) = .error (.parse (pre ++ "${}".toList ++ post)) := by
  have := empty_ref_is_error pre post hpre
  simpa using this

/-- In the evaluator a malformed reference surfaces as that parse error, whatever the
parameters. -/
theorem unclosed_interp_error (n : Nat) (root : Mapping) (st : RState) (pre post : Str)
    (hpre : ∀ c ∈ pre, c ≠ '$' ∧ c ≠ '\\') (hpost : '}' ∉ post) :
    interp (n + 1) root (.str (pre ++ '$' :: '{' :: post)) st =
      .error (.parse (pre ++ '$' :: '{' :: post)) := by
  simp [interp, unclosed_is_error pre post hpre hpost]

/-! ### 7. A closed reference around a non-empty path is accepted -/

/-- An optional literal: nothing for the empty text. -/
def litOpt (s : Str) : List Token := if s = [] then [] else [.lit s]

/-- **Simple reference**: `pre${path}post` with `pre`, `post` free of `$` and `\`, and a
non-empty `path` free of `$`, `\`, `}` (so in particular whenever none of the three contains
any of `$ \ { }`) is accepted, as `Ref [Literal path]` alone when `pre = post = ""` and
otherwise as `Combined` of the non-empty literals around that reference (`pack`). -/
theorem simple_ref_accepted (pre path post : Str)
    (hpre : ∀ c ∈ pre, c ≠ '$' ∧ c ≠ '\\')
    (hpath : ∀ c ∈ path, c ≠ '$' ∧ c ≠ '\\' ∧ c ≠ '}') (hne : path ≠ [])
    (hpost : ∀ c ∈ post, c ≠ '$' ∧ c ≠ '\\') :
    Token.parse (pre ++ '$' :: '{' :: (path ++ '}' :: post)) =
      .ok (some (pack (litOpt pre ++ [.ref [.lit path]] ++ litOpt post))) := by
  apply parse_ok_of (n := 9) (containsMarker_open pre _)
  have hX : items 8 ('$' :: '{' :: (path ++ '}' :: post)) =
      .ok (.ref [.lit path] :: litOpt post, []) := by
    rw [items_ref (n := 7) (reference_simple (n := 3) hne hpath), items_tail (n := 4) hpost]
    rfl
  by_cases h1 : pre = []
  · subst h1
    have hX' : items 9 ('$' :: '{' :: (path ++ '}' :: post)) =
        .ok (.ref [.lit path] :: litOpt post, []) := by
      rw [← hX]; exact items_mono (by rw [hX]; simp)
    rw [List.nil_append, parseRefF_of_items hX' (by simp)]
    by_cases h2 : post = []
    · subst h2; rfl
    · simp [litOpt, h2, coalesce]
  · have hI : items 9 (pre ++ '$' :: '{' :: (path ++ '}' :: post)) =
        .ok (.lit pre :: .ref [.lit path] :: litOpt post, []) := by
      rw [items_run (n := 7) h1 hpre (contentStep_open _), hX]; rfl
    rw [parseRefF_of_items hI (by simp)]
    by_cases h2 : post = []
    · subst h2; simp [litOpt, h1, coalesce]
    · simp [litOpt, h1, h2, coalesce]

/-- The bare reference `${path}` parses to `Ref [Literal path]`. -/
theorem bare_ref_accepted (path : Str)
    (hpath : ∀ c ∈ path, c ≠ '$' ∧ c ≠ '\\' ∧ c ≠ '}') (hne : path ≠ []) :
    Token.parse ('$' :: '{' :: (path ++ ['}'])) = .ok (some (.ref [.lit path])) := by
  have := simple_ref_accepted [] path [] (by simp) hpath hne (by simp)
  simpa [litOpt, pack] using this

/-- With text on both sides the result is `Combined [Literal pre, Ref [Literal path],
Literal post]`. -/
theorem embedded_ref_accepted (pre path post : Str)
    (hpre : ∀ c ∈ pre, c ≠ '$' ∧ c ≠ '\\') (hpre' : pre ≠ [])
    (hpath : ∀ c ∈ path, c ≠ '$' ∧ c ≠ '\\' ∧ c ≠ '}') (hne : path ≠ [])
    (hpost : ∀ c ∈ post, c ≠ '$' ∧ c ≠ '\\') (hpost' : post ≠ []) :
    Token.parse (pre ++ '$' :: '{' :: (path ++ '}' :: post)) =
      .ok (some (.combined [.lit pre, .ref [.lit path], .lit post])) := by
  have := simple_ref_accepted pre path post hpre hpath hne hpost
  simpa [litOpt, pack, hpre', hpost'] using this

/-! ### 5. Escaped markers are literal text -/

/-- On the *reversed* text before a position: the character just before is a backslash and
the one before that (if any) is not. -/
def escTail (rp : Str) : Bool := rp.head? == some '\\' && rp.tail.head? != some '\\'

/-- Is a `${` placed right after `pre` escaped, i.e. does `pre` end in exactly… a backslash
that is not itself preceded by a backslash? -/
def escapedBy (pre : Str) : Bool := escTail pre.reverse

/-- Position `i` of `s` is an *unescaped* reference opening: `${` starts there and it is not
the case that (char `i-1` is `\` and (`i < 2` or char `i-2` is not `\`)). -/
def unescapedOpenAt (s : Str) (i : Nat) : Bool :=
  startsWith (s.drop i) ['$', '{'] && !escapedBy (s.take i)

/-- What the grammar makes of a string all of whose `${` are escaped: a left-to-right scan,
"at item start" (`true`) initially and after each escape.
* `\${` ↦ `${` and `\$[` ↦ `$[` (anywhere), back to item start;
* only at item start, `\\}` ↦ `\}` (the `double_escape` alternative of `string` fires only
  as the first thing of an item; in the middle of a `content` run `\\}` is copied as is);
* every other character is copied and leaves item-start mode.
(`\\${` never occurs in such strings: its `${` would be unescaped.) -/
def unescapeFrom : Bool → Str → Str
  | _, [] => []
  | _, '\\' :: '$' :: '{' :: r => '$' :: '{' :: unescapeFrom true r
  | _, '\\' :: '$' :: '[' :: r => '$' :: '[' :: unescapeFrom true r
  | true, '\\' :: '\\' :: '}' :: r => '\\' :: '}' :: unescapeFrom false r
  | _, c :: r => c :: unescapeFrom false r

/-- `unescapeFrom` started at item start: the text a string with only escaped markers stands for. -/
def unescape (s : Str) : Str := unescapeFrom true s

/-- `\${` ↦ `${` in either mode. -/
theorem unescapeFrom_refEsc (b : Bool) (r : Str) :
    unescapeFrom b ('\\' :: '$' :: '{' :: r) = '$' :: '{' :: unescapeFrom true r := by
  cases b <;> simp [unescapeFrom]

/-- `\$[` ↦ `$[` in either mode. -/
theorem unescapeFrom_invEsc (b : Bool) (r : Str) :
    unescapeFrom b ('\\' :: '$' :: '[' :: r) = '$' :: '[' :: unescapeFrom true r := by
  cases b <;> simp [unescapeFrom]

/-- `\\}` ↦ `\}` at item start. -/
theorem unescapeFrom_dbl (r : Str) :
    unescapeFrom true ('\\' :: '\\' :: '}' :: r) = '\\' :: '}' :: unescapeFrom false r := by
  simp [unescapeFrom]

/-- Any character that starts none of the escapes is copied. -/
theorem unescapeFrom_copy (b : Bool) (c : Char) (r : Str)
    (h1 : startsWith (c :: r) ['\\', '$', '{'] = false)
    (h2 : startsWith (c :: r) ['\\', '$', '['] = false)
    (h3 : b = true → startsWith (c :: r) ['\\', '\\', '}'] = false) :
    unescapeFrom b (c :: r) = c :: unescapeFrom false r := by
  conv => lhs; unfold unescapeFrom
  split
  · rename_i heq; cases heq
  · rename_i heq; cases heq; simp [startsWith] at h1
  · rename_i heq; cases heq; simp [startsWith] at h2
  · rename_i heq; cases heq; simp [startsWith] at h3
  · rename_i heq; cases heq; rfl

/-- The running form of "no unescaped `${` from here on", given the reversed text before. -/
def escOk (rp : Str) : Str → Bool
  | [] => true
  | c :: cs => (!startsWith (c :: cs) ['$', '{'] || escTail rp) && escOk (c :: rp) cs

/-- The positional hypothesis implies the running one, from any split point. -/
theorem escOk_of_noOpen_aux : ∀ (suf pre : Str),
    (∀ i, unescapedOpenAt (pre ++ suf) i = false) → escOk pre.reverse suf = true
  | [], _, _ => rfl
  | c :: cs, pre, h => by
    have h0 := h pre.length
    simp only [unescapedOpenAt, List.drop_left, List.take_left, escapedBy] at h0
    have ih := escOk_of_noOpen_aux cs (pre ++ [c]) (by simpa using h)
    simp only [List.reverse_append, List.reverse_cons, List.reverse_nil, List.nil_append,
      List.singleton_append] at ih
    simp only [escOk, ih, Bool.and_true]
    cases hs : startsWith (c :: cs) ['$', '{'] with
    | false => rfl
    | true => rw [hs] at h0; simpa using h0

/-- No unescaped opening at any position ⇒ `escOk` from the start. -/
theorem escOk_of_noOpen {s : Str} (h : ∀ i, unescapedOpenAt s i = false) : escOk [] s = true :=
  escOk_of_noOpen_aux s [] h

/-- After text that does not escape, no `${` may start. -/
theorem escOk_not_open {rp i : Str} (h : escOk rp i = true) (hrp : escTail rp = false) :
    startsWith i ['$', '{'] = false := by
  cases i with
  | nil => rfl
  | cons c cs =>
    simp only [escOk, hrp, Bool.or_false, Bool.and_eq_true, Bool.not_eq_true'] at h
    exact h.1

/-- `escOk` moves along the string. -/
theorem escOk_tail {rp : Str} {c : Char} {cs : Str} (h : escOk rp (c :: cs) = true) :
    escOk (c :: rp) cs = true := by
  simp only [escOk, Bool.and_eq_true] at h
  exact h.2

/-- `\\${` cannot occur: its `${` would be unescaped. -/
theorem escOk_no_dbl {rp i : Str} (h : escOk rp i = true) :
    startsWith i ['\\', '\\', '$', '{'] = false := by
  cases hb : startsWith i ['\\', '\\', '$', '{'] with
  | false => rfl
  | true =>
    obtain ⟨r, hr⟩ := (startsWith_iff_prefix _ _).1 hb
    subst hr
    have h2 := escOk_tail (escOk_tail h)
    have := escOk_not_open h2 (by simp [escTail])
    simp [startsWith] at this

/-- In a string without unescaped `${`, the position after a character that did not start
`\${` is not a `${`. -/
theorem next_not_open {rp : Str} {c : Char} {r : Str} (h : escOk rp (c :: r) = true)
    (hc : startsWith (c :: r) ['\\', '$', '{'] = false) : startsWith r ['$', '{'] = false := by
  cases hb : startsWith r ['$', '{'] with
  | false => rfl
  | true =>
    have h1 := escOk_tail h
    obtain ⟨x, hx⟩ := (startsWith_iff_prefix _ _).1 hb
    subst hx
    simp only [List.cons_append, List.nil_append] at h1 hc
    simp only [escOk, Bool.and_eq_true, Bool.or_eq_true, Bool.not_eq_true'] at h1
    rcases h1.1 with h2 | h2
    · simp [startsWith] at h2
    · have : c = '\\' := by
        simp only [escTail, List.head?_cons, Bool.and_eq_true, beq_iff_eq, Option.some.injEq] at h2
        exact h2.1
      subst this
      simp [startsWith] at hc

/-- Where a `content` run may stop in such a string. -/
def StopAt (i : Str) : Prop :=
  i = [] ∨ startsWith i ['\\', '$', '{'] = true ∨ startsWith i ['\\', '$', '['] = true

/-- A stopping point is not a `${`. -/
theorem StopAt.not_open {i : Str} (h : StopAt i) : startsWith i ['$', '{'] = false := by
  rcases h with h | h | h
  · subst h; rfl
  · obtain ⟨r, hr⟩ := (startsWith_iff_prefix _ _).1 h; subst hr; rfl
  · obtain ⟨r, hr⟩ := (startsWith_iff_prefix _ _).1 h; subst hr; rfl

/-- At a stopping point the mode of `unescapeFrom` does not matter. -/
theorem StopAt.unescape_irrel {i : Str} (h : StopAt i) (b b' : Bool) :
    unescapeFrom b i = unescapeFrom b' i := by
  rcases h with h | h | h
  · subst h; cases b <;> cases b' <;> rfl
  · obtain ⟨r, hr⟩ := (startsWith_iff_prefix _ _).1 h; subst hr
    simp only [List.cons_append, List.nil_append]
    rw [unescapeFrom_refEsc, unescapeFrom_refEsc]
  · obtain ⟨r, hr⟩ := (startsWith_iff_prefix _ _).1 h; subst hr
    simp only [List.cons_append, List.nil_append]
    rw [unescapeFrom_invEsc, unescapeFrom_invEsc]

/-- Where `ref_not_open` fails in such a string, an escape starts. -/
theorem refNotOpen_false_stop {rp i : Str} (h : escOk rp i = true)
    (ho : startsWith i ['$', '{'] = false) (hn : refNotOpen i = false) : StopAt i := by
  have hd := escOk_no_dbl h
  simp only [refNotOpen, ho, hd, Bool.not_false, Bool.true_and, Bool.and_true] at hn
  cases h1 : startsWith i ['\\', '$', '{'] with
  | true => exact Or.inr (Or.inl h1)
  | false =>
    cases h2 : startsWith i ['\\', '$', '['] with
    | true => exact Or.inr (Or.inr h2)
    | false => simp [h1, h2] at hn

/-- A `content` run inside a string without unescaped `${`: it copies exactly what it
consumes, stops at the end or at an escape, and agrees with `unescapeFrom false`. -/
theorem content_esc : ∀ (r rp : Str), escOk rp r = true → startsWith r ['$', '{'] = false →
    r = (content r).1 ++ (content r).2 ∧
    escOk ((content r).1.reverse ++ rp) (content r).2 = true ∧
    StopAt (content r).2 ∧
    unescapeFrom false r = (content r).1 ++ unescapeFrom false (content r).2
  | [], rp, _, _ => by
    have : content [] = ([], []) := rfl
    rw [this]
    exact ⟨rfl, rfl, Or.inl rfl, rfl⟩
  | c :: r, rp, h, ho => by
    rw [content_cons]
    by_cases hn : refNotOpen (c :: r) = true
    · simp only [hn, if_true]
      have hn' := hn
      simp only [refNotOpen, Bool.and_eq_true, Bool.not_eq_true'] at hn'
      obtain ⟨⟨⟨_, h1⟩, _⟩, h2⟩ := hn'
      obtain ⟨e1, e2, e3, e4⟩ := content_esc r (c :: rp) (escOk_tail h) (next_not_open h h1)
      refine ⟨?_, ?_, e3, ?_⟩
      · rw [List.cons_append, ← e1]
      · simpa using e2
      · rw [unescapeFrom_copy false c r h1 h2 (by simp), e4]; rfl
    · have hn' : refNotOpen (c :: r) = false := by simpa using hn
      simp only [hn', Bool.false_eq_true, if_false]
      refine ⟨rfl, h, refNotOpen_false_stop h ho hn', rfl⟩

/-- `content` leaves no more than it got. -/
theorem content_length_le (r : Str) : (content r).2.length ≤ r.length :=
  scan_length_le _ _ _

/-- The item loop on a string without unescaped `${`: only literals, whose concatenation is
`unescapeFrom true`. -/
theorem items_esc : ∀ (n : Nat) (i rp : Str), i.length + 2 ≤ n → escOk rp i = true →
    startsWith i ['$', '{'] = false →
    ∃ ls : List Str, items n i = .ok (ls.map Token.lit, []) ∧
      ls.flatten = unescapeFrom true i ∧ (i ≠ [] → ls ≠ []) := by
  intro n
  induction n with
  | zero => intro i _ h; omega
  | succ n ih =>
    intro i rp hl h ho
    cases i with
    | nil =>
      match n, hl with
      | m + 1, _ => exact ⟨[], items_nil, rfl, fun h => absurd rfl h⟩
    | cons c r =>
      simp only [List.length_cons] at hl
      have hr : reference n (c :: r) = .error .fail := by
        match n, hl with
        | m + 1, _ => exact reference_not_open ho
      cases hd : doubleEscape (c :: r) with
      | some p =>
        obtain ⟨s, rest⟩ := p
        obtain ⟨hi, hs, hnext⟩ := doubleEscape_some hd
        subst hs
        simp only [List.cons.injEq] at hi
        obtain ⟨hc, hr'⟩ := hi
        subst hc hr'
        have hclose : startsWith rest ['}'] = true := by
          rcases hnext with hx | hx
          · have := escOk_no_dbl h
            obtain ⟨x, hx'⟩ := (startsWith_iff_prefix _ _).1 hx
            subst hx'
            simp [startsWith] at this
          · exact hx
        obtain ⟨r', hr'⟩ := (startsWith_iff_prefix _ _).1 hclose
        subst hr'
        simp only [List.cons_append, List.nil_append, List.length_cons] at hl h hd hr ho ⊢
        obtain ⟨ls, e1, e2, _⟩ := ih ('}' :: r') ('\\' :: '\\' :: rp) (by simp only [List.length_cons]; omega)
          (escOk_tail (escOk_tail h)) (by simp [startsWith])
        refine ⟨['\\'] :: ls, ?_, ?_, by simp⟩
        · rw [items_str hr (stringP_of_doubleEscape hd), e1]; rfl
        · rw [List.flatten_cons, e2, unescapeFrom_dbl,
            unescapeFrom_copy true '}' r' (by simp [startsWith]) (by simp [startsWith])
              (by simp [startsWith])]
          rfl
      | none =>
        cases h1 : refEscapeOpen (c :: r) with
        | some p =>
          obtain ⟨s, rest⟩ := p
          obtain ⟨hi, hs⟩ := refEscapeOpen_some h1
          subst hs
          simp only [List.cons.injEq] at hi
          obtain ⟨hc, hr'⟩ := hi
          subst hc hr'
          simp only [List.length_cons] at hl
          have h3 := escOk_tail (escOk_tail (escOk_tail h))
          obtain ⟨ls, e1, e2, _⟩ := ih rest ('{' :: '$' :: '\\' :: rp) (by omega) h3
            (escOk_not_open h3 (by simp [escTail]))
          refine ⟨['$', '{'] :: ls, ?_, ?_, by simp⟩
          · rw [items_str hr (stringP_of_refEscapeOpen hd h1), e1]; rfl
          · rw [List.flatten_cons, e2, unescapeFrom_refEsc]; rfl
        | none =>
          cases h2 : invEscapeOpen (c :: r) with
          | some p =>
            obtain ⟨s, rest⟩ := p
            obtain ⟨hi, hs⟩ := invEscapeOpen_some h2
            subst hs
            simp only [List.cons.injEq] at hi
            obtain ⟨hc, hr'⟩ := hi
            subst hc hr'
            simp only [List.length_cons] at hl
            have h3 := escOk_tail (escOk_tail (escOk_tail h))
            obtain ⟨ls, e1, e2, _⟩ := ih rest ('[' :: '$' :: '\\' :: rp) (by omega) h3
              (escOk_not_open h3 (by simp [escTail]))
            refine ⟨['$', '['] :: ls, ?_, ?_, by simp⟩
            · rw [items_str hr (stringP_of_invEscapeOpen hd h1 h2), e1]; rfl
            · rw [List.flatten_cons, e2, unescapeFrom_invEsc]; rfl
          | none =>
            have n1 := refEscapeOpen_eq_none h1
            have n2 := invEscapeOpen_eq_none h2
            have n3 := (doubleEscape_eq_none hd).1
            have hno : refNotOpen (c :: r) = true := by
              simp [refNotOpen, ho, n1, n2, escOk_no_dbl h]
            obtain ⟨c1, c2, c3, c4⟩ := content_esc r (c :: rp) (escOk_tail h) (next_not_open h n1)
            have hlen := content_length_le r
            obtain ⟨ls, e1, e2, _⟩ := ih (content r).2 ((content r).1.reverse ++ c :: rp)
              (by omega) c2 c3.not_open
            refine ⟨(c :: (content r).1) :: ls, ?_, ?_, by simp⟩
            · rw [items_str hr (stringP_of_content hd h1 h2 hno), e1]; rfl
            · rw [List.flatten_cons, e2, unescapeFrom_copy true c r n1 n2 (fun _ => n3), c4,
                c3.unescape_irrel true false]
              rfl

/-- **Escaped markers are literal text.**  If a string contains a marker (`${` or `$[`) but
every `${` in it is escaped — preceded by a backslash that is not itself preceded by a
backslash — then `Token::parse` accepts it and the result is the single literal
`unescape s`: no reference is ever produced.  (`$[` needs no escape; `\$[` loses its
backslash.) -/
theorem escaped_only_literal (s : Str) (hm : containsMarker s = true)
    (h : ∀ i, unescapedOpenAt s i = false) :
    Token.parse s = .ok (some (.lit (unescape s))) := by
  have hok := escOk_of_noOpen h
  have ho := escOk_not_open hok (by simp [escTail])
  obtain ⟨ls, e1, e2, e3⟩ := items_esc (s.length + 2) s [] (Nat.le_refl _) hok ho
  have hne : s ≠ [] := by intro h0; subst h0; simp [containsMarker] at hm
  have hls := e3 hne
  apply parse_ok_of hm (n := s.length + 2)
  rw [parseRefF_of_items e1 (by simpa using hls), coalesce_lits ls hls, e2]
  rfl

/-- … and so it renders as that literal text, whatever the parameters. -/
theorem escaped_only_renders_literal (n : Nat) (root : Mapping) (st : RState) (s : Str)
    (hm : containsMarker s = true) (h : ∀ i, unescapedOpenAt s i = false) :
    interp (n + 3) root (.str s) st = .ok (.lit (unescape s), st) := by
  simp [interp, escaped_only_literal s hm h, tokRender, tokResolve, rawString]

/-! ### 5b. Escapes next to live references -/

/-- **`\}` inside a reference is a literal `}`**: `${a\}b}` is the reference with the single
path literal `a}b` — the escaped brace neither closes the reference nor survives as `\}`. -/
theorem escaped_close_in_ref (a b : Str)
    (ha : ∀ c ∈ a, c ≠ '$' ∧ c ≠ '\\' ∧ c ≠ '}') (hb : ∀ c ∈ b, c ≠ '$' ∧ c ≠ '\\' ∧ c ≠ '}') :
    Token.parse ('$' :: '{' :: (a ++ '\\' :: '}' :: (b ++ ['}']))) =
      .ok (some (.ref [.lit (a ++ '}' :: b)])) := by
  apply parse_ok_of (n := 6) (containsMarker_open [] _)
  have hi : items 6 ('$' :: '{' :: (a ++ '\\' :: '}' :: (b ++ ['}']))) =
      .ok ([.ref [.lit (a ++ '}' :: b)]], []) := by
    rw [items_ref (reference_escClose (n := 1) ha hb), items_nil]; rfl
  rw [List.nil_append, parseRefF_of_items hi (by simp)]; rfl

/-- **`\\` before `${` is one literal backslash and does *not* escape the reference**:
`pre\\${path}` is `Combined [Literal (pre ++ "\"), Ref [Literal path]]`. -/
theorem double_backslash_before_ref (pre path : Str)
    (hpre : ∀ c ∈ pre, c ≠ '$' ∧ c ≠ '\\')
    (hpath : ∀ c ∈ path, c ≠ '$' ∧ c ≠ '\\' ∧ c ≠ '}') (hne : path ≠ []) :
    Token.parse (pre ++ '\\' :: '\\' :: '$' :: '{' :: (path ++ ['}'])) =
      .ok (some (.combined [.lit (pre ++ ['\\']), .ref [.lit path]])) := by
  have hm : containsMarker (pre ++ '\\' :: '\\' :: '$' :: '{' :: (path ++ ['}'])) = true := by
    have := containsMarker_open (pre ++ ['\\', '\\']) (path ++ ['}'])
    simpa using this
  apply parse_ok_of (n := 9) hm
  have h7 : items 7 ('$' :: '{' :: (path ++ ['}'])) = .ok ([.ref [.lit path]], []) := by
    rw [items_ref (reference_simple (n := 2) hne hpath), items_nil]; rfl
  have h8 : items 8 ('\\' :: '\\' :: '$' :: '{' :: (path ++ ['}'])) =
      .ok ([.lit ['\\'], .ref [.lit path]], []) := by
    rw [items_dblEsc, h7]; rfl
  by_cases h1 : pre = []
  · subst h1
    have h9 : items 9 ('\\' :: '\\' :: '$' :: '{' :: (path ++ ['}'])) =
        .ok ([.lit ['\\'], .ref [.lit path]], []) := by
      rw [← h8]; exact items_mono (by rw [h8]; simp)
    rw [List.nil_append, parseRefF_of_items h9 (by simp)]
    simp [coalesce, pack]
  · have h9 : items 9 (pre ++ '\\' :: '\\' :: '$' :: '{' :: (path ++ ['}'])) =
        .ok ([.lit pre, .lit ['\\'], .ref [.lit path]], []) := by
      rw [items_run (n := 7) h1 hpre (contentStep_dblEsc _), h8]; rfl
    rw [parseRefF_of_items h9 (by simp)]
    simp [coalesce, pack]

/-! ### 8. Round trip: printing a well-formed token tree and parsing it back -/

mutual
/-- The obvious concrete syntax of a token tree (no escapes are needed when the literal
text is free of `$`, `\`, `}`). -/
def encode : Token → Str
  | .lit s => s
  | .ref ps => '$' :: '{' :: (encodeL ps ++ ['}'])
  | .combined ps => encodeL ps
/-- Concrete syntax of a token list: concatenation. -/
def encodeL : List Token → Str
  | [] => []
  | t :: ts => encode t ++ encodeL ts
end

/-- A character that needs no escaping anywhere: not `$`, `\` or `}`. -/
def plainChar (c : Char) : Bool := c != '$' && c != '\\' && c != '}'

mutual
/-- All literal text in the tree consists of `plainChar`s. -/
def plainTok : Token → Bool
  | .lit s => s.all plainChar
  | .ref ps => plainToks ps
  | .combined ps => plainToks ps
/-- `plainTok` for every token of a list. -/
def plainToks : List Token → Bool
  | [] => true
  | t :: ts => plainTok t && plainToks ts
end

/-- `all plainChar` spelled out. -/
theorem plain_of_all {s : Str} (h : s.all plainChar = true) :
    ∀ c ∈ s, c ≠ '$' ∧ c ≠ '\\' ∧ c ≠ '}' := by
  intro c hc
  have := List.all_eq_true.1 h c hc
  simp only [plainChar, Bool.and_eq_true, bne_iff_ne, ne_eq] at this
  exact ⟨this.1.1, this.1.2, this.2⟩

/-- What follows a literal in a list without adjacent literals: nothing, or a `${`. -/
theorem after_lit {ps : List Token} (hw : Token.wfInnerL ps = true)
    (hh : headIsLit ps = false) : encodeL ps = [] ∨ ∃ r, encodeL ps = '$' :: '{' :: r := by
  cases ps with
  | nil => left; rfl
  | cons t ts =>
    right
    cases t with
    | lit a => simp [headIsLit, Token.isLit] at hh
    | ref q => exact ⟨_, by simp [encodeL, encode]; rfl⟩
    | combined q => simp [Token.wfInnerL, Token.wfInner] at hw

/-- Round trip below the top level: the `ref_item` loop reads back a printed part list up
to the closing `}`, and `reference` reads back a printed reference, at any adequate fuel. -/
theorem roundtrip_aux : ∀ n,
    (∀ ps rest, Token.wfInnerL ps = true → noAdjLit ps = true → plainToks ps = true →
      (encodeL ps ++ '}' :: rest).length + 2 ≤ n →
      refItems n (encodeL ps ++ '}' :: rest) = .ok (ps, '}' :: rest)) ∧
    (∀ q rest, (Token.ref q).wfInner = true → plainToks q = true →
      (encodeL q ++ '}' :: rest).length + 3 ≤ n →
      reference n ('$' :: '{' :: (encodeL q ++ '}' :: rest)) = .ok (.ref q, rest)) := by
  intro n
  induction n with
  | zero => refine ⟨?_, ?_⟩ <;> intros <;> omega
  | succ n ih =>
    obtain ⟨ihA, ihB⟩ := ih
    refine ⟨?_, ?_⟩
    · intro ps rest hw ha hp hl
      cases ps with
      | nil =>
        simp only [encodeL, List.nil_append, List.length_cons] at hl ⊢
        match n, hl with
        | m + 1, _ => exact refItems_close rest
      | cons t ts =>
        simp only [Token.wfInnerL, Bool.and_eq_true] at hw
        simp only [noAdjLit, Bool.and_eq_true, Bool.not_eq_true'] at ha
        simp only [plainToks, Bool.and_eq_true] at hp
        cases t with
        | lit a =>
          simp only [Token.isLit, Bool.true_and] at ha
          have hane : a ≠ [] := by
            intro h0; subst h0; simp [Token.wfInner] at hw
          have hstop : refStringStep (encodeL ts ++ '}' :: rest) = none := by
            rcases after_lit hw.2 ha.1 with h0 | ⟨r, h0⟩ <;> rw [h0]
            · exact refStringStep_close rest
            · exact refStringStep_open _
          simp only [encodeL, encode, List.append_assoc, List.length_append] at hl ⊢
          have hlen : 0 < a.length := List.length_pos_iff.2 hane
          match n, hl with
          | m + 1, hl =>
            rw [refItems_run hane (plain_of_all hp.1) hstop,
              ihA ts rest hw.2 ha.2 hp.2 (by simp only [List.length_append]; omega)]
            rfl
        | ref q =>
          simp only [encodeL, encode, List.cons_append, List.append_assoc, List.nil_append,
            List.length_cons, List.length_append] at hl ⊢
          have hB := ihB q (encodeL ts ++ '}' :: rest) hw.1 hp.1
            (by simp only [List.length_append, List.length_cons]; omega)
          rw [refItems_ref hB,
            ihA ts rest hw.2 ha.2 hp.2 (by simp only [List.length_append, List.length_cons]; omega)]
          rfl
        | combined q => simp [Token.wfInner] at hw
    · intro q rest hw hp hl
      simp only [Token.wfInner, Bool.and_eq_true] at hw
      obtain ⟨⟨h1, h2⟩, h3⟩ := hw
      have hne : q ≠ [] := by intro h0; subst h0; simp at h1
      have hA := ihA q rest h3 h2 hp (by omega)
      rw [reference_of_refItems hA hne, coalesce_of_noAdjLit q h2]

/-- `reference` reads back a printed well-formed reference and leaves what follows. -/
theorem reference_roundtrip {n : Nat} {q : List Token} {rest : Str}
    (hw : (Token.ref q).wfInner = true) (hp : plainToks q = true)
    (hl : (encodeL q ++ '}' :: rest).length + 3 ≤ n) :
    reference n ('$' :: '{' :: (encodeL q ++ '}' :: rest)) = .ok (.ref q, rest) :=
  (roundtrip_aux n).2 q rest hw hp hl

/-- The top-level `item` loop reads back a printed well-formed token list. -/
theorem items_roundtrip : ∀ (n : Nat) (ps : List Token), Token.wfInnerL ps = true →
    noAdjLit ps = true → plainToks ps = true → (encodeL ps).length + 2 ≤ n →
    items n (encodeL ps) = .ok (ps, []) := by
  intro n
  induction n with
  | zero => intros; omega
  | succ n ih =>
    intro ps hw ha hp hl
    cases ps with
    | nil =>
      simp only [encodeL, List.length_nil] at hl ⊢
      match n, hl with
      | m + 1, _ => exact items_nil
    | cons t ts =>
      simp only [Token.wfInnerL, Bool.and_eq_true] at hw
      simp only [noAdjLit, Bool.and_eq_true, Bool.not_eq_true'] at ha
      simp only [plainToks, Bool.and_eq_true] at hp
      cases t with
      | lit a =>
        simp only [Token.isLit, Bool.true_and] at ha
        have hane : a ≠ [] := by
          intro h0; subst h0; simp [Token.wfInner] at hw
        have hstop : contentStep (encodeL ts) = none := by
          rcases after_lit hw.2 ha.1 with h0 | ⟨r, h0⟩ <;> rw [h0]
          · exact contentStep_nil
          · exact contentStep_open _
        simp only [encodeL, encode, List.length_append] at hl ⊢
        have hlen : 0 < a.length := List.length_pos_iff.2 hane
        have hpa := plain_of_all hp.1
        match n, hl with
        | m + 1, hl =>
          rw [items_run hane (fun c hc => ⟨(hpa c hc).1, (hpa c hc).2.1⟩) hstop,
            ih ts hw.2 ha.2 hp.2 (by omega)]
          rfl
      | ref q =>
        simp only [encodeL, encode, List.cons_append, List.append_assoc, List.nil_append,
          List.length_cons, List.length_append] at hl ⊢
        have hB := reference_roundtrip (n := n) (rest := encodeL ts) hw.1 hp.1
          (by simp only [List.length_append, List.length_cons]; omega)
        rw [items_ref hB, ih ts hw.2 ha.2 hp.2 (by omega)]
        rfl
      | combined q => simp [Token.wfInner] at hw

/-- **Round trip.**  Every well-formed token tree (`Token.wfTop`: the shape invariant that
`parse_wf` shows all parse results have) whose literal text avoids `$`, `\`, `}` is the
parse of its own concrete syntax, at any fuel `≥ length + 2`.  In particular arbitrarily
deeply nested references such as `${a${b}}` are accepted with the expected structure. -/
theorem roundtrip (t : Token) (hw : t.wfTop = true) (hp : plainTok t = true) (n : Nat)
    (hn : (encode t).length + 2 ≤ n) : parseRefF n (encode t) = .ok t := by
  cases t with
  | lit a =>
    have h := items_roundtrip n [.lit a] (by simpa [Token.wfInnerL, Token.wfTop] using hw) rfl
      (by simpa [plainToks, plainTok] using hp) (by simpa [encodeL, encode] using hn)
    simp only [encodeL, encode, List.append_nil] at h
    rw [encode, parseRefF_of_items h (by simp)]
    rfl
  | ref q =>
    have h := items_roundtrip n [.ref q] (by simpa [Token.wfInnerL, Token.wfTop] using hw) rfl
      (by simpa [plainToks, plainTok] using hp) (by simpa [encodeL, encode] using hn)
    simp only [encodeL, List.append_nil] at h
    rw [parseRefF_of_items h (by simp)]
    rfl
  | combined ps =>
    simp only [Token.wfTop, Bool.and_eq_true, decide_eq_true_eq] at hw
    obtain ⟨⟨h1, h2⟩, h3⟩ := hw
    have h := items_roundtrip n ps h3 h2 (by simpa [plainTok] using hp)
      (by simpa [encode] using hn)
    have hne : ps ≠ [] := by intro h0; subst h0; simp at h1
    rw [encode, parseRefF_of_items h hne, coalesce_of_noAdjLit ps h2]
    match ps, h1 with
    | a :: b :: r, _ => rfl

/-- Round trip through `Token::parse` (which only runs the grammar when a marker is
present; a plain tree has one exactly when it is not a bare literal). -/
theorem roundtrip_parse (t : Token) (hw : t.wfTop = true) (hp : plainTok t = true)
    (hm : containsMarker (encode t) = true) : Token.parse (encode t) = .ok (some t) :=
  parse_ok_of hm (roundtrip t hw hp _ (Nat.le_refl _))

/-! ### Non-vacuity and concrete instances

(`"\\"` is one backslash in Lean string syntax.) -/

/-- Beyond the end of the string nothing opens, so `∀ i` can be checked up to the length. -/
theorem noOpen_of_bounded {s : Str} (h : ∀ i, i < s.length → unescapedOpenAt s i = false) :
    ∀ i, unescapedOpenAt s i = false := by
  intro i
  by_cases hi : i < s.length
  · exact h i hi
  · have : s.drop i = [] := List.drop_eq_nil_of_le (by omega)
    simp [unescapedOpenAt, this, startsWith]

-- 1. no marker
example : Token.parse "plain $ text { } \\ here".toList = .ok none :=
  no_marker_parse_none _ (by decide)
example : containsMarker "a$[b".toList = true ∧ containsMarker "a${b".toList = true ∧
    containsMarker "a$b{".toList = false := by decide

-- 3. the fuel bound `length + 2` is attained by the empty string
example : items 1 [] = .error .fuel ∧ items 2 [] = .ok ([], []) := ⟨rfl, rfl⟩

-- 5. escapes (the three instances asked for, straight from the model)
example : Token.parse "\\${a}".toList = .ok (some (.lit "${a}".toList)) := by rfl
example : Token.parse "x\\$[a]".toList = .ok (some (.lit "x$[a]".toList)) := by rfl
example : Token.parse "\\\\${a}".toList =
    .ok (some (.combined [.lit "\\".toList, .ref [.lit "a".toList]])) := by rfl
-- which positions count as unescaped openings
example : unescapedOpenAt "\\${a}".toList 1 = false ∧ unescapedOpenAt "${a}".toList 0 = true ∧
    unescapedOpenAt "\\\\${a}".toList 2 = true ∧ unescapedOpenAt "x\\\\\\${a}".toList 4 = true := by
  decide
-- `unescape`: `\\}` loses a backslash only at item start
example : unescape "a\\${b}\\$[c]\\\\}".toList = "a${b}$[c]\\\\}".toList := by decide
example : unescape "\\\\}\\${b}\\\\}".toList = "\\}${b}\\\\}".toList := by decide
-- the general theorem applied
example : Token.parse "pass \\${foo} and \\$[bar]".toList =
    .ok (some (.lit "pass ${foo} and $[bar]".toList)) :=
  escaped_only_literal _ (by decide) (noOpen_of_bounded (by decide))
-- 5b
example : Token.parse "${foo\\}}".toList = .ok (some (.ref [.lit "foo}".toList])) :=
  escaped_close_in_ref "foo".toList [] (by decide) (by decide)
example : Token.parse "ab\\\\${foo}".toList =
    .ok (some (.combined [.lit "ab\\".toList, .ref [.lit "foo".toList]])) :=
  double_backslash_before_ref "ab".toList "foo".toList (by decide) (by decide) (by decide)

-- 6. malformed references
example : Token.parse "ab${cd".toList = .error (.parse "ab${cd".toList) :=
  unclosed_is_error "ab".toList "cd".toList (by decide) (by decide)
example : Token.parse "ab${}cd".toList = .error (.parse "ab${}cd".toList) :=
  empty_ref_is_error "ab".toList "cd".toList (by decide)
-- 4. shape: the result is never the empty reference, nor contains one
example (n : Nat) (s : Str) (t : Token) (h : parseRefF n s = .ok t) : t ≠ .ref [] :=
  fun h0 => ref_nonempty h (h0 ▸ Sub.refl _) rfl
example (n : Nat) (s : Str) (ps : List Token) (h : parseRefF n s = .ok (.ref ps))
    (q : List Token) (hq : Token.ref q ∈ ps) : q ≠ [] :=
  ref_nonempty h (Sub.inRef hq (Sub.refl _))
example : coalesce [.lit "a".toList, .lit "b".toList, .ref [.lit "c".toList], .lit "d".toList] =
    [.lit "ab".toList, .ref [.lit "c".toList], .lit "d".toList] := by rfl

-- 7. accepted references
example : Token.parse "${foo}".toList = .ok (some (.ref [.lit "foo".toList])) :=
  bare_ref_accepted "foo".toList (by decide) (by decide)
example : Token.parse "a-${foo:bar}-b".toList =
    .ok (some (.combined [.lit "a-".toList, .ref [.lit "foo:bar".toList], .lit "-b".toList])) :=
  embedded_ref_accepted "a-".toList "foo:bar".toList "-b".toList (by decide) (by decide)
    (by decide) (by decide) (by decide) (by decide)
example : Token.parse "foo}${bar}".toList =
    .ok (some (.combined [.lit "foo}".toList, .ref [.lit "bar".toList]])) :=
  simple_ref_accepted "foo}".toList "bar".toList [] (by decide) (by decide) (by decide) (by decide)

-- 8. nested references through the round trip
example : Token.parse "${foo:${bar:${baz}}}-${x}".toList =
    .ok (some (.combined [.ref [.lit "foo:".toList, .ref [.lit "bar:".toList, .ref [.lit "baz".toList]]],
      .lit "-".toList, .ref [.lit "x".toList]])) :=
  roundtrip_parse (.combined [.ref [.lit "foo:".toList, .ref [.lit "bar:".toList, .ref [.lit "baz".toList]]],
      .lit "-".toList, .ref [.lit "x".toList]]) (by decide) (by decide) (by decide)

end C06
end Reclass
