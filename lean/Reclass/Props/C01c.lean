/-
  C01c — An include entry acts only through the name it resolves to.

  "An include entry that contains references is resolved against the parameters merged from
  the classes that precede it and loads exactly the one class it resolves to" — and "merging
  each class the first time it is reached and never again" is decided on that *resolved* name.

  * `walk_entry_congr` — two entries that resolve to the same name (against the parameters
    accumulated so far) are interchangeable: the rest of the walk, the seen list, the merged
    root and the error are the same.  In particular the *spelling* of the entry (escaped,
    reference-bearing, plain) is never compared with anything.
  * `raw_spelling_in_seen_is_irrelevant` — an entry whose raw text happens to be in the seen
    list (a class literally named `${x}` was loaded before) but which resolves to an unseen
    class `c` loads `c`.
  * `resolved_in_seen_is_skipped` — conversely an entry whose raw text was never seen is skipped
    when the name it resolves to was.
  * `escaped_entry_names_literal_class` — an entry all of whose `${` are escaped (`\${x}`)
    resolves, whatever the parameters, to its unescaped text (`${x}`): it names the class file
    literally called so and is never looked up as a reference.
  * `escaped_then_reference` — the combination: after `\${x}` loaded the class named `${x}`, a
    later genuine reference entry `${x}` is still resolved and loads what it resolves to.
-/
import Reclass.Props.C01
import Reclass.Props.C06
namespace Reclass
namespace C01c

/-- The walk uses an entry only through `resolveClassName`. -/
theorem walk_entry_congr (n : Nat) (r : Inv) (loc : Option (List Str)) (e e' : Str)
    (rest seen : List Str) (root : NodeM)
    (h : resolveClassName defaultFuel root.params e = resolveClassName defaultFuel root.params e') :
    walkClasses (n+1) r loc (e :: rest) seen root = walkClasses (n+1) r loc (e' :: rest) seen root := by
  rw [C01.entry_resolves_once, C01.entry_resolves_once, h]

/-- What decides "already merged" is the resolved name `c`, not the entry's text: with `c`
unseen and defined, the class is loaded and walked — also when the raw entry `e` itself is an
element of `seen`. -/
theorem raw_spelling_in_seen_is_irrelevant (n : Nat) (r : Inv) (loc : Option (List Str)) (e c : Str)
    (rest seen : List Str) (root : NodeM) (cn : NodeM)
    (_he : e ∈ seen)
    (hres : resolveClassName defaultFuel root.params e = .ok c) (hc : c ∉ seen)
    (hrd : readClass r loc c = .ok (some cn)) :
    walkClasses (n+1) r loc (e :: rest) seen root =
      match renderImpl n r cn (seen ++ [c]) root with
      | .error e => .error e
      | .ok (seen', root') => walkClasses n r loc rest seen' root' := by
  rw [C01.entry_resolves_once, hres]
  simp only [hc, if_false, hrd]
  cases renderImpl n r cn (seen ++ [c]) root <;> rfl

/-- An entry resolving to a seen name is skipped, whatever its own text. -/
theorem resolved_in_seen_is_skipped (n : Nat) (r : Inv) (loc : Option (List Str)) (e c : Str)
    (rest seen : List Str) (root : NodeM)
    (hres : resolveClassName defaultFuel root.params e = .ok c) (hc : c ∈ seen) :
    walkClasses (n+1) r loc (e :: rest) seen root = walkClasses n r loc rest seen root := by
  rw [C01.entry_resolves_once, hres]
  simp only [hc, if_true]

/-- An entry that contains `${`, all of them escaped, resolves to its unescaped text for any
parameters: `\${x}` names the class literally called `${x}`.  (An entry without any `${` is used
as written — `C01.entry_without_reference` — even if it contains `\$[`.) -/
theorem escaped_entry_names_literal_class (n : Nat) (params : Mapping) (s : Str)
    (hc : strContains s Extracted.classRefMarker.toList = true)
    (hm : containsMarker s = true) (h : ∀ i, C06.unescapedOpenAt s i = false) :
    resolveClassName (n + 2) params s = .ok (C06.unescape s) := by
  simp [resolveClassName, hc, C06.escaped_only_literal s hm h, tokRender, tokResolve, rawString]

/-- After the escaped entry `esc` loaded the class literally named `lit = unescape esc` (so
`lit` is in the seen list), a later entry `e` that is a genuine reference — even one whose text
is exactly `lit` — is still resolved against the accumulated parameters and loads the class `c`
it resolves to. -/
theorem escaped_then_reference (n : Nat) (r : Inv) (loc : Option (List Str)) (lit c : Str)
    (rest seen : List Str) (root : NodeM) (cn : NodeM)
    (hseen : lit ∈ seen)
    (hres : resolveClassName defaultFuel root.params lit = .ok c) (hc : c ∉ seen)
    (hrd : readClass r loc c = .ok (some cn)) :
    walkClasses (n+1) r loc (lit :: rest) seen root =
      match renderImpl n r cn (seen ++ [c]) root with
      | .error e => .error e
      | .ok (seen', root') => walkClasses n r loc rest seen' root' :=
  raw_spelling_in_seen_is_irrelevant n r loc lit c rest seen root cn hseen hres hc hrd

/-! ### Non-vacuity -/

private def esc : Str := ['\\', '$', '{', 'x', '}']   -- the text `\${x}`

example : strContains esc Extracted.classRefMarker.toList = true := by decide +kernel
example : containsMarker esc = true := by decide +kernel
example : C06.unescape esc = ['$', '{', 'x', '}'] := by decide +kernel

end C01c
end Reclass
