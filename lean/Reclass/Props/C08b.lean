/-
  C08 (second half) — "Acyclic references, including the same reference used many times,
  diamond-shaped sharing and chains shorter than the documented depth limit of 64, are never
  rejected as loops."

  Property theorems about the model functions `interp` (`Value::interpolate`), `tokResolve`
  (`Token::resolve`) and `renderParamsF` (`render_parameters`).  Helper lemmas and the 13-way
  inductions live in `Lemmas/StratL` (namespace `Reclass.Strat`).

  Vocabulary (all from `Lemmas/StratL`)
  * a *rank function* `rk : Str → Nat` on reference path texts (`"a"`, `"a:b:c"`), and a set
    `P` of *relevant* paths (those that can be the rendered path of some reference);
  * `Strat.RefsIn root rk P R v` — every reference occurring in an unparsed string anywhere in
    `v` (layers, list elements, mapping values, embedded pieces, pieces of a nested reference)
    renders to a relevant path of rank `< R`;
  * `Strat.ReachOK root rk P R segs v0` — what `Token::resolve` has to interpolate when it
    walks the segments `segs` into `v0`: raw mappings are only looked into (only the entry for
    the next segment counts), of a layer list only the `String` layers are interpolated before
    the flattened layers are looked into, a string on the way and the value finally reached
    count as a whole;
  * `Strat.Strat root rk P` — **stratified root**: for every relevant path `p = k0:segs`, the
    references met while resolving `p` have rank `< rk p`.  This is acyclicity of the
    "resolving `p` needs `q`" relation, witnessed by a rank;
  * `Strat.Ok rk R st` — the state has room for `R` more nested resolutions below the limit
    and every path it has seen has rank `≥ R`.

  Contents
  * `stratified_no_loop`            — MAIN: on a stratified root no call of `interpolate` on a
                                      value of rank `< R` from an `Ok` state is rejected as a
                                      loop or as too deep, for every fuel;
  * `stratified_result`             — the result is reference-free and the returned state gained
                                      only relevant paths of rank `< R`;
  * `stratified_render_no_loop`, `stratified_render_settles`
                                    — the same for `render_parameters`, ranks up to 64;
  * `diamond_no_loop`, `diamond_render_no_loop`
                                    — depth-1 reference graphs with arbitrary sharing/repetition;
  * `literal_ref_ok`, `nested_ref_ok` — references with literal path text satisfy the hypothesis
                                      syntactically; nested ones after one run of their path;
  * `checked_render_no_loop`, `checked_interp_no_loop`
                                    — the hypotheses are decidable against a finite rank table:
                                      Bool checkers + soundness;
  * `loop_needs_repeat`, `loop_origin`, `reported_loop_not_stratified`
                                    — a loop error needs a repeated path on one chain.
  * examples: diamonds, the same reference used many times (lists, maps, strings, layers),
    2-level sharing with nested paths and whole-container references, a chain of exactly 64
    resolutions (and 65 is a depth error, never a loop).

  Finding: no false-loop witness exists in the model for stratified roots; the candidate
  shapes (`t: ${m}` with `m: {a: ${x}, b: ${x}}`, `${m:a}` followed by the container's own
  interpolation) render fine, see the examples at the end.
-/
import Reclass.Lemmas.StratL
import Reclass.Props.C08
namespace Reclass
namespace C08
open Strat

/-- The outcome is neither the reference-loop error nor the depth-limit error. -/
def NoLoopNoDepth {α : Type} (x : R α) : Prop :=
  x ≠ .error .loop ∧ ∀ c, x ≠ .error (.depth c)

theorem noLoopNoDepth_of_res {α : Type} {Q : α → Prop} {x : R α} (h : Res Q x) :
    NoLoopNoDepth x := by
  cases x with
  | error e =>
    exact ⟨fun h' => h.1 (Except.error.inj h'), fun c h' => h.2 c (Except.error.inj h')⟩
  | ok a => exact ⟨by simp, by simp⟩

/-! ### The general theorem -/

/-- **No false loop on stratified roots.**  Let `rk` rank the reference paths so that resolving
any relevant path only ever needs paths of strictly smaller rank (`Strat root rk P`).  Then
interpolating a value all of whose references have rank `< R`, from a state that has room for
`R` more nested resolutions and has only seen paths of rank `≥ R` (in particular: from the
initial state, when `R ≤ 64`), is never rejected as a reference loop and never as too deep —
whatever the fuel, however often a reference is repeated, however the references share
targets.  (Other errors — missing keys, merge conflicts, … — remain possible.) -/
theorem stratified_no_loop {root : Mapping} {rk : Str → Nat} {P : Str → Prop}
    (hS : Strat root rk P) {R : Nat} {v : Value} {st : RState}
    (hv : RefsIn root rk P R v) (hok : Ok rk R st) (n : Nat) :
    NoLoopNoDepth (interp n root v st) :=
  noLoopNoDepth_of_res ((sInv hS n).interp R v st hv hok)

/-- Same as `stratified_no_loop` for `Token::resolve` on a single token. -/
theorem stratified_resolve_no_loop {root : Mapping} {rk : Str → Nat} {P : Str → Prop}
    (hS : Strat root rk P) {R : Nat} {t : Token} {st : RState}
    (ht : TokOK root rk P R t) (hok : Ok rk R st) (n : Nat) :
    NoLoopNoDepth (tokResolve n root t st) :=
  noLoopNoDepth_of_res ((sInv hS n).tokResolve R t st ht hok)

/-- **What comes back.**  Under the hypotheses of `stratified_no_loop`, a successful
interpolation returns a value without any reference left, and every path the returned state has
seen was either seen before or is a relevant path of rank `< R` (so the invariant "everything
seen has rank at least the rank bound of what is evaluated next" can be re-established by the
caller). -/
theorem stratified_result {root : Mapping} {rk : Str → Nat} {P : Str → Prop}
    (hS : Strat root rk P) {R : Nat} {v : Value} {st : RState}
    (hv : RefsIn root rk P R v) (hok : Ok rk R st) {n : Nat} {r : Value} {st' : RState}
    (h : interp n root v st = .ok (r, st')) :
    RefsIn root rk P 0 r ∧ ∀ q ∈ st'.seen, q ∈ st.seen ∨ (P q ∧ rk q < R) := by
  have := (sInv hS n).interp R v st hv hok
  rw [h] at this
  exact this

/-- The initial state is fine for every rank bound up to the depth limit. -/
theorem ok_initial (rk : Str → Nat) {R : Nat} (hR : R ≤ maxDepth) : Ok rk R {} :=
  ⟨Or.inr (by simpa using hR), fun _ h => by simp at h⟩

/-- **`render_parameters` on a stratified parameter set** whose references all have rank
`< R ≤ 64`: the outcome is never the loop error and never the depth error, for every fuel. -/
theorem stratified_render_no_loop {root : Mapping} {rk : Str → Nat} {P : Str → Prop}
    (hS : Strat root rk P) {R : Nat} (hR : R ≤ maxDepth)
    (hroot : RefsIn root rk P R root.toValue) (n : Nat) :
    NoLoopNoDepth (renderParamsF n root) := by
  unfold renderParamsF renderedF
  have h := (sInv hS n).interp R root.toValue {} hroot (ok_initial rk hR)
  cases h1 : interp n root root.toValue {} with
  | error e => rw [h1] at h; exact noLoopNoDepth_of_res (Q := fun _ : Mapping => True) h
  | ok p =>
    obtain ⟨v', st⟩ := p
    dsimp only
    cases h2 : flat v' st with
    | error e =>
      exact noLoopNoDepth_of_res (Q := fun _ : Mapping => True) (flat_notLD _ _ _ h2)
    | ok v'' => cases v'' <;> exact ⟨by simp, by simp⟩

/-- Rendering a stratified parameter set settles on one outcome for all sufficiently large
fuel, and that outcome is a mapping or an error other than loop / depth / fuel. -/
theorem stratified_render_settles {root : Mapping} {rk : Str → Nat} {P : Str → Prop}
    (hS : Strat root rk P) {R : Nat} (hR : R ≤ maxDepth)
    (hroot : RefsIn root rk P R root.toValue) :
    ∃ N r, r ≠ .error .fuel ∧ NoLoopNoDepth r ∧ ∀ n, N ≤ n → renderParamsF n root = r := by
  obtain ⟨N, r, hne, hall⟩ := renderParams_settles root
  refine ⟨N, r, hne, ?_, hall⟩
  rw [← hall N (Nat.le_refl _)]
  exact stratified_render_no_loop hS hR hroot N

/-! ### Depth-1 graphs: arbitrary sharing and repetition -/

/-- **Diamonds and repeated references.**  If no value stored under a top-level key of `root`
contains a reference (`RefsIn … 0`), then any value whose references are plain (`RefsIn … 1`:
literal path text or nested pieces that are themselves reference-free) — the same reference
repeated any number of times, in list elements, mapping values, layers, embedded in strings,
into the same or different keys, with or without `:`-paths — is never rejected as a loop or as
too deep, from any state with an empty `seen` set and room for one resolution. -/
theorem diamond_no_loop {root : Mapping} {P : Str → Prop}
    (hroot : ∀ k v0, root.get (.str k) = some v0 → RefsIn root (fun _ => 0) P 0 v0)
    {v : Value} (hv : RefsIn root (fun _ => 0) P 1 v) {st : RState}
    (hd : st.depth + 1 ≤ maxDepth) (hs : st.seen = []) (n : Nat) :
    NoLoopNoDepth (interp n root v st) := by
  have hS : Strat root (fun _ => 0) P := by
    intro p _ k0 segs v0 _ hg
    exact reach_of_refsIn segs v0 (hroot k0 v0 hg)
  exact stratified_no_loop hS hv ⟨Or.inr hd, by simp [hs]⟩ n

/-- `render_parameters` on a parameter set that is a depth-1 graph: some keys hold
reference-free values (`rk = 0` side), the others refer only to those.  Stated with a rank
function taking values in `{0, 1}`. -/
theorem diamond_render_no_loop {root : Mapping} {rk : Str → Nat} {P : Str → Prop}
    (hS : Strat root rk P) (hroot : RefsIn root rk P 2 root.toValue) (n : Nat) :
    NoLoopNoDepth (renderParamsF n root) :=
  stratified_render_no_loop hS (by decide) hroot n

/-! ### Discharging the hypotheses -/

/-- A reference written with literal path text `p` (`${a:b}`; no `${…}` nested inside the
braces) satisfies `TokOK` at every rank above `rk p`. -/
theorem literal_ref_ok {root : Mapping} {rk : Str → Nat} {P : Str → Prop} {parts : List Token}
    {p : Str} {R : Nat} (hp : litParts parts = some p) (hP : P p) (hr : rk p < R) :
    TokOK root rk P R (.ref parts) :=
  tokOK_ref_lits hp hP hr

/-- A reference — also one with references nested inside its path text, `${a:${b}}` — whose
path text renders to `p` in one run (any fuel, any state) renders to `p` in every run; it
satisfies `TokOK` at every rank above `rk p` when the nested references have rank `< rk p`. -/
theorem nested_ref_ok {root : Mapping} {rk : Str → Nat} {P : Str → Prop} {parts : List Token}
    {p : Str} {R m : Nat} {st0 : RState} (hrun : slice m root parts st0 = .ok p) (hP : P p)
    (hr : rk p < R) (hparts : TokOKs root rk P (rk p) parts) : TokOK root rk P R (.ref parts) :=
  tokOK_ref_of_run hrun hP hr hparts

/-- **Checked instance.**  The hypotheses are decidable against a finite rank table `tab`
(path text ↦ rank): `stratB root fuel tab` checks `Strat`, `valB … R root.toValue` checks that
every reference in the parameters is listed with rank `< R`.  Literal path texts are read off
the token; the path text of a nested reference is computed by one run of
`interpolate_token_slice` with `fuel` (`fuel = 0` suffices when there are no nested references).
If both checks pass and `R ≤ 64`, `render_parameters` never reports a loop or a depth error. -/
theorem checked_render_no_loop {root : Mapping} {fuel : Nat} {tab : List (Str × Nat)} {R : Nat}
    (h1 : stratB root fuel tab = true)
    (h2 : valB root fuel (rkT tab) (inT tab) R root.toValue = true)
    (hR : R ≤ maxDepth) (n : Nat) : NoLoopNoDepth (renderParamsF n root) :=
  stratified_render_no_loop (stratB_sound h1) hR (valB_sound R _ h2) n

/-- Checked instance for a single value interpolated from the initial state. -/
theorem checked_interp_no_loop {root : Mapping} {fuel : Nat} {tab : List (Str × Nat)} {R : Nat}
    {v : Value} (h1 : stratB root fuel tab = true)
    (h2 : valB root fuel (rkT tab) (inT tab) R v = true)
    (hR : R ≤ maxDepth) (n : Nat) : NoLoopNoDepth (interp n root v {}) :=
  stratified_no_loop (stratB_sound h1) (valB_sound R _ h2) (ok_initial _ hR) n

/-! ### A loop error needs a repeated path on one chain -/

/-- **Where `Token::resolve` can report a loop.**  If resolving the reference `parts` in state
`st` gives `Err.loop`, then either the rendered path is already in `st.seen` (a direct hit), or
the error was handed up unchanged from a sub-call: rendering the path text, descending into
the target with the path added to `seen`, or the final interpolation loop. -/
theorem loop_needs_repeat {n : Nat} {root : Mapping} {parts : List Token} {st : RState}
    (h : tokResolve (n+1) root (.ref parts) st = .error .loop) :
    slice n root parts { st with depth := st.depth + 1 } = .error .loop ∨
    ∃ path, slice n root parts { st with depth := st.depth + 1 } = .ok path ∧
      (path ∈ st.seen ∨
       (path ∉ st.seen ∧ ∃ k0 segs v0, splitColon path = k0 :: segs ∧
          root.get (.str k0) = some v0 ∧
          (descend n root v0 segs
              { st with depth := st.depth + 1, seen := path :: st.seen } path = .error .loop ∨
           ∃ v st3, descend n root v0 segs
              { st with depth := st.depth + 1, seen := path :: st.seen } path = .ok (v, st3) ∧
             finalLoop n root v st3 = .error .loop))) := by
  rw [tokResolve_ref] at h
  by_cases hd : st.depth + 1 > maxDepth
  · simp [hd] at h
  · simp only [hd, if_false] at h
    cases h1 : slice n root parts { st with depth := st.depth + 1 } with
    | error e => simp only [h1, Except.error.injEq] at h; subst h; exact Or.inl rfl
    | ok path =>
      refine Or.inr ⟨path, rfl, ?_⟩
      simp only [h1] at h
      by_cases hm : path ∈ st.seen
      · exact Or.inl hm
      · refine Or.inr ⟨hm, ?_⟩
        simp only [hm, if_false] at h
        cases hsp : splitColon path with
        | nil => simp [hsp] at h
        | cons k0 segs =>
          simp only [hsp] at h
          cases hg : root.get (.str k0) with
          | none => simp [hg] at h
          | some v0 =>
            simp only [hg] at h
            refine ⟨k0, segs, v0, rfl, hg, ?_⟩
            cases h2 : descend n root v0 segs
                { st with depth := st.depth + 1, seen := path :: st.seen } path with
            | error e => simp only [h2, Except.error.injEq] at h; subst h; exact Or.inl rfl
            | ok p =>
              obtain ⟨v, st3⟩ := p
              simp only [h2] at h
              exact Or.inr ⟨v, st3, rfl, h⟩

/-- **Every reported loop is a repeated path on one chain.**  If `Value::interpolate` started
in state `st` reports `Err.loop`, then somewhere below a reference was resolved in a state `st'`
that extends `st` along the chain of calls (at least as deep, at least the same `seen` paths —
sibling list elements, mapping values, layers and token pieces only ever receive copies of
their parent's state), below the depth limit, whose path text rendered to a `path` that was
already in `st'.seen`. -/
theorem loop_origin {n : Nat} {root : Mapping} {v : Value} {st : RState}
    (h : interp n root v st = .error .loop) :
    ∃ (m : Nat) (parts : List Token) (st' : RState) (path : Str),
      st.depth ≤ st'.depth ∧ st.seen ⊆ st'.seen ∧ st'.depth + 1 ≤ maxDepth ∧
      slice m root parts { st' with depth := st'.depth + 1 } = .ok path ∧ path ∈ st'.seen :=
  (lInv root n).interp v st h

/-- The hit of `loop_origin` is itself a loop report of `Token::resolve`. -/
theorem loop_origin_is_reported {m : Nat} {root : Mapping} {parts : List Token} {st' : RState}
    {path : Str} (hd : st'.depth + 1 ≤ maxDepth)
    (hs : slice m root parts { st' with depth := st'.depth + 1 } = .ok path)
    (hm : path ∈ st'.seen) : tokResolve (m+1) root (.ref parts) st' = .error .loop :=
  seen_blocks m root parts st' path hd hs hm

/-- Contrapositive of `stratified_no_loop`: when a loop (or depth) error *is* reported, no rank
function stratifies the root for that value and state — the reference graph reachable from the
value has a cycle at the level of path texts, or needs more nesting than the state has room for. -/
theorem reported_loop_not_stratified {n : Nat} {root : Mapping} {v : Value} {st : RState}
    (h : interp n root v st = .error .loop ∨ ∃ c, interp n root v st = .error (.depth c)) :
    ¬ ∃ (rk : Str → Nat) (P : Str → Prop) (R : Nat),
        Strat root rk P ∧ RefsIn root rk P R v ∧ Ok rk R st := by
  rintro ⟨rk, P, R, hS, hv, hok⟩
  have := stratified_no_loop hS hv hok n
  rcases h with h | ⟨c, h⟩
  · exact this.1 h
  · exact this.2 c h

/-! ### Non-vacuity and concrete instances -/

private def S (s : String) : Value := .str s.toList
private def K (s : String) : Key := .str s.toList
private def T (s : String) (r : Nat) : Str × Nat := (s.toList, r)

/-- `true` iff the outcome is neither loop nor depth error (Bool version for kernel runs). -/
def noLoopB {α : Type} : R α → Bool
  | .error .loop => false
  | .error (.depth _) => false
  | _ => true

/-- Diamond: `top → l, r → base`, with `top` embedding both arms. -/
def diamondRoot : Mapping :=
  ⟨[(K "top", S "${l}+${r}"), (K "l", S "${base}"), (K "r", S "${base}"), (K "base", S "v")], [], []⟩

def diamondTab : List (Str × Nat) := [T "base" 0, T "l" 1, T "r" 1]

-- the general theorem applies to the diamond: every fuel, no loop, no depth error …
example (n : Nat) : NoLoopNoDepth (renderParamsF n diamondRoot) :=
  checked_render_no_loop (fuel := 0) (tab := diamondTab) (R := 2) (by decide +kernel) (by decide +kernel)
    (by decide) n
-- … and it does render
example : rendersToJson 60 diamondRoot
    "{\"base\":\"v\",\"l\":\"v\",\"r\":\"v\",\"top\":\"v+v\"}" = true := by decide +kernel

/-- The same reference used many times: in a list, in one string, in mapping values, in nested
containers, in layers of a `ValueList`, and once more through a second key. -/
def manyRoot : Mapping :=
  ⟨[(K "a", S "x"),
    (K "b", .seq [S "${a}", S "${a}", S "${a}"]),
    (K "c", S "${a}${a}-${a}"),
    (K "d", .map [(K "p", S "${a}"), (K "q", S "${a}"), (K "r", .seq [S "${a}", S "pre ${a}"])] [] []),
    (K "e", .vl [S "${a}", S "${a}"]),
    (K "f", .vl [.map [(K "k", S "${a}")] [] [], .map [(K "k2", S "${a}"), (K "k", S "${c}")] [] []]),
    (K "g", .seq [S "${c}", S "${c}", S "${d}", S "${d:r}"])], [], []⟩

def manyTab : List (Str × Nat) := [T "a" 0, T "c" 1, T "d" 1, T "d:r" 1]

example (n : Nat) : NoLoopNoDepth (renderParamsF n manyRoot) :=
  checked_render_no_loop (fuel := 0) (tab := manyTab) (R := 2) (by decide +kernel) (by decide +kernel)
    (by decide) n
example : isOk (renderParamsF 80 manyRoot) = true := by decide +kernel

/-- 2-level sharing with nested paths, a path that ends inside a string value, and a reference
to a whole container that itself contains references. -/
def svcRoot : Mapping :=
  ⟨[(K "env", S "prod"),
    (K "svc", .map [(K "name", S "web"), (K "host", S "${env}.example"), (K "port", .num (.int 80)),
                    (K "url", S "http://${svc:host}:${svc:port}")] [] []),
    (K "app", .map [(K "name", S "${svc:name}-${env}"),
                    (K "urls", .seq [S "${svc:url}", S "${svc:url}/x", S "${svc:url}/y"])] [] []),
    (K "copy", S "${svc}"),
    (K "both", .seq [S "${copy}", S "${svc}", S "${copy:url}"])], [], []⟩

def svcTab : List (Str × Nat) :=
  [T "env" 0, T "svc:name" 0, T "svc:port" 0, T "svc:host" 1, T "svc:url" 2, T "svc" 3,
   T "copy" 4, T "copy:url" 4]

example (n : Nat) : NoLoopNoDepth (renderParamsF n svcRoot) :=
  checked_render_no_loop (fuel := 0) (tab := svcTab) (R := 5) (by decide +kernel) (by decide +kernel)
    (by decide) n
example : isOk (renderParamsF 120 svcRoot) = true := by decide +kernel

-- the candidate false-loop shapes: a container target whose entries share a reference, reached
-- as a whole and through a path, with the container's own interpolation afterwards
def shareRoot : Mapping :=
  ⟨[(K "t", S "${m}"), (K "u", S "${m:a}"), (K "w", S "x ${m} ${m} ${m:a}"),
    (K "m", .map [(K "a", S "${x}"), (K "b", S "${x}")] [] []), (K "x", S "1")], [], []⟩

example (n : Nat) : NoLoopNoDepth (renderParamsF n shareRoot) :=
  checked_render_no_loop (fuel := 0) (tab := [T "x" 0, T "m:a" 1, T "m" 1]) (R := 2) (by decide +kernel)
    (by decide +kernel) (by decide) n
example : isOk (renderParamsF 80 shareRoot) = true := by decide +kernel

-- a mapping that refers into itself without a cycle of paths: `a:b → a:c`
example (n : Nat) : NoLoopNoDepth (renderParamsF n
    ⟨[(K "a", .map [(K "b", S "${a:c}"), (K "c", S "1")] [] []), (K "t", S "${a}")], [], []⟩) :=
  checked_render_no_loop (fuel := 0) (tab := [T "a:c" 0, T "a" 1]) (R := 2) (by decide +kernel)
    (by decide +kernel) (by decide) n

/-- Layered parameters as produced by merging classes: `app` is defined in two classes, the
second one refers to entries of the first through `app:…` paths (so the layer list as a whole
refers into itself, but no path needs itself). -/
def layeredRoot : Mapping :=
  ⟨[(K "app", .vl [.map [(K "name", S "x"), (K "port", .num (.int 80))] [] [],
                   .map [(K "url", S "${app:name}.com:${app:port}"), (K "alias", S "${app:url}")] [] []]),
    (K "site", S "${app:alias}/${app:url}"),
    (K "all", S "${app}")], [], []⟩

example (n : Nat) : NoLoopNoDepth (renderParamsF n layeredRoot) :=
  checked_render_no_loop (fuel := 8)
    (tab := [T "app:name" 0, T "app:port" 0, T "app:url" 1, T "app:alias" 2, T "app" 3]) (R := 4)
    (by decide +kernel) (by decide +kernel) (by decide) n
example : isOk (renderParamsF 80 layeredRoot) = true := by decide +kernel

/-- Nested references: the path text is itself computed from references (`${${n}}`,
`${svc:${key}}`), and the computed targets are shared. -/
def nestedRoot : Mapping :=
  ⟨[(K "n", S "m"), (K "m", S "1"), (K "key", S "port"),
    (K "svc", .map [(K "port", .num (.int 80)), (K "host", S "h")] [] []),
    (K "t", .seq [S "${${n}}", S "${${n}}-${m}", S "${svc:${key}}", S "${svc:${key}}/${svc:port}"])],
   [], []⟩

example (n : Nat) : NoLoopNoDepth (renderParamsF n nestedRoot) :=
  checked_render_no_loop (fuel := 12) (tab := [T "n" 0, T "key" 0, T "m" 1, T "svc:port" 1]) (R := 2)
    (by decide +kernel) (by decide +kernel) (by decide) n
example : rendersToJson 80 nestedRoot
    "{\"key\":\"port\",\"m\":\"1\",\"n\":\"m\",\"svc\":{\"host\":\"h\",\"port\":80},\"t\":[\"1\",\"1-1\",80,\"80/80\"]}" = true := by
  decide +kernel

/-- Rank table of the chain `nm 0 → nm 1 → … → nm len`. -/
def chainTab (len : Nat) : List (Str × Nat) :=
  (List.range (len + 1)).map fun i => (nm i, len - i)

-- a chain whose head needs exactly 64 resolutions is covered by the theorem (R = 64 = the
-- documented limit) …
example (n : Nat) : NoLoopNoDepth (interp n (chainRoot 63 "end".toList)
    (.str ("${".toList ++ nm 0 ++ "}".toList)) {}) :=
  checked_interp_no_loop (fuel := 0) (tab := chainTab 63) (R := 64) (by decide +kernel) (by decide +kernel)
    (by decide) n
-- … one more link is a depth error, not a loop (so `R ≤ 64` cannot be relaxed)
example : isDepth (interp 280 (chainRoot 64 "end".toList)
    (.str ("${".toList ++ nm 0 ++ "}".toList)) {}) = true := by decide +kernel

-- the checkers reject a genuine cycle for the obvious table (no table can pass, by
-- `reported_loop_not_stratified` and `cycle_is_loop`)
example : stratB ⟨[(K "a", S "${b}"), (K "b", S "${a}")], [], []⟩ 0 [T "a" 0, T "b" 1] = false := by
  decide +kernel

-- a cycle that only exists because a string value must be rendered as a whole: `s` needs all of
-- `m`, `m:b` needs `s:b`, which needs `s` again — reported as a loop, and rightly so
example : isLoop (renderParamsF 80
    ⟨[(K "u", S "${s:a}"), (K "s", S "${m}"),
      (K "m", .map [(K "a", S "${x}"), (K "b", S "${s:b}")] [] []), (K "x", S "1")], [], []⟩) = true := by
  decide +kernel

end C08
end Reclass
