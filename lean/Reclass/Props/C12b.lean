/-
  C12b — C12 END TO END, the per-node part: "rendering one node never influences another;
  rendering a node is a function of the files it reads".

  `Props/C12` shows that the aggregation of the per-node results does not depend on the order in
  which the worker threads deliver them.  This file is about the per-node results themselves,
  i.e. about the model's `renderNode` (`Reclass::render_node`), for every fuel and every inventory:

    * `renderNode_indep_other_nodes`      — the result for node `name` depends on the inventory only
                                             through the config, the class map and the lookup of
                                             `name` itself: other nodes' files are irrelevant;
    * `classLookups`                       — the list of (absolute) class names whose lookup in
                                             `r.classes` rendering `name` performs (read off the
                                             instrumented walk `Lemmas/E2E2L.renderImplQ`, whose
                                             second component is the model's walk);
    * `renderNode_indep_unreached_classes` — two inventories with the same config, the same lookup
                                             of `name`, whose class maps agree on `classLookups`
                                             give the same result (and the same lookups): class
                                             files that are never looked up are irrelevant;
    * `renderNode_indep_added_classes`     — special case: adding class files to an inventory in
                                             which every lookup found a file changes nothing;
    * `render_repeat`                      — `renderNode` is a function (no hidden state);
    * `inventory_entry_indep[_unreached]`  — the entry of node `n` in the rendered inventory equals
                                             `renderNode` of `n` in any inventory that differs only
                                             in other nodes' files (and never-looked-up classes).

  Property theorems only; helpers live in `Lemmas/E2E2L`.
-/
import Reclass.Lemmas.E2E2L
import Reclass.Props.C12
namespace Reclass
namespace C12
open E2E2

/-! ### Other nodes are irrelevant -/

/-- **Rendering one node never reads another node's file.**  If two inventories have the same
config and the same class map, and the lookup of `name` in their node maps gives the same entry
(same `EntityInfo`, same file contents or the same read failure — or is absent in both), then
`renderNode` gives the same result for `name` in both, whatever the other nodes are. -/
theorem renderNode_indep_other_nodes {r r' : Inv} (hc : r.cfg = r'.cfg) (hcl : r.classes = r'.classes)
    {name : Str} (hn : findEntity name r.nodes = findEntity name r'.nodes) (fuel : Nat) :
    renderNode fuel r name = renderNode fuel r' name := by
  rw [renderNode_eq, renderNode_eq, ← hn, ← hc]
  rcases findEntity name r.nodes with _ | ⟨info, (src | w)⟩
  · rfl
  · exact renderNodeSrc_congr hc (fun loc c => readClass_congr hc (by rw [hcl])) ..
  · rfl

/-- The same with the node maps given explicitly: replacing the whole node map by any other one
that has the same entry for `name`. -/
theorem renderNode_indep_other_nodes' (r : Inv) (nodes' : List (Str × EntityInfo × FileRes))
    {name : Str} (hn : findEntity name r.nodes = findEntity name nodes') (fuel : Nat) :
    renderNode fuel r name = renderNode fuel { r with nodes := nodes' } name :=
  renderNode_indep_other_nodes (r := r) (r' := { r with nodes := nodes' }) rfl rfl hn fuel

/-- In particular a node renders in the full inventory exactly as in the inventory whose node map
contains that node alone. -/
theorem renderNode_alone (r : Inv) (name : Str) (fuel : Nat) :
    renderNode fuel r name =
      renderNode fuel { r with nodes := r.nodes.filter fun x => decide (x.1 = name) } name :=
  renderNode_indep_other_nodes' r _ (findEntity_filter_self name r.nodes).symm fuel

/-! ### Class files that are never looked up are irrelevant -/

/-- The absolute class names that rendering node `name` looks up in `r.classes`, in lookup order
(found or not; up to and including the failing lookup when rendering fails).  Empty when the
node is unknown, unreadable, or fails before the walk starts. -/
def classLookups (fuel : Nat) (r : Inv) (name : Str) : List Str :=
  match findEntity name r.nodes with
  | some (info, .ok src) =>
    match nodePrefix r (nodeMeta r.cfg name info) src with
    | .ok (self, bp) => (renderImplQ fuel r { classes := self.classes, params := bp } [] {}).1
    | .error _ => []
  | _ => []

/-- `classLookups` is the first component of a run whose second component is `renderNode`: the
instrumented walk `renderImplQ` computes the model's walk (`E2E2.renderImplQ_snd`), and the only
place where the walk consults `r.classes` — the call `readClass r loc c`, which looks up exactly
`absClassName loc c` (`E2E2.readClass_congr`) — is where a name is recorded. -/
theorem renderNode_eq_instrumented (fuel : Nat) (r : Inv) (name : Str) :
    renderNode fuel r name =
      match findEntity name r.nodes with
      | none => .error (.unknownNode name)
      | some (_, .bad w) => .error (.io w)
      | some (info, .ok src) =>
        match nodePrefix r (nodeMeta r.cfg name info) src with
        | .error e => .error e
        | .ok (self, bp) =>
          finishNode (nodeMeta r.cfg name info) self
            (renderImplQ fuel r { classes := self.classes, params := bp } [] {}).2 := by
  rw [renderNode_eq]
  rcases findEntity name r.nodes with _ | ⟨info, (src | w)⟩
  · rfl
  · simp only [renderNodeSrc_eq, renderImplQ_snd]
    rfl
  · rfl

/-- **Rendering is a function of the files it reads.**  Let `r` and `r'` have the same config and
the same entry for node `name`, and let their class maps agree on every class name that rendering
`name` in `r` looks up.  Then rendering `name` gives the same result in both (value or error), and
looks up the same names.  Nothing is assumed about classes that are not looked up: they may be
added, removed, changed or unreadable. -/
theorem renderNode_indep_unreached_classes {r r' : Inv} (hc : r.cfg = r'.cfg) {name : Str}
    (hn : findEntity name r.nodes = findEntity name r'.nodes) {fuel : Nat}
    (hq : ∀ a ∈ classLookups fuel r name, findEntity a r.classes = findEntity a r'.classes) :
    renderNode fuel r name = renderNode fuel r' name ∧
    classLookups fuel r' name = classLookups fuel r name := by
  rw [renderNode_eq_instrumented, renderNode_eq_instrumented]
  unfold classLookups at hq ⊢
  rw [← hn, ← hc]
  cases hf : findEntity name r.nodes with
  | none => exact ⟨rfl, rfl⟩
  | some x =>
    obtain ⟨info, (src | w)⟩ := x
    · simp only [hf] at hq
      simp only []
      rw [← nodePrefix_congr hc]
      cases hp : nodePrefix r (nodeMeta r.cfg name info) src with
      | error e => exact ⟨rfl, rfl⟩
      | ok y =>
        obtain ⟨self, bp⟩ := y
        simp only [hp] at hq
        simp only []
        rw [renderImplQ_congr hc hq]
        exact ⟨rfl, rfl⟩
    · exact ⟨rfl, rfl⟩

/-- Special case: **adding class files** to an inventory changes nothing for a node all of whose
lookups found a file (new entries are appended, so existing names keep their files). -/
theorem renderNode_indep_added_classes (r : Inv) (extra : List (Str × EntityInfo × FileRes))
    {name : Str} {fuel : Nat}
    (hfound : ∀ a ∈ classLookups fuel r name, findEntity a r.classes ≠ none) :
    renderNode fuel r name = renderNode fuel { r with classes := r.classes ++ extra } name := by
  refine (renderNode_indep_unreached_classes (r := r) (r' := { r with classes := r.classes ++ extra })
    rfl rfl ?_).1
  intro a ha
  simp only [findEntity_append]
  cases h : findEntity a r.classes with
  | none => exact absurd h (hfound a ha)
  | some e => rfl

/-- Special case: **removing, changing or adding** any class files whose names are not looked up. -/
theorem renderNode_indep_classes_outside {r r' : Inv} (hc : r.cfg = r'.cfg) {name : Str}
    (hn : findEntity name r.nodes = findEntity name r'.nodes) {fuel : Nat}
    (changed : List Str) (hch : ∀ a, a ∉ changed → findEntity a r.classes = findEntity a r'.classes)
    (hdisj : ∀ a ∈ classLookups fuel r name, a ∉ changed) :
    renderNode fuel r name = renderNode fuel r' name :=
  (renderNode_indep_unreached_classes hc hn fun a ha => hch a (hdisj a ha)).1

/-! ### Determinism and the inventory entry -/

/-- `renderNode` is a function of its arguments: rendering the same node of the same inventory
again gives the same result (the model has no hidden state, caches or thread identity). -/
theorem render_repeat (fuel : Nat) (r : Inv) (name : Str) {x y : R NodeInfoM}
    (hx : renderNode fuel r name = x) (hy : renderNode fuel r name = y) : x = y :=
  hx.symm.trans hy

/-- **The entry of a node in the rendered inventory is its own rendering, in any inventory that
differs only in other nodes' files.**  `names` are the discovered node names; the inventory is
assembled from `renderNode fuel r n` for each of them (`Inventory::render`). -/
theorem inventory_entry_indep {fuel : Nat} {r r' : Inv} {names : List Str} {inv : InventoryM}
    (h : Inventory.render (names.map fun n => (n, renderNode fuel r n)) = .ok inv)
    (hc : r.cfg = r'.cfg) (hcl : r.classes = r'.classes) {name : Str} {info : NodeInfoM}
    (hn : findEntity name r.nodes = findEntity name r'.nodes)
    (hm : (name, info) ∈ inv.nodes) : renderNode fuel r' name = .ok info := by
  have := (inventory_entry_eq_single h name info).1 hm
  obtain ⟨n, _, he⟩ := List.mem_map.1 this
  simp only [Prod.mk.injEq] at he
  obtain ⟨rfl, he⟩ := he
  rw [← renderNode_indep_other_nodes hc hcl hn fuel]; exact he

/-- The same, when in addition class files that rendering `name` never looks up differ. -/
theorem inventory_entry_indep_unreached {fuel : Nat} {r r' : Inv} {names : List Str} {inv : InventoryM}
    (h : Inventory.render (names.map fun n => (n, renderNode fuel r n)) = .ok inv)
    (hc : r.cfg = r'.cfg) {name : Str} {info : NodeInfoM}
    (hn : findEntity name r.nodes = findEntity name r'.nodes)
    (hq : ∀ a ∈ classLookups fuel r name, findEntity a r.classes = findEntity a r'.classes)
    (hm : (name, info) ∈ inv.nodes) : renderNode fuel r' name = .ok info := by
  have := (inventory_entry_eq_single h name info).1 hm
  obtain ⟨n, _, he⟩ := List.mem_map.1 this
  simp only [Prod.mk.injEq] at he
  obtain ⟨rfl, he⟩ := he
  rw [← (renderNode_indep_unreached_classes hc hn hq).1]; exact he

/-- Conversely every rendered node is stored: what `renderNode` returns for a discovered node in
`r'` (differing from `r` only in other nodes' files) is an entry of the inventory rendered from `r`. -/
theorem inventory_entry_indep_conv {fuel : Nat} {r r' : Inv} {names : List Str} {inv : InventoryM}
    (h : Inventory.render (names.map fun n => (n, renderNode fuel r n)) = .ok inv)
    (hc : r.cfg = r'.cfg) (hcl : r.classes = r'.classes) {name : Str} {info : NodeInfoM}
    (hn : findEntity name r.nodes = findEntity name r'.nodes) (hmem : name ∈ names)
    (hr : renderNode fuel r' name = .ok info) : (name, info) ∈ inv.nodes := by
  refine (inventory_entry_eq_single h name info).2 (List.mem_map.2 ⟨name, hmem, ?_⟩)
  rw [renderNode_indep_other_nodes hc hcl hn fuel, hr]

/-! ### Non-vacuity -/

section Examples

/-- `exInvE2E` with all nodes but `n1` replaced: a different node `zz` (which does not even
render) in front, the others gone. -/
private def exInvOther : Inv :=
  { exInvE2E with
    nodes := ("zz".toList, { path := ["zz.yml".toList], loc := [] }, .ok { classes := ["nowhere".toList] })
      :: exInvE2E.nodes.filter fun x => decide (x.1 = "n1".toList) }

private theorem exInvOther_n1 :
    findEntity "n1".toList exInvE2E.nodes = findEntity "n1".toList exInvOther.nodes :=
  ((findEntity_cons_ne (by decide +kernel) _).trans (findEntity_filter_self _ _)).symm

/-- `exInvE2E` with an unrelated, unreadable class file added and a new class `extra`. -/
private def exInvMore : Inv :=
  { exInvE2E with
    classes := exInvE2E.classes ++
      [("extra".toList, { path := ["extra.yml".toList], loc := [] }, .ok { apps := ["x".toList] }),
       ("broken".toList, { path := ["broken.yml".toList], loc := [] }, .bad "EIO".toList)] }

/-- The two inventories differ in the other nodes … -/
example : exInvOther.nodes.map Prod.fst = ["zz".toList, "n1".toList] ∧
    exInvE2E.nodes.map Prod.fst = ["n1".toList, "bad".toList, "gone".toList, "unreadable".toList] := by
  decide +kernel

/-- … and node `n1` renders identically in both (the hypotheses of the theorem hold by
evaluation), … -/
example : renderNode 30 exInvE2E "n1".toList = renderNode 30 exInvOther "n1".toList :=
  renderNode_indep_other_nodes (r := exInvE2E) (r' := exInvOther) rfl rfl exInvOther_n1 30

/-- … to a value, not an error (checked independently for both inventories). -/
example : nodeJson (renderNode 30 exInvE2E "n1".toList) = nodeJson (renderNode 30 exInvOther "n1".toList) ∧
    (nodeJson (renderNode 30 exInvOther "n1".toList)).isSome = true := by decide +kernel

/-- Rendering `n1` looks up `app`, then `base`; rendering `gone` looks up `missing` (not found). -/
example : classLookups 30 exInvE2E "n1".toList = ["app".toList, "base".toList] ∧
    classLookups 30 exInvE2E "gone".toList = ["missing".toList] := by decide +kernel

/-- Adding classes that are not looked up does not change `n1` … -/
example : renderNode 30 exInvE2E "n1".toList = renderNode 30 exInvMore "n1".toList :=
  renderNode_indep_added_classes exInvE2E _ (name := "n1".toList) (fuel := 30) (by decide +kernel)

/-- … but the hypothesis of `renderNode_indep_added_classes` matters: `gone` looks up `missing`,
which is not found, and adding a class of that name changes the outcome. -/
example : TextL.errOf (renderNode 30 exInvE2E "gone".toList) = some (.classNotFound "missing".toList) ∧
    TextL.errOf (renderNode 30
      { exInvE2E with classes := exInvE2E.classes ++
          [("missing".toList, { path := ["missing.yml".toList], loc := [] }, .ok {})] }
      "gone".toList) = none := by decide +kernel

end Examples

end C12
end Reclass
