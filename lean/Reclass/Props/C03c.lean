/-
  C03 (continued) — Empty path segments are ordinary segments.

  "A parameter whose whole value is a reference ${a:b:c} renders to the … value found at that
  path …, and a path that does not exist is an error naming the reference and the missing key."

  `Token::resolve` splits the rendered path text with `str::split(':')` (`splitColon`) and looks
  every segment up in turn — *including empty ones*.  `${m:}` is therefore the path `["m", ""]`:
  it looks the empty-string key `""` up in `m`; it is NOT the same as `${m}`, and it never
  returns the mapping `m` itself.  Likewise `${:a}` starts at the top-level key `""` and
  `${a::b}` passes through the key `""` of `a`.

  Contents
   7. The path splitter: `split_append_colon` (`split (a ++ ":" ++ b) = split a ++ split b`),
      `split_trailing_colon`, `split_leading_colon`, `split_double_colon`,
      `split_length` (1 + number of `:`), `split_join` / `join_split` (split and join with `:`
      are mutually inverse), `split_segments_colon_free`, `split_last_of_trailing_colon`.
   8. `rawPath_snoc`, `descend_raw_ok`, `descend_raw_missing`: the lookup loop along raw mappings,
      constructively (the converse direction of `Refs.descend_raw`), with the last segment
      present / absent.
      `trailing_colon_resolve`, `trailing_colon_missing`, `trailing_colon_present`: a reference
      whose path text is `p ++ ":"` resolves to what is stored under the key `""` of the mapping
      at `p`, or fails with the missing-key error that names the reference text and the key `""`.
      `trailing_empty_segment_looks_up_empty_key`: the one-segment case `${k:}` in one statement
      (present: corollary of `whole_ref_path`; absent: the error).
  All statements are true of the model as asked; nothing had to be weakened.
-/
import Reclass.Props.C03
namespace Reclass
namespace C03

open Refs

/-! ### 7. The path splitter `str::split(':')` -/

/-- `split` never returns the empty list. -/
theorem split_nonempty (s : Str) : splitColon s ≠ [] := by
  induction s with
  | nil => simp [splitColon]
  | cons c cs ih =>
    simp only [splitColon]
    split
    · simp
    · split <;> simp

/-- … so it always has a first segment. -/
theorem split_cons_exists (s : Str) : ∃ seg segs, splitColon s = seg :: segs := by
  cases h : splitColon s with
  | nil => exact absurd h (split_nonempty s)
  | cons seg segs => exact ⟨seg, segs, rfl⟩

/-- **A path starting with `:` has an empty first segment.** -/
theorem split_leading_colon (s : Str) : splitColon (':' :: s) = [] :: splitColon s := by
  obtain ⟨seg, segs, h⟩ := split_cons_exists s
  simp [splitColon, h]

/-- An ordinary character extends the first segment. -/
theorem split_cons_other {c : Char} (hc : c ≠ ':') {s seg : Str} {segs : List Str}
    (h : splitColon s = seg :: segs) : splitColon (c :: s) = (c :: seg) :: segs := by
  simp [splitColon, h, hc]

/-- **Splitting distributes over a `:`.**  The segments of `a ++ ":" ++ b` are the segments of
`a` followed by the segments of `b` — whatever `a` and `b` are (empty, ending or starting with
`:`, …).  No segment is dropped or merged. -/
theorem split_append_colon (a b : Str) :
    splitColon (a ++ ':' :: b) = splitColon a ++ splitColon b := by
  induction a with
  | nil => rw [List.nil_append, split_leading_colon]; rfl
  | cons c a ih =>
    obtain ⟨seg, segs, h⟩ := split_cons_exists a
    rw [h, List.cons_append] at ih
    by_cases hc : c = ':'
    · subst hc
      rw [List.cons_append, split_leading_colon, split_leading_colon, ih, h]
      rfl
    · rw [List.cons_append, split_cons_other hc ih, split_cons_other hc h]
      rfl

/-- **A path ending in `:` has a final EMPTY segment.** -/
theorem split_trailing_colon (s : Str) : splitColon (s ++ [':']) = splitColon s ++ [[]] := by
  rw [split_append_colon]; rfl

/-- The last segment of a path ending in `:` is the empty string. -/
theorem split_last_of_trailing_colon (s : Str) : (splitColon (s ++ [':'])).getLast? = some [] := by
  rw [split_trailing_colon]; simp

/-- **`a::b` has an empty middle segment** (`a`, `b` free of `:`). -/
theorem split_double_colon {a b : Str} (ha : ':' ∉ a) (hb : ':' ∉ b) :
    splitColon (a ++ ':' :: ':' :: b) = [a, [], b] := by
  rw [split_append_colon, split_leading_colon, splitColon_noColon ha, splitColon_noColon hb]
  rfl

/-- `k:` splits into `k` and the empty segment (`k` free of `:`). -/
theorem split_key_colon {k : Str} (hk : ':' ∉ k) : splitColon (k ++ [':']) = [k, []] := by
  rw [split_trailing_colon, splitColon_noColon hk]; rfl

/-- **The number of segments is one more than the number of `:` characters.** -/
theorem split_length (s : Str) : (splitColon s).length = s.count ':' + 1 := by
  induction s with
  | nil => rfl
  | cons c cs ih =>
    obtain ⟨seg, segs, h⟩ := split_cons_exists cs
    by_cases hc : c = ':'
    · subst hc
      rw [split_leading_colon, List.length_cons, ih, List.count_cons_self]
    · rw [split_cons_other hc h, List.count_cons_of_ne (by simpa using hc), ← ih, h]
      rfl

/-- No segment contains a `:`. -/
theorem split_segments_colon_free (s : Str) : ∀ seg ∈ splitColon s, ':' ∉ seg := by
  induction s with
  | nil => intro seg h; simp [splitColon] at h; simp [h]
  | cons c cs ih =>
    obtain ⟨seg0, segs, h⟩ := split_cons_exists cs
    by_cases hc : c = ':'
    · subst hc
      rw [split_leading_colon]
      intro seg hm
      rcases List.mem_cons.1 hm with rfl | hm
      · simp
      · exact ih seg hm
    · rw [split_cons_other hc h]
      rw [h] at ih
      intro seg hm
      rcases List.mem_cons.1 hm with rfl | hm
      · intro hmem
        rcases List.mem_cons.1 hmem with e | hmem
        · exact hc e.symm
        · exact ih seg0 (by simp) hmem
      · exact ih seg (List.mem_cons_of_mem _ hm)

/-- **Joining the segments with `:` gives back the path.** -/
theorem split_join (s : Str) : joinWith [':'] (splitColon s) = s := by
  induction s with
  | nil => rfl
  | cons c cs ih =>
    obtain ⟨seg, segs, h⟩ := split_cons_exists cs
    rw [h] at ih
    by_cases hc : c = ':'
    · subst hc
      rw [split_leading_colon, h]
      simp only [joinWith, List.nil_append, List.cons_append, ih]
    · rw [split_cons_other hc h]
      cases segs with
      | nil =>
        simp only [joinWith] at ih ⊢
        rw [ih]
      | cons s2 rest =>
        simp only [joinWith, List.cons_append] at ih ⊢
        rw [ih]

/-- Conversely, splitting the `:`-join of a non-empty list of `:`-free segments (empty segments
allowed, anywhere) gives back exactly these segments. -/
theorem join_split : ∀ (segs : List Str), segs ≠ [] → (∀ seg ∈ segs, ':' ∉ seg) →
    splitColon (joinWith [':'] segs) = segs
  | [], h, _ => absurd rfl h
  | [x], _, hx => by
    simp only [joinWith]
    exact splitColon_noColon (hx x (by simp))
  | x :: y :: r, _, hx => by
    have e : joinWith [':'] (x :: y :: r) = x ++ ':' :: joinWith [':'] (y :: r) := by
      simp [joinWith]
    rw [e, split_append_colon, splitColon_noColon (hx x (by simp)),
      join_split (y :: r) (by simp) (fun s hs => hx s (List.mem_cons_of_mem _ hs))]
    rfl

example : splitColon "a::b".toList = ["a".toList, [], "b".toList] := by decide
example : splitColon "m:".toList = ["m".toList, []] := by decide
example : splitColon ":a".toList = [[], "a".toList] := by decide
example : splitColon ":".toList = [[], []] := by decide
example : splitColon "a:b:".toList = ["a".toList, "b".toList, []] := by decide

/-! ### 8. An empty segment is looked up like any other key -/

/-- Walking one more segment: if the walk along `segs` ends at a raw mapping, the walk along
`segs ++ [key]` is the lookup of `key` (any text, also the empty one) in that mapping. -/
theorem rawPath_snoc : ∀ (segs : List Str) (v0 : Value) {es : List (Key × Value)} {ck ok : List Key}
    (key : Str), rawPath v0 segs = some (.map es ck ok) →
    rawPath v0 (segs ++ [key]) = lookup (.str key) es
  | [], v0, es, ck, ok, key, h => by
    simp only [rawPath, Option.some.injEq] at h
    subst h
    simp only [List.nil_append, rawPath]
    cases lookup (.str key) es <;> rfl
  | k :: ks, v0, es, ck, ok, key, h => by
    cases v0 with
    | map es0 ck0 ok0 =>
      simp only [rawPath] at h
      cases hl : lookup (.str k) es0 with
      | none => simp [hl] at h
      | some v' =>
        simp only [hl] at h
        simp only [List.cons_append, rawPath, hl]
        exact rawPath_snoc ks v' key h
    | _ => simp [rawPath] at h

/-- The lookup loop of `Token::resolve` along raw mappings, constructively: it returns the value
found by iterated `IndexMap::get` and leaves the state alone.  (`Refs.descend_raw` is the
converse reading.)  Empty segments are keys like any other. -/
theorem descend_raw_ok {root : Mapping} {path : Str} :
    ∀ (segs : List Str) (n : Nat) (v0 v : Value) (st : RState), rawPath v0 segs = some v →
    descend (n + segs.length + 1) root v0 segs st path = .ok (v, st)
  | [], n, v0, v, st, h => by
    simp only [rawPath, Option.some.injEq] at h
    subst h
    exact descend_nil _ root v0 st path
  | k :: ks, n, v0, v, st, h => by
    cases v0 with
    | map es0 ck0 ok0 =>
      simp only [rawPath] at h
      cases hl : lookup (.str k) es0 with
      | none => simp [hl] at h
      | some v' =>
        simp only [hl] at h
        show descend ((n + ks.length + 1) + 1) root _ _ st path = _
        rw [descend_cons, interpStrOrVl_succ]
        simp only [hl]
        exact descend_raw_ok ks n v' v st h
    | _ => simp [rawPath] at h

/-- … and with the last segment absent from the mapping reached: the missing-key error naming
the whole reference text `path` and that last segment `key`. -/
theorem descend_raw_missing {root : Mapping} {path : Str} {key : Str} :
    ∀ (segs : List Str) (n : Nat) (v0 : Value) {es : List (Key × Value)} {ck ok : List Key}
      (st : RState), rawPath v0 segs = some (.map es ck ok) → lookup (.str key) es = none →
    descend (n + segs.length + 2) root v0 (segs ++ [key]) st path =
      .error (.missingKey path key st.curKey)
  | [], n, v0, es, ck, ok, st, h, hl => by
    simp only [rawPath, Option.some.injEq] at h
    subst h
    show descend ((n + 1) + 1) root _ [key] st path = _
    rw [descend_cons, interpStrOrVl_succ]
    simp only [hl]
  | k :: ks, n, v0, es, ck, ok, st, h, hl => by
    cases v0 with
    | map es0 ck0 ok0 =>
      simp only [rawPath] at h
      cases hl0 : lookup (.str k) es0 with
      | none => simp [hl0] at h
      | some v' =>
        simp only [hl0] at h
        show descend ((n + ks.length + 2) + 1) root _ (k :: (ks ++ [key])) st path = _
        rw [descend_cons, interpStrOrVl_succ]
        simp only [hl0]
        exact descend_raw_missing ks n v' st h hl
    | _ => simp [rawPath] at h

/-- The segments of `p ++ ":"` are those of `p` followed by the empty segment. -/
theorem split_trailing_colon_cons {p k0 : Str} {segs : List Str} (h : splitColon p = k0 :: segs) :
    splitColon (p ++ [':']) = k0 :: (segs ++ [[]]) := by
  rw [split_trailing_colon, h]; rfl

/-- **`${p:}` resolves to the entry `""` of the mapping at `p`** (exact equation, no
well-formedness needed).  Let the path pieces render — in the state `Token::resolve` hands them —
to the text `p ++ ":"`, not seen before and below the depth limit; let `p = k0:s1:…:sm` lead
through raw mappings to the mapping `es`, and let `es` hold `vt` under the EMPTY key.  Then, for
all sufficiently large fuel, `Token::resolve` returns what its trailing loop makes of `vt` —
the mapping `es` itself is not returned. -/
theorem trailing_colon_resolve {j : Nat} {root : Mapping} {parts : List Token} {p k0 : Str}
    {segs : List Str} {v0 vt : Value} {es : List (Key × Value)} {ck ok : List Key} {st : RState}
    (hd : st.depth + 1 ≤ maxDepth)
    (hs : slice j root parts { st with depth := st.depth + 1 } = .ok (p ++ [':']))
    (hseen : p ++ [':'] ∉ st.seen) (hsplit : splitColon p = k0 :: segs)
    (hget : root.get (.str k0) = some v0) (hraw : rawPath v0 segs = some (.map es ck ok))
    (hl : lookup (.str []) es = some vt) (fuel : Nat) (hf : j + segs.length + 2 ≤ fuel) :
    tokResolve (fuel+1) root (.ref parts) st =
      finalLoop fuel root vt { st with depth := st.depth + 1, seen := (p ++ [':']) :: st.seen } := by
  rw [tokResolve_ref]
  have hd' : ¬ (st.depth + 1 > maxDepth) := by omega
  have hs' := slice_fuel_mono_le (m := fuel) (by omega) root parts _ hs (by simp)
  have hr : rawPath v0 (segs ++ [[]]) = some vt := by rw [rawPath_snoc segs v0 [] hraw, hl]
  have hdesc := descend_raw_ok (root := root) (path := p ++ [':']) (segs ++ [[]]) j v0 vt
    { st with depth := st.depth + 1, seen := (p ++ [':']) :: st.seen } hr
  have hle : j + (segs ++ [([] : Str)]).length + 1 ≤ fuel := by
    simp only [List.length_append, List.length_cons, List.length_nil]; omega
  have hdesc' := descend_fuel_mono_le (m := fuel) hle root v0 _ _ _ hdesc (by simp)
  simp only [hd', if_false, hs', hseen, split_trailing_colon_cons hsplit, hget, hdesc']

/-- **`${p:}` with no entry `""` is a missing-key error naming the empty key.**  Same situation,
but the mapping reached at `p` has no entry under the empty key: `Token::resolve` fails with the
lookup error that carries the reference text `p ++ ":"`, the missing key `""` and the parameter
being rendered — for all sufficiently large fuel.  It does not fall back to the mapping at `p`. -/
theorem trailing_colon_missing {j : Nat} {root : Mapping} {parts : List Token} {p k0 : Str}
    {segs : List Str} {v0 : Value} {es : List (Key × Value)} {ck ok : List Key} {st : RState}
    (hd : st.depth + 1 ≤ maxDepth)
    (hs : slice j root parts { st with depth := st.depth + 1 } = .ok (p ++ [':']))
    (hseen : p ++ [':'] ∉ st.seen) (hsplit : splitColon p = k0 :: segs)
    (hget : root.get (.str k0) = some v0) (hraw : rawPath v0 segs = some (.map es ck ok))
    (hl : lookup (.str []) es = none) (fuel : Nat) (hf : j + segs.length + 3 ≤ fuel) :
    tokResolve fuel root (.ref parts) st = .error (.missingKey (p ++ [':']) [] st.curKey) := by
  obtain ⟨fuel, rfl⟩ : ∃ f, fuel = f + 1 := ⟨fuel - 1, by omega⟩
  rw [tokResolve_ref]
  have hd' : ¬ (st.depth + 1 > maxDepth) := by omega
  have hs' := slice_fuel_mono_le (m := fuel) (by omega) root parts _ hs (by simp)
  have hdesc := descend_raw_missing (root := root) (path := p ++ [':']) (key := []) segs j v0
    { st with depth := st.depth + 1, seen := (p ++ [':']) :: st.seen } hraw hl
  have hdesc' := descend_fuel_mono_le (m := fuel) (by omega) root v0 _ _ _ hdesc (by simp)
  simp only [hd', if_false, hs', hseen, split_trailing_colon_cons hsplit, hget, hdesc']
  rfl

/-- **`${p:}` renders to what the entry `""` renders to** (corollary of `whole_ref_path`).  With
well-formed parameters, if the path text is `p ++ ":"` and the mapping at `p` holds `vt` under the
empty key, then whatever `Token::render` returns for the reference is — up to flag sets — what
`Value::interpolate` returns for `vt`, from any state and with any fuel. -/
theorem trailing_colon_present {n m j : Nat} {root : Mapping} {parts : List Token} {p k0 : Str}
    {segs : List Str} {v0 vt r r0 : Value} {es : List (Key × Value)} {ck ok : List Key}
    {st st' sp st0 st0' : RState}
    (hw : WF root.toValue) (hpath : slice j root parts sp = .ok (p ++ [':']))
    (hsplit : splitColon p = k0 :: segs) (hget : root.get (.str k0) = some v0)
    (hraw : rawPath v0 segs = some (.map es ck ok)) (hl : lookup (.str []) es = some vt)
    (h : tokRender n root (.ref parts) st = .ok (r, st'))
    (h0 : interp m root vt st0 = .ok (r0, st0')) : erase r = erase r0 :=
  whole_ref_path hw hpath (split_trailing_colon_cons hsplit) hget
    (by rw [rawPath_snoc segs v0 [] hraw, hl]) h h0

/-- **A trailing empty segment looks up the empty key.**  The reference `${k:}` — path text
`k ++ ":"`, `k` free of `:` — where the (well-formed) parameters hold the plain mapping
`mm = {es}` under `k`:

* if `mm` has an entry `vt` under the empty-string key `""`, then `Token::resolve` returns what its
  trailing loop makes of `vt`, and whatever `Token::render` returns equals, up to flag sets, what
  `vt` itself interpolates to (from any state, with any fuel);
* if `mm` has no entry `""`, the reference fails with the missing-key error naming the reference
  text `k:`, the EMPTY key and the parameter being rendered.

In neither case is the result the mapping `mm` itself (that is what `${k}` returns). -/
theorem trailing_empty_segment_looks_up_empty_key {j : Nat} {root : Mapping} {parts : List Token}
    {k : Str} {es : List (Key × Value)} {ck ok : List Key} {st : RState}
    (hw : WF root.toValue) (hcolon : ':' ∉ k)
    (hd : st.depth + 1 ≤ maxDepth)
    (hs : slice j root parts { st with depth := st.depth + 1 } = .ok (k ++ [':']))
    (hseen : k ++ [':'] ∉ st.seen)
    (hget : root.get (.str k) = some (.map es ck ok)) :
    (∀ vt, lookup (.str []) es = some vt →
      (∀ fuel, j + 2 ≤ fuel → tokResolve (fuel+1) root (.ref parts) st =
        finalLoop fuel root vt { st with depth := st.depth + 1, seen := (k ++ [':']) :: st.seen }) ∧
      (∀ n m r r0 st' st0 st0', tokRender n root (.ref parts) st = .ok (r, st') →
        interp m root vt st0 = .ok (r0, st0') → erase r = erase r0)) ∧
    (lookup (.str []) es = none → ∀ fuel, j + 3 ≤ fuel →
      tokResolve fuel root (.ref parts) st = .error (.missingKey (k ++ [':']) [] st.curKey)) := by
  have hsplit : splitColon k = k :: [] := splitColon_noColon hcolon
  refine ⟨fun vt hl => ⟨fun fuel hf => ?_, fun n m r r0 st' st0 st0' h h0 => ?_⟩, fun hl fuel hf => ?_⟩
  · exact trailing_colon_resolve hd hs hseen hsplit hget rfl hl fuel (by simpa using hf)
  · exact trailing_colon_present hw hs hsplit hget rfl hl h h0
  · exact trailing_colon_missing hd hs hseen hsplit hget rfl hl fuel (by simpa using hf)

/-! ### Non-vacuity -/

/-- `{m: {"": 1, big: 2}, u: "${m:}"}`. -/
def demoEmptyKey : Mapping :=
  ⟨[(.str "m".toList, .map [(.str [], .num (.int 1)), (.str "big".toList, .num (.int 2))] [] []),
    (.str "u".toList, .str "${m:}".toList)], [], []⟩

/-- `{m: {a: 1}, u: "${m:}"}`. -/
def demoNoEmptyKey : Mapping :=
  ⟨[(.str "m".toList, .map [(.str "a".toList, .num (.int 1))] [] []),
    (.str "u".toList, .str "${m:}".toList)], [], []⟩

/-- `{m: {"": 5}, v: "", u: "${m:${v}}"}`. -/
def demoEmptyNested : Mapping :=
  ⟨[(.str "m".toList, .map [(.str [], .num (.int 5))] [] []),
    (.str "v".toList, .str []),
    (.str "u".toList, .str "${m:${v}}".toList)], [], []⟩

/-- `${m:}` parses to a reference whose single path piece is the text `m:`. -/
example : parseText "${m:}".toList = some "R[L(m:)]".toList := by decide +kernel
example : parseText "${m:${v}}".toList = some "R[L(m:)R[L(v)]]".toList := by decide +kernel

/-- `u` is the value at the empty key of `m` (the number 1), not `m`. -/
example : C07.renderJson 50 demoEmptyKey =
    some "{\"m\":{\"\":1,\"big\":2},\"u\":1}".toList := by decide +kernel

/-- No entry `""`: the missing-key error names the reference text `m:`, the EMPTY key, and the
parameter `u`. -/
example : missingKeyOf (renderParamsF 50 demoNoEmptyKey) =
    some ("m:".toList, [], "u".toList) := by decide +kernel

/-- … whereas `${m}` (no trailing `:`) is the mapping. -/
example : C07.renderJson 50
    ⟨[(.str "m".toList, .map [(.str "a".toList, .num (.int 1))] [] []),
      (.str "u".toList, .str "${m}".toList)], [], []⟩ =
    some "{\"m\":{\"a\":1},\"u\":{\"a\":1}}".toList := by decide +kernel

/-- The empty segment may come from a nested reference that renders to the empty text. -/
example : C07.renderJson 50 demoEmptyNested =
    some "{\"m\":{\"\":5},\"u\":5,\"v\":\"\"}".toList := by decide +kernel

/-- Leading and middle empty segments: `${:a}` starts at the top-level key `""`, `${m::x}` passes
through the key `""` of `m`. -/
example : C07.renderJson 50
    ⟨[(.str [], .map [(.str "a".toList, .num (.int 7))] [] []),
      (.str "m".toList, .map [(.str [], .map [(.str "x".toList, .num (.int 8))] [] [])] [] []),
      (.str "u".toList, .str "${:a}".toList),
      (.str "w".toList, .str "${m::x}".toList)], [], []⟩ =
    some "{\"\":{\"a\":7},\"m\":{\"\":{\"x\":8}},\"u\":7,\"w\":8}".toList := by decide +kernel

theorem demoEmptyKey_wf : WF demoEmptyKey.toValue := by
  simp only [demoEmptyKey, Mapping.toValue, WF, WFEs, keys]
  exact ⟨⟨by decide, ⟨⟨by decide, trivial, by decide, trivial, trivial⟩, by decide⟩,
    by decide, trivial, trivial⟩, by decide⟩

theorem demoNoEmptyKey_wf : WF demoNoEmptyKey.toValue := by
  simp only [demoNoEmptyKey, Mapping.toValue, WF, WFEs, keys]
  exact ⟨⟨by decide, ⟨⟨by decide, trivial, trivial⟩, by decide⟩, by decide, trivial, trivial⟩,
    by decide⟩

/-- All hypotheses of `trailing_empty_segment_looks_up_empty_key` hold for `${m:}` in
`demoEmptyKey`; the present-case conclusion: whatever the reference renders to is the number 1. -/
example {n : Nat} {r : Value} {st' : RState}
    (h : tokRender n demoEmptyKey (.ref [.lit "m:".toList]) {} = .ok (r, st')) :
    erase r = .num (.int 1) :=
  ((trailing_empty_segment_looks_up_empty_key (j := 2) (k := "m".toList) (st := {})
      demoEmptyKey_wf (by decide) (by decide) (slice_lit 0 _ _ _) (by simp) (by rfl)).1
    (.num (.int 1)) (by rfl)).2 n 1 r (.num (.int 1)) st' {} {} h (by rfl)

/-- … and the absent-case conclusion for `demoNoEmptyKey`, at every fuel ≥ 5. -/
example (fuel : Nat) (hf : 5 ≤ fuel) :
    tokResolve fuel demoNoEmptyKey (.ref [.lit "m:".toList]) {} =
      .error (.missingKey "m:".toList [] []) :=
  (trailing_empty_segment_looks_up_empty_key (j := 2) (k := "m".toList) (st := {})
      demoNoEmptyKey_wf (by decide) (by decide) (slice_lit 0 _ _ _) (by simp) (by rfl)).2
    (by rfl) fuel hf

end C03
end Reclass
