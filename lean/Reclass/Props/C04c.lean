/-
  C04c — A path lookup through a layered parameter is lazy.

  When a reference path `${cfg:port}` passes through a parameter that is defined by several
  layers, `interpolate_string_or_valuelist` (model: `interpStrOrVl` / `layersStr`) resolves
  **only the layers that are bare strings** (reference layers such as `cfg: ${extra}`), keeps
  every mapping or sequence layer exactly as written, merges, and continues the lookup in the
  merged value.  Sibling entries inside the mapping layers are therefore not evaluated by the
  lookup — which is what makes `cfg: {port: 80, url: "x:${cfg:port}"}` next to a reference
  layer `cfg: ${extra}` a legal sibling lookup and not a loop.

  * `layersStr_shape` — the layer loop returns one value per layer, and a layer that is not a
    string is returned *syntactically unchanged* (whatever references it contains).
  * `layersStr_no_string_layers` — without string layers the loop is the identity (given one
    unit of fuel per layer) and cannot fail: no error of any sibling can surface in a lookup.
  * `layersStr_only_strings_matter` — two layer lists with the same string layers at the same
    positions succeed or fail together, with the same error: the outcome of the loop does not
    depend on what the container layers hold.
  * `lookup_step_reads_merged_raw_layers` — one step of the path walk through a layer list
    without string layers looks the key up in `flatVl` of the raw layers.
-/
import Reclass.Props.C04
namespace Reclass
namespace C04c

theorem layersStr_nil (n : Nat) (root : Mapping) (st : RState) :
    layersStr (n+1) root [] st = .ok [] := rfl

theorem layersStr_cons (n : Nat) (root : Mapping) (v : Value) (vs : List Value) (st : RState) :
    layersStr (n+1) root (v :: vs) st =
      match (if v.isStr then (match interp n root v st with
                              | .error e => .error e
                              | .ok (x, _) => .ok x) else .ok v : R Value) with
      | .error e => .error e
      | .ok x =>
        match layersStr n root vs st with
        | .error e => .error e
        | .ok xs => .ok (x :: xs) := rfl

/-- One result per layer; every non-string layer comes back exactly as it went in. -/
theorem layersStr_shape : ∀ (n : Nat) (root : Mapping) (l xs : List Value) (st : RState),
    layersStr n root l st = .ok xs →
      xs.length = l.length ∧ ∀ i (h : i < l.length) (h' : i < xs.length), (l[i]).isStr = false → xs[i] = l[i]
  | 0, _, _, _, _, h => by simp [layersStr] at h
  | n+1, root, [], xs, st, h => by
    rw [layersStr_nil] at h; cases h; simp
  | n+1, root, v :: vs, xs, st, h => by
    rw [layersStr_cons] at h
    cases h1 : (if v.isStr then (match interp n root v st with
                              | .error e => .error e
                              | .ok (x, _) => .ok x) else .ok v : R Value) with
    | error e => simp [h1] at h
    | ok x =>
      simp only [h1] at h
      cases h2 : layersStr n root vs st with
      | error e => simp [h2] at h
      | ok ys =>
        simp only [h2] at h
        cases h
        obtain ⟨hl, hi⟩ := layersStr_shape n root vs ys st h2
        refine ⟨by simp [hl], ?_⟩
        intro i hi1 hi2 hs
        cases i with
        | zero =>
          simp only [List.getElem_cons_zero] at hs ⊢
          simp only [hs] at h1
          cases h1; rfl
        | succ j =>
          simp only [List.getElem_cons_succ] at hs ⊢
          exact hi j (by simpa using hi1) (by simpa using hi2) hs

/-- No string layer: the loop returns the layers as they are, and cannot fail. -/
theorem layersStr_no_string_layers : ∀ (n : Nat) (root : Mapping) (l : List Value) (st : RState),
    (∀ v ∈ l, v.isStr = false) → l.length < n → layersStr n root l st = .ok l
  | 0, _, _, _, _, hn => by omega
  | n+1, root, [], st, _, _ => rfl
  | n+1, root, v :: vs, st, hs, hn => by
    rw [layersStr_cons]
    have hv : v.isStr = false := hs v (List.mem_cons_self ..)
    simp only [hv]
    rw [layersStr_no_string_layers n root vs st (fun w hw => hs w (List.mem_cons_of_mem _ hw))
      (by simp at hn; omega)]
    rfl

/-- Two layer lists that agree on their string layers (same positions, same text) and hold
arbitrary non-string layers elsewhere. -/
inductive SameStrings : List Value → List Value → Prop
  | nil : SameStrings [] []
  | str (s : Str) {l l' : List Value} : SameStrings l l' → SameStrings (.str s :: l) (.str s :: l')
  | other {v v' : Value} {l l' : List Value} : v.isStr = false → v'.isStr = false →
      SameStrings l l' → SameStrings (v :: l) (v' :: l')

/-- The loop fails on one list iff it fails on the other, with the same error. -/
theorem layersStr_only_strings_matter : ∀ (n : Nat) (root : Mapping) (l l' : List Value) (st : RState)
    (e : Err), SameStrings l l' → (layersStr n root l st = .error e ↔ layersStr n root l' st = .error e)
  | 0, _, _, _, _, _, _ => by simp [layersStr]
  | n+1, root, _, _, st, e, .nil => Iff.rfl
  | n+1, root, _, _, st, e, .str s (l := l) (l' := l') h => by
    rw [layersStr_cons, layersStr_cons]
    have ih := layersStr_only_strings_matter n root l l' st
    have hs : (Value.str s).isStr = true := rfl
    simp only [hs, if_true]
    cases h1 : interp n root (.str s) st with
    | error e1 => simp
    | ok p =>
      obtain ⟨x, st'⟩ := p
      simp only
      cases h2 : layersStr n root l st with
      | error e2 =>
        have := (ih e2 h).1 h2
        simp [this]
      | ok ys =>
        cases h3 : layersStr n root l' st with
        | error e3 =>
          have := (ih e3 h).2 h3
          rw [h2] at this; cases this
        | ok zs => simp
  | n+1, root, _, _, st, e, .other (v := v) (v' := v') (l := l) (l' := l') hv hv' h => by
    rw [layersStr_cons, layersStr_cons]
    have ih := layersStr_only_strings_matter n root l l' st
    simp only [hv, hv']
    cases h2 : layersStr n root l st with
    | error e2 =>
      have := (ih e2 h).1 h2
      simp [this]
    | ok ys =>
      cases h3 : layersStr n root l' st with
      | error e3 =>
        have := (ih e3 h).2 h3
        rw [h2] at this; cases this
      | ok zs => simp

/-- One step of the path walk (`descend`) through a layer list without string layers: the key
is looked up in the merge of the **raw** layers; nothing inside them has been evaluated. -/
theorem lookup_step_reads_merged_raw_layers (n : Nat) (root : Mapping) (l : List Value) (st : RState)
    (hs : ∀ v ∈ l, v.isStr = false) (hn : l.length < n) :
    interpStrOrVl (n+1) root (.vl l) st =
      match flatVl l .null st with
      | .error e => .error e
      | .ok r => .ok (r, st) := by
  simp only [interpStrOrVl, layersStr_no_string_layers n root l st hs hn]
  cases flatVl l .null st <;> rfl

/-! ### Non-vacuity -/

private def portMap : Value := .map [(.str "port".toList, .num (.int 80)), (.str "url".toList, .str "x:${cfg:port}".toList)] [] []
private def optMap : Value := .map [(.str "tls".toList, .bool true)] [] []

example : SameStrings [portMap, .str "${extra}".toList] [optMap, .str "${extra}".toList] :=
  .other rfl rfl (.str _ .nil)
example : ∀ v ∈ [portMap, optMap], v.isStr = false := by
  intro v hv; simp at hv; rcases hv with rfl | rfl <;> rfl
example (root : Mapping) (st : RState) : layersStr 5 root [portMap, optMap] st = .ok [portMap, optMap] :=
  layersStr_no_string_layers 5 root _ st (by intro v hv; simp at hv; rcases hv with rfl | rfl <;> rfl) (by decide)

end C04c
end Reclass
