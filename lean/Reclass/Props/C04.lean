/-
  C04 — A reference used as one layer of a multiply-defined parameter.

  "If one layer of a multiply-defined parameter is a reference, it merges exactly as if the
  rendered referenced value had been written inline at that position."

  Model: the `ValueList` arm of `Value::interpolate` (`src/types/value.rs`) = `interp` on
  `.vl l`, whose first loop is `interpVl` (interpolate every layer with a copy of the state,
  merge it over the accumulator).

  Fuel.  `interpVl (k+1)` interpolates the first layer with fuel `k`, the next with `k-1`, ….
  `layer_step`/`ref_layer_is_value_layer` therefore index the fuel by the position of the layer
  (`n + 1 + pre.length`); `ref_layer_transparent` removes the index with fuel monotonicity
  (`Lemmas/Fuel`): any run that does not end in the model's fuel error has the same outcome
  after the replacement, for all sufficiently large fuel.

  "Written inline" is taken literally: the layer `.str ref` is replaced by the very value `R`
  that `interpolate` returns for it.  This needs `interpolate R = R` *syntactically*
  (`interp_canonical_exact`), which holds because `interpolate` only ever returns mappings whose
  flag lists have the canonical shape `Canon` (`interp_canon_result`).

  Helper lemmas are in `Lemmas/TextL`.
-/
import Reclass.Lemmas.TextL
namespace Reclass
namespace C04

/-! ### 7. The layer loop -/

/-- **One step of the layer loop.** The first layer is interpolated with (a copy of) the
incoming state `st`; the result is merged over the accumulator `r` (the state returned by the
interpolation is used for error messages only); the remaining layers continue with the new
accumulator and the *original* state `st`. -/
theorem layer_step (n : Nat) (root : Mapping) (v : Value) (vs : List Value) (r : Value)
    (st : RState) :
    interpVl (n+1) root (v :: vs) r st =
      match interp n root v st with
      | .error e => .error e
      | .ok (x, st') =>
        match mergeV r x st' with
        | .error e => .error e
        | .ok r' => interpVl n root vs r' st := rfl

/-- The end of the loop returns the accumulator. -/
theorem layer_done (n : Nat) (root : Mapping) (r : Value) (st : RState) :
    interpVl (n+1) root [] r st = .ok r := rfl

/-- A multiply-defined parameter is rendered by folding its layers from `Null` and rendering
the merged value once more. -/
theorem layers_render (n : Nat) (root : Mapping) (l : List Value) (st : RState) :
    interp (n+1) root (.vl l) st =
      match interpVl n root l .null st with
      | .error e => .error e
      | .ok r => interp n root r st := rfl

/-- **A successful merge does not depend on the resolve state**: `Value::merge` uses it only
to word error messages. -/
theorem mergeV_state_irrelevant_ok {a b r : Value} {st st' : RState}
    (h : mergeV a b st = .ok r) : mergeV a b st' = .ok r :=
  mergeV_ok_state a b st st' r h

/-- More precisely, the whole outcome of a merge (errors included) depends on the state only
through the current parameter path `cur`. -/
theorem mergeV_state_cur_only {a b : Value} {st st' : RState} (h : st.cur = st'.cur) :
    mergeV a b st = mergeV a b st' :=
  mergeV_cur a b st st' h

/-- Interpolation never changes the current parameter path of the state. -/
theorem interp_keeps_cur {n : Nat} {root : Mapping} {v x : Value} {st st' : RState}
    (h : interp n root v st = .ok (x, st')) : st'.cur = st.cur :=
  ((growAt n).interp root v st x st' h).2.2

/-- **A reference layer is a value layer (explicit hypothesis).** Suppose the reference
`.str ref` interpolates to `R` (with the fuel `n` available at its position) and `R`
interpolates to itself.  Then the layer list with the reference at some position and the layer
list with `R` written there instead give the same outcome of the layer loop — same merged
value or same error — for every accumulator `r0`, every prefix and every suffix. -/
theorem ref_layer_is_value_layer {n : Nat} {root : Mapping} {ref : Str} {R : Value}
    {st st1 st2 : RState} (h1 : interp n root (.str ref) st = .ok (R, st1))
    (h2 : interp n root R st = .ok (R, st2)) (pre post : List Value) (r0 : Value) :
    interpVl (n + 1 + pre.length) root (pre ++ .str ref :: post) r0 st =
    interpVl (n + 1 + pre.length) root (pre ++ R :: post) r0 st :=
  interpVl_swap_layer h1 h2 ((interp_keeps_cur h1).trans (interp_keeps_cur h2).symm) post pre r0

/-- The same one level up: the multiply-defined parameter as a whole renders identically. -/
theorem ref_layer_is_value_layer_vl {n : Nat} {root : Mapping} {ref : Str} {R : Value}
    {st st1 st2 : RState} (h1 : interp n root (.str ref) st = .ok (R, st1))
    (h2 : interp n root R st = .ok (R, st2)) (pre post : List Value) :
    interp (n + 2 + pre.length) root (.vl (pre ++ .str ref :: post)) st =
    interp (n + 2 + pre.length) root (.vl (pre ++ R :: post)) st := by
  have e : n + 2 + pre.length = (n + 1 + pre.length) + 1 := by omega
  rw [e, layers_render, layers_render, ref_layer_is_value_layer h1 h2 pre post .null]

/-! ### 8. `interpolate` returns canonical data and is the identity on it -/

/-- `Canon v`: in every mapping inside `v` the two flag lists (`const_keys`, `override_keys`)
are exactly the flagged keys in entry order, without repetition:
`ck = (keys es).filter (· ∈ ck)` and likewise for `ok`.  This is the shape
`Mapping::interpolate` and `Mapping::flattened` produce when they rebuild a mapping with clean,
distinct keys into a fresh one (`insert_impl` appends a newly flagged key to the set). -/
abbrev Canon := Reclass.Canon

/-- Unfolding of `Canon` at a mapping. -/
theorem canon_map (es : List (Key × Value)) (ck ok : List Key) :
    Canon (.map es ck ok) ↔
      CanonEs es ∧ ck = (keys es).filter (fun k => decide (k ∈ ck)) ∧
        ok = (keys es).filter (fun k => decide (k ∈ ok)) := by
  simp [Canon, Reclass.Canon, flagsOf]

/-- **(a) `interpolate` returns canonical values.** For well-formed parameters and a well-formed
input, whatever `Value::interpolate` returns is canonical (besides closed and well-formed,
`C07.interp_closed`). -/
theorem interp_canon_result {n : Nat} {root : Mapping} {v r : Value} {st st' : RState}
    (hr : WF root.toValue) (hv : WF v) (h : interp n root v st = .ok (r, st')) :
    Canon r ∧ Closed r ∧ WF r :=
  ⟨(canonInv n).interp _ _ _ _ _ hr hv h, (interpInv n).interp _ _ _ _ _ hr hv h⟩

/-- **(b) `interpolate` is the identity on closed canonical data** — exactly, not only up to
the flag sets (strengthens `C07.interp_closed_id`): with fuel at least the size of `v`,
`interpolate v` returns `v` itself and the unchanged state. -/
theorem interp_canonical_exact {n : Nat} {root : Mapping} {v : Value} {st : RState}
    (hc : Closed v) (hw : WF v) (hk : Canon v) (hn : size v ≤ n) :
    interp n root v st = .ok (v, st) :=
  interp_canon v n root st hc hw hk hn

/-- `flattened` likewise returns closed canonical data unchanged. -/
theorem flat_canonical_exact {v : Value} {st : RState} (hc : Closed v) (hw : WF v) (hk : Canon v) :
    flat v st = .ok v :=
  flat_canon v st hc hw hk

/-- Rendering is idempotent on the nose: what `interpolate` returned, `interpolate` (with enough
fuel, any state, any root) returns again unchanged. -/
theorem interp_idempotent_exact {n m : Nat} {root root' : Mapping} {v r : Value}
    {st st' st2 : RState} (hr : WF root.toValue) (hv : WF v)
    (h : interp n root v st = .ok (r, st')) (hm : size r ≤ m) :
    interp m root' r st2 = .ok (r, st2) := by
  obtain ⟨hk, hc, hw⟩ := interp_canon_result hr hv h
  exact interp_canonical_exact hc hw hk hm

/-- Without canonical flag lists the identity is only up to the flag sets: a closed mapping
whose `const_keys` mention an absent key comes back with the key dropped. -/
example : interp 10 {} (.map [(.str "a".toList, .null)] [.str "zz".toList] []) {} =
    .ok (.map [(.str "a".toList, .null)] [] [], {}) := by rfl

/-- **A reference layer merges exactly like the value it renders to (fuel-indexed).** For
well-formed parameters: if the reference `.str ref` renders to `R`, then in any layer list the
reference layer can be replaced by `R` written inline without changing the outcome of the layer
loop, as soon as the fuel at that position is enough for both (`m ≥ n`, `m ≥ size R`). -/
theorem ref_layer_transparent_at {n m : Nat} {root : Mapping} {ref : Str} {R : Value}
    {st st1 : RState} (hr : WF root.toValue) (h : interp n root (.str ref) st = .ok (R, st1))
    (hnm : n ≤ m) (hsz : size R ≤ m) (pre post : List Value) (r0 : Value) :
    interpVl (m + 1 + pre.length) root (pre ++ .str ref :: post) r0 st =
    interpVl (m + 1 + pre.length) root (pre ++ R :: post) r0 st := by
  have h1 : interp m root (.str ref) st = .ok (R, st1) :=
    interp_fuel_mono_le hnm root _ st h (by simp)
  obtain ⟨hk, hc, hw⟩ := interp_canon_result hr (by simp [WF]) h
  exact ref_layer_is_value_layer h1 (interp_canonical_exact hc hw hk hsz) pre post r0

/-- The same for the multiply-defined parameter as a whole. -/
theorem ref_layer_transparent_vl_at {n m : Nat} {root : Mapping} {ref : Str} {R : Value}
    {st st1 : RState} (hr : WF root.toValue) (h : interp n root (.str ref) st = .ok (R, st1))
    (hnm : n ≤ m) (hsz : size R ≤ m) (pre post : List Value) :
    interp (m + 2 + pre.length) root (.vl (pre ++ .str ref :: post)) st =
    interp (m + 2 + pre.length) root (.vl (pre ++ R :: post)) st := by
  have e : m + 2 + pre.length = (m + 1 + pre.length) + 1 := by omega
  rw [e, layers_render, layers_render, ref_layer_transparent_at hr h hnm hsz pre post .null]

/-- **C04, fuel-free form.** Let the parameters be well-formed and let the reference
`.str ref` render to `R` (in state `st`).  Whatever a multiply-defined parameter with that
reference as one of its layers renders to — a value or an error other than the model's own
"out of fuel" — the parameter with `R` written inline at that position renders to the same,
for all sufficiently large fuel.  And conversely. -/
theorem ref_layer_transparent {n N : Nat} {root : Mapping} {ref : Str} {R : Value}
    {st st1 : RState} {pre post : List Value} {res : Except Err (Value × RState)}
    (hr : WF root.toValue) (h : interp n root (.str ref) st = .ok (R, st1))
    (hne : res ≠ .error .fuel) :
    ((interp N root (.vl (pre ++ .str ref :: post)) st = res) →
      ∃ N', ∀ k, N' ≤ k → interp k root (.vl (pre ++ R :: post)) st = res) ∧
    ((interp N root (.vl (pre ++ R :: post)) st = res) →
      ∃ N', ∀ k, N' ≤ k → interp k root (.vl (pre ++ .str ref :: post)) st = res) := by
  -- a fuel that is large enough for everything
  let m := N + n + size R
  have hM : N ≤ m + 2 + pre.length := by omega
  have key := ref_layer_transparent_vl_at hr h (m := m) (by omega) (by omega) pre post
  constructor
  · intro hN
    refine ⟨m + 2 + pre.length, fun k hk => ?_⟩
    have := interp_fuel_mono_le hM root _ st hN hne
    rw [key] at this
    exact interp_fuel_mono_le hk root _ st this hne
  · intro hN
    refine ⟨m + 2 + pre.length, fun k hk => ?_⟩
    have := interp_fuel_mono_le hM root _ st hN hne
    rw [← key] at this
    exact interp_fuel_mono_le hk root _ st this hne

/-! ### Non-vacuity -/

/-- JSON text of the rendered parameters (kernel-evaluable check of concrete renders). -/
def renderJson (n : Nat) (m : Mapping) : Option Str :=
  match renderParamsF n m with
  | .ok out => (match jsonOf out.toValue with | .ok s => some s | .error _ => none)
  | .error _ => none

/-- `d: {x: 1, y: 2}`; `p` is defined twice: `{x: 0, z: 9}` and `${d}`.  The reference layer
merges like the mapping it renders to … -/
example : renderJson 80
    ⟨[(.str "d".toList, .map [(.str "x".toList, .num (.int 1)), (.str "y".toList, .num (.int 2))] [] []),
      (.str "p".toList, .vl [.map [(.str "x".toList, .num (.int 0)), (.str "z".toList, .num (.int 9))] [] [],
                             .str "${d}".toList])], [], []⟩ =
    some "{\"d\":{\"x\":1,\"y\":2},\"p\":{\"x\":1,\"y\":2,\"z\":9}}".toList := by decide +kernel

/-- … and this is what one gets with the rendered mapping written inline. -/
example : renderJson 80
    ⟨[(.str "d".toList, .map [(.str "x".toList, .num (.int 1)), (.str "y".toList, .num (.int 2))] [] []),
      (.str "p".toList, .vl [.map [(.str "x".toList, .num (.int 0)), (.str "z".toList, .num (.int 9))] [] [],
                             .map [(.str "x".toList, .num (.int 1)), (.str "y".toList, .num (.int 2))] [] []])],
     [], []⟩ =
    some "{\"d\":{\"x\":1,\"y\":2},\"p\":{\"x\":1,\"y\":2,\"z\":9}}".toList := by decide +kernel

/-- A reference layer in first position, list values: `l: [1]`, `p: [${l}, [2]]` ⇒ `[1, 2]`. -/
example : renderJson 80
    ⟨[(.str "l".toList, .seq [.num (.int 1)]),
      (.str "p".toList, .vl [.str "${l}".toList, .seq [.num (.int 2)]])], [], []⟩ =
    some "{\"l\":[1],\"p\":[1,2]}".toList := by decide +kernel

/-- The hypothesis of `ref_layer_transparent` is satisfiable: the reference of the first example
renders to the mapping `d` (with canonical, here empty, flag lists). -/
example : (match interp 30
      ⟨[(.str "d".toList, .map [(.str "x".toList, .num (.int 1))] [] [])], [], []⟩
      (.str "${d}".toList) {} with
    | .ok (r, _) => (match jsonOf r with | .ok s => some s | .error _ => none)
    | .error _ => none) = some "{\"x\":1}".toList := by decide +kernel

/-- `Canon` is inhabited by a mapping with flags, and excludes flags on absent keys. -/
example : Canon (.map [(.str "a".toList, .null), (.str "b".toList, .null)] [.str "b".toList] []) := by
  rw [canon_map]; refine ⟨by simp [CanonEs, Reclass.Canon], by decide, by decide⟩

example : ¬ Canon (.map [(.str "a".toList, .null)] [.str "zz".toList] []) := by
  rw [canon_map]; intro h; exact absurd h.2.1 (by decide)

end C04
end Reclass
