/-
  C15 — An include starting with one or more dots is resolved relative to the directory of
  the including class: one dot means the same directory, each further dot one level up but
  never above the classes root, and nodes resolve relative to the root.

  Property theorems only; helper lemmas live in `Lemmas/NamingL`.  All statements are about
  the model functions `absClassName` (`Node::abs_class_name`, `src/node/mod.rs`) and
  `NodeM.ofSrc` (`Node::from_str`), for every location, every name and every number of dots.
-/
import Reclass.Lemmas.NamingL
namespace Reclass
namespace C15

/-- A name that does not start with a dot is absolute: it is returned unchanged, whatever
the location of the including class (or node). -/
theorem abs_id_on_absolute (loc : Option (List Str)) (cls : Str) (h : cls.head? ≠ some '.') :
    absClassName loc cls = cls :=
  absClassName_nodot loc h

/-- Every name is `k` dots followed by a remainder that does not start with a dot, and
`splitDots` computes exactly this decomposition; so the two theorems `abs_id_on_absolute`
(`k = 0`) and `abs_relative` (`k ≥ 1`) together cover every input. -/
theorem dots_decomposition (cls : Str) :
    cls = List.replicate (splitDots cls).1 '.' ++ (splitDots cls).2 ∧
    (splitDots cls).2.head? ≠ some '.' :=
  splitDots_spec cls

/-- `k` leading dots and a dot-free start are recovered by `splitDots`. -/
theorem splitDots_replicate (k : Nat) (r : Str) (h : r.head? ≠ some '.') :
    splitDots (List.replicate k '.' ++ r) = (k, r) :=
  Reclass.splitDots_replicate k h

/-- **Relative includes.** In a class located in directory `segs` (path segments below the
classes root), an include written with `k ≥ 1` dots in front of `r` names the class `r` in
the directory obtained by going up `k - 1` levels from `segs`, stopping at the root
(truncated subtraction): the kept directory segments, each followed by a dot, then `r`. -/
theorem abs_relative (segs : List Str) (k : Nat) (hk : 1 ≤ k) (r : Str) (hr : r.head? ≠ some '.') :
    absClassName (some segs) (List.replicate k '.' ++ r) =
      (segs.take (segs.length - (k - 1))).flatMap (fun s => s ++ ['.']) ++ r := by
  simpa using absClassName_replicate (some segs) k hk hr

/-- The same result written as a dotted path: kept directories and `r`, joined by dots. -/
theorem abs_relative_join (segs : List Str) (k : Nat) (hk : 1 ≤ k) (r : Str) (hr : r.head? ≠ some '.') :
    absClassName (some segs) (List.replicate k '.' ++ r) =
      joinWith ['.'] (segs.take (segs.length - (k - 1)) ++ [r]) := by
  rw [abs_relative segs k hk r hr, flatMap_dot_append]

/-- One dot: the same directory — all of `segs` is kept. -/
theorem abs_one_dot (segs : List Str) (r : Str) (hr : r.head? ≠ some '.') :
    absClassName (some segs) ('.' :: r) = segs.flatMap (fun s => s ++ ['.']) ++ r := by
  have := abs_relative segs 1 (Nat.le_refl 1) r hr
  simpa using this

/-- Each further dot drops exactly one more directory, as long as there is one to drop. -/
theorem abs_one_more_dot (segs : List Str) (d : Str) (k : Nat) (hk : 1 ≤ k) (hle : k ≤ segs.length)
    (r : Str) (hr : r.head? ≠ some '.') :
    absClassName (some (segs ++ [d])) (List.replicate (k + 1) '.' ++ r) =
      absClassName (some segs) (List.replicate k '.' ++ r) := by
  rw [abs_relative _ (k + 1) (by omega) r hr, abs_relative _ k hk r hr]
  congr 2
  simp only [List.length_append, List.length_singleton, Nat.add_sub_cancel]
  rw [List.take_append_of_le_length (by omega)]
  congr 1
  omega

/-- More dots than there are directories above: never above the root — the result is `r`
in the root. -/
theorem abs_past_root (segs : List Str) (k : Nat) (hk : segs.length < k) (r : Str)
    (hr : r.head? ≠ some '.') :
    absClassName (some segs) (List.replicate k '.' ++ r) = r := by
  rw [abs_relative segs k (by omega) r hr]
  have : segs.length - (k - 1) = 0 := by omega
  rw [this]; simp

/-- A node (no location) resolves includes like a class located in the root. -/
theorem abs_none_eq_nil (cls : Str) : absClassName none cls = absClassName (some []) cls :=
  absClassName_none cls

/-- In a node, any number of leading dots refers to the root: the dots are simply dropped. -/
theorem abs_node_is_root (k : Nat) (r : Str) (hr : r.head? ≠ some '.') :
    absClassName none (List.replicate k '.' ++ r) = r := by
  cases k with
  | zero => simpa using abs_id_on_absolute none r hr
  | succ k =>
    rw [abs_none_eq_nil, abs_relative [] (k + 1) (by omega) r hr]
    simp

/-- If the resolved name does not start with a dot (it can only do so below a directory
whose own name starts with a dot, or for an empty remainder in the root), resolving it
again changes nothing. -/
theorem abs_idempotent (loc : Option (List Str)) (cls : Str)
    (h : (absClassName loc cls).head? ≠ some '.') :
    absClassName loc (absClassName loc cls) = absClassName loc cls :=
  abs_id_on_absolute loc _ h

/-- **Parsing a file makes its includes absolute.** After `Node::from_str` the class list
consists exactly of the absolute forms of the listed includes, without duplicates. -/
theorem ofSrc_classes_absolute (loc : Option (List Str)) (src : ClassSrc) (n : NodeM)
    (h : NodeM.ofSrc loc src = .ok n) :
    (∀ x ∈ n.classes.items, ∃ c ∈ src.classes, x = absClassName loc c) ∧
    (∀ c ∈ src.classes, absClassName loc c ∈ n.classes.items) ∧
    n.classes.items.Nodup := by
  rw [ofSrc_classes_items h]
  refine ⟨?_, ?_, nub_nodup _ _⟩
  · intro x hx
    obtain ⟨c, hc, rfl⟩ := List.mem_map.1 (mem_nub.1 hx).1
    exact ⟨c, (mem_nub.1 hc).1, rfl⟩
  · intro c hc
    refine mem_nub.2 ⟨List.mem_map.2 ⟨c, mem_nub.2 ⟨hc, by simp⟩, rfl⟩, by simp⟩

/-- The class list after parsing, as a list function: deduplicate the raw spellings (first
occurrence wins), make them absolute, deduplicate again. -/
theorem ofSrc_classes_eq (loc : Option (List Str)) (src : ClassSrc) (n : NodeM)
    (h : NodeM.ofSrc loc src = .ok n) :
    n.classes.items = nub [] ((nub [] src.classes).map (absClassName loc)) :=
  ofSrc_classes_items h

/-- **Twin file.** Writing the includes of a file in their absolute form gives the same
parsed node (same class list in the same order, same applications, same parameters) —
provided no absolute form starts with a dot, i.e. resolving again does not change it.
(The first deduplication works on the raw spellings, so two relative spellings of one
class both survive it; the second deduplication removes the later one, which is why the
two files still agree.) -/
theorem ofSrc_twin (loc : Option (List Str)) (src : ClassSrc)
    (hnd : ∀ c ∈ src.classes, (absClassName loc c).head? ≠ some '.') :
    NodeM.ofSrc loc { src with classes := src.classes.map (absClassName loc) } = NodeM.ofSrc loc src := by
  rw [ofSrc_eq, ofSrc_eq]
  simp only
  rw [nub_twin (absClassName loc) src.classes (fun c hc => abs_id_on_absolute loc _ (hnd c hc))]

/-! ### Non-vacuity -/

-- class `a.b.c` (file a/b/c.yml, directory a/b): `.x` is `a.b.x`, `..x` is `a.x`, `...x` is `x`,
-- `....x` is still `x`
example : absClassName (some ["a".toList, "b".toList]) ".x".toList = "a.b.x".toList := by decide
example : absClassName (some ["a".toList, "b".toList]) "..x".toList = "a.x".toList := by decide
example : absClassName (some ["a".toList, "b".toList]) "...x".toList = "x".toList := by decide
example : absClassName (some ["a".toList, "b".toList]) "....x.y".toList = "x.y".toList := by decide
example : absClassName (some ["a".toList, "b".toList]) "x.y".toList = "x.y".toList := by decide
example : absClassName none "..x".toList = "x".toList := by decide

-- the hypotheses of `abs_relative` are satisfiable and the conclusion is the expected text
example : absClassName (some ["a".toList, "b".toList]) (List.replicate 2 '.' ++ "x".toList) = "a.x".toList := by
  rw [abs_relative _ 2 (by decide) _ (by decide)]; decide

-- two spellings of one class are both kept by the first deduplication and merged by the second
example : (NodeM.ofSrc (some ["a".toList]) { classes := [".x".toList, "a.x".toList, "b".toList] }).toOption.map
    (fun n => n.classes.items) = some ["a.x".toList, "b".toList] := by decide

-- the hypothesis of `ofSrc_twin` is needed: below a directory `.h` the absolute form `.h.x`
-- of `.x` is itself read as a relative include
example : absClassName (some [".h".toList]) ".x".toList = ".h.x".toList ∧
    absClassName (some [".h".toList]) ".h.x".toList = ".h.h.x".toList := by decide

end C15
end Reclass
