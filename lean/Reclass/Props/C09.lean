/-
  C09 — Constant keys (`=key`).

  Property theorems only; helper lemmas live in `Lemmas/MappingL`.  All statements are about
  the model functions `Mapping.insertImpl`, `Mapping.merge` (`src/types/mapping.rs`) and
  `mergeV` / `mergeNonVl` (`Value::merge`, `src/types/value.rs`), for every mapping, key
  and value (no size bounds).

  Vocabulary: the *stripped key* of `k` is `k.stripPrefix.1`, its *prefix* is
  `k.stripPrefix.2` (`some .const` for a leading `=`, `some .override` for a leading `~`,
  only for `Key.str`).  `m.ck` is `const_keys`, `m.ok` is `override_keys`.
-/
import Reclass.Lemmas.MappingL
import Reclass.Model.Eval
namespace Reclass
namespace C09

/-! ### 1. Writing to a constant key is rejected -/

/-- Any write (plain, `=`, `~`, forced or not, any value) whose stripped key is present and
constant fails with `constKey`. -/
theorem insert_const_rejects (m : Mapping) (k k0 : Key) (v old : Value) (fc fo : Bool)
    (hs : k.stripPrefix.1 = k0) (hl : lookup k0 m.es = some old) (hc : k0 ∈ m.ck) :
    m.insertImpl k v fc fo = .error (.constKey k0) := by
  subst hs; exact insertImpl_const v fc fo hl hc

/-- The only way `insertImpl` fails is the constant-key rejection, and then the stripped key
is present and constant. -/
theorem insert_error_iff (m : Mapping) (k : Key) (v : Value) (fc fo : Bool) (e : Err) :
    m.insertImpl k v fc fo = .error e ↔
      (e = .constKey k.stripPrefix.1 ∧ (lookup k.stripPrefix.1 m.es).isSome ∧ k.stripPrefix.1 ∈ m.ck) := by
  cases hl : lookup k.stripPrefix.1 m.es with
  | none =>
    rw [insertImpl_absent v fc fo hl]
    simp
  | some old =>
    by_cases hc : k.stripPrefix.1 ∈ m.ck
    · rw [insertImpl_const v fc fo hl hc]
      simp only [Option.isSome_some, hc, and_true]
      constructor
      · intro h; injection h with h; exact h.symm
      · intro h; rw [h]
    · rw [insertImpl_present v fc fo hl hc]
      simp [hc]

/-! ### 2. A `=` write marks the key constant -/

/-- Inserting with prefix `=` (or with `forceConst`) into a mapping where the stripped key is
absent, or not constant, succeeds and the stripped key is constant afterwards. -/
theorem insert_marks_const (m : Mapping) (k k0 : Key) (v : Value) (fc fo : Bool)
    (hs : k.stripPrefix.1 = k0)
    (hp : k.stripPrefix.2 = some .const ∨ fc = true)
    (hfree : lookup k0 m.es = none ∨ k0 ∉ m.ck) :
    ∃ m', m.insertImpl k v fc fo = .ok m' ∧ k0 ∈ m'.ck := by
  subst hs
  cases hl : lookup k.stripPrefix.1 m.es with
  | none =>
    refine ⟨_, insertImpl_absent v fc fo hl, ?_⟩
    dsimp only
    rcases hp with hp | hp
    · simp only [hp, if_true]
      split
      · exact mem_setInsert_self _ _
      · exact mem_setInsert_self _ _
    · simp only [hp, if_true]
      exact mem_setInsert_self _ _
  | some old =>
    have hc : k.stripPrefix.1 ∉ m.ck := by
      rcases hfree with h | h
      · rw [hl] at h; cases h
      · exact h
    refine ⟨_, insertImpl_present v fc fo hl hc, ?_⟩
    dsimp only
    have : (fc || decide (k.stripPrefix.2 = some KeyPrefix.const)) = true := by
      rcases hp with hp | hp <;> simp [hp]
    simp only [this, if_true]
    exact mem_setInsert_self _ _

/-- Whenever a `=`/forced-const insert succeeds, the stripped key is constant afterwards
(no assumption on the target). -/
theorem insert_ok_marks_const (m m' : Mapping) (k : Key) (v : Value) (fc fo : Bool)
    (hp : k.stripPrefix.2 = some .const ∨ fc = true)
    (h : m.insertImpl k v fc fo = .ok m') : k.stripPrefix.1 ∈ m'.ck := by
  rcases insertImpl_ok_cases h with hl | ⟨_, hc⟩
  · obtain ⟨m2, h2, hm⟩ := insert_marks_const m k _ v fc fo rfl hp (Or.inl hl)
    rw [h] at h2; injection h2 with h2; subst h2; exact hm
  · obtain ⟨m2, h2, hm⟩ := insert_marks_const m k _ v fc fo rfl hp (Or.inr hc)
    rw [h] at h2; injection h2 with h2; subst h2; exact hm

/-! ### 3. Constness is permanent -/

/-- No successful insert (of any key) removes a constant flag. -/
theorem const_persists (m m' : Mapping) (k k0 : Key) (v : Value) (fc fo : Bool)
    (hk : k0 ∈ m.ck) (h : m.insertImpl k v fc fo = .ok m') : k0 ∈ m'.ck :=
  insertImpl_ck_mono h hk

/-- No successful merge removes a constant flag of the target. -/
theorem merge_keeps_const (m other m' : Mapping) (k0 : Key)
    (hk : k0 ∈ m.ck) (h : m.merge other = .ok m') : k0 ∈ m'.ck :=
  mergeEntries_ck_mono _ _ _ h hk

/-- A constant key that is present keeps *its value* through any successful merge: nothing can
have written to it. -/
theorem merge_keeps_const_value (m other m' : Mapping) (k0 : Key) (old : Value)
    (hk : k0 ∈ m.ck) (hl : lookup k0 m.es = some old) (h : m.merge other = .ok m') :
    lookup k0 m'.es = some old := by
  suffices H : ∀ (es : List (Key × Value)) (m m' : Mapping), k0 ∈ m.ck → lookup k0 m.es = some old →
      m.mergeEntries other.ck other.ok es = .ok m' → lookup k0 m'.es = some old from
    H _ m m' hk hl h
  intro es
  induction es with
  | nil =>
    intro m m' _ hl h
    simp only [Mapping.mergeEntries] at h
    injection h with h; subst h; exact hl
  | cons e es ih =>
    intro m m' hk hl h
    obtain ⟨k, v⟩ := e
    rw [mergeEntries_cons] at h
    cases h1 : m.insertImpl k v (decide (k ∈ other.ck)) (decide (k ∈ other.ok)) with
    | error e => simp [h1] at h
    | ok m1 =>
      simp only [h1] at h
      have hne : k0 ≠ k.stripPrefix.1 := by
        intro e
        rw [insert_const_rejects m k k0 v old _ _ e.symm hl hk] at h1
        cases h1
      refine ih m1 m' (insertImpl_ck_mono h1 hk) ?_ h
      rw [insertImpl_lookup_ne h1 hne]; exact hl

/-! ### 4. Constness of the merged-in mapping propagates -/

/-- General form: every entry `(k, v)` of `other` whose stored key is in `other.ck` makes its
stripped key constant in the result of a successful merge. -/
theorem merge_propagates_const_stripped (m other m' : Mapping) (k : Key) (v : Value)
    (hck : k ∈ other.ck) (hmem : (k, v) ∈ other.es) (h : m.merge other = .ok m') :
    k.stripPrefix.1 ∈ m'.ck := by
  suffices H : ∀ (es : List (Key × Value)) (m m' : Mapping), (k, v) ∈ es →
      m.mergeEntries other.ck other.ok es = .ok m' → k.stripPrefix.1 ∈ m'.ck from
    H _ m m' hmem h
  intro es
  induction es with
  | nil => intro m m' hmem; simp at hmem
  | cons e es ih =>
    intro m m' hmem h
    obtain ⟨k', v'⟩ := e
    rw [mergeEntries_cons] at h
    cases h1 : m.insertImpl k' v' (decide (k' ∈ other.ck)) (decide (k' ∈ other.ok)) with
    | error e => simp [h1] at h
    | ok m1 =>
      simp only [h1] at h
      rcases List.mem_cons.1 hmem with heq | hmem'
      · cases heq
        have : k.stripPrefix.1 ∈ m1.ck :=
          insert_ok_marks_const m m1 k v _ _ (Or.inr (by simp [hck])) h1
        exact mergeEntries_ck_mono _ _ _ h this
      · exact ih m1 m' hmem' h

/-- A constant stored key of `other` (stored keys are already stripped, so stripping is the
identity on it) is constant in the result of a successful merge. -/
theorem merge_propagates_const (m other m' : Mapping) (k : Key) (v : Value)
    (hck : k ∈ other.ck) (hl : lookup k other.es = some v) (hs : k.stripPrefix = (k, none))
    (h : m.merge other = .ok m') : k ∈ m'.ck := by
  have := merge_propagates_const_stripped m other m' k v hck (lookup_mem_entry hl) h
  rw [hs] at this; exact this

/-! ### 5. Constant in the target, written by `other`: the merge fails -/

/-- Every failure of `Mapping.merge` is a constant-key rejection. -/
theorem merge_error_is_constKey (m other : Mapping) (e : Err) (h : m.merge other = .error e) :
    ∃ k', e = .constKey k' := by
  suffices H : ∀ (es : List (Key × Value)) (m : Mapping),
      m.mergeEntries other.ck other.ok es = .error e → ∃ k', e = .constKey k' from H _ m h
  intro es
  induction es with
  | nil => intro m h; simp [Mapping.mergeEntries] at h
  | cons e' es ih =>
    intro m h
    obtain ⟨k, v⟩ := e'
    rw [mergeEntries_cons] at h
    cases h1 : m.insertImpl k v (decide (k ∈ other.ck)) (decide (k ∈ other.ok)) with
    | error e1 =>
      simp only [h1] at h
      injection h with h; subst h
      exact ⟨_, ((insert_error_iff _ _ _ _ _ _).1 h1).1⟩
    | ok m1 =>
      simp only [h1] at h
      exact ih m1 h

/-- If `k0` is constant and present in the target and `other` has *any* entry whose stripped
key is `k0` (plain, `=k0` or `~k0`), the merge fails. -/
theorem const_then_write_fails (m other : Mapping) (k k0 : Key) (v old : Value)
    (hk : k0 ∈ m.ck) (hl : lookup k0 m.es = some old)
    (hmem : (k, v) ∈ other.es) (hs : k.stripPrefix.1 = k0) :
    ∃ e, m.merge other = .error e := by
  suffices H : ∀ (es : List (Key × Value)) (m : Mapping), k0 ∈ m.ck → k0 ∈ m.es.map Prod.fst →
      (k, v) ∈ es → ∃ e, m.mergeEntries other.ck other.ok es = .error e from
    H _ m hk (lookup_isSome_iff.1 (by simp [hl])) hmem
  intro es
  induction es with
  | nil => intro m _ _ hmem; simp at hmem
  | cons e' es ih =>
    intro m hk hpres hmem
    obtain ⟨k', v'⟩ := e'
    rw [mergeEntries_cons]
    cases h1 : m.insertImpl k' v' (decide (k' ∈ other.ck)) (decide (k' ∈ other.ok)) with
    | error e1 => exact ⟨e1, rfl⟩
    | ok m1 =>
      rcases List.mem_cons.1 hmem with heq | hmem'
      · cases heq
        obtain ⟨w, hw⟩ := Option.isSome_iff_exists.1 (lookup_isSome_iff.2 hpres)
        rw [insert_const_rejects m k k0 v w _ _ hs hw hk] at h1
        cases h1
      · exact ih m1 (insertImpl_ck_mono h1 hk) (insertImpl_keys_mono h1 hpres) hmem'

/-- … and the failure is a constant-key rejection. -/
theorem const_then_write_fails_constKey (m other : Mapping) (k k0 : Key) (v old : Value)
    (hk : k0 ∈ m.ck) (hl : lookup k0 m.es = some old)
    (hmem : (k, v) ∈ other.es) (hs : k.stripPrefix.1 = k0) :
    ∃ k', m.merge other = .error (.constKey k') := by
  obtain ⟨e, he⟩ := const_then_write_fails m other k k0 v old hk hl hmem hs
  obtain ⟨k', hk'⟩ := merge_error_is_constKey m other e he
  exact ⟨k', by rw [he, hk']⟩

/-- Exact error: if the entries of `other` before the offending one merge fine, the error
names exactly `k0`. -/
theorem const_then_write_fails_exact (m other m1 : Mapping) (k k0 : Key) (v old : Value)
    (pre post : List (Key × Value))
    (hk : k0 ∈ m.ck) (hl : lookup k0 m.es = some old)
    (hes : other.es = pre ++ (k, v) :: post) (hs : k.stripPrefix.1 = k0)
    (hpre : m.mergeEntries other.ck other.ok pre = .ok m1) :
    m.merge other = .error (.constKey k0) := by
  rw [merge_eq, hes, mergeEntries_append, hpre]
  dsimp only
  rw [mergeEntries_cons]
  have hk1 : k0 ∈ m1.ck := mergeEntries_ck_mono _ _ _ hpre hk
  have hp1 : k0 ∈ m1.es.map Prod.fst :=
    mergeEntries_keys_mono _ _ _ hpre (lookup_isSome_iff.1 (by simp [hl]))
  obtain ⟨w, hw⟩ := Option.isSome_iff_exists.1 (lookup_isSome_iff.2 hp1)
  rw [insert_const_rejects m1 k k0 v w _ _ hs hw hk1]

/-- Exact error for a single-entry `other`. -/
theorem const_then_write_fails_single (m other : Mapping) (k k0 : Key) (v old : Value)
    (hk : k0 ∈ m.ck) (hl : lookup k0 m.es = some old)
    (hes : other.es = [(k, v)]) (hs : k.stripPrefix.1 = k0) :
    m.merge other = .error (.constKey k0) :=
  const_then_write_fails_exact m other m k k0 v old [] [] hk hl (by simpa using hes) hs rfl

/-! ### 6. Siblings are not affected -/

/-- An insert for stripped key `k0` leaves the value, the constant flag and the override flag
of every other key `k1` unchanged. -/
theorem siblings_unaffected (m m' : Mapping) (k k0 k1 : Key) (v : Value) (fc fo : Bool)
    (hs : k.stripPrefix.1 = k0) (hne : k1 ≠ k0) (h : m.insertImpl k v fc fo = .ok m') :
    lookup k1 m'.es = lookup k1 m.es ∧ (k1 ∈ m'.ck ↔ k1 ∈ m.ck) ∧ (k1 ∈ m'.ok ↔ k1 ∈ m.ok) := by
  subst hs
  exact ⟨insertImpl_lookup_ne h hne, insertImpl_ck_ne h hne, insertImpl_ok_ne h hne⟩

/-! ### 7. A null layer lifts everything, constants included -/

/-- Merging `null` over anything (also over a mapping with constant keys) gives `null`. -/
theorem mergeV_null_lifts (self : Value) (st : RState) : mergeV self .null st = .ok .null := by
  simp [mergeV]

/-- Merging anything over `null` gives that thing. -/
theorem mergeNonVl_null (other : Value) (st : RState) : mergeNonVl .null other st = .ok other := rfl

/-! ### Non-vacuity -/

/-- `{a: 1}` with `a` constant. -/
private def mA : Mapping := { es := [(.str "a".toList, .num (.int 1))], ck := [.str "a".toList], ok := [] }

-- a plain, a `~` and a `=` write to the constant key `a` are all rejected
example : mA.insertImpl (.str "a".toList) (.num (.int 2)) false false = .error (.constKey (.str "a".toList)) := rfl
example : mA.insertImpl (.str "~a".toList) (.num (.int 2)) false false = .error (.constKey (.str "a".toList)) := rfl
example : mA.insertImpl (.str "=a".toList) (.num (.int 2)) false true = .error (.constKey (.str "a".toList)) := rfl
-- hypotheses of `insert_const_rejects` are satisfiable
example : (Key.str "~a".toList).stripPrefix.1 = .str "a".toList ∧
    lookup (.str "a".toList) mA.es = some (.num (.int 1)) ∧ Key.str "a".toList ∈ mA.ck :=
  ⟨rfl, rfl, by decide⟩

-- `=b` into `{a: 1}` marks `b` constant, keeps `a` constant, leaves `a`'s value alone
example : ∃ m', mA.insertImpl (.str "=b".toList) .null false false = .ok m' ∧
    Key.str "b".toList ∈ m'.ck ∧ Key.str "a".toList ∈ m'.ck ∧
    lookup (.str "a".toList) m'.es = some (.num (.int 1)) :=
  ⟨_, rfl, by decide, by decide, rfl⟩

-- merging `{a: 2}` into `{=a: 1}` fails with the exact error
example : mA.merge { es := [(.str "a".toList, .num (.int 2))] } = .error (.constKey (.str "a".toList)) := rfl

-- merging `{=b: 2}` (stored: key `b` in `ck`) into `{}` propagates constness
example : ∃ m', ({} : Mapping).merge { es := [(.str "b".toList, .num (.int 2))], ck := [.str "b".toList] } = .ok m' ∧
    Key.str "b".toList ∈ m'.ck := ⟨_, rfl, by decide⟩

-- a null layer over a mapping with a constant key
example (st : RState) : mergeV mA.toValue .null st = .ok .null := mergeV_null_lifts _ _

end C09
end Reclass
