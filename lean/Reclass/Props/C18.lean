/-
  C18 — … parameter `_reclass_` exposes environment `base` and name {full, short, parts,
  path}, where parts are the node's path segments (the name alone without composition, only
  the last segment below `_`-prefixed directories, the name split at dots when the
  literal-dots compatibility flag is set), path joins parts with `/` and short is the last
  part.

  Property theorems only; helper lemmas live in `Lemmas/NamingL`.  The statements are about
  `MetaM.asReclass` (`NodeInfoMeta::as_reclass`, `src/node/nodeinfo.rs`) and the metadata
  that `renderNode` (`Reclass::render_node`) hands to it.
-/
import Reclass.Lemmas.NamingL
namespace Reclass
namespace C18

/-- The parts reported for a node: with composition *and* the literal-dots flag, the node
name split at dots; otherwise, if the first path segment starts with `_`, only the last
segment; otherwise the path segments as they are.  (Definition `Reclass.expectedParts` in
`Lemmas/NamingL`, repeated here as a checked equation.) -/
theorem expectedParts_def (m : MetaM) (cfg : NodeCfg) :
    expectedParts m cfg =
      if cfg.composeNodeName && cfg.literalDots then splitOn '.' m.name
      else if m.parts.head?.bind List.head? = some '_' then [m.parts.getLast?.getD []]
      else m.parts := rfl

/-- With `m.parts = p0 :: rest` the `_` test looks at the first character of `p0`. -/
theorem expectedParts_cons (m : MetaM) (cfg : NodeCfg) (p0 : Str) (rest : List Str)
    (hp : m.parts = p0 :: rest) :
    expectedParts m cfg =
      if cfg.composeNodeName && cfg.literalDots then splitOn '.' m.name
      else if p0.head? = some '_' then [(p0 :: rest).getLast (by simp)]
      else p0 :: rest := by
  unfold expectedParts
  rw [hp]
  simp [List.getLast?_eq_some_getLast]

/-- `str::split` never returns an empty list. -/
theorem splitOn_ne_nil (sep : Char) (s : Str) : splitOn sep s ≠ [] := Reclass.splitOn_ne_nil sep s

/-- The reported parts are never empty (so `short` always exists). -/
theorem expectedParts_ne_nil (m : MetaM) (cfg : NodeCfg) (h : m.parts ≠ []) :
    expectedParts m cfg ≠ [] := Reclass.expectedParts_ne_nil cfg h

/-- **The `_reclass_` mapping.** For metadata with at least one path segment, `as_reclass`
succeeds; the result has `environment` = the environment, and `name` = a mapping with
`full` = the node name, `parts` = the expected parts (as a sequence of strings), `path` =
the parts joined with `/`, and `short` = the last part. -/
theorem parts_cases (m : MetaM) (cfg : NodeCfg) (p0 : Str) (rest : List Str) (hp : m.parts = p0 :: rest) :
    ∃ r nes nck nok, m.asReclass cfg = .ok r ∧
      lookup (.str "environment".toList) r.es = some (.str m.environment) ∧
      lookup (.str "name".toList) r.es = some (.map nes nck nok) ∧
      lookup (.str "full".toList) nes = some (.str m.name) ∧
      lookup (.str "parts".toList) nes = some (.seq ((expectedParts m cfg).map Value.str)) ∧
      lookup (.str "path".toList) nes = some (.str (joinWith ['/'] (expectedParts m cfg))) ∧
      lookup (.str "short".toList) nes =
        some (.str ((expectedParts m cfg).getLast (expectedParts_ne_nil m cfg (by rw [hp]; simp)))) := by
  have hne : m.parts ≠ [] := by rw [hp]; simp
  have hl : (expectedParts m cfg).getLast?.getD [] =
      (expectedParts m cfg).getLast (expectedParts_ne_nil m cfg hne) := by
    rw [List.getLast?_eq_some_getLast (expectedParts_ne_nil m cfg hne)]; rfl
  refine ⟨_, _, _, _, asReclass_eq cfg hne, rfl, rfl, rfl, rfl, rfl, ?_⟩
  rw [← hl]
  rfl

/-- The result holds exactly these two keys, and `name` exactly these four, in this order;
no key is marked constant or overriding. -/
theorem asReclass_shape (m : MetaM) (cfg : NodeCfg) (h : m.parts ≠ []) :
    m.asReclass cfg = .ok
      { es := [(.str "environment".toList, .str m.environment),
               (.str "name".toList,
                 .map [(.str "full".toList, .str m.name),
                       (.str "parts".toList, .seq ((expectedParts m cfg).map Value.str)),
                       (.str "path".toList, .str (joinWith ['/'] (expectedParts m cfg))),
                       (.str "short".toList, .str ((expectedParts m cfg).getLast?.getD []))] [] [])],
        ck := [], ok := [] } :=
  asReclass_eq cfg h

/-- Without any path segment `as_reclass` fails. -/
theorem asReclass_empty_parts (m : MetaM) (cfg : NodeCfg) (h : m.parts = []) :
    m.asReclass cfg = .error .metaParts := by
  unfold MetaM.asReclass
  rw [h]

/-! ### The three cases of `parts`, spelled out -/

/-- Without the literal-dots flag (or without composition) and with a first segment not
starting with `_`, parts are the path segments. -/
theorem parts_plain (m : MetaM) (cfg : NodeCfg) (h1 : (cfg.composeNodeName && cfg.literalDots) = false)
    (h2 : m.parts.head?.bind List.head? ≠ some '_') : expectedParts m cfg = m.parts := by
  unfold expectedParts; rw [h1, if_neg h2]; rfl

/-- Below a `_`-prefixed first segment only the last segment is reported. -/
theorem parts_underscore (m : MetaM) (cfg : NodeCfg) (h1 : (cfg.composeNodeName && cfg.literalDots) = false)
    (h2 : m.parts.head?.bind List.head? = some '_') :
    expectedParts m cfg = [m.parts.getLast?.getD []] := by
  unfold expectedParts; rw [h1, if_pos h2]; rfl

/-- With composition and the literal-dots flag, parts are the name split at dots. -/
theorem parts_literal_dots (m : MetaM) (cfg : NodeCfg) (h1 : cfg.composeNodeName = true)
    (h2 : cfg.literalDots = true) : expectedParts m cfg = splitOn '.' m.name := by
  unfold expectedParts; rw [h1, h2]; rfl

/-- Splitting a dotted name whose segments are dot-free gives the segments back, so for a
composed node name `a.b.c` the flag reports `[a, b, c]`. -/
theorem splitOn_join (segs : List Str) (hne : segs ≠ []) (h : ∀ s ∈ segs, ∀ c ∈ s, c ≠ '.') :
    splitOn '.' (joinWith ['.'] segs) = segs :=
  splitOn_joinWith hne h

/-! ### The metadata of a rendered node -/

/-- The `NodeInfoMeta` of a discovered node: node and name are the node name, the URI is
`yaml_fs://<nodes path>/<relative file path>`, the environment is `base`, and the parts
are the name alone without composition (no part at all for the empty name, which a file
`init.yml` directly in the nodes directory gets), else the relative path segments with the
extension dropped from the last one. -/
def expectedMeta (r : Inv) (name : Str) (info : EntityInfo) : MetaM :=
  { node := name
    name := name
    uri := "yaml_fs://".toList ++ r.cfg.nodesPath ++ "/".toList ++ joinWith "/".toList info.path
    environment := "base".toList
    parts := if r.cfg.composeNodeName then
        match info.path.reverse with
        | [] => []
        | last :: revInit => revInit.reverse ++ [stemNoExt last]
      else if name.isEmpty then [] else [name] }

/-- `render_node` renders a discovered node with exactly this metadata. -/
theorem render_meta (fuel : Nat) (r : Inv) (name : Str) (info : EntityInfo) (src : ClassSrc)
    (h : findEntity name r.nodes = some (info, .ok src)) :
    renderNode fuel r name = renderNodeSrc fuel r (expectedMeta r name info) src := by
  unfold renderNode
  rw [h]
  rfl

/-- Unknown nodes and unreadable node files are errors. -/
theorem render_meta_errors (fuel : Nat) (r : Inv) (name : Str) :
    (findEntity name r.nodes = none → renderNode fuel r name = .error (.unknownNode name)) ∧
    (∀ info w, findEntity name r.nodes = some (info, .bad w) → renderNode fuel r name = .error (.io w)) := by
  constructor
  · intro h; unfold renderNode; rw [h]
  · intro info w h; unfold renderNode; rw [h]

/-- With composition, a node file `dirs/stem.ext` (non-empty stem other than `.`, dot-free
extension) has parts `dirs ++ [stem]`. -/
theorem meta_parts_composed (r : Inv) (name : Str) (info : EntityInfo) (dirs : List Str) (stem ext : Str)
    (hc : r.cfg.composeNodeName = true) (hpath : info.path = dirs ++ [stem ++ '.' :: ext])
    (hne : stem ≠ []) (hdot : stem ≠ ['.']) (hext : ∀ c ∈ ext, c ≠ '.') :
    (expectedMeta r name info).parts = dirs ++ [stem] := by
  simp only [expectedMeta, hc, if_true, hpath, List.reverse_append, List.reverse_cons, List.reverse_nil,
    List.nil_append, List.singleton_append, List.reverse_reverse, stemNoExt_append hne hdot hext]

/-- Without composition the parts are the node name alone. -/
theorem meta_parts_plain (r : Inv) (name : Str) (info : EntityInfo) (hc : r.cfg.composeNodeName = false)
    (hn : name ≠ []) : (expectedMeta r name info).parts = [name] := by
  cases name with
  | nil => exact absurd rfl hn
  | cons c cs => simp [expectedMeta, hc]

/-- Without composition the reported parts of a rendered node are its name alone (and so
`path` and `short` are the name, too) — also when the name starts with `_`. -/
theorem meta_asReclass_plain (r : Inv) (name : Str) (info : EntityInfo) (hc : r.cfg.composeNodeName = false)
    (hn : name ≠ []) : expectedParts (expectedMeta r name info) r.cfg = [name] := by
  have hp := meta_parts_plain r name info hc hn
  unfold expectedParts
  rw [hc, hp]
  simp only [Bool.false_and, Bool.false_eq_true, if_false]
  split <;> rfl

/-- The node with the empty name (file `init.yml` directly in the nodes directory, no
composition) has no parts, so rendering its `_reclass_` data fails. -/
theorem meta_empty_name_fails (r : Inv) (info : EntityInfo) (hc : r.cfg.composeNodeName = false) :
    (expectedMeta r [] info).asReclass r.cfg = .error .metaParts := by
  apply asReclass_empty_parts
  simp [expectedMeta, hc]

/-! ### Non-vacuity -/

-- node file `d1/n.yml`, composition on: parts [d1, n], path d1/n, short n
example : ({ node := "d1.n".toList, name := "d1.n".toList, environment := "base".toList,
             parts := ["d1".toList, "n".toList] } : MetaM).asReclass { composeNodeName := true } =
    .ok { es := [(.str "environment".toList, .str "base".toList),
                 (.str "name".toList,
                   .map [(.str "full".toList, .str "d1.n".toList),
                         (.str "parts".toList, .seq [.str "d1".toList, .str "n".toList]),
                         (.str "path".toList, .str "d1/n".toList),
                         (.str "short".toList, .str "n".toList)] [] [])],
          ck := [], ok := [] } := by rfl

-- below `_d1` only the last segment is reported
example : expectedParts { name := "n".toList, parts := ["_d1".toList, "n".toList] } { composeNodeName := true }
    = ["n".toList] := by decide
-- literal dots: the name is split at dots, whatever the path was
example : expectedParts { name := "a.b".toList, parts := ["d".toList, "a.b".toList] }
    { composeNodeName := true, literalDots := true } = ["a".toList, "b".toList] := by decide
-- the flag alone (without composition) changes nothing
example : expectedParts { name := "a.b".toList, parts := ["a.b".toList] } { literalDots := true }
    = ["a.b".toList] := by decide
example : ({ parts := [] } : MetaM).asReclass {} = .error .metaParts := by rfl

-- the metadata of node `n` in file `d1/n.yml` under nodes path `/inv/nodes`
example : expectedMeta { cfg := { nodesPath := "/inv/nodes".toList, composeNodeName := true } } "d1.n".toList
    { path := ["d1".toList, "n.yml".toList], loc := ["d1".toList] } =
    { node := "d1.n".toList, name := "d1.n".toList, uri := "yaml_fs:///inv/nodes/d1/n.yml".toList,
      environment := "base".toList, parts := ["d1".toList, "n".toList] } := by decide

end C18
end Reclass
