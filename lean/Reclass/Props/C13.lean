/-
  C13 — The full inventory contains exactly the discovered nodes; its class index and
  application index map each name to the sorted list of exactly those nodes whose rendered
  class list / application list contains it, with no empty or stale entries.  Rendering the
  inventory fails iff rendering some node fails, and the error names a node that fails.

  Property theorems only; helper lemmas live in `Lemmas/InventoryL`.  All statements are about
  the model function `Inventory.render` (`Inventory::render`, `src/inventory.rs`) applied to the
  list `results` of `(node name, per-node result)` pairs in *any* iteration order and of *any*
  length.  `ixLookup c ix` is the list stored under key `c` in an index (`[]` if absent).
  Hypotheses that a statement does not need (e.g. distinct node names) are omitted.
-/
import Reclass.Lemmas.InventoryL
namespace Reclass
namespace C13

/-- "Sorted" for a stored node list: ascending in the code-point order of `String`. -/
abbrev Sorted (l : List Str) : Prop := l.Pairwise (fun a b => strLe a b = true)

/-- Hypothesis of item 5: no node lists a class or an application twice (true of the
`UniqueList` / `RemovableList` output, cf. C17). -/
def NoDupLists (results : List (Str × R NodeInfoM)) : Prop :=
  ∀ p ∈ results, ∀ info, p.2 = .ok info → info.classes.Nodup ∧ info.apps.Nodup

/-! ### Failure -/

/-- **Rendering the inventory fails if and only if rendering some node fails.** -/
theorem fails_iff_some_node_fails (results : List (Str × R NodeInfoM)) :
    (∃ e, Inventory.render results = .error e) ↔ (∃ p ∈ results, ∃ e, p.2 = .error e) := by
  constructor
  · rintro ⟨e, h⟩
    obtain ⟨pre, name, e', post, hr, _⟩ := collect_error_iff.1 h
    exact ⟨(name, .error e'), by rw [hr]; simp, e', rfl⟩
  · rintro ⟨p, hp, e, he⟩
    cases h : Inventory.render results with
    | error e0 => exact ⟨e0, rfl⟩
    | ok inv =>
      obtain ⟨infos, hi, _⟩ := render_ok_inv h
      rw [hi, List.mem_map] at hp
      obtain ⟨q, _, rfl⟩ := hp
      simp [okEntry] at he

/-- **The error names a node that fails**, and carries that node's own error. -/
theorem error_names_failing_node {results : List (Str × R NodeInfoM)} {e : Err}
    (h : Inventory.render results = .error e) :
    ∃ name e', e = .nodeFailed name e' ∧ (name, .error e') ∈ results := by
  obtain ⟨pre, name, e', post, hr, he⟩ := collect_error_iff.1 h
  exact ⟨name, e', he, by rw [hr]; simp⟩

/-- Sharper: the error is that of the *first* failing node in iteration order — everything
before it succeeded.  (With a hash map the iteration order is arbitrary, so which failing node
is reported is not determined when several fail; see the examples at the end.) -/
theorem error_names_first_failing_node {results : List (Str × R NodeInfoM)} {e : Err} :
    Inventory.render results = .error e ↔
      ∃ (pre : List (Str × NodeInfoM)) (name : Str) (e' : Err) (post : List (Str × R NodeInfoM)),
        results = pre.map okEntry ++ (name, .error e') :: post ∧ e = .nodeFailed name e' :=
  collect_error_iff

/-- If every node renders, the inventory renders. -/
theorem succeeds_of_all_nodes_succeed {results : List (Str × R NodeInfoM)}
    (h : ∀ p ∈ results, ∀ e, p.2 ≠ .error e) : ∃ inv, Inventory.render results = .ok inv :=
  collect_ok_of_all_ok {} h

/-! ### Nodes -/

/-- **The inventory contains exactly the discovered nodes**, in iteration order, and each stored
entry is the node's own result. -/
theorem nodes_exact {results : List (Str × R NodeInfoM)} {inv : InventoryM}
    (h : Inventory.render results = .ok inv) :
    inv.nodes.map Prod.fst = results.map Prod.fst ∧
    ∀ name info, (name, info) ∈ inv.nodes ↔ (name, .ok info) ∈ results := by
  obtain ⟨infos, hi, _, hn, _, _⟩ := render_ok_inv h
  rw [hn, hi]
  exact ⟨(map_fst_map_okEntry infos).symm, fun _ _ => mem_map_okEntry.symm⟩

/-- The stored node list *is* the result list (each result unwrapped), entry by entry. -/
theorem nodes_eq {results : List (Str × R NodeInfoM)} {inv : InventoryM}
    (h : Inventory.render results = .ok inv) :
    results = inv.nodes.map (fun p => (p.1, .ok p.2)) := by
  obtain ⟨infos, hi, _, hn, _, _⟩ := render_ok_inv h
  rw [hn, hi]; rfl

/-- With distinct discovered names, the stored names are distinct (the node map is a map). -/
theorem node_names_nodup {results : List (Str × R NodeInfoM)} {inv : InventoryM}
    (hd : (results.map Prod.fst).Nodup) (h : Inventory.render results = .ok inv) :
    (inv.nodes.map Prod.fst).Nodup := by
  rw [(nodes_exact h).1]; exact hd

/-! ### Class index -/

/-- **The class index is the inverse of the per-node class lists**: node `n` is listed under
class `c` iff `n` is a rendered node whose class list contains `c`. -/
theorem class_index_inverse {results : List (Str × R NodeInfoM)} {inv : InventoryM}
    (h : Inventory.render results = .ok inv) (c n : Str) :
    n ∈ ixLookup c inv.classes ↔ ∃ info, (n, .ok info) ∈ results ∧ c ∈ info.classes := by
  obtain ⟨infos, hi, _, _, hc, _⟩ := render_ok_inv h
  rw [hc, hi, mem_ixLookup_ixFold]
  simp only [mem_map_okEntry]

/-- **No stale keys**: `c` is a key of the class index iff some rendered node has class `c`. -/
theorem class_keys_exact {results : List (Str × R NodeInfoM)} {inv : InventoryM}
    (h : Inventory.render results = .ok inv) (c : Str) :
    c ∈ inv.classes.map Prod.fst ↔ ∃ n info, (n, .ok info) ∈ results ∧ c ∈ info.classes := by
  obtain ⟨infos, hi, _, _, hc, _⟩ := render_ok_inv h
  rw [hc, hi, mem_keys_ixFold_nil]
  simp only [mem_map_okEntry]

/-- **Index keys are unique** (so "the list stored under `c`" is well defined). -/
theorem class_keys_nodup {results : List (Str × R NodeInfoM)} {inv : InventoryM}
    (h : Inventory.render results = .ok inv) : (inv.classes.map Prod.fst).Nodup := by
  obtain ⟨infos, _, _, _, hc, _⟩ := render_ok_inv h
  rw [hc]; exact nodup_keys_ixFold_nil _ _

/-- Every entry `(c, ns)` of the class index is the one `ixLookup` finds. -/
theorem class_entry_eq_lookup {results : List (Str × R NodeInfoM)} {inv : InventoryM}
    (h : Inventory.render results = .ok inv) {c : Str} {ns : List Str} (hm : (c, ns) ∈ inv.classes) :
    ixLookup c inv.classes = ns :=
  ixLookup_eq_of_mem (class_keys_nodup h) hm

/-! ### Application index -/

/-- **The application index is the inverse of the per-node application lists.** -/
theorem app_index_inverse {results : List (Str × R NodeInfoM)} {inv : InventoryM}
    (h : Inventory.render results = .ok inv) (a n : Str) :
    n ∈ ixLookup a inv.apps ↔ ∃ info, (n, .ok info) ∈ results ∧ a ∈ info.apps := by
  obtain ⟨infos, hi, _, _, _, ha⟩ := render_ok_inv h
  rw [ha, hi, mem_ixLookup_ixFold]
  simp only [mem_map_okEntry]

/-- **No stale keys**: `a` is a key of the application index iff some rendered node has it. -/
theorem app_keys_exact {results : List (Str × R NodeInfoM)} {inv : InventoryM}
    (h : Inventory.render results = .ok inv) (a : Str) :
    a ∈ inv.apps.map Prod.fst ↔ ∃ n info, (n, .ok info) ∈ results ∧ a ∈ info.apps := by
  obtain ⟨infos, hi, _, _, _, ha⟩ := render_ok_inv h
  rw [ha, hi, mem_keys_ixFold_nil]
  simp only [mem_map_okEntry]

/-- **Index keys are unique.** -/
theorem app_keys_nodup {results : List (Str × R NodeInfoM)} {inv : InventoryM}
    (h : Inventory.render results = .ok inv) : (inv.apps.map Prod.fst).Nodup := by
  obtain ⟨infos, _, _, _, _, ha⟩ := render_ok_inv h
  rw [ha]; exact nodup_keys_ixFold_nil _ _

/-- Every entry `(a, ns)` of the application index is the one `ixLookup` finds. -/
theorem app_entry_eq_lookup {results : List (Str × R NodeInfoM)} {inv : InventoryM}
    (h : Inventory.render results = .ok inv) {a : Str} {ns : List Str} (hm : (a, ns) ∈ inv.apps) :
    ixLookup a inv.apps = ns :=
  ixLookup_eq_of_mem (app_keys_nodup h) hm

/-! ### No empty entries, sortedness, no duplicates -/

/-- **No empty entries**: every list stored in either index is non-empty. -/
theorem no_empty_entries {results : List (Str × R NodeInfoM)} {inv : InventoryM}
    (h : Inventory.render results = .ok inv) :
    (∀ p ∈ inv.classes, p.2 ≠ []) ∧ (∀ p ∈ inv.apps, p.2 ≠ []) := by
  obtain ⟨infos, _, _, _, hc, ha⟩ := render_ok_inv h
  rw [hc, ha]
  exact ⟨nonempty_ixFold_nil _ _, nonempty_ixFold_nil _ _⟩

/-- **Every stored list is sorted** (no hypothesis), **and duplicate-free** provided the node
names are distinct and no node lists a class / application twice. -/
theorem lists_sorted_nodup {results : List (Str × R NodeInfoM)} {inv : InventoryM}
    (h : Inventory.render results = .ok inv) :
    ((∀ p ∈ inv.classes, Sorted p.2) ∧ (∀ p ∈ inv.apps, Sorted p.2)) ∧
    ((results.map Prod.fst).Nodup → NoDupLists results →
      (∀ p ∈ inv.classes, p.2.Nodup) ∧ (∀ p ∈ inv.apps, p.2.Nodup)) := by
  obtain ⟨infos, hi, _, _, hc, ha⟩ := render_ok_inv h
  rw [hc, ha]
  refine ⟨⟨sorted_ixFold_nil _ _, sorted_ixFold_nil _ _⟩, ?_⟩
  intro hd hnd
  rw [hi, map_fst_map_okEntry] at hd
  have hnd' : ∀ p ∈ infos, p.2.classes.Nodup ∧ p.2.apps.Nodup := by
    intro p hp
    refine hnd (okEntry p) ?_ p.2 rfl
    rw [hi]; exact List.mem_map.2 ⟨p, hp, rfl⟩
  exact ⟨nodup_entry_ixFold hd (fun p hp => (hnd' p hp).1),
         nodup_entry_ixFold hd (fun p hp => (hnd' p hp).2)⟩

/-- The sort is the canonical one: what is stored under `c` is *the* sorted arrangement
(`sortStrs = List.mergeSort` w.r.t. `strLe`, a total order, so the arrangement is unique) of the
names of the stored nodes that have class `c` — closed form, under the hypotheses of item 5.
Same for applications. -/
theorem index_closed_form {results : List (Str × R NodeInfoM)} {inv : InventoryM}
    (h : Inventory.render results = .ok inv) (hnd : NoDupLists results) (k : Str) :
    ixLookup k inv.classes =
      sortStrs ((inv.nodes.filter (fun p => decide (k ∈ p.2.classes))).map Prod.fst) ∧
    ixLookup k inv.apps =
      sortStrs ((inv.nodes.filter (fun p => decide (k ∈ p.2.apps))).map Prod.fst) := by
  obtain ⟨infos, hi, _, hn, hc, ha⟩ := render_ok_inv h
  have hnd' : ∀ p ∈ infos, p.2.classes.Nodup ∧ p.2.apps.Nodup := by
    intro p hp
    refine hnd (okEntry p) ?_ p.2 rfl
    rw [hi]; exact List.mem_map.2 ⟨p, hp, rfl⟩
  rw [hc, ha, hn, ixLookup_ixFold_eq, ixLookup_ixFold_eq,
    occ_eq_filter (fun p hp => (hnd' p hp).1), occ_eq_filter (fun p hp => (hnd' p hp).2)]
  exact ⟨rfl, rfl⟩

/-- The order used for sorting is a total order on strings (so "sorted" pins down the list). -/
theorem strLe_total_order :
    (∀ a b : Str, strLe a b = true ∨ strLe b a = true) ∧
    (∀ a b c : Str, strLe a b = true → strLe b c = true → strLe a c = true) ∧
    (∀ a b : Str, strLe a b = true → strLe b a = true → a = b) :=
  ⟨fun a b => by simpa using strLe_total a b, strLe_trans, fun _ _ => strLe_antisymm⟩

/-! ### Non-vacuity -/

section Examples

private def n1 : NodeInfoM :=
  { nmeta := {}, apps := ["a1".toList], classes := ["c1".toList, "c2".toList], params := {} }
private def n2 : NodeInfoM :=
  { nmeta := {}, apps := ["a1".toList, "a2".toList], classes := ["c2".toList], params := {} }
private def n3 : NodeInfoM :=
  { nmeta := {}, apps := [], classes := ["c3".toList, "c1".toList], params := {} }
/-- A node that lists class `c1` twice (not producible by the class-list model, cf. C17). -/
private def nDup : NodeInfoM :=
  { nmeta := {}, apps := [], classes := ["c1".toList, "c1".toList], params := {} }

/-- three nodes, iteration order n2, n3, n1 -/
private def results3 : List (Str × R NodeInfoM) :=
  [("n2".toList, .ok n2), ("n3".toList, .ok n3), ("n1".toList, .ok n1)]

private def classesOf (r : R InventoryM) : List (Str × List Str) :=
  match r with | .ok inv => inv.classes | .error _ => []
private def appsOf (r : R InventoryM) : List (Str × List Str) :=
  match r with | .ok inv => inv.apps | .error _ => []
private def namesOf (r : R InventoryM) : List Str :=
  match r with | .ok inv => inv.nodes.map Prod.fst | .error _ => []
private def failedNode (r : R InventoryM) : Option Str :=
  match r with | .error (.nodeFailed n _) => some n | _ => none

/-- The hypotheses of all theorems are satisfiable together. -/
example : (∃ inv, Inventory.render results3 = .ok inv) ∧ (results3.map Prod.fst).Nodup ∧
    NoDupLists results3 := by
  refine ⟨⟨_, rfl⟩, by decide, ?_⟩
  intro p hp info hi
  simp only [results3, List.mem_cons, List.not_mem_nil, or_false] at hp
  rcases hp with rfl | rfl | rfl <;> cases hi <;> exact ⟨by decide, by decide⟩

/-- The indices of the three-node inventory: sorted node lists under every class. -/
example : classesOf (Inventory.render results3) =
    [("c2".toList, ["n1".toList, "n2".toList]), ("c3".toList, ["n3".toList]),
     ("c1".toList, ["n1".toList, "n3".toList])] := by
  simp only [Inventory.render, results3, Inventory.collect, sortAll, sortStrs_eq_insSort, classesOf]
  decide

example : appsOf (Inventory.render results3) =
    [("a1".toList, ["n1".toList, "n2".toList]), ("a2".toList, ["n2".toList])] := by
  simp only [Inventory.render, results3, Inventory.collect, sortAll, sortStrs_eq_insSort, appsOf]
  decide

example : namesOf (Inventory.render results3) = ["n2".toList, "n3".toList, "n1".toList] := by
  decide

/-- `class_index_inverse` used on the concrete inventory. -/
example (inv : InventoryM) (h : Inventory.render results3 = .ok inv) :
    "n3".toList ∈ ixLookup "c1".toList inv.classes ∧ "n2".toList ∉ ixLookup "c1".toList inv.classes := by
  constructor
  · exact (class_index_inverse h _ _).2 ⟨n3, by simp [results3], by decide⟩
  · intro hm
    obtain ⟨info, hi, hc⟩ := (class_index_inverse h _ _).1 hm
    simp only [results3, List.mem_cons, Prod.mk.injEq, List.not_mem_nil, or_false] at hi
    rcases hi with ⟨_, hi⟩ | ⟨hn, _⟩ | ⟨hn, _⟩
    · cases hi; revert hc; decide
    · revert hn; decide
    · revert hn; decide

/-- A failing node makes the inventory fail with that node's name ... -/
example : failedNode (Inventory.render
    [("n1".toList, .ok n1), ("bad".toList, .error .loop), ("n2".toList, .ok n2)]) = some "bad".toList := by
  decide

/-- ... and with two failing nodes the reported one depends on the iteration order. -/
example : failedNode (Inventory.render [("x".toList, .error .loop), ("y".toList, .error .fuel)]) = some "x".toList ∧
    failedNode (Inventory.render [("y".toList, .error .fuel), ("x".toList, .error .loop)]) = some "y".toList := by
  decide

/-- The `NoDupLists` hypothesis of `lists_sorted_nodup` is needed: a node listing a class twice is
listed twice under that class. -/
example : classesOf (Inventory.render [("n".toList, .ok nDup)]) = [("c1".toList, ["n".toList, "n".toList])] := by
  simp only [Inventory.render, Inventory.collect, sortAll, sortStrs_eq_insSort, classesOf]
  decide

/-- The distinct-names hypothesis is needed too (the Rust node map has distinct keys by
construction; the model's list of pairs does not). -/
example : classesOf (Inventory.render [("n".toList, .ok n2), ("n".toList, .ok n2)]) =
    [("c2".toList, ["n".toList, "n".toList])] := by
  simp only [Inventory.render, Inventory.collect, sortAll, sortStrs_eq_insSort, classesOf]
  decide

end Examples

end C13
end Reclass
