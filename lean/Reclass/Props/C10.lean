/-
  C10 — Override keys (`~key`).

  Property theorems only; helper lemmas live in `Lemmas/MappingL`.  All statements are about
  the model functions `Mapping.insertImpl`, `Mapping.merge`, `combine`
  (`src/types/mapping.rs`), for every mapping, key and value (no size bounds).

  Vocabulary as in C09: stripped key `k.stripPrefix.1`, prefix `k.stripPrefix.2`.
-/
import Reclass.Lemmas.MappingL
namespace Reclass
namespace C10

/-! ### 1. `~k` on a present key replaces the value in place -/

/-- Stripped key present and not constant, written with `~` (or with `forceOverride`): the
new value itself is stored (no layer list), at the old position, siblings and the
`override_keys` set are untouched. -/
theorem insert_override_replaces (m : Mapping) (k k0 : Key) (v old : Value) (fc fo : Bool)
    (hs : k.stripPrefix.1 = k0) (hl : lookup k0 m.es = some old) (hc : k0 ∉ m.ck)
    (hp : k.stripPrefix.2 = some .override ∨ fo = true) :
    ∃ m', m.insertImpl k v fc fo = .ok m' ∧
      m'.es = replaceVal k0 v m.es ∧
      lookup k0 m'.es = some v ∧
      m'.es.map Prod.fst = m.es.map Prod.fst ∧
      (∀ k1, k1 ≠ k0 → lookup k1 m'.es = lookup k1 m.es) ∧
      m'.ok = m.ok := by
  subst hs
  have hcond : (fo || decide (k.stripPrefix.2 = some KeyPrefix.override)) = true := by
    rcases hp with hp | hp <;> simp [hp]
  refine ⟨_, insertImpl_present v fc fo hl hc, ?_, ?_, ?_, ?_, rfl⟩
  · simp only [hcond, if_true]
  · simp only [hcond, if_true]; exact lookup_replaceVal_self hl v
  · simp only [hcond, if_true]; exact replaceVal_keys _ _ _
  · intro k1 hne; simp only [hcond, if_true]; exact lookup_replaceVal_ne hne _ _

/-- A pure `~` write (no forced const) leaves `const_keys` alone too. -/
theorem insert_override_replaces_ck (m m' : Mapping) (k : Key) (v old : Value) (fo : Bool)
    (hl : lookup k.stripPrefix.1 m.es = some old)
    (hp : k.stripPrefix.2 = some .override)
    (h : m.insertImpl k v false fo = .ok m') : m'.ck = m.ck := by
  have hc : k.stripPrefix.1 ∉ m.ck := by
    intro hc; rw [insertImpl_const v false fo hl hc] at h; cases h
  rw [insertImpl_present v false fo hl hc] at h
  injection h with h; subst h
  simp [hp]

/-! ### 2. `~k` on an absent key: inserted, and the override is remembered -/

/-- Stripped key absent, written with `~` (or `forceOverride`): appended at the end and
recorded in `override_keys` (a pending override that fires when this mapping is merged
into another one). -/
theorem insert_override_absent (m : Mapping) (k k0 : Key) (v : Value) (fc fo : Bool)
    (hs : k.stripPrefix.1 = k0) (hl : lookup k0 m.es = none)
    (hp : k.stripPrefix.2 = some .override ∨ fo = true) :
    ∃ m', m.insertImpl k v fc fo = .ok m' ∧ m'.es = m.es ++ [(k0, v)] ∧ k0 ∈ m'.ok := by
  subst hs
  refine ⟨_, insertImpl_absent v fc fo hl, rfl, ?_⟩
  dsimp only
  rcases hp with hp | hp
  · simp only [hp, if_true]
    split
    · exact mem_setInsert_self _ _
    · exact mem_setInsert_self _ _
  · simp only [hp, if_true]
    exact mem_setInsert_self _ _

/-- Whenever an override write succeeds, the stripped key holds exactly the written value. -/
theorem insert_override_ok_lookup (m m' : Mapping) (k : Key) (v : Value) (fc fo : Bool)
    (hp : k.stripPrefix.2 = some .override ∨ fo = true)
    (h : m.insertImpl k v fc fo = .ok m') : lookup k.stripPrefix.1 m'.es = some v := by
  cases hl : lookup k.stripPrefix.1 m.es with
  | none =>
    obtain ⟨m2, h2, hes, _⟩ := insert_override_absent m k _ v fc fo rfl hl hp
    rw [h] at h2; injection h2 with h2; subst h2
    rw [hes]; exact lookup_append_single_self hl v
  | some old =>
    have hc : k.stripPrefix.1 ∉ m.ck := by
      intro hc; rw [insertImpl_const v fc fo hl hc] at h; cases h
    obtain ⟨m2, h2, _, hlk, _⟩ := insert_override_replaces m k _ v old fc fo rfl hl hc hp
    rw [h] at h2; injection h2 with h2; subst h2
    exact hlk

/-! ### 3. Without override the values are collected into a layer list -/

/-- The layers a value stands for: a layer list's elements, otherwise the value itself. -/
def layersOf : Value → List Value
  | .vl l => l
  | v => [v]

/-- `combine` concatenates layers: old's layers first, then the new value's. -/
theorem combine_layers (old v : Value) : layersOf (combine old v) = layersOf old ++ layersOf v := by
  cases old <;> cases v <;> simp [combine, layersOf]

/-- `combine` always returns a layer list. -/
theorem combine_is_vl (old v : Value) : combine old v = .vl (layersOf old ++ layersOf v) := by
  cases old <;> cases v <;> simp [combine, layersOf]

/-- Stripped key present, not constant, no override of either kind: the stored value becomes
the layer list `combine old v`, in place; siblings untouched. -/
theorem insert_plain_collects (m : Mapping) (k k0 : Key) (v old : Value) (fc : Bool)
    (hs : k.stripPrefix.1 = k0) (hl : lookup k0 m.es = some old) (hc : k0 ∉ m.ck)
    (hp : k.stripPrefix.2 ≠ some .override) :
    ∃ m', m.insertImpl k v fc false = .ok m' ∧
      lookup k0 m'.es = some (combine old v) ∧
      lookup k0 m'.es = some (.vl (layersOf old ++ layersOf v)) ∧
      m'.es.map Prod.fst = m.es.map Prod.fst ∧
      (∀ k1, k1 ≠ k0 → lookup k1 m'.es = lookup k1 m.es) ∧
      m'.ok = m.ok := by
  subst hs
  have hcond : (false || decide (k.stripPrefix.2 = some KeyPrefix.override)) = false := by
    simp [hp]
  have hlk : lookup k.stripPrefix.1 (replaceVal k.stripPrefix.1 (combine old v) m.es)
      = some (combine old v) := lookup_replaceVal_self hl _
  refine ⟨_, insertImpl_present v fc false hl hc, ?_, ?_, ?_, ?_, rfl⟩
  · simp only [hcond]; exact hlk
  · simp only [hcond]; rw [← combine_is_vl]; exact hlk
  · simp only [hcond]; exact replaceVal_keys _ _ _
  · intro k1 hne; simp only [hcond]; exact lookup_replaceVal_ne hne _ _

/-! ### 4. A pending override fires when the mapping is merged -/

/-- `other = {~k: v}` as stored (key `k` in `other.ok`), merged into a mapping where `k` is
present and not constant: `k` now holds `v` itself. -/
theorem pending_fires_on_merge (m other : Mapping) (k : Key) (v old : Value)
    (hok : k ∈ other.ok) (hes : other.es = [(k, v)]) (hs : k.stripPrefix = (k, none))
    (hl : lookup k m.es = some old) (hc : k ∉ m.ck) :
    ∃ m', m.merge other = .ok m' ∧ lookup k m'.es = some v ∧
      m'.es.map Prod.fst = m.es.map Prod.fst := by
  have hs1 : k.stripPrefix.1 = k := by rw [hs]
  rw [merge_eq, hes, mergeEntries_single]
  obtain ⟨m', h, _, hlk, hkeys, _⟩ :=
    C10.insert_override_replaces m k k v old (decide (k ∈ other.ck)) (decide (k ∈ other.ok)) hs1 hl hc
      (Or.inr (by simp [hok]))
  exact ⟨m', h, hlk, hkeys⟩

/-- Merging entries none of which has stripped key `k0` leaves `lookup k0` unchanged. -/
theorem mergeEntries_lookup_ne (ock ook : List Key) (k0 : Key) (es : List (Key × Value)) :
    ∀ (m m' : Mapping), (∀ e ∈ es, e.1.stripPrefix.1 ≠ k0) →
      m.mergeEntries ock ook es = .ok m' → lookup k0 m'.es = lookup k0 m.es := by
  induction es with
  | nil =>
    intro m m' _ h
    simp only [Mapping.mergeEntries] at h
    injection h with h; subst h; rfl
  | cons e es ih =>
    intro m m' hall h
    obtain ⟨k, v⟩ := e
    rw [mergeEntries_cons] at h
    cases h1 : m.insertImpl k v (decide (k ∈ ock)) (decide (k ∈ ook)) with
    | error e => simp [h1] at h
    | ok m1 =>
      simp only [h1] at h
      have hne : k0 ≠ k.stripPrefix.1 := fun e => hall (k, v) List.mem_cons_self e.symm
      rw [ih m1 m' (fun e he => hall e (List.mem_cons_of_mem _ he)) h]
      exact insertImpl_lookup_ne h1 hne

/-- General form, any `other`: if the entry `(k, v)` of `other` is flagged in `other.ok` and no
later entry of `other` targets the same stripped key, then after a successful merge the
stripped key holds exactly `v` (whether or not it was present in the target before). -/
theorem pending_fires_on_merge_general (m other m' : Mapping) (k : Key) (v : Value)
    (pre post : List (Key × Value))
    (hok : k ∈ other.ok) (hes : other.es = pre ++ (k, v) :: post)
    (hpost : ∀ e ∈ post, e.1.stripPrefix.1 ≠ k.stripPrefix.1)
    (h : m.merge other = .ok m') : lookup k.stripPrefix.1 m'.es = some v := by
  rw [merge_eq, hes, mergeEntries_append] at h
  cases h1 : m.mergeEntries other.ck other.ok pre with
  | error e => simp [h1] at h
  | ok m1 =>
    simp only [h1] at h
    rw [mergeEntries_cons] at h
    cases h2 : m1.insertImpl k v (decide (k ∈ other.ck)) (decide (k ∈ other.ok)) with
    | error e => simp [h2] at h
    | ok m2 =>
      simp only [h2] at h
      rw [mergeEntries_lookup_ne _ _ _ post m2 m' hpost h]
      exact insert_override_ok_lookup m1 m2 k v _ _ (Or.inr (by simp [hok])) h2

/-- The target's own `override_keys` are never consulted by `insertImpl`: replacing `m.ok` by
any other list gives the same outcome (same error, or same entries and same `const_keys`). -/
theorem target_flags_not_consulted (m : Mapping) (ok' : List Key) (k : Key) (v : Value) (fc fo : Bool) :
    (m.insertImpl k v fc fo).map (fun r => (r.es, r.ck)) =
      (({ m with ok := ok' } : Mapping).insertImpl k v fc fo).map (fun r => (r.es, r.ck)) := by
  rw [insertImpl_eq, insertImpl_eq]
  dsimp only
  cases lookup k.stripPrefix.1 m.es with
  | none => rfl
  | some old =>
    dsimp only
    by_cases hc : k.stripPrefix.1 ∈ m.ck
    · simp only [hc, if_true]
    · simp only [hc, if_false]; rfl

/-- Consequence: success does not depend on the target's `override_keys`, and neither do the
resulting entries and constant flags. -/
theorem target_flags_not_consulted_ok (m m' : Mapping) (ok' : List Key) (k : Key) (v : Value)
    (fc fo : Bool) (h : m.insertImpl k v fc fo = .ok m') :
    ∃ m2, ({ m with ok := ok' } : Mapping).insertImpl k v fc fo = .ok m2 ∧
      m2.es = m'.es ∧ m2.ck = m'.ck := by
  have := target_flags_not_consulted m ok' k v fc fo
  rw [h] at this
  cases h2 : ({ m with ok := ok' } : Mapping).insertImpl k v fc fo with
  | error e => rw [h2] at this; cases this
  | ok m2 =>
    rw [h2] at this
    simp only [Except.map] at this
    injection this with this
    injection this with h3 h4
    exact ⟨m2, rfl, h3.symm, h4.symm⟩

theorem target_flags_not_consulted_error (m : Mapping) (ok' : List Key) (k : Key) (v : Value)
    (fc fo : Bool) (e : Err) (h : m.insertImpl k v fc fo = .error e) :
    ({ m with ok := ok' } : Mapping).insertImpl k v fc fo = .error e := by
  have := target_flags_not_consulted m ok' k v fc fo
  rw [h] at this
  cases h2 : ({ m with ok := ok' } : Mapping).insertImpl k v fc fo with
  | error e2 =>
    rw [h2] at this
    simp only [Except.map] at this
    injection this with this; rw [this]
  | ok m2 => rw [h2] at this; cases this

/-! ### 5. The override does not leak to siblings -/

/-- Two writes with the same stripped key `k0` (e.g. `~k0` and `k0`; any values, any forced
flags) succeed or fail together … -/
theorem override_same_success (m : Mapping) (k k' : Key) (v v' : Value) (fc fo fc' fo' : Bool)
    (hs : k.stripPrefix.1 = k'.stripPrefix.1) :
    (∃ m1, m.insertImpl k v fc fo = .ok m1) ↔ (∃ m2, m.insertImpl k' v' fc' fo' = .ok m2) := by
  cases hl : lookup k.stripPrefix.1 m.es with
  | none =>
    have hl' := hl; rw [hs] at hl'
    exact ⟨fun _ => ⟨_, insertImpl_absent v' fc' fo' hl'⟩, fun _ => ⟨_, insertImpl_absent v fc fo hl⟩⟩
  | some old =>
    have hl' := hl; rw [hs] at hl'
    by_cases hc : k.stripPrefix.1 ∈ m.ck
    · have hc' := hc; rw [hs] at hc'
      rw [insertImpl_const v fc fo hl hc, insertImpl_const v' fc' fo' hl' hc']
      constructor <;> (intro ⟨_, h⟩; cases h)
    · have hc' := hc; rw [hs] at hc'
      exact ⟨fun _ => ⟨_, insertImpl_present v' fc' fo' hl' hc'⟩,
             fun _ => ⟨_, insertImpl_present v fc fo hl hc⟩⟩

/-- … and agree on the value and on both flags of every other key `k1`. -/
theorem override_no_leak (m m1 m2 : Mapping) (k k' k0 k1 : Key) (v v' : Value) (fc fo fc' fo' : Bool)
    (hs : k.stripPrefix.1 = k0) (hs' : k'.stripPrefix.1 = k0) (hne : k1 ≠ k0)
    (h1 : m.insertImpl k v fc fo = .ok m1) (h2 : m.insertImpl k' v' fc' fo' = .ok m2) :
    lookup k1 m1.es = lookup k1 m2.es ∧ (k1 ∈ m1.ck ↔ k1 ∈ m2.ck) ∧ (k1 ∈ m1.ok ↔ k1 ∈ m2.ok) := by
  subst hs
  have hne' : k1 ≠ k'.stripPrefix.1 := by rw [hs']; exact hne
  refine ⟨?_, ?_, ?_⟩
  · rw [insertImpl_lookup_ne h1 hne, insertImpl_lookup_ne h2 hne']
  · rw [insertImpl_ck_ne h1 hne, insertImpl_ck_ne h2 hne']
  · rw [insertImpl_ok_ne h1 hne, insertImpl_ok_ne h2 hne']

/-- The marker form: `~s` versus `s` for text `s` that does not itself start with a marker. -/
theorem override_no_leak_marker (m m1 m2 : Mapping) (s : Str) (k1 : Key) (v : Value) (fc fo : Bool)
    (hs1 : s.head? ≠ some '=') (hs2 : s.head? ≠ some '~') (hne : k1 ≠ .str s)
    (h1 : m.insertImpl (.str ('~' :: s)) v fc fo = .ok m1)
    (h2 : m.insertImpl (.str s) v fc fo = .ok m2) :
    lookup k1 m1.es = lookup k1 m2.es ∧ (k1 ∈ m1.ck ↔ k1 ∈ m2.ck) ∧ (k1 ∈ m1.ok ↔ k1 ∈ m2.ok) :=
  override_no_leak m m1 m2 _ _ (.str s) k1 v v fc fo fc fo
    (by rw [stripPrefix_override]) (by rw [stripPrefix_str_of_head hs1 hs2]) hne h1 h2

/-! ### Non-vacuity -/

/-- `{a: 1, b: 2}`, no flags. -/
private def mAB : Mapping :=
  { es := [(.str "a".toList, .num (.int 1)), (.str "b".toList, .num (.int 2))] }

-- `~a: 9` replaces in place, `b` untouched, nothing pending
example : mAB.insertImpl (.str "~a".toList) (.num (.int 9)) false false =
    .ok { es := [(.str "a".toList, .num (.int 9)), (.str "b".toList, .num (.int 2))] } := rfl

-- `a: 9` without override collects a layer list
example : mAB.insertImpl (.str "a".toList) (.num (.int 9)) false false =
    .ok { es := [(.str "a".toList, .vl [.num (.int 1), .num (.int 9)]), (.str "b".toList, .num (.int 2))] } := rfl

-- `~c: 3` on an absent key is appended and pending
example : mAB.insertImpl (.str "~c".toList) (.num (.int 3)) false false =
    .ok { es := mAB.es ++ [(.str "c".toList, .num (.int 3))], ok := [.str "c".toList] } := rfl

-- the pending override fires on merge: `{a: 1, b: 2}.merge {~a: 7}` (stored form)
example : mAB.merge { es := [(.str "a".toList, .num (.int 7))], ok := [.str "a".toList] } =
    .ok { es := [(.str "a".toList, .num (.int 7)), (.str "b".toList, .num (.int 2))] } := rfl

-- hypotheses of `pending_fires_on_merge` are satisfiable
example : (Key.str "a".toList).stripPrefix = (.str "a".toList, none) ∧
    lookup (.str "a".toList) mAB.es = some (.num (.int 1)) ∧ Key.str "a".toList ∉ mAB.ck :=
  ⟨rfl, rfl, by decide⟩

-- layers are concatenated, not nested
example : combine (.vl [.null, .bool true]) (.vl [.num (.int 1)]) = .vl [.null, .bool true, .num (.int 1)] := rfl
example : layersOf (combine (.bool true) (.num (.int 1))) = [.bool true, .num (.int 1)] := rfl

end C10
end Reclass
