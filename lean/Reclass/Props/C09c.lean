/-
  C09c — Constant keys: marker-only keys (`"="`, `"~"`) and "same value" constant writes.

  Pointed statements motivated by regressions seeded into `Value::strip_prefix` /
  `Mapping::insert_impl` (`src/types/mapping.rs`):

  * a key that consists of the marker only must still be stripped (to the EMPTY key) and the
    marker must still count — an implementation that only strips when something follows the
    marker ("len > 1") would store the literal key `"="` and never protect `""`;
  * the constant marking of `=k` must not depend on the value being different from the one
    already stored.

  All statements are about the model functions `Key.stripPrefix` and `Mapping.insertImpl`,
  for every mapping and every value.
-/
import Reclass.Props.C09
namespace Reclass
namespace C09

/-- The empty string key. -/
abbrev emptyKey : Key := .str []

/-! ### (a) `stripPrefix` on marker-only and other very short keys -/

/-- The one-character key `"="` strips to the EMPTY key with the constant marker; `"~"` strips
to the empty key with the override marker; the empty key has no marker and is unchanged; a
one-character key that is not a marker is unchanged and has no marker. -/
theorem stripPrefix_lone_const :
    (Key.str ['=']).stripPrefix = (.str [], some .const) ∧
    (Key.str ['~']).stripPrefix = (.str [], some .override) ∧
    (Key.str []).stripPrefix = (.str [], none) ∧
    (∀ c : Char, c ≠ '=' → c ≠ '~' → (Key.str [c]).stripPrefix = (.str [c], none)) :=
  ⟨stripPrefix_const [], stripPrefix_override [], stripPrefix_str_nil,
   fun _ h1 h2 => stripPrefix_str_plain [] h1 h2⟩

/-- Converse direction for one-character keys: the result of stripping `[c]` is the empty key
exactly when `c` is one of the two markers (so nothing else can alias the empty name). -/
theorem stripPrefix_single_empty_iff (c : Char) :
    (Key.str [c]).stripPrefix.1 = .str [] ↔ (c = '=' ∨ c = '~') := by
  constructor
  · intro h
    by_cases h1 : c = '='
    · exact Or.inl h1
    · by_cases h2 : c = '~'
      · exact Or.inr h2
      · rw [stripPrefix_str_plain [] h1 h2] at h
        cases h
  · rintro (h | h)
    · subst h; rw [stripPrefix_const]
    · subst h; rw [stripPrefix_override]

/-- The three spellings that address the empty name: `""`, `"="`, `"~"`. -/
theorem strips_to_empty (k : Key) (hk : k = .str [] ∨ k = .str ['='] ∨ k = .str ['~']) :
    k.stripPrefix.1 = .str [] := by
  rcases hk with h | h | h <;> subst h
  · rfl
  · rw [stripPrefix_const]
  · rw [stripPrefix_override]

/-! ### (b) The lone `=` key creates and protects the empty name -/

/-- Inserting the key `"="` with any value into a mapping without an entry for `""`:
the insert succeeds; the new mapping is the old one with `("", v)` appended (so the value is
stored under the EMPTY key, and there is no entry for the literal key `"="` unless there was
one before); `""` is constant afterwards; and every later insert whose key is `""`, `"="` or
`"~"` — any value, any force flags — fails with the constant-key error that names `""`. -/
theorem lone_const_key_protects_empty_name (m : Mapping) (v : Value) (fc fo : Bool)
    (habs : lookup (.str []) m.es = none) :
    ∃ m', m.insertImpl (.str ['=']) v fc fo = .ok m' ∧
      m'.es = m.es ++ [(.str [], v)] ∧
      lookup (.str []) m'.es = some v ∧
      lookup (.str ['=']) m'.es = lookup (.str ['=']) m.es ∧
      Key.str [] ∈ m'.ck ∧
      ∀ (k : Key) (w : Value) (fc' fo' : Bool),
        (k = .str [] ∨ k = .str ['='] ∨ k = .str ['~']) →
        m'.insertImpl k w fc' fo' = .error (.constKey (.str [])) := by
  have hs : (Key.str ['=']).stripPrefix = (.str [], some .const) := stripPrefix_const []
  have hs1 : (Key.str ['=']).stripPrefix.1 = .str [] := by rw [hs]
  have habs' : lookup (Key.str ['=']).stripPrefix.1 m.es = none := by rw [hs1]; exact habs
  obtain ⟨m', hm', hck⟩ :=
    insert_marks_const m (.str ['=']) (.str []) v fc fo hs1 (Or.inl (by rw [hs])) (Or.inl habs)
  have hes : m'.es = m.es ++ [(.str [], v)] := by
    have h2 := insertImpl_absent (m := m) (k := .str ['=']) v fc fo habs'
    rw [hm'] at h2
    injection h2 with h2
    rw [h2, hs1]
  have hlk : lookup (.str []) m'.es = some v := by
    rw [hes]; exact lookup_append_single_self habs v
  refine ⟨m', hm', hes, hlk, ?_, hck, ?_⟩
  · rw [hes]; exact lookup_append_single_ne (by decide) m.es v
  · intro k w fc' fo' hk
    exact insert_const_rejects m' k (.str []) w v fc' fo' (strips_to_empty k hk) hlk hck

/-- The same through `Mapping.merge`: once `""` is constant and present, merging any mapping
that has an entry keyed `""`, `"="` or `"~"` fails with a constant-key error
(uses `const_then_write_fails_constKey`). -/
theorem lone_const_then_merge_fails (m other : Mapping) (v : Value) (fc fo : Bool)
    (habs : lookup (.str []) m.es = none) (k : Key) (w : Value)
    (hk : k = .str [] ∨ k = .str ['='] ∨ k = .str ['~']) (hmem : (k, w) ∈ other.es) :
    ∃ m', m.insertImpl (.str ['=']) v fc fo = .ok m' ∧
      ∃ k', m'.merge other = .error (.constKey k') := by
  obtain ⟨m', hm', _, hlk, _, hck, _⟩ := lone_const_key_protects_empty_name m v fc fo habs
  exact ⟨m', hm', const_then_write_fails_constKey m' other k (.str []) w v hck hlk hmem
    (strips_to_empty k hk)⟩

/-- … and when that entry is the only one of `other`, the error names exactly `""`. -/
theorem lone_const_then_merge_single_fails (m other : Mapping) (v : Value) (fc fo : Bool)
    (habs : lookup (.str []) m.es = none) (k : Key) (w : Value)
    (hk : k = .str [] ∨ k = .str ['='] ∨ k = .str ['~']) (hes : other.es = [(k, w)]) :
    ∃ m', m.insertImpl (.str ['=']) v fc fo = .ok m' ∧
      m'.merge other = .error (.constKey (.str [])) := by
  obtain ⟨m', hm', _, hlk, _, hck, _⟩ := lone_const_key_protects_empty_name m v fc fo habs
  exact ⟨m', hm', const_then_write_fails_single m' other k (.str []) w v hck hlk hes
    (strips_to_empty k hk)⟩

/-- The lone `~` key, for contrast: it also addresses the empty name, is recorded as an
override key, and does NOT make `""` constant (unless `forceConst`). -/
theorem lone_override_key_targets_empty_name (m : Mapping) (v : Value)
    (habs : lookup (.str []) m.es = none) (hnc : Key.str [] ∉ m.ck) :
    ∃ m', m.insertImpl (.str ['~']) v false false = .ok m' ∧
      m'.es = m.es ++ [(.str [], v)] ∧ Key.str [] ∈ m'.ok ∧ Key.str [] ∉ m'.ck := by
  have hs : (Key.str ['~']).stripPrefix = (.str [], some .override) := stripPrefix_override []
  have habs' : lookup (Key.str ['~']).stripPrefix.1 m.es = none := by rw [hs]; exact habs
  refine ⟨_, insertImpl_absent (m := m) (k := .str ['~']) v false false habs', ?_, ?_, ?_⟩
  · simp only [hs]
  · simp only [hs]
    exact mem_setInsert_self _ _
  · simp only [hs]
    simpa using hnc

/-! ### (c) The constant marking does not depend on the value -/

/-- For ANY existing, non-constant entry for `k` (whatever its current value `old`) and ANY
value `v` — in particular `v = old` — the insert of `=k` succeeds and `k` is constant
afterwards.  (`cs` is the text of `k`; the written key is `'=' :: cs`.) -/
theorem same_value_const_still_marks (m : Mapping) (cs : Str) (old v : Value) (fc fo : Bool)
    (_hl : lookup (.str cs) m.es = some old) (hnc : Key.str cs ∉ m.ck) :
    ∃ m', m.insertImpl (.str ('=' :: cs)) v fc fo = .ok m' ∧ Key.str cs ∈ m'.ck := by
  have hs : (Key.str ('=' :: cs)).stripPrefix = (.str cs, some .const) := stripPrefix_const cs
  exact insert_marks_const m (.str ('=' :: cs)) (.str cs) v fc fo (by rw [hs])
    (Or.inl (by rw [hs])) (Or.inr hnc)

/-- Post-condition form, as asked: whenever `insertImpl ("=k") v` succeeds — no assumption at
all on the previous entry or on `v` — `k` is in the constant set of the result. -/
theorem same_value_const_still_marks_of_ok (m m' : Mapping) (cs : Str) (v : Value) (fc fo : Bool)
    (h : m.insertImpl (.str ('=' :: cs)) v fc fo = .ok m') : Key.str cs ∈ m'.ck := by
  have hs : (Key.str ('=' :: cs)).stripPrefix = (.str cs, some .const) := stripPrefix_const cs
  have := insert_ok_marks_const m m' (.str ('=' :: cs)) v fc fo (Or.inl (by rw [hs])) h
  rw [hs] at this; exact this

/-- The instance that names the regression: the stored value IS `v` already. The write still
succeeds, still marks `k` constant, and the next write to `k` (plain, `=`, `~`) is rejected. -/
theorem same_value_const_then_write_fails (m : Mapping) (cs : Str) (v : Value)
    (hl : lookup (.str cs) m.es = some v) (hnc : Key.str cs ∉ m.ck) :
    ∃ m', m.insertImpl (.str ('=' :: cs)) v false false = .ok m' ∧ Key.str cs ∈ m'.ck ∧
      ∀ (k : Key) (w : Value) (fc fo : Bool), k.stripPrefix.1 = .str cs →
        m'.insertImpl k w fc fo = .error (.constKey (.str cs)) := by
  obtain ⟨m', hm', hck⟩ := same_value_const_still_marks m cs v v false false hl hnc
  refine ⟨m', hm', hck, ?_⟩
  intro k w fc fo hk
  have hpres : Key.str cs ∈ m'.es.map Prod.fst :=
    insertImpl_keys_mono hm' (lookup_isSome_iff.1 (by simp [hl]))
  obtain ⟨w', hw'⟩ := Option.isSome_iff_exists.1 (lookup_isSome_iff.2 hpres)
  exact insert_const_rejects m' k (.str cs) w w' fc fo hk hw' hck

/-! ### Examples (kernel-checked) -/

private def s (x : String) : Str := x.toList
private def one : Value := .num (.int 1)
private def two : Value := .num (.int 2)

-- (a) the four shapes
example : (Key.str (s "=")).stripPrefix = (.str [], some .const) := by decide +kernel
example : (Key.str (s "~")).stripPrefix = (.str [], some .override) := by decide +kernel
example : (Key.str (s "")).stripPrefix = (.str [], none) := by decide +kernel
example : (Key.str (s "a")).stripPrefix = (.str (s "a"), none) := by decide +kernel
-- only the FIRST marker is stripped
example : (Key.str (s "==")).stripPrefix = (.str (s "="), some .const) := by decide +kernel
example : (Key.str (s "~=")).stripPrefix = (.str (s "="), some .override) := by decide +kernel

/-- `{a: 1}`, nothing constant. -/
private def mA1 : Mapping := { es := [(.str (s "a"), one)] }

-- (b) `"=": 2` into `{a: 1}`: stored under "", "" constant, no literal "=" entry
example : ∃ m', mA1.insertImpl (.str (s "=")) two false false = .ok m' ∧
    (m'.es.map Prod.fst = [.str (s "a"), .str []]) ∧ m'.ck = [.str []] ∧ m'.ok = [] :=
  ⟨_, rfl, by decide +kernel, by decide +kernel, by decide +kernel⟩
example : lookup (.str []) mA1.es = none := by decide +kernel

/-- `{a: 1, "": 2}` with `""` constant — the result of the insert above. -/
private def mA2 : Mapping :=
  { es := [(.str (s "a"), one), (.str [], two)], ck := [.str []], ok := [] }

-- all three spellings are rejected afterwards, naming ""
example : mA2.insertImpl (.str (s "")) one false false = .error (.constKey (.str [])) := rfl
example : mA2.insertImpl (.str (s "=")) one false false = .error (.constKey (.str [])) := rfl
example : mA2.insertImpl (.str (s "~")) one false true = .error (.constKey (.str [])) := rfl
-- … also through merge
example : mA2.merge { es := [(.str (s "~"), one)] } = .error (.constKey (.str [])) := rfl
-- a different key is still writable
example : ∃ m', mA2.insertImpl (.str (s "a")) two false false = .ok m' := ⟨_, rfl⟩

-- (c) `=a: 1` into `{a: 1}` (same scalar): succeeds, `a` constant, next write fails
example : ∃ m', mA1.insertImpl (.str (s "=a")) one false false = .ok m' ∧
    m'.ck = [.str (s "a")] ∧
    m'.insertImpl (.str (s "a")) two false false = .error (.constKey (.str (s "a"))) ∧
    m'.insertImpl (.str (s "~a")) one false false = .error (.constKey (.str (s "a"))) :=
  ⟨_, rfl, by decide +kernel, rfl, rfl⟩
-- hypotheses of `same_value_const_still_marks` are satisfiable with `old = v`
example : lookup (.str (s "a")) mA1.es = some one ∧ Key.str (s "a") ∉ mA1.ck :=
  ⟨rfl, by decide +kernel⟩

end C09
end Reclass
