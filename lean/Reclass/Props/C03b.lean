/-
  C03 (continued) — Whole-value references whose path passes through multiply-defined keys.

  "A parameter whose whole value is a reference ${a:b:c} renders to the final, fully merged and
  fully rendered value found at that path in the node's parameters … The result does not depend
  on … which class defines the target."

  `C03.whole_ref_path` / `C03.whole_ref_final_path` cover paths that walk through raw *mappings*
  only.  Here the intermediate values may also be *layer lists* (the key was defined by several
  classes; the layers may be mappings, string references, scalars, `Null`) and unparsed *string
  references*.  For such a value `Token::resolve` (`descend` → `interpStrOrVl` → `layersStr`)
  interpolates only the `String` layers, merges the otherwise RAW layers and looks the next path
  segment up in that raw merge — whereas rendering the parameters interpolates EVERY layer,
  merges, and interpolates the merge again.  The theorems below say that both routes arrive at
  the same value, *exactly* (not only up to the flag sets), with constant/override flags allowed:

   * `whole_ref_layered`       — `Token::render` of the reference returns the value found by
                                 iterated `IndexMap::get` (`closedPath`) inside the interpolated
                                 target entry;
   * `whole_ref_interp_layered` — the same seen from `Value::interpolate` of the string;
   * `render_entry_exact`      — a rendered top-level entry *is* the interpolation of the raw one;
   * `whole_ref_final_layered` — in the rendered parameters, entry `k: ${k0:s1:…:sm}` equals the
                                 value at `k0:s1:…:sm` of the rendered parameters;
   * `merge_keeps_layered`     — the hypothesis `Layered` is what `Mapping::merge` of mappings
                                 without layer lists produces.

  Hypothesis `Layered v0` (on the target entry `v0 = root[k0]` only): `v0` contains no layer list,
  or it is a layer list whose layers contain none — i.e. no layer list *inside* a layer.  This is
  what merging class parameters yields (`merge_keeps_layered`), except when a single YAML mapping
  writes the same key twice with a marker (`{k: …, "=k": …}`), which makes `insert_impl` store a
  layer list inside that mapping.

  FINDING — without `Layered` the two routes DISAGREE in the model (`layered_needed`,
  `layered_needed_yaml`, `layered_needed_override`): for
      t = ValueList [ {k: {p: 1}},  {k: ValueList [Null, {q: 2}]} ]
  the raw merge splices the inner layers, `t:k = [ {p:1}, Null, {q:2} ]`, which renders to `{q: 2}`
  (`Null` resets the accumulator), while rendering `t` first renders the inner list to `{q: 2}` and
  then merges `[ {p:1}, {q:2} ]` to `{p: 1, q: 2}`.  So `a: ${t:k}` renders to `{q: 2}` although
  the rendered `t` holds `{p: 1, q: 2}` under `k`.  The same happens with an override flag in the
  inner list instead of `Null`.  (`Value::merge` is not associative across `Null`/override.)
  Reachable from YAML: class 1 `{t: {k: {p: 1}}}`, class 2 `{t: {k: ~, "=k": {q: 2}}}`, node
  `{a: "${t:k}"}`; the Rust implementation (harness `rvh run`, op `params`, these three layers)
  returns `t.k = {p: 1, q: 2}` and `a = {q: 2}` as well.

  Helper lemmas: `Lemmas/CommuteL` (namespace `Reclass.Commute`).
-/
import Reclass.Lemmas.CommuteL
namespace Reclass
namespace C03

open Refs Commute

/-! ### 6. References through multiply-defined keys -/

/-- The value at a `:`-path inside rendered data: iterated `IndexMap::get` through mappings,
`none` as soon as a value on the way is not a mapping or lacks the key.  (The same function as
`Refs.rawPath`; the name records that it is applied to *rendered*, closed values here.) -/
abbrev closedPath (v : Value) (segs : List Str) : Option Value := rawPath v segs

/-- A value as merging leaves it in the parameters: it contains no layer list at all
(`Commute.VlFree`), or it is a layer list whose layers contain none. -/
abbrev Layered := Commute.Layered

/-- **Reference = value at the path of the rendered target, through layer lists and string
references.**  Let the parameters be well-formed, let the path pieces of a reference render to
`path = k0:s1:…:sm`, and let the parameters hold `v0` under `k0`, where no layer of `v0` contains
a further layer list (`Layered`).  `v0` and the values passed on the way may be layer lists (with
mapping, string-reference, scalar or `Null` layers, constant/override flags allowed) or string
references.  If `Token::render` of the reference succeeds with `r`, and `Value::interpolate` of
`v0` — from any state, with any fuel — succeeds with `x0`, then the segments `s1 … sm` can be
walked through the mappings of `x0` and the value found there is exactly `r`: same kind, same
data, same flag sets. -/
theorem whole_ref_layered {n m j : Nat} {root : Mapping} {parts : List Token} {path k0 : Str}
    {segs : List Str} {v0 r x0 : Value} {st st' sp s0 s0' : RState}
    (hw : WF root.toValue) (hpath : slice j root parts sp = .ok path)
    (hsplit : splitColon path = k0 :: segs) (hget : root.get (.str k0) = some v0)
    (hlay : Layered v0)
    (h : tokRender n root (.ref parts) st = .ok (r, st'))
    (h0 : interp m root v0 s0 = .ok (x0, s0')) : closedPath x0 segs = some r := by
  have hv0 : WF v0 := by
    simp only [Mapping.toValue, WF] at hw
    exact lookup_some_wf hw.1 hget
  cases n with
  | zero => simp [tokRender] at h
  | succ n =>
    rw [tokRender_succ] at h
    rcases h1 : tokResolve n root (.ref parts) st with e | ⟨v, s1⟩
    · simp [h1] at h
    simp only [h1] at h
    cases n with
    | zero => simp [tokResolve] at h1
    | succ n =>
      rw [tokResolve_ref] at h1
      by_cases hd : st.depth + 1 > maxDepth
      · simp [hd] at h1
      simp only [hd, if_false] at h1
      cases h2 : slice n root parts { st with depth := st.depth + 1 } with
      | error e => simp [h2] at h1
      | ok path' =>
        have hp : path' = path := slice_indep h2 hpath
        subst hp
        simp only [h2] at h1
        by_cases hs : path' ∈ st.seen
        · simp [hs] at h1
        simp only [hs, if_false, hsplit, hget] at h1
        rcases h3 : descend n root v0 segs
          { st with depth := st.depth + 1, seen := path' :: st.seen } path' with e | ⟨vd, s3⟩
        · simp [h3] at h1
        simp only [h3] at h1
        obtain ⟨y, sy, hy, hvd, hwd⟩ :=
          descend_path hw segs n v0 vd _ s3 x0 s0 hv0 hlay ⟨m, s0', h0⟩ h3
        have : r = y := finalLoop_then_interp_exact hw hwd h1 h hvd
        rw [this]; exact hy

/-- `whole_ref_layered` seen from `Value::interpolate` of the string that holds the reference. -/
theorem whole_ref_interp_layered {n m j : Nat} {root : Mapping} {s : Str} {parts : List Token}
    {path k0 : Str} {segs : List Str} {v0 r x0 : Value} {st st' sp s0 s0' : RState}
    (hw : WF root.toValue) (hparse : Token.parse s = .ok (some (.ref parts)))
    (hpath : slice j root parts sp = .ok path)
    (hsplit : splitColon path = k0 :: segs) (hget : root.get (.str k0) = some v0)
    (hlay : Layered v0)
    (h : interp n root (.str s) st = .ok (r, st'))
    (h0 : interp m root v0 s0 = .ok (x0, s0')) : closedPath x0 segs = some r := by
  cases n with
  | zero => simp [interp] at h
  | succ n =>
    rw [interp_str, hparse] at h
    exact whole_ref_layered hw hpath hsplit hget hlay h h0

/-- **A rendered parameter is exactly the interpolation of the raw parameter** (strengthens
`render_entry`, which states it up to flag sets): the `flattened` passes of `Value::rendered`
return what `interpolate` produced unchanged, because that is closed and canonical. -/
theorem render_entry_exact {n : Nat} {root out : Mapping} {k : Key} {v : Value}
    (hw : WF root.toValue) (h : renderParamsF n root = .ok out) (hk : (k, v) ∈ root.es) :
    ∃ x s, interp n root v (({} : RState).pushMappingKey k) = .ok (x, s) ∧
      lookup k out.es = some x := by
  unfold renderParamsF renderedF at h
  cases n with
  | zero => simp [interp] at h
  | succ n =>
    have hm := hw
    simp only [Mapping.toValue, interp] at h
    simp only [Mapping.toValue, WF] at hm
    cases h1 : interpEs n root root.es root.ck root.ok {} {} with
    | error e => simp [h1] at h
    | ok m1 =>
      simp only [h1, Mapping.toValue, flat] at h
      have hw1 := (C07.interp_closed (n := n+1) (st := {}) (st' := {}) (r := m1.toValue) hw hw
        (by simp only [Mapping.toValue, interp, h1])).2
      simp only [Mapping.toValue, WF] at hw1
      cases h2 : flatEs m1.es m1.ck m1.ok {} {} with
      | error e => simp [h2] at h
      | ok m2 =>
        simp only [h2, Except.ok.injEq] at h
        subst h
        simp only
        obtain ⟨_, E1⟩ := interpEs_entries root.es n {} m1 hm.1 (by simpa using hm.2) h1
        obtain ⟨_, E2⟩ := flatEs_entries m1.es {} m2 hw1.1 (by simpa using hw1.2) h2
        obtain ⟨x, s, y, hx, hy, hl⟩ := E1 _ _ hk
        have hvw : WF v := lookup_some_wf hm.1 (lookup_of_mem_nodup hm.2 hk)
        obtain ⟨hkx, hcx, hwx⟩ := C04.interp_canon_result hw hvw hx
        rw [flat_canon x s hcx hwx hkx, Except.ok.injEq] at hy
        subst hy
        obtain ⟨z, hz, hlz⟩ := E2 _ _ (mem_of_lookup hl)
        rw [flat_canon x {} hcx hwx hkx, Except.ok.injEq] at hz
        subst hz
        exact ⟨x, s, interp_fuel_mono _ _ _ hx (by simp), hlz⟩

/-- **In the rendered parameters, `k: ${k0:s1:…:sm}` equals what is found at `k0:s1:…:sm`** —
also when the path passes through keys defined by several classes or through string references
(extends `whole_ref_final_path`, which needs raw mappings on the way).  If rendering well-formed
parameters succeeds, `k` holds a string that parses to a whole-value reference whose path pieces
render to `path = k0:s1:…:sm`, and the raw entry `k0` has no layer list inside a layer
(`Layered`), then in the *output* the entry `k` exists, the walk `k0:s1:…:sm` through the output
mappings succeeds, and both are the very same value (so in particular equal up to `erase`). -/
theorem whole_ref_final_layered {n j : Nat} {root out : Mapping} {k : Key} {s : Str}
    {parts : List Token} {path k0 : Str} {segs : List Str} {v0 : Value} {sp : RState}
    (hw : WF root.toValue) (h : renderParamsF n root = .ok out)
    (hk : (k, .str s) ∈ root.es) (hparse : Token.parse s = .ok (some (.ref parts)))
    (hpath : slice j root parts sp = .ok path) (hsplit : splitColon path = k0 :: segs)
    (hget : root.get (.str k0) = some v0) (hlay : Layered v0) :
    ∃ a, lookup k out.es = some a ∧ closedPath out.toValue (k0 :: segs) = some a := by
  obtain ⟨xk, sk, hxk, hlk⟩ := render_entry_exact hw h hk
  obtain ⟨x0, s0, hx0, hl0⟩ := render_entry_exact hw h (mem_of_lookup hget)
  have hp := whole_ref_interp_layered hw hparse hpath hsplit hget hlay hxk hx0
  refine ⟨xk, hlk, ?_⟩
  simp only [closedPath, Mapping.toValue, rawPath, hl0]
  exact hp

/-- `whole_ref_final_layered` in the shape of `whole_ref_final_path` (equality up to `erase`). -/
theorem whole_ref_final_layered_erase {n j : Nat} {root out : Mapping} {k : Key} {s : Str}
    {parts : List Token} {path k0 : Str} {segs : List Str} {v0 : Value} {sp : RState}
    (hw : WF root.toValue) (h : renderParamsF n root = .ok out)
    (hk : (k, .str s) ∈ root.es) (hparse : Token.parse s = .ok (some (.ref parts)))
    (hpath : slice j root parts sp = .ok path) (hsplit : splitColon path = k0 :: segs)
    (hget : root.get (.str k0) = some v0) (hlay : Layered v0) :
    ∃ a b, lookup k out.es = some a ∧ rawPath out.toValue (k0 :: segs) = some b ∧
      erase a = erase b := by
  obtain ⟨a, ha, hb⟩ := whole_ref_final_layered hw h hk hparse hpath hsplit hget hlay
  exact ⟨a, a, ha, hb, rfl⟩

/-- **Where `Layered` comes from.**  `Mapping::merge` — which is how the parameters of a node
are assembled from its classes — keeps "every value is `Layered`" as long as the mapping merged
in contains no layer list (`Commute.VlFreeEs`, true of YAML-decoded class parameters unless one
YAML mapping repeats a key with a marker): an existing key gets the new value appended to its
layer list, or replaced by it. -/
theorem merge_keeps_layered {a b c : Mapping} (ha : LayeredEs a.es) (hb : VlFreeEs b.es)
    (h : a.merge b = .ok c) : LayeredEs c.es := by
  unfold Mapping.merge at h
  exact mergeEntries_layered ha hb h

/-- … and every value of such parameters satisfies the hypothesis of the theorems above. -/
theorem layered_of_get {root : Mapping} {k : Key} {v : Value} (h : LayeredEs root.es)
    (hg : root.get k = some v) : Layered v := lookup_layered h hg

/-! ### Non-vacuity and the counterexample -/

private def S (s : String) : Str := s.toList
private def K (s : String) : Key := .str s.toList

/-- The JSON texts of entry `k` and of the value at path `p` in the rendered parameters. -/
def refVsPath (n : Nat) (root : Mapping) (k : Key) (p : List Str) : Option (Str × Str) :=
  match renderParamsF n root with
  | .ok out =>
    match lookup k out.es, closedPath out.toValue p with
    | some a, some b =>
      (match jsonOf a, jsonOf b with
       | .ok x, .ok y => some (x, y)
       | _, _ => none)
    | _, _ => none
  | .error _ => none

/-- `t` is defined three times: a mapping, the reference `${u}` (a mapping), a mapping; `k` occurs
in all three layers, `j` holds a reference.  `a`, `b`, `c` look into `t` through references. -/
def demoLayered : Mapping :=
  ⟨[(K "d", .map [(K "y", .num (.int 5))] [] []),
    (K "t", .vl [.map [(K "k", .map [(K "p", .num (.int 1))] [] []), (K "j", .str (S "${d}"))] [] [],
                 .str (S "${u}"),
                 .map [(K "k", .map [(K "q", .num (.int 2))] [] [])] [] []]),
    (K "u", .map [(K "k", .map [(K "r", .str (S "${d:y}"))] [] []), (K "z", .num (.int 0))] [] []),
    (K "a", .str (S "${t:k}")),
    (K "b", .str (S "${t:k:r}")),
    (K "c", .str (S "${t:j:y}"))], [], []⟩

/-- It renders; `a` is the three-way merge of `k`, `b` and `c` are the numbers found deeper. -/
example : C04.renderJson 60 demoLayered = some (S ("{\"a\":{\"p\":1,\"q\":2,\"r\":5},\"b\":5,\"c\":5," ++
    "\"d\":{\"y\":5},\"t\":{\"j\":{\"y\":5},\"k\":{\"p\":1,\"q\":2,\"r\":5},\"z\":0}," ++
    "\"u\":{\"k\":{\"r\":5},\"z\":0}}")) := by decide +kernel

/-- Reference and path agree (`${t:k}` through a layered key, `${t:k:r}` two levels through layered
keys, `${t:j:y}` through a layer list and then a string reference). -/
example : refVsPath 60 demoLayered (K "a") [S "t", S "k"] =
    some (S "{\"p\":1,\"q\":2,\"r\":5}", S "{\"p\":1,\"q\":2,\"r\":5}") := by decide +kernel
example : refVsPath 60 demoLayered (K "b") [S "t", S "k", S "r"] = some (S "5", S "5") := by
  decide +kernel
example : refVsPath 60 demoLayered (K "c") [S "t", S "j", S "y"] = some (S "5", S "5") := by
  decide +kernel

theorem demoLayered_wf : WF demoLayered.toValue := by
  simp only [demoLayered, Mapping.toValue, WF, WFEs, WFL, keys, K, S]
  refine ⟨?_, by decide⟩
  simp only [List.map_cons, List.map_nil, and_true, true_and]
  refine ⟨by decide, ⟨by decide, by decide⟩, by decide, ⟨⟨⟨by decide, ⟨by decide, by decide⟩,
    by decide⟩, by decide⟩, ⟨by decide, ⟨by decide, by decide⟩⟩, by decide⟩, by decide,
    ⟨⟨by decide, ⟨by decide, by decide⟩, by decide⟩, by decide⟩, by decide, by decide, by decide⟩

theorem demoLayered_t : Layered (.vl [.map [(K "k", .map [(K "p", .num (.int 1))] [] []),
      (K "j", .str (S "${d}"))] [] [], .str (S "${u}"),
      .map [(K "k", .map [(K "q", .num (.int 2))] [] [])] [] []]) := by
  simp [Layered, Commute.Layered, VlFreeL, VlFree, VlFreeEs]

/-- Bool test (for kernel evaluation of the parser): `s` parses to the reference `${a}`. -/
def isRefLit (s a : Str) : Bool :=
  match Token.parse s with
  | .ok (some (.ref [.lit b])) => b == a
  | _ => false

theorem isRefLit_sound {s a : Str} (h : isRefLit s a = true) :
    Token.parse s = .ok (some (.ref [.lit a])) := by
  unfold isRefLit at h
  split at h
  · rename_i b hb; rw [hb]; simp at h; rw [h]
  · simp at h

/-- All hypotheses of `whole_ref_final_layered` hold for `a: ${t:k}` in `demoLayered`. -/
example {n : Nat} {out : Mapping} (h : renderParamsF n demoLayered = .ok out) :
    ∃ a, lookup (K "a") out.es = some a ∧ closedPath out.toValue [S "t", S "k"] = some a :=
  whole_ref_final_layered (s := S "${t:k}") (parts := [.lit (S "t:k")]) (j := 2) (sp := {})
    (path := S "t:k") demoLayered_wf h (by simp [demoLayered])
    (isRefLit_sound (by decide +kernel)) (slice_lit 0 _ _ {}) (by rfl) (by rfl) demoLayered_t

/-- … and for `b: ${t:k:r}` (two segments below the layered key). -/
example {n : Nat} {out : Mapping} (h : renderParamsF n demoLayered = .ok out) :
    ∃ a, lookup (K "b") out.es = some a ∧ closedPath out.toValue [S "t", S "k", S "r"] = some a :=
  whole_ref_final_layered (s := S "${t:k:r}") (parts := [.lit (S "t:k:r")]) (j := 2) (sp := {})
    (path := S "t:k:r") demoLayered_wf h (by simp [demoLayered])
    (isRefLit_sound (by decide +kernel)) (slice_lit 0 _ _ {}) (by rfl) (by rfl) demoLayered_t

/-- Flags are allowed: the second layer overrides `k` (`~k` in YAML), a later layer adds to it. -/
def demoOverride : Mapping :=
  ⟨[(K "t", .vl [.map [(K "k", .map [(K "p", .num (.int 1))] [] [])] [] [],
                 .map [(K "k", .map [(K "q", .num (.int 2))] [] [])] [] [K "k"],
                 .map [(K "k", .map [(K "r", .num (.int 3))] [] [])] [] []]),
    (K "a", .str (S "${t:k}"))], [], []⟩

example : refVsPath 60 demoOverride (K "a") [S "t", S "k"] =
    some (S "{\"q\":2,\"r\":3}", S "{\"q\":2,\"r\":3}") := by decide +kernel

/-- **Counterexample without `Layered`.**  The second layer of `t` holds a layer list under `k`
(`[Null, {q: 2}]`).  The parameters are well-formed and have no directly nested layer lists, they
render, `a: ${t:k}` renders to `{"q":2}` — but the rendered `t` holds `{"p":1,"q":2}` under `k`. -/
def witness : Mapping :=
  ⟨[(K "a", .str (S "${t:k}")),
    (K "t", .vl [.map [(K "k", .map [(K "p", .num (.int 1))] [] [])] [] [],
                 .map [(K "k", .vl [.null, .map [(K "q", .num (.int 2))] [] []])] [] []])], [], []⟩

theorem layered_needed :
    refVsPath 60 witness (K "a") [S "t", S "k"] = some (S "{\"q\":2}", S "{\"p\":1,\"q\":2}") := by
  decide +kernel

example : C04.renderJson 60 witness = some (S "{\"a\":{\"q\":2},\"t\":{\"k\":{\"p\":1,\"q\":2}}}") := by
  decide +kernel

/-- The witness is well-formed and free of directly nested layer lists; only `Layered` fails. -/
theorem witness_wf : WF witness.toValue := by
  simp only [witness, Mapping.toValue, WF, WFEs, WFL, keys, K, S]
  simp only [List.map_cons, List.map_nil, and_true, true_and]
  refine ⟨⟨by decide, by decide, ⟨⟨by decide, ⟨by decide, by decide⟩⟩, by decide⟩,
    ⟨by decide, ⟨by decide, by decide⟩⟩, by decide⟩, by decide⟩

theorem witness_noNest : NoNest witness.toValue := by
  simp [witness, Mapping.toValue, NoNest, NoNestEs, NoNestL, Value.isVl]

theorem witness_not_layered : ¬ Layered (.vl [.map [(K "k", .map [(K "p", .num (.int 1))] [] [])] [] [],
    .map [(K "k", .vl [.null, .map [(K "q", .num (.int 2))] [] []])] [] []]) := by
  simp [Layered, Commute.Layered, VlFreeL, VlFree, VlFreeEs]

/-- The inner layer list is what the YAML mapping `{k: ~, "=k": {q: 2}}` decodes to (the second
entry is inserted under the stripped key `k`, which exists, so `insert_impl` appends). -/
def isNullThenMap : R Value → Bool
  | .ok (.map [(_, .vl [.null, .map _ _ _])] _ _) => true
  | _ => false

example : isNullThenMap (Value.ofYaml (.map [(.str (S "k"), .null),
    (.str (S "=k"), .map [(.str (S "q"), .num (.int 2))])])) = true := by decide +kernel

/-- The same counterexample with the second layer exactly as decoded from that YAML mapping
(constant flag on `k`). -/
def witnessYaml : Mapping :=
  ⟨[(K "a", .str (S "${t:k}")),
    (K "t", .vl [.map [(K "k", .map [(K "p", .num (.int 1))] [] [])] [] [],
                 .map [(K "k", .vl [.null, .map [(K "q", .num (.int 2))] [] []])] [K "k"] []])], [], []⟩

theorem layered_needed_yaml :
    refVsPath 60 witnessYaml (K "a") [S "t", S "k"] = some (S "{\"q\":2}", S "{\"p\":1,\"q\":2}") := by
  decide +kernel

/-- The same with an override flag inside the inner layer list instead of `Null`: the raw merge
`[{j:{p:1}}, {j:{q:2}}, {~j:{r:3}}]` lets the override wipe `p`, the rendered route does not. -/
def witnessOverride : Mapping :=
  ⟨[(K "a", .str (S "${t:k}")),
    (K "t", .vl [.map [(K "k", .map [(K "j", .map [(K "p", .num (.int 1))] [] [])] [] [])] [] [],
                 .map [(K "k", .vl [.map [(K "j", .map [(K "q", .num (.int 2))] [] [])] [] [],
                                    .map [(K "j", .map [(K "r", .num (.int 3))] [] [])] [] [K "j"]])]
                   [] []])], [], []⟩

theorem layered_needed_override :
    refVsPath 80 witnessOverride (K "a") [S "t", S "k"] =
      some (S "{\"j\":{\"r\":3}}", S "{\"j\":{\"p\":1,\"r\":3}}") := by
  decide +kernel

end C03
end Reclass
