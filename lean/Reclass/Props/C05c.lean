/-
  C05c — A reference padded with text is text.

  A string that holds exactly one reference with anything around it — also if the surrounding
  text is only whitespace (a leading blank, a trailing tab, the newline a YAML block scalar ends
  with) — is a *mixed* string: it renders to a literal string that begins with the text before
  the reference, ends with the text after it, and has the text form of the referenced value in
  between.  The padding is never dropped and the referenced value's type is never kept.

  * `padded_ref_parses_combined` — `pre${path}post` with `pre` or `post` non-empty parses to a
    `Combined` token (never to a bare `Ref`).
  * `padded_reference_is_text` — whatever such a string renders to is `Literal (pre ++ t ++ post)`,
    and the caller's resolve state is unchanged.
  * `padded_reference_never_typed` — in particular the result is not a number, boolean, null,
    mapping or list.
-/
import Reclass.Props.C05
import Reclass.Props.C06
namespace Reclass
namespace C05c
open C05 C06

theorem lit_piece {k : Nat} {root : Mapping} {st : RState} {s x : Str}
    (h : pieceText k root (.lit s) st = .ok x) : x = s := by
  cases k with
  | zero => simp [pieceText, tokResolve] at h
  | succ k =>
    rw [literal_piece_text] at h
    cases h; rfl

/-- The pieces of `pre${path}post`. -/
def padPieces (pre path post : Str) : List Token := litOpt pre ++ [.ref [.lit path]] ++ litOpt post

theorem padded_ref_parses_combined (pre path post : Str)
    (hpre : ∀ c ∈ pre, c ≠ '$' ∧ c ≠ '\\')
    (hpath : ∀ c ∈ path, c ≠ '$' ∧ c ≠ '\\' ∧ c ≠ '}') (hne : path ≠ [])
    (hpost : ∀ c ∈ post, c ≠ '$' ∧ c ≠ '\\') (hpad : pre ≠ [] ∨ post ≠ []) :
    Token.parse (pre ++ '$' :: '{' :: (path ++ '}' :: post)) =
      .ok (some (.combined (padPieces pre path post))) := by
  rw [simple_ref_accepted pre path post hpre hpath hne hpost]
  unfold padPieces litOpt
  by_cases h1 : pre = [] <;> by_cases h2 : post = [] <;> simp [h1, h2, pack] at hpad ⊢

/-- The text of the pieces: the padding as written around the text of the reference. -/
theorem padPieces_text {n : Nat} {root : Mapping} {st : RState} {pre path post s : Str}
    (h : slice n root (padPieces pre path post) st = .ok s) :
    ∃ t, s = pre ++ t ++ post := by
  obtain ⟨texts, hp, hs⟩ := slice_eq_concat.1 h
  subst hs
  unfold padPieces litOpt at hp
  by_cases h1 : pre = [] <;> by_cases h2 : post = []
  · subst h1; subst h2
    simp only [if_true, List.nil_append, List.append_nil] at hp
    cases hp with
    | @cons _ _ _ x _ hx hrest => cases hrest; exact ⟨x, by simp⟩
  · subst h1
    simp only [if_true, h2, if_false, List.nil_append] at hp
    cases hp with
    | @cons _ _ _ x _ hx hrest =>
      cases hrest with
      | @cons _ _ _ y _ hy hrest2 =>
        cases hrest2
        have := lit_piece hy
        subst this
        exact ⟨x, by simp⟩
  · subst h2
    simp only [h1, if_false, if_true, List.append_nil] at hp
    cases hp with
    | @cons _ _ _ x _ hx hrest =>
      cases hrest with
      | @cons _ _ _ y _ hy hrest2 =>
        cases hrest2
        have := lit_piece hx
        subst this
        exact ⟨y, by simp⟩
  · simp only [h1, h2, if_false] at hp
    cases hp with
    | @cons _ _ _ x _ hx hrest =>
      cases hrest with
      | @cons _ _ _ y _ hy hrest2 =>
        cases hrest2 with
        | @cons _ _ _ z _ hz hrest3 =>
          cases hrest3
          have a := lit_piece hx
          have b := lit_piece hz
          subst a; subst b
          exact ⟨y, by simp⟩

/-- **A padded reference renders to text**: a literal string that starts with `pre`, ends with
`post`; the resolve state of the caller is untouched. -/
theorem padded_reference_is_text (pre path post : Str)
    (hpre : ∀ c ∈ pre, c ≠ '$' ∧ c ≠ '\\')
    (hpath : ∀ c ∈ path, c ≠ '$' ∧ c ≠ '\\' ∧ c ≠ '}') (hne : path ≠ [])
    (hpost : ∀ c ∈ post, c ≠ '$' ∧ c ≠ '\\') (hpad : pre ≠ [] ∨ post ≠ [])
    {n : Nat} {root : Mapping} {st st' : RState} {v : Value}
    (h : interp n root (.str (pre ++ '$' :: '{' :: (path ++ '}' :: post))) st = .ok (v, st')) :
    ∃ t, v = .lit (pre ++ t ++ post) ∧ st' = st := by
  cases n with
  | zero => simp [interp] at h
  | succ m =>
    simp only [interp, padded_ref_parses_combined pre path post hpre hpath hne hpost hpad] at h
    obtain ⟨s, hv, hst, hs⟩ := combined_renders_literal' h
    obtain ⟨t, ht⟩ := padPieces_text hs
    exact ⟨t, by rw [hv, ht], hst⟩

/-- … so it is never a typed value. -/
theorem padded_reference_never_typed (pre path post : Str)
    (hpre : ∀ c ∈ pre, c ≠ '$' ∧ c ≠ '\\')
    (hpath : ∀ c ∈ path, c ≠ '$' ∧ c ≠ '\\' ∧ c ≠ '}') (hne : path ≠ [])
    (hpost : ∀ c ∈ post, c ≠ '$' ∧ c ≠ '\\') (hpad : pre ≠ [] ∨ post ≠ [])
    {n : Nat} {root : Mapping} {st st' : RState} {v : Value}
    (h : interp n root (.str (pre ++ '$' :: '{' :: (path ++ '}' :: post))) st = .ok (v, st')) :
    (∀ x, v ≠ .num x) ∧ (∀ b, v ≠ .bool b) ∧ v ≠ .null ∧ (∀ es ck ok, v ≠ .map es ck ok) ∧ (∀ l, v ≠ .seq l) := by
  obtain ⟨t, hv, _⟩ := padded_reference_is_text pre path post hpre hpath hne hpost hpad h
  subst hv
  refine ⟨?_, ?_, ?_, ?_, ?_⟩ <;> intros <;> simp

/-! ### Non-vacuity: ` ${n}` (one leading blank) -/

example : (∀ c ∈ [' '], c ≠ '$' ∧ c ≠ '\\') ∧ (∀ c ∈ ['n'], c ≠ '$' ∧ c ≠ '\\' ∧ c ≠ '}') ∧
    (([' '] : Str) ≠ [] ∨ ([] : Str) ≠ []) := by
  refine ⟨by decide, by decide, Or.inl (by decide)⟩
example : Token.parse ([' '] ++ '$' :: '{' :: (['n'] ++ '}' :: [])) =
    .ok (some (.combined [.lit [' '], .ref [.lit ['n']]])) :=
  padded_ref_parses_combined [' '] ['n'] [] (by decide) (by decide) (by decide) (by simp) (Or.inl (by decide))

end C05c
end Reclass
