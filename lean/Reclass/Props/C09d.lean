/-
  C09d — Constant keys over whole stacks of layers.

  `Props/C09` states the insert- and merge-level laws.  This file lifts them to the two places
  where *stacks* of layers meet in the code:

  * the class walk: `root.merge(layer)` for every class in merge order
    (`DeepMerge.mergeLayers`, the fold of `Mapping::merge` that `Node::merge_into` performs for
    the parameters of every class and finally of the node) — the mapping here is the top level
    of the parameters;
  * rendering a multiply-defined *nested* mapping: the layers collected under one key are
    merged by `Value::flattened` / `Value::merge` (`flatVl`), which for two mappings is again
    `Mapping::merge`.

  Statements (all for arbitrary layers, keys, values; no size bound):

  1. `stack_const_persists` — once `k0` is constant and present, it stays constant **with the
     same value** through any number of successfully merged layers ("never silently altered,
     merged into or dropped").
  2. `stack_const_then_write_fails` — if a later layer has any entry whose stripped key is
     `k0`, merging the stack fails, with a constant-key error; `…_exact` names `k0` when the
     entries before the offending one merge.
  3. `stack_ok_no_later_write` — contrapositive: a stack that merges contains no write to `k0`
     after the point where `k0` became constant.
  4. `stack_layers_before_merge_normally` — the layers before the constant definition merge as
     they do without the rest (`mergeLayers_append`).
  5. `const_flags_only_reject` — constant markings never change merged data: if a merge with
     flags succeeds, the merge with all constant flags erased succeeds with the same entries
     and the same override set (so a constant is only ever a *veto*).
  6. `flatVl_maps` — the layer-list fold over mapping layers is `mergeLayers`; hence 1–3 hold
     for nested mappings (`nested_const_then_write_fails`), and
     `nested_null_layer_lifts` — a `null` layer between the constant definition and the write
     lifts the protection (the enclosing mapping was replaced as a whole).
-/
import Reclass.Props.C09
import Reclass.Spec.DeepMerge
namespace Reclass
namespace C09d
open DeepMerge

/-! ### The fold over layers -/

theorem mergeLayers_nil (b : Mapping) : mergeLayers b [] = .ok b := rfl

theorem mergeLayers_cons (b m : Mapping) (ms : List Mapping) :
    mergeLayers b (m :: ms) =
      match b.merge m with
      | .error e => .error e
      | .ok b' => mergeLayers b' ms := rfl

/-- Layers are merged left to right: a stack `pre ++ rest` merges `pre` first, exactly as it
would without `rest`, and continues from that result. -/
theorem mergeLayers_append (b : Mapping) (pre rest : List Mapping) :
    mergeLayers b (pre ++ rest) =
      match mergeLayers b pre with
      | .error e => .error e
      | .ok b' => mergeLayers b' rest := by
  induction pre generalizing b with
  | nil => rfl
  | cons m ms ih =>
    simp only [List.cons_append, mergeLayers_cons]
    cases h : b.merge m with
    | error e => rfl
    | ok b' => exact ih b'

/-- The layers before the constant definition merge as they do on their own: an error among
them is the stack's error. -/
theorem stack_layers_before_merge_normally (b : Mapping) (pre rest : List Mapping) (e : Err)
    (h : mergeLayers b pre = .error e) : mergeLayers b (pre ++ rest) = .error e := by
  rw [mergeLayers_append, h]

/-! ### 1. A constant survives every successfully merged layer, value included -/

theorem stack_const_persists (b b' : Mapping) (mid : List Mapping) (k0 : Key) (old : Value)
    (hk : k0 ∈ b.ck) (hl : lookup k0 b.es = some old) (h : mergeLayers b mid = .ok b') :
    k0 ∈ b'.ck ∧ lookup k0 b'.es = some old := by
  induction mid generalizing b with
  | nil => cases h; exact ⟨hk, hl⟩
  | cons m ms ih =>
    rw [mergeLayers_cons] at h
    cases h1 : b.merge m with
    | error e => simp [h1] at h
    | ok b1 =>
      simp only [h1] at h
      exact ih b1 (C09.merge_keeps_const b m b1 k0 hk h1)
        (C09.merge_keeps_const_value b m b1 k0 old hk hl h1) h

/-! ### 2. A later write to the constant key fails the whole stack -/

/-- Every failure of the fold is a constant-key rejection. -/
theorem stack_error_is_constKey (b : Mapping) (ms : List Mapping) (e : Err)
    (h : mergeLayers b ms = .error e) : ∃ k', e = .constKey k' := by
  induction ms generalizing b with
  | nil => cases h
  | cons m ms ih =>
    rw [mergeLayers_cons] at h
    cases h1 : b.merge m with
    | error e1 =>
      simp only [h1] at h
      cases h
      exact C09.merge_error_is_constKey b m _ h1
    | ok b1 =>
      simp only [h1] at h
      exact ih b1 h

/-- `k0` is constant and present in `b`; after any layers `mid`, a layer `w` has an entry whose
stripped key is `k0` (written plainly, as `=k0` or as `~k0`), followed by any layers `post`:
the stack does not merge, and the error is a constant-key error. -/
theorem stack_const_then_write_fails (b w : Mapping) (mid post : List Mapping)
    (k k0 : Key) (v old : Value)
    (hk : k0 ∈ b.ck) (hl : lookup k0 b.es = some old)
    (hmem : (k, v) ∈ w.es) (hs : k.stripPrefix.1 = k0) :
    ∃ k', mergeLayers b (mid ++ w :: post) = .error (.constKey k') := by
  rw [mergeLayers_append]
  cases h : mergeLayers b mid with
  | error e =>
    obtain ⟨k', hk'⟩ := stack_error_is_constKey b mid e h
    exact ⟨k', by rw [hk']⟩
  | ok b' =>
    obtain ⟨hk', hl'⟩ := stack_const_persists b b' mid k0 old hk hl h
    obtain ⟨k', he⟩ := C09.const_then_write_fails_constKey b' w k k0 v old hk' hl' hmem hs
    exact ⟨k', by simp only [mergeLayers_cons, he]⟩

/-- The same counted from the empty base: `pre` are the layers up to and including the one that
made `k0` constant. -/
theorem stack_const_then_write_fails_from (base b w : Mapping) (pre mid post : List Mapping)
    (k k0 : Key) (v old : Value)
    (hpre : mergeLayers base pre = .ok b)
    (hk : k0 ∈ b.ck) (hl : lookup k0 b.es = some old)
    (hmem : (k, v) ∈ w.es) (hs : k.stripPrefix.1 = k0) :
    ∃ k', mergeLayers base (pre ++ (mid ++ w :: post)) = .error (.constKey k') := by
  rw [mergeLayers_append, hpre]
  exact stack_const_then_write_fails b w mid post k k0 v old hk hl hmem hs

/-- Exact error: when the layers in between merge and the entries of `w` before the offending
one merge, the error names exactly `k0`. -/
theorem stack_const_then_write_fails_exact (b b' m1 w : Mapping) (mid post : List Mapping)
    (k k0 : Key) (v old : Value) (epre epost : List (Key × Value))
    (hk : k0 ∈ b.ck) (hl : lookup k0 b.es = some old)
    (hmid : mergeLayers b mid = .ok b')
    (hes : w.es = epre ++ (k, v) :: epost) (hs : k.stripPrefix.1 = k0)
    (hepre : b'.mergeEntries w.ck w.ok epre = .ok m1) :
    mergeLayers b (mid ++ w :: post) = .error (.constKey k0) := by
  obtain ⟨hk', hl'⟩ := stack_const_persists b b' mid k0 old hk hl hmid
  rw [mergeLayers_append, hmid]
  simp only [mergeLayers_cons,
    C09.const_then_write_fails_exact b' w m1 k k0 v old epre epost hk' hl' hes hs hepre]

/-- A one-entry layer writing the constant key: the error names the key. -/
theorem stack_const_then_single_write_fails (b b' w : Mapping) (mid post : List Mapping)
    (k k0 : Key) (v old : Value)
    (hk : k0 ∈ b.ck) (hl : lookup k0 b.es = some old)
    (hmid : mergeLayers b mid = .ok b')
    (hes : w.es = [(k, v)]) (hs : k.stripPrefix.1 = k0) :
    mergeLayers b (mid ++ w :: post) = .error (.constKey k0) :=
  stack_const_then_write_fails_exact b b' b' w mid post k k0 v old [] [] hk hl hmid
    (by simpa using hes) hs rfl

/-! ### 2b. Which key a failed merge names -/

/-- A failed merge names the **first** offending entry in the order in which the layer lists
its entries: the entries before it merged, and its stripped key is present and constant at that
point.  (The error is a function of the two mappings' entry order; when one layer overwrites
several constants it is always the same one that is reported.) -/
theorem merge_error_names_first_violation (m other : Mapping) (e : Err)
    (h : m.merge other = .error e) :
    ∃ pre k v post m1, other.es = pre ++ (k, v) :: post ∧
      m.mergeEntries other.ck other.ok pre = .ok m1 ∧
      e = .constKey k.stripPrefix.1 ∧ k.stripPrefix.1 ∈ m1.ck ∧
      (lookup k.stripPrefix.1 m1.es).isSome := by
  rw [merge_eq] at h
  generalize other.es = es at h ⊢
  induction es generalizing m with
  | nil => simp [Mapping.mergeEntries] at h
  | cons kv es ih =>
    obtain ⟨k, v⟩ := kv
    rw [mergeEntries_cons] at h
    cases h1 : m.insertImpl k v (decide (k ∈ other.ck)) (decide (k ∈ other.ok)) with
    | error e1 =>
      simp only [h1] at h
      cases h
      obtain ⟨he, hl, hc⟩ := (C09.insert_error_iff _ _ _ _ _ _).1 h1
      exact ⟨[], k, v, es, m, rfl, rfl, he, hc, hl⟩
    | ok m1 =>
      simp only [h1] at h
      obtain ⟨pre, k', v', post, m2, a, b, c, d, f⟩ := ih m1 h
      refine ⟨(k, v) :: pre, k', v', post, m2, by rw [a]; rfl, ?_, c, d, f⟩
      rw [mergeEntries_cons, h1]
      exact b


/-! ### 3. Contrapositive: a stack that merges never wrote to the constant -/

theorem stack_ok_no_later_write (b r : Mapping) (ms : List Mapping) (k0 : Key) (old : Value)
    (hk : k0 ∈ b.ck) (hl : lookup k0 b.es = some old) (h : mergeLayers b ms = .ok r) :
    (∀ w ∈ ms, ∀ k v, (k, v) ∈ w.es → k.stripPrefix.1 ≠ k0) ∧
      k0 ∈ r.ck ∧ lookup k0 r.es = some old := by
  refine ⟨?_, stack_const_persists b r ms k0 old hk hl h⟩
  intro w hw k v hmem hs
  obtain ⟨mid, post, rfl⟩ := List.append_of_mem hw
  obtain ⟨k', he⟩ := stack_const_then_write_fails b w mid post k k0 v old hk hl hmem hs
  rw [he] at h
  cases h

/-! ### 5. Constant markings are only ever a veto -/

/-- The mapping with its constant flags erased. -/
def eraseCk (m : Mapping) : Mapping := { m with ck := [] }

/-- The same entries and override set; constant flags not compared. -/
def SameData (a b : Mapping) : Prop := a.es = b.es ∧ a.ok = b.ok

theorem insertImpl_same_data {m n m' : Mapping} (k : Key) (v : Value) (fc fo : Bool)
    (hd : SameData m n) (hn : n.ck = []) (h : m.insertImpl k v fc fo = .ok m') :
    ∃ n', n.insertImpl k v false fo = .ok n' ∧ SameData m' n' ∧
      (k.stripPrefix.2 ≠ some .const → n'.ck = []) := by
  obtain ⟨hes, hok⟩ := hd
  rw [insertImpl_eq] at h
  rw [insertImpl_eq, ← hes, ← hok, hn]
  cases hl : lookup k.stripPrefix.1 m.es with
  | none =>
    simp only [hl] at h ⊢
    cases h
    refine ⟨_, rfl, ⟨rfl, rfl⟩, ?_⟩
    intro hp
    simp [hp]
  | some old =>
    simp only [hl] at h ⊢
    by_cases hc : k.stripPrefix.1 ∈ m.ck
    · simp [hc] at h
    · simp only [hc, if_false] at h
      cases h
      have hnil : k.stripPrefix.1 ∉ ([] : List Key) := by simp
      simp only [hnil, if_false]
      refine ⟨_, rfl, ⟨rfl, rfl⟩, ?_⟩
      intro hp
      simp [hp]

/-- One successful insert with whatever constant flags and forcing, replayed on a mapping with
the same data whose constant set is arbitrary *but does not contain the key*: same data. -/
theorem insertImpl_data_indep {m n m' : Mapping} (k : Key) (v : Value) (fc fc' fo : Bool)
    (hd : SameData m n) (hnk : k.stripPrefix.1 ∉ n.ck) (h : m.insertImpl k v fc fo = .ok m') :
    ∃ n', n.insertImpl k v fc' fo = .ok n' ∧ SameData m' n' := by
  obtain ⟨hes, hok⟩ := hd
  rw [insertImpl_eq] at h
  rw [insertImpl_eq, ← hes, ← hok]
  cases hl : lookup k.stripPrefix.1 m.es with
  | none =>
    simp only [hl] at h ⊢
    cases h
    exact ⟨_, rfl, ⟨rfl, rfl⟩⟩
  | some old =>
    simp only [hl] at h ⊢
    by_cases hc : k.stripPrefix.1 ∈ m.ck
    · simp [hc] at h
    · simp only [hc, if_false] at h
      cases h
      simp only [hnk, if_false]
      exact ⟨_, rfl, ⟨rfl, rfl⟩⟩

/-- **Constant markings never change merged data.**  If `m.merge other` succeeds, then merging
the same entries into a mapping with the same data and *no* constant flags, with no forced
constants, and with `=`-prefixed keys allowed to set flags only for keys that are not written
again — succeeds with the same entries and override set.  Stated for stored layers, whose keys
carry no marker (`hclean`), which is what the class walk merges. -/
theorem const_flags_only_reject (m n other m' : Mapping)
    (hd : SameData m n) (hn : n.ck = [])
    (hclean : ∀ k v, (k, v) ∈ other.es → k.stripPrefix.2 ≠ some .const)
    (h : m.merge other = .ok m') :
    ∃ n', n.merge { other with ck := [] } = .ok n' ∧ SameData m' n' ∧ n'.ck = [] := by
  rw [merge_eq] at h
  show ∃ n', n.mergeEntries [] other.ok other.es = .ok n' ∧ _
  revert h hd hn
  generalize other.es = es at hclean
  induction es generalizing m n with
  | nil =>
    intro hd hn h
    cases h
    exact ⟨n, rfl, hd, hn⟩
  | cons e es ih =>
    obtain ⟨k, v⟩ := e
    intro hd hn h
    rw [mergeEntries_cons] at h ⊢
    cases h1 : m.insertImpl k v (decide (k ∈ other.ck)) (decide (k ∈ other.ok)) with
    | error e => simp [h1] at h
    | ok m1 =>
      simp only [h1] at h
      obtain ⟨n1, hn1, hd1, hck1⟩ := insertImpl_same_data k v _ _ hd hn h1
      have hd0 : decide (k ∈ ([] : List Key)) = false := by simp
      rw [hd0, hn1]
      exact ih m1 n1 (fun k' v' hm => hclean k' v' (List.mem_cons_of_mem _ hm)) hd1
        (hck1 (hclean k v (List.mem_cons_self ..))) h

/-! ### 6. Nested mappings: the layer-list fold is the same fold -/

theorem mergeV_map_map (a c : Mapping) (st : RState) :
    mergeV a.toValue c.toValue st =
      match a.merge c with
      | .error e => .error e
      | .ok m => .ok m.toValue := rfl

theorem mergeV_null_map (c : Mapping) (st : RState) : mergeV .null c.toValue st = .ok c.toValue := rfl

/-- `Value::flattened` of a layer list that holds mappings only, from a mapping: the fold of
`Mapping::merge`. -/
theorem flatVl_maps (b : Mapping) (ms : List Mapping) (st : RState) :
    flatVl (ms.map Mapping.toValue) b.toValue st =
      match mergeLayers b ms with
      | .error e => .error e
      | .ok r => .ok r.toValue := by
  induction ms generalizing b with
  | nil => rfl
  | cons m ms ih =>
    simp only [List.map_cons, flatVl, mergeV_map_map, mergeLayers_cons]
    cases h : b.merge m with
    | error e => rfl
    | ok b' => exact ih b'

/-- … and from the empty accumulator (`null`), as `Value::flattened` starts. -/
theorem flatVl_maps_null (m : Mapping) (ms : List Mapping) (st : RState) :
    flatVl ((m :: ms).map Mapping.toValue) .null st =
      match mergeLayers m ms with
      | .error e => .error e
      | .ok r => .ok r.toValue := by
  simp only [List.map_cons, flatVl, mergeV_null_map]
  exact flatVl_maps m ms st

/-- Nested mappings: the first layer `c` holds `k0` as a constant; a later mapping layer `w`
writes a key stripping to `k0`: rendering the layer list fails with a constant-key error
whatever mapping layers lie between and after. -/
theorem nested_const_then_write_fails (c w : Mapping) (mid post : List Mapping)
    (k k0 : Key) (v old : Value) (st : RState)
    (hk : k0 ∈ c.ck) (hl : lookup k0 c.es = some old)
    (hmem : (k, v) ∈ w.es) (hs : k.stripPrefix.1 = k0) :
    ∃ k', flatVl ((c :: (mid ++ w :: post)).map Mapping.toValue) .null st = .error (.constKey k') := by
  obtain ⟨k', he⟩ := stack_const_then_write_fails c w mid post k k0 v old hk hl hmem hs
  exact ⟨k', by rw [flatVl_maps_null, he]⟩

/-- If the nested layer list renders, the constant is in the result with its value. -/
theorem nested_ok_const_untouched (c : Mapping) (ms : List Mapping) (k0 : Key) (old r : Value)
    (st : RState) (hk : k0 ∈ c.ck) (hl : lookup k0 c.es = some old)
    (h : flatVl ((c :: ms).map Mapping.toValue) .null st = .ok r) :
    ∃ rm : Mapping, r = rm.toValue ∧ k0 ∈ rm.ck ∧ lookup k0 rm.es = some old ∧
      ∀ w ∈ ms, ∀ k v, (k, v) ∈ w.es → k.stripPrefix.1 ≠ k0 := by
  rw [flatVl_maps_null] at h
  cases h1 : mergeLayers c ms with
  | error e => simp [h1] at h
  | ok rm =>
    simp only [h1] at h
    cases h
    obtain ⟨a, b, d⟩ := stack_ok_no_later_write c rm ms k0 old hk hl h1
    exact ⟨rm, rfl, b, d, a⟩

/-- A `null` layer replaces the enclosing mapping as a whole and thereby lifts the protection:
whatever was constant before it, the layers after it start afresh. -/
theorem nested_null_layer_lifts (before after : List Value) (acc b : Value) (st : RState)
    (h : flatVl before acc st = .ok b) :
    flatVl (before ++ .null :: after) acc st = flatVl after .null st := by
  induction before generalizing acc with
  | nil => simp only [List.nil_append, flatVl, mergeV]
  | cons x xs ih =>
    simp only [List.cons_append, flatVl] at h ⊢
    cases h1 : mergeV acc x st with
    | error e => simp [h1] at h
    | ok a1 =>
      simp only [h1] at h ⊢
      exact ih a1 h

/-- Layers are folded left to right: an error among the first layers is the result, whatever follows. -/
theorem flatVl_append (a b : List Value) (base : Value) (st : RState) :
    flatVl (a ++ b) base st =
      match flatVl a base st with
      | .error e => .error e
      | .ok r => flatVl b r st := by
  induction a generalizing base with
  | nil => rfl
  | cons x xs ih =>
    simp only [List.cons_append, flatVl]
    cases h : mergeV base x st with
    | error e => rfl
    | ok r => exact ih r

/-- **A later reset does not hide an earlier violation.**  The protection is lifted for the layers
*after* a `null` layer, not retroactively: if a layer wrote to a constant before the enclosing
mapping was reset to `null`, rendering the layer list still fails with the constant-key error,
whatever layers (resets included) follow. -/
theorem nested_violation_not_hidden_by_later_reset (c w : Mapping) (mid : List Mapping)
    (later : List Value) (k k0 : Key) (v old : Value) (st : RState)
    (hk : k0 ∈ c.ck) (hl : lookup k0 c.es = some old)
    (hmem : (k, v) ∈ w.es) (hs : k.stripPrefix.1 = k0) :
    ∃ k', flatVl ((c :: (mid ++ [w])).map Mapping.toValue ++ .null :: later) .null st =
      .error (.constKey k') := by
  obtain ⟨k', he⟩ := nested_const_then_write_fails c w mid [] k k0 v old st hk hl hmem hs
  refine ⟨k', ?_⟩
  rw [flatVl_append, he]


/-! ### Non-vacuity -/

private def kA : Key := .str "a".toList
private def kB : Key := .str "b".toList
private def one : Value := .num (.int 1)
private def two : Value := .num (.int 2)
/-- `{=a: 1}` as stored. -/
private def cA : Mapping := { es := [(kA, one)], ck := [kA] }
/-- `{b: 2}`. -/
private def lB : Mapping := { es := [(kB, two)] }
/-- `{a: 2}` / `{~a: 2}` as stored. -/
private def wA : Mapping := { es := [(kA, two)] }
private def wAo : Mapping := { es := [(kA, two)], ok := [kA] }

example : mergeLayers {} [cA, lB, wA] = .error (.constKey kA) := rfl
example : mergeLayers {} [cA, lB, wAo] = .error (.constKey kA) := rfl
example : ∃ r, mergeLayers {} [cA, lB, lB] = .ok r ∧ lookup kA r.es = some one ∧ kA ∈ r.ck :=
  ⟨_, rfl, rfl, by decide⟩
example (st : RState) :
    flatVl [cA.toValue, lB.toValue, wA.toValue] .null st = .error (.constKey kA) := rfl
example (st : RState) :
    flatVl [cA.toValue, .null, wA.toValue] .null st = .ok wA.toValue := rfl
example (st : RState) :
    flatVl [cA.toValue, wA.toValue, .null, lB.toValue] .null st = .error (.constKey kA) := rfl
/-- layers before the constant definition merge normally -/
example : ∃ r, mergeLayers {} [wA, cA] = .ok r ∧ kA ∈ r.ck := ⟨_, rfl, by decide⟩

end C09d
end Reclass
