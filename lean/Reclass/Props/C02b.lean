/-
  C02 (part b) — Layered parameters deep-merge: the evaluator refines a specification.

  "When the same parameter is defined in several layers, the result is their deep merge in
  layer order: mappings merge key by key recursively, lists are concatenated, a scalar replaces
  an earlier scalar, and null replaces (and is replaced by) anything.  Combining a mapping or a
  list with a non-null value of a different kind is reported as an error naming the parameter,
  never silently resolved in favour of either side; only a later override of that very key
  discards the conflicting layers together with their conflict."

  Scope of this file: reference-free, marker-free, flag-free layers (`RefFree` / `Plain`,
  `Spec/DeepMerge`): no `${…}` / `$[…]` in any string, no `=`/`~` key prefixes.  (Part a,
  `Props/C02a`, is the kind table of a single `Value::merge`; overrides are C10.)

  The specification (`Spec/DeepMerge`) is a fold of a binary, structurally recursive `deep` over
  the layers, producing a parameter tree in which a conflict *poisons* the parameter it occurs
  at; `deepAll` is the value of that tree, `deepParams` the same for whole parameter mappings.

  Main results
  * `vl_renders_deep`            — a multiply-defined parameter (`ValueList` of its layers)
                                   interpolates to exactly `deepAll` of the layers: same value,
                                   same error, state untouched.
  * `render_refines_deepMerge`   — merging layers with `Mapping::merge` and rendering with
                                   `render_parameters` is exactly `deepParams`.
  * `deepParams_by_key`          — `deepParams` key by key: keys in order of first appearance,
                                   under each key `deepAll` of the values the layers write to it.
  * the table of `merge2`, `fold_reading`, `null_resets`, `scalar_replaces`,
    `lists_concatenate`, `maps_recurse`, `conflict_never_silent_stack`, `errors_name_the_parameter`.
  * `override_refines`, `override_restarts_stack` — the same refinement for layers whose top-level
                                   keys may carry the override marker: `~k` restarts the stack
                                   of `k` (values below the top level still flag-free).

  A finding (see `nested_conflict_is_deferred` and the examples after it): a conflict between
  the layers of *one* parameter is final, but a conflict inside a *member* of a mapping is only
  detected when that member is rendered — a later `null` for the enclosing mapping discards the
  member together with its conflict.  So it is not only "a later override of that very key"
  that discards a conflict.

  All fuel statements come in two forms: "for all sufficiently large fuel" and "for every amount
  of fuel with which the run finishes (does not end in the model's fuel error)".
-/
import Reclass.Lemmas.DeepMergeL
import Reclass.Props.C02a
namespace Reclass
namespace C02
open DeepMerge

/-! ### 1. A multiply-defined parameter renders to the deep merge of its layers -/

/-- **The layer list of a parameter interpolates to `deepAll` of its layers.**
`vs` are the reference-free layers of one parameter, in layer order, `root` any parameters,
`st` any resolve state (`st.cur` is the path of the parameter).  For all sufficiently large fuel,
`Value::interpolate` of the `ValueList` returns the deep merge of the (interpolated) layers and
the unchanged state — or exactly the conflict error the specification reports. -/
theorem vl_renders_deep (root : Mapping) {vs : List Value} (h : RefFreeL vs) (st : RState) :
    ∃ N, ∀ n, N ≤ n →
      interp n root (.vl vs) st =
        match deepAll st.cur (normL vs) with
        | .ok r => .ok (r, st)
        | .error e => .error e := by
  obtain ⟨N, c⟩ := vl_settles root h st
  refine ⟨N, fun n hn => ?_⟩
  have := c n hn
  dsimp only at this
  rw [this]
  cases deepAll st.cur (normL vs) <;> rfl

/-- The same for layers that contain no unparsed string at all (`Plain`): nothing is normalised. -/
theorem vl_renders_deep_plain (root : Mapping) {vs : List Value} (h : PlainL vs) (st : RState) :
    ∃ N, ∀ n, N ≤ n →
      interp n root (.vl vs) st =
        match deepAll st.cur vs with
        | .ok r => .ok (r, st)
        | .error e => .error e := by
  have := vl_renders_deep root (plainL_refFreeL vs h) st
  rwa [normL_plain vs h] at this

/-- The same for *every* amount of fuel with which the run finishes. -/
theorem vl_renders_deep_finished (root : Mapping) {vs : List Value} (h : RefFreeL vs)
    (st : RState) (n : Nat) (hn : interp n root (.vl vs) st ≠ .error .fuel) :
    interp n root (.vl vs) st =
      match deepAll st.cur (normL vs) with
      | .ok r => .ok (r, st)
      | .error e => .error e := by
  have := settles_finished (vl_settles root h st)
    (fun a b hab hne => interp_fuel_mono_le hab root _ st rfl hne) hn
  rw [this]
  cases deepAll st.cur (normL vs) <;> rfl

/-- The rendered value is plain data again; an error is a merge conflict at the parameter's own
path or below it. -/
theorem deepAll_outcome (cur : List Str) {vs : List Value} (h : PlainL vs) :
    (∀ r, deepAll cur vs = .ok r → Plain r) ∧
    (∀ e, deepAll cur vs = .error e → ConflictBelow cur e) :=
  ⟨fun _ hr => deepAll_plain cur h hr, fun _ he => deepAll_error_below cur vs he⟩

/-! ### 2. Whole parameter mappings -/

/-- **Merging never fails.**  `Mapping::merge` of reference-free, flag-free layers always
succeeds: conflicts are not detected when layers are merged, only when the result is rendered. -/
theorem merge_never_fails {ms : List Mapping} (h : ∀ m ∈ ms, RefFreeLayer m) :
    ∃ M, mergeLayers {} ms = .ok M ∧ M.ck = [] ∧ M.ok = [] := by
  obtain ⟨es, a, _⟩ := mergeLayers_sim [] ms [] h trivial (by simp)
  exact ⟨⟨es, [], []⟩, a, rfl, rfl⟩

/-- **Refinement.**  For reference-free layers `ms` (class parameter mappings in merge order):
merging them one after the other with `Mapping::merge`, starting from the empty mapping, and
rendering the result (`render_parameters`) gives — for all sufficiently large fuel — exactly
`deepParams` of the interpolated layers: the same mapping (entries, order, empty flag sets) or
the same error. -/
theorem render_refines_deepMerge {ms : List Mapping} (h : ∀ m ∈ ms, RefFreeLayer m) :
    ∃ N, ∀ n, N ≤ n →
      (mergeLayers {} ms).bind (renderParamsF n) = deepParams (ms.map normLayer) :=
  params_settle h

/-- The same for layers without unparsed strings. -/
theorem render_refines_deepMerge_plain {ms : List Mapping} (h : ∀ m ∈ ms, PlainLayer m) :
    ∃ N, ∀ n, N ≤ n → (mergeLayers {} ms).bind (renderParamsF n) = deepParams ms := by
  have hn : ms.map normLayer = ms := by
    rw [List.map_congr_left (fun m hm => normLayer_plain (h m hm)), List.map_id']
  have := render_refines_deepMerge (fun m hm => plainLayer_refFree (h m hm))
  rwa [hn] at this

/-- The same for every amount of fuel with which the run finishes. -/
theorem render_refines_deepMerge_finished {ms : List Mapping} (h : ∀ m ∈ ms, RefFreeLayer m)
    (n : Nat) (hn : (mergeLayers {} ms).bind (renderParamsF n) ≠ .error .fuel) :
    (mergeLayers {} ms).bind (renderParamsF n) = deepParams (ms.map normLayer) :=
  settles_finished (params_settle h) (fun a b hab hne => bind_renderParams_mono _ a b hab hne) hn

/-- In particular for the fuel the implementation model runs with. -/
theorem render_refines_deepMerge_default {ms : List Mapping} (h : ∀ m ∈ ms, RefFreeLayer m)
    (hn : (mergeLayers {} ms).bind (renderParamsF defaultFuel) ≠ .error .fuel) :
    (mergeLayers {} ms).bind (renderParamsF defaultFuel) = deepParams (ms.map normLayer) :=
  render_refines_deepMerge_finished h defaultFuel hn

/-- **`deepParams`, key by key.**  For layers with distinct keys:
* success: the keys of the result are the keys of all layers in the order of first
  appearance, both flag sets are empty, and under every key `k` that some layer writes stands
  `deepAll` of the values the layers write to `k`, in layer order (at path `k`);
* failure: the error is the error of the stack of some key;
* and `deepParams` succeeds as soon as every key's stack merges. -/
theorem deepParams_by_key {ms : List Mapping} (h : ∀ m ∈ ms, (keys m.es).Nodup) :
    (∀ out, deepParams ms = .ok out →
      keys out.es = keyOrder ms ∧ out.ck = [] ∧ out.ok = [] ∧
      ∀ k, (valuesAt k ms = [] → lookup k out.es = none) ∧
        (valuesAt k ms ≠ [] →
          ∃ r, deepAll [k.display] (valuesAt k ms) = .ok r ∧ lookup k out.es = some r)) ∧
    (∀ e, deepParams ms = .error e →
      ∃ k, valuesAt k ms ≠ [] ∧ deepAll [k.display] (valuesAt k ms) = .error e) ∧
    ((∀ k, valuesAt k ms ≠ [] → ∃ r, deepAll [k.display] (valuesAt k ms) = .ok r) →
      ∃ out, deepParams ms = .ok out) :=
  DeepMerge.deepParams_by_key h

/-- **Rendered parameters, key by key.**  If merging and rendering reference-free layers
finishes with `out`, then `out` has the keys of all layers in order of first appearance and
under each key the deep merge of that key's (interpolated) values in layer order. -/
theorem render_by_key {ms : List Mapping} (h : ∀ m ∈ ms, RefFreeLayer m) (n : Nat) (out : Mapping)
    (hr : (mergeLayers {} ms).bind (renderParamsF n) = .ok out) :
    keys out.es = keyOrder ms ∧ out.ck = [] ∧ out.ok = [] ∧
    ∀ k, (valuesAt k ms = [] → lookup k out.es = none) ∧
      (valuesAt k ms ≠ [] →
        ∃ r, deepAll [k.display] (normL (valuesAt k ms)) = .ok r ∧ lookup k out.es = some r) := by
  have hd := render_refines_deepMerge_finished h n (by rw [hr]; simp)
  rw [hr] at hd
  have hnd : ∀ m ∈ ms.map normLayer, (keys m.es).Nodup := by
    intro m hm
    obtain ⟨m0, hm0, rfl⟩ := List.mem_map.1 hm
    exact ((plainLayer_iff _).1 (refFreeLayer_norm (h m0 hm0))).2.1
  obtain ⟨a, b, c, d⟩ := (deepParams_by_key hnd).1 out hd.symm
  refine ⟨by rw [a, keyOrder_norm], b, c, fun k => ?_⟩
  have := d k
  rw [valuesAt_norm] at this
  constructor
  · intro hv; exact this.1 (by rw [hv]; rfl)
  · intro hv
    apply this.2
    intro hc
    cases hvk : valuesAt k ms with
    | nil => exact hv hvk
    | cons v vs => rw [hvk] at hc; simp [normL] at hc

/-- **A conflict is reported iff some key's stack has one.**  Merging and rendering (finished
run) fails exactly with the conflict error of the stack of some key. -/
theorem render_error_by_key {ms : List Mapping} (h : ∀ m ∈ ms, RefFreeLayer m) (n : Nat) (e : Err)
    (hne : e ≠ .fuel) (hr : (mergeLayers {} ms).bind (renderParamsF n) = .error e) :
    ∃ k, valuesAt k ms ≠ [] ∧ deepAll [k.display] (normL (valuesAt k ms)) = .error e ∧
      ConflictBelow [k.display] e := by
  have hd := render_refines_deepMerge_finished h n (by rw [hr]; simpa using hne)
  rw [hr] at hd
  have hnd : ∀ m ∈ ms.map normLayer, (keys m.es).Nodup := by
    intro m hm
    obtain ⟨m0, hm0, rfl⟩ := List.mem_map.1 hm
    exact ((plainLayer_iff _).1 (refFreeLayer_norm (h m0 hm0))).2.1
  obtain ⟨k, hv, he⟩ := (deepParams_by_key hnd).2.1 e hd.symm
  rw [valuesAt_norm] at hv he
  refine ⟨k, ?_, he, deepAll_error_below _ _ he⟩
  intro hc; rw [hc] at hv; exact hv rfl

/-! ### 3. The binary reading: the table of `merge2` -/

/-- `null` over anything is `null`. -/
theorem merge2_null_over (cur : List Str) (a : Value) : merge2 cur a .null = .ok .null := by
  cases a <;> rfl

/-- Anything (plain) over `null` is that thing. -/
theorem merge2_over_null (cur : List Str) {b : Value} (h : Plain b) : merge2 cur .null b = .ok b := by
  unfold merge2
  rw [show ofValue .null = .leaf .null from rfl, deep_leaf_null, resolve_ofValue b h]

/-- Scalar over scalar: the later one wins. -/
theorem merge2_scalars (cur : List Str) {a b : Value} (ha : isScalar a = true)
    (hb : isScalar b = true) : merge2 cur a b = .ok b := by
  cases a <;> simp [isScalar] at ha <;> cases b <;> simp [isScalar] at hb <;> rfl

/-- Sequence over sequence: concatenation. -/
theorem merge2_seqs (cur : List Str) (l l' : List Value) :
    merge2 cur (.seq l) (.seq l') = .ok (.seq (l ++ l')) := rfl

/-- Mapping over mapping: member-wise (`deepEs`), then the value of the member trees. -/
theorem merge2_maps (cur : List Str) (es es' : List (Key × Value)) (ck ok ck' ok' : List Key) :
    merge2 cur (.map es ck ok) (.map es' ck' ok') =
      match resolveEs (deepEs cur (ofValueEs es) es') with
      | .error e => .error e
      | .ok r => .ok (.map r [] []) := rfl

/-- … and what that means for a member `k`: the keys are those of the left mapping followed
by the new keys of the right one; a key of both holds `merge2` (at the longer path) of the two
values, a key of one side only keeps its value. -/
theorem merge2_maps_member (cur : List Str) {es es' r : List (Key × Value)}
    {ck ok ck' ok' : List Key} (h : Plain (.map es ck ok)) (h' : Plain (.map es' ck' ok'))
    (hr : merge2 cur (.map es ck ok) (.map es' ck' ok') = .ok (.map r [] [])) :
    keys r = (keys es').foldl addKey (keys es) ∧
    ∀ k, lookup k r =
      match lookup k es, lookup k es' with
      | some a, some b => (merge2 (cur ++ [k.display]) a b).toOption
      | some a, none => some a
      | none, some b => some b
      | none, none => none := by
  rw [merge2_maps] at hr
  simp only [Plain] at h h'
  cases h1 : resolveEs (deepEs cur (ofValueEs es) es') with
  | error e => simp [h1] at hr
  | ok r' =>
    simp only [h1, Except.ok.injEq, Value.map.injEq, and_true] at hr; subst hr
    constructor
    · rw [resolveEs_keys h1, tkeys_deepEs, tkeys_ofValueEs]
    · intro k
      rw [resolveEs_lookup k h1, tlookup_deepEs cur k es' _ h'.2.1, tlookup_ofValueEs]
      cases ha : lookup k es with
      | none =>
        cases hb : lookup k es' with
        | none => simp
        | some b =>
          simp only [Option.map_none, Option.getD_none, deep_leaf_null,
            resolve_ofValue b (plainEs_lookup h'.1 hb)]
      | some a =>
        cases hb : lookup k es' with
        | none => simp [resolve_ofValue a (plainEs_lookup h.1 ha)]
        | some b =>
          simp only [Option.map_some, Option.getD_some, merge2]
          cases resolve (deep (cur ++ [k.display]) (ofValue a) b) <;> rfl

/-- Mapping target, layer neither null nor a mapping: conflict at the parameter's path. -/
theorem merge2_map_conflict (cur : List Str) (es : List (Key × Value)) (ck ok : List Key)
    {b : Value} (hn : b.isNull = false) (hm : b.isMap = false) :
    merge2 cur (.map es ck ok) b = .error (conflict cur b "mapping".toList) := by
  cases b <;> first | rfl | (exfalso; simp [Value.isNull] at hn; done) |
    (exfalso; simp [Value.isMap] at hm; done)

/-- Sequence target, layer neither null nor a sequence: conflict. -/
theorem merge2_seq_conflict (cur : List Str) (l : List Value) {b : Value}
    (hn : b.isNull = false) (hs : b.isSeq = false) :
    merge2 cur (.seq l) b = .error (conflict cur b "sequence".toList) := by
  cases b <;> first | rfl | (exfalso; simp [Value.isNull] at hn; done) |
    (exfalso; simp [Value.isSeq] at hs; done)

/-- Scalar target, layer a mapping or a sequence: conflict. -/
theorem merge2_scalar_conflict (cur : List Str) {a b : Value} (ha : isScalar a = true)
    (hb : b.isMap = true ∨ b.isSeq = true) :
    merge2 cur a b = .error (conflict cur b a.kind) := by
  cases a <;> simp [isScalar] at ha <;> cases b <;> simp [Value.isMap, Value.isSeq] at hb <;> rfl

/-- **The fold reading.**  As long as the layers so far merge without conflict (to `a`), one
more layer `v` gives `merge2 a v`: `deepAll` is the left fold of the binary deep merge. -/
theorem fold_reading (cur : List Str) {vs : List Value} (h : PlainL vs) {a : Value}
    (ha : deepAll cur vs = .ok a) (v : Value) :
    deepAll cur (vs ++ [v]) = merge2 cur a v :=
  deepAll_snoc cur h ha v

/-! ### 4. Consequences for stacks of layers -/

/-- `deepAll` of no layers is `null`, of one plain layer that layer. -/
theorem deepAll_nil (cur : List Str) : deepAll cur [] = .ok .null := rfl

/-- A parameter defined once (by a plain value) is that value. -/
theorem deepAll_single (cur : List Str) {v : Value} (h : Plain v) : deepAll cur [v] = .ok v := by
  simp only [deepAll, merged, List.foldl_cons, List.foldl_nil, deep_leaf_null, resolve_ofValue v h]

/-- **Null resets.**  A `null` layer makes everything before it irrelevant — provided the
earlier layers of this very parameter did not already clash with each other. -/
theorem null_resets (cur : List Str) (pre post : List Value)
    (h : ∀ e, merged cur pre ≠ .bad e) :
    deepAll cur (pre ++ .null :: post) = deepAll cur post := by
  unfold deepAll
  rw [merged_append]
  simp only [List.foldl_cons]
  have : deep cur (merged cur pre) .null = .leaf .null := by
    cases hm : merged cur pre with
    | bad e => exact absurd hm (h e)
    | leaf a => rfl
    | node ts => rfl
  rw [this]; rfl

/-- In particular after layers that merge fine. -/
theorem null_resets_ok (cur : List Str) {pre : List Value} (post : List Value) {a : Value}
    (ha : deepAll cur pre = .ok a) : deepAll cur (pre ++ .null :: post) = deepAll cur post := by
  apply null_resets
  intro e he
  simp [deepAll, he, resolve] at ha

/-- **A scalar replaces a scalar.** -/
theorem scalar_replaces (cur : List Str) {pre : List Value} (h : PlainL pre) {a b : Value}
    (ha : deepAll cur pre = .ok a) (hsa : isScalar a = true) (hsb : isScalar b = true) :
    deepAll cur (pre ++ [b]) = .ok b := by
  rw [fold_reading cur h ha, merge2_scalars cur hsa hsb]

/-- **Lists are concatenated**, in layer order. -/
theorem lists_concatenate (cur : List Str) (a b c : List Value) :
    deepAll cur [.seq a, .seq b, .seq c] = .ok (.seq (a ++ b ++ c)) := rfl

/-- … for any number of list layers. -/
theorem lists_concatenate_all (cur : List Str) (ls : List (List Value)) (l0 : List Value) :
    deepAll cur ((l0 :: ls).map Value.seq) = .ok (.seq ((l0 :: ls).flatten)) := by
  suffices h : ∀ (ls : List (List Value)) (acc : List Value),
      (ls.map Value.seq).foldl (deep cur) (.leaf (.seq acc)) = .leaf (.seq (acc ++ ls.flatten)) by
    simp only [deepAll, merged, List.map_cons, List.foldl_cons, deep_leaf_null, ofValue, h,
      List.flatten_cons, resolve]
  intro ls
  induction ls with
  | nil => intro acc; simp
  | cons l ls ih =>
    intro acc
    simp only [List.map_cons, List.foldl_cons, List.flatten_cons]
    rw [show deep cur (.leaf (.seq acc)) (.seq l) = .leaf (.seq (acc ++ l)) from rfl, ih]
    simp

/-- **Mappings merge key by key, recursively.**  A non-empty stack of mappings (with distinct
keys each) is the mapping of the per-key stacks: keys in order of first appearance, under key
`k` the `deepAll` (at path `cur.k`) of the values the layers write to `k`; it fails iff one of
these fails. -/
theorem maps_recurse (cur : List Str) {m : Mapping} {ms : List Mapping}
    (h : ∀ m' ∈ m :: ms, (keys m'.es).Nodup) :
    deepAll cur ((m :: ms).map Mapping.toValue) =
      (match resolveEs (mergedEs cur (m :: ms)) with
       | .error e => .error e
       | .ok es => .ok (.map es [] [])) ∧
    (∀ k, tlookup k (mergedEs cur (m :: ms)) =
      if valuesAt k (m :: ms) = [] then none
      else some (merged (cur ++ [k.display]) (valuesAt k (m :: ms)))) ∧
    tkeys (mergedEs cur (m :: ms)) = keyOrder (m :: ms) := by
  refine ⟨?_, fun k => tlookup_mergedEs cur k h, tkeys_mergedEs cur _⟩
  unfold deepAll
  rw [merged_maps cur (h m (by simp))]
  rfl

/-- The member form: if the stack of mappings merges to `.map es _ _`, then `lookup k es` is
`deepAll` of the stack of `k`. -/
theorem maps_recurse_member (cur : List Str) {m : Mapping} {ms : List Mapping}
    (h : ∀ m' ∈ m :: ms, (keys m'.es).Nodup) {r : Value}
    (hr : deepAll cur ((m :: ms).map Mapping.toValue) = .ok r) :
    ∃ es, r = .map es [] [] ∧ keys es = keyOrder (m :: ms) ∧
      ∀ k, valuesAt k (m :: ms) ≠ [] →
        ∃ v, deepAll (cur ++ [k.display]) (valuesAt k (m :: ms)) = .ok v ∧ lookup k es = some v := by
  obtain ⟨h1, h2, h3⟩ := maps_recurse cur h
  rw [h1] at hr
  cases he : resolveEs (mergedEs cur (m :: ms)) with
  | error e => simp [he] at hr
  | ok es =>
    simp only [he, Except.ok.injEq] at hr
    refine ⟨es, hr.symm, by rw [resolveEs_keys he, h3], fun k hv => ?_⟩
    have hl := resolveEs_lookup k he
    rw [h2 k] at hl
    simp only [hv, if_false] at hl
    have hmem := (mem_mergedEs_iff cur h k _).2 ⟨hv, rfl⟩
    obtain ⟨v, hv'⟩ := (resolveEs_ok_iff.1 ⟨es, he⟩) k _ hmem
    exact ⟨v, hv', by simpa [hv'] using hl⟩

/-- Which pairs (merged value so far, next layer) clash directly. -/
def directClash (a v : Value) : Bool :=
  match a with
  | .null => false
  | .map .. => !v.isNull && !v.isMap
  | .seq _ => !v.isNull && !v.isSeq
  | _ => v.isMap || v.isSeq

/-- How the merge target is named in the conflict error. -/
def ontoName : Value → Str
  | .map .. => "mapping".toList
  | .seq _ => "sequence".toList
  | a => a.kind

/-- A direct clash poisons the parameter. -/
theorem clash_poisons (cur : List Str) {a v : Value} (ha : Plain a) (hc : directClash a v = true) :
    deep cur (ofValue a) v = .bad (conflict cur v (ontoName a)) := by
  cases a with
  | str _ => simp [Plain] at ha
  | vl _ => simp [Plain] at ha
  | null => simp [directClash] at hc
  | map es ck ok =>
    cases v <;> simp [directClash, Value.isNull, Value.isMap] at hc <;> rfl
  | seq l =>
    cases v <;> simp [directClash, Value.isNull, Value.isSeq] at hc <;> rfl
  | bool _ => cases v <;> simp [directClash, Value.isMap, Value.isSeq] at hc <;> rfl
  | num _ => cases v <;> simp [directClash, Value.isMap, Value.isSeq] at hc <;> rfl
  | lit _ => cases v <;> simp [directClash, Value.isMap, Value.isSeq] at hc <;> rfl

/-- **A conflict among the layers of one parameter is final.**  Once the layers of a parameter
have clashed, no later layer of that parameter — not even `null` — makes the error go away. -/
theorem conflict_is_final (cur : List Str) {pre : List Value} {e : Err}
    (h : merged cur pre = .bad e) (post : List Value) :
    deepAll cur (pre ++ post) = .error e := by
  unfold deepAll
  rw [merged_append, h, foldl_deep_bad]; rfl

/-- **Never silent.**  If the layers so far merge to `a` and the next layer `v` is a non-null
value of a different kind than the container `a` (or a container over the scalar `a`), then the
parameter is an error naming its path and the two kinds — whatever layers follow. -/
theorem conflict_never_silent_stack (cur : List Str) {pre : List Value} (h : PlainL pre)
    {a v : Value} (ha : deepAll cur pre = .ok a) (hc : directClash a v = true)
    (post : List Value) :
    deepAll cur (pre ++ v :: post) = .error (conflict cur v (ontoName a)) := by
  have hpa : Plain a := deepAll_plain cur h ha
  have hm : merged cur (pre ++ [v]) = .bad (conflict cur v (ontoName a)) := by
    rw [merged_snoc, ← ofValue_resolve _ _ (merged_ptree' cur h) ha]
    exact clash_poisons cur hpa hc
  have := conflict_is_final cur hm post
  simpa using this

/-- **Errors name the parameter.**  Whatever the layers, an error of `deepAll` is a merge
conflict whose path is the parameter's own path `cur` extended by the keys leading to the
conflicting member. -/
theorem errors_name_the_parameter (cur : List Str) (vs : List Value) {e : Err}
    (h : deepAll cur vs = .error e) :
    ∃ ks over onto, e = .mergeConflict (pathText (cur ++ ks)) over onto :=
  deepAll_error_below cur vs h

/-- **A conflict inside a member is deferred.**  Merging a mapping over a mapping never fails by
itself (the members' trees may be poisoned, the mapping is not), so a `null` layer afterwards
discards the members together with their conflicts. -/
theorem nested_conflict_is_deferred (cur : List Str) (pre post : List Value) (ts : List (Key × Tree))
    (h : merged cur pre = .node ts) :
    deepAll cur (pre ++ .null :: post) = deepAll cur post :=
  null_resets cur pre post (by intro e he; rw [h] at he; cases he)

/-! ### 5. Override keys (`~k`) at the top level of a layer -/

/-- **Refinement with override keys.**  Layers as stored (`OverrideLayer`: values reference-free
and flag-free, keys clean and distinct, no constant keys; `m.ok` = the keys the class file wrote
as `~k`).  Merging with `Mapping::merge` and rendering gives — for all sufficiently large fuel
— the entries of `deepParamsO`: as `deepParams`, except that an override write *replaces* the
member tree (poisoned or not) by the new value. -/
theorem override_refines {ms : List Mapping} (h : ∀ m ∈ ms, OverrideLayer m) :
    ∃ N, ∀ n, N ≤ n →
      ((mergeLayers {} ms).bind (renderParamsF n)).map Mapping.es =
        deepParamsO (ms.map normLayer) :=
  params_settleO h

/-- The same for every amount of fuel with which the run finishes. -/
theorem override_refines_finished {ms : List Mapping} (h : ∀ m ∈ ms, OverrideLayer m) (n : Nat)
    (hn : (mergeLayers {} ms).bind (renderParamsF n) ≠ .error .fuel) :
    ((mergeLayers {} ms).bind (renderParamsF n)).map Mapping.es =
      deepParamsO (ms.map normLayer) := by
  obtain ⟨N, c⟩ := params_settleO h
  rw [← bind_renderParams_mono _ n (max n N) (Nat.le_max_left _ _) hn]
  exact c _ (Nat.le_max_right _ _)

/-- **An override restarts the stack of its key** — and thereby discards the earlier layers of
that key together with any conflict among them.  `deepParamsO` key by key: keys in order of
first appearance; under `k` the `deepAll` of `valuesAtO k ms`, the values written to `k` from
the last layer on that wrote it as `~k`; failure iff one of these stacks fails. -/
theorem override_restarts_stack {ms : List Mapping} (h : ∀ m ∈ ms, (keys m.es).Nodup) :
    (∀ es, deepParamsO ms = .ok es →
      keys es = keyOrder ms ∧
      ∀ k, (valuesAtO k ms = [] → lookup k es = none) ∧
        (valuesAtO k ms ≠ [] →
          ∃ r, deepAll [k.display] (valuesAtO k ms) = .ok r ∧ lookup k es = some r)) ∧
    (∀ e, deepParamsO ms = .error e →
      ∃ k, valuesAtO k ms ≠ [] ∧ deepAll [k.display] (valuesAtO k ms) = .error e) ∧
    ((∀ k, valuesAtO k ms ≠ [] → ∃ r, deepAll [k.display] (valuesAtO k ms) = .ok r) →
      ∃ es, deepParamsO ms = .ok es) := by
  have hn : (tkeys (mergedParamsO ms)).Nodup := by
    rw [tkeys_mergedParamsO]; exact keyOrder_nodup ms
  have := resolveEs_by_key (cur := []) (stack := fun k => valuesAtO k ms) hn
    (fun k => by simpa using tlookup_mergedParamsO k h)
  simp only [List.nil_append, tkeys_mergedParamsO] at this
  exact this

/-- What `valuesAtO` is: without overrides it is `valuesAt`; a layer that writes `~k` makes it
the singleton of its value; a later plain write appends. -/
theorem valuesAtO_snoc (k : Key) (ms : List Mapping) (m : Mapping) :
    valuesAtO k (ms ++ [m]) =
      match lookup k m.es with
      | none => valuesAtO k ms
      | some v => if k ∈ m.ok then [v] else valuesAtO k ms ++ [v] := by
  simp only [valuesAtO, List.foldl_append, List.foldl_cons, List.foldl_nil, stackStep]
  cases lookup k m.es <;> rfl

/-- Rendered parameters with override keys, key by key (finished, successful run). -/
theorem render_by_key_override {ms : List Mapping} (h : ∀ m ∈ ms, OverrideLayer m) (n : Nat)
    (out : Mapping) (hr : (mergeLayers {} ms).bind (renderParamsF n) = .ok out) :
    keys out.es = keyOrder ms ∧
    ∀ k, (valuesAtO k ms = [] → lookup k out.es = none) ∧
      (valuesAtO k ms ≠ [] →
        ∃ r, deepAll [k.display] (normL (valuesAtO k ms)) = .ok r ∧ lookup k out.es = some r) := by
  have hd := override_refines_finished h n (by rw [hr]; simp)
  rw [hr] at hd
  have hnd : ∀ m ∈ ms.map normLayer, (keys m.es).Nodup := by
    intro m hm
    obtain ⟨m0, hm0, rfl⟩ := List.mem_map.1 hm
    simp only [normLayer, keys_normEs]
    exact (h m0 hm0).2.1
  obtain ⟨a, d⟩ := (override_restarts_stack hnd).1 out.es hd.symm
  refine ⟨by rw [a, keyOrder_norm], fun k => ?_⟩
  have := d k
  rw [valuesAtO_norm] at this
  exact ⟨fun hv => this.1 (by rw [hv]; rfl), fun hv => this.2 (fun hc => hv (normL_eq_nil.1 hc))⟩

/-! ### Non-vacuity -/

/-- JSON text of an outcome (kernel-evaluable). -/
def outJson (r : Except Err Value) : Option Str :=
  match r with
  | .ok v => (match jsonOf v with | .ok s => some s | .error _ => none)
  | .error _ => none

/-- Path and kinds of a conflict outcome (kernel-evaluable). -/
def outConflict {α : Type} (r : Except Err α) : Option (Str × Str × Str) :=
  match r with
  | .error (.mergeConflict c o t) => some (c, o, t)
  | _ => none

private def ky (x : String) : Key := .str x.toList
private def mp (es : List (Key × Value)) : Value := .map es [] []
private def one : Value := .num (.int 1)
private def two : Value := .num (.int 2)

/-- Three class layers: `p` is a mapping in all of them, `q` a scalar twice, `r` a list once. -/
private def L1 : Mapping :=
  ⟨[(ky "p", mp [(ky "a", one), (ky "b", mp [(ky "x", one)])]), (ky "q", one)], [], []⟩
private def L2 : Mapping :=
  ⟨[(ky "p", mp [(ky "b", mp [(ky "y", .seq [one])]), (ky "c", .null)]), (ky "r", .seq [])], [], []⟩
private def L3 : Mapping :=
  ⟨[(ky "p", mp [(ky "b", mp [(ky "y", .seq [two, two])])]), (ky "q", .str "z".toList)], [], []⟩
/-- a fourth layer that clashes at `p.b.y` (number over list) … -/
private def L4 : Mapping := ⟨[(ky "p", mp [(ky "b", mp [(ky "y", one)])])], [], []⟩
/-- … and a fifth that sets `p.b` to null. -/
private def L5 : Mapping := ⟨[(ky "p", mp [(ky "b", .null)])], [], []⟩

/-- The layers satisfy the hypothesis of `render_refines_deepMerge` (`L3` has an unparsed string). -/
example : ∀ m ∈ [L1, L2, L3, L4, L5], RefFreeLayer m := by
  intro m hm
  simp only [List.mem_cons, List.not_mem_nil, or_false] at hm
  rcases hm with rfl | rfl | rfl | rfl | rfl <;>
    simp [RefFreeLayer, Mapping.toValue, RefFree, RefFreeEs, RefFreeL, L1, L2, L3, L4, L5, mp, ky,
      keys, one, two, containsMarker] <;> decide

/-- What the YAML decoder produces for a marker-free class file is such a layer: strings are
unparsed `String`s, no flags. -/
example : Mapping.ofYamlEntries
      [(.str "p".toList, .map [(.str "b".toList, .map [(.str "y".toList, .seq [.num (.int 2), .num (.int 2)])])]),
       (.str "q".toList, .str "z".toList)] = .ok L3 := rfl

/-- The specification: deep merge in layer order. -/
example : outJson ((deepParams ([L1, L2, L3].map normLayer)).map Mapping.toValue) =
    some "{\"p\":{\"a\":1,\"b\":{\"x\":1,\"y\":[1,2,2]},\"c\":null},\"q\":\"z\",\"r\":[]}".toList := by
  decide +kernel

/-- The evaluator, on the same layers: the same. -/
example : outJson (((mergeLayers {} [L1, L2, L3]).bind (renderParamsF 100)).map Mapping.toValue) =
    some "{\"p\":{\"a\":1,\"b\":{\"x\":1,\"y\":[1,2,2]},\"c\":null},\"q\":\"z\",\"r\":[]}".toList := by
  decide +kernel

/-- A conflict three levels down is reported with its full path, by both. -/
example : outConflict (deepParams ([L1, L2, L3, L4].map normLayer)) =
    some ("p.b.y".toList, "Value::Number".toList, "sequence".toList) := by decide +kernel

example : outConflict ((mergeLayers {} [L1, L2, L3, L4]).bind (renderParamsF 100)) =
    some ("p.b.y".toList, "Value::Number".toList, "sequence".toList) := by decide +kernel

/-- **The deferred conflict.**  A fifth layer sets `p.b` to null: the conflict at `p.b.y`
disappears together with `p.b` — in the specification and in the evaluator alike.  No override
marker is involved. -/
example : outJson ((deepParams ([L1, L2, L3, L4, L5].map normLayer)).map Mapping.toValue) =
    some "{\"p\":{\"a\":1,\"b\":null,\"c\":null},\"q\":\"z\",\"r\":[]}".toList := by decide +kernel

example : outJson (((mergeLayers {} [L1, L2, L3, L4, L5]).bind (renderParamsF 100)).map Mapping.toValue) =
    some "{\"p\":{\"a\":1,\"b\":null,\"c\":null},\"q\":\"z\",\"r\":[]}".toList := by decide +kernel

/-- Whereas a conflict among the layers of the *same* parameter is final: `[1, [1], null]`. -/
example : outConflict (deepAll ["q".toList] [one, .seq [one], .null]) =
    some ("q".toList, "Value::Sequence".toList, "Value::Number".toList) := by decide +kernel

example : (match interp 50 {} (.vl [one, .seq [one], .null]) { cur := ["q".toList] } with
    | .error (.mergeConflict c o t) => some (c, o, t)
    | _ => none) = some ("q".toList, "Value::Sequence".toList, "Value::Number".toList) := by
  decide +kernel

/-- `vl_renders_deep` on a concrete stack: the evaluator's value is `deepAll`'s value. -/
example : (match interp 50 {} (.vl [mp [(ky "a", one)], mp [(ky "a", two), (ky "b", .str "s".toList)]])
      { cur := ["p".toList] } with
    | .ok (r, _) => outJson (.ok r)
    | .error _ => none) =
    outJson (deepAll ["p".toList] (normL [mp [(ky "a", one)], mp [(ky "a", two), (ky "b", .str "s".toList)]])) := by
  decide +kernel

example : outJson (deepAll ["p".toList] [mp [(ky "a", one)], mp [(ky "a", two), (ky "b", .lit "s".toList)]]) =
    some "{\"a\":2,\"b\":\"s\"}".toList := by decide +kernel

/-- The hypotheses of `conflict_never_silent_stack` are satisfiable: list, then mapping. -/
example : deepAll [] [.seq [one]] = .ok (.seq [one]) ∧ directClash (.seq [one]) (mp []) = true :=
  ⟨rfl, rfl⟩

example : outConflict (deepAll ["k".toList] ([.seq [one]] ++ mp [] :: [.null, .seq []])) =
    some ("k".toList, "Value::Mapping".toList, "sequence".toList) := by decide +kernel

/-- `null_resets` / `scalar_replaces` / `lists_concatenate` instances. -/
example : outJson (deepAll [] [mp [(ky "a", one)], .null, .seq [one], .seq [two]]) =
    some "[1,2]".toList := by decide +kernel

example : deepAll [] [one, two, .lit "x".toList] = .ok (.lit "x".toList) := rfl

/-- `merge2` rows. -/
example : merge2 [] (mp [(ky "a", one)]) .null = .ok .null := rfl
example : outJson (merge2 [] (mp [(ky "a", one), (ky "b", .seq [one])]) (mp [(ky "b", .seq [two]), (ky "c", two)])) =
    some "{\"a\":1,\"b\":[1,2],\"c\":2}".toList := by decide +kernel
example : merge2 ["x".toList] (mp []) one =
    .error (.mergeConflict "x".toList "Value::Number".toList "mapping".toList) := rfl

/-- Override keys.  The stored form of a class file `{~q: {x: 1}}`: key `q`, flagged. -/
private def L6 : Mapping := ⟨[(ky "q", mp [(ky "x", one)])], [], [ky "q"]⟩

example : Mapping.ofYamlEntries [(.str "~q".toList, .map [(.str "x".toList, .num (.int 1))])] =
    .ok ⟨[(ky "q", .map [(ky "x", one)] [] [])], [], [ky "q"]⟩ := rfl

/-- `q: 1`, then `q: [1]` (a conflict), then `~q: {x: 1}`: the override discards both earlier
layers and their conflict. -/
private def Q1 : Mapping := ⟨[(ky "q", one)], [], []⟩
private def Q2 : Mapping := ⟨[(ky "q", .seq [one])], [], []⟩
private def Q3 : Mapping := ⟨[(ky "q", mp [(ky "y", two)])], [], []⟩

example : ∀ m ∈ [Q1, Q2, L6, Q3], OverrideLayer m := by
  intro m hm
  simp only [List.mem_cons, List.not_mem_nil, or_false] at hm
  rcases hm with rfl | rfl | rfl | rfl <;>
    simp [OverrideLayer, RefFree, RefFreeEs, RefFreeL, Q1, Q2, Q3, L6, mp, ky, keys, one, two] <;>
    decide

example : outConflict ((mergeLayers {} [Q1, Q2]).bind (renderParamsF 100)) =
    some ("q".toList, "Value::Sequence".toList, "Value::Number".toList) := by decide +kernel

example : outJson (((mergeLayers {} [Q1, Q2, L6, Q3]).bind (renderParamsF 100)).map Mapping.toValue) =
    some "{\"q\":{\"x\":1,\"y\":2}}".toList := by decide +kernel

example : outJson ((deepParamsO ([Q1, Q2, L6, Q3].map normLayer)).map (fun es => .map es [] [])) =
    some "{\"q\":{\"x\":1,\"y\":2}}".toList := by decide +kernel

/-- The stack of `q` restarts at the override. -/
example : valuesAtO (ky "q") [Q1, Q2, L6, Q3] = [mp [(ky "x", one)], mp [(ky "y", two)]] := rfl

end C02
end Reclass
