/-
  C03 (continued) — A nested reference may supply SEVERAL path segments.

  `Token::resolve` (`src/refs/mod.rs`) first renders ALL pieces of the reference path to ONE
  string (`interpolate_token_slice`, model: `slice`) and only then splits that string at `:`
  (`str::split(':')`, model: `splitColon`).  The split is therefore not aware of the piece
  boundaries: a `:` that comes out of a nested reference separates segments exactly like a `:`
  written in the reference itself.  `${sizes:${selector}}` with `selector = "tier:web"` is the
  path `["sizes", "tier", "web"]` — not `["sizes", "tier:web"]`.

  (An implementation that splits the literal pieces first and treats the text of every nested
  reference as one opaque segment would look the key `"tier:web"` up in `sizes`.)

  Contents
   9. `walkSegments` (what `Token::resolve` does with the list of segments),
      `resolve_walks_split` (`Token::resolve` = walk over `splitColon` of the rendered path),
      `path_of_pieces` (… = walk over `splitColon (t₁ ++ … ++ tₙ)` for the piece texts `tᵢ`),
      `refSegments` / `refSegments_of_pieces` (the same as a statement about the segment list).
  10. `split_colon_tail` / `split_nested_two` / `split_nested_not_one_segment` (the splitter on
      `a ++ ":" ++ b` when `b` contains `:`), `nested_selector_with_colon` (the segments of
      `${a:${inner}}`), `ref_raw_resolve` / `ref_raw_missing` and their corollaries
      `nested_selector_resolve` / `nested_selector_missing` (value found / error naming the
      missing segment, which is a segment of the nested text, not the nested text).
  All statements are true of the model as asked; nothing had to be weakened.
-/
import Reclass.Props.C03c
import Reclass.Props.C05
namespace Reclass
namespace C03

open Refs
open C05 (Pieces PiecesAt pieceText)

/-! ### 9. The path is split AFTER all its pieces have been rendered and concatenated -/

/-- What `Token::resolve` does once it has the list of path segments of the reference text
`path`: look the first one up in the parameters, walk the others (`descend`), then the trailing
`while v.is_string() || v.is_value_list()` loop. -/
def walkSegments (fuel : Nat) (root : Mapping) (path : Str) (st2 : RState) :
    List Str → R (Value × RState)
  | [] => .error (.panic .splitEmpty)
  | k0 :: segs =>
    match root.get (.str k0) with
    | none => .error (.missingKey path k0 st2.curKey)
    | some v0 =>
      match descend fuel root v0 segs st2 path with
      | .error e => .error e
      | .ok (v, st3) => finalLoop fuel root v st3

/-- **`Token::resolve` walks `split(':')` of the rendered path text.**  If the pieces of the
reference path render (in the state `Token::resolve` hands them) to the single text `path`, not
seen before and below the depth limit, the reference is resolved by walking the segments
`splitColon path` — whatever pieces the characters of `path` came from. -/
theorem resolve_walks_split {n : Nat} {root : Mapping} {parts : List Token} {st : RState}
    {path : Str} (hd : st.depth + 1 ≤ maxDepth)
    (hs : slice n root parts { st with depth := st.depth + 1 } = .ok path)
    (hseen : path ∉ st.seen) :
    tokResolve (n+1) root (.ref parts) st =
      walkSegments n root path { st with depth := st.depth + 1, seen := path :: st.seen }
        (splitColon path) := by
  rw [tokResolve_ref]
  have hd' : ¬ (st.depth + 1 > maxDepth) := by omega
  simp only [hd', if_false, hs, hseen]
  cases splitColon path <;> rfl

/-- Texts computed with one common fuel are texts in the sense of `C05.Pieces` for every
sufficiently large fuel. -/
theorem pieces_of_piecesAt {j : Nat} {root : Mapping} {st : RState} {ts : List Token}
    {texts : List Str} (h : PiecesAt j root st ts texts) :
    ∀ k, j + ts.length < k → Pieces root st k ts texts := by
  induction h with
  | nil =>
    intro k hk
    obtain ⟨k', rfl⟩ : ∃ k', k = k' + 1 := ⟨k - 1, by omega⟩
    exact Pieces.nil k'
  | cons h1 _ ih =>
    intro k hk
    simp only [List.length_cons] at hk
    obtain ⟨k', rfl⟩ : ∃ k', k = k' + 1 := ⟨k - 1, by omega⟩
    exact Pieces.cons (C05.pieceText_fuel_mono_le (by omega) h1) (ih k' (by omega))

/-- … so the token slice renders to their concatenation (`C05.slice_eq_concat`). -/
theorem slice_of_piecesAt {j : Nat} {root : Mapping} {st : RState} {ts : List Token}
    {texts : List Str} (h : PiecesAt j root st ts texts) (k : Nat) (hk : j + ts.length < k) :
    slice k root ts st = .ok texts.flatten :=
  C05.slice_eq_concat.2 ⟨texts, pieces_of_piecesAt h k hk, rfl⟩

/-- **The segments of a reference are `split(':')` of the concatenated piece texts.**  Let the
pieces `parts` of the reference path have the texts `t₁ … tₙ` (`C05.PiecesAt`: each piece
resolved from its own copy of the state, interpolated, container pieces as JSON).  Then, for all
sufficiently large fuel, `Token::resolve` walks the segments `splitColon (t₁ ++ … ++ tₙ)`:
piece boundaries play no role, and a `:` inside the text of a nested reference is a segment
separator. -/
theorem path_of_pieces {j : Nat} {root : Mapping} {parts : List Token} {texts : List Str}
    {st : RState} (hd : st.depth + 1 ≤ maxDepth)
    (hp : PiecesAt j root { st with depth := st.depth + 1 } parts texts)
    (hseen : texts.flatten ∉ st.seen) (fuel : Nat) (hf : j + parts.length < fuel) :
    tokResolve (fuel+1) root (.ref parts) st =
      walkSegments fuel root texts.flatten
        { st with depth := st.depth + 1, seen := texts.flatten :: st.seen }
        (splitColon texts.flatten) :=
  resolve_walks_split hd (slice_of_piecesAt hp fuel hf) hseen

/-- The list of path segments of a reference with path pieces `parts`: render the pieces to one
text, split it at `:`. -/
def refSegments (n : Nat) (root : Mapping) (parts : List Token) (st : RState) : R (List Str) :=
  match slice n root parts st with
  | .error e => .error e
  | .ok path => .ok (splitColon path)

/-- `Token::resolve` in terms of `refSegments` is `resolve_walks_split`; this is the statement
about the segment list alone: with piece texts `t₁ … tₙ` it is `splitColon (t₁ ++ … ++ tₙ)`. -/
theorem refSegments_of_pieces {j : Nat} {root : Mapping} {parts : List Token} {texts : List Str}
    {st : RState} (hp : PiecesAt j root st parts texts) (fuel : Nat)
    (hf : j + parts.length < fuel) :
    refSegments fuel root parts st = .ok (splitColon texts.flatten) := by
  simp only [refSegments, slice_of_piecesAt hp fuel hf]

/-- Conversely, whenever the segment list exists it is the split of the concatenation of piece
texts (all computed with the same fuel, from the same state). -/
theorem refSegments_ok {n : Nat} {root : Mapping} {parts : List Token} {st : RState}
    {segs : List Str} (h : refSegments n root parts st = .ok segs) :
    ∃ texts, PiecesAt n root st parts texts ∧ segs = splitColon texts.flatten := by
  unfold refSegments at h
  cases h1 : slice n root parts st with
  | error e => simp [h1] at h
  | ok path =>
    simp only [h1, Except.ok.injEq] at h
    obtain ⟨texts, hp, hs⟩ := C05.slice_eq_concat_uniform h1
    exact ⟨texts, hp, by rw [← h, hs]⟩

/-! ### 10. A nested reference whose text contains `:` -/

/-- `a ++ ":" ++ b` with `a` free of `:`: the first segment is `a`, the others are the segments
of `b` — ALL of them (from `split_append_colon`). -/
theorem split_colon_tail {a : Str} (ha : ':' ∉ a) (b : Str) :
    splitColon (a ++ ':' :: b) = a :: splitColon b := by
  rw [split_append_colon, splitColon_noColon ha]; rfl

/-- The two-level instance: `a:b₁:b₂` where the tail `b₁:b₂` is one piece of text. -/
theorem split_nested_two {a b1 b2 : Str} (ha : ':' ∉ a) (h1 : ':' ∉ b1) (h2 : ':' ∉ b2) :
    splitColon (a ++ ':' :: (b1 ++ ':' :: b2)) = [a, b1, b2] := by
  rw [split_colon_tail ha, split_colon_tail h1, splitColon_noColon h2]

/-- The number of segments of `a ++ ":" ++ b` is 2 plus the number of `:` in `a` and in `b`. -/
theorem split_nested_length (a b : Str) :
    (splitColon (a ++ ':' :: b)).length = a.count ':' + b.count ':' + 2 := by
  rw [split_append_colon, List.length_append, split_length, split_length]; omega

/-- If the tail `b` contains a `:`, the split of `a ++ ":" ++ b` is NOT the two segments
`[a, b]`: the tail is not one opaque segment. -/
theorem split_nested_not_one_segment (a : Str) {b : Str} (hb : ':' ∈ b) :
    splitColon (a ++ ':' :: b) ≠ [a, b] := by
  intro h
  have hl := split_nested_length a b
  rw [h] at hl
  have : 0 < b.count ':' := List.count_pos_iff.2 hb
  simp at hl; omega

/-- **The segments of `${a:${inner}}`.**  The reference whose path pieces are the literal text
`a ++ ":"` and a nested reference whose text (value resolved, interpolated, `raw_string`) is `b`
walks the segments `splitColon a ++ splitColon b`: every `:` inside `b` separates segments. -/
theorem nested_selector_with_colon {j : Nat} {root : Mapping} {inner : List Token} {a b : Str}
    {st : RState} (hd : st.depth + 1 ≤ maxDepth)
    (hsel : pieceText j root (.ref inner) { st with depth := st.depth + 1 } = .ok b)
    (hseen : a ++ ':' :: b ∉ st.seen) (fuel : Nat) (hf : j + 2 < fuel) :
    tokResolve (fuel+1) root (.ref [.lit (a ++ [':']), .ref inner]) st =
      walkSegments fuel root (a ++ ':' :: b)
        { st with depth := st.depth + 1, seen := (a ++ ':' :: b) :: st.seen }
        (splitColon a ++ splitColon b) := by
  cases j with
  | zero => simp [pieceText, tokResolve] at hsel
  | succ j =>
    have hp : PiecesAt (j+1) root { st with depth := st.depth + 1 }
        [.lit (a ++ [':']), .ref inner] [a ++ [':'], b] :=
      PiecesAt.cons (C05.literal_piece_text j root _ _) (PiecesAt.cons hsel PiecesAt.nil)
    have hfl : [a ++ [':'], b].flatten = a ++ ':' :: b := by simp
    have := path_of_pieces hd hp (by rw [hfl]; exact hseen) fuel (by simpa using hf)
    rw [hfl, split_append_colon] at this
    exact this

/-- **Reference found along raw mappings** (general form, any pieces).  If the path text splits
into `k0 :: segs`, the parameters hold `v0` under `k0` and the walk along `segs` through raw
mappings ends at `vt`, `Token::resolve` returns what its trailing loop makes of `vt`. -/
theorem ref_raw_resolve {j : Nat} {root : Mapping} {parts : List Token} {path k0 : Str}
    {segs : List Str} {v0 vt : Value} {st : RState} (hd : st.depth + 1 ≤ maxDepth)
    (hs : slice j root parts { st with depth := st.depth + 1 } = .ok path)
    (hseen : path ∉ st.seen) (hsplit : splitColon path = k0 :: segs)
    (hget : root.get (.str k0) = some v0) (hraw : rawPath v0 segs = some vt)
    (fuel : Nat) (hf : j + segs.length + 1 ≤ fuel) :
    tokResolve (fuel+1) root (.ref parts) st =
      finalLoop fuel root vt { st with depth := st.depth + 1, seen := path :: st.seen } := by
  have hs' := slice_fuel_mono_le (m := fuel) (by omega) root parts _ hs (by simp)
  rw [resolve_walks_split hd hs' hseen, hsplit]
  have hdesc := descend_raw_ok (root := root) (path := path) segs 0 v0 vt
    { st with depth := st.depth + 1, seen := path :: st.seen } hraw
  have hdesc' := descend_fuel_mono_le (m := fuel) (by omega) root v0 _ _ _ hdesc (by simp)
  simp only [walkSegments, hget, hdesc']

/-- **Reference with a missing last segment** (general form).  The path text splits into
`k0 :: (segs ++ [key])`; the walk along `segs` ends at a raw mapping without the key `key`: the
error names the whole reference text and exactly the segment `key`. -/
theorem ref_raw_missing {j : Nat} {root : Mapping} {parts : List Token} {path k0 key : Str}
    {segs : List Str} {v0 : Value} {es : List (Key × Value)} {ck ok : List Key} {st : RState}
    (hd : st.depth + 1 ≤ maxDepth)
    (hs : slice j root parts { st with depth := st.depth + 1 } = .ok path)
    (hseen : path ∉ st.seen) (hsplit : splitColon path = k0 :: (segs ++ [key]))
    (hget : root.get (.str k0) = some v0) (hraw : rawPath v0 segs = some (.map es ck ok))
    (hl : lookup (.str key) es = none) (fuel : Nat) (hf : j + segs.length + 2 ≤ fuel) :
    tokResolve (fuel+1) root (.ref parts) st = .error (.missingKey path key st.curKey) := by
  have hs' := slice_fuel_mono_le (m := fuel) (by omega) root parts _ hs (by simp)
  rw [resolve_walks_split hd hs' hseen, hsplit]
  have hdesc := descend_raw_missing (root := root) (path := path) (key := key) segs 0 v0
    { st with depth := st.depth + 1, seen := path :: st.seen } hraw hl
  have hdesc' := descend_fuel_mono_le (m := fuel) (by omega) root v0 _ _ _ hdesc (by simp)
  simp only [walkSegments, hget, hdesc']
  rfl

/-- **`${a:${inner}}` finds the value at the path `a`, then ALL segments of the nested text.**
`a` is free of `:` and names the parameter `v0`; the nested reference has the text `b`; walking
`splitColon b` (several segments if `b` contains `:`) from `v0` through raw mappings ends at
`vt`.  Then the reference resolves to what the trailing loop makes of `vt`. -/
theorem nested_selector_resolve {j : Nat} {root : Mapping} {inner : List Token} {a b : Str}
    {v0 vt : Value} {st : RState} (hd : st.depth + 1 ≤ maxDepth) (ha : ':' ∉ a)
    (hsel : pieceText j root (.ref inner) { st with depth := st.depth + 1 } = .ok b)
    (hseen : a ++ ':' :: b ∉ st.seen)
    (hget : root.get (.str a) = some v0) (hraw : rawPath v0 (splitColon b) = some vt)
    (fuel : Nat) (hf : j + (splitColon b).length + 4 ≤ fuel) :
    tokResolve (fuel+1) root (.ref [.lit (a ++ [':']), .ref inner]) st =
      finalLoop fuel root vt
        { st with depth := st.depth + 1, seen := (a ++ ':' :: b) :: st.seen } := by
  cases j with
  | zero => simp [pieceText, tokResolve] at hsel
  | succ j =>
    have hp : PiecesAt (j+1) root { st with depth := st.depth + 1 }
        [.lit (a ++ [':']), .ref inner] [a ++ [':'], b] :=
      PiecesAt.cons (C05.literal_piece_text j root _ _) (PiecesAt.cons hsel PiecesAt.nil)
    have hfl : [a ++ [':'], b].flatten = a ++ ':' :: b := by simp
    have hs := slice_of_piecesAt hp (j + 4) (by simp)
    rw [hfl] at hs
    exact ref_raw_resolve hd hs hseen (split_colon_tail ha b) hget hraw fuel (by omega)

/-- **`${a:${inner}}` with a missing last segment names THAT SEGMENT.**  The nested text `b`
splits into `segs ++ [key]`; the walk along `segs` from the parameter `a` ends at a raw mapping
without `key`.  The error carries the reference text `a:b` and the missing key `key` — a
segment of `b` (e.g. `cache` for `b = tier:cache`), not `b` itself. -/
theorem nested_selector_missing {j : Nat} {root : Mapping} {inner : List Token} {a b key : Str}
    {segs : List Str} {v0 : Value} {es : List (Key × Value)} {ck ok : List Key} {st : RState}
    (hd : st.depth + 1 ≤ maxDepth) (ha : ':' ∉ a)
    (hsel : pieceText j root (.ref inner) { st with depth := st.depth + 1 } = .ok b)
    (hseen : a ++ ':' :: b ∉ st.seen) (hb : splitColon b = segs ++ [key])
    (hget : root.get (.str a) = some v0) (hraw : rawPath v0 segs = some (.map es ck ok))
    (hl : lookup (.str key) es = none) (fuel : Nat) (hf : j + segs.length + 5 ≤ fuel) :
    tokResolve (fuel+1) root (.ref [.lit (a ++ [':']), .ref inner]) st =
      .error (.missingKey (a ++ ':' :: b) key st.curKey) := by
  cases j with
  | zero => simp [pieceText, tokResolve] at hsel
  | succ j =>
    have hp : PiecesAt (j+1) root { st with depth := st.depth + 1 }
        [.lit (a ++ [':']), .ref inner] [a ++ [':'], b] :=
      PiecesAt.cons (C05.literal_piece_text j root _ _) (PiecesAt.cons hsel PiecesAt.nil)
    have hfl : [a ++ [':'], b].flatten = a ++ ':' :: b := by simp
    have hs := slice_of_piecesAt hp (j + 4) (by simp)
    rw [hfl] at hs
    have hsplit : splitColon (a ++ ':' :: b) = a :: (segs ++ [key]) := by
      rw [split_colon_tail ha, hb]
    exact ref_raw_missing hd hs hseen hsplit hget hraw hl fuel (by omega)

/-! ### Non-vacuity and the concrete case -/

private def S (s : String) : Str := s.toList
private def K (s : String) : Key := .str s.toList

-- the splitter on the concrete texts
example : splitColon (S "sizes:tier:web") = [S "sizes", S "tier", S "web"] := by decide +kernel
example : splitColon (S "sizes:" ++ S "tier:web") = [S "sizes", S "tier", S "web"] := by
  decide +kernel
example : splitColon (S "sizes:" ++ S "tier:web") ≠ [S "sizes", S "tier:web"] := by
  decide +kernel
example : splitColon (S "sizes:tier:web") = [S "sizes", S "tier", S "web"] :=
  split_nested_two (a := S "sizes") (b1 := S "tier") (b2 := S "web")
    (by decide +kernel) (by decide +kernel) (by decide +kernel)

/-- `${sizes:${selector}}` parses to a reference with the literal piece `sizes:` and the nested
reference `${selector}`. -/
example : parseText (S "${sizes:${selector}}") = some (S "R[L(sizes:)R[L(selector)]]") := by
  decide +kernel

/-- `{sizes: {tier: {web: 2}}, selector: "tier:web", u: "${sizes:${selector}}"}`. -/
def demoSelector : Mapping :=
  ⟨[(K "sizes", .map [(K "tier", .map [(K "web", .num (.int 2))] [] [])] [] []),
    (K "selector", .str (S "tier:web")),
    (K "u", .str (S "${sizes:${selector}}"))], [], []⟩

/-- `{sizes: {tier: {web: 2}}, selector: "tier:cache", u: "${sizes:${selector}}"}`. -/
def demoSelectorMissing : Mapping :=
  ⟨[(K "sizes", .map [(K "tier", .map [(K "web", .num (.int 2))] [] [])] [] []),
    (K "selector", .str (S "tier:cache")),
    (K "u", .str (S "${sizes:${selector}}"))], [], []⟩

/-- `u` renders to `2`: the nested text `tier:web` supplied the two segments `tier`, `web`. -/
example : C07.renderJson 50 demoSelector =
    some (S "{\"selector\":\"tier:web\",\"sizes\":{\"tier\":{\"web\":2}},\"u\":2}") := by
  decide +kernel

/-- Missing key: the error names the reference text `sizes:tier:cache`, the SEGMENT `cache`
(not `tier:cache`), and the parameter `u`. -/
example : missingKeyOf (renderParamsF 50 demoSelectorMissing) =
    some (S "sizes:tier:cache", S "cache", S "u") := by decide +kernel

/-- A literal key `"tier:web"` inside `sizes` is NOT what the reference finds: with only that
key present the lookup fails at the segment `tier`. -/
example : missingKeyOf (renderParamsF 50
    ⟨[(K "sizes", .map [(K "tier:web", .num (.int 9))] [] []),
      (K "selector", .str (S "tier:web")),
      (K "u", .str (S "${sizes:${selector}}"))], [], []⟩) =
    some (S "sizes:tier:web", S "tier", S "u") := by decide +kernel

/-- The nested piece `${selector}` has the text `tier:web` (hypothesis `hsel` of the
`nested_selector_*` theorems, in the state `Token::resolve` hands to the pieces). -/
theorem demoSelector_piece :
    pieceText 6 demoSelector (.ref [.lit (S "selector")]) { depth := 1 } = .ok (S "tier:web") := by
  rfl

/-- All hypotheses of `nested_selector_resolve` hold for `${sizes:${selector}}` in
`demoSelector`: at every fuel ≥ 12 the reference resolves to the number 2. -/
example (fuel : Nat) (hf : 12 ≤ fuel) :
    tokResolve (fuel+1) demoSelector (.ref [.lit (S "sizes:"), .ref [.lit (S "selector")]]) {} =
      .ok (.num (.int 2), { depth := 1, seen := [S "sizes:tier:web"] }) := by
  have h := nested_selector_resolve (j := 6) (root := demoSelector) (a := S "sizes")
    (b := S "tier:web") (inner := [.lit (S "selector")]) (st := {})
    (v0 := .map [(K "tier", .map [(K "web", .num (.int 2))] [] [])] [] [])
    (vt := .num (.int 2)) (by decide) (by decide +kernel) demoSelector_piece (by simp)
    (by rfl) (by rfl) fuel (by
      have : (splitColon (S "tier:web")).length = 2 := by decide +kernel
      omega)
  have h2 : S "sizes" ++ [':'] = S "sizes:" := by decide +kernel
  have h3 : S "sizes" ++ ':' :: S "tier:web" = S "sizes:tier:web" := by decide +kernel
  rw [h2, h3] at h
  rw [h]
  exact Termination.finalLoop_done rfl rfl _ _ fuel (by omega)

theorem demoSelectorMissing_piece :
    pieceText 6 demoSelectorMissing (.ref [.lit (S "selector")]) { depth := 1 } =
      .ok (S "tier:cache") := by
  rfl

/-- … and of `nested_selector_missing` for `demoSelectorMissing`: at every fuel ≥ 12 the error
names the segment `cache`. -/
example (fuel : Nat) (hf : 12 ≤ fuel) :
    tokResolve (fuel+1) demoSelectorMissing
      (.ref [.lit (S "sizes:"), .ref [.lit (S "selector")]]) {} =
      .error (.missingKey (S "sizes:tier:cache") (S "cache") []) := by
  have h := nested_selector_missing (j := 6) (root := demoSelectorMissing) (a := S "sizes")
    (b := S "tier:cache") (key := S "cache") (segs := [S "tier"])
    (inner := [.lit (S "selector")]) (st := {})
    (v0 := .map [(K "tier", .map [(K "web", .num (.int 2))] [] [])] [] [])
    (es := [(K "web", .num (.int 2))]) (ck := []) (ok := [])
    (by decide) (by decide +kernel) demoSelectorMissing_piece (by simp) (by decide +kernel)
    (by rfl) (by rfl) (by rfl) fuel (by simp; omega)
  have h2 : S "sizes" ++ [':'] = S "sizes:" := by decide +kernel
  have h3 : S "sizes" ++ ':' :: S "tier:cache" = S "sizes:tier:cache" := by decide +kernel
  rw [h2, h3] at h
  exact h

end C03
end Reclass
