/-
  C11b — C11 END TO END: `Reclass::render_node` (model: `renderNode`, `renderNodeSrc`) returns a
  value or an error; it never panics — and its outcome does not depend on the model's fuel.

  C11 (`Props/C11`) shows that the evaluator does not panic on well-formed parameters without
  nested layer lists.  This file composes it with every other stage of rendering a node:

    * the fallible decoder (`NodeM.ofSrc`; ordinary errors since the repair of D5/D6),
    * the include walk (`renderImpl` / `walkClasses`), whose class-name resolution runs the
      evaluator (`Token::render`, `raw_string`) on the parameters accumulated so far,
    * `Node::merge_into`, `NodeInfoMeta::as_reclass`,
    * the final `render_parameters`,

  for every inventory whose class and node files decode from YAML with at most one leading
  `=`/`~` marker per key (`InvOK`).  The invariant is `WF ∧ NoNest` of the accumulated parameters
  (`Lemmas/E2EL.walkGood`).

  Fuel.  `renderNode` has a fuel argument for the walk; class-name resolution and the final
  rendering call the evaluator with the constant `defaultFuel`.  Proved:
    * `renderNode_fuel_mono`   — any outcome other than `Err.fuel` is the outcome at every larger
                                  fuel (all inventories);
    * `renderNode_settles`     — for inventories with plain include entries (`PlainFiles`) there
                                  is `N` such that every fuel `≥ N` gives one fixed outcome, which
                                  is not a panic, and which is `Err.fuel` only in the one case
                                  stated precisely there: the final `render_parameters` exhausted
                                  the evaluator's constant budget `defaultFuel = 100000` on the
                                  merged (`WF ∧ NoNest`) parameters.  That residue is a limit of
                                  the *model* (e.g. a sequence of more than 100000 elements), not
                                  an outcome of the Rust code, and cannot be excluded for all
                                  inventories; `C08.renderParams_settles` shows that it disappears
                                  with a larger constant.
-/
import Reclass.Lemmas.E2EL
import Reclass.Props.C11
import Reclass.Props.C08
import Reclass.Props.C13
namespace Reclass
namespace C11

/-! ### The stages -/

/-- The fallible decoder of a class / node file never panics (tagged values, constant-key
duplicates and unmodelled keys are ordinary errors). -/
theorem ofSrc_no_panic {loc : Option (List Str)} {src : ClassSrc} (site : PanicSite) :
    NodeM.ofSrc loc src ≠ .error (.panic site) :=
  fun h => ofSrc_np h site rfl

/-- `Node::read_class` never panics. -/
theorem readClass_no_panic {r : Inv} {loc : Option (List Str)} {c : Str} (site : PanicSite) :
    readClass r loc c ≠ .error (.panic site) :=
  fun h => readClass_np h site rfl

/-- `Node::merge_into` never panics (its only failure is a constant-key error). -/
theorem mergeInto_no_panic {self other : NodeM} (site : PanicSite) :
    mergeInto self other ≠ .error (.panic site) :=
  fun h => mergeInto_np h site rfl

/-- Class-name resolution (`Token::render` on the accumulated parameters, then `raw_string`)
does not panic when the accumulated parameters are `WF ∧ NoNest`; in particular the
`todo!()` of the JSON conversion inside `raw_string` is not reached, because what
`Token::render` returns is closed. -/
theorem resolveClassName_no_panic {fuel : Nat} {params : Mapping} {cls : Str}
    (hw : WF params.toValue) (hn : NoNest params.toValue) (site : PanicSite) :
    resolveClassName fuel params cls ≠ .error (.panic site) :=
  fun h => resolveClassName_np ⟨hw, hn⟩ h site rfl

/-- **The include walk never panics**: for an `InvOK` inventory, `render_impl` started with
`WF ∧ NoNest` parameters does not fail with a panic — for every fuel, `seen` list and include
graph, with or without references in include entries. -/
theorem walk_no_panic {r : Inv} (hr : InvOK r) {n : Nat} {self : NodeM} {seen : List Str}
    {root : NodeM} (hs : WF self.params.toValue ∧ NoNest self.params.toValue)
    (hroot : WF root.params.toValue ∧ NoNest root.params.toValue) (site : PanicSite) :
    renderImpl n r self seen root ≠ .error (.panic site) :=
  fun h => renderImpl_np hr hs hroot h site rfl

/-- The same for the class loop. -/
theorem walkClasses_no_panic {r : Inv} (hr : InvOK r) {n : Nat} {loc : Option (List Str)}
    {l seen : List Str} {root : NodeM}
    (hroot : WF root.params.toValue ∧ NoNest root.params.toValue) (site : PanicSite) :
    walkClasses n r loc l seen root ≠ .error (.panic site) :=
  fun h => walkClasses_np hr hroot h site rfl

/-! ### `render_node` never panics -/

/-- `renderNodeSrc` form (explicit node file and metadata). -/
theorem renderNodeSrc_no_panic {fuel : Nat} {r : Inv} {nmeta : MetaM} {src : ClassSrc}
    (hr : InvOK r) (hs : SrcOK src) (site : PanicSite) :
    renderNodeSrc fuel r nmeta src ≠ .error (.panic site) :=
  fun h => renderNodeSrc_np hr hs h site rfl

/-- **C11 end to end.** For every inventory whose files decode from YAML with at most one leading
marker per key, rendering any node — known or unknown, readable or not — with any fuel never
fails with a panic, whatever the site. -/
theorem renderNode_no_panic {fuel : Nat} {r : Inv} {name : Str} (hr : InvOK r) (site : PanicSite) :
    renderNode fuel r name ≠ .error (.panic site) :=
  fun h => renderNode_np hr h site rfl

/-- The outcome of rendering a node is node information or an error that is not a panic. -/
theorem renderNode_outcome {fuel : Nat} {r : Inv} {name : Str} (hr : InvOK r) :
    (∃ info, renderNode fuel r name = .ok info) ∨
    (∃ e, renderNode fuel r name = .error e ∧ ∀ s, e ≠ .panic s) := by
  cases h : renderNode fuel r name with
  | ok info => exact Or.inl ⟨info, rfl⟩
  | error e => exact Or.inr ⟨e, rfl, renderNode_np hr h⟩

/-- The whole inventory: `Inventory::render` over the `renderNode` results of an `InvOK`
inventory fails, if at all, with `nodeFailed name e` where `e` is the non-panic error of node
`name`. -/
theorem render_inventory_no_panic {r : Inv} (hr : InvOK r) {fuel : Nat} {names : List Str}
    {e : Err} (h : Inventory.render (names.map fun n => (n, renderNode fuel r n)) = .error e) :
    ∃ name e', e = .nodeFailed name e' ∧ renderNode fuel r name = .error e' ∧
      ∀ s, e' ≠ .panic s := by
  obtain ⟨name, e', he, hmem⟩ := C13.error_names_failing_node h
  obtain ⟨n, _, hn⟩ := List.mem_map.1 hmem
  simp only [Prod.mk.injEq] at hn
  obtain ⟨rfl, hn⟩ := hn
  exact ⟨n, e', he, hn, renderNode_np hr hn⟩

/-! ### Fuel -/

/-- **More fuel never changes an answer other than "out of fuel"** (all inventories). -/
theorem renderNode_fuel_mono {n m : Nat} (hle : n ≤ m) {r : Inv} {name : Str} {res : R NodeInfoM}
    (h : renderNode n r name = res) (hne : res ≠ .error .fuel) : renderNode m r name = res :=
  renderNode_mono_le hle h hne

/-- In particular a node that renders with some fuel renders to the same information with every
larger fuel. -/
theorem renderNode_ok_stable {n m : Nat} (hle : n ≤ m) {r : Inv} {name : Str} {info : NodeInfoM}
    (h : renderNode n r name = .ok info) : renderNode m r name = .ok info :=
  renderNode_mono_le hle h (by simp)

/-- `renderNode` reports `Err.fuel` only if the include walk of the node ran out of its fuel
(`renderImpl` on the base node that carries the node's include list and `_reclass_`), or the
final `render_parameters` ran out of the evaluator's constant budget `defaultFuel` on the merged
parameters — which, for an `InvOK` inventory, are `WF ∧ NoNest`. -/
theorem renderNode_fuel_cases {fuel : Nat} {r : Inv} {name : Str} (hr : InvOK r)
    (h : renderNode fuel r name = .error .fuel) :
    (∃ base : NodeM, renderImpl fuel r base [] {} = .error .fuel) ∨
    (∃ p : Mapping, WF p.toValue ∧ NoNest p.toValue ∧
      renderParamsF defaultFuel p = .error .fuel) := by
  rcases renderNode_cases r name with ⟨_, h1⟩ | ⟨_, _, _, h1⟩ | ⟨i, src, nm, hf, h1⟩
  · rw [h1] at h; simp at h
  · rw [h1] at h; simp at h
  · rw [h1] at h
    rcases renderNodeSrc_fuel_cases hr (nodeSrcOK hr hf) h with ⟨self, bp, _, hw⟩ | ⟨fin, hfin, he⟩
    · exact Or.inl ⟨_, hw⟩
    · exact Or.inr ⟨fin.params, hfin.1, hfin.2, he⟩

/-- **The outcome of `render_node` settles** (inventories whose include entries are plain names:
no reference marker, no leading dot — `PlainFiles`, checkable by `plainFilesB`).  There is `N`
such that for every fuel `≥ N` rendering the node gives one fixed outcome `res`; `res` is never a
panic; and `res` is "out of fuel" only if the final `render_parameters` exhausted the evaluator's
*constant* budget `defaultFuel` on the merged parameters `p` (which are `WF ∧ NoNest`) — never
because of the walk, whatever the include graph (cycles included). -/
theorem renderNode_settles {r : Inv} (hr : InvOK r) (hp : PlainFiles r) (name : Str) :
    ∃ N res, (∀ fuel, N ≤ fuel → renderNode fuel r name = res) ∧
      (∀ site, res ≠ .error (.panic site)) ∧
      (res = .error .fuel →
        ∃ p : Mapping, WF p.toValue ∧ NoNest p.toValue ∧
          renderParamsF defaultFuel p = .error .fuel) := by
  rcases renderNode_cases r name with ⟨_, h1⟩ | ⟨_, _, _, h1⟩ | ⟨i, src, nm, hf, h1⟩
  · exact ⟨0, _, fun fuel _ => h1 fuel, fun s => by simp, fun h => by simp at h⟩
  · exact ⟨0, _, fun fuel _ => h1 fuel, fun s => by simp, fun h => by simp at h⟩
  · have hsp : PlainSrc src := hp.2 _ (findEntity_some_mem hf) src rfl
    obtain ⟨N, hN, hfuel⟩ := renderNodeSrc_settles_plain (nmeta := nm) hr hp (nodeSrcOK hr hf) hsp
    refine ⟨N, renderNode N r name, fun fuel hle => ?_, fun s => renderNode_no_panic hr s,
      fun h => ?_⟩
    · rw [h1, h1]; exact hN fuel hle
    · rw [h1] at h
      obtain ⟨fin, hfin, he⟩ := hfuel h
      exact ⟨fin.params, hfin.1, hfin.2, he⟩

/-- The residual `Err.fuel` case of `renderNode_settles` is about the model's constant, not about
the parameters: for the same merged parameters rendering settles on a non-fuel outcome with
enough evaluator fuel (`C08.renderParams_settles`). -/
theorem renderNode_settles_residue (p : Mapping) :
    ∃ N res, res ≠ .error .fuel ∧ ∀ n, N ≤ n → renderParamsF n p = res :=
  C08.renderParams_settles p

/-- A node that renders at all renders — to the same information — with every fuel from the
settling point on; i.e. for plain inventories "renders with some fuel" = "renders with all
sufficiently large fuel". -/
theorem renderNode_settles_ok {r : Inv} (hr : InvOK r) (hp : PlainFiles r) {name : Str} {k : Nat}
    {info : NodeInfoM} (h : renderNode k r name = .ok info) :
    ∃ N, ∀ fuel, N ≤ fuel → renderNode fuel r name = .ok info := by
  obtain ⟨N, res, hN, _, _⟩ := renderNode_settles hr hp name
  refine ⟨N, fun fuel hle => ?_⟩
  have h1 := hN (max N k) (Nat.le_max_left _ _)
  have h2 := renderNode_ok_stable (Nat.le_max_right N k) h
  rw [hN fuel hle, ← h1, h2]

/-! ### Non-vacuity -/

/-- The example inventory (two classes, `app` includes `base`) satisfies both hypotheses. -/
example : InvOK exInvE2E ∧ PlainFiles exInvE2E := ⟨exInvE2E_ok, exInvE2E_plain⟩

/-- Node `n1` renders to a value … -/
example : TextL.errOf (renderNode 30 exInvE2E "n1".toList) = none := by decide +kernel

/-- … node `bad` to an ordinary error (reference to a missing parameter), `gone` to "class not
found", `unreadable` to an I/O error, an unknown node to "unknown node": errors, not panics. -/
example : TextL.errOf (renderNode 30 exInvE2E "bad".toList) =
    some (.missingKey "nope".toList "nope".toList "q".toList) := by decide +kernel
example : TextL.errOf (renderNode 30 exInvE2E "gone".toList) =
    some (.classNotFound "missing".toList) := by decide +kernel
example : TextL.errOf (renderNode 30 exInvE2E "unreadable".toList) =
    some (.io "EACCES".toList) := by decide +kernel
example : TextL.errOf (renderNode 30 exInvE2E "nobody".toList) =
    some (.unknownNode "nobody".toList) := by decide +kernel

/-- Too little walk fuel is reported as such, so `≠ .error .fuel` / "settles" is not vacuous; the
bound of `renderNode_settles` for node `n1` is `(2+1)·(max 1 1 + 2) = 9`, the walk needs 6. -/
example : TextL.errOf (renderNode 5 exInvE2E "n1".toList) = some .fuel ∧
    TextL.errOf (renderNode 6 exInvE2E "n1".toList) = none := by decide +kernel

/-- A decoder failure inside the walk (a tagged value in a class file) is an ordinary error end to
end (it was a `todo!()` panic before the repair of D5). -/
example : TextL.errOf (renderNode 30
    { classes := [("c".toList, { path := ["c.yml".toList], loc := [] },
        .ok { params := [(.str "k".toList, .tagged "!x".toList .null)] })],
      nodes := [("n".toList, { path := ["n.yml".toList], loc := [] },
        .ok { classes := ["c".toList] })] } "n".toList) = some .yamlTaggedValue := by
  decide +kernel

/-- A reference in an include entry that resolves to a mapping takes the JSON text of the mapping
as class name (`raw_string`): "class not found", not the `todo!()` of the JSON conversion. -/
example : TextL.errOf (renderNode 30
    { classes := [("c".toList, { path := ["c.yml".toList], loc := [] },
        .ok { params := [(.str "m".toList, .map [(.str "x".toList, .num (.int 1))]),
                         (.str "m".toList, .map [(.str "y".toList, .num (.int 2))])] })],
      nodes := [("n".toList, { path := ["n.yml".toList], loc := [] },
        .ok { classes := ["c".toList, "${m}".toList] })] } "n".toList) =
    some (.classNotFound "{\"x\":1,\"y\":2}".toList) := by decide +kernel

end C11
end Reclass
