/-
  C15b — C15 END TO END: "the node renders identically if a relative include name is replaced by
  the absolute name it denotes".

  What the model does (`NodeM.ofSrc` = `Node::from_str`): *every* entry of the `classes` list of a
  class or node file — with or without a `${…}` reference in it — is passed through
  `absClassName loc ·` at parse time (`loc` = directory of the class; `none` for a node), after a
  first deduplication on the raw spellings and followed by a second one.  Entries that do not start
  with a dot are unchanged by this.  (When the walk later resolves an entry, `readClass` applies
  `absClassName loc ·` once more to the resolved name.)

  Twin inventory.  `twinInvBy f r` rewrites every include entry `c` of every readable class file
  (located at `loc`) and node file (`loc = none`) to `f loc c`.  The general theorem
  `renderNode_twinBy` says: if `absClassName loc (f loc c) = absClassName loc c` for the entries of
  the files (`TwinOK`), then every node renders identically — same value or same error, for every
  fuel — in `r` and in `twinInvBy f r`.  Instances:

    * `twinEntry`    — the requested twin: an entry that starts with a dot and contains no reference
                       marker is replaced by the absolute name it denotes (`absClassName loc c`),
                       provided that name is stable, i.e. does not itself start with a dot;
                       `renderNode_twin` holds for ALL inventories, nodes and fuels;
    * `twinEntryAll` — the same, but entries with references are made absolute as well (the model
                       makes them absolute at parse time, too); `renderNode_twinAll`;
    * `absClassName` — unconditional replacement (`twinInvRaw`); `renderNode_twinRaw` needs the
                       hypothesis `AbsStable r` (no absolute form starts with a dot), which holds
                       e.g. when no class lives below a top-level directory whose name is empty or
                       starts with a dot (`absStable_of_locs`).  Without it the statement is FALSE
                       for the model's inventories: see the counterexample at the end.

  Property theorems only; helpers live in `Lemmas/E2E2L` and `Lemmas/NamingL`.
-/
import Reclass.Lemmas.E2E2L
import Reclass.Props.C15
namespace Reclass
namespace C15
open E2E2

/-! ### One file -/

/-- Rewriting the include entries of a file by any `f` that does not change the absolute name an
entry denotes gives the same parsed node (class list in the same order, applications, parameters).
Generalises `ofSrc_twin`. -/
theorem ofSrc_map_entries (loc : Option (List Str)) (src : ClassSrc) (f : Str → Str)
    (hf : ∀ c ∈ src.classes, absClassName loc (f c) = absClassName loc c) :
    NodeM.ofSrc loc { src with classes := src.classes.map f } = NodeM.ofSrc loc src := by
  rw [ofSrc_eq, ofSrc_eq]
  simp only
  rw [nub_map_nub (absClassName loc) (src.classes.map f) [] [] (by simp),
    nub_map_nub (absClassName loc) src.classes [] [] (by simp), List.map_map,
    List.map_congr_left (g := absClassName loc) (fun c hc => by simpa using hf c hc)]

/-- The twin spelling of an include entry, references included: the absolute name it denotes at
`loc`, if that name is stable (does not start with a dot); otherwise the entry itself. -/
def twinEntryAll (loc : Option (List Str)) (c : Str) : Str :=
  if (absClassName loc c).head? = some '.' then c else absClassName loc c

/-- **The twin spelling of an include entry**: an entry that contains no reference marker `${` is
replaced by the absolute name it denotes at `loc` (if stable); entries with references are kept.
(An entry that does not start with a dot denotes itself, so only dotted entries change:
`twinEntry_of_not_dot`.) -/
def twinEntry (loc : Option (List Str)) (c : Str) : Str :=
  if strContains c Extracted.classRefMarker.toList then c else twinEntryAll loc c

theorem twinEntryAll_of_not_dot (loc : Option (List Str)) {c : Str} (h : c.head? ≠ some '.') :
    twinEntryAll loc c = c := by
  unfold twinEntryAll
  rw [abs_id_on_absolute loc c h]
  simp

theorem twinEntry_of_not_dot (loc : Option (List Str)) {c : Str} (h : c.head? ≠ some '.') :
    twinEntry loc c = c := by
  unfold twinEntry
  rw [twinEntryAll_of_not_dot loc h]
  simp

/-- A relative entry without reference whose absolute form is stable is replaced by exactly
`absClassName loc c` (e.g. `abs_relative`: the kept directories, then the rest of the name). -/
theorem twinEntry_eq_abs (loc : Option (List Str)) {c : Str}
    (hm : strContains c Extracted.classRefMarker.toList = false)
    (hs : (absClassName loc c).head? ≠ some '.') : twinEntry loc c = absClassName loc c := by
  simp [twinEntry, twinEntryAll, hm, hs]

theorem twinEntryAll_eq_abs (loc : Option (List Str)) {c : Str}
    (hs : (absClassName loc c).head? ≠ some '.') : twinEntryAll loc c = absClassName loc c := by
  simp [twinEntryAll, hs]

/-- The twin spelling denotes the same class. -/
theorem abs_twinEntryAll (loc : Option (List Str)) (c : Str) :
    absClassName loc (twinEntryAll loc c) = absClassName loc c := by
  unfold twinEntryAll
  by_cases h : (absClassName loc c).head? = some '.'
  · simp only [h, if_true]
  · simp only [h, if_false]; exact abs_idempotent loc c h

theorem abs_twinEntry (loc : Option (List Str)) (c : Str) :
    absClassName loc (twinEntry loc c) = absClassName loc c := by
  unfold twinEntry
  split
  · rfl
  · exact abs_twinEntryAll loc c

/-- The twin of a class source: every include entry replaced by its twin spelling. -/
def twinSrc (loc : Option (List Str)) (src : ClassSrc) : ClassSrc :=
  { src with classes := src.classes.map (twinEntry loc) }

/-- **Twin file, unconditionally**: the twin of a file parses to the same node. -/
theorem ofSrc_twinSrc (loc : Option (List Str)) (src : ClassSrc) :
    NodeM.ofSrc loc (twinSrc loc src) = NodeM.ofSrc loc src :=
  ofSrc_map_entries loc src _ fun c _ => abs_twinEntry loc c

/-! ### The twin inventory -/

def twinFile (f : Str → Str) : FileRes → FileRes
  | .ok src => .ok { src with classes := src.classes.map f }
  | .bad w => .bad w

/-- Rewrite every include entry `c` of every readable class file (at its location `loc`) and of
every readable node file (`loc = none`) to `f loc c`; names, paths, locations, the config and
unreadable files are unchanged. -/
def twinInvBy (f : Option (List Str) → Str → Str) (r : Inv) : Inv :=
  { r with
    classes := r.classes.map fun x => (x.1, x.2.1, twinFile (f (some x.2.1.loc)) x.2.2),
    nodes := r.nodes.map fun x => (x.1, x.2.1, twinFile (f none) x.2.2) }

/-- **The twin inventory**: all class files and node files replaced by their twins
(`twinSrc`: relative entries without references replaced by the absolute names they denote). -/
def twinInv (r : Inv) : Inv := twinInvBy twinEntry r

/-- Entries with references made absolute as well. -/
def twinInvAll (r : Inv) : Inv := twinInvBy twinEntryAll r

/-- Every entry replaced by `absClassName loc ·`, stable or not. -/
def twinInvRaw (r : Inv) : Inv := twinInvBy absClassName r

/-- `f` does not change the absolute name denoted by any include entry of any file of `r`. -/
def TwinOK (f : Option (List Str) → Str → Str) (r : Inv) : Prop :=
  (∀ x ∈ r.classes, ∀ src, x.2.2 = .ok src → ∀ c ∈ src.classes,
    absClassName (some x.2.1.loc) (f (some x.2.1.loc) c) = absClassName (some x.2.1.loc) c) ∧
  (∀ x ∈ r.nodes, ∀ src, x.2.2 = .ok src → ∀ c ∈ src.classes,
    absClassName none (f none c) = absClassName none c)

theorem twinOK_of_forall {f : Option (List Str) → Str → Str}
    (hf : ∀ loc c, absClassName loc (f loc c) = absClassName loc c) (r : Inv) : TwinOK f r :=
  ⟨fun _ _ _ _ c _ => hf _ c, fun _ _ _ _ c _ => hf _ c⟩

theorem findEntity_twin (f : Option (List Str) → Str → Str) (locOf : EntityInfo → Option (List Str))
    (name : Str) (l : List (Str × EntityInfo × FileRes)) :
    findEntity name (l.map fun x => (x.1, x.2.1, twinFile (f (locOf x.2.1)) x.2.2)) =
      (findEntity name l).map fun e => (e.1, twinFile (f (locOf e.1)) e.2) :=
  findEntity_map (fun info fr => twinFile (f (locOf info)) fr) name l

/-- Reading a class from the twin inventory gives the same parsed class. -/
theorem readClass_twinBy {f : Option (List Str) → Str → Str} {r : Inv} (h : TwinOK f r)
    (loc : Option (List Str)) (c : Str) :
    readClass (twinInvBy f r) loc c = readClass r loc c := by
  unfold readClass
  simp only [twinInvBy]
  rw [findEntity_twin f (fun i => some i.loc)]
  cases hfe : findEntity (absClassName loc c) r.classes with
  | none => rfl
  | some e =>
    obtain ⟨info, (src | w)⟩ := e
    · simp only [Option.map_some, twinFile]
      rw [ofSrc_map_entries (some info.loc) src _
        (h.1 _ (findEntity_some_mem hfe) src rfl)]
    · rfl

/-- **General twin theorem.**  If `f` never changes the absolute name an entry denotes, every
node renders identically in `r` and in the inventory with all entries rewritten by `f`. -/
theorem renderNode_twinBy {f : Option (List Str) → Str → Str} {r : Inv} (h : TwinOK f r)
    (fuel : Nat) (name : Str) :
    renderNode fuel r name = renderNode fuel (twinInvBy f r) name := by
  rw [renderNode_eq, renderNode_eq]
  have hn : findEntity name (twinInvBy f r).nodes =
      (findEntity name r.nodes).map fun e => (e.1, twinFile (f none) e.2) :=
    findEntity_twin f (fun _ => none) name r.nodes
  rw [hn]
  cases hfe : findEntity name r.nodes with
  | none => rfl
  | some e =>
    obtain ⟨info, (src | w)⟩ := e
    · simp only [Option.map_some, twinFile]
      rw [renderNodeSrc_congr (r := r) (r' := twinInvBy f r) rfl
        (fun loc c => (readClass_twinBy h loc c).symm)]
      exact renderNodeSrc_src_congr
        (ofSrc_map_entries none src _ (h.2 _ (findEntity_some_mem hfe) src rfl)).symm ..
    · rfl

/-- **C15, end to end.**  For every inventory, every node and every fuel: the node renders
identically (same parameters, classes, applications, metadata — or the same error) when in every
class file and node file each relative include without reference is replaced by the absolute
name it denotes. -/
theorem renderNode_twin (fuel : Nat) (r : Inv) (name : Str) :
    renderNode fuel r name = renderNode fuel (twinInv r) name :=
  renderNode_twinBy (twinOK_of_forall abs_twinEntry r) fuel name

/-- The same with the relative entries that contain references made absolute, too. -/
theorem renderNode_twinAll (fuel : Nat) (r : Inv) (name : Str) :
    renderNode fuel r name = renderNode fuel (twinInvAll r) name :=
  renderNode_twinBy (twinOK_of_forall abs_twinEntryAll r) fuel name

/-- The files of the twin inventory are the `twinSrc` of the files of `r`. -/
theorem twinInv_class_files (r : Inv) :
    (twinInv r).classes = r.classes.map fun x =>
      (x.1, x.2.1, match x.2.2 with
        | .ok src => .ok (twinSrc (some x.2.1.loc) src)
        | .bad w => .bad w) := by
  unfold twinInv twinInvBy
  simp only
  apply List.map_congr_left
  intro x _
  rcases x with ⟨n, i, (src | w)⟩ <;> rfl

theorem twinInv_node_files (r : Inv) :
    (twinInv r).nodes = r.nodes.map fun x =>
      (x.1, x.2.1, match x.2.2 with
        | .ok src => .ok (twinSrc none src)
        | .bad w => .bad w) := by
  unfold twinInv twinInvBy
  simp only
  apply List.map_congr_left
  intro x _
  rcases x with ⟨n, i, (src | w)⟩ <;> rfl

/-! ### Unconditional replacement needs stability -/

/-- No include entry of any file of `r` denotes an absolute name that starts with a dot. -/
def AbsStable (r : Inv) : Prop :=
  (∀ x ∈ r.classes, ∀ src, x.2.2 = .ok src → ∀ c ∈ src.classes,
    (absClassName (some x.2.1.loc) c).head? ≠ some '.') ∧
  (∀ x ∈ r.nodes, ∀ src, x.2.2 = .ok src → ∀ c ∈ src.classes,
    (absClassName none c).head? ≠ some '.')

/-- With `AbsStable`, every entry may be replaced by `absClassName loc ·` outright. -/
theorem renderNode_twinRaw {r : Inv} (h : AbsStable r) (fuel : Nat) (name : Str) :
    renderNode fuel r name = renderNode fuel (twinInvRaw r) name :=
  renderNode_twinBy
    ⟨fun x hx src hs c hc => abs_idempotent _ c (h.1 x hx src hs c hc),
     fun x hx src hs c hc => abs_idempotent _ c (h.2 x hx src hs c hc)⟩ fuel name

/-- The absolute form of any name starts with a dot only below a top-level directory whose name
is empty or starts with a dot. -/
theorem abs_head_ne_dot (loc : Option (List Str))
    (hloc : ∀ s, (loc.getD []).head? = some s → s ≠ [] ∧ s.head? ≠ some '.') (c : Str) :
    (absClassName loc c).head? ≠ some '.' := by
  by_cases hd : c.head? = some '.'
  · obtain ⟨cs, rfl⟩ : ∃ cs, c = '.' :: cs := by
      cases c with
      | nil => simp at hd
      | cons x xs => simp only [List.head?_cons, Option.some.injEq] at hd; exact ⟨xs, by rw [hd]⟩
    rw [absClassName_dot]
    have hsp := (splitDots_spec ('.' :: cs)).2
    generalize (splitDots ('.' :: cs)).2 = rest at hsp
    generalize ((loc.getD []) ++ [['<']]).length - (splitDots ('.' :: cs)).1 = k
    cases hkept : ((loc.getD []) ++ [['<']]).take k with
    | nil => simpa using hsp
    | cons seg more =>
      have hh : (((loc.getD []) ++ [['<']]).take k).head? = some seg := by rw [hkept]; rfl
      have hk : k ≠ 0 := by
        intro hk; subst hk; simp at hkept
      rw [List.head?_take, if_neg hk] at hh
      have hseg : seg ≠ [] ∧ seg.head? ≠ some '.' := by
        cases hL : loc.getD [] with
        | nil =>
          rw [hL] at hh
          simp only [List.nil_append, List.head?_cons, Option.some.injEq] at hh
          subst hh
          exact ⟨by simp, by decide⟩
        | cons s ss =>
          rw [hL] at hh
          simp only [List.cons_append, List.head?_cons, Option.some.injEq] at hh
          subst hh
          exact hloc s (by rw [hL]; rfl)
      cases seg with
      | nil => exact absurd rfl hseg.1
      | cons y ys =>
        have := hseg.2
        simpa [List.flatMap_cons] using this
  · rw [abs_id_on_absolute loc c hd]; exact hd

/-- A sufficient condition for `AbsStable`: no class lives below a top-level directory whose
name is empty or starts with a dot. -/
theorem absStable_of_locs {r : Inv}
    (h : ∀ x ∈ r.classes, ∀ s, x.2.1.loc.head? = some s → s ≠ [] ∧ s.head? ≠ some '.') :
    AbsStable r :=
  ⟨fun x hx _ _ c _ => abs_head_ne_dot (some x.2.1.loc) (fun s hs => h x hx s (by simpa using hs)) c,
   fun _ _ _ _ c _ => abs_head_ne_dot none (fun s hs => by simp at hs) c⟩

/-! ### Non-vacuity -/

section Examples

private def ei (p : String) (loc : List String) : EntityInfo :=
  { path := [p.toList], loc := loc.map String.toList }

/-- Class `a.b.c` (directory `a/b`) includes `.x` (= `a.b.x`), `..y` (= `a.y`), the absolute `z`,
and `.${k}` (relative, with a reference; `k` is `x`, so it denotes `a.b.x` again).  The node
includes `.a.b.c` (a dotted entry in a node refers to the root). -/
private def exRel : Inv :=
  let s (x : String) : Yaml := .str x.toList
  { classes :=
      [ ("a.b.c".toList, ei "a/b/c.yml" ["a", "b"],
          .ok { classes := [".x".toList, "..y".toList, "z".toList, ".${k}".toList], apps := ["c".toList] }),
        ("a.b.x".toList, ei "a/b/x.yml" ["a", "b"], .ok { params := [(s "px", s "1")] }),
        ("a.y".toList, ei "a/y.yml" ["a"], .ok { classes := [".b.x".toList], params := [(s "k", s "x")] }),
        ("z".toList, ei "z.yml" [], .ok { apps := ["zapp".toList] }) ],
    nodes := [ ("n".toList, ei "n.yml" [], .ok { classes := [".a.b.c".toList] }) ] }

private def includesOf (l : List (Str × EntityInfo × FileRes)) : List (List Str) :=
  l.map fun x => match x.2.2 with | .ok src => src.classes | .bad _ => []

/-- The twin inventory spells the relative includes out (the entry with a reference is kept by
`twinInv` and made absolute by `twinInvAll`) … -/
example : includesOf (twinInv exRel).classes =
      [["a.b.x".toList, "a.y".toList, "z".toList, ".${k}".toList], [], ["a.b.x".toList], []] ∧
    includesOf (twinInv exRel).nodes = [["a.b.c".toList]] ∧
    includesOf (twinInvAll exRel).classes =
      [["a.b.x".toList, "a.y".toList, "z".toList, "a.b.${k}".toList], [], ["a.b.x".toList], []] := by
  decide +kernel

/-- … and differs from the original … -/
example : includesOf exRel.classes ≠ includesOf (twinInv exRel).classes := by decide +kernel

/-- … while node `n` renders identically in all three (by the theorems), … -/
example : renderNode 30 exRel "n".toList = renderNode 30 (twinInv exRel) "n".toList ∧
    renderNode 30 exRel "n".toList = renderNode 30 (twinInvAll exRel) "n".toList :=
  ⟨renderNode_twin 30 exRel _, renderNode_twinAll 30 exRel _⟩

/-- … namely to a value (checked by evaluation, independently for the original and the twin). -/
example : TextL.errOf (renderNode 30 exRel "n".toList) = none ∧
    TextL.errOf (renderNode 30 (twinInv exRel) "n".toList) = none ∧
    nodeJson (renderNode 30 exRel "n".toList) = nodeJson (renderNode 30 (twinInv exRel) "n".toList) := by
  decide +kernel

/-- The example is `AbsStable` by the syntactic criterion (top-level directories `a`, none). -/
example : AbsStable exRel :=
  absStable_of_locs (by decide +kernel)

/-- **Counterexample to unconditional replacement** (in the generality of the model's `Inv`,
where a class may be located below a directory `.h`).  Class `a` at location `.h` includes `.x`,
which denotes `.h.x`; the walk reads it through `absClassName` again, i.e. looks up `.h.h.x`, which
exists: the node renders.  In the raw twin the entry is `.h.x`, parsed to `.h.h.x`, looked up as
`.h.h.h.x`, which does not exist: the node fails.  (`twinInv` leaves the unstable entry alone.) -/
private def exUnstable : Inv :=
  { classes :=
      [ ("a".toList, ei "a.yml" [".h"], .ok { classes := [".x".toList] }),
        (".h.h.x".toList, ei "x.yml" [".h", "h"], .ok { apps := ["reached".toList] }) ],
    nodes := [ ("n".toList, ei "n.yml" [], .ok { classes := ["a".toList] }) ] }

example : TextL.errOf (renderNode 30 exUnstable "n".toList) = none ∧
    TextL.errOf (renderNode 30 (twinInvRaw exUnstable) "n".toList) =
      some (.classNotFound ".h.h.h.x".toList) ∧
    TextL.errOf (renderNode 30 (twinInv exUnstable) "n".toList) = none ∧
    includesOf (twinInvRaw exUnstable).classes = [[".h.x".toList], []] ∧
    includesOf (twinInv exUnstable).classes = [[".x".toList], []] := by decide +kernel

end Examples

end C15
end Reclass
