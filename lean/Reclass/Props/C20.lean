/-
  C20 — configuration entry points agree and stay self-consistent.

  Theorems about the configuration state machine `Model/Config` (`src/config.rs`):
  every history of calls, successful or failed, keeps the reported pattern list and the
  compiled pattern set in agreement; the file and dict routes coincide; unknown options
  are ignored; wrong types and non-compiling patterns are rejected.
-/
import Reclass.Model.Config
import Reclass.Lemmas.NamingL
namespace Reclass
namespace C20

/-- The settings an instance reports and the behaviour it shows agree: the compiled pattern
set is what compiling the reported list gives. -/
def Consistent (c : ConfigM) : Prop := compilePats c.reported = .ok c.compiled

/-- The constructor yields a consistent configuration (`[".*"]` compiled to "match all"). -/
theorem new_consistent (inv : Str) (n cl : Option Str) (ig : Option Bool) (c : ConfigM)
    (h : ConfigM.new inv n cl ig = .ok c) : Consistent c := by
  unfold ConfigM.new at h
  simp only [] at h
  split at h
  · cases h
  · injection h with h; subst h; exact rfl

/-- Compiling makes a configuration consistent, whatever it reported before. -/
theorem compile_consistent (c c' : ConfigM) (h : c.compile = .ok c') : Consistent c' := by
  unfold ConfigM.compile at h
  cases hc : compilePats c.reported with
  | error e => simp [hc] at h
  | ok ps =>
    simp only [hc] at h
    injection h with h; subst h
    exact hc

/-- Loading options from a file or a dict (fold of `set_option`, then compile) yields a
consistent configuration for every option list. -/
theorem load_consistent (c c' : ConfigM) (p : Str) (opts : List Opt) (h : c.load p opts = .ok c') :
    Consistent c' := by
  unfold ConfigM.load at h
  cases hs : c.setOptions p opts with
  | error e => simp [hs] at h
  | ok c1 => simp only [hs] at h; exact compile_consistent c1 c' h

/-- Every call on a live instance, successful or failed, keeps it consistent. -/
theorem call_consistent (c : ConfigM) (s : CfgCall) (h : Consistent c) : Consistent (c.call s).1 := by
  cases s with
  | setPatterns ps =>
    unfold ConfigM.call
    cases hc : compilePats ps with
    | error e => simpa [hc] using h
    | ok pats => simp [hc, Consistent]
  | setFlag => exact h
  | unsetFlag => exact h
  | clearFlags => exact h

/-- A failed call leaves the whole state unchanged. -/
theorem failed_call_unchanged (c : ConfigM) (s : CfgCall) (h : (c.call s).2 = false) : (c.call s).1 = c := by
  cases s with
  | setPatterns ps =>
    unfold ConfigM.call at h ⊢
    cases hc : compilePats ps with
    | error e => simp [hc]
    | ok pats => simp [hc] at h
  | setFlag => simp [ConfigM.call] at h
  | unsetFlag => simp [ConfigM.call] at h
  | clearFlags => simp [ConfigM.call] at h

/-- **Invariant over every history**: after any sequence of calls (failed ones included)
on a consistent instance, the instance is consistent. -/
theorem history_consistent (calls : List CfgCall) (c : ConfigM) (h : Consistent c) :
    Consistent (calls.foldl (fun c s => (c.call s).1) c) := by
  induction calls generalizing c with
  | nil => exact h
  | cons s rest ih => exact ih _ (call_consistent c s h)

/-- Consequently the ignore decision is a function of the *reported* settings: two consistent
configurations reporting the same flag and pattern list decide alike on every class name. -/
theorem decision_by_reported (c c' : ConfigM) (h : Consistent c) (h' : Consistent c')
    (hr : c.reported = c'.reported) (hf : c.ignoreClassNotfound = c'.ignoreClassNotfound) (cls : Str) :
    c.isClassIgnored cls = c'.isClassIgnored cls := by
  unfold Consistent at h h'
  rw [hr, h'] at h
  injection h with h
  unfold ConfigM.isClassIgnored
  rw [hf, h]

/-- A pattern list with an entry that does not compile is rejected by the setter, and the
instance keeps its previous settings. -/
theorem bad_pattern_rejected (c : ConfigM) (ps : List Str) (h : compilePats ps = .error (.config "regex".toList)) :
    c.call (.setPatterns ps) = (c, false) := by
  simp [ConfigM.call, h]

/-- … and by loading: options whose pattern list does not compile make `load` fail. -/
theorem bad_pattern_rejected_load (c c1 : ConfigM) (p : Str) (opts : List Opt) (e : Err)
    (hs : c.setOptions p opts = .ok c1) (h : compilePats c1.reported = .error e) :
    c.load p opts = .error e := by
  simp [ConfigM.load, hs, ConfigM.compile, h]

/-- Unknown options are ignored. -/
theorem unknown_ignored (c : ConfigM) (p k : Str) (v : Yaml) (vs : Str)
    (hk : ∀ x ∈ Extracted.optionKeys, x.toList ≠ k) : c.setOption p k v vs = .ok c := by
  have h1 := hk "nodes_uri" (by decide)
  have h2 := hk "classes_uri" (by decide)
  have h3 := hk "ignore_class_notfound" (by decide)
  have h4 := hk "ignore_class_notfound_regexp" (by decide)
  have h5 := hk "compose_node_name" (by decide)
  have h6 := hk "reclass_rs_compat_flags" (by decide)
  unfold ConfigM.setOption
  rw [if_neg (fun h => h1 h.symm), if_neg (fun h => h2 h.symm), if_neg (fun h => h3 h.symm),
      if_neg (fun h => h4 h.symm), if_neg (fun h => h5 h.symm), if_neg (fun h => h6 h.symm)]

/-- A flag option that is not a boolean is rejected. -/
theorem wrong_type_flag_rejected (c : ConfigM) (p : Str) (v : Yaml) (vs : Str) (hv : ∀ b, v ≠ .bool b) :
    (∃ e, c.setOption p "ignore_class_notfound".toList v vs = .error e) ∧
    (∃ e, c.setOption p "compose_node_name".toList v vs = .error e) := by
  constructor
  · cases v <;> simp [ConfigM.setOption] at hv ⊢
  · cases v <;> simp [ConfigM.setOption] at hv ⊢

/-- A pattern list option that is not a list, or a list with a non-string entry, is rejected. -/
theorem wrong_type_patterns_rejected (c : ConfigM) (p : Str) (v : Yaml) (vs : Str) (hv : ∀ l, v ≠ .seq l) :
    ∃ e, c.setOption p "ignore_class_notfound_regexp".toList v vs = .error e := by
  cases v <;> simp [ConfigM.setOption] at hv ⊢

theorem collectPatterns_nonstring (pre : List Str) (x : Yaml) (post : List Yaml) (acc : List Str)
    (hx : ∀ s, x ≠ .str s) :
    ∃ e, collectPatterns (pre.map Yaml.str ++ x :: post) acc = .error e := by
  induction pre generalizing acc with
  | nil => cases x <;> simp [collectPatterns] at hx ⊢
  | cons s rest ih => simpa [collectPatterns] using ih (acc ++ [s])

/-- The parent of `<inv>/<file name>` is `<inv>`: the file name of the config file does not
matter for `nodes_uri`/`classes_uri`. -/
theorem pathParent_file (inv name : Str) (hn : '/' ∉ name) :
    splitOn '/' (inv ++ '/' :: name) = splitOn '/' inv ++ [name] := by
  induction inv with
  | nil =>
    have : splitOn '/' name = [name] := by
      induction name with
      | nil => rfl
      | cons c cs ih =>
        have hc : c ≠ '/' := by intro h; exact hn (by simp [h])
        have hcs : '/' ∉ cs := by intro h; exact hn (by simp [h])
        simp [splitOn, ih hcs, hc]
    simp [splitOn, this]
  | cons c cs ih =>
    simp only [List.cons_append, splitOn, ih]
    cases h : splitOn '/' cs with
    | nil => exact absurd h (splitOn_ne_nil '/' cs)
    | cons seg segs => by_cases hc : c = '/' <;> simp [hc]

/-- **File route = dict route**: `load` depends on the config-file path only through its
directory, so loading the same options with `<inv>/reclass-config.yml` (file) and with
`<inv>/dummy` (dict) gives the same configuration or the same error. -/
theorem file_eq_dict (c : ConfigM) (inv a b : Str) (ha : '/' ∉ a) (hb : '/' ∉ b) (opts : List Opt) :
    c.load (inv ++ '/' :: a) opts = c.load (inv ++ '/' :: b) opts := by
  have hp : pathParent (inv ++ '/' :: a) = pathParent (inv ++ '/' :: b) := by
    unfold pathParent
    rw [pathParent_file inv a ha, pathParent_file inv b hb]
    simp [dropLast]
  have hw : ∀ v, withFileName (inv ++ '/' :: a) v = withFileName (inv ++ '/' :: b) v := by
    intro v; unfold withFileName; rw [hp]
  have hso : ∀ (c : ConfigM) k v vs, c.setOption (inv ++ '/' :: a) k v vs = c.setOption (inv ++ '/' :: b) k v vs := by
    intro c k v vs; unfold ConfigM.setOption; simp only [hw]
  have hss : ∀ (opts : List Opt) (c : ConfigM), c.setOptions (inv ++ '/' :: a) opts = c.setOptions (inv ++ '/' :: b) opts := by
    intro opts
    induction opts with
    | nil => intro c; rfl
    | cons o rest ih =>
      intro c
      simp only [ConfigM.setOptions, hso]
      cases c.setOption (inv ++ '/' :: b) o.key o.val o.vstr with
      | error e => rfl
      | ok c' => exact ih c'
  unfold ConfigM.load
  rw [hss]

/-! ### Non-vacuity -/

example : Consistent {} := rfl

example : (({} : ConfigM).call (.setPatterns ["^zzz$".toList, "(".toList])) = ({}, false) := by decide

example : let c := (({ ignoreClassNotfound := true } : ConfigM).call (.setPatterns ["^zzz$".toList])).1
    c.isClassIgnored "zzz".toList = true ∧ c.isClassIgnored "abc".toList = false := by decide

example : (ConfigM.load {} "/i/cfg.yml".toList
    [{ key := "ignore_class_notfound_regexp".toList, val := .seq [.str "^a".toList], vstr := [] }]).toOption.map
      (fun c => (c.reported, c.compiled)) = some (["^a".toList], [.pfx "a".toList]) := by rfl

end C20
end Reclass
