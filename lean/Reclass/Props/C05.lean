/-
  C05 — Text of a string that mixes literal text and references.

  "A string mixing text and references renders to the concatenation, in order, of its literal
  pieces and the text form of each referenced value after that value has itself been fully
  rendered.  Strings appear as-is, numbers in their canonical decimal form, true/false/null as
  True/False/None, and mappings and lists as compact JSON in which integers stay integers and
  no reference is left unresolved."

  Model functions: `slice` (= `interpolate_token_slice`, `src/refs/mod.rs`), `tokRender`
  (= `Token::render`), `rawString` (= `Value::raw_string`), `jsonOf`
  (= `serde_json::to_string(&serde_json::Value::from(v))`, `src/types/value.rs`).

  Property theorems only; helper lemmas are in `Lemmas/TextL`.  Fuel: `slice (n+1)` walks the
  pieces with fuel `n`, `n-1`, …; `slice_eq_concat` states the concatenation with exactly
  these indices (`Pieces`), `slice_eq_concat_uniform` with one fuel for all pieces (using fuel
  monotonicity, `Lemmas/Fuel`).
-/
import Reclass.Lemmas.TextL
namespace Reclass
namespace C05

/-! ### 1. Text form of scalars -/

/-- **`raw_string` of scalars.** A literal string appears as it is, `null` as `None`, booleans
as `True`/`False`, an integer in decimal notation (`Int.repr`: optional `-`, then digits), a
float as the token YAML printed for it. -/
theorem rawString_scalars :
    (∀ s, rawString (.lit s) = .ok s) ∧
    rawString .null = .ok "None".toList ∧
    rawString (.bool true) = .ok "True".toList ∧
    rawString (.bool false) = .ok "False".toList ∧
    (∀ i : Int, rawString (.num (.int i)) = .ok (Int.repr i).toList) ∧
    (∀ y j, rawString (.num (.float y j)) = .ok y) :=
  ⟨fun _ => rfl, rfl, rfl, rfl, fun _ => rfl, fun _ _ => rfl⟩

/-- Unparsed strings and layer lists have no text form: an error, not a panic. -/
theorem rawString_str_vl (s : Str) (l : List Value) :
    rawString (.str s) = .error (.rawStringOf "Value::String".toList) ∧
    rawString (.vl l) = .error (.rawStringOf "Value::ValueList".toList) := ⟨rfl, rfl⟩

/-- Containers are rendered as their JSON text. -/
theorem rawString_containers (es : List (Key × Value)) (ck ok : List Key) (l : List Value) :
    rawString (.map es ck ok) = jsonOf (.map es ck ok) ∧ rawString (.seq l) = jsonOf (.seq l) :=
  ⟨rfl, rfl⟩

/-! ### 2. Integers stay integers in embedded JSON -/

/-- **Integers are exact in JSON**: the JSON text of an integer is its decimal form (no `.0`,
no exponent), also as a list element and as a mapping value. -/
theorem json_int_exact (i : Int) :
    jsonOf (.num (.int i)) = .ok (Int.repr i).toList ∧
    jsonOf (.seq [.num (.int i)]) = .ok ("[".toList ++ (Int.repr i).toList ++ "]".toList) ∧
    (∀ k ck ok, jsonOf (.map [(.str k, .num (.int i))] ck ok) =
      .ok ("{".toList ++ jsonString k ++ ":".toList ++ (Int.repr i).toList ++ "}".toList)) := by
  refine ⟨rfl, ?_, ?_⟩
  · simp [jsonOf, jsonOfL, Num.jsonText, joinWith]
  · intro k ck ok
    simp [jsonOf, jsonOfEs, Num.jsonText, joinWith, sortedInsert, Key.jsonKey]

/-- Integers and floats are told apart: the integer `1` and the float `1.0` have different
JSON (and raw) text. -/
example : jsonOf (.seq [.num (.int 1), .num (.float "1.0".toList "1.0".toList)]) =
    .ok "[1,1.0]".toList := by rfl

example : rawString (.num (.int (-12))) = .ok "-12".toList := by rfl

/-! ### 3. Totality on rendered data -/

/-- **JSON never meets a layer list in closed data**: on a closed value (no unparsed string, no
layer list at any depth) `jsonOf` succeeds; in particular the `todo!()` for `ValueList` is not
reached. -/
theorem json_no_vl {v : Value} (hc : Closed v) :
    (∃ t, jsonOf v = .ok t) ∧ jsonOf v ≠ .error (.panic .jsonVl) := by
  obtain ⟨t, ht⟩ := jsonOf_closed v hc
  exact ⟨⟨t, ht⟩, by rw [ht]; simp⟩

/-- That `todo!()` is the only way `jsonOf` can fail at all. -/
theorem json_only_error {v : Value} {e : Err} (h : jsonOf v = .error e) : e = .panic .jsonVl :=
  jsonOf_error v e h

/-- `raw_string` is total on closed values. -/
theorem rawString_total_closed {v : Value} (hc : Closed v) : ∃ t, rawString v = .ok t :=
  rawString_closed v hc

/-- The panic is real for non-closed data: JSON text of a hand-built layer list. -/
example : jsonOf (.seq [.vl [.null]]) = .error (.panic .jsonVl) := by rfl

/-! ### 4. Pieces concatenate in order -/

/-- The text of one piece of a token slice: resolve the token (with its own copy of the resolve
state), interpolate while the result is an unparsed string, then `sliceFinish` (render a
container fully, take `raw_string`). -/
def pieceText (n : Nat) (root : Mapping) (t : Token) (st : RState) : R Str :=
  match tokResolve n root t st with
  | .error e => .error e
  | .ok (v, st') =>
    match strLoop n root v st' with
    | .error e => .error e
    | .ok (v', st'') => sliceFinish n root v' st''

/-- **Unfolding of `interpolate_token_slice`.** The text of `t :: ts` is the text of `t`
followed by the text of `ts`; both are computed from the *same* incoming state `st` (each piece
works on its own copy), and an error in `t` wins over an error in `ts`. -/
theorem slice_step (n : Nat) (root : Mapping) (t : Token) (ts : List Token) (st : RState) :
    slice (n+1) root (t :: ts) st =
      match pieceText n root t st with
      | .error e => .error e
      | .ok s =>
        match slice n root ts st with
        | .error e => .error e
        | .ok s' => .ok (s ++ s') := by
  simp only [slice, pieceText]
  cases h1 : tokResolve n root t st with
  | error e => rfl
  | ok p =>
    obtain ⟨v, st1⟩ := p
    simp only
    cases h2 : strLoop n root v st1 with
    | error e => rfl
    | ok p2 => rfl

/-- The empty slice renders to the empty text. -/
theorem slice_nil (n : Nat) (root : Mapping) (st : RState) : slice (n+1) root [] st = .ok [] := rfl

/-- `Pieces root st n ts texts`: `texts` are the texts of the pieces `ts`, in order, the `i`-th
computed with fuel `n-1-i` from the state `st`. -/
inductive Pieces (root : Mapping) (st : RState) : Nat → List Token → List Str → Prop
  | nil (n : Nat) : Pieces root st (n+1) [] []
  | cons {n : Nat} {t : Token} {ts : List Token} {x : Str} {xs : List Str} :
      pieceText n root t st = .ok x → Pieces root st n ts xs →
      Pieces root st (n+1) (t :: ts) (x :: xs)

/-- One text per piece. -/
theorem Pieces.length_eq {root : Mapping} {st : RState} {n : Nat} {ts : List Token}
    {xs : List Str} (h : Pieces root st n ts xs) : xs.length = ts.length := by
  induction h with
  | nil => rfl
  | cons _ _ ih => simp [ih]

/-- **A mixed string is the concatenation of its pieces, in order.** `slice` succeeds with `s`
exactly when every piece has a text and `s` is these texts joined in order. -/
theorem slice_eq_concat {n : Nat} {root : Mapping} {ts : List Token} {st : RState} {s : Str} :
    slice n root ts st = .ok s ↔ ∃ texts, Pieces root st n ts texts ∧ s = texts.flatten := by
  induction n generalizing ts s with
  | zero =>
    constructor
    · intro h; simp [slice] at h
    · rintro ⟨texts, hp, _⟩; cases hp
  | succ n ih =>
    cases ts with
    | nil =>
      constructor
      · intro h
        simp only [slice, Except.ok.injEq] at h
        exact ⟨[], Pieces.nil n, by simp [← h]⟩
      · rintro ⟨texts, hp, hs⟩
        cases hp
        simp [slice, hs]
    | cons t ts =>
      rw [slice_step]
      constructor
      · intro h
        cases h1 : pieceText n root t st with
        | error e => simp [h1] at h
        | ok x =>
          simp only [h1] at h
          cases h2 : slice n root ts st with
          | error e => simp [h2] at h
          | ok s' =>
            simp only [h2, Except.ok.injEq] at h
            obtain ⟨xs, hp, hs⟩ := ih.1 h2
            exact ⟨x :: xs, Pieces.cons h1 hp, by simp [← h, hs]⟩
      · rintro ⟨texts, hp, hs⟩
        cases hp with
        | cons h1 hp' =>
          rename_i x xs
          have := ih.2 ⟨xs, hp', rfl⟩
          simp [h1, this, hs]

/-- The first failing piece decides the error. -/
theorem slice_error_first {n : Nat} {root : Mapping} {t : Token} {ts : List Token} {st : RState}
    {e : Err} (h : pieceText n root t st = .error e) : slice (n+1) root (t :: ts) st = .error e := by
  rw [slice_step, h]

/-- More fuel does not change the text of a piece. -/
theorem pieceText_fuel_mono_le {n m : Nat} (hle : n ≤ m) {root : Mapping} {t : Token} {st : RState}
    {x : Str} (h : pieceText n root t st = .ok x) : pieceText m root t st = .ok x := by
  unfold pieceText at h ⊢
  cases h1 : tokResolve n root t st with
  | error e => simp [h1] at h
  | ok p =>
    obtain ⟨v, st1⟩ := p
    simp only [h1] at h
    rw [tokResolve_fuel_mono_le hle root t st h1 (by simp)]
    simp only
    cases h2 : strLoop n root v st1 with
    | error e => simp [h2] at h
    | ok p2 =>
      obtain ⟨v', st2⟩ := p2
      simp only [h2] at h
      rw [strLoop_fuel_mono_le hle root v st1 h2 (by simp)]
      simp only
      exact sliceFinish_fuel_mono_le hle root v' st2 h (by simp)

/-- `PiecesAt n root st ts texts`: `texts` are the texts of the pieces `ts`, in order, every one
computed by `pieceText` with the same fuel `n` from the same state `st`. -/
inductive PiecesAt (n : Nat) (root : Mapping) (st : RState) : List Token → List Str → Prop
  | nil : PiecesAt n root st [] []
  | cons {t : Token} {ts : List Token} {x : Str} {xs : List Str} :
      pieceText n root t st = .ok x → PiecesAt n root st ts xs →
      PiecesAt n root st (t :: ts) (x :: xs)

/-- **Concatenation, with one fuel for all pieces.** If `slice` succeeds with `s` then `s` is
the concatenation, in order, of the texts of the pieces, each computed by `pieceText` from the
same state and with the same fuel. -/
theorem slice_eq_concat_uniform {n : Nat} {root : Mapping} {ts : List Token} {st : RState}
    {s : Str} (h : slice n root ts st = .ok s) :
    ∃ texts, PiecesAt n root st ts texts ∧ s = texts.flatten := by
  obtain ⟨texts, hp, hs⟩ := slice_eq_concat.1 h
  refine ⟨texts, ?_, hs⟩
  clear hs h
  suffices ∀ k, n ≤ k → PiecesAt k root st ts texts from this n (Nat.le_refl _)
  induction hp with
  | nil => intro k _; exact PiecesAt.nil
  | cons h1 _ ih =>
    intro k hk
    exact PiecesAt.cons (pieceText_fuel_mono_le (by omega) h1) (ih k (by omega))

/-! ### 5. Literal pieces, combined tokens -/

/-- **A literal piece contributes its own text**, unchanged. -/
theorem literal_piece_text (n : Nat) (root : Mapping) (s : Str) (st : RState) :
    pieceText (n+1) root (.lit s) st = .ok s := by
  simp [pieceText, tokResolve, strLoop, sliceFinish, Value.isStr, Value.isMap, Value.isSeq, rawString]

/-- **A combined token renders to a literal string**: the concatenated text of its pieces,
and the caller's resolve state is left as it was. -/
theorem combined_renders_literal (n : Nat) (root : Mapping) (ts : List Token) (st : RState) :
    tokRender (n+2) root (.combined ts) st =
      match slice n root ts st with
      | .error e => .error e
      | .ok s => .ok (.lit s, st) := by
  simp only [tokRender, tokResolve]
  cases h : slice n root ts st with
  | error e => rfl
  | ok s => rfl

/-- The same as an implication (for any fuel). -/
theorem combined_renders_literal' {n : Nat} {root : Mapping} {ts : List Token} {st st' : RState}
    {v : Value} (h : tokRender n root (.combined ts) st = .ok (v, st')) :
    ∃ s, v = .lit s ∧ st' = st ∧ slice (n-2) root ts st = .ok s := by
  match n, h with
  | 0, h => simp [tokRender] at h
  | 1, h => simp [tokRender, tokResolve] at h
  | n+2, h =>
    rw [combined_renders_literal] at h
    cases h1 : slice n root ts st with
    | error e => simp [h1] at h
    | ok s =>
      simp only [h1, Except.ok.injEq, Prod.mk.injEq] at h
      exact ⟨s, h.1.symm, h.2.symm, by simpa using h1⟩

/-- **Headline.** A string that parses to several pieces (text and references mixed) renders to
the literal string made of the concatenated piece texts (`slice_eq_concat` says what these
are); the resolve state of the caller is unchanged; a failing piece fails the render. -/
theorem mixed_string_renders_concat (n : Nat) (root : Mapping) (s : Str) (ts : List Token)
    (st : RState) (hp : Token.parse s = .ok (some (.combined ts))) :
    interp (n+3) root (.str s) st =
      match slice n root ts st with
      | .error e => .error e
      | .ok t => .ok (.lit t, st) := by
  simp only [interp, hp]
  exact combined_renders_literal n root ts st

/-- A string without any reference marker renders to itself. -/
theorem plain_string_renders_itself (n : Nat) (root : Mapping) (s : Str) (st : RState)
    (h : Token.parse s = .ok none) : interp (n+1) root (.str s) st = .ok (.lit s, st) := by
  simp [interp, h]

/-! ### 6. The referenced value is fully rendered before its text is taken -/

/-- After `Token::resolve` and the `while v.is_string()` loop the piece value is not an
unparsed string. -/
theorem piece_value_not_str {n : Nat} {root : Mapping} {v v' : Value} {st st' : RState}
    (h : strLoop n root v st = .ok (v', st')) : ∀ s, v' ≠ .str s := by
  have := strLoop_not_str n root v st v' st' h
  intro s hs; subst hs; simp [Value.isStr] at this

/-- **The text of a piece is the text of plain data.** For well-formed parameters, whenever a
piece has a text `s`, there is a *closed* value `w` (no `${…}` left anywhere inside, no layer
list) with `raw_string w = s`; `w` is the piece value itself if that is a scalar, and the
interpolated and flattened piece value if it is a mapping or a sequence. -/
theorem piece_value_closed {n : Nat} {root : Mapping} {t : Token} {st st1 st2 : RState}
    {v v' : Value} {s : Str} (hr : WF root.toValue)
    (h1 : tokResolve n root t st = .ok (v, st1)) (h2 : strLoop n root v st1 = .ok (v', st2))
    (h3 : sliceFinish n root v' st2 = .ok s) :
    ∃ w, Closed w ∧ WF w ∧ rawString w = .ok s ∧
      ((v'.isMap || v'.isSeq) = false → w = v') ∧
      ((v'.isMap || v'.isSeq) = true → ∃ x st3, interp (n-1) root v' st2 = .ok (x, st3) ∧
        flat x st3 = .ok w) := by
  have hv : WF v := (interpInv n).tokResolve _ _ _ _ _ hr h1
  have hv' : WF v' := strLoop_wf n root v st1 v' st2 hr hv h2
  have hns := strLoop_not_str n root v st1 v' st2 h2
  cases n with
  | zero => simp [sliceFinish] at h3
  | succ n =>
    simp only [sliceFinish] at h3
    by_cases hc : (v'.isMap || v'.isSeq) = true
    · simp only [hc, if_true] at h3
      cases h4 : interp n root v' st2 with
      | error e => simp [h4] at h3
      | ok p =>
        obtain ⟨x, st3⟩ := p
        simp only [h4] at h3
        obtain ⟨w, h5, hcw, hww⟩ := flat_after_interp_ok (st2 := st3) hr hv' h4
        simp only [h5] at h3
        refine ⟨w, hcw, hww, h3, ?_, ?_⟩
        · intro hf; rw [hc] at hf; cases hf
        · intro _; exact ⟨x, st3, by simpa using h4, h5⟩
    · simp only [hc, Bool.false_eq_true, if_false] at h3
      refine ⟨v', ?_, hv', h3, fun _ => rfl, fun hf => absurd hf hc⟩
      cases v' with
      | str _ => simp [Value.isStr] at hns
      | vl _ => simp [rawString] at h3
      | map _ _ _ => simp [Value.isMap] at hc
      | seq _ => simp [Value.isSeq] at hc
      | null => simp [Closed]
      | bool _ => simp [Closed]
      | num _ => simp [Closed]
      | lit _ => simp [Closed]

/-- If the piece value is a layer list (possible only for hand-built tokens/values), taking its
text is an ordinary error, never a panic. -/
theorem piece_vl_is_error (n : Nat) (root : Mapping) (l : List Value) (st : RState) :
    sliceFinish (n+1) root (.vl l) st = .error (.rawStringOf "Value::ValueList".toList) := by
  simp [sliceFinish, Value.isMap, Value.isSeq, rawString]

/-- **No layer list reaches JSON.** For well-formed parameters without nested layer lists,
`interpolate_token_slice` never hits the `todo!()` of the JSON conversion — nor any other
panic. -/
theorem slice_no_panic {n : Nat} {root : Mapping} {ts : List Token} {st : RState}
    (hr : WF root.toValue) (hn : NoNest root.toValue) :
    slice n root ts st ≠ .error (.panic .jsonVl) ∧ ∀ site, slice n root ts st ≠ .error (.panic site) := by
  have : ∀ site, slice n root ts st ≠ .error (.panic site) :=
    fun site h => (noPanicInv n).slice _ _ _ _ ⟨hr, hn⟩ h site rfl
  exact ⟨this _, this⟩

/-! ### Non-vacuity: concrete renders -/

/-- JSON text of the rendered parameters (kernel-evaluable check of concrete renders). -/
def renderJson (n : Nat) (m : Mapping) : Option Str :=
  match renderParamsF n m with
  | .ok out => (match jsonOf out.toValue with | .ok s => some s | .error _ => none)
  | .error _ => none

/-- `l: [1, 2]`, `s: "x${l}"` ⇒ `s` is `x[1,2]` (compact JSON, integers stay integers). -/
example : renderJson 60
    ⟨[(.str "l".toList, .seq [.num (.int 1), .num (.int 2)]),
      (.str "s".toList, .str "x${l}".toList)], [], []⟩ =
    some "{\"l\":[1,2],\"s\":\"x[1,2]\"}".toList := by decide +kernel

/-- Text, number, boolean and null pieces in order: `"${a}-${b}-${c}-${d}!"`. -/
example : renderJson 60
    ⟨[(.str "a".toList, .str "foo".toList), (.str "b".toList, .num (.int 42)),
      (.str "c".toList, .bool true), (.str "d".toList, .null),
      (.str "s".toList, .str "${a}-${b}-${c}-${d}!".toList)], [], []⟩ =
    some "{\"a\":\"foo\",\"b\":42,\"c\":true,\"d\":null,\"s\":\"foo-42-True-None!\"}".toList := by
  decide +kernel

/-- A reference inside the embedded container is resolved before the text is taken, and keys of
the embedded mapping come out sorted (`BTreeMap`): `m: {z: ${a}, b: 1}`, `s: "<${m}>"`. -/
example : renderJson 80
    ⟨[(.str "a".toList, .num (.int 7)),
      (.str "m".toList, .map [(.str "z".toList, .str "${a}".toList),
                               (.str "b".toList, .num (.int 1))] [] []),
      (.str "s".toList, .str "<${m}>".toList)], [], []⟩ =
    some "{\"a\":7,\"m\":{\"b\":1,\"z\":7},\"s\":\"<{\\\"b\\\":1,\\\"z\\\":7}>\"}".toList := by
  decide +kernel

/-- The hypothesis of `mixed_string_renders_concat` is satisfiable: `x${l}` parses to a literal
piece followed by a reference piece. -/
example : Token.parse "x${l}".toList =
    .ok (some (.combined [.lit "x".toList, .ref [.lit "l".toList]])) := by rfl

/-- The `Pieces` relation is inhabited: two literal pieces. -/
example : Pieces {} {} 3 [.lit "ab".toList, .lit "c".toList] ["ab".toList, "c".toList] :=
  Pieces.cons (literal_piece_text 1 {} _ {}) (Pieces.cons (literal_piece_text 0 {} _ {}) (Pieces.nil 0))

example : slice 3 {} [.lit "ab".toList, .lit "c".toList] {} = .ok "abc".toList := by rfl

end C05
end Reclass
