/-
  C17b — C17 END TO END: "a node's application list is the ordered, duplicate-free accumulation of
  the application lists of its classes and of itself, in merge order" — and the same for its class
  list.

  `Props/C17` is about the list type (`RList.merge`, `~` negation, the invariant `C17.Inv`);
  `Props/C01` shows that the walk merges the traced classes in trace order (`root_eq_fold`,
  `render_sound`).  This file composes the two for the model's `renderNode`
  (`Reclass::render_node`), for every fuel and every inventory.

  Vocabulary.
    * The *trace* `tr : List (Str × NodeM)` of a node is the list of classes merged by the
      depth-first walk of its include list, in merge order — the `Walk` relation of `Spec/Walk`
      started with nothing seen and an empty accumulator (by `C01.walk_sound` / `walk_complete` this
      is exactly what the instrumented model walk `walkClassesT` returns; by `C01.each_class_once`
      no name occurs twice; by `C01.includes_before_class` a class comes after its own includes).
    * *The application list of a class* `t ∈ tr` is `t.2.apps`, and `t.2` is the decoded class
      file: `NodeM.ofSrc (some ci.loc) cs = .ok t.2` for the file `cs` that `r.classes` stores
      under the absolute form of the name (`IsClassFile`, `trace_entries_are_files`); hence
      `t.2.apps = RList.ofList cs.apps` (the file's `applications` entries, `~` negations applied
      within the file) and `t.2.classes` = the file's absolute, deduplicated include list.
    * *The node's own list* is `self.apps = RList.ofList src.apps` for the node file `src`.

  Theorems.
    * `renderNode_apps_eq_fold`        — `info.apps` = items of
                                          `(tr.map (·.2.apps) ++ [self.apps]).foldl RList.merge {}`;
    * `renderNode_apps_eq_fold_files`  — the same over the raw file lists:
                                          `(files.foldl (fun acc f => acc.merge (RList.ofList f)) {}).items`
                                          with `files = (class files of the trace).map apps ++ [src.apps]`;
    * `renderNode_apps_nodup`          — `info.apps` is duplicate-free (via `accumulate_inv`);
    * `renderNode_classes_eq_fold`     — `info.classes` = items of
                                          `(tr.map (·.2.classes) ++ [self.classes]).foldl UList.merge {}`
                                          (what accumulates are the *include lists* of the classes and
                                          of the node, not the names of the traced classes);
    * `renderNode_classes_nodup`       — `info.classes` is duplicate-free.

  Note: inside `namespace Reclass.C17` the name `Inv` is the list invariant of `Props/C17`; the
  inventory type is written `Reclass.Inv`.
-/
import Reclass.Lemmas.E2E2L
import Reclass.Props.C01
import Reclass.Props.C17
namespace Reclass
namespace C17
open E2E2

/-! ### Decoded files -/

theorem ofSrc_apps {loc : Option (List Str)} {src : ClassSrc} {n : NodeM}
    (h : NodeM.ofSrc loc src = .ok n) : n.apps = RList.ofList src.apps := by
  unfold NodeM.ofSrc at h
  simp only at h
  cases h1 : Mapping.ofYamlEntries src.params with
  | error e => simp [h1] at h
  | ok p => simp only [h1, Except.ok.injEq] at h; subst h; rfl

/-- `t` (a traced name with its decoded contents) is the class file `cs` of inventory `r`: the
file stored under the absolute form of the name (relative to the location `loc'` of the including
class), decoded at the file's own location. -/
def IsClassFile (r : Reclass.Inv) (t : TraceEntry) (cs : ClassSrc) : Prop :=
  ∃ loc' ci, findEntity (absClassName loc' t.1) r.classes = some (ci, .ok cs) ∧
    NodeM.ofSrc (some ci.loc) cs = .ok t.2

theorem isClassFile_apps {r : Reclass.Inv} {t : TraceEntry} {cs : ClassSrc} (h : IsClassFile r t cs) :
    t.2.apps = RList.ofList cs.apps := by
  obtain ⟨_, _, _, ho⟩ := h
  exact ofSrc_apps ho

/-- `csrcs` are the class files of the trace `tr`, entry by entry. -/
def FilesOf (r : Reclass.Inv) : List TraceEntry → List ClassSrc → Prop
  | [], [] => True
  | t :: ts, c :: cs => IsClassFile r t c ∧ FilesOf r ts cs
  | _, _ => False

theorem exists_filesOf {r : Reclass.Inv} :
    ∀ (tr : List TraceEntry), (∀ t ∈ tr, ∃ cs, IsClassFile r t cs) → ∃ csrcs, FilesOf r tr csrcs
  | [], _ => ⟨[], trivial⟩
  | t :: ts, h => by
    obtain ⟨c, hc⟩ := h t (List.mem_cons_self ..)
    obtain ⟨cs, hcs⟩ := exists_filesOf ts fun x hx => h x (List.mem_cons_of_mem _ hx)
    exact ⟨c :: cs, hc, hcs⟩

theorem filesOf_length {r : Reclass.Inv} : ∀ {tr : List TraceEntry} {csrcs : List ClassSrc},
    FilesOf r tr csrcs → csrcs.length = tr.length
  | [], [], _ => rfl
  | _ :: _, _ :: _, h => by simp only [List.length_cons, filesOf_length h.2]
  | [], _ :: _, h => h.elim
  | _ :: _, [], h => h.elim

/-- Every traced class is a decoded class file of the inventory. -/
theorem trace_entries_are_files {r : Reclass.Inv} {loc : Option (List Str)} {l seen : List Str} {root : NodeM}
    {seen' : List Str} {root' : NodeM} {tr : List TraceEntry}
    (h : Walk r loc l seen root seen' root' tr) :
    ∃ csrcs, FilesOf r tr csrcs := by
  apply exists_filesOf
  intro t ht
  obtain ⟨loc', hl⟩ := C01.trace_entries_loaded h t ht
  obtain ⟨ci, cs, hf, ho⟩ := readClass_some hl
  exact ⟨cs, loc', ci, hf, ho⟩

theorem filesOf_apps {r : Reclass.Inv} : ∀ {tr : List TraceEntry} {csrcs : List ClassSrc},
    FilesOf r tr csrcs → tr.map (·.2.apps) = csrcs.map fun cs => RList.ofList cs.apps
  | [], [], _ => rfl
  | _ :: _, _ :: _, h => by
    simp only [List.map_cons, filesOf_apps h.2, isClassFile_apps h.1]
  | [], _ :: _, h => h.elim
  | _ :: _, [], h => h.elim

/-! ### List facts -/

theorem RList.merge_empty (l : RList) : l.merge {} = l := rfl

theorem UList.merge_empty (l : UList) : l.merge {} = l := rfl

theorem UList.appendIfNew_of_mem {l : UList} {x : Str} (h : x ∈ l.items) : l.appendIfNew x = l := by
  simp [UList.appendIfNew, h]

/-- Merging a list all of whose items are already present changes nothing. -/
theorem UList.merge_of_subset {l o : UList} (h : ∀ x ∈ o.items, x ∈ l.items) : l.merge o = l := by
  unfold UList.merge
  generalize o.items = xs at h
  induction xs with
  | nil => rfl
  | cons x xs ih =>
    rw [List.foldl_cons, UList.appendIfNew_of_mem (h x (List.mem_cons_self ..))]
    exact ih fun y hy => h y (List.mem_cons_of_mem _ hy)

theorem UList.merge_merge_self (l o : UList) : (l.merge o).merge o = l.merge o :=
  UList.merge_of_subset fun _ hx => Reclass.UList.mem_merge.2 (Or.inr hx)

theorem UList.appendIfNew_nodup {l : UList} (x : Str) (h : l.items.Nodup) :
    (l.appendIfNew x).items.Nodup := by
  unfold UList.appendIfNew
  split
  · exact h
  · rename_i hx; exact nodup_append_singleton h hx

theorem UList.merge_nodup {l : UList} (o : UList) (h : l.items.Nodup) : (l.merge o).items.Nodup := by
  unfold UList.merge
  generalize o.items = xs
  induction xs generalizing l with
  | nil => exact h
  | cons x xs ih => exact ih (UList.appendIfNew_nodup x h)

theorem UList.foldl_merge_nodup (ls : List UList) {l : UList} (h : l.items.Nodup) :
    (ls.foldl UList.merge l).items.Nodup := by
  induction ls generalizing l with
  | nil => exact h
  | cons o os ih => exact ih (UList.merge_nodup o h)

/-! ### The node's lists are the folds over the trace -/

/-- Core statement: both lists at once, with the trace as a `Walk` derivation. -/
theorem renderNode_lists_eq_fold {fuel : Nat} {r : Reclass.Inv} {name : Str} {info : NodeInfoM}
    (h : renderNode fuel r name = .ok info) :
    ∃ (ninfo : EntityInfo) (src : ClassSrc) (self : NodeM) (seen : List Str) (root0 : NodeM)
      (tr : List TraceEntry),
      findEntity name r.nodes = some (ninfo, .ok src) ∧
      NodeM.ofSrc none src = .ok self ∧
      Walk r none self.classes.items [] {} seen root0 tr ∧
      info.apps = ((tr.map (·.2.apps) ++ [self.apps]).foldl RList.merge {}).items ∧
      info.classes = ((tr.map (·.2.classes) ++ [self.classes]).foldl UList.merge {}).items := by
  rw [renderNode_eq] at h
  cases hfe : findEntity name r.nodes with
  | none => simp [hfe] at h
  | some e =>
    obtain ⟨ninfo, (src | w)⟩ := e
    · simp only [hfe] at h
      obtain ⟨self, rc, bp, seen, root0, tr, fin, e1, _, _, hw, hm, _, ha, hcl, _⟩ := C01.render_sound h
      refine ⟨ninfo, src, self, seen, root0, tr, rfl, e1, hw, ?_, ?_⟩
      · rw [ha, mergeSeq_apps hm]
        simp only [List.foldl_append, List.foldl_map, List.foldl_cons, List.foldl_nil,
          RList.merge_empty]
      · rw [hcl, mergeSeq_classes hm]
        simp only [List.foldl_append, List.foldl_map, List.foldl_cons, List.foldl_nil,
          UList.merge_merge_self]
    · simp [hfe] at h

/-- **C17, end to end.**  When a node renders, its application list is obtained by folding
`RList.merge` — negations of the incoming list first, then its items, each appended only if new
(`C17.merge_eq`) — over the application lists of the traced classes, in trace (= merge) order,
followed by the node's own list, starting from the empty list. -/
theorem renderNode_apps_eq_fold {fuel : Nat} {r : Reclass.Inv} {name : Str} {info : NodeInfoM}
    (h : renderNode fuel r name = .ok info) :
    ∃ (ninfo : EntityInfo) (src : ClassSrc) (self : NodeM) (seen : List Str) (root0 : NodeM)
      (tr : List TraceEntry),
      findEntity name r.nodes = some (ninfo, .ok src) ∧
      NodeM.ofSrc none src = .ok self ∧
      Walk r none self.classes.items [] {} seen root0 tr ∧
      info.apps = ((tr.map (·.2.apps) ++ [self.apps]).foldl RList.merge {}).items := by
  obtain ⟨ninfo, src, self, seen, root0, tr, h1, h2, h3, h4, _⟩ := renderNode_lists_eq_fold h
  exact ⟨ninfo, src, self, seen, root0, tr, h1, h2, h3, h4⟩

/-- The same in terms of the instrumented model walk: the trace is what `walkClassesT` returns
(with any sufficient fuel `m`). -/
theorem renderNode_apps_eq_fold_traced {fuel : Nat} {r : Reclass.Inv} {name : Str} {info : NodeInfoM}
    (h : renderNode fuel r name = .ok info) :
    ∃ (ninfo : EntityInfo) (src : ClassSrc) (self : NodeM) (seen : List Str) (root0 : NodeM)
      (tr : List TraceEntry) (m : Nat),
      findEntity name r.nodes = some (ninfo, .ok src) ∧
      NodeM.ofSrc none src = .ok self ∧
      walkClassesT m r none self.classes.items [] {} = .ok (seen, root0, tr) ∧
      info.apps = ((tr.map (·.2.apps) ++ [self.apps]).foldl RList.merge {}).items := by
  obtain ⟨ninfo, src, self, seen, root0, tr, h1, h2, h3, h4⟩ := renderNode_apps_eq_fold h
  obtain ⟨m, hm⟩ := C01.walk_complete h3
  exact ⟨ninfo, src, self, seen, root0, tr, m, h1, h2, (hm m (Nat.le_refl m)).1, h4⟩

/-- The same over the raw `applications` entries of the files: `csrcs` are the class files of the
trace, in trace order (`FilesOf`, `IsClassFile`), `src` is the node file; the node's application list is the
accumulation of `C17.accumulate_inv` over `csrcs.map apps ++ [src.apps]`. -/
theorem renderNode_apps_eq_fold_files {fuel : Nat} {r : Reclass.Inv} {name : Str} {info : NodeInfoM}
    (h : renderNode fuel r name = .ok info) :
    ∃ (ninfo : EntityInfo) (src : ClassSrc) (self : NodeM) (seen : List Str) (root0 : NodeM)
      (tr : List TraceEntry) (csrcs : List ClassSrc),
      findEntity name r.nodes = some (ninfo, .ok src) ∧
      NodeM.ofSrc none src = .ok self ∧
      Walk r none self.classes.items [] {} seen root0 tr ∧
      FilesOf r tr csrcs ∧
      info.apps = ((csrcs.map ClassSrc.apps ++ [src.apps]).foldl
        (fun (acc : RList) (f : List Str) => acc.merge (RList.ofList f)) {}).items := by
  obtain ⟨ninfo, src, self, seen, root0, tr, h1, h2, h3, h4⟩ := renderNode_apps_eq_fold h
  obtain ⟨csrcs, hcs⟩ := trace_entries_are_files h3
  refine ⟨ninfo, src, self, seen, root0, tr, csrcs, h1, h2, h3, hcs, ?_⟩
  rw [h4, filesOf_apps hcs, ofSrc_apps h2]
  simp only [List.foldl_append, List.foldl_map, List.foldl_cons, List.foldl_nil]

/-- The accumulated application list of a rendered node satisfies the list invariant of C17 in its
items: **no application occurs twice**. -/
theorem renderNode_apps_nodup {fuel : Nat} {r : Reclass.Inv} {name : Str} {info : NodeInfoM}
    (h : renderNode fuel r name = .ok info) : info.apps.Nodup := by
  obtain ⟨_, src, _, _, _, _, csrcs, _, _, _, _, h5⟩ := renderNode_apps_eq_fold_files h
  rw [h5]
  exact (accumulate_inv (csrcs.map ClassSrc.apps ++ [src.apps])).1

/-- The class list of a rendered node is the fold of `UList.merge` (append each item that is
new) over the include lists of the traced classes, in trace order, followed by the node's own
include list.  (The base node, which carries the node's include list into the walk, and the node
itself both contribute `self.classes`; the second merge changes nothing.) -/
theorem renderNode_classes_eq_fold {fuel : Nat} {r : Reclass.Inv} {name : Str} {info : NodeInfoM}
    (h : renderNode fuel r name = .ok info) :
    ∃ (ninfo : EntityInfo) (src : ClassSrc) (self : NodeM) (seen : List Str) (root0 : NodeM)
      (tr : List TraceEntry),
      findEntity name r.nodes = some (ninfo, .ok src) ∧
      NodeM.ofSrc none src = .ok self ∧
      Walk r none self.classes.items [] {} seen root0 tr ∧
      info.classes = ((tr.map (·.2.classes) ++ [self.classes]).foldl UList.merge {}).items := by
  obtain ⟨ninfo, src, self, seen, root0, tr, h1, h2, h3, _, h5⟩ := renderNode_lists_eq_fold h
  exact ⟨ninfo, src, self, seen, root0, tr, h1, h2, h3, h5⟩

/-- The class list of a rendered node is duplicate-free. -/
theorem renderNode_classes_nodup {fuel : Nat} {r : Reclass.Inv} {name : Str} {info : NodeInfoM}
    (h : renderNode fuel r name = .ok info) : info.classes.Nodup := by
  obtain ⟨_, _, _, _, _, _, _, _, _, h4⟩ := renderNode_classes_eq_fold h
  rw [h4]
  exact UList.foldl_merge_nodup _ List.nodup_nil

/-! ### Non-vacuity -/

section Examples

private def ei (p : String) : EntityInfo := { path := [p.toList], loc := [] }

/-- `top` includes `c1` and `c2`; the application lists are
`c1: [a, b]`, `c2: [~a, c, b]`, `top: [d]`, node: `[a, ~d]`. -/
private def exApps : Reclass.Inv :=
  { classes :=
      [ ("top".toList, ei "top.yml", .ok { classes := ["c1".toList, "c2".toList], apps := ["d".toList] }),
        ("c1".toList, ei "c1.yml", .ok { apps := ["a".toList, "b".toList] }),
        ("c2".toList, ei "c2.yml", .ok { apps := ["~a".toList, "c".toList, "b".toList] }) ],
    nodes := [ ("n".toList, ei "n.yml", .ok { classes := ["top".toList], apps := ["a".toList, "~d".toList] }) ] }

private def listsOf (x : R NodeInfoM) : Option (List Str × List Str) :=
  match x with
  | .ok i => some (i.apps, i.classes)
  | .error _ => none

/-- The node renders; merge order is `c1, c2, top`, then the node:
`[a, b]` → (`~a`) `[b]` → `[b, c]` → `[b, c, d]` → (node: `a` again, `~d`) `[b, c, a]`. -/
example : listsOf (renderNode 30 exApps "n".toList) =
    some (["b".toList, "c".toList, "a".toList], ["c1".toList, "c2".toList, "top".toList]) := by
  decide +kernel

/-- The trace of the walk is `c1, c2, top` … -/
example : C01.summary (walkClassesT 10 exApps none ["top".toList] [] {}) =
    some (["top".toList, "c1".toList, "c2".toList], ["c1".toList, "c2".toList, "top".toList], []) := by
  decide +kernel

/-- … and the fold of the theorem over the raw file lists in that order gives the rendered list. -/
example : ([["a".toList, "b".toList], ["~a".toList, "c".toList, "b".toList], ["d".toList],
      ["a".toList, "~d".toList]].foldl (fun acc f => acc.merge (RList.ofList f)) ({} : RList)).items =
    ["b".toList, "c".toList, "a".toList] := by decide +kernel

/-- The theorems apply (the premise is satisfiable). -/
example : ∃ info, renderNode 30 exApps "n".toList = .ok info ∧ info.apps.Nodup ∧ info.classes.Nodup := by
  cases h : renderNode 30 exApps "n".toList with
  | ok info => exact ⟨info, rfl, renderNode_apps_nodup h, renderNode_classes_nodup h⟩
  | error e =>
    have : listsOf (renderNode 30 exApps "n".toList) ≠ none := by decide +kernel
    rw [h] at this
    exact absurd rfl this

end Examples

end C17
end Reclass
