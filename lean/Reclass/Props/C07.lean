/-
  C07 — Successfully rendered parameters are plain data.

  "Every value is null, bool, number, string, list or mapping, no value still holds a
  reference that should have been resolved, no multi-layer artefact is visible, and a key
  written with a leading = or ~ marker appears without it.  Rendering already rendered
  parameters again leaves them unchanged."

  Property theorems only; definitions are in `Spec/Closed`, helper lemmas and the inductions
  over the 13 mutually recursive evaluator functions in `Lemmas/ClosedL`.  All statements hold
  for every input and every amount of fuel (no size bound).

  Hypotheses.  The code strips one leading `=`/`~` from a `String` key on *every* pass
  (merge, interpolate, flatten).  A stored key that still starts with a marker (source key with
  two or more markers) can therefore collide with a sibling on a later pass and leave a layer
  list behind (recorded finding; `wf_needed` below is the machine-checked witness).  The
  theorems carry `WF` ("every key in every mapping is marker-free and unique") instead;
  `ofYaml_wf` shows that every YAML document whose keys have at most one marker decodes to a
  `WF` value and `merge_wf` that merging keeps it.

  Requested statements that are FALSE of the model (hence of the Rust code) as asked:
   * `flat_closed` with hypothesis `NoStr v ∧ WF v`: `Value::flattened` does not flatten
     below a layer it merges (`flat_not_closed₁`, `flat_not_closed₂`).  Proved instead:
     `flat_closed_partial` (input `Closed`), `flat_noStr` (`NoStr ∧ WF` is preserved); the
     main theorem only needs the former because `interp` already returns closed data.
   * `interpStrOrVl` never returning `String`/`ValueList` unconditionally:
     `interpStrOrVl_str_counterexample`, `resolve_panic_reachable` (a hand-built layer list
     nested directly in a layer list).  Proved under "no nested layer lists" (`NoNest`), which
     `ofYaml_noNest` shows holds for everything decoded from YAML.
-/
import Reclass.Lemmas.ClosedL
namespace Reclass
namespace C07

/-! ### 1. `interpolate` never returns `String`/`ValueList`; the `unreachable!` of `Token::resolve` -/

/-- **No hypotheses.** Whatever `Value::interpolate` returns is neither an unparsed
`Value::String` nor a `Value::ValueList` (top-level constructor). -/
theorem interp_never_str_vl {n : Nat} {root : Mapping} {v r : Value} {st st' : RState}
    (h : interp n root v st = .ok (r, st')) : (∀ s, r ≠ .str s) ∧ (∀ l, r ≠ .vl l) :=
  (notStrVl_iff r).1 ((interp_tokRender_notStrVl n).1 _ _ _ _ _ h)

/-- **No hypotheses.** The same for `Token::render`. -/
theorem tokRender_never_str_vl {n : Nat} {root : Mapping} {t : Token} {r : Value}
    {st st' : RState} (h : tokRender n root t st = .ok (r, st')) :
    (∀ s, r ≠ .str s) ∧ (∀ l, r ≠ .vl l) :=
  (notStrVl_iff r).1 ((interp_tokRender_notStrVl n).2 _ _ _ _ _ h)

/-- The unconditional claim for `interpolate_string_or_valuelist` is false: a layer list nested
directly in a layer list is flattened by `merge` without interpolating its `String` layers. -/
theorem interpStrOrVl_str_counterexample :
    interpStrOrVl 5 {} (.vl [.vl [.str "x".toList]]) {} = .ok (.str "x".toList, {}) := by rfl

/-- … and with such a (hand-built) value in the parameters the `unreachable!` in
`Token::resolve` is reached: resolving `${a:k}`. -/
theorem resolve_panic_reachable :
    tokResolve 10 ⟨[(.str "a".toList, .vl [.vl [.str "x".toList]])], [], []⟩
      (.ref [.lit "a:k".toList]) {} = .error (.panic .resolveNewvStrVl) := by rfl

/-- `interpolate_string_or_valuelist` returns neither `String` nor `ValueList` provided every
layer that is itself a layer list contains no unparsed string (recursively; `LayersOK`). -/
theorem interpStrOrVl_never_str_vl {n : Nat} {root : Mapping} {v newv : Value} {st st' : RState}
    (hv : ∀ l, v = .vl l → ∀ x ∈ l, ∀ l', x = .vl l' → LayersOK l')
    (h : interpStrOrVl n root v st = .ok (newv, st')) :
    (∀ s, newv ≠ .str s) ∧ (∀ l, newv ≠ .vl l) :=
  (notStrVl_iff newv).1 (interpStrOrVl_notStrVl hv h)

/-- In particular when no layer of `v` is itself a layer list — what `Mapping::insert` builds. -/
theorem interpStrOrVl_never_str_vl_flat {n : Nat} {root : Mapping} {v newv : Value}
    {st st' : RState} (hv : ∀ l, v = .vl l → ∀ x ∈ l, x.isVl = false)
    (h : interpStrOrVl n root v st = .ok (newv, st')) :
    (∀ s, newv ≠ .str s) ∧ (∀ l, newv ≠ .vl l) := by
  refine interpStrOrVl_never_str_vl ?_ h
  intro l hl x hx l' hl'
  have := hv l hl x hx
  subst hl'
  simp [Value.isVl] at this

/-- The lookup loop of `Token::resolve` never hits its `unreachable!("We should have rendered
Value::String and Value::ValueList into some other variant")` when root and start value are
well-formed and free of nested layer lists. -/
theorem descend_no_panic {n : Nat} {root : Mapping} {v : Value} {segs : List Str} {st : RState}
    {path : Str} (hr : WF root.toValue) (hrn : NoNest root.toValue) (hv : WF v) (hvn : NoNest v) :
    descend n root v segs st path ≠ .error (.panic .resolveNewvStrVl) :=
  fun h => (noRPInv n).descend _ _ _ _ _ _ ⟨hr, hrn⟩ ⟨hv, hvn⟩ h rfl

/-- `Token::resolve` as a whole never fails with that panic. -/
theorem tokResolve_no_panic {n : Nat} {root : Mapping} {t : Token} {st : RState}
    (hr : WF root.toValue) (hrn : NoNest root.toValue) :
    tokResolve n root t st ≠ .error (.panic .resolveNewvStrVl) :=
  fun h => (noRPInv n).tokResolve _ _ _ _ ⟨hr, hrn⟩ h rfl

/-- Rendering parameters never fails with that panic. -/
theorem render_no_resolve_panic {n : Nat} {m : Mapping}
    (hm : WF m.toValue) (hn : NoNest m.toValue) :
    renderParamsF n m ≠ .error (.panic .resolveNewvStrVl) := by
  intro h
  unfold renderParamsF renderedF at h
  cases h1 : interp n m m.toValue {} with
  | error e =>
    simp only [h1, Except.error.injEq] at h
    exact (noRPInv n).interp _ _ _ _ ⟨hm, hn⟩ ⟨hm, hn⟩ h1 h
  | ok p =>
    obtain ⟨v, st⟩ := p
    simp only [h1] at h
    cases h2 : flat v st with
    | error e =>
      simp only [h2, Except.error.injEq] at h
      exact flat_notRP _ _ _ h2 h
    | ok r =>
      simp only [h2] at h
      split at h <;> simp_all

/-- Everything decoded from YAML is free of nested layer lists. -/
theorem ofYaml_noNest {y : Yaml} {v : Value} (h : Value.ofYaml y = .ok v) : NoNest v :=
  Reclass.ofYaml_noNest y v h

/-! ### 2. `flattened` -/

/-- Requested `flat_closed` (`NoStr v → WF v → flat v st = .ok r → Closed r`) is false:
`flattened` of a layer list does not flatten inside the layer it keeps … -/
theorem flat_not_closed₁ :
    NoStr (.vl [.seq [.vl [.null, .bool true]]]) ∧ WF (.vl [.seq [.vl [.null, .bool true]]]) ∧
    flat (.vl [.seq [.vl [.null, .bool true]]]) {} = .ok (.seq [.vl [.null, .bool true]]) ∧
    ¬ Closed (.seq [.vl [.null, .bool true]]) := by
  refine ⟨by simp [NoStr, NoStrL], by simp [WF, WFL], rfl, by simp [Closed, ClosedL]⟩

/-- … and merging two mapping layers leaves the layer lists that `Mapping::merge` builds. -/
theorem flat_not_closed₂ :
    let v := Value.vl [.map [(.str "a".toList, .bool true)] [] [],
                       .map [(.str "a".toList, .bool false)] [] []]
    NoStr v ∧ WF v ∧
    flat v {} = .ok (.map [(.str "a".toList, .vl [.bool true, .bool false])] [] []) ∧
    ¬ Closed (.map [(.str "a".toList, .vl [.bool true, .bool false])] [] []) := by
  refine ⟨by simp [NoStr, NoStrL, NoStrEs], ?_, rfl, by simp [Closed, ClosedEs]⟩
  simp only [WF, WFL, WFEs, keys]
  refine ⟨⟨⟨by decide, trivial, trivial⟩, by decide⟩, ⟨⟨by decide, trivial, trivial⟩, by decide⟩, trivial⟩

/-- `flattened` of closed, well-formed data is closed and well-formed (weaker hypothesis than
requested, see above; this is all the main theorem needs). -/
theorem flat_closed_partial {v r : Value} {st : RState} (hc : Closed v) (hw : WF v)
    (h : flat v st = .ok r) : Closed r ∧ WF r :=
  ⟨flat_closed v st r hc hw h, flat_wf v st r hw h⟩

/-- `flattened` never re-introduces an unparsed string and keeps well-formedness, for every
string-free input (with or without layer lists). -/
theorem flat_noStr {v r : Value} {st : RState} (hs : NoStr v) (hw : WF v)
    (h : flat v st = .ok r) : NoStr r ∧ WF r :=
  ⟨noStrPred.flat_pres v st r hs h, flat_wf v st r hw h⟩

/-- `flattened` keeps well-formedness of any value. -/
theorem flat_wf {v r : Value} {st : RState} (hw : WF v) (h : flat v st = .ok r) : WF r :=
  Reclass.flat_wf v st r hw h

/-! ### 3. `interpolate` -/

/-- With well-formed parameters, whatever `Value::interpolate` returns for a well-formed value is
closed (no unparsed string, no layer list at any depth) and well-formed. -/
theorem interp_closed {n : Nat} {root : Mapping} {v r : Value} {st st' : RState}
    (hr : WF root.toValue) (hv : WF v) (h : interp n root v st = .ok (r, st')) :
    Closed r ∧ WF r :=
  (interpInv n).interp _ _ _ _ _ hr hv h

/-- The same for `Token::render` (any token). -/
theorem tokRender_closed {n : Nat} {root : Mapping} {t : Token} {r : Value} {st st' : RState}
    (hr : WF root.toValue) (h : tokRender n root t st = .ok (r, st')) : Closed r ∧ WF r :=
  (interpInv n).tokRender _ _ _ _ _ hr h

/-! ### 4. Rendered parameters are plain data -/

/-- `Value::rendered`: closed and well-formed. -/
theorem rendered_closed {n : Nat} {root : Mapping} {v r : Value}
    (hr : WF root.toValue) (hv : WF v) (h : renderedF n v root = .ok r) : Closed r ∧ WF r := by
  unfold renderedF at h
  cases h1 : interp n root v {} with
  | error e => simp [h1] at h
  | ok p =>
    obtain ⟨v', st⟩ := p
    simp only [h1] at h
    have := interp_closed hr hv h1
    exact flat_closed_partial this.1 this.2 h

/-- **Main theorem.** Successfully rendered parameters contain no unresolved string and no
layer list at any position (`Closed`: only null, bool, number, literal string, sequence,
mapping), and every key of every mapping in them is free of `=`/`~` markers and unique. -/
theorem render_closed {n : Nat} {m out : Mapping} (hm : WF m.toValue)
    (h : renderParamsF n m = .ok out) : Closed out.toValue ∧ WF out.toValue := by
  unfold renderParamsF at h
  cases h1 : renderedF n m.toValue m with
  | error e => simp [h1] at h
  | ok r =>
    simp only [h1] at h
    have := rendered_closed hm hm h1
    cases r with
    | map es ck ok =>
      simp only [Except.ok.injEq] at h
      subst h
      exact this
    | _ => simp at h

/-- Rendering keeps the top-level keys, in order, and a key is flagged constant (override)
afterwards iff it was flagged before and is present. -/
theorem render_keys {n : Nat} {m out : Mapping} (hm : WF m.toValue)
    (h : renderParamsF n m = .ok out) :
    keys out.es = keys m.es ∧
    (∀ x, x ∈ out.ck ↔ x ∈ m.ck ∧ x ∈ keys m.es) ∧
    (∀ x, x ∈ out.ok ↔ x ∈ m.ok ∧ x ∈ keys m.es) :=
  renderParamsF_shape hm h

/-- The `WF` hypothesis cannot be dropped: a stored key that still carries a marker (`=a`, from
a source key `==a`) collides with its sibling `a` during rendering and a layer list survives. -/
theorem wf_needed :
    renderParamsF 50 ⟨[(.str "a".toList, .map [(.str "x".toList, .bool true)] [] []),
                       (.str "=a".toList, .map [(.str "x".toList, .bool false)] [] [])], [], []⟩
      = .ok ⟨[(.str "a".toList, .map [(.str "x".toList, .vl [.bool true, .bool false])] [] [])],
             [.str "a".toList], []⟩ := by rfl

/-! ### 5. Where `WF` comes from -/

/-- A key is clean iff it is not a `String` key starting with `=` or `~`. -/
theorem cleanKey_iff (k : Key) :
    CleanKey k ↔ ∀ c cs, k = .str (c :: cs) → c ≠ '=' ∧ c ≠ '~' :=
  Reclass.cleanKey_iff k

/-- Every YAML document whose string keys carry at most one leading marker decodes to a
well-formed value (equal keys after stripping are collected into a layer list, which is fine). -/
theorem ofYaml_wf {y : Yaml} {v : Value} (hy : SingleMarker y) (h : Value.ofYaml y = .ok v) :
    WF v :=
  Reclass.ofYaml_wf y v hy h

/-- `Mapping::merge` of well-formed mappings is well-formed. -/
theorem merge_wf {a b c : Mapping} (ha : a.WF) (hb : b.WF) (h : Mapping.merge a b = .ok c) :
    c.WF :=
  Reclass.merge_wf ha hb h

/-- `Value::merge` of well-formed values is well-formed. -/
theorem mergeV_wf {a b c : Value} {st : RState} (ha : WF a) (hb : WF b)
    (h : mergeV a b st = .ok c) : WF c :=
  Reclass.mergeV_wf a b st c ha hb h

/-! ### 6. Rendering rendered parameters again changes nothing -/

/-- Interpolating closed, well-formed data with fuel at least its size succeeds, leaves the
resolve state alone and returns the same data up to the flag sets. -/
theorem interp_closed_id {n : Nat} {root : Mapping} {v : Value} {st : RState}
    (hc : Closed v) (hw : WF v) (hn : size v ≤ n) :
    ∃ v', interp n root v st = .ok (v', st) ∧ erase v' = erase v :=
  interp_id v n root st hc hw hn

/-- Flattening closed, well-formed data succeeds and returns the same data up to the flag sets. -/
theorem flat_closed_id {v : Value} {st : RState} (hc : Closed v) (hw : WF v) :
    ∃ r, flat v st = .ok r ∧ erase r = erase v :=
  flat_id v st hc hw

/-- Rendering closed, well-formed parameters (with fuel at least their size) succeeds and returns
them unchanged: same keys in the same order, same values at every depth (`erase` forgets only
the order/contents of the flag sets below), and the same top-level flags on present keys. -/
theorem render_idempotent {n : Nat} {out : Mapping} (hc : Closed out.toValue)
    (hw : WF out.toValue) (hn : size out.toValue ≤ n) :
    ∃ out', renderParamsF n out = .ok out' ∧ erase out'.toValue = erase out.toValue ∧
      (∀ x, x ∈ out'.ck ↔ x ∈ out.ck ∧ x ∈ keys out.es) ∧
      (∀ x, x ∈ out'.ok ↔ x ∈ out.ok ∧ x ∈ keys out.es) := by
  obtain ⟨r, h1, h2⟩ := interp_id out.toValue n out {} hc hw hn
  obtain ⟨r2, h3, h4⟩ := flat_id r {} (closed_of_erase_eq h2 hc) (wf_of_erase_eq h2 hw)
  have h5 : erase r2 = erase out.toValue := h4.trans h2
  cases r2 with
  | map es ck ok =>
    have hr : renderParamsF n out = .ok ⟨es, ck, ok⟩ := by
      simp only [renderParamsF, renderedF, h1, h3]
    refine ⟨⟨es, ck, ok⟩, hr, h5, (renderParamsF_shape hw hr).2⟩
  | _ => simp [erase, Mapping.toValue] at h5

/-- **Rendering twice = rendering once.** If rendering well-formed parameters succeeds, rendering
the result again (any fuel ≥ its size) succeeds and gives the same parameters: same entries at
every depth up to the flag sets below the top level, and exactly the same top-level flags. -/
theorem render_twice {n k : Nat} {m out : Mapping} (hm : WF m.toValue)
    (h : renderParamsF n m = .ok out) (hk : size out.toValue ≤ k) :
    ∃ out', renderParamsF k out = .ok out' ∧ erase out'.toValue = erase out.toValue ∧
      (∀ x, x ∈ out'.ck ↔ x ∈ out.ck) ∧ (∀ x, x ∈ out'.ok ↔ x ∈ out.ok) := by
  obtain ⟨hc, hw⟩ := render_closed hm h
  obtain ⟨hk1, hk2, hk3⟩ := renderParamsF_shape hm h
  obtain ⟨out', h1, h2, h3, h4⟩ := render_idempotent hc hw hk
  refine ⟨out', h1, h2, ?_, ?_⟩
  · intro x; rw [h3 x, hk1]; exact ⟨fun a => a.1, fun a => ⟨a, ((hk2 x).1 a).2⟩⟩
  · intro x; rw [h4 x, hk1]; exact ⟨fun a => a.1, fun a => ⟨a, ((hk3 x).1 a).2⟩⟩

/-! ### Non-vacuity -/

/-- A concrete well-formed mapping with a reference and two layers. -/
def demo : Mapping :=
  ⟨[(.str "a".toList, .vl [.map [(.str "x".toList, .num (.int 1))] [] [],
                            .map [(.str "x".toList, .num (.int 2)),
                                  (.str "y".toList, .str "${a:x}".toList)] [] []])],
   [.str "a".toList], []⟩

example : WF demo.toValue := by
  simp only [demo, Mapping.toValue, WF, WFL, WFEs, keys]
  refine ⟨⟨by decide, ⟨⟨⟨by decide, trivial, trivial⟩, by decide⟩,
    ⟨⟨by decide, trivial, by decide, trivial, trivial⟩, by decide⟩, trivial⟩, trivial⟩, by decide⟩

/-- JSON text of the rendered parameters (only used to check concrete renders by kernel
evaluation; `Value` has no decidable equality). -/
def renderJson (n : Nat) (m : Mapping) : Option Str :=
  match renderParamsF n m with
  | .ok out => (match jsonOf out.toValue with | .ok s => some s | .error _ => none)
  | .error _ => none

/-- The render succeeds: layers merged, reference resolved, result closed. -/
example : renderJson 50 demo = some "{\"a\":{\"x\":2,\"y\":2}}".toList := by decide +kernel

example : renderParamsF 50 ⟨[(.str "a".toList, .str "x".toList)], [], []⟩ =
    .ok ⟨[(.str "a".toList, .lit "x".toList)], [], []⟩ := by rfl

example : renderParamsF 50 ⟨[(.str "a".toList, .str "x".toList),
                             (.str "b".toList, .str "${a}".toList)], [], []⟩ =
    .ok ⟨[(.str "a".toList, .lit "x".toList), (.str "b".toList, .lit "x".toList)], [], []⟩ := by rfl

/-- A YAML document with a marked key satisfies `SingleMarker`, decodes, and is `WF`. -/
example : SingleMarker (.map [(.str "~a".toList, .str "v".toList), (.str "b".toList, .null)]) := by
  simp only [SingleMarker, SingleMarkerEs, Yaml.keyOK]
  exact ⟨by decide, trivial, by decide, trivial, trivial⟩

example : Value.ofYaml (.map [(.str "~a".toList, .str "v".toList), (.str "b".toList, .null)]) =
    .ok (.map [(.str "a".toList, .str "v".toList), (.str "b".toList, .null)] [] [.str "a".toList]) := by
  rfl

/-- `==a` is rejected by `SingleMarker`. -/
example : ¬ SingleMarker (.map [(.str "==a".toList, .null)]) := by
  simp only [SingleMarker, SingleMarkerEs, Yaml.keyOK]
  intro h; exact absurd h.1 (by decide)

/-- Rendering the rendered `demo` again: unchanged. -/
example : renderParamsF 50 ⟨[(.str "a".toList, .map [(.str "x".toList, .num (.int 2)),
                                  (.str "y".toList, .num (.int 2))] [] [])],
         [.str "a".toList], []⟩ =
    .ok ⟨[(.str "a".toList, .map [(.str "x".toList, .num (.int 2)),
                                  (.str "y".toList, .num (.int 2))] [] [])],
         [.str "a".toList], []⟩ := by rfl

end C07
end Reclass
