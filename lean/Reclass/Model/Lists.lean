/-
  Reclass.Model.Lists — `src/list/{mod,unique,removable}.rs`.
-/
import Reclass.Model.Basic
namespace Reclass

/-- `UniqueList`: insertion-ordered set of strings. -/
structure UList where
  items : List Str := []
  deriving Repr, Inhabited, DecidableEq

/-- `UniqueList::append_if_new`. -/
def UList.appendIfNew (l : UList) (x : Str) : UList :=
  if x ∈ l.items then l else { items := l.items ++ [x] }

/-- `UniqueList::merge` / `merge_from` (both iterate `other.items` in order). -/
def UList.merge (l other : UList) : UList :=
  other.items.foldl UList.appendIfNew l

/-- `From<Vec<String>> for UniqueList`. -/
def UList.ofList (xs : List Str) : UList := xs.foldl UList.appendIfNew {}

/-- `RemovableList`. -/
structure RList where
  items : List Str := []
  negs : List Str := []
  deriving Repr, Inhabited, DecidableEq

/-- `Vec::remove(position(x))`: removes the first occurrence. -/
def removeFirst (x : Str) : List Str → List Str
  | [] => []
  | y :: ys => if y = x then ys else y :: removeFirst x ys

/-- `RemovableList::handle_negation`. -/
def RList.handleNegation (l : RList) (n : Str) : RList :=
  if n ∈ l.items then { l with items := removeFirst n l.items }
  else if n ∈ l.negs then l
  else { l with negs := l.negs ++ [n] }

/-- `RemovableList::append_if_new`. -/
def RList.appendIfNew (l : RList) (x : Str) : RList :=
  match x with
  | '~' :: n => l.handleNegation n
  | _ =>
    if x ∈ l.negs then { l with negs := removeFirst x l.negs }
    else if x ∈ l.items then l
    else { l with items := l.items ++ [x] }

/-- `RemovableList::merge_impl`: negations first, then items. -/
def RList.merge (l other : RList) : RList :=
  other.items.foldl RList.appendIfNew (other.negs.foldl RList.handleNegation l)

/-- `From<Vec<String>> for RemovableList`. -/
def RList.ofList (xs : List Str) : RList := xs.foldl RList.appendIfNew {}

end Reclass
