/-
  Reclass.Model.Py — `Value::as_py_obj` / `Mapping::as_py_dict` (`src/types/value.rs`,
  `src/types/mapping.rs`): conversion of rendered data into native Python objects.
  `PyDict::set_item` identifies keys by Python equality (`True == 1`, `False == 0`).
  PyO3 and CPython themselves are outside the model.
-/
import Reclass.Model.Eval
namespace Reclass

inductive PyObj where
  | none
  | bool (b : Bool)
  | int (i : Int)
  | float (tok : Str)
  | str (s : Str)
  | list (l : List PyObj)
  | dict (es : List (PyObj × PyObj))
  deriving Repr, Inhabited

/-- Numeric value of a key object that Python compares numerically (bool is an int). -/
def PyObj.keyNum : PyObj → Option Int
  | .bool true => some 1
  | .bool false => some 0
  | .int i => some i
  | _ => Option.none

/-- Python `==` on the scalar objects that occur as keys. Float keys are compared by token
only (numeric float/int identification is not modelled; the generator produces no float keys). -/
def PyObj.keyEq (a b : PyObj) : Bool :=
  match a.keyNum, b.keyNum with
  | some x, some y => x == y
  | Option.none, Option.none =>
    (match a, b with
     | .none, .none => true
     | .str s, .str t => s == t
     | .float s, .float t => s == t
     | _, _ => false)
  | _, _ => false

/-- `PyDict::set_item`: an equal key keeps its object and position, the value is replaced. -/
def pyDictSet (k v : PyObj) : List (PyObj × PyObj) → List (PyObj × PyObj)
  | [] => [(k, v)]
  | (k', v') :: rest => if k'.keyEq k then (k', v) :: rest else (k', v') :: pyDictSet k v rest

def Key.toPy : Key → PyObj
  | .str s => .str s
  | .lit s => .str s
  | .bool b => .bool b
  | .num (.int i) => .int i
  | .num (.float y _) => .float y
  | .null => .none

mutual
/-- `Value::as_py_obj`. -/
def toPy : Value → R PyObj
  | .null => .ok .none
  | .bool b => .ok (.bool b)
  | .num (.int i) => .ok (.int i)
  | .num (.float y _) => .ok (.float y)
  | .str s => .ok (.str s)
  | .lit s => .ok (.str s)
  | .seq l =>
    match toPyL l with
    | .error e => .error e
    | .ok xs => .ok (.list xs)
  | .map es _ _ =>
    match toPyEs es [] with
    | .error e => .error e
    | .ok d => .ok (.dict d)
  | .vl _ => .error (.panic .pyVl)
def toPyL : List Value → R (List PyObj)
  | [] => .ok []
  | v :: vs =>
    match toPy v with
    | .error e => .error e
    | .ok x => match toPyL vs with
      | .error e => .error e
      | .ok xs => .ok (x :: xs)
/-- `Mapping::as_py_dict`. -/
def toPyEs : List (Key × Value) → List (PyObj × PyObj) → R (List (PyObj × PyObj))
  | [], acc => .ok acc
  | (k, v) :: rest, acc =>
    match toPy v with
    | .error e => .error e
    | .ok x => toPyEs rest (pyDictSet k.toPy x acc)
end

end Reclass
