/-
  Reclass.Model.Config — `src/config.rs` as a state machine: `Config::new`, `set_option`
  (on a post-YAML `(key, value)` pair), `load_from_file` / `from_dict` (= fold of
  `set_option`, then compile), `set_ignore_class_notfound_regexp`, the compat-flag setters of
  `Reclass`, `is_class_ignored`.

  Outside the model, supplied with each request: the text `serde_yaml::to_string(v).trim()`
  of an option value (`vstr`), and regular expressions — patterns are restricted to the
  sub-language of `Pat` (see `Model/Node`), which the model compiles and matches itself.
-/
import Reclass.Model.Discover
namespace Reclass

/-- A configuration as the instance reports it (`reported…`) and as it behaves
(`compiled`: the patterns the current `RegexSet` was built from). -/
structure ConfigM where
  inventoryPath : Str := []
  nodesPath : Str := []
  classesPath : Str := []
  ignoreClassNotfound : Bool := false
  composeNodeName : Bool := false
  reported : List Str := [".*".toList]
  compiled : List Pat := [.any]
  literalDots : Bool := false
  deriving Repr, Inhabited, DecidableEq

/-- `PathBuf::push` for the simple paths the generator produces (no trailing separators):
an absolute argument replaces the path. -/
def pathPush (p : Str) (x : Str) : Str :=
  if x.head? = some '/' then x
  else if p.isEmpty then x
  else if p.getLast? = some '/' then p ++ x
  else p ++ ['/'] ++ x

/-- Components of a simple path (split at '/', empty pieces dropped). -/
def pathComponents (p : Str) : List Str := (splitOn '/' p).filter (fun s => !s.isEmpty)

/-- `to_lexical_normal(p, true).display()`: drop `.` components (keeping a leading one), let
`..` pop the previous component. -/
def lexicalNormal (p : Str) : Str :=
  let isAbs := p.head? = some '/'
  let comps := pathComponents p
  let lead : Bool := !isAbs && comps.head? = some ['.']
  let step (acc : List Str) (c : Str) : List Str :=
    if c = ['.'] then acc
    else if c = ['.', '.'] then dropLast acc
    else acc ++ [c]
  let body := comps.foldl step []
  let body := if lead then ['.'] :: body else body
  (if isAbs then ['/'] else []) ++ joinWith ['/'] body

def isPrefixComps (a b : List Str) : Bool := a.length ≤ b.length && b.take a.length == a

/-- `Config::new` with an inventory path (the constructor always passes one). -/
def ConfigM.new (inv : Str) (nodes classes : Option Str) (ignore : Option Bool) : R ConfigM :=
  let npath := pathPush inv (nodes.getD "nodes".toList)
  let cpath := pathPush inv (classes.getD "classes".toList)
  let nc := pathComponents npath
  let cc := pathComponents cpath
  let absEq := (npath.head? = some '/') == (cpath.head? = some '/')
  if absEq && (isPrefixComps nc cc || isPrefixComps cc nc) then .error (.config "overlapping".toList)
  else .ok { inventoryPath := inv, nodesPath := lexicalNormal npath, classesPath := lexicalNormal cpath,
             ignoreClassNotfound := ignore.getD false }

/-- Parse one pattern of the modelled sub-language (`none`: outside the sub-language). -/
/- non-ASCII characters are literals for the regex crate as well (no `x` flag is used) -/
def isWordCharM (c : Char) : Bool := c.isAlphanum || c = '_' || c = '-' || c.val ≥ 128

def litTextM : Str → Option Str
  | [] => some []
  | '\\' :: '.' :: rest => (litTextM rest).map (fun r => '.' :: r)
  | c :: rest => if isWordCharM c then (litTextM rest).map (fun r => c :: r) else none

def Pat.ofStr (s : Str) : Option Pat :=
  if s = ".*".toList then some .any
  else if s = "(".toList || s = "[a".toList || s = "*".toList then some .invalid
  else
    let (anchS, body) := match s with | '^' :: r => (true, r) | r => (false, r)
    let (anchE, body) := match body.reverse with | '$' :: r => (true, r.reverse) | _ => (false, body)
    match litTextM body with
    | none => none
    | some t =>
      some (match anchS, anchE with
        | true, true => .exact t
        | true, false => .pfx t
        | false, true => .sfx t
        | false, false => .sub t)

/-- `RegexSet::new(patterns)`: fails if any pattern does not compile. -/
def compilePats (ps : List Str) : R (List Pat) :=
  let parsed := ps.map Pat.ofStr
  if parsed.any (· == none) then .error (.unmodelled "pattern outside the modelled regex sub-language".toList)
  else
    let pats := parsed.filterMap id
    if pats.contains .invalid then .error (.config "regex".toList) else .ok pats

/-- `Config::compile_ignore_class_notfound_patterns`. -/
def ConfigM.compile (c : ConfigM) : R ConfigM :=
  match compilePats c.reported with
  | .error e => .error e
  | .ok ps => .ok { c with compiled := ps }

/-- Parent directory of a simple path string (`Path::with_file_name` pops the file name). -/
def pathParent (p : Str) : Str :=
  let comps := splitOn '/' p
  joinWith ['/'] (dropLast comps)

/-- `cfg_path.with_file_name(vstr)`. -/
def withFileName (cfgPath vstr : Str) : Str := pathPush (pathParent cfgPath) vstr

/-- The entry loop of the `ignore_class_notfound_regexp` arm. -/
def collectPatterns : List Yaml → List Str → R (List Str)
  | [], acc => .ok acc
  | .str s :: rest, acc => collectPatterns rest (acc ++ [s])
  | _ :: _, _ => .error (.config "ignore_class_notfound_regexp entry".toList)

def isCompatFlag (s : Str) : Bool := Extracted.compatFlagSpellings.any (fun x => x.toList == s)

/-- The entry loop of the `reclass_rs_compat_flags` arm (unknown spellings are ignored). -/
def collectFlags : List Yaml → Bool → R Bool
  | [], acc => .ok acc
  | .str s :: rest, acc => collectFlags rest (acc || isCompatFlag s)
  | _ :: _, _ => .error (.config "compat flag".toList)

/-- The text of an option value: a YAML string is used as it is (never its serialised form, which would add quotes
to strings that look like other YAML types); any other value through its YAML text
`vstr = serde_yaml::to_string(v).trim()`. -/
def optText (v : Yaml) (vstr : Str) : Str :=
  match v with
  | .str s => s
  | _ => vstr

/-- `Config::set_option` on a post-YAML value; `vstr` is `serde_yaml::to_string(v).trim()`. -/
def ConfigM.setOption (c : ConfigM) (cfgPath : Str) (k : Str) (v : Yaml) (vstr : Str) : R ConfigM :=
  if k = "nodes_uri".toList then .ok { c with nodesPath := withFileName cfgPath (optText v vstr) }
  else if k = "classes_uri".toList then .ok { c with classesPath := withFileName cfgPath (optText v vstr) }
  else if k = "ignore_class_notfound".toList then
    match v with
    | .bool b => .ok { c with ignoreClassNotfound := b }
    | _ => .error (.config "ignore_class_notfound".toList)
  else if k = "ignore_class_notfound_regexp".toList then
    match v with
    | .seq l =>
      -- the list is cleared, then entries are pushed until the first non-string
      match collectPatterns l [] with
      | .error e => .error e
      | .ok ps => .ok { c with reported := ps }
    | _ => .error (.config "ignore_class_notfound_regexp".toList)
  else if k = "compose_node_name".toList then
    match v with
    | .bool b => .ok { c with composeNodeName := b }
    | _ => .error (.config "compose_node_name".toList)
  else if k = "reclass_rs_compat_flags".toList then
    match v with
    | .seq l =>
      match collectFlags l c.literalDots with
      | .error e => .error e
      | .ok b => .ok { c with literalDots := b }
    | _ => .error (.config "reclass_rs_compat_flags".toList)
  else .ok c   -- unknown options are ignored

/-- One option as it arrives from a config file or dict. -/
structure Opt where
  key : Str
  val : Yaml
  vstr : Str
  deriving Repr, Inhabited

def ConfigM.setOptions (c : ConfigM) (cfgPath : Str) : List Opt → R ConfigM
  | [] => .ok c
  | o :: rest =>
    match c.setOption cfgPath o.key o.val o.vstr with
    | .error e => .error e
    | .ok c' => ConfigM.setOptions c' cfgPath rest

/-- `Config::load_from_file` after reading and parsing the file, and `Config::from_dict`:
fold `set_option`, then compile the patterns. -/
def ConfigM.load (c : ConfigM) (cfgPath : Str) (opts : List Opt) : R ConfigM :=
  match c.setOptions cfgPath opts with
  | .error e => .error e
  | .ok c' => c'.compile

/-- Calls on a live instance. -/
inductive CfgCall where
  | setPatterns (ps : List Str)
  | setFlag
  | unsetFlag
  | clearFlags
  deriving Repr, Inhabited

/-- A call either succeeds with a new state or fails leaving the state as the code leaves
it. `Config::set_ignore_class_notfound_regexp` compiles first and assigns on success. -/
def ConfigM.call (c : ConfigM) : CfgCall → ConfigM × Bool
  | .setPatterns ps =>
    match compilePats ps with
    | .error _ => (c, false)
    | .ok pats => ({ c with reported := ps, compiled := pats }, true)
  | .setFlag => ({ c with literalDots := true }, true)
  | .unsetFlag => ({ c with literalDots := false }, true)
  | .clearFlags => ({ c with literalDots := false }, true)

def ConfigM.isClassIgnored (c : ConfigM) (cls : Str) : Bool :=
  c.ignoreClassNotfound && c.compiled.any (fun p => p.matches cls)

def ConfigM.toNodeCfg (c : ConfigM) : NodeCfg :=
  { ignoreClassNotfound := c.ignoreClassNotfound, compiled := c.compiled, composeNodeName := c.composeNodeName,
    literalDots := c.literalDots, nodesPath := c.nodesPath }

end Reclass
