/-
  Reclass.Model.Node — `src/node/mod.rs` (from_str's class-name normalisation,
  abs_class_name, read_class, merge_into, render_impl, render), `src/node/nodeinfo.rs`
  (as_reclass), `src/config.rs` (is_class_ignored).
-/
import Reclass.Model.Eval
import Reclass.Model.Lists
namespace Reclass

/-- A class or node file after `serde_yaml` + serde's derive glue + `yaml-merge-keys`
(all three are outside the model). -/
structure ClassSrc where
  apps : List Str := []
  classes : List Str := []
  params : List (Yaml × Yaml) := []
  deriving Repr, Inhabited

/-- What reading and deserialising a discovered file gives: contents, or a failure the
implementation reports as an error (unreadable, invalid YAML, wrong field types). -/
inductive FileRes where
  | ok (src : ClassSrc)
  | bad (what : Str)
  deriving Repr, Inhabited

/-- `EntityInfo`: path of the file relative to the classes/nodes root, and the location
against which relative includes of that class are resolved. -/
structure EntityInfo where
  path : List Str
  loc : List Str
  deriving Repr, Inhabited, DecidableEq

/-- The sub-language of regular expressions the model evaluates itself (the generator
only emits these forms; anything else is `invalid`, i.e. does not compile, or unmodelled). -/
inductive Pat where
  | any                    -- `.*`
  | pfx (s : Str)          -- `^abc`
  | sfx (s : Str)          -- `abc$`
  | exact (s : Str)        -- `^abc$`
  | sub (s : Str)          -- `abc`
  | invalid                -- does not compile (e.g. `(`)
  deriving Repr, Inhabited, DecidableEq

def isInfix (p : Str) : Str → Bool
  | [] => p.isEmpty
  | c :: cs => startsWith (c :: cs) p || isInfix p cs

def Pat.matches : Pat → Str → Bool
  | .any, _ => true
  | .pfx p, s => startsWith s p
  | .sfx p, s => startsWith s.reverse p.reverse
  | .exact p, s => s == p
  | .sub p, s => isInfix p s
  | .invalid, _ => false

/-- The part of `Config` the node walk and the metadata depend on. `compiled` is the
pattern list the current `RegexSet` was compiled from (see `Model/Config`). -/
structure NodeCfg where
  ignoreClassNotfound : Bool := false
  compiled : List Pat := [.any]
  composeNodeName : Bool := false
  literalDots : Bool := false       -- CompatFlag::ComposeNodeNameLiteralDots
  nodesPath : Str := []
  deriving Repr, Inhabited

/-- `Config::is_class_ignored`. -/
def NodeCfg.isClassIgnored (c : NodeCfg) (cls : Str) : Bool :=
  c.ignoreClassNotfound && c.compiled.any (fun p => p.matches cls)

/-- The model's view of a `Reclass` instance: discovered classes and nodes with the
contents of their files. -/
structure Inv where
  classes : List (Str × EntityInfo × FileRes) := []
  nodes : List (Str × EntityInfo × FileRes) := []
  cfg : NodeCfg := {}
  deriving Repr, Inhabited

def findEntity (name : Str) : List (Str × EntityInfo × FileRes) → Option (EntityInfo × FileRes)
  | [] => none
  | (n, e) :: rest => if n = name then some e else findEntity name rest

/-- `Node` (the fields that matter for rendering). -/
structure NodeM where
  apps : RList := {}
  classes : UList := {}
  params : Mapping := {}
  loc : Option (List Str) := none
  deriving Repr, Inhabited

/-- `NodeInfoMeta`. -/
structure MetaM where
  node : Str := []
  name : Str := []
  uri : Str := []
  environment : Str := []
  parts : List Str := []
  deriving Repr, Inhabited, DecidableEq

/-- Number of leading dots and the remainder. -/
def splitDots : Str → Nat × Str
  | '.' :: cs => let r := splitDots cs; (r.1 + 1, r.2)
  | s => (0, s)

/-- `Node::abs_class_name`: `parent` starts as the own location plus a placeholder; every
leading dot pops one component (never below the root); the remaining components are
joined with dots in front of the rest of the name. -/
def absClassName (loc : Option (List Str)) (cls : Str) : Str :=
  match cls with
  | '.' :: _ =>
    let d := splitDots cls
    let parent := (loc.getD []) ++ [['<']]   -- placeholder component
    let kept := parent.take (parent.length - d.1)
    (kept.flatMap fun seg => seg ++ ['.']) ++ d.2
  | _ => cls

/-- `Node::from_str` after deserialisation: entry lists become the two list types, class
names are made absolute, parameters are converted. -/
def NodeM.ofSrc (loc : Option (List Str)) (src : ClassSrc) : R NodeM :=
  let classes0 := UList.ofList src.classes
  let classes := classes0.items.foldl (fun acc c => acc.appendIfNew (absClassName loc c)) ({} : UList)
  match Mapping.ofYamlEntries src.params with
  | .error e => .error e
  | .ok p => .ok { apps := RList.ofList src.apps, classes := classes, params := p, loc := loc }

/-- `Node::read_class`. `none` = the class is missing and ignored. -/
def readClass (r : Inv) (loc : Option (List Str)) (cls : Str) : R (Option NodeM) :=
  let c := absClassName loc cls
  match findEntity c r.classes with
  | none => if r.cfg.isClassIgnored c then .ok none else .error (.classNotFound c)
  | some (_, .bad w) => .error (.io w)
  | some (info, .ok src) =>
    match NodeM.ofSrc (some info.loc) src with
    | .error e => .error e
    | .ok n => .ok (some n)

/-- `Node::merge_into`: merge `self` into `other`; afterwards both are equal, so only the
new `other` is returned. -/
def mergeInto (self other : NodeM) : R NodeM :=
  match other.params.merge self.params with
  | .error e => .error e
  | .ok p => .ok { other with apps := other.apps.merge self.apps, classes := other.classes.merge self.classes, params := p }

def strContains (s p : Str) : Bool := isInfix p s

/-- The class-name resolution at the top of the loop in `render_impl`. -/
def resolveClassName (fuel : Nat) (params : Mapping) (cls : Str) : R Str :=
  if strContains cls Extracted.classRefMarker.toList then
    match Token.parse cls with
    | .error e => .error e
    | .ok none => .ok cls
    | .ok (some t) =>
      match tokRender fuel params t {} with
      | .error e => .error e
      | .ok (v, _) => rawString v
  else .ok cls

mutual
/-- `Node::render_impl`: returns the updated `seen` list and `root`. -/
def renderImpl : Nat → Inv → NodeM → List Str → NodeM → R (List Str × NodeM)
  | 0, _, _, _, _ => .error .fuel
  | n+1, r, self, seen, root =>
    match walkClasses n r self.loc self.classes.items seen root with
    | .error e => .error e
    | .ok (seen', root') =>
      match mergeInto self root' with
      | .error e => .error e
      | .ok root'' => .ok (seen', root'')
/-- The `for cls in self.classes` loop of `render_impl`. -/
def walkClasses : Nat → Inv → Option (List Str) → List Str → List Str → NodeM → R (List Str × NodeM)
  | 0, _, _, _, _, _ => .error .fuel
  | _+1, _, _, [], seen, root => .ok (seen, root)
  | n+1, r, loc, cls :: rest, seen, root =>
    match resolveClassName defaultFuel root.params cls with
    | .error e => .error e
    | .ok c =>
      if c ∈ seen then walkClasses n r loc rest seen root
      else
        match readClass r loc c with
        | .error e => .error e
        | .ok none => walkClasses n r loc rest seen root
        | .ok (some cn) =>
          -- the class is marked as seen before its own includes are walked
          match renderImpl n r cn (seen ++ [c]) root with
          | .error e => .error e
          | .ok (seen', root') => walkClasses n r loc rest seen' root'
end

/-- `str::split('.')`. -/
def splitOn (sep : Char) : Str → List Str
  | [] => [[]]
  | c :: cs =>
    match splitOn sep cs with
    | [] => [[c]]
    | seg :: segs => if c = sep then [] :: seg :: segs else (c :: seg) :: segs

/-- `NodeInfoMeta::as_reclass`. -/
def MetaM.asReclass (m : MetaM) (cfg : NodeCfg) : R Mapping :=
  match m.parts with
  | [] => .error .metaParts
  | part0 :: _ =>
    let parts : List Str :=
      if cfg.composeNodeName && cfg.literalDots then splitOn '.' m.name
      else if part0.head? = some '_' then [m.parts.getLast?.getD []]
      else m.parts
    match parts.getLast? with
    | none => .error .metaParts
    | some short =>
      let s (x : String) : Key := .str x.toList
      -- Mapping::from_iter ignores insertion errors; none can occur for these four keys
      let step (acc : Mapping) (kv : Key × Value) : Mapping :=
        match acc.insert kv.1 kv.2 with
        | .ok a => a
        | .error _ => acc
      let namedata := [(s "full", Value.str m.name),
                       (s "parts", Value.seq (parts.map Value.str)),
                       (s "path", Value.str (joinWith ['/'] parts)),
                       (s "short", Value.str short)].foldl step {}
      match ({} : Mapping).insert (s "environment") (.str m.environment) with
      | .error e => .error e
      | .ok p =>
        match p.insert (s "name") namedata.toValue with
        | .error e => .error e
        | .ok p' => .ok p'

/-- `NodeInfo`. -/
structure NodeInfoM where
  nmeta : MetaM
  apps : List Str
  classes : List Str
  params : Mapping
  deriving Repr, Inhabited

/-- `Node::render` followed by `NodeInfo::from`. The second phase merges the node itself
into the accumulated base (fix of D1) instead of walking its includes again. -/
def renderNodeSrc (fuel : Nat) (r : Inv) (nmeta : MetaM) (src : ClassSrc) : R NodeInfoM :=
  match NodeM.ofSrc none src with
  | .error e => .error e
  | .ok self =>
    match nmeta.asReclass r.cfg with
    | .error e => .error e
    | .ok rc =>
      match ({} : Mapping).insert (.str Extracted.reclassKey.toList) rc.toValue with
      | .error e => .error e
      | .ok bp =>
        let base : NodeM := { classes := self.classes, params := bp }
        match renderImpl fuel r base [] {} with
        | .error e => .error e
        | .ok (_, root) =>
          match mergeInto self root with
          | .error e => .error e
          | .ok fin =>
            match renderParamsF defaultFuel fin.params with
            | .error e => .error e
            | .ok p => .ok { nmeta := nmeta, apps := fin.apps.items, classes := fin.classes.items, params := p }

/-- `Path::extension` / `file_stem` of one file name (`rsplit_file_at_dot`). -/
def splitLastDot (name : Str) : Option (Str × Str) :=
  -- (before, after) around the last '.', or none if there is no dot
  let rev := name.reverse
  match rev.span (· != '.') with
  | (_, []) => none
  | (afterRev, _ :: beforeRev) => some (beforeRev.reverse, afterRev.reverse)

def fileExtension (name : Str) : Option Str :=
  if name = ['.', '.'] then none
  else match splitLastDot name with
    | none => none
    | some (before, after) => if before.isEmpty then none else some after

def fileStem (name : Str) : Str :=
  if name = ['.', '.'] then name
  else match splitLastDot name with
    | none => name
    | some (before, _) => if before.isEmpty then name else before

/-- Last component of `Path::with_extension("")` for a file name that has an extension:
the stem — except that a stem of `.` (file `..yml`) leaves `..`, because the intermediate
path `..` has no file name for `set_extension` to work on. -/
def stemNoExt (name : Str) : Str :=
  if fileStem name = ['.'] then ['.', '.'] else fileStem name

/-- `Node::parse` + `Node::render` + `NodeInfo::from` = `Reclass::render_node`. -/
def renderNode (fuel : Nat) (r : Inv) (name : Str) : R NodeInfoM :=
  match findEntity name r.nodes with
  | none => .error (.unknownNode name)
  | some (_, .bad w) => .error (.io w)
  | some (info, .ok src) =>
    let uri := Extracted.uriPrefix.toList ++ r.cfg.nodesPath ++ ['/'] ++ joinWith ['/'] info.path
    let parts : List Str :=
      if r.cfg.composeNodeName then
        match info.path.reverse with
        | [] => []
        | last :: revInit => revInit.reverse ++ [stemNoExt last]
      else if name.isEmpty then [] else [name]   -- `PathBuf::from(name).iter()`
    let nm : MetaM := { node := name, name := name, uri := uri, environment := Extracted.environment.toList, parts := parts }
    renderNodeSrc fuel r nm src

end Reclass
