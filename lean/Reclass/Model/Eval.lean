/-
  Reclass.Model.Eval — `src/types/value.rs` (raw_string, JSON text, flattened, merge,
  interpolate, rendered), `src/types/mapping.rs` (flattened, interpolate),
  `src/types/from.rs` (From<serde_yaml::Value>), `src/refs/mod.rs` (ResolveState,
  Token::render/resolve, interpolate_token_slice, interpolate_string_or_valuelist).
-/
import Reclass.Model.Mapping
import Reclass.Model.Parser
namespace Reclass

/-! ## Text forms -/

def Num.yamlText : Num → Str
  | .int i => (Int.repr i).toList
  | .float y _ => y

def Num.jsonText : Num → Str
  | .int i => (Int.repr i).toList
  | .float _ j => j

def hexDigit (n : Nat) : Char :=
  if n < 10 then Char.ofNat (48 + n) else Char.ofNat (87 + n)

/-- serde_json's string escaping (`"`, `\`, control characters; everything else raw). -/
def jsonEscapeChar (c : Char) : Str :=
  if c = '"' then ['\\', '"']
  else if c = '\\' then ['\\', '\\']
  else if c = '\n' then ['\\', 'n']
  else if c = '\r' then ['\\', 'r']
  else if c = '\t' then ['\\', 't']
  else if c.toNat = 8 then ['\\', 'b']
  else if c.toNat = 12 then ['\\', 'f']
  else if c.toNat < 32 then ['\\', 'u', '0', '0', hexDigit (c.toNat / 16), hexDigit (c.toNat % 16)]
  else [c]

def jsonString (s : Str) : Str := ['"'] ++ s.flatMap jsonEscapeChar ++ ['"']

/-- Key text in `From<Mapping> for serde_json::Map`. -/
def Key.jsonKey : Key → Str
  | .str s => s
  | .lit s => s
  | .bool true => "true".toList
  | .bool false => "false".toList
  | .num n => n.yamlText
  | .null => "null".toList

/-- Lexicographic order on code points = byte order of the UTF-8 encodings
(`BTreeMap<String, _>`). -/
def strLt : Str → Str → Bool
  | [], [] => false
  | [], _ :: _ => true
  | _ :: _, [] => false
  | a :: as, b :: bs => if a.toNat < b.toNat then true else if b.toNat < a.toNat then false else strLt as bs

/-- `BTreeMap::insert`: sorted by key, a later equal key replaces the value. -/
def sortedInsert (k : Str) (v : Str) : List (Str × Str) → List (Str × Str)
  | [] => [(k, v)]
  | (k', v') :: rest =>
    if k = k' then (k, v) :: rest
    else if strLt k k' then (k, v) :: (k', v') :: rest
    else (k', v') :: sortedInsert k v rest

def joinWith (sep : Str) : List Str → Str
  | [] => []
  | [x] => x
  | x :: xs => x ++ sep ++ joinWith sep xs

mutual
/-- `serde_json::to_string(&serde_json::Value::from(v))`. -/
def jsonOf : Value → R Str
  | .null => .ok "null".toList
  | .bool true => .ok "true".toList
  | .bool false => .ok "false".toList
  | .num n => .ok n.jsonText
  | .str s => .ok (jsonString s)
  | .lit s => .ok (jsonString s)
  | .seq l =>
    match jsonOfL l with
    | .error e => .error e
    | .ok xs => .ok (['['] ++ joinWith [','] xs ++ [']'])
  | .map es _ _ =>
    match jsonOfEs es [] with
    | .error e => .error e
    | .ok kvs => .ok (['{'] ++ joinWith [','] (kvs.map fun kv => jsonString kv.1 ++ [':'] ++ kv.2) ++ ['}'])
  | .vl _ => .error (.panic .jsonVl)
def jsonOfL : List Value → R (List Str)
  | [] => .ok []
  | v :: vs =>
    match jsonOf v with
    | .error e => .error e
    | .ok x => match jsonOfL vs with
      | .error e => .error e
      | .ok xs => .ok (x :: xs)
def jsonOfEs : List (Key × Value) → List (Str × Str) → R (List (Str × Str))
  | [], acc => .ok acc
  | (k, v) :: rest, acc =>
    match jsonOf v with
    | .error e => .error e
    | .ok x => jsonOfEs rest (sortedInsert k.jsonKey x acc)
end

/-- `Value::raw_string`. -/
def rawString : Value → R Str
  | .lit s => .ok s
  | .null => .ok "None".toList
  | .bool true => .ok "True".toList
  | .bool false => .ok "False".toList
  | .num n => .ok n.yamlText
  | .map es ck ok => jsonOf (.map es ck ok)
  | .seq l => jsonOf (.seq l)
  | .str _ => .error (.rawStringOf "Value::String".toList)
  | .vl _ => .error (.rawStringOf "Value::ValueList".toList)

/-! ## ResolveState -/

def natStr (n : Nat) : Str := (Nat.repr n).toList

/-- `ResolveState::push_list_index`. -/
def RState.pushListIndex (st : RState) (idx : Nat) : RState :=
  let sfx := ['['] ++ natStr idx ++ [']']
  match st.cur.reverse with
  | [] => { st with cur := [sfx] }
  | last :: revInit => { st with cur := (revInit.reverse) ++ [last ++ sfx] }

/-- The text `push_mapping_key` pushes for a (scalar) key. -/
def Key.display : Key → Str
  | .str s => s
  | .lit s => s
  | .null => "None".toList
  | .bool true => "True".toList
  | .bool false => "False".toList
  | .num n => n.yamlText

def RState.pushMappingKey (st : RState) (k : Key) : RState := { st with cur := st.cur ++ [k.display] }

/-- `ResolveState::current_key`. -/
def RState.curKey (st : RState) : Str := joinWith ['.'] st.cur

/-! ## From<serde_yaml::Value> -/

def Key.ofYaml : Yaml → R Key
  | .null => .ok .null
  | .bool b => .ok (.bool b)
  | .num n => .ok (.num n)
  | .str s => .ok (.str s)
  | .seq _ => .error (.unmodelled "sequence as mapping key".toList)
  | .map _ => .error (.unmodelled "mapping as mapping key".toList)
  | .tagged _ _ => .error .yamlTaggedValue

mutual
/-- `Value::try_from_yaml` (the fallible conversion used by `Mapping::from_str` and `Node::from_str`). -/
def Value.ofYaml : Yaml → R Value
  | .null => .ok .null
  | .bool b => .ok (.bool b)
  | .num n => .ok (.num n)
  | .str s => .ok (.str s)
  | .seq l =>
    match ofYamlL l with
    | .error e => .error e
    | .ok l' => .ok (.seq l')
  | .map es =>
    match ofYamlEs es {} with
    | .error e => .error e
    | .ok m => .ok m.toValue
  | .tagged _ _ => .error .yamlTaggedValue
def ofYamlL : List Yaml → R (List Value)
  | [] => .ok []
  | y :: ys =>
    match Value.ofYaml y with
    | .error e => .error e
    | .ok v => match ofYamlL ys with
      | .error e => .error e
      | .ok vs => .ok (v :: vs)
/-- `Mapping::try_from_yaml`: `new.insert(k, v)?` — a key written as constant and again later in
the same mapping is an ordinary constant-key error. -/
def ofYamlEs : List (Yaml × Yaml) → Mapping → R Mapping
  | [], m => .ok m
  | (k, v) :: rest, m =>
    match Key.ofYaml k with
    | .error e => .error e
    | .ok k' =>
      match Value.ofYaml v with
      | .error e => .error e
      | .ok v' =>
        match m.insert k' v' with
        | .error e => .error e
        | .ok m' => ofYamlEs rest m'
end

def Mapping.ofYamlEntries (es : List (Yaml × Yaml)) : R Mapping := ofYamlEs es {}

/-! ## merge / flattened -/

/-- The `match self { … }` of `Value::merge`, once `other` is known not to be null and
has been flattened if it was a layer list. -/
def mergeNonVl (self other : Value) (st : RState) : R Value :=
  match self with
  | .null => .ok other
  | .map es ck ok =>
    match other with
    | .map es' ck' ok' =>
      match Mapping.merge ⟨es, ck, ok⟩ ⟨es', ck', ok'⟩ with
      | .error e => .error e
      | .ok m => .ok m.toValue
    | o => .error (.mergeConflict st.curKey o.kind "mapping".toList)
  | .seq s =>
    match other with
    | .seq s' => .ok (.seq (s ++ s'))
    | o => .error (.mergeConflict st.curKey o.kind "sequence".toList)
  | .str _ => .error (.panic .mergeTargetStr)
  | .vl _ => .error (.panic .mergeTargetVl)
  | self =>
    if other.isMap || other.isSeq then .error (.mergeConflict st.curKey other.kind self.kind)
    else .ok other

mutual
/-- `Value::flattened`. -/
def flat : Value → RState → R Value
  | .vl l, st => flatVl l .null st
  | .map es ck ok, st =>
    match flatEs es ck ok st {} with
    | .error e => .error e
    | .ok m => .ok m.toValue
  | .seq l, st =>
    match flatL l st with
    | .error e => .error e
    | .ok l' => .ok (.seq l')
  | .str _, st => .error (.flattenString st.curKey)
  | v, _ => .ok v
/-- The fold of `Value::merge` over the layers of a ValueList. -/
def flatVl : List Value → Value → RState → R Value
  | [], base, _ => .ok base
  | v :: rest, base, st =>
    match mergeV base v st with
    | .error e => .error e
    | .ok b => flatVl rest b st
/-- `Value::merge(self, other, state)` (structural in `other`). -/
def mergeV (self : Value) : Value → RState → R Value
  | .null, _ => .ok .null
  | .vl l, st =>
    match flatVl l .null st with
    | .error e => .error e
    | .ok o => mergeNonVl self o st
  | other, st => mergeNonVl self other st
def flatL : List Value → RState → R (List Value)
  | [], _ => .ok []
  | v :: vs, st =>
    match flat v st with
    | .error e => .error e
    | .ok x => match flatL vs st with
      | .error e => .error e
      | .ok xs => .ok (x :: xs)
/-- `Mapping::flattened`. -/
def flatEs : List (Key × Value) → List Key → List Key → RState → Mapping → R Mapping
  | [], _, _, _, acc => .ok acc
  | (k, v) :: rest, ck, ok, st, acc =>
    match flat v st with
    | .error e => .error e
    | .ok v' =>
      match acc.insertImpl k v' (decide (k ∈ ck)) (decide (k ∈ ok)) with
      | .error e => .error e
      | .ok acc' => flatEs rest ck ok st acc'
end

/-! ## interpolate / resolve -/

/-- `str::split(':')`: always at least one segment. -/
def splitColon : Str → List Str
  | [] => [[]]
  | c :: cs =>
    match splitColon cs with
    | [] => [[c]]  -- unreachable
    | seg :: segs => if c = ':' then [] :: seg :: segs else (c :: seg) :: segs

mutual
/-- `Value::interpolate`. -/
def interp : Nat → Mapping → Value → RState → R (Value × RState)
  | 0, _, _, _ => .error .fuel
  | n+1, root, v, st =>
    match v with
    | .str s =>
      match Token.parse s with
      | .error e => .error e
      | .ok none => .ok (.lit s, st)
      | .ok (some t) => tokRender n root t st
    | .map es ck ok =>
      match interpEs n root es ck ok st {} with
      | .error e => .error e
      | .ok m => .ok (m.toValue, st)
    | .seq l =>
      match interpL n root l 0 st with
      | .error e => .error e
      | .ok l' => .ok (.seq l', st)
    | .vl l =>
      match interpVl n root l .null st with
      | .error e => .error e
      | .ok r => interp n root r st
    | v => .ok (v, st)
/-- The `Sequence` arm: every element with a copy of the state. -/
def interpL : Nat → Mapping → List Value → Nat → RState → R (List Value)
  | 0, _, _, _, _ => .error .fuel
  | _+1, _, [], _, _ => .ok []
  | n+1, root, v :: vs, idx, st =>
    match interp n root v (st.pushListIndex idx) with
    | .error e => .error e
    | .ok (x, _) =>
      match interpL n root vs (idx + 1) st with
      | .error e => .error e
      | .ok xs => .ok (x :: xs)
/-- `Mapping::interpolate`. -/
def interpEs : Nat → Mapping → List (Key × Value) → List Key → List Key → RState → Mapping → R Mapping
  | 0, _, _, _, _, _, _ => .error .fuel
  | _+1, _, [], _, _, _, acc => .ok acc
  | n+1, root, (k, v) :: rest, ck, ok, st, acc =>
    match interp n root v (st.pushMappingKey k) with
    | .error e => .error e
    | .ok (v', st') =>
      match flat v' st' with
      | .error e => .error e
      | .ok v'' =>
        match acc.insertImpl k v'' (decide (k ∈ ck)) (decide (k ∈ ok)) with
        | .error e => .error e
        | .ok acc' => interpEs n root rest ck ok st acc'
/-- The first loop of the `ValueList` arm: merge each interpolated layer over `r`. -/
def interpVl : Nat → Mapping → List Value → Value → RState → R Value
  | 0, _, _, _, _ => .error .fuel
  | _+1, _, [], r, _ => .ok r
  | n+1, root, v :: vs, r, st =>
    match interp n root v st with
    | .error e => .error e
    | .ok (x, st') =>
      match mergeV r x st' with
      | .error e => .error e
      | .ok r' => interpVl n root vs r' st
/-- `Token::render`. -/
def tokRender : Nat → Mapping → Token → RState → R (Value × RState)
  | 0, _, _, _ => .error .fuel
  | n+1, root, t, st =>
    match tokResolve n root t st with
    | .error e => .error e
    | .ok (v, st') =>
      match t with
      | .ref _ => interp n root v st'
      | _ =>
        match rawString v with
        | .error e => .error e
        | .ok s => .ok (.lit s, st')
/-- `Token::resolve`. -/
def tokResolve : Nat → Mapping → Token → RState → R (Value × RState)
  | 0, _, _, _ => .error .fuel
  | n+1, root, t, st =>
    match t with
    | .lit s => .ok (.lit s, st)
    | .combined ts =>
      match slice n root ts st with
      | .error e => .error e
      | .ok s => .ok (.lit s, st)
    | .ref parts =>
      let st1 : RState := { st with depth := st.depth + 1 }
      if st1.depth > maxDepth then .error (.depth st1.curKey)
      else
        match slice n root parts st1 with
        | .error e => .error e
        | .ok path =>
          if path ∈ st1.seen then .error .loop
          else
            let st2 : RState := { st1 with seen := path :: st1.seen }
            match splitColon path with
            | [] => .error (.panic .splitEmpty)
            | k0 :: segs =>
              match root.get (.str k0) with
              | none => .error (.missingKey path k0 st2.curKey)
              | some v0 =>
                match descend n root v0 segs st2 path with
                | .error e => .error e
                | .ok (v, st3) => finalLoop n root v st3
/-- The `for key in refpath_iter` loop of `Token::resolve`. -/
def descend : Nat → Mapping → Value → List Str → RState → Str → R (Value × RState)
  | 0, _, _, _, _, _ => .error .fuel
  | _+1, _, v, [], st, _ => .ok (v, st)
  | n+1, root, v, key :: rest, st, path =>
    match interpStrOrVl n root v st with
    | .error e => .error e
    | .ok (newv, st') =>
      match newv with
      | .map es _ _ =>
        match lookup (.str key) es with
        | none => .error (.missingKey path key st'.curKey)
        | some v' => descend n root v' rest st' path
      | .str _ => .error (.panic .resolveNewvStrVl)
      | .vl _ => .error (.panic .resolveNewvStrVl)
      | _ => .error (.lookupInto path key st'.curKey)
/-- `while v.is_string() || v.is_value_list() { v = v.interpolate(params, state)? }`. -/
def finalLoop : Nat → Mapping → Value → RState → R (Value × RState)
  | 0, _, _, _ => .error .fuel
  | n+1, root, v, st =>
    if v.isStr || v.isVl then
      match interp n root v st with
      | .error e => .error e
      | .ok (v', st') => finalLoop n root v' st'
    else .ok (v, st)
/-- `interpolate_string_or_valuelist`. -/
def interpStrOrVl : Nat → Mapping → Value → RState → R (Value × RState)
  | 0, _, _, _ => .error .fuel
  | n+1, root, v, st =>
    match v with
    | .str s => interp n root (.str s) st
    | .vl l =>
      match layersStr n root l st with
      | .error e => .error e
      | .ok i =>
        match flatVl i .null st with
        | .error e => .error e
        | .ok r => .ok (r, st)
    | v => .ok (v, st)
/-- The layer loop of `interpolate_string_or_valuelist`: only `String` layers are
interpolated, each with a copy of the state. -/
def layersStr : Nat → Mapping → List Value → RState → R (List Value)
  | 0, _, _, _ => .error .fuel
  | _+1, _, [], _ => .ok []
  | n+1, root, v :: vs, st =>
    match (if v.isStr then (match interp n root v st with
                            | .error e => .error e
                            | .ok (x, _) => .ok x) else .ok v : R Value) with
    | .error e => .error e
    | .ok x =>
      match layersStr n root vs st with
      | .error e => .error e
      | .ok xs => .ok (x :: xs)
/-- `interpolate_token_slice`: every piece with a copy of the state, concatenated text. -/
def slice : Nat → Mapping → List Token → RState → R Str
  | 0, _, _, _ => .error .fuel
  | _+1, _, [], _ => .ok []
  | n+1, root, t :: ts, st =>
    match tokResolve n root t st with
    | .error e => .error e
    | .ok (v, st') =>
      match strLoop n root v st' with
      | .error e => .error e
      | .ok (v', st'') =>
        match sliceFinish n root v' st'' with
        | .error e => .error e
        | .ok s =>
          match slice n root ts st with
          | .error e => .error e
          | .ok s' => .ok (s ++ s')
/-- `while v.is_string() { v = v.interpolate(params, &mut st)? }`. -/
def strLoop : Nat → Mapping → Value → RState → R (Value × RState)
  | 0, _, _, _ => .error .fuel
  | n+1, root, v, st =>
    if v.isStr then
      match interp n root v st with
      | .error e => .error e
      | .ok (v', st') => strLoop n root v' st'
    else .ok (v, st)
/-- The end of one iteration of `interpolate_token_slice`: a container piece is
interpolated and flattened before its text is taken (fix of D3), then `raw_string`. -/
def sliceFinish : Nat → Mapping → Value → RState → R Str
  | 0, _, _, _ => .error .fuel
  | n+1, root, v, st =>
    if v.isMap || v.isSeq then
      match interp n root v st with
      | .error e => .error e
      | .ok (v', st') =>
        match flat v' st' with
        | .error e => .error e
        | .ok v'' => rawString v''
    else rawString v
end

/-- Fuel used by the executable driver and by the top-level entry points.  Termination for
*some* fuel and independence of the answer from the amount are theorems (`Lemmas/Fuel`). -/
def defaultFuel : Nat := 100000

/-- `Value::rendered`. -/
def renderedF (fuel : Nat) (v : Value) (root : Mapping) : R Value :=
  match interp fuel root v {} with
  | .error e => .error e
  | .ok (v', st) => flat v' st

/-- `Value::render_with_self` for a mapping + `Node::render_parameters`. -/
def renderParamsF (fuel : Nat) (m : Mapping) : R Mapping :=
  match renderedF fuel m.toValue m with
  | .error e => .error e
  | .ok (.map es ck ok) => .ok ⟨es, ck, ok⟩
  | .ok v => .error (.notMapping v.kind)

end Reclass
