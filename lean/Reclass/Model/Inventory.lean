/-
  Reclass.Model.Inventory — the aggregation loop of `Inventory::render`
  (`src/inventory.rs`).  The parallel map that produces the per-node results is
  represented by its result list in *some* order (hash-map iteration order).
-/
import Reclass.Model.Node
namespace Reclass

/-- String order (`Ord for String` = byte order = code point order). -/
def strLe (a b : Str) : Bool := !strLt b a

def sortStrs (l : List Str) : List Str := l.mergeSort strLe

/-- `entry(k).and_modify(push).or_insert(vec![name])` -/
def indexPush (k name : Str) : List (Str × List Str) → List (Str × List Str)
  | [] => [(k, [name])]
  | (k', ns) :: rest => if k' = k then (k', ns ++ [name]) :: rest else (k', ns) :: indexPush k name rest

structure InventoryM where
  apps : List (Str × List Str) := []
  classes : List (Str × List Str) := []
  nodes : List (Str × NodeInfoM) := []
  deriving Repr, Inhabited

def sortAll (ix : List (Str × List Str)) : List (Str × List Str) := ix.map fun p => (p.1, sortStrs p.2)

/-- The `for (name, info) in infos` loop. -/
def Inventory.collect : List (Str × R NodeInfoM) → InventoryM → R InventoryM
  | [], inv => .ok inv
  | (name, .error e) :: _, _ => .error (.nodeFailed name e)
  | (name, .ok info) :: rest, inv =>
    let classes := info.classes.foldl (fun ix c => indexPush c name ix) inv.classes
    let apps := info.apps.foldl (fun ix a => indexPush a name ix) inv.apps
    Inventory.collect rest { apps := sortAll apps, classes := sortAll classes, nodes := inv.nodes ++ [(name, info)] }

/-- `Inventory::render` given the per-node results in iteration order. -/
def Inventory.render (results : List (Str × R NodeInfoM)) : R InventoryM := Inventory.collect results {}

end Reclass
