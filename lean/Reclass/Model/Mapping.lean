/-
  Reclass.Model.Mapping — `src/types/mapping.rs`: insert_impl, merge, get, and
  `Value::strip_prefix`.
-/
import Reclass.Model.Basic
namespace Reclass

inductive KeyPrefix where | const | override
  deriving DecidableEq, Repr

/-- `KeyPrefix::from(char)`. -/
def KeyPrefix.ofChar (c : Char) : Option KeyPrefix :=
  if c = Extracted.constMarker then some .const else if c = Extracted.overrideMarker then some .override else none

/-- `Value::strip_prefix` restricted to keys: only `Value::String` keys are stripped. -/
def Key.stripPrefix : Key → Key × Option KeyPrefix
  | .str [] => (.str [], none)
  | .str (c :: cs) =>
    match KeyPrefix.ofChar c with
    | some p => (.str cs, some p)
    | none => (.str (c :: cs), none)
  | k => (k, none)

/-- `IndexMap::get`. -/
def lookup (k : Key) : List (Key × Value) → Option Value
  | [] => none
  | (k', v) :: es => if k' = k then some v else lookup k es

def hasKey (k : Key) (es : List (Key × Value)) : Bool := (lookup k es).isSome

/-- `IndexMap::insert` on an existing key: replace the value, keep the position. -/
def replaceVal (k : Key) (v : Value) : List (Key × Value) → List (Key × Value)
  | [] => []
  | (k', v') :: es => if k' = k then (k', v) :: es else (k', v') :: replaceVal k v es

/-- `HashSet::insert`. -/
def setInsert (k : Key) (s : List Key) : List Key := if k ∈ s then s else s ++ [k]

/-- The "append to the ValueList for k" block of `insert_impl`: what is stored under a key
that already holds `old` when `v` arrives without an override. -/
def combine (old v : Value) : Value :=
  match old, v with
  | .vl l, .vl l' => .vl (l ++ l')
  | .vl l, v => .vl (l ++ [v])
  | old, .vl l' => .vl (old :: l')
  | old, v => .vl [old, v]

/-- `Mapping::insert_impl`. Returns the new mapping (the returned old value is unused by
all callers in the modelled code). -/
def Mapping.insertImpl (m : Mapping) (k : Key) (v : Value) (forceConst forceOverride : Bool) :
    R Mapping :=
  let (k, p) := k.stripPrefix
  match lookup k m.es with
  | none =>
    let ck := if p = some .const then setInsert k m.ck else m.ck
    let ok := if p = some .override then setInsert k m.ok else m.ok
    let ck := if forceConst then setInsert k ck else ck
    let ok := if forceOverride then setInsert k ok else ok
    .ok { es := m.es ++ [(k, v)], ck := ck, ok := ok }
  | some old =>
    if k ∈ m.ck then .error (.constKey k)
    else
      let es :=
        if forceOverride || p = some .override then replaceVal k v m.es
        else replaceVal k (combine old v) m.es
      let ck := if forceConst || p = some .const then setInsert k m.ck else m.ck
      .ok { es := es, ck := ck, ok := m.ok }

/-- `Mapping::insert`. -/
def Mapping.insert (m : Mapping) (k : Key) (v : Value) : R Mapping := m.insertImpl k v false false

/-- The loop of `Mapping::merge` over `other`'s entries. -/
def Mapping.mergeEntries (m : Mapping) (ock ook : List Key) : List (Key × Value) → R Mapping
  | [] => .ok m
  | (k, v) :: rest =>
    match m.insertImpl k v (decide (k ∈ ock)) (decide (k ∈ ook)) with
    | .error e => .error e
    | .ok m' => Mapping.mergeEntries m' ock ook rest

/-- `Mapping::merge`. -/
def Mapping.merge (m other : Mapping) : R Mapping := m.mergeEntries other.ck other.ok other.es

def Mapping.get (m : Mapping) (k : Key) : Option Value := lookup k m.es

end Reclass
