/-
  Reclass.Model.Discover — the per-entry logic of `walk_entity_dir` and
  `err_duplicate_entity` in `src/lib.rs`.  The directory walk itself (walkdir, symlinks)
  is outside the model: the model receives the list of entries the walk yields, each as
  path segments relative to the entity root plus whether it is a file.
-/
import Reclass.Model.Node
namespace Reclass

/-- One entry yielded by the directory walk. -/
structure DirEntry where
  rel : List Str
  isFile : Bool
  deriving Repr, Inhabited, DecidableEq

def isYamlExt (e : Str) : Bool := Extracted.yamlExts.any (fun x => x.toList == e)

def dropLast {α} (l : List α) : List α := l.take (l.length - 1)

/-- Name and location derived from one relative path (`none`: not an entity). -/
def deriveEntity (isNode compose : Bool) (e : DirEntry) : Option (Str × EntityInfo) :=
  match e.rel.reverse with
  | [] => none
  | fname :: revDirs =>
    match fileExtension fname with
    | none => none
    | some ext =>
      if !(isYamlExt ext && e.isFile) then none
      else
        let dirs := revDirs.reverse
        let stem := stemNoExt fname
        -- `relpath.with_extension("")`, then the `init` rule
        let (clsSegs, loc) :=
          if stem = Extracted.initName.toList then (dirs, dropLast dirs)
          else (dirs ++ [stem], dirs)
        let cls := joinWith ['/'] clsSegs
        let (cls, loc) :=
          if isNode && (cls.head? = some '_' || !compose) then
            ((splitOn '/' cls).getLast?.getD [], ([] : List Str))
          else (cls, loc)
        let name := cls.map (fun c => if c = '/' then '.' else c)
        some (name, { path := e.rel, loc := loc })

def pathText (root : Str) (rel : List Str) : Str := root ++ ['/'] ++ joinWith ['/'] rel

/-- The loop of `walk_entity_dir`: insert every derived entity, fail on the first name that
is already present, naming both files in string order. -/
def walkEntries (isNode compose : Bool) (root : Str) :
    List DirEntry → List (Str × EntityInfo) → R (List (Str × EntityInfo))
  | [], acc => .ok acc
  | e :: rest, acc =>
    match deriveEntity isNode compose e with
    | none => walkEntries isNode compose root rest acc
    | some (name, info) =>
      match acc.find? (fun p => p.1 == name) with
      | some (_, prev) =>
        let a := pathText root prev.path
        let b := pathText root info.path
        if strLt a b then .error (.collision name a b) else .error (.collision name b a)
      | none => walkEntries isNode compose root rest (acc ++ [(name, info)])

end Reclass
