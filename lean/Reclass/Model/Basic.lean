/-
  Reclass.Model.Basic — the universe of the model.

  Mirrors `src/types/value.rs` (enum `Value`), `src/types/mapping.rs` (struct `Mapping`),
  `src/refs/mod.rs` (`Token`, `ResolveState`).  No imports outside core.
-/
import Reclass.Model.Extracted
namespace Reclass

/-- One text representation everywhere: a list of Unicode scalar values. -/
abbrev Str := List Char

/-- Numbers are only ever carried and printed by the code, never computed with.
Integers are exact; floats are opaque tokens (`yaml` = `serde_yaml::Number` Display,
`json` = what `serde_json` prints for it, including the quotes for NaN/inf). -/
inductive Num where
  | int (i : Int)
  | float (yaml json : Str)
  deriving DecidableEq, Repr, Inhabited

/-- Mapping keys.  Rust allows any `Value` as a key; the model covers the scalar ones
(`Value::String`, `Bool`, `Number`, `Null`).  Sequence/mapping keys are rejected by the
decoder as unmodelled. `lit` is `Value::Literal` used as a key (only user-constructed). -/
inductive Key where
  | str (s : Str)
  | lit (s : Str)
  | bool (b : Bool)
  | num (n : Num)
  | null
  deriving DecidableEq, Repr, Inhabited

/-- `reclass_rs::types::Value`.  A mapping carries its entries in insertion order plus the
two flag sets `const_keys` and `override_keys` (hash sets in Rust, used only through
membership). -/
inductive Value where
  | null
  | bool (b : Bool)
  | num (n : Num)
  | str (s : Str)          -- Value::String  (unparsed, may hold references)
  | lit (s : Str)          -- Value::Literal
  | map (es : List (Key × Value)) (ck ok : List Key)
  | seq (l : List Value)
  | vl (l : List Value)    -- Value::ValueList (layers)
  deriving Repr, Inhabited

/-- `reclass_rs::types::Mapping` as a record over `Value`. -/
structure Mapping where
  es : List (Key × Value) := []
  ck : List Key := []
  ok : List Key := []
  deriving Repr, Inhabited

def Mapping.toValue (m : Mapping) : Value := .map m.es m.ck m.ok

/-- Raw YAML as produced by `serde_yaml` (after merge-key resolution), before conversion. -/
inductive Yaml where
  | null
  | bool (b : Bool)
  | num (n : Num)
  | str (s : Str)
  | seq (l : List Yaml)
  | map (es : List (Yaml × Yaml))
  | tagged (tag : Str) (v : Yaml)
  deriving Repr, Inhabited

/-- `refs::Token`. -/
inductive Token where
  | lit (s : Str)
  | ref (parts : List Token)
  | combined (parts : List Token)
  deriving Repr, Inhabited

/-- `refs::ResolveState`. -/
structure RState where
  seen : List Str := []
  depth : Nat := 0
  cur : List Str := []
  deriving Repr, Inhabited

/-- Every place where the Rust code would panic is a distinct outcome. -/
inductive PanicSite where
  | mergeTargetStr        -- value.rs merge: unreachable!("Encountered unparsed String as merge target")
  | mergeTargetVl         -- value.rs merge: unreachable!("Encountered ValueList as merge target")
  | jsonVl                -- value.rs From<Value> for serde_json::Value: todo!() on ValueList
  | jsonKey               -- mapping.rs From<Mapping> for serde_json::Map: panic!("Can't serialize … as JSON key")
  | resolveNewvStrVl      -- refs/mod.rs resolve: unreachable!("We should have rendered …")
  | pushMappingKey        -- refs/mod.rs push_mapping_key: unreachable!
  | parseTrailing         -- refs/mod.rs parse_ref: unreachable!("Trailing data")
  | coalesceEmpty         -- refs/parser.rs coalesce_literals: unwrap on empty
  | yamlTagged            -- types/from.rs: only in the panicking `From` impl (public convenience); parsing uses try_from_yaml
  | yamlConstDup          -- mapping.rs: only in the panicking `From` impl; parsing uses try_from_yaml
  | pyVl                  -- value.rs as_py_obj: unreachable!() on ValueList
  | mergeKeysNotMapping   -- node/mod.rs from_str: as_mapping().unwrap()
  | splitEmpty            -- refs/mod.rs resolve: refpath_iter.next().unwrap()
  deriving DecidableEq, Repr, Inhabited

/-- Errors carry the data the properties talk about; wording is not modelled. -/
inductive Err where
  | loop                                   -- "Detected reference loop …"
  | depth (cur : Str)                      -- "Token resolution exceeded recursion depth … for parameter 'cur'"
  | missingKey (ref key cur : Str)         -- "lookup error for reference '${ref}' in parameter 'cur': key 'key' not found"
  | lookupInto (ref key cur : Str)         -- "While looking up key 'key' in reference '${ref}' for parameter 'cur': …"
  | mergeConflict (cur : Str) (over onto : Str)  -- "In cur: Can't merge <over> over <onto>"
  | constKey (k : Key)                     -- "Can't overwrite constant key k"
  | parse (s : Str)                        -- "Error while parsing ref: …"
  | flattenString (cur : Str)              -- "In cur: Can't flatten unparsed String"
  | rawStringOf (kind : Str)               -- "Value::raw_string isn't implemented for kind"
  | keyValueList                           -- push_mapping_key on a ValueList key
  | classNotFound (c : Str)
  | unknownNode (n : Str)
  | collision (name a b : Str)
  | nodeFailed (n : Str) (e : Err)         -- "Error rendering node n: …"
  | notMapping (kind : Str)                -- render_with_self on non-mapping
  | metaParts                              -- as_reclass: can't extract first path segment
  | absClass                               -- abs_class_name: non-normal path segment
  | config (what : Str)
  | io (what : Str)                        -- filesystem-level failure the model is told about
  | yamlTaggedValue                        -- "Tagged YAML values are not supported yet" (try_from_yaml)
  | unmodelled (what : Str)                -- input outside the model's universe
  | fuel
  | panic (site : PanicSite)
  deriving Repr, Inhabited

abbrev R (α : Type) := Except Err α

def Value.kind : Value → Str
  | .null => "Value::Null".toList
  | .bool _ => "Value::Bool".toList
  | .num _ => "Value::Number".toList
  | .str _ => "Value::String".toList
  | .lit _ => "Value::Literal".toList
  | .map .. => "Value::Mapping".toList
  | .seq _ => "Value::Sequence".toList
  | .vl _ => "Value::ValueList".toList

def Value.isNull : Value → Bool | .null => true | _ => false
def Value.isStr : Value → Bool | .str _ => true | _ => false
def Value.isVl : Value → Bool | .vl _ => true | _ => false
def Value.isMap : Value → Bool | .map .. => true | _ => false
def Value.isSeq : Value → Bool | .seq _ => true | _ => false

/-- `RESOLVE_MAX_DEPTH`; checked against the source by `tools/extract_consts.py`. -/
def maxDepth : Nat := Extracted.resolveMaxDepth

end Reclass
