/-
  Reclass.Model.Parser — `src/refs/parser.rs` (the nom grammar) and `Token::parse`,
  `parse_ref` of `src/refs/mod.rs`.

  nom's combinators as used here are deterministic, backtracking, ordered choice with no
  `cut`; `many1` is a greedy loop that stops at the first failure and fails if the first
  application fails.  The character-level loops (`content`, `ref_string`) are written as
  structural recursion over the input, one decision per position: inside a run of ordinary
  characters none of the look-ahead patterns can match (all start with `$`, `\` or `}`), so
  "take the run, then look again" and "look at every position" coincide.  The recursive
  part (`reference` ↔ `ref_item`) takes fuel.
-/
import Reclass.Model.Basic
namespace Reclass

def startsWith : Str → Str → Bool
  | _, [] => true
  | [], _ :: _ => false
  | c :: cs, p :: ps => c == p && startsWith cs ps

/-- `ref_not_open`: none of `${`, `\${`, `\\${`, `\$[` starts here. -/
def refNotOpen (i : Str) : Bool :=
  !startsWith i ['$', '{'] && !startsWith i ['\\', '$', '{'] &&
  !startsWith i ['\\', '\\', '$', '{'] && !startsWith i ['\\', '$', '[']

/-- `ref_not_close`: none of `}`, `\}`, `\\}` starts here. -/
def refNotClose (i : Str) : Bool :=
  !startsWith i ['}'] && !startsWith i ['\\', '}'] && !startsWith i ['\\', '\\', '}']

/-- Generic greedy character loop: `step i` says, at input `i`, what is emitted and how many
characters (≥ 1) are consumed, or `none` to stop.  `scan step k i` first skips `k`
already-consumed characters.  Structural in the input. Returns (emitted text, rest). -/
def scan (step : Str → Option (Str × Nat)) : Nat → Str → Str × Str
  | _, [] => ([], [])
  | k+1, _ :: cs => scan step k cs
  | 0, c :: cs =>
    match step (c :: cs) with
    | none => ([], c :: cs)
    | some (out, n) =>
      let r := scan step (n - 1) cs
      (out ++ r.1, r.2)

/-- One iteration of `content` = `many1(tuple((ref_not_open, text)))`. -/
def contentStep (i : Str) : Option (Str × Nat) :=
  match i with
  | [] => none
  | c :: _ => if refNotOpen i then some ([c], 1) else none

/-- `content`: (consumed text, rest); empty text means `many1` failed. -/
def content (i : Str) : Str × Str := scan contentStep 0 i

/-- `double_escape`: `\\` followed (peek) by `${` or `}` yields one backslash. -/
def doubleEscape (i : Str) : Option (Str × Str) :=
  match i with
  | '\\' :: '\\' :: rest =>
    if startsWith rest ['$', '{'] || startsWith rest ['}'] then some (['\\'], rest) else none
  | _ => none

/-- `ref_escape_open`: `\${` yields `${`. -/
def refEscapeOpen (i : Str) : Option (Str × Str) :=
  match i with
  | '\\' :: '$' :: '{' :: rest => some (['$', '{'], rest)
  | _ => none

/-- `inv_escape_open`: `\$[` yields `$[`. -/
def invEscapeOpen (i : Str) : Option (Str × Str) :=
  match i with
  | '\\' :: '$' :: '[' :: rest => some (['$', '['], rest)
  | _ => none

/-- `ref_escape_close`: `\}` yields `}`. -/
def refEscapeClose (i : Str) : Option (Str × Str) :=
  match i with
  | '\\' :: '}' :: rest => some (['}'], rest)
  | _ => none

/-- `string` = `alt((double_escape, ref_escape_open, inv_escape_open, content))`. -/
def stringP (i : Str) : Option (Str × Str) :=
  match doubleEscape i with
  | some r => some r
  | none =>
  match refEscapeOpen i with
  | some r => some r
  | none =>
  match invEscapeOpen i with
  | some r => some r
  | none =>
    let r := content i
    if r.1.isEmpty then none else some r

/-- One iteration of `ref_string` = `many1(alt((double_escape, ref_escape_open,
ref_escape_close, inv_escape_open, ref_content)))`. -/
def refStringStep (i : Str) : Option (Str × Nat) :=
  if startsWith i ['\\', '\\'] &&
      (startsWith (i.drop 2) ['$', '{'] || startsWith (i.drop 2) ['}']) then some (['\\'], 2)
  else if startsWith i ['\\', '$', '{'] then some (['$', '{'], 3)
  else if startsWith i ['\\', '}'] then some (['}'], 2)
  else if startsWith i ['\\', '$', '['] then some (['$', '['], 3)
  else match i with
    | [] => none
    | c :: _ => if refNotOpen i && refNotClose i then some ([c], 1) else none

/-- `ref_string`: (text, rest); empty text means `many1` failed. -/
def refString (i : Str) : Str × Str := scan refStringStep 0 i

def Token.isLit : Token → Bool | .lit _ => true | _ => false

/-- `coalesce_literals` on a non-empty list (merges adjacent literals). -/
def coalesce : List Token → List Token
  | [] => []
  | .lit a :: rest =>
    match coalesce rest with
    | .lit b :: rest' => .lit (a ++ b) :: rest'
    | r => .lit a :: r
  | t :: rest => t :: coalesce rest

inductive PErr where | fail | fuel
  deriving DecidableEq, Repr

mutual
/-- `reference` = `delimited(ref_open, many1(ref_item), ref_close)`. -/
def reference : Nat → Str → Except PErr (Token × Str)
  | 0, _ => .error .fuel
  | n+1, '$' :: '{' :: rest =>
    match refItems n rest with
    | .error e => .error e
    | .ok ([], _) => .error .fail
    | .ok (ts, '}' :: rest') => .ok (.ref (coalesce ts), rest')
    | .ok (_, _) => .error .fail
  | _+1, _ => .error .fail
/-- `many1(ref_item)` as a loop: returns the items parsed (possibly none) and the rest. -/
def refItems : Nat → Str → Except PErr (List Token × Str)
  | 0, _ => .error .fuel
  | n+1, i =>
    match reference n i with
    | .error .fuel => .error .fuel
    | .ok (t, rest) =>
      (match refItems n rest with
       | .error e => .error e
       | .ok (ts, rest') => .ok (t :: ts, rest'))
    | .error .fail =>
      let r := refString i
      if !r.1.isEmpty then
        match refItems n r.2 with
        | .error e => .error e
        | .ok (ts, rest') => .ok (.lit r.1 :: ts, rest')
      else .ok ([], i)
end

/-- `many1(item)` as a loop. -/
def items : Nat → Str → Except PErr (List Token × Str)
  | 0, _ => .error .fuel
  | n+1, i =>
    match reference n i with
    | .error .fuel => .error .fuel
    | .ok (t, rest) =>
      (match items n rest with
       | .error e => .error e
       | .ok (ts, rest') => .ok (t :: ts, rest'))
    | .error .fail =>
      match stringP i with
      | some (s, rest) =>
        (match items n rest with
         | .error e => .error e
         | .ok (ts, rest') => .ok (.lit s :: ts, rest'))
      | none => .ok ([], i)

/-- `parser::parse_ref` = `all_consuming(many1(item))` then coalesce / Combined. -/
def parseRefF (fuel : Nat) (s : Str) : Except PErr Token :=
  match items fuel s with
  | .error e => .error e
  | .ok ([], _) => .error .fail
  | .ok (ts, []) =>
    match coalesce ts with
    | [t] => .ok t
    | ts' => .ok (.combined ts')
  | .ok (_, _ :: _) => .error .fail

/-- Enough fuel for any input (`parse_fuel_enough` in `Lemmas/Parser`). -/
def parseFuel (s : Str) : Nat := 2 * s.length + 3

def containsMarker : Str → Bool
  | [] => false
  | '$' :: '{' :: _ => true
  | '$' :: '[' :: _ => true
  | _ :: cs => containsMarker cs

/-- `Token::parse`: `Ok(None)` when no opening marker occurs at all. -/
def Token.parse (s : Str) : R (Option Token) :=
  if !containsMarker s then .ok none
  else match parseRefF (parseFuel s) s with
    | .ok t => .ok (some t)
    | .error .fail => .error (.parse s)
    | .error .fuel => .error .fuel

end Reclass
