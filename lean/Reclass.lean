import Reclass.Model.Basic
import Reclass.Model.Lists
import Reclass.Model.Mapping
import Reclass.Model.Parser
import Reclass.Model.Eval
