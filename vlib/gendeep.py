"""Directed generator families added after the round-3 seeded changes: shapes a random
stack rarely contains (deep collisions below reference layers, wide mappings, long lists,
repeated identical layers, escapes inside embedded containers, both flags on one key)."""
from . import genv as G

SIZES_QUICK = [33, 40, 65, 70, 130]
SIZES_THOROUGH = [33, 40, 65, 70, 130, 260, 520, 1030]


def nest(path, leaf):
    v = leaf
    for k in reversed(path):
        v = G.M([[k, v]])
    return v


def leaf(r, i):
    kind = r.choice(["list", "map", "scalar", "list", "map"])
    if kind == "list":
        return [G.I(i), "e%d" % i]
    if kind == "map":
        return G.M([["k%d" % i, G.I(i)], ["both", G.I(i)]])
    return r.choice([G.I(i), "s%d" % i, True, None])


def deep_ref_layers(r):
    """A parameter whose layers are (mostly or only) whole-value references to mappings that
    collide `d` levels down (d = 2..5); the targets may be reached through alias chains and
    the parameter may itself sit below another mapping."""
    d = r.choice([2, 3, 3, 4, 5, 7, 9, 12])
    path = ["p%d" % j for j in range(d)]
    k = r.range(2, 4)
    same_kind = r.chance(70, 100)
    base = []
    kinds = None
    lv = []
    for i in range(k):
        if same_kind:
            kinds = kinds or r.choice(["list", "map"])
            v = [G.I(i), "e%d" % i] if kinds == "list" else G.M([["k%d" % i, G.I(i)], ["both", G.I(i)]])
        else:
            v = leaf(r, i)
        # a target may stop short of the full path (collision at a shallower level) or add siblings
        pth = path if r.chance(80, 100) else path[: r.range(1, d)]
        t = nest(pth, v)
        if r.chance(30, 100):
            t["m"].append(["side%d" % i, G.I(i)])
        base.append(["t%d" % i, t])
        if r.chance(30, 100):
            base.append(["a%d" % i, "${t%d}" % i])
            lv.append("${a%d}" % i)
        else:
            lv.append("${t%d}" % i)
    mode = r.choice(["allrefs", "allrefs", "one_literal", "first_literal", "last_literal"])
    vals = list(lv)
    if mode == "one_literal":
        j = r.below(k)
        vals[j] = dict(base[[b[0] for b in base].index("t%d" % j)][1])
    elif mode == "first_literal":
        vals[0] = dict(base[[b[0] for b in base].index("t0")][1])
    elif mode == "last_literal":
        vals[-1] = dict(base[[b[0] for b in base].index("t%d" % (k - 1))][1])
    layers = [G.M(base)]
    under = r.chance(25, 100)
    for v in vals:
        layers.append(G.M([["outer", G.M([["k", v]])]]) if under else G.M([["k", v]]))
    if r.chance(40, 100):
        layers.append(G.M([["use", r.choice(["${k}", "x${k}", "${k:%s}" % ":".join(path[: r.range(1, d)])]) if not under else "${outer:k}"]]))
    return layers


def repeated_layers(r):
    """The same raw value (often a reference string) written by two or more consecutive layers;
    the reference resolves to a list, a mapping holding lists, or a scalar."""
    tgt = r.choice([[G.I(1), G.I(2)], G.M([["l", [G.I(1)]], ["s", "x"]]), G.I(7), "txt", [G.M([["a", G.I(1)]])], G.M([["m", G.M([["l", ["a"]]])]])])
    raw = r.choice(["${base}", "${base}", G.M([["in", "${base}"]]), ["${base}"], "${alias}", [G.I(1), G.I(2)], G.M([["l", [G.I(1)]]])])
    n = r.range(2, 4)
    layers = [G.M([["base", tgt], ["alias", "${base}"]])]
    for i in range(n):
        L = [["k", raw]]
        if r.chance(25, 100):
            L.append(["other%d" % i, G.I(i)])
        layers.append(G.M(L))
        if r.chance(15, 100):
            layers.append(G.M([["unrelated", G.I(i)]]))
    if r.chance(30, 100):
        layers.append(G.M([["k", r.choice(["${base}", [G.I(9)], G.M([["z", G.I(1)]])])]]))
    return layers


def wide_mapping(r, tier):
    """A mapping with more entries than any size threshold a fast path might use, holding
    marker keys (~, =), layered keys and references among the filler."""
    n = r.choice(SIZES_QUICK if tier == "quick" else SIZES_THOROUGH)
    filler = [["f%03d" % i, r.choice([G.I(i), "v%d" % i, [G.I(i)], G.M([["x", G.I(i)]])])] for i in range(n)]
    special_first = [["ov", G.M([["a", G.I(1)]])], ["cst", G.I(1)], ["lst", [G.I(1)]], ["mp", G.M([["a", G.I(1)]])], ["sc", G.I(1)]]
    special_later = [[r.choice(["~ov", "ov"]), r.choice([[G.I(2)], G.M([["b", G.I(2)]]), G.I(3)])],
                     [r.choice(["=cst", "cst"]), G.I(2)], ["lst", [G.I(2)]], ["mp", G.M([["b", G.I(2)]])],
                     ["sc", r.choice(["${other}", G.I(5)])]]
    where = r.choice(["nested", "nested", "top"])
    first = list(special_first) + (filler if r.chance(1, 2) else [])
    later = list(filler) + special_later if r.chance(1, 2) else special_later + list(filler)
    if r.chance(1, 2):
        later = r.shuffle(later)
    if where == "nested":
        layers = [G.M([["w", G.M(first)], ["other", G.I(42)]]), G.M([["w", G.M(later)]])]
        if r.chance(1, 3):
            layers.append(G.M([["w", G.M([["cst", G.I(3)]])]]))
    else:
        layers = [G.M(first + [["other", G.I(42)]]), G.M(later)]
    if r.chance(1, 3):
        layers.append(G.M([["viaref", "${w}" if where == "nested" else "${mp}"], ["emb", "x${lst}"]]))
    return layers


def escapes_in_containers(r):
    """Containers reached through an embedded or nested reference whose strings hold escaped
    markers (and sometimes no live reference at all)."""
    pool = ["\\${HOME}", "echo \\${X} done", "\\$[ q ]", "\\\\${name}", "plain", "a\\}b", "\\\\$[x]", "${name}", "$[inv:q]", "C:\\\\${name}\\\\dir"]
    live = r.chance(35, 100)
    items = [r.choice(pool[:7] if not live else pool) for _ in range(r.range(1, 4))]
    cont = r.choice(["list", "map", "nested"])
    if cont == "list":
        c = list(items)
    elif cont == "map":
        c = G.M([["k%d" % i, s] for i, s in enumerate(items)])
    else:
        c = G.M([["in", [G.M([["s", s]]) for s in items]]])
    use = r.choice(["run: ${c}", "${c}", "x${c}y", "${sel:${which}}", "pre ${c} mid ${name}"])
    base = [["name", "web"], ["c", c], ["which", "c"], ["sel", G.M([["c", c]])], ["use", use]]
    layers = [G.M(base)]
    if r.chance(25, 100):
        layers.append(G.M([["c", r.choice([["\\${more}"], G.M([["extra", "\\$[z]"]])]) if cont != "nested" else G.M([["in", ["\\${more}"]]])]]))
    return layers


def both_flags(r):
    """A key that ends up both pending-override and constant (or carries either flag) inside a
    mapping that is copied by a merge through a reference, with writers before and after."""
    first = r.choice(["~k", "k", "=k", "~k"])
    second = r.choice(["=k", "=k", "~k", "k"])
    inner1 = G.M([[first, r.choice([G.I(1), [G.I(1)], G.M([["a", G.I(1)]])])]])
    inner2 = G.M([[second, r.choice([G.I(2), [G.I(2)], G.M([["b", G.I(2)]])])]])
    layers = [G.M([["tmpl", G.M([["pad", G.I(0)]])]]) if r.chance(1, 2) else G.M([["pad", G.I(0)]]),
              G.M([["tmpl", inner1]]), G.M([["tmpl", inner2]])]
    layers.append(G.M([["app", r.choice(["${tmpl}", G.M([["pre", G.I(1)]])])]]))
    if r.chance(1, 2):
        layers.append(G.M([["app", "${tmpl}"]]))
    layers.append(G.M([["app", G.M([[r.choice(["k", "~k", "=k"]), r.choice([G.I(3), [G.I(3)], G.M([["c", G.I(3)]])])]])]]))
    return layers


def many_layers(r, tier="quick"):
    """One key written by many layers (past any threshold at which layers might be compacted): lists, mappings,
    nulls, sometimes one layer of a conflicting kind, sometimes references, and often a final `~` override
    (which must discard everything before it, a conflict included)."""
    n = r.choice(SIZES_QUICK if tier == "quick" else SIZES_THOROUGH[:6])
    kind = r.choice(["list", "map"])
    nested = r.chance(1, 2)
    layers = [G.M([["base", [G.I(0)] if kind == "list" else G.M([["b", G.I(0)]])]])]
    conflict_at = r.below(n) if r.chance(60, 100) else -1
    for i in range(n):
        if i == conflict_at:
            v = r.choice([G.I(99), True, G.M([["odd", G.I(1)]]) if kind == "list" else [G.I(1)]])
        elif r.chance(6, 100):
            v = None
        elif r.chance(8, 100):
            v = "${base}"
        else:
            v = [G.I(i)] if kind == "list" else G.M([["k%d" % (i % 7), G.I(i)]])
        layers.append(G.M([["p", G.M([["k", v]])]]) if nested else G.M([["k", v]]))
    end = r.choice(["override", "override", "none", "plain", "const"])
    if end != "none":
        key = {"override": "~k", "plain": "k", "const": "=k"}[end]
        v = r.choice([[G.I(7)], G.M([["z", G.I(7)]]), G.I(7), "done"])
        layers.append(G.M([["p", G.M([[key, v]])]]) if nested else G.M([[key, v]]))
    if r.chance(1, 3):
        layers.append(G.M([["use", "${p:k}" if nested else "${k}"]]))
    return layers


def many_refs(r, tier="quick"):
    """More sibling references in one string, and more reference layers on one parameter, than the depth limit (64)
    counts along any single chain: none of this is deep, so nothing may be rejected."""
    n = r.choice([10, 33, 63, 64, 65, 70, 130] if tier == "quick" else [63, 64, 65, 70, 130, 260, 520])
    mode = r.choice(["string", "string_chains", "layers", "nested_layers", "string_containers"])
    base = [["k%d" % i, r.choice([G.I(i), "v%d" % i])] for i in range(n)]
    if mode == "string":
        return [G.M(base + [["joined", "|".join("${k%d}" % i for i in range(n))]])]
    if mode == "string_chains":
        c = r.range(2, 8)
        m = max(2, n // c)
        ch = []
        for i in range(m):
            ch.append(["c%d_0" % i, G.I(i)])
            for j in range(1, c):
                ch.append(["c%d_%d" % (i, j), "${c%d_%d}" % (i, j - 1)])
        return [G.M(ch + [["joined", "-".join("${c%d_%d}" % (i, c - 1) for i in range(m))]])]
    if mode == "string_containers":
        m = max(2, n // 2)
        return [G.M([["m", G.M([["a", G.I(1)]])], ["l", [G.I(1), "x"]], ["joined", " ".join("${m}${l}" for _ in range(m))]])]
    if mode == "layers":
        kind = r.choice(["list", "map"])
        tg = [["t%d" % i, [G.I(i)] if kind == "list" else G.M([["k%d" % i, G.I(i)]])] for i in range(n)]
        return [G.M(tg)] + [G.M([["p", "${t%d}" % i]]) for i in range(n)]
    # nested_layers: reference layers stacked on reference layers
    w = r.range(3, 5)
    layers = []
    for i in range(w):
        layers.append(G.M([["leaf%d" % i, G.M([["x%d" % i, G.I(i)]])], ["l1", "${leaf%d}" % i], ["l2", "${l1}"], ["l3", "${l2}"]]))
    layers.append(G.M([["top", "${l3}"]]))
    return layers


def empty_segments(r):
    """Empty keys and empty path segments: '' is an ordinary key, `${m:}` looks it up, `${:a}` starts with it,
    and a nested reference may render to the empty string."""
    inner = G.M([["", r.choice([G.I(1), G.M([["cpu", G.I(1)]]), [G.I(1)], "empty-key"])], ["big", G.I(2)], ["a", G.M([["", G.I(3)]])]])
    has_top_empty = r.chance(1, 2)
    base = [["m", inner], ["variant", ""], ["noempty", G.M([["a", G.I(1)]])]]
    if has_top_empty:
        base.append(["", G.M([["a", G.I(9)], ["", G.I(8)]])])
    uses = ["${m:}", "${m:${variant}}", "${noempty:}", "${m:a:}", "${:a}", "${:}", "${m::}", "x${m:}y", "${noempty:${variant}}", "${}", "${m:big}", "${m:a}"]
    L = base + [["u%d" % i, u] for i, u in enumerate(r.shuffle(uses)[: r.range(1, 4)])]
    return [G.M(L)]


def override_through_path(r):
    """A nested `~key` (or `=key`, or null) inside a mapping that several layers define, read through multi-segment
    references that walk through the layered mapping."""
    k = r.choice(["limits", "mode"])
    first = r.choice([G.M([["mem", G.I(1)], ["cpu", G.I(2)]]), [G.I(1), G.I(2)], "simple"])
    second = r.choice([G.M([["mem", G.I(5)]]), [G.I(9)], "other", None])
    marker = r.choice(["~", "~", "", "="])
    layers = [G.M([["svc", G.M([[k, first], ["keep", G.I(1)]])]])]
    if r.chance(1, 2):
        layers.append(G.M([["svc", G.M([["extra", G.I(2)]])]]))
    layers.append(G.M([["svc", G.M([[marker + k, second]])]]))
    if r.chance(1, 3):
        layers.append(G.M([["svc", G.M([[k, r.choice([G.M([["late", G.I(3)]]), [G.I(3)]])]])]]))
    uses = ["${svc:%s}" % k, "${svc:%s:mem}" % k, "x-${svc:%s}" % k, "${svc}", "${svc:keep}", "${svc:%s:cpu}" % k]
    layers.append(G.M([["u%d" % i, u] for i, u in enumerate(r.shuffle(uses)[: r.range(1, 4)])]))
    return layers


def embedded_chain(r, tier="quick"):
    """An acyclic chain of n references around the depth limit where hops are embedded in text, whole-value, inside a
    list or behind a path: every chain shorter than the limit must render, longer ones are a depth error, never a loop."""
    n = r.choice([10, 31, 32, 33, 34, 40, 50, 60, 62, 63, 64, 65, 66, 70])
    style = r.choice(["embedded", "embedded", "mixed", "whole", "prefix_only"])
    base = []
    for i in range(n):
        nxt = "p%03d" % (i + 1)
        form = style if style != "mixed" else r.choice(["embedded", "whole", "prefix_only", "list"])
        if form == "embedded":
            v = "x-${%s}-y" % nxt
        elif form == "prefix_only":
            v = "<${%s}" % nxt
        elif form == "list":
            v = ["${%s}" % nxt]
        else:
            v = "${%s}" % nxt
        base.append(["p%03d" % i, v])
    base.append(["p%03d" % n, r.choice(["end", G.I(7)])])
    if r.chance(1, 3):
        base = r.shuffle(base)
    return [G.M(base)]


def empty_const(r):
    """A constant (or override) marker on an EMPTY container, over nothing / a plain container of the same or another
    kind, with a later writer of the key."""
    kind = r.choice(["map", "list"])
    empty = G.M([]) if kind == "map" else []
    if r.chance(1, 4):
        empty = None   # a constant (or override) whose value is null
    full = G.M([["a", G.I(1)]]) if kind == "map" else [G.I(1)]
    other = [G.I(1)] if kind == "map" else G.M([["a", G.I(1)]])
    nested = r.chance(1, 2)
    def wrap(e):
        return G.M([["p", G.M([e])]]) if nested else G.M([e])
    layers = []
    if r.chance(3, 4):
        layers.append(wrap(["k", r.choice([full, full, other, empty])]))
    layers.append(wrap([r.choice(["=k", "=k", "~k", "~=k"]), r.choice([empty, empty, full])]))
    late = r.choice([full, empty, G.M([["b", G.I(2)]]) if kind == "map" else [G.I(2)], G.I(5)])
    if r.chance(1, 3):
        layers.append(G.M([["src", late]]))
        late = "${src}"
    layers.append(wrap([r.choice(["k", "k", "~k"]), late]))
    return layers


def null_const(r):
    """A key marked constant while its value is null (directly or through a reference resolving to null), redefined
    later: the constant must hold."""
    nested = r.chance(1, 2)
    def wrap(e):
        return G.M([["p", G.M([e])]]) if nested else G.M([e])
    layers = [G.M([["nul", None], ["pad", G.I(0)]])]
    if r.chance(1, 3):
        layers.append(wrap(["k", r.choice([G.I(1), None, [G.I(1)]])]))
    layers.append(wrap(["=k", r.choice([None, None, "${nul}"])]))
    late = r.choice([G.I(2), "two", [G.I(2)], G.M([["a", G.I(2)]]), None])
    layers.append(wrap([r.choice(["k", "k", "~k", "=k"]), late]))
    if r.chance(1, 3):
        layers.append(wrap(["k", G.I(3)]))
    if r.chance(1, 3):
        layers.append(G.M([["use", "${p:k}" if nested else "${k}"]]))
    return layers


def odd_keys(r):
    """Keys that are only a marker ("~", "="), the empty key, and keys with leading/trailing whitespace, written by one
    or two layers and read through references that spell them exactly."""
    k1 = r.choice(["tier ", " env", "cpu\t", "a b", "tier", " "])
    bare = k1.strip() or "x"
    labels = [[k1, G.I(42)], [bare, "backend"]] if r.chance(2, 3) else [[k1, G.I(42)]]
    layers = [G.M([["labels", G.M(labels)], ["u1", "${labels:%s}" % k1], ["u2", "t=${labels:%s}" % k1], ["u3", "${labels:%s}" % bare]])]
    mk = r.choice(["~", "=", "", "~", "="])
    first = r.choice([[G.I(1)], G.M([["a", G.I(1)]]), G.I(1)])
    layers.append(G.M([["", first]]) if r.chance(1, 2) else G.M([["pad", G.I(0)]]))
    layers.append(G.M([[mk, r.choice([[G.I(2)], G.M([["b", G.I(2)]]), G.I(2)])]]))
    if r.chance(1, 2):
        layers.append(G.M([[r.choice(["", "=", "~"]), r.choice([[G.I(3)], G.I(3)])]]))
    if r.chance(1, 2):
        layers.append(G.M([["nested", G.M([[mk, G.I(5)], ["", G.I(6)]])]]))
    return layers


def dup_in_one_mapping(r):
    """One YAML mapping writes a key twice (~k and k, =k and k, k and ~k): the value stored for k in that layer is
    itself a layer list with a pending flag; it is merged onto a key that earlier layers already define."""
    kind = r.choice(["list", "map", "scalar"])
    def v(i):
        return [G.I(i)] if kind == "list" else (G.M([["k%d" % i, G.I(i)]]) if kind == "map" else G.I(i))
    nested = r.chance(1, 2)
    def wrap(pairs):
        return G.M([["app", G.M(pairs)]]) if nested else G.M(pairs)
    layers = [wrap([["ports", v(0)]])]
    if r.chance(1, 2):
        layers.append(wrap([["ports", v(9)]]))
    a, b = r.choice([("~ports", "ports"), ("ports", "~ports"), ("=ports", "ports"), ("~ports", "=ports"), ("ports", "ports")])
    layers.append(wrap([[a, v(1)], ["other", G.I(5)], [b, v(2)]]))
    if r.chance(1, 3):
        layers.append(wrap([["ports", v(3)]]))
    if r.chance(1, 2):
        layers.append(G.M([["use", "${app:ports}" if nested else "${ports}"]]))
    return layers


def colon_selectors(r):
    """A nested reference inside a path whose rendered value itself contains ':' supplies several path segments."""
    sizes = G.M([["tier", G.M([["web", G.I(2)], ["db", G.M([["cpu", G.I(8)]])]])], ["flat", G.I(1)]])
    sel = r.choice(["tier:web", "tier:db:cpu", "tier:db", "flat", "tier:cache", "sizes:tier:web"])
    uses = ["${sizes:${selector}}", "x${sizes:${selector}}", "${${where}}", "${sizes:${selector}:cpu}"]
    return [G.M([["sizes", sizes], ["selector", sel], ["where", r.choice(["sizes:tier:db:cpu", "sizes:flat", "sizes:tier:nope"])]] +
                [["u%d" % i, u] for i, u in enumerate(r.shuffle(uses)[: r.range(1, 3)])])]


def same_value_layers(r):
    """Layers that restate the value already on top (scalars, also with a constant or override marker), identical
    mappings/lists in successive layers (lists must concatenate), and layers differing only in float values."""
    mode = r.choice(["const_same", "const_same", "identical_maps", "floats", "identical_lists"])
    nested = r.chance(1, 2)
    def wrap(e):
        return G.M([["p", G.M([e])]]) if nested else G.M([e])
    if mode == "const_same":
        v = r.choice([G.I(5), "eu-west", True, {"f": ["0.5", ""]}, None])
        layers = [wrap(["region", v])]
        if r.chance(1, 3):
            layers.append(wrap(["region", v]))
        layers.append(wrap([r.choice(["=region", "=region", "~region", "region"]), v]))
        late = r.choice([G.I(6), "us-east", v])
        if r.chance(1, 3):
            layers.append(G.M([["src", G.M([["region", late]])]]))
            layers.append(G.M([["p", "${src}"]]) if nested else wrap(["region", late]))
        else:
            layers.append(wrap([r.choice(["region", "=region", "~region"]), late]))
        return layers
    if mode == "identical_maps":
        m = G.M([["install", [r.choice(["vim", G.I(1)])]], ["k", G.I(1)]])
        return [wrap(["pkgs", m]) for _ in range(r.range(2, 4))] + ([G.M([["use", "${p:pkgs}" if nested else "${pkgs}"]])] if r.chance(1, 2) else [])
    if mode == "identical_lists":
        return [wrap(["l", [G.I(1), "a"]]) for _ in range(r.range(2, 4))]
    fa, fb = r.choice([("0.5", "0.75"), ("1.5", "2.5"), ("0.1", "1e-7")])
    return [wrap(["limits", G.M([["ratio", {"f": [fa, ""]}], ["w", [{"f": [fa, ""]}]]])]), wrap(["limits", G.M([["ratio", {"f": [fb, ""]}], ["w", [{"f": [fb, ""]}]]])])]


def sibling_fullpath_refs(r):
    """A mapping referenced as a whole whose values refer to sibling keys by their full path (a diamond, not a loop)."""
    inner = [["name", "app"], ["fullname", "${defaults:name}-prod"], ["n", G.M([["deep", "${defaults:name}"]])]]
    layers = [G.M([["defaults", G.M(inner)], ["instance", "${defaults}"]])]
    if r.chance(1, 2):
        layers.append(G.M([["defaults", G.M([["extra", "${defaults:fullname}"]])]]))
    layers.append(G.M([["a", "${b}"], ["b", r.choice(["${defaults}", "${defaults:n}", "x${defaults}"])]]))
    return layers


def ref_layer_self_lookup(r):
    """A multiply-defined parameter one of whose layers is a whole-value reference, while a mapping layer of the same
    parameter looks back into that parameter by a colon path (${cfg:port}) -- a legal sibling lookup, not a loop."""
    nested = r.chance(1, 3)
    pfx = "app:" if nested else ""
    look = r.choice(["http://x:${%scfg:port}" % pfx, "${%scfg:port}" % pfx, "${%scfg:opts:host}" % pfx])
    a = {"port": 80, "opts": {"tls": False, "host": "x"}, "urls": [look]}
    if r.chance(1, 2):
        a["self"] = "${%scfg:port}" % pfx
    extra = r.choice([{"opts": {"tls": True}, "urls": ["https://y"]}, {"port": 81}, {"opts": {"host": "${other}"}}])
    c = {"opts": {"host": "z"}, "urls": ["z"]}
    def wrap(v):
        return {"app": {"cfg": v}} if nested else {"cfg": v}
    stack = [wrap(a), {"extra": extra, "other": "o"}, wrap("${extra}")]
    order = r.choice(["a_ref", "ref_a", "a_ref_c", "a_c_ref"])
    if order == "ref_a":
        stack = [{"extra": extra, "other": "o"}, wrap("${extra}"), wrap(a)]
    elif order == "a_ref_c":
        stack.append(wrap(c))
    elif order == "a_c_ref":
        stack = [wrap(a), wrap(c), {"extra": extra, "other": "o"}, wrap("${extra}")]
    if r.chance(1, 2):
        stack.append({"outside": r.choice(["${%scfg:port}" % pfx, "${%scfg:urls}" % pfx, "p=${%scfg:opts:host}" % pfx])})
    return G.P(*stack)["layers"]



def padded_refs(r):
    """A string that is ONE reference surrounded only by whitespace (leading/trailing blanks, tabs, the newline a YAML block
    scalar ends with): still a mixed string, so the result is text -- padding kept, scalars in their text form, containers
    as JSON -- also when such a value is embedded further or used as a path segment."""
    pads = [" ", "  ", "\t", "\n", " \n", "\u00a0"]
    tgt = r.choice(["n", "f", "t", "z", "s", "m", "l", "e"])
    lead = r.choice(pads + ["", ""])
    trail = r.choice(pads + [""]) if lead else r.choice(pads)
    base = {"n": 5, "f": 1.5, "t": True, "z": None, "s": "abc", "e": "", "m": {"a": "v", "b": [1, 2]}, "l": [1, "x"], "key": "a"}
    layer = dict(base)
    layer["pad"] = lead + "${" + tgt + "}" + trail
    if r.chance(1, 2):
        layer["outer"] = "[${pad}]"
    if r.chance(1, 3):
        layer["padkey"] = r.choice([" ${key}", "${key} ", "${key}\n"])
        layer["sel"] = "${m:${padkey}}"
    if r.chance(1, 3):
        layer["inlist"] = [lead + "${" + tgt + "}" + trail, "${" + tgt + "}"]
    layers = [layer]
    if r.chance(1, 3):
        layers.append({"pad": r.choice([lead + "${s}", "${n}" + (trail or " ")])})
    return G.P(*layers)["layers"]


def escaped_through_lookup(r):
    """Text written with escaped markers (\\${X}, \\$[X], \\\\${name}) reached by a multi-segment lookup THROUGH another
    reference, by a reference to a reference, and as a layer: unescaped exactly once, never looked up."""
    esc = r.choice(["\\${X}", "\\${HOME}/bin", "pre \\${X} post", "\\$[X]", "\\\\${name}", "a\\${X}b\\${Y}", "\\${X:y}"])
    defaults = {"label": esc, "plain": "p", "n": {"deep": esc}}
    layer = {"defaults": defaults, "app": "${defaults}", "name": r.choice(["N", "\\${x}"]), "out": r.choice(["${app:label}", "${app:n:deep}", "x${app:label}y", "${app:n}"])}
    if r.chance(1, 2):
        layer["X"] = "should-not-appear"
    if r.chance(1, 2):
        layer["via"] = "${out}"
        layer["via2"] = "${via}"
    if r.chance(1, 3):
        layer["lst"] = ["${app:label}", esc]
    layers = [layer]
    if r.chance(1, 3):
        layers.append({"app": {"extra": 1}})
    if r.chance(1, 3):
        layers.append({"defaults": {"label": esc}})
    return G.P(*layers)["layers"]



def wide_layer_lookup(r):
    """A reference with two or more segments into a parameter defined by several mapping layers of which one is WIDE
    (9-70 entries) and writes the looked-up key with a marker (~key, =key) or plainly, next to narrower layers that also
    define it: what the reference yields must be what the parameter itself renders to at that path."""
    n = r.choice([9, 10, 16, 17, 33, 64, 65, 70])
    filler = {"f%02d" % i: r.choice([i, "v%d" % i, [i]]) for i in range(n)}
    kind = r.choice(["list", "map", "list_scalar", "scalar"])
    old = {"list": ["a", "b"], "map": {"port": 1, "host": "h"}, "list_scalar": ["a", "b"], "scalar": 1}[kind]
    new = {"list": ["c"], "map": {"port": 2}, "list_scalar": "plain", "scalar": 2}[kind]
    marker = r.choice(["~", "~", "=", ""])
    nested = r.chance(1, 3)
    first = {"key": old, "other": 0}
    if r.chance(1, 2):
        first.update({"g%02d" % i: i for i in range(r.choice([0, 9, 40]))})
    wide = dict(filler)
    items = list(wide.items())
    pos = r.below(len(items) + 1)
    items[pos:pos] = [(marker + "key", new)]
    wide = dict(items)
    def wrap(v):
        return {"top": {"parent": v}} if nested else {"parent": v}
    pfx = "top:parent" if nested else "parent"
    layers = [wrap(first), wrap(wide)]
    if r.chance(1, 3):
        layers.append(wrap({"key": r.choice([["z"], {"extra": 1}, "late"]), "more": 1}))
    uses = {"view": "${%s:key}" % pfx, "emb": "x${%s:key}y" % pfx}
    if kind == "map":
        uses["deep"] = "${%s:key:port}" % pfx
    if r.chance(1, 2):
        uses["sel"] = "key"
        uses["via"] = "${%s:${sel}}" % pfx
    layers.append(uses)
    return G.P(*layers)["layers"]


def embedded_through_layers(r):
    """An EMBEDDED reference (text around it, or nested inside another reference's path) with two or more segments whose
    non-final segment is a parameter defined in several layers and whose target -- a list or mapping defined in one of
    the layers only, or a string -- itself holds references or escaped markers: the text must be that of the fully rendered
    value."""
    inner = r.choice([["web.${domain}", "db.${domain}"], {"primary": "${domain}", "n": ["${port}"]}, "h.${domain}", ["\\${lit}", "${domain}"],
                      "rate(errors\\$[5m]) > 0", "plain"])
    l1 = {"hosts": inner, "name": "app"} if r.chance(1, 2) else {"name": "app"}
    l2 = {"replicas": 2}
    if "hosts" not in l1:
        l2["hosts"] = inner
    nested = r.chance(1, 3)
    def wrap(v):
        return {"svc": {"app": v}} if nested else {"app": v}
    pfx = "svc:app" if nested else "app"
    layers = [dict(wrap(l1), domain="example.com", port=80), wrap(l2)]
    if r.chance(1, 2):
        layers = [layers[1], layers[0]]
    if r.chance(1, 3):
        # not layered at all: a plain mapping reached by a literal path
        layers = [dict(wrap(dict(l1, **l2)), domain="example.com", port=80)]
    uses = {"cmd": "run --hosts=${%s:hosts}" % pfx}
    if r.chance(1, 2):
        uses["msg"] = "firing on ${%s:hosts}!" % pfx
    if r.chance(1, 3):
        uses["index"] = {"plain": "found", "h.example.com": "found2"}
        uses["sel"] = "${index:${%s:hosts}}" % pfx
    if r.chance(1, 3):
        uses["whole"] = "${%s:hosts}" % pfx
    layers.append(uses)
    return G.P(*layers)["layers"]


def dangling_then_reset(r):
    """A layer holds a reference to a path that does not exist (or a cycle, or a parse error) and a LATER layer replaces
    the parameter by null or overrides it: every layer is still interpolated, so the error is reported."""
    bad = r.choice(["${no:such}", "${missing}", "x${missing}", "${", "${selfk}", ["${missing}"], {"a": "${no:such}"}])
    nested = r.chance(1, 3)
    def wrap(v):
        return {"outer": {"selfk": v}} if nested else {"selfk": v}
    later = r.choice([None, None, "fine", {"a": 1}, [1]])
    layers = [wrap(r.choice([1, {"a": 0}, bad])), wrap(bad), wrap(later)]
    if r.chance(1, 2):
        layers.append(wrap(r.choice([{"b": 2}, "after", None])))
    if r.chance(1, 2):
        layers.append({"use": "${outer:selfk}" if nested else "${selfk}", "use2": "${outer:selfk:a}" if nested else "${selfk:a}"})
    return G.P(*layers)["layers"]


FAMILIES = {"wide_layer_lookup": wide_layer_lookup, "embedded_through_layers": embedded_through_layers, "dangling_then_reset": dangling_then_reset, "padded_refs": padded_refs, "escaped_through_lookup": escaped_through_lookup, "ref_layer_self_lookup": ref_layer_self_lookup, "colon_selectors": colon_selectors, "same_value_layers": same_value_layers, "sibling_fullpath_refs": sibling_fullpath_refs,
            "dup_in_one_mapping": dup_in_one_mapping, "odd_keys": odd_keys, "null_const": lambda r: null_const(r), "empty_segments": empty_segments, "override_through_path": override_through_path, "empty_const": empty_const,
            "deep_ref_layers": deep_ref_layers, "repeated_layers": repeated_layers, "escapes_in_containers": escapes_in_containers,
            "both_flags": both_flags}
