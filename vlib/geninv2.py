"""Inventory-level generator additions after the round-3 seeded changes: one class file
reachable under two class names (symlinked file or directory), so that anything keyed by
the file instead of the name shows; stems that merely end in `init`."""
import posixpath


def class_name_of(path):
    """classes/d1/c0.yml -> (['d1'], 'c0', 'd1.c0'); init files name their directory."""
    assert path.startswith("classes/")
    segs = path[len("classes/"):].split("/")
    stem = segs[-1].rsplit(".", 1)[0]
    d = segs[:-1]
    if stem == "init":
        return d[:-1], d[-1] if d else "", ".".join(d)
    return d, stem, ".".join(d + [stem])


def add_aliases(r, case, p_dir=50):
    """Add symlinks that make existing class files reachable under a second name in another
    directory, and make nodes (and sometimes classes) include the alias names, alone or next
    to the real name. Returns the number of aliases added."""
    files = case["files"]
    cls = [f for f in files if f["path"].startswith("classes/") and f.get("kind", "file") == "file"]
    if not cls:
        return 0
    aliases = []   # (alias dotted name, real dotted name)
    top_dirs = sorted({f["path"].split("/")[1] for f in cls if f["path"].count("/") >= 2})
    if top_dirs and r.chance(p_dir, 100):
        d = r.choice(top_dirs)
        link = r.choice(["l1", "zz", "al"])
        files.append({"path": "classes/" + link, "kind": "symlink", "target": d})
        for f in cls:
            if f["path"].startswith("classes/%s/" % d):
                _, _, nm = class_name_of(f["path"])
                aliases.append((link + nm[len(d):], nm))
    else:
        for f in r.shuffle(cls)[: r.range(1, 2)]:
            d, stem, nm = class_name_of(f["path"])
            if f["path"].rsplit("/", 1)[-1].startswith("init."):
                continue
            nd = r.choice([x for x in (["k1"], ["k1", "k2"], [], ["d1"], ["e1"]) if x != d])
            base = f["path"].rsplit("/", 1)[-1]
            lp = "classes/" + "/".join(nd + [base])
            if any(g["path"] == lp for g in files):
                continue
            target = posixpath.relpath(f["path"], posixpath.dirname(lp))
            files.append({"path": lp, "kind": "symlink", "target": target})
            aliases.append((".".join(nd + [stem]), nm))
    if not aliases:
        return 0
    nodes = [f for f in files if f["path"].startswith("nodes/") and isinstance(f.get("content"), dict)]
    for f in nodes:
        if not r.chance(70, 100):
            continue
        incs = f["content"].setdefault("classes", [])
        for _ in range(r.range(1, 2)):
            al, real = r.choice(aliases)
            mode = r.choice(["alias", "real_then_alias", "alias_then_real"])
            add = {"alias": [al], "real_then_alias": [real, al], "alias_then_real": [al, real]}[mode]
            pos = r.below(len(incs) + 1)
            incs[pos:pos] = add
    # different nodes using the real and the alias name (cross-node leakage on one instance)
    if len(nodes) >= 2:
        al, real = r.choice(aliases)
        nodes[0]["content"].setdefault("classes", []).append(real)
        nodes[-1]["content"].setdefault("classes", []).append(al)
    return len(aliases)


def relref_groups(r, case, n_nodes=(6, 14)):
    """An include written as a reference whose value is a RELATIVE class name, used from classes in
    two or three directories reached by different nodes: whatever is remembered about "the class
    called .rimpl" for one group is wrong for the other."""
    from . import genv as G
    groups = ["g%d" % k for k in range(r.range(2, 3))]
    extra = [{"path": "classes/rdefs.yml", "content": {"parameters": G.enc({"rimpl": r.choice([".rimpl", "..rimpl", ".sub.rimpl"])})}}]
    for g in groups:
        body = {"classes": ["${rimpl}"], "parameters": G.enc({"entry": g})}
        if r.chance(1, 2):
            body["applications"] = ["entry_" + g]
        extra.append({"path": "classes/%s/entry.yml" % g, "content": body})
        extra.append({"path": "classes/%s/rimpl.yml" % g, "content": {"parameters": G.enc({"which": g, "wl": [g]}), "applications": ["impl_" + g]}})
        if r.chance(2, 3):
            extra.append({"path": "classes/%s/sub/rimpl.yml" % g, "content": {"parameters": G.enc({"which": g + ".sub"})}})
    if r.chance(2, 3):
        extra.append({"path": "classes/rimpl.yml", "content": {"parameters": G.enc({"which": "root"})}})
    for k in range(r.range(*n_nodes)):
        g = groups[k % len(groups)]
        extra.append({"path": "nodes/r%02d.yml" % k, "content": {"classes": ["rdefs", "%s.entry" % g]}})
    have = {f["path"] for f in case["files"]}
    case["files"].extend(f for f in extra if f["path"] not in have)
    return case
